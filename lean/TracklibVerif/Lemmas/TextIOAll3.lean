import TracklibVerif.Lemmas.TextIOAll
/-! `read_all` when the reader's header count covers the whole header block (`h = 3`): the names line is consumed by the
header loop *with its newline* (`line[1:].split(sep)` on the raw line; the names are stripped afterwards), no comment line
is left for the data loop, and the second pass meets a data line as its raw first line (core only). -/
namespace TV.TextIO
open TV.ObsTime

/-- `(s + "\n").strip() == s` for a text without blanks at either end -/
theorem strip_snoc_nl (s : Str) (hne : s ≠ []) (h1 : ∀ c, s.head? = some c → isWs c = false)
    (h2 : ∀ c, s.getLast? = some c → isWs c = false) : strip (s ++ ['\n']) = s := by
  cases s with
  | nil => exact absurd rfl hne
  | cons a r =>
    unfold strip
    rw [List.cons_append, lstrip_cons_of_not_ws _ (h1 a rfl)]
    unfold rstrip
    have hrev : (a :: (r ++ ['\n'])).reverse = '\n' :: (a :: r).reverse := by simp
    rw [hrev]
    have hnl : isWs '\n' = true := by decide
    simp only [List.dropWhile, hnl]
    cases hr : (a :: r).reverse with
    | nil => simp at hr
    | cons c cs =>
      have hlast : (a :: r).getLast? = some c := by rw [List.getLast?_eq_head?_reverse, hr]; rfl
      simp only [List.dropWhile, h2 c hlast]
      rw [← hr, List.reverse_reverse]

theorem strip_fieldOK_nl (sep : Char) (s : Str) (h : FieldOK sep s) : strip (s ++ ['\n']) = s :=
  strip_snoc_nl s h.1.1 (fun c hc => (h.1.2.1 c hc).1) h.1.2.2

/-- `(c.join(vs + [last]) + x).split(c) == vs + [last + x]` when `x` is not the separator -/
theorem splitOnChar_joinChar_snoc (c x : Char) (hx : c ≠ x) (vs : List Str) (last : Str)
    (h : ∀ v ∈ vs, c ∉ v) (hl : c ∉ last) :
    splitOnChar c (joinChar c (vs ++ [last]) ++ [x]) = vs ++ [last ++ [x]] := by
  induction vs with
  | nil =>
    simp only [List.nil_append, joinChar]
    exact splitOnChar_of_not_mem c _ (by simp [hl, hx])
  | cons a r ih =>
    have hj : joinChar c (a :: r ++ [last]) = a ++ c :: joinChar c (r ++ [last]) := by
      cases r <;> rfl
    rw [hj, List.append_assoc, List.cons_append, splitOnChar_append c a _ (h a (by simp)),
      ih (fun v hv => h v (by simp [hv]))]
    rfl

/-- a line made of good fields: not empty, no blank at either end -/
theorem joinChar_ends (sep : Char) (fs : List Str) (hne : fs ≠ []) (hf : ∀ s ∈ fs, FieldOK sep s) :
    joinChar sep fs ≠ [] ∧ (∀ c, (joinChar sep fs).head? = some c → isWs c = false) ∧
      (∀ c, (joinChar sep fs).getLast? = some c → isWs c = false) := by
  obtain ⟨a, r, rfl⟩ : ∃ a r, fs = a :: r := by
    cases fs with
    | nil => exact absurd rfl hne
    | cons a r => exact ⟨a, r, rfl⟩
  have ha := (hf a (by simp)).1
  have hhead := joinChar_head sep a r ha.1
  refine ⟨?_, ?_, ?_⟩
  · obtain ⟨c, cs, hj, _⟩ := (joinChar_line sep (a :: r) hne (fun s hs => (hf s hs).1)).2
    rw [hj]; simp
  · intro c hc
    rw [hhead] at hc
    exact (ha.2.1 c hc).1
  · intro c hc
    have hlast := (hf ((a :: r).getLast hne) (List.getLast_mem hne)).1
    rw [joinChar_getLast sep (a :: r) hne hlast.1] at hc
    exact hlast.2.2 c hc

/-- the fields of a RAW line (`readline()` without `strip()`): the last one carries the newline; stripped, they are the fields -/
theorem fields_raw (sep : Char) (hnl : sep ≠ '\n') (fs : List Str) (hne : fs ≠ []) (h : ∀ s ∈ fs, FieldOK sep s) :
    ∃ fs', (splitOnChar sep (joinChar sep fs ++ ['\n'])).filter (fun s => !s.isEmpty) = fs' ∧ fs'.map strip = fs ∧
      strip (joinChar sep fs ++ ['\n']) = joinChar sep fs := by
  obtain ⟨vs, last, rfl⟩ : ∃ vs last, fs = vs ++ [last] :=
    ⟨fs.dropLast, fs.getLast hne, (List.dropLast_concat_getLast hne).symm⟩
  have hlast := h last (by simp)
  have hinit : ∀ s ∈ vs, FieldOK sep s := fun s hs => h s (by simp [hs])
  refine ⟨vs ++ [last ++ ['\n']], ?_, ?_, ?_⟩
  · rw [splitOnChar_joinChar_snoc sep '\n' hnl _ _ (fun v hv => (hinit v hv).2.1) hlast.2.1]
    apply List.filter_eq_self.2
    intro s hs
    rcases List.mem_append.1 hs with hs | hs
    · have := (hinit s hs).1.1
      cases s with
      | nil => exact absurd rfl this
      | cons _ _ => rfl
    · simp only [List.mem_singleton] at hs
      subst hs
      cases last <;> rfl
  · rw [List.map_append, List.map_singleton, strip_fieldOK_nl sep _ hlast]
    have hid : ∀ s ∈ vs, strip s = id s := fun s hs => strip_of_fieldOK _ s (hinit s hs)
    rw [List.map_congr_left hid, List.map_id]
  · obtain ⟨h1, h2, h3⟩ := joinChar_ends sep _ hne h
    exact strip_snoc_nl _ h1 h2 h3

theorem hdrLoopNames_last (sep cmt : Char) (pre : List (Str × Str)) (l : Str × Str) (ls : List (Str × Str))
    (nm : Option (List Str)) :
    hdrLoopNames sep cmt (pre.length + 1) (pre ++ l :: ls) nm
      = .ok (ls, some (splitOnChar sep (if l.2.head? = some cmt then l.2.drop 1 else l.2))) := by
  induction pre generalizing nm with
  | nil => simp [hdrLoopNames, pure, Except.pure]
  | cons a r ih => simpa [hdrLoopNames] using ih _

/-- a written data line given by its fields: the `nSpecial` coordinate / time columns followed by one text per feature name,
every field a good field, the text of feature `j` stored as `vals[j]` -/
def AFLineF (f : CsvFmt) (names : List Str) (l : Str) (vals : List AFRead) : Prop :=
  ∃ cf texts, l = joinChar f.sep (cf ++ texts) ∧ (∀ s ∈ cf ++ texts, FieldOK f.sep s) ∧ cf.length = nSpecial f ∧
    texts.length = names.length ∧ vals.length = names.length ∧
    ∀ j (_ : j < names.length) (_ : j < texts.length) (_ : j < vals.length), afValue names[j] texts[j] = .ok vals[j]

theorem nSpecial_pos (f : CsvFmt) : 0 < nSpecial f := by unfold nSpecial; omega

theorem afLine_of_F (f : CsvFmt) (hnl : f.sep ≠ '\n') (names : List Str) (l : Str) (vals : List AFRead)
    (h : AFLineF f names l vals) : AFLine f names l vals ∧ '\n' ∉ l := by
  obtain ⟨cf, texts, rfl, hok, hcf, ht, hvl, hval⟩ := h
  have hne : cf ++ texts ≠ [] := by
    intro e
    have : (cf ++ texts).length = 0 := by rw [e]; rfl
    rw [List.length_append, hcf] at this
    have := nSpecial_pos f
    omega
  obtain ⟨hfl, hst, _, hc, hnl'⟩ := fields_of_join f.sep hnl _ hne hok
  refine ⟨⟨hst, hc, cf, texts, hfl, hcf, ht, hvl, ?_⟩, hnl'⟩
  intro j h1 h2 h3
  rw [strip_of_fieldOK f.sep _ (hok _ (List.mem_append_right _ (List.getElem_mem h2)))]
  exact hval j h1 h2 h3

/-- the second pass on a data line met RAW (the first line after the header lines): same values -/
theorem afLoop_first_data (f : CsvFmt) (hv : ValidIds f) (hnl : f.sep ≠ '\n') (cn names : List Str)
    (hcn : cn.length = nSpecial f) (hnd : names.Nodup) (x : Str × List AFRead) (hx : AFLineF f names x.1 x.2)
    (rest : List (Str × Str)) (fs : List (List AFRead)) (hk : 0 < fs.length) (hft : fs[0].length = names.length) :
    afLoop f '#' (cn ++ names) names true (pr x.1 :: rest) 0 fs
      = afLoop f '#' (cn ++ names) names false rest 1 (fs.set 0 x.2) := by
  obtain ⟨cf, texts, hl, hok, hcf, ht, hvl, hval⟩ := hx
  have hne : cf ++ texts ≠ [] := by
    intro e
    have : (cf ++ texts).length = 0 := by rw [e]; rfl
    rw [List.length_append, hcf] at this
    have := nSpecial_pos f
    omega
  obtain ⟨fs', hfs', hmap, hstrip⟩ := fields_raw f.sep hnl _ hne hok
  obtain ⟨c, cs, hc, hcne⟩ := (fields_of_join f.sep hnl _ hne hok).2.2.2.1
  have hlen' : fs'.length = nSpecial f + names.length := by
    have := congrArg List.length hmap
    rw [List.length_map, List.length_append, hcf, ht] at this
    exact this
  have hdropmap : (fs'.drop (nSpecial f)).map strip = texts := by
    rw [List.map_drop, hmap, ← hcf, List.drop_left]
  have hraw : (pr x.1).2 = joinChar f.sep (cf ++ texts) ++ ['\n'] := by rw [hl]; rfl
  have hnotempty : (joinChar f.sep (cf ++ texts) ++ ['\n']).isEmpty = false := by simp
  have hstrip' : strip (joinChar f.sep (cf ++ texts) ++ ['\n']) = c :: cs := by rw [hstrip, hc]
  have hrow := afRowSet_eq f hv cn names (fs'.take (nSpecial f)) (fs'.drop (nSpecial f)) x.2 hcn
    (by rw [List.length_take, hlen']; omega) hnd (by rw [List.length_drop, hlen']; omega) hvl
    (by
      intro j h1 h2 h3
      have e1 : strip (fs'.drop (nSpecial f))[j] = ((fs'.drop (nSpecial f)).map strip)[j]'(by simpa using h2) := by simp
      have h2' : j < texts.length := by omega
      have e2 : ((fs'.drop (nSpecial f)).map strip)[j]'(by simpa using h2) = texts[j] := by
        simp only [hdropmap]
      rw [e1, e2]
      exact hval j h1 h2' h3) 0 fs hk hft
  rw [List.take_append_drop] at hrow
  rw [afLoop]
  simp only [↓reduceIte, hraw, hnotempty, Bool.false_eq_true, hstrip', hcne, hfs', hrow, bind, Except.bind]

/-- `read_all` on a text made of `pre.length` header lines and the names line — all consumed by the header loop — and the
data lines -/
theorem readAll_written3 (f : CsvFmt) (hv : ValidIds f) (hnl : f.sep ≠ '\n') (pre : List Str) (cn names : List Str)
    (data : List (Str × List AFRead))
    (hpre : ∀ l ∈ pre, '\n' ∉ l)
    (hcn : cn.length = nSpecial f) (hfields : ∀ s ∈ cn ++ names, FieldOK f.sep s)
    (hres : ∀ n ∈ names, n ∉ reserved) (hnd : names.Nodup)
    (hdata : ∀ x ∈ data, AFLineF f names x.1 x.2) (hne : data ≠ []) :
    readAll f (pre.length + 1) '#'
        (((pre ++ ('#' :: joinChar f.sep (cn ++ names)) :: data.map (fun x => x.1)).map (· ++ ['\n'])).flatten) data.length
      = .ok (names, data.map (fun x => x.2)) := by
  have hcnne : cn ++ names ≠ [] := by
    intro h
    have : (cn ++ names).length = 0 := by rw [h]; rfl
    rw [List.length_append, hcn] at this
    have := nSpecial_pos f
    omega
  obtain ⟨_, _, _, _, hnl3⟩ := fields_of_join f.sep hnl (cn ++ names) hcnne hfields
  obtain ⟨nm', hnm', hnmap, _⟩ := fields_raw f.sep hnl (cn ++ names) hcnne hfields
  have hA : ∀ x ∈ data, AFLine f names x.1 x.2 ∧ '\n' ∉ x.1 := fun x hx => afLine_of_F f hnl names x.1 x.2 (hdata x hx)
  have hlines : ∀ l ∈ pre ++ ('#' :: joinChar f.sep (cn ++ names)) :: data.map (fun x => x.1), '\n' ∉ l := by
    intro l hl
    simp only [List.mem_append, List.mem_cons, List.mem_map] at hl
    rcases hl with hl | rfl | ⟨x, hx, rfl⟩
    · exact hpre l hl
    · intro hm
      rcases List.mem_cons.1 hm with e | hm
      · exact absurd e (by decide)
      · exact hnl3 hm
    · exact (hA x hx).2
  unfold readAll
  rw [linePairs_flatten _ hlines, List.map_append, List.map_cons]
  have hpr : ∀ l : List Str, l.map (fun l => (l, l ++ ['\n'])) = l.map pr := fun _ => rfl
  rw [hpr, hpr]
  have h0 := hdrLoopNames_last f.sep '#' (pre.map pr) (pr ('#' :: joinChar f.sep (cn ++ names)))
    ((data.map (fun x => x.1)).map pr) none
  rw [List.length_map] at h0
  have hprnames : (pr ('#' :: joinChar f.sep (cn ++ names))) = ('#' :: joinChar f.sep (cn ++ names), '#' :: (joinChar f.sep (cn ++ names) ++ ['\n'])) := rfl
  rw [show ('#' :: joinChar f.sep (cn ++ names), ('#' :: joinChar f.sep (cn ++ names)) ++ ['\n']) = pr ('#' :: joinChar f.sep (cn ++ names)) from rfl, h0]
  simp only [bind, Except.bind, hprnames, List.head?_cons, ↓reduceIte, List.drop_succ_cons, List.drop_zero]
  -- first pass: the number of fields; the names stay those of the header loop
  rw [dataLoopNames_data f.sep (nSpecial f + names.length) _ (by
    intro l hl
    simp only [List.map_map, List.mem_map, Function.comp] at hl
    obtain ⟨x, hx, rfl⟩ := hl
    exact dataLine_of_afLine f names x.1 x.2 (hA x hx).1)]
  have hdne : ((data.map (fun x => x.1)).map pr = []) = False := by
    simp [hne]
  simp only [hdne, ↓reduceIte]
  rw [hnm', hnmap, createAFs_eq f hv cn names hcn hres hnd]
  simp only
  have hdrop : List.drop (pre.length + 1) (pre.map pr ++ ('#' :: joinChar f.sep (cn ++ names), '#' :: (joinChar f.sep (cn ++ names) ++ ['\n'])) :: (data.map (fun x => x.1)).map pr)
      = (data.map (fun x => x.1)).map pr := by
    have hl : pre.length + 1 = (pre.map pr).length + 1 := by simp
    rw [hl, List.drop_append]
    simp
  rw [hdrop]
  -- second pass: the first data line raw, the others stripped
  obtain ⟨x, r, rfl⟩ : ∃ x r, data = x :: r := by
    cases data with
    | nil => exact absurd rfl hne
    | cons x r => exact ⟨x, r, rfl⟩
  simp only [List.map_cons, List.length_cons]
  rw [afLoop_first_data f hv hnl cn names hcn hnd x (hdata x (by simp)) _ _ (by simp) (by simp)]
  have := afLoop_data f hv cn names hcn hnd r (fun y hy => (hA y (by simp [hy])).1) [x.2]
  simp only [List.length_singleton, List.singleton_append, List.map_map] at this ⊢
  have hset : (List.replicate (r.length + 1) (List.replicate names.length (AFRead.num (0, 0)))).set 0 x.2
      = x.2 :: List.replicate r.length (List.replicate names.length (AFRead.num (0, 0))) := by
    simp [List.replicate_succ]
  rw [hset, show (pr ∘ fun x : Str × List AFRead => x.1) = (fun x => pr x.1) from rfl, this]
  rfl

theorem rowLine_afLineF (f : CsvFmt) (geo : Bool) (pf : List Tok) (r : Row) (afs : List AFVal) (names : List Str)
    (hv : ValidIds f) (hsep : numChar f.sep = false) (htime : f.idT ≠ -1 → TimeOK pf f.sep)
    (hafs : ∀ v ∈ afs, AFOK f.sep v) (hnm : ∀ n ∈ names, n ≠ []) (hlen : afs.length = names.length) :
    AFLineF f names (rowLine f geo pf r afs) ((names.zip afs).map (fun nv => expAF nv.1 nv.2)) := by
  unfold rowLine
  generalize (floatFmt geo).2 = d
  refine ⟨cols f (fixedCoreS d r.x) (fixedCoreS d r.y) (if f.idU = -1 then none else some (fixedCoreS d r.z))
      (if f.idT = -1 then none else some (printTime pf r.t)), afs.map afText, rfl,
    rowFields_ok f d pf r afs hv hsep htime hafs, cols_length _ _ _ _ _, by simp [hlen], by simp [hlen], ?_⟩
  intro j h1 h2 h3
  have hj : j < afs.length := by omega
  have e1 : (afs.map afText)[j] = afText afs[j] := by simp
  have e2 : ((names.zip afs).map (fun nv => expAF nv.1 nv.2))[j] = expAF names[j] afs[j] := by simp
  rw [e1, e2]
  exact afValue_expAF _ (hnm _ (List.getElem_mem h1)) _

/-- **read_all, every header count**: the file `writeToFile` writes with its header block (`h > 0`) and feature columns is read
back by `readFromCsv(..., h=hr, read_all=True)` for EVERY `hr` up to the three header lines written — `hr = 3` included, where
the names line is consumed by the header loop with its newline and the second pass meets the first data line raw — as the
same observations, the same feature names in the same order, and the values `expAF name value`. -/
theorem csv_read_all_roundtrip3 (f : CsvFmt) (geo : Bool) (pf : List Tok) (h naf : Nat) (rows : List (Row × List AFVal))
    (srid : Str) (names : List Str)
    (hv : ValidIds f) (hsep : numChar f.sep = false) (hnl : f.sep ≠ '\n') (hcol : f.sep ∉ colChars)
    (htime : f.idT ≠ -1 → TimeOK pf f.sep)
    (hrows : ∀ ra ∈ rows, RowOK f geo pf ra.1) (hafs : ∀ ra ∈ rows, ∀ v ∈ ra.2, AFOK f.sep v) (hsrid : '\n' ∉ srid)
    (hpos : 0 < h) (hne : rows ≠ [])
    (hnames : ∀ n ∈ names, NameOK f.sep n) (hnd : names.Nodup) (hrl : ∀ ra ∈ rows, ra.2.length = names.length) :
    ∃ text, writeToFile f geo pf h naf rows srid names = .ok text ∧
      ∀ hr, hr ≤ 3 → readCsvAll f pf hr text
        = .ok (rows.map (fun ra => expRow f geo pf ra.1), names,
               rows.map (fun ra => (names.zip ra.2).map (fun nv => expAF nv.1 nv.2))) := by
  obtain ⟨text, hw, h012⟩ := csv_read_all_roundtrip f geo pf h naf rows srid names hv hsep hnl hcol htime hrows hafs hsrid
    hpos hne hnames hnd hrl
  refine ⟨text, hw, fun hr hle => ?_⟩
  by_cases h2 : hr ≤ 2
  · exact h012 hr h2
  have h3 : hr = 3 := by omega
  subst h3
  have hh : HdrOK srid names := ⟨hsrid, fun n hn => (hnames n hn).1.2.2⟩
  obtain ⟨text', hw2, hrd⟩ := csv_file_roundtrip f geo pf h naf rows srid names hv hsep hnl htime hrows hafs hh
  have hw' := writeToFile_explicit f geo pf h naf rows srid names hv hsep hnl htime hrows hafs hpos
  have htext := Except.ok.inj (hw.symm.trans hw')
  have htt : text = text' := Except.ok.inj (hw.symm.trans hw2)
  subst htt
  have h0 : h ≠ 0 := by omega
  unfold readCsvAll
  rw [hrd 3 (by simp [h0])]
  simp only [bind, Except.bind, List.length_map]
  let data : List (Str × List AFRead) :=
    rows.map (fun ra => (rowLine f geo pf ra.1 ra.2, (names.zip ra.2).map (fun nv => expAF nv.1 nv.2)))
  have hd1 : data.map (fun x => x.1) = rows.map (fun ra => rowLine f geo pf ra.1 ra.2) := by simp [data]
  have hd2 : data.map (fun x => x.2) = rows.map (fun ra => (names.zip ra.2).map (fun nv => expAF nv.1 nv.2)) := by simp [data]
  have hdl : data.length = rows.length := by simp [data]
  have hdata : ∀ x ∈ data, AFLineF f names x.1 x.2 := by
    intro x hx
    obtain ⟨ra, hra, rfl⟩ := List.mem_map.1 hx
    exact rowLine_afLineF f geo pf ra.1 ra.2 names hv hsep htime (hafs ra hra) (fun n hn => (hnames n hn).1.1.1) (hrl ra hra)
  have hdne : data ≠ [] := by simpa [data] using hne
  have hcn : (colNames f srid).length = nSpecial f := cols_length _ _ _ _ _
  have hfields : ∀ s ∈ colNames f srid ++ names, FieldOK f.sep s := by
    intro s hs
    rcases List.mem_append.1 hs with hs | hs
    · exact colNames_ok f hv hcol srid s hs
    · exact (hnames s hs).1
  have hres : ∀ n ∈ names, n ∉ reserved := fun n hn => (hnames n hn).2
  have key := readAll_written3 f hv hnl [hdrLine1 srid, hdrLine2] (colNames f srid) names data
    (by intro l hl; simp only [List.mem_cons, List.not_mem_nil, or_false] at hl; rcases hl with rfl | rfl
        · exact (hdrLine1_ok srid hsrid).1
        · exact hdrLine2_ok.1)
    hcn hfields hres hnd hdata hdne
  rw [hdl, hd1, hd2] at key
  have he : [hdrLine1 srid, hdrLine2] ++ ('#' :: joinChar f.sep (colNames f srid ++ names)) :: rows.map (fun ra => rowLine f geo pf ra.1 ra.2)
      = hdrLine1 srid :: hdrLine2 :: hdrLine3 f srid names :: rows.map (fun ra => rowLine f geo pf ra.1 ra.2) := rfl
  rw [he, ← htext] at key
  have hkey : readAll f 3 '#' text rows.length
      = .ok (names, rows.map (fun ra => (names.zip ra.2).map (fun nv => expAF nv.1 nv.2))) := key
  rw [hkey]
  rfl

end TV.TextIO
