import TracklibVerif.Lemmas.MinCircleAcute
set_option linter.unusedSectionVars false
/-! A run of `__welzl` that never meets the early leaf `len(R) == 3` with points left in `P` — in particular every run on at
most three points — returns a circle that encloses every point. -/
namespace TV.MinCircle
variable {α : Type} [Field α] [LinearOrder α] [IsStrictOrderedRing α]

theorem base_enc_all {R : List (Pt α)} {c : Circ α} (hlen : R.length ≤ 3) (h : base R = .circ c) : ∀ p ∈ R, Enc c p := by
  match R, hlen, h with
  | [], _, _ => intro p hp; cases hp
  | [a], _, h =>
    simp only [base] at h; cases h
    intro p hp; rw [List.mem_singleton] at hp; subst hp
    simp only [Enc, circle1, d2]; apply le_of_eq; ring
  | [a, b], _, h =>
    simp only [base] at h; cases h
    intro p hp
    simp only [List.mem_cons, List.not_mem_nil, or_false] at hp
    rcases hp with rfl | rfl
    · exact le_of_eq (circle2_left _ _)
    · exact le_of_eq (circle2_right _ _)
  | [a, b, d], _, h =>
    simp only [base] at h
    obtain ⟨e1, e2, e3⟩ := circle3_encloses h
    intro p hp
    simp only [List.mem_cons, List.not_mem_nil, or_false] at hp
    rcases hp with rfl | rfl | rfl
    · exact e1
    · exact e2
    · exact e3
  | _ :: _ :: _ :: _ :: _, hlen, _ => simp at hlen

theorem mem_split_eraseIdx {P : List (Pt α)} {i : Nat} {p q : Pt α} (hp : P[i]? = some p) (hq : q ∈ P) :
    q = p ∨ q ∈ P.eraseIdx i := by
  obtain ⟨j, hj, rfl⟩ := List.getElem_of_mem hq
  by_cases hji : j = i
  · left
    subst hji
    rw [List.getElem?_eq_getElem hj] at hp
    exact Option.some.inj hp
  · right
    exact List.mem_eraseIdx_iff_getElem.mpr ⟨j, hj, hji, rfl⟩

/-- with at most three points in `P` and `R` together, and `ENUCoords.__eq__` telling apart any two different points involved,
a circle returned by `__welzl(P, R)` encloses every point of `R` and of `P` -/
theorem welzl_encloses_small (eps : α) (draw : Nat → Nat) (S : List (Pt α))
    (hsep : ∀ p ∈ S, ∀ q ∈ S, ptEq eps p q = true → p = q) : ∀ (fuel : Nat) (P R : List (Pt α)) (k : Nat) (c : Circ α) (k' : Nat),
    R.length + P.length ≤ 3 → (∀ p ∈ P, p ∈ S) → (∀ p ∈ R, p ∈ S) →
    welzl eps draw fuel P R k = (.circ c, k') → (∀ p ∈ R, Enc c p) ∧ (∀ p ∈ P, Enc c p) := by
  intro fuel
  induction fuel with
  | zero =>
    intro P R k c k' hlen _ _ h
    unfold welzl at h
    split at h
    · rename_i hleaf
      simp only [Prod.mk.injEq] at h
      have hP : P = [] := by
        rcases Bool.or_eq_true _ _ |>.mp hleaf with h1 | h1
        · exact List.isEmpty_iff.mp h1
        · have : R.length = 3 := by simpa using h1
          exact List.eq_nil_of_length_eq_zero (by omega)
      subst hP
      exact ⟨base_enc_all (by omega) h.1, fun p hp => by cases hp⟩
    · simp only [Prod.mk.injEq] at h; cases h.1
  | succ n ih =>
    intro P R k c k' hlen hPS hRS h
    unfold welzl at h
    split at h
    · rename_i hleaf
      simp only [Prod.mk.injEq] at h
      have hP : P = [] := by
        rcases Bool.or_eq_true _ _ |>.mp hleaf with h1 | h1
        · exact List.isEmpty_iff.mp h1
        · have : R.length = 3 := by simpa using h1
          exact List.eq_nil_of_length_eq_zero (by omega)
      subst hP
      exact ⟨base_enc_all (by omega) h.1, fun p hp => by cases hp⟩
    · simp only at h
      split at h
      · simp only [Prod.mk.injEq] at h; cases h.1
      · rename_i p hp
        have hpP : p ∈ P := List.mem_of_getElem? hp
        have hid : draw k % P.length < P.length := by
          by_contra hge
          rw [List.getElem?_eq_none (by omega)] at hp; cases hp
        have hlen2 : (P.eraseIdx (draw k % P.length)).length + 1 = P.length := by
          rw [List.length_eraseIdx_of_lt hid]; omega
        have sub : ∀ q ∈ P.eraseIdx (draw k % P.length), q ∈ P := fun q hq => List.mem_of_mem_eraseIdx hq
        split at h
        · rename_i D k1 hrec
          have ihD := ih _ _ _ _ _ (by omega) (fun a ha => hPS a (sub a ha)) hRS hrec
          split at h
          · rename_i hin
            simp only [Prod.mk.injEq, Out.circ.injEq] at h
            obtain ⟨rfl, _⟩ := h
            refine ⟨ihD.1, fun q hq => ?_⟩
            rcases mem_split_eraseIdx hp hq with rfl | hq'
            · exact enc_of_inside hin
            · exact ihD.2 q hq'
          · split at h
            · rename_i hany
              -- `p in R`: the point found equal to `p` IS `p`
              obtain ⟨q, hqR, hpq⟩ := List.any_eq_true.mp hany
              have : p = q := hsep p (hPS p hpP) q (hRS q hqR) hpq
              subst this
              have ih2 := ih _ _ _ _ _ (by omega) (fun a ha => hPS a (sub a ha)) hRS h
              refine ⟨ih2.1, fun q hq => ?_⟩
              rcases mem_split_eraseIdx hp hq with rfl | hq'
              · exact ih2.1 _ hqR
              · exact ih2.2 q hq'
            · have ih2 := ih (P.eraseIdx (draw k % P.length)) (R ++ [p]) k1 c k'
                (by rw [List.length_append]; simp only [List.length_singleton]; omega)
                (fun a ha => hPS a (sub a ha))
                (fun b hb => by
                  rcases List.mem_append.mp hb with hb | hb
                  · exact hRS b hb
                  · rw [List.mem_singleton] at hb; subst hb; exact hPS _ hpP) h
              refine ⟨fun q hq => ih2.1 q (List.mem_append_left _ hq), fun q hq => ?_⟩
              rcases mem_split_eraseIdx hp hq with rfl | hq'
              · exact ih2.1 _ (List.mem_append_right _ (List.mem_singleton.mpr rfl))
              · exact ih2.2 q hq'
        · rename_i hother
          exact absurd h (by
            intro h'
            exact hother c k' h')

end TV.MinCircle
