import TracklibVerif.Lemmas.SimplifyGeom
/-! Douglas–Peucker's tolerance over a **totally ordered scalar type with arbitrary arithmetic**: nothing is assumed about
`+ − × ÷ sqrt ==` (they may round, overflow, be anything), only that `<` is a linear order. The farthest-fix search then
returns an upper bound of the *computed* distances, so when a piece is collapsed to its chord every fix of the piece has a
computed distance `< eps`; whatever the caller knows about fixes whose computed distance is below `eps` (an abstract
acceptance predicate `W`) therefore holds for every input fix with respect to a segment of the output polyline. -/
namespace TV.Simplify
set_option linter.unusedSectionVars false
variable {α : Type} [Add α] [Sub α] [Mul α] [Div α] [Neg α] [BEq α] [OfNat α 0] [OfNat α 1] [OfNat α 2] [LinearOrder α]

/-- the farthest search returns an upper bound of all scanned (computed) distances: only the order is used -/
theorem farthest_ub_ord (sqrt : α → α) (a b : Fix α) (rest : List (Fix α)) (i : Nat) (dmax : α) (imax : Nat) :
    dmax ≤ (farthest sqrt a b rest i dmax imax).1 ∧
      ∀ p ∈ rest, distFix sqrt a b p ≤ (farthest sqrt a b rest i dmax imax).1 := by
  induction rest generalizing i dmax imax with
  | nil => exact ⟨le_refl _, fun p hp => by simp at hp⟩
  | cons p rest ih =>
    unfold farthest
    simp only
    split
    · rename_i hgt
      obtain ⟨h1, h2⟩ := ih (i + 1) (distFix sqrt a b p) i
      refine ⟨le_trans (le_of_lt hgt) h1, fun x hx => ?_⟩
      rcases List.mem_cons.mp hx with rfl | hx
      · exact h1
      · exact h2 x hx
    · rename_i hgt
      obtain ⟨h1, h2⟩ := ih (i + 1) dmax imax
      refine ⟨h1, fun x hx => ?_⟩
      rcases List.mem_cons.mp hx with rfl | hx
      · exact le_trans (not_lt.mp hgt) h1
      · exact h2 x hx

/-- `p` is accepted (`W p a b`) with respect to a segment between two consecutive vertices of `out` -/
def CoveredW (W : Fix α → Fix α → Fix α → Prop) (out : List (Fix α)) (p : Fix α) : Prop :=
  ∃ a b, [a, b] <:+: out ∧ W p a b

theorem dpFuel_cover_ord (sqrt : α → α) (eps : α) (W : Fix α → Fix α → Fix α → Prop)
    (hbase : ∀ a b p, distFix sqrt a b p < eps → W p a b) (fuel : Nat)
    (L out : List (Fix α)) (h : dpFuel sqrt eps fuel L = some out) :
    ∀ p ∈ L, p ∈ out ∨ CoveredW W out p := by
  refine dpFuel_ind sqrt eps (fun L out => ∀ p ∈ L, p ∈ out ∨ CoveredW W out p) ?_ ?_ ?_ fuel L out h
  · intro L _ p hp; exact Or.inl hp
  · intro a p q rest hlt x hx
    right
    refine ⟨a, chordEnd q rest, List.infix_refl _, ?_⟩
    have hle := (farthest_ub_ord sqrt a (chordEnd q rest) (a :: p :: q :: rest) 0 0 0).2 x hx
    exact hbase a (chordEnd q rest) x (lt_of_le_of_lt hle hlt)
  · intro a p q rest o1 o2 _ h1 h2 x hx
    rw [← List.take_append_drop (farthest sqrt a (chordEnd q rest) (a :: p :: q :: rest) 0 0 0).2 (a :: p :: q :: rest)] at hx
    rcases List.mem_append.mp hx with hx | hx
    · rcases h1 x hx with hm | ⟨u, v, hi, hn⟩
      · exact Or.inl (List.mem_append_left _ hm)
      · exact Or.inr ⟨u, v, hi.trans (List.prefix_append o1 o2).isInfix, hn⟩
    · rcases h2 x hx with hm | ⟨u, v, hi, hn⟩
      · exact Or.inl (List.mem_append_right _ hm)
      · exact Or.inr ⟨u, v, hi.trans (List.suffix_append o1 o2).isInfix, hn⟩

/-- tolerance, robust form: every input fix is accepted with respect to a segment of the simplified polyline -/
theorem dpFuel_tolerance_ord (sqrt : α → α) (eps : α) (W : Fix α → Fix α → Fix α → Prop)
    (hbase : ∀ a b p, distFix sqrt a b p < eps → W p a b) (hself : ∀ p q, W p p q ∧ W p q p) (fuel : Nat)
    (L out : List (Fix α)) (h : dpFuel sqrt eps fuel L = some out) (h2 : 2 ≤ L.length) :
    ∀ p ∈ L, CoveredW W out p := by
  intro p hp
  rcases dpFuel_cover_ord sqrt eps W hbase fuel L out h p hp with hm | hc
  · have hlen := dpFuel_two_le sqrt eps fuel L out h h2
    obtain ⟨q, hq | hq⟩ := mem_pair p out hm hlen
    · exact ⟨p, q, hq, (hself p q).1⟩
    · exact ⟨q, p, hq, (hself p q).2⟩
  · exact hc

theorem dpAllFuel_cover_ord (sqrt : α → α) (eps : α) (W : Fix α → Fix α → Fix α → Prop)
    (hbase : ∀ a b p, distFix sqrt a b p < eps → W p a b) (fuel : Nat)
    (L out : List (Fix α)) (h : out ∈ dpAllFuel sqrt eps fuel L) :
    ∀ p ∈ L, p ∈ out ∨ CoveredW W out p := by
  refine dpAllFuel_ind sqrt eps (fun L out => ∀ p ∈ L, p ∈ out ∨ CoveredW W out p) ?_ ?_ ?_ fuel L out h
  · intro L _ p hp; exact Or.inl hp
  · intro a p q rest hlt x hx
    right
    refine ⟨a, chordEnd q rest, List.infix_refl _, ?_⟩
    have hle := (farthest_ub_ord sqrt a (chordEnd q rest) (a :: p :: q :: rest) 0 0 0).2 x hx
    exact hbase a (chordEnd q rest) x (lt_of_le_of_lt hle hlt)
  · intro L i o1 o2 h1 h2 x hx
    rw [← List.take_append_drop i L] at hx
    rcases List.mem_append.mp hx with hx | hx
    · rcases h1 x hx with hm | ⟨u, v, hi, hn⟩
      · exact Or.inl (List.mem_append_left _ hm)
      · exact Or.inr ⟨u, v, hi.trans (List.prefix_append o1 o2).isInfix, hn⟩
    · rcases h2 x hx with hm | ⟨u, v, hi, hn⟩
      · exact Or.inl (List.mem_append_right _ hm)
      · exact Or.inr ⟨u, v, hi.trans (List.suffix_append o1 o2).isInfix, hn⟩

theorem dpAllFuel_tolerance_ord (sqrt : α → α) (eps : α) (W : Fix α → Fix α → Fix α → Prop)
    (hbase : ∀ a b p, distFix sqrt a b p < eps → W p a b) (hself : ∀ p q, W p p q ∧ W p q p) (fuel : Nat)
    (L out : List (Fix α)) (h : out ∈ dpAllFuel sqrt eps fuel L) (h2 : 2 ≤ L.length) :
    ∀ p ∈ L, CoveredW W out p := by
  intro p hp
  rcases dpAllFuel_cover_ord sqrt eps W hbase fuel L out h p hp with hm | hc
  · have hlen := dpAllFuel_two_le sqrt eps fuel L out h h2
    obtain ⟨q, hq | hq⟩ := mem_pair p out hm hlen
    · exact ⟨p, q, hq, (hself p q).1⟩
    · exact ⟨q, p, hq, (hself p q).2⟩
  · exact hc

/-! ### the chord's first end is at computed distance 0 from the chord, from a few zero laws of the arithmetic -/

/-- the identities of the arithmetic that `distance_to_segment(A; A, B)` goes through. Exact arithmetic satisfies them; so do
IEEE doubles on finite values whose differences do not overflow (`x − x = +0`, `0 × d = ±0`, `±0 + ±0 = ±0`, `±0 / l = ±0`,
`x + ±0 = x`, `sqrt(±0) = ±0`, and `±0` is not `> 0`) -/
structure ZeroLaws (sqrt : α → α) : Prop where
  sub_self : ∀ x : α, x - x = 0
  zero_mul : ∀ x : α, (0 : α) * x = 0
  zero_add_zero : (0 : α) + 0 = 0
  zero_div : ∀ x : α, (0 : α) / x = 0
  add_zero : ∀ x : α, x + 0 = x
  sqrt_zero : sqrt 0 = 0

theorem pmax_pmin_self (a b : α) : pmax a (pmin a b) = a := by
  unfold pmax pmin
  by_cases h : b < a
  · simp only [h, ↓reduceIte, gt_iff_lt, lt_asymm h]
  · simp only [h, ↓reduceIte, gt_iff_lt, lt_irrefl]

theorem pmin_pmax_self (a b : α) : pmin a (pmax a b) = a := by
  unfold pmax pmin
  by_cases h : b > a
  · simp only [h, ↓reduceIte, lt_asymm h]
  · simp only [h, ↓reduceIte, lt_irrefl]

/-- `distance_to_segment(A; A, B) = 0` in any arithmetic with the zero laws (either branch of `l == 0`) -/
theorem distFix_self_ord (sqrt : α → α) (hz : ZeroLaws sqrt) (a b : Fix α) : distFix sqrt a b a = 0 := by
  unfold distFix distanceToSegment
  simp only [hz.sub_self, hz.zero_mul, hz.zero_add_zero, hz.zero_div, hz.add_zero, hz.sqrt_zero]
  split
  · rfl
  · simp only [pmax_pmin_self, pmin_pmax_self, hz.sub_self, hz.zero_mul, hz.zero_add_zero, hz.sqrt_zero]

end TV.Simplify
