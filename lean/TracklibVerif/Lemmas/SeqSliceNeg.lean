import TracklibVerif.Lemmas.SeqSlice
/-! Helper lemmas for C04, part 7: Python slices with a NEGATIVE step, the bounds of a slice in general. Core Lean only. -/
namespace TV.Seq
variable {α : Type}

/-- the bounds of a slice with a negative step: `-1 ≤ s, e ≤ len - 1`, an absent start is the last position, an
absent stop is `-1` (one before the first), a non-negative bound is clamped to `len - 1`, a negative one counts
from the end and is clamped to `-1` -/
theorem sliceBounds_neg (len : Nat) (a b : Option Int) (st : Int) (hst : st < 0) :
    ∃ s e : Int, sliceBounds len a b st = (s, e) ∧ -1 ≤ s ∧ s ≤ (len : Int) - 1 ∧ -1 ≤ e ∧ e ≤ (len : Int) - 1 ∧
      (a = none → s = (len : Int) - 1) ∧ (∀ x : Int, a = some x → 0 ≤ x → s = min x ((len : Int) - 1)) ∧
      (∀ x : Int, a = some x → x < 0 → s = max (x + (len : Int)) (-1)) ∧
      (b = none → e = -1) ∧ (∀ x : Int, b = some x → 0 ≤ x → e = min x ((len : Int) - 1)) ∧
      (∀ x : Int, b = some x → x < 0 → e = max (x + (len : Int)) (-1)) := by
  have adj : ∀ v : Int, ∃ r : Int,
      (if v < 0 then (if v + (len : Int) < -1 then -1 else v + (len : Int))
        else (if v > (len : Int) - 1 then (len : Int) - 1 else v)) = r ∧ -1 ≤ r ∧ r ≤ (len : Int) - 1 ∧
      (0 ≤ v → r = min v ((len : Int) - 1)) ∧ (v < 0 → r = max (v + (len : Int)) (-1)) := by
    intro v
    refine ⟨_, rfl, ?_, ?_, ?_, ?_⟩ <;> (split <;> split <;> omega)
  cases a with
  | none =>
    cases b with
    | none =>
      refine ⟨(len : Int) - 1, -1, ?_, by omega, by omega, by omega, by omega, fun _ => rfl, ?_, ?_, fun _ => rfl, ?_, ?_⟩
      · simp [sliceBounds, hst]
      all_goals (intro x hx; cases hx)
    | some vb =>
      obtain ⟨r, hr, h1, h2, h3, h4⟩ := adj vb
      refine ⟨(len : Int) - 1, r, ?_, by omega, by omega, h1, h2, fun _ => rfl, ?_, ?_, ?_, ?_, ?_⟩
      · simp only [sliceBounds, hst, if_true]; rw [← hr]
      · intro x hx; cases hx
      · intro x hx; cases hx
      · intro h; cases h
      · intro x hx hx0; cases hx; exact h3 hx0
      · intro x hx hx0; cases hx; exact h4 hx0
  | some va =>
    obtain ⟨ra, hra, ha1, ha2, ha3, ha4⟩ := adj va
    cases b with
    | none =>
      refine ⟨ra, -1, ?_, ha1, ha2, by omega, by omega, ?_, ?_, ?_, fun _ => rfl, ?_, ?_⟩
      · simp only [sliceBounds, hst, if_true]; rw [← hra]
      · intro h; cases h
      · intro x hx hx0; cases hx; exact ha3 hx0
      · intro x hx hx0; cases hx; exact ha4 hx0
      · intro x hx; cases hx
      · intro x hx; cases hx
    | some vb =>
      obtain ⟨r, hr, h1, h2, h3, h4⟩ := adj vb
      refine ⟨ra, r, ?_, ha1, ha2, h1, h2, ?_, ?_, ?_, ?_, ?_, ?_⟩
      · simp only [sliceBounds, hst, if_true]; rw [← hra, ← hr]
      · intro h; cases h
      · intro x hx hx0; cases hx; exact ha3 hx0
      · intro x hx hx0; cases hx; exact ha4 hx0
      · intro h; cases h
      · intro x hx hx0; cases hx; exact h3 hx0
      · intro x hx hx0; cases hx; exact h4 hx0

/-- the number of positions of a slice with the step `-d`: position `k` exists iff `s - k·d` is still above `e` -/
theorem sliceLen_neg (s e : Int) (d : Nat) (hd : 1 ≤ d) (k : Nat) :
    k < sliceLen s e (-(d : Int)) ↔ e < s - (k : Int) * (d : Int) := by
  unfold sliceLen
  have hpos : ¬ (-(d : Int) > 0) := by omega
  have hdd : - -(d : Int) = (d : Int) := by omega
  have hd0 : (0 : Int) < (d : Int) := by omega
  simp only [hpos, if_false, hdd]
  have hnn : (0 : Int) ≤ (k : Int) * (d : Int) := Int.mul_nonneg (by omega) (by omega)
  by_cases hse : e < s
  · simp only [hse, if_true]
    have hq : (0 : Int) ≤ (s - e - 1) / (d : Int) := Int.ediv_nonneg (by omega) (by omega)
    have h1 : k < ((s - e - 1) / (d : Int) + 1).toNat ↔ (k : Int) ≤ (s - e - 1) / (d : Int) := by omega
    rw [h1, Int.le_ediv_iff_mul_le hd0]
    omega
  · simp only [hse, if_false]
    constructor
    · intro h; omega
    · intro h; omega

/-- `L[a:b:-d]` (`d ≥ 1`): with `(s, e)` the adjusted bounds, the `i`-th element of the result is `L[s - i·d]` as long
as `s - i·d > e`; there is nothing after. Every position read is a position `0..len-1` of the list. -/
theorem pySlice_neg (l : List α) (a b : Option Int) (d : Nat) (hd : 1 ≤ d) :
    ∃ (s e : Int) (r : List α), sliceBounds l.length a b (-(d : Int)) = (s, e) ∧
      pySlice l a b (some (-(d : Int))) = some r ∧
      ∀ i : Nat, r[i]? = if e < s - (i : Int) * (d : Int) then l[(s - (i : Int) * (d : Int)).toNat]? else none := by
  obtain ⟨s, e, hb, hs1, hs2, he1, _, _⟩ := sliceBounds_neg l.length a b (-(d : Int)) (by omega)
  have h0 : ¬ (-(d : Int) = 0) := by omega
  refine ⟨s, e, (List.range (sliceLen s e (-(d : Int)))).filterMap (fun (k : Nat) => l[(s + (k : Int) * -(d : Int)).toNat]?),
    hb, ?_, ?_⟩
  · simp only [pySlice, Option.getD_some, h0, if_false, hb]
  · intro i
    have hidx : ∀ k : Nat, s + (k : Int) * -(d : Int) = s - (k : Int) * (d : Int) := by
      intro k; rw [Int.mul_neg]; omega
    have hall : ∀ k, k < sliceLen s e (-(d : Int)) →
        (l[(s + (k : Int) * -(d : Int)).toNat]?).isSome = true := by
      intro k hk
      have h := (sliceLen_neg s e d hd k).mp hk
      have hnn : (0 : Int) ≤ (k : Int) * (d : Int) := Int.mul_nonneg (by omega) (by omega)
      rw [hidx k, List.getElem?_eq_getElem (by omega)]; rfl
    obtain ⟨_, hget⟩ := filterMap_range_all (fun (k : Nat) => l[(s + (k : Int) * -(d : Int)).toNat]?) _ hall
    rw [hget i, hidx i]
    by_cases hk : i < sliceLen s e (-(d : Int))
    · rw [if_pos hk, if_pos ((sliceLen_neg s e d hd i).mp hk)]
    · rw [if_neg hk, if_neg (fun h => hk ((sliceLen_neg s e d hd i).mpr h))]

/-- the reversed walk as a walk on the reversed segment: `L[a:b:-d]` is every `d`-th element of
`reversed(L[e+1 : s+1])` -/
theorem pySlice_neg_reverse (l : List α) (a b : Option Int) (d : Nat) (hd : 1 ≤ d) :
    ∃ s e : Int, sliceBounds l.length a b (-(d : Int)) = (s, e) ∧
      pySlice l a b (some (-(d : Int))) =
        some (stepAux d 0 ((l.take (s + 1).toNat).drop (e + 1).toNat).reverse) := by
  obtain ⟨s, e, r, hb, hp, hr⟩ := pySlice_neg l a b d hd
  obtain ⟨s', e', hb', hs1, hs2, he1, he2, _⟩ := sliceBounds_neg l.length a b (-(d : Int)) (by omega)
  rw [hb] at hb'
  have hs : s' = s := by cases hb'; rfl
  have he : e' = e := by cases hb'; rfl
  subst hs; subst he
  refine ⟨s', e', hb, ?_⟩
  rw [hp]
  congr 1
  apply List.ext_getElem?
  intro i
  rw [hr i, stepAux_getElem? d hd, Nat.zero_add]
  have hnn : (0 : Int) ≤ (i : Int) * (d : Int) := Int.mul_nonneg (by omega) (by omega)
  have hcast : ((i * d : Nat) : Int) = (i : Int) * (d : Int) := by push_cast; rfl
  have hlen : ((l.take (s' + 1).toNat).drop (e' + 1).toNat).length = (s' - e').toNat := by
    rw [List.length_drop, List.length_take]; omega
  by_cases h : e' < s' - (i : Int) * (d : Int)
  · rw [if_pos h, List.getElem?_reverse (by rw [hlen]; omega), List.getElem?_drop, List.getElem?_take, hlen]
    have e1 : (e' + 1).toNat + ((s' - e').toNat - 1 - i * d) = (s' - (i : Int) * (d : Int)).toNat := by omega
    rw [e1, if_pos (by omega)]
  · rw [if_neg h]
    symm
    apply List.getElem?_eq_none
    rw [List.length_reverse, hlen]; omega

end TV.Seq
