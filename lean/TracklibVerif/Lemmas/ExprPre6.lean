import TracklibVerif.Lemmas.ExprPre5
/-! # Extension: spaces anywhere in the source string

`__evaluate` starts with `expression.replace(" ", "")`: the whole evaluation depends on the string only
through the string with its spaces removed. -/
namespace TV.Expr
open TV.Rpn

/-- `s.replace(" ", "")` is a filter -/
theorem replace_space_filter (s : Str) : replace s [' '] [] = s.filter (fun d => d != ' ') := by
  rw [replace_one]
  induction s with
  | nil => rfl
  | cons d ds ih =>
    by_cases hd : d = ' '
    · subst hd
      simp only [List.flatMap_cons, fm_self, List.nil_append, ih]
      rfl
    · have hb : (d != ' ') = true := by simpa using hd
      simp only [List.flatMap_cons, fm_ne [] hd, ih, List.filter_cons, hb, if_true, List.cons_append, List.nil_append]

/-- spaces, wherever they are, are invisible to the rewriting chain -/
theorem preprocess_spaces (s : Str) : preprocess s = preprocess (s.filter (fun d => d != ' ')) := by
  simp only [preprocess, replace_space_filter, List.filter_filter, Bool.and_self]

/-- … and so to `operate` -/
theorem operate_spaces {α : Type} [Scalar α] (tr : Tr α) (s : Str) :
    operate tr s = operate tr (s.filter (fun d => d != ' ')) := by
  unfold operate evaluate
  rw [preprocess_spaces]

/-- `lhs=e` typed with any spaces -/
theorem preprocess_assign_spaces (s lhs : Str) (e : Sx) (hs : s.filter (fun d => d != ' ') = lhs ++ '=' :: src e)
    (hl : NameOK lhs) (h : SrcOK e) :
    preprocess s = .ok (flat (shw pyLvl 9 (.bin '=' (.atom (String.ofList lhs)) (toE' e))), true) := by
  rw [preprocess_spaces, hs]; exact preprocess_assign lhs e hl h

/-- the value form typed with any spaces -/
theorem preprocess_value_spaces (s : Str) (e : Sx) (hs : s.filter (fun d => d != ' ') = src e) (h : SrcOK e) :
    preprocess s = .ok ("#output = ".toList ++ flat (shw pyLvl 9 (toE' e)), false) := by
  rw [preprocess_spaces, hs]; exact preprocess_value e h

variable {α : Type} [Scalar α]

theorem operate_source_tokens_spaces (tr : Tr α) (s lhs : Str) (e : Sx)
    (hs : s.filter (fun d => d != ' ') = lhs ++ '=' :: src e)
    (hl : NameOK lhs) (hg : GoodTok lhs) (h : SrcOK e) (hq : NoQuote (desugar e)) :
    operate tr s = operateTokens tr (lhs :: (Expr.post (desugar e) ++ [['=']])) true := by
  rw [operate_spaces, hs]; exact operate_source_tokens tr lhs e hl hg h hq

theorem operate_source_value_spaces (tr : Tr α) (s : Str) (e : Sx) (v : Val α)
    (hs : s.filter (fun d => d != ' ') = src e) (h : SrcOK e) (hq : NoQuote (desugar e))
    (hw : WFx (desugar e)) (hn : tr.n ≠ 0) (hnt : NoTemps tr) (hl : NoLitNames tr)
    (hd : denoteM tr (desugar e) = .ok v) :
    operate tr s = (.ok (some (v.toVec tr.n)), tr) := by
  rw [operate_spaces, hs]; exact operate_source_value tr e v h hq hw hn hnt hl hd

end TV.Expr
