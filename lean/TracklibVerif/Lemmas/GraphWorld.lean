import TracklibVerif.Lemmas.GraphAStar
/-! Several `Network` objects alive at the same time (`World`, `Model/GraphAStar.lean`): the routing settings are
attributes of the instance, so what an object answers depends on the calls addressed to *it* only. -/
set_option linter.unusedSectionVars false
namespace TV.Graph
section
variable {W : Type} [LT W] [DecidableLT W] [Add W] [Sub W] [Mul W] [OfNat W 0] [OfNat W 1]

/-- projection: in any program over any number of `Network` objects, object `k` ends in the state, and has given the
answers, of the calls addressed to it run on it alone -/
theorem world_projection (sqrt : W → W) (w : World W) (ops : List (WorldOp W)) (k : Nat) (o : NetObj W)
    (hk : w[k]? = some o) :
    (worldAfter sqrt w ops)[k]? = some (objAfter sqrt o (opsOn k ops)) ∧
    answersOn k ops (runWorld sqrt w ops) = runObj sqrt o (opsOn k ops) := by
  induction ops generalizing w o with
  | nil => exact ⟨hk, rfl⟩
  | cons op rest ih =>
    have hlen : k < w.length := by
      rcases Nat.lt_or_ge k w.length with hq | hq
      · exact hq
      · rw [List.getElem?_eq_none hq] at hk; cases hk
    cases op with
    | create n pos =>
      have hk' : (w ++ [NetObj.new n pos])[k]? = some o := by rw [List.getElem?_append_left hlen]; exact hk
      simpa [worldAfter, runWorld, execWorld, opsOn, answersOn] using ih (w ++ [NetObj.new n pos]) o hk'
    | on j wop =>
      cases hj : w[j]? with
      | none =>
        have hjk : j ≠ k := by intro hq; rw [hq, hk] at hj; cases hj
        simpa [worldAfter, runWorld, execWorld, opsOn, answersOn, hj, hjk] using ih w o hk
      | some oj =>
        by_cases hjk : j = k
        · subst hjk
          rw [hk] at hj; cases hj
          have hk' : (w.set j (execObj sqrt o wop).1)[j]? = some (execObj sqrt o wop).1 := by
            rw [List.getElem?_set_self hlen]
          simpa [worldAfter, runWorld, execWorld, opsOn, answersOn, hk, objAfter, runObj] using
            ih (w.set j (execObj sqrt o wop).1) (execObj sqrt o wop).1 hk'
        · have hk' : (w.set j (execObj sqrt oj wop).1)[k]? = some o := by
            rw [List.getElem?_set_ne hjk]; exact hk
          simpa [worldAfter, runWorld, execWorld, opsOn, answersOn, hj, hjk] using
            ih (w.set j (execObj sqrt oj wop).1) o hk'

/-- an object whose own `routing_mode` is not 1 (never set, or set to Dijkstra) answers every call as the session
model of `Model/GraphSession.lean` does — whatever its `astar_wgt` and whatever other objects were told -/
theorem execObj_dijkstra (sqrt : W → W) (o : NetObj W) (hm : o.mode ≠ 1) (op : Op W) :
    execObj sqrt o (.call op) = ({ o with sess := (exec o.sess op).1 }, (exec o.sess op).2) := by
  cases op with
  | route s t cut ud => cases t <;> simp [execObj, hm]
  | dist s t cut ud => simp [execObj, hm]
  | _ => rfl

/-- in any routing mode, a call that is not a search with a target never computes the heuristic -/
theorem execObj_no_target (sqrt : W → W) (o : NetObj W) (op : Op W)
    (h1 : ∀ s t cut ud, op ≠ .route s (some t) cut ud) (h2 : ∀ s t cut ud, op ≠ .dist s t cut ud) :
    execObj sqrt o (.call op) = ({ o with sess := (exec o.sess op).1 }, (exec o.sess op).2) := by
  cases op with
  | route s t cut ud =>
    cases t with
    | none => rfl
    | some t => exact absurd rfl (h1 s t cut ud)
  | dist s t cut ud => exact absurd rfl (h2 s t cut ud)
  | _ => rfl

/-- the setters touch the two attributes of the object they are called on, nothing else -/
theorem execObj_setters (sqrt : W → W) (o : NetObj W) (m : Nat) (x : W) :
    execObj sqrt o (.setMethod m) = ({ o with mode := m }, .unit) ∧
    execObj sqrt o (.setWeight x) = ({ o with wgt := x }, .unit) := ⟨rfl, rfl⟩
end

section
variable {W : Type} [LinearOrder W] [Add W] [Zero W] [WalkAdd W] [Sub W] [Mul W] [OfNat W 1]

/-- A* mode with a heuristic that is 0 everywhere (`astar_wgt = 0`, or all nodes at the target's position): the search
with a target is the Dijkstra search of the session model -/
theorem execObj_astar_zero (hadd : ∀ a : W, a + 0 = a) (sqrt : W → W) (o : NetObj W) (s t : Nat) (cut : Option W) (ud : Bool)
    (hz : ∀ v, o.h sqrt (some t) v = 0) :
    execObj sqrt o (.call (.dist s t cut ud)) =
      ({ o with sess := (exec o.sess (.dist s t cut ud)).1 }, (exec o.sess (.dist s t cut ud)).2) := by
  by_cases hm : o.mode = 1
  · obtain ⟨σ, ps, md, wg⟩ := o
    simp only at hm
    subst hm
    simp only [execObj, if_true, exec, routeOnH, routeOn, forwardH_zero hadd _ _ hz]
    split <;> rfl
  · exact execObj_dijkstra sqrt o hm _

/-- `astar_wgt * x = 0` for every `x` (weight 0) makes the heuristic 0 -/
theorem heuristicOf_zero_weight (sqrt : W → W) (pos : Nat → Pos W) (mode : Nat) (wgt : W) (hw : ∀ x : W, wgt * x = 0)
    (t : Option Nat) (v : Nat) : heuristicOf sqrt pos mode wgt t v = 0 := by
  unfold heuristicOf
  cases t with
  | none => rfl
  | some t =>
    simp only []
    split
    · exact hw _
    · rfl
end
end TV.Graph
