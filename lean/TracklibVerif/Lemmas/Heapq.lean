import TracklibVerif.Model.Heapq
/-! `heapq` keeps a binary min-heap: helper lemmas for `Props/C06.lean`.

`lt` is any strict weak order given as a Boolean function (`Ord`); `Le a b` is `¬ b < a`.
`HeapFrom k l` = every parent→child edge whose parent index is `≥ k` is in order; `IsHeap = HeapFrom 0`.
The loops of `heapq` move a *hole*: `_siftdown` / `_siftup` keep the item being placed in a local variable, the
list holds a duplicate at the hole. All invariants are stated on the list with the item written into the hole
(`heap.set pos x`), which is a permutation of the input at every iteration. Core Lean only. -/
namespace TV.Heapq
open List
variable {α : Type}

/-- what `heapq` needs of `<`: a strict weak order -/
structure Ord (lt : α → α → Bool) : Prop where
  asymm : ∀ a b, lt a b = true → lt b a = false
  trans : ∀ a b c, lt b a = false → lt c b = false → lt c a = false

/-- `a ≤ b` as `heapq` sees it: `not b < a` -/
def Le (lt : α → α → Bool) (a b : α) : Prop := lt b a = false

theorem Le.refl {lt : α → α → Bool} (o : Ord lt) (a : α) : Le lt a a := by
  unfold Le
  cases h : lt a a with
  | false => rfl
  | true => have := o.asymm a a h; rw [h] at this; cases this

theorem Le.of_lt {lt : α → α → Bool} (o : Ord lt) {a b : α} (h : lt a b = true) : Le lt a b := o.asymm a b h

theorem Le.trans {lt : α → α → Bool} (o : Ord lt) {a b c : α} (h1 : Le lt a b) (h2 : Le lt b c) : Le lt a c :=
  o.trans a b c h1 h2

/-- every parent→child edge with parent index `≥ k` is in order -/
def HeapFrom (lt : α → α → Bool) (k : Nat) (l : List α) : Prop :=
  ∀ j a b, 0 < j → k ≤ (j - 1) / 2 → l[(j - 1) / 2]? = some a → l[j]? = some b → Le lt a b

/-- the heap invariant of `heapq`: `heap[(j-1)//2] <= heap[j]` for every `j > 0` -/
def IsHeap (lt : α → α → Bool) (l : List α) : Prop := HeapFrom lt 0 l

/-- `pos` lies in the subtree rooted at `sp` -/
inductive Anc (sp : Nat) : Nat → Prop
  | refl : Anc sp sp
  | left {p : Nat} : Anc sp p → Anc sp (2 * p + 1)
  | right {p : Nat} : Anc sp p → Anc sp (2 * p + 2)

theorem Anc.le {sp p : Nat} (h : Anc sp p) : sp ≤ p := by
  induction h with
  | refl => exact Nat.le_refl _
  | left _ ih => omega
  | right _ ih => omega

theorem Anc.parent {sp p : Nat} (h : Anc sp p) (hlt : sp < p) : Anc sp ((p - 1) / 2) := by
  cases h with
  | refl => omega
  | left h' => rename_i q; have : (2 * q + 1 - 1) / 2 = q := by omega
               rw [this]; exact h'
  | right h' => rename_i q; have : (2 * q + 2 - 1) / 2 = q := by omega
                rw [this]; exact h'

theorem Anc.zero (p : Nat) : Anc 0 p := by
  induction p using Nat.strongRecOn with
  | _ p ih =>
    by_cases h0 : p = 0
    · subst h0; exact Anc.refl
    · have hq := ih ((p - 1) / 2) (by omega)
      by_cases hodd : p % 2 = 1
      · have : p = 2 * ((p - 1) / 2) + 1 := by omega
        rw [this]; exact Anc.left hq
      · have : p = 2 * ((p - 1) / 2) + 2 := by omega
        rw [this]; exact Anc.right hq

/-! ### list bookkeeping -/

theorem get_set (l : List α) (i j : Nat) (a : α) (hi : i < l.length) :
    (l.set i a)[j]? = if j = i then some a else l[j]? := by
  rw [List.getElem?_set]
  by_cases h : i = j
  · subst h; simp [hi]
  · have : ¬ j = i := fun h' => h h'.symm
    simp [h, this]

theorem lt_of_get {l : List α} {i : Nat} {a : α} (h : l[i]? = some a) : i < l.length := by
  obtain ⟨h', _⟩ := List.getElem?_eq_some_iff.1 h
  exact h'

theorem set_same {l : List α} {i : Nat} {a : α} (h : l[i]? = some a) : l.set i a = l := by
  apply List.ext_getElem?
  intro j
  rw [get_set l i j a (lt_of_get h)]
  by_cases hj : j = i
  · subst hj; simp [h]
  · simp [hj]

/-- moving `l[j]` into the hole `i` and making `j` the hole does not change the multiset -/
theorem hole_move {l : List α} {i j : Nat} {a : α} (x : α) (hi : i < l.length) (hj : l[j]? = some a) (hij : i ≠ j) :
    (l.set i a).set j x ~ l.set i x := by
  obtain ⟨hj', ha⟩ := List.getElem?_eq_some_iff.1 hj
  have h := List.set_set_perm (as := l.set i x) (i := i) (j := j) (by simpa using hi) (by simpa using hj')
  have e1 : (l.set i x)[j]'(by simpa using hj') = a := by
    rw [List.getElem_set_ne hij]; exact ha
  have e2 : (l.set i x)[i]'(by simpa using hi) = x := by simp
  rw [e1, e2, List.set_set] at h
  exact h

/-! ### `_siftdown` -/

theorem siftdownLoop_perm (lt : α → α → Bool) (sp : Nat) (x : α) (f : Nat) (heap : List α) (pos : Nat)
    (hpos : pos < heap.length) : siftdownLoop lt sp x f heap pos ~ heap.set pos x := by
  induction f generalizing heap pos with
  | zero => exact Perm.refl _
  | succ f ih =>
    unfold siftdownLoop
    split
    · rename_i hlt
      simp only []
      cases hp : heap[(pos - 1) / 2]? with
      | none => exact Perm.refl _
      | some parent =>
        simp only []
        split
        · have hpp := lt_of_get hp
          refine (ih (heap.set pos parent) ((pos - 1) / 2) (by simpa using hpp)).trans ?_
          exact hole_move x hpos hp (by omega)
        · exact Perm.refl _
    · exact Perm.refl _

/-- the state of `_siftdown`'s loop with the item written into the hole: every edge not ending at `pos` is in
order, and the parent of `pos` is below the children of `pos` -/
structure Pre (lt : α → α → Bool) (sp : Nat) (V : List α) (pos : Nat) : Prop where
  p1 : ∀ j a b, 0 < j → j ≠ pos → sp ≤ (j - 1) / 2 → V[(j - 1) / 2]? = some a → V[j]? = some b → Le lt a b
  p2 : sp < pos → ∀ c a b, (c = 2 * pos + 1 ∨ c = 2 * pos + 2) → V[(pos - 1) / 2]? = some a → V[c]? = some b →
    Le lt a b

theorem siftdownLoop_heap {lt : α → α → Bool} (o : Ord lt) (sp : Nat) (x : α) (f : Nat) (heap : List α) (pos : Nat)
    (hf : pos ≤ f) (hpos : pos < heap.length) (hanc : Anc sp pos) (hpre : Pre lt sp (heap.set pos x) pos) :
    HeapFrom lt sp (siftdownLoop lt sp x f heap pos) := by
  induction f generalizing heap pos with
  | zero =>
    have h0 : pos = 0 := by omega
    subst h0
    intro j a b hj hk ha hb
    exact hpre.p1 j a b hj (by omega) hk ha hb
  | succ f ih =>
    have hVpos : (heap.set pos x)[pos]? = some x := by rw [get_set _ _ _ _ hpos]; simp
    unfold siftdownLoop
    split
    · rename_i hlt
      simp only []
      have hpplt : (pos - 1) / 2 < heap.length := by omega
      have hp : heap[(pos - 1) / 2]? = some heap[(pos - 1) / 2] := List.getElem?_eq_getElem hpplt
      rw [hp]
      simp only []
      generalize heap[(pos - 1) / 2] = parent at hp
      have hVpp : (heap.set pos x)[(pos - 1) / 2]? = some parent := by
        rw [get_set _ _ _ _ hpos]; simp only [show ¬ (pos - 1) / 2 = pos by omega, if_false]; exact hp
      split
      · rename_i hxp
        have hancp := hanc.parent hlt
        have hV1 : ∀ j, ((heap.set pos parent).set ((pos - 1) / 2) x)[j]? =
            if j = (pos - 1) / 2 then some x else if j = pos then some parent else (heap.set pos x)[j]? := by
          intro j
          rw [get_set _ _ _ _ (by simpa using hpplt), get_set _ _ _ _ hpos, get_set _ _ _ _ hpos]
          by_cases h1 : j = (pos - 1) / 2
          · simp [h1]
          · by_cases h2 : j = pos
            · simp [h2]
            · simp [h1, h2]
        apply ih (heap.set pos parent) ((pos - 1) / 2) (by omega) (by simpa using hpplt) hancp
        constructor
        · intro j a b hj hne hk ha hb
          rw [hV1] at ha hb
          simp only [hne, if_false] at hb
          by_cases hjp : j = pos
          · subst hjp
            simp only [if_true] at ha hb
            cases ha; cases hb
            exact Le.of_lt o hxp
          · simp only [hjp, if_false] at hb
            by_cases hpar : (j - 1) / 2 = (pos - 1) / 2
            · simp only [hpar, if_true] at ha
              cases ha
              have := hpre.p1 j parent b hj hjp (by omega) (by rw [hpar]; exact hVpp) hb
              exact Le.trans o (Le.of_lt o hxp) this
            · simp only [hpar, if_false] at ha
              by_cases hpar2 : (j - 1) / 2 = pos
              · simp only [hpar2, if_true] at ha
                cases ha
                exact hpre.p2 hlt j _ _ (by omega) hVpp hb
              · simp only [hpar2, if_false] at ha
                exact hpre.p1 j a b hj hjp hk ha hb
        · intro hsp c a b hc ha hb
          rw [hV1] at ha hb
          have hne1 : ¬ ((pos - 1) / 2 - 1) / 2 = (pos - 1) / 2 := by omega
          have hne2 : ¬ ((pos - 1) / 2 - 1) / 2 = pos := by omega
          simp only [hne1, hne2, if_false] at ha
          have hc1 : ¬ c = (pos - 1) / 2 := by omega
          simp only [hc1, if_false] at hb
          have hgp : Le lt a parent :=
            hpre.p1 ((pos - 1) / 2) a parent (by omega) (by omega) (hancp.parent hsp).le ha hVpp
          by_cases hcp : c = pos
          · simp only [hcp, if_true] at hb
            cases hb; exact hgp
          · simp only [hcp, if_false] at hb
            have : Le lt parent b :=
              hpre.p1 c parent b (by omega) hcp (by have := hancp.le; omega)
                (by rw [show (c - 1) / 2 = (pos - 1) / 2 by omega]; exact hVpp) hb
            exact Le.trans o hgp this
      · rename_i hxp
        have hxp' : lt x parent = false := by cases h : lt x parent <;> simp_all
        intro j a b hj hk ha hb
        by_cases hjp : j = pos
        · subst hjp
          rw [hVpp] at ha; rw [hVpos] at hb
          cases ha; cases hb
          exact hxp'
        · exact hpre.p1 j a b hj hjp hk ha hb
    · rename_i hlt
      have hsp : pos = sp := by have := hanc.le; omega
      intro j a b hj hk ha hb
      exact hpre.p1 j a b hj (by omega) hk ha hb

/-! ### `_siftup` -/

theorem smallerChild_spec {lt : α → α → Bool} (o : Ord lt) (heap : List α) (c : Nat) (hc : c < heap.length) :
    (smallerChild lt heap c = c ∨ smallerChild lt heap c = c + 1) ∧ smallerChild lt heap c < heap.length ∧
    ∀ s a b, (s = c ∨ s = c + 1) → heap[smallerChild lt heap c]? = some a → heap[s]? = some b → Le lt a b := by
  unfold smallerChild
  have h1 : heap[c]? = some heap[c] := List.getElem?_eq_getElem hc
  rw [h1]
  generalize heap[c] = l at h1
  cases h2 : heap[c + 1]? with
  | none =>
    simp only []
    refine ⟨by simp, hc, ?_⟩
    intro s a b hs ha hb
    rcases hs with rfl | rfl
    · rw [ha] at hb; cases hb; exact Le.refl o _
    · rw [h2] at hb; cases hb
  | some r =>
    simp only []
    by_cases hlr : lt l r = true
    · simp only [hlr, if_true]
      refine ⟨by simp, hc, ?_⟩
      intro s a b hs ha hb
      rw [h1] at ha; cases ha
      rcases hs with rfl | rfl
      · rw [h1] at hb; cases hb; exact Le.refl o _
      · rw [h2] at hb; cases hb; exact Le.of_lt o hlr
    · have hlr' : lt l r = false := by cases h : lt l r <;> simp_all
      simp only [hlr', Bool.false_eq_true, if_false]
      refine ⟨by simp, lt_of_get h2, ?_⟩
      intro s a b hs ha hb
      rw [h2] at ha; cases ha
      rcases hs with rfl | rfl
      · rw [h1] at hb; cases hb; exact hlr'
      · rw [h2] at hb; cases hb; exact Le.refl o _

/-- the state of `_siftup`'s first loop: every edge that does not touch the hole `pos` is in order, and the
parent of the hole is below the children of the hole -/
structure BInv (lt : α → α → Bool) (sp : Nat) (heap : List α) (pos : Nat) : Prop where
  b1 : ∀ j a b, 0 < j → j ≠ pos → (j - 1) / 2 ≠ pos → sp ≤ (j - 1) / 2 → heap[(j - 1) / 2]? = some a →
    heap[j]? = some b → Le lt a b
  b2 : sp < pos → ∀ c a b, (c = 2 * pos + 1 ∨ c = 2 * pos + 2) → heap[(pos - 1) / 2]? = some a → heap[c]? = some b →
    Le lt a b

theorem bubble_spec {lt : α → α → Bool} (o : Ord lt) (sp : Nat) (f : Nat) (heap : List α) (pos : Nat)
    (hf : heap.length ≤ f + pos) (hpos : pos < heap.length) (hanc : Anc sp pos) (hinv : BInv lt sp heap pos) :
    (bubble lt f heap pos).2 < (bubble lt f heap pos).1.length ∧
    (bubble lt f heap pos).1.length = heap.length ∧
    Anc sp (bubble lt f heap pos).2 ∧
    BInv lt sp (bubble lt f heap pos).1 (bubble lt f heap pos).2 ∧
    (bubble lt f heap pos).1.length ≤ 2 * (bubble lt f heap pos).2 + 1 ∧
    ∀ y, (bubble lt f heap pos).1.set (bubble lt f heap pos).2 y ~ heap.set pos y := by
  induction f generalizing heap pos with
  | zero => omega
  | succ f ih =>
    unfold bubble
    split
    · rename_i hchild
      obtain ⟨s1, s2, s3⟩ := smallerChild_spec o heap (2 * pos + 1) hchild
      simp only []
      generalize smallerChild lt heap (2 * pos + 1) = c at s1 s2 s3
      have hc : heap[c]? = some heap[c] := List.getElem?_eq_getElem s2
      rw [hc]
      simp only []
      generalize heap[c] = cv at hc
      have hget : ∀ j, (heap.set pos cv)[j]? = if j = pos then some cv else heap[j]? := fun j => get_set _ _ _ _ hpos
      have hancc : Anc sp c := by
        rcases s1 with h | h
        · rw [h]; exact Anc.left hanc
        · rw [h]; exact Anc.right hanc
      have hrec := ih (heap.set pos cv) c (by simp only [List.length_set]; omega) (by simpa using s2) hancc ?_
      · obtain ⟨r1, r2, r3, r4, r5, r6⟩ := hrec
        refine ⟨r1, by rw [r2]; simp, r3, r4, r5, ?_⟩
        intro y
        exact (r6 y).trans (hole_move y hpos hc (by omega))
      · constructor
        · intro j a b hj hjc hpc hk ha hb
          rw [hget] at ha hb
          by_cases hjp : j = pos
          · subst hjp
            simp only [if_true] at hb
            cases hb
            simp only [show ¬ (j - 1) / 2 = j by omega, if_false] at ha
            exact hinv.b2 (by omega) c _ _ (by omega) ha hc
          · simp only [hjp, if_false] at hb
            by_cases hpar : (j - 1) / 2 = pos
            · simp only [hpar, if_true] at ha
              cases ha
              exact s3 j _ _ (by omega) hc hb
            · simp only [hpar, if_false] at ha
              exact hinv.b1 j a b hj hjp hpar hk ha hb
        · intro hsp cc a b hcc ha hb
          rw [hget] at ha hb
          simp only [show (c - 1) / 2 = pos by omega, if_true] at ha
          cases ha
          simp only [show ¬ cc = pos by omega, if_false] at hb
          exact hinv.b1 cc _ _ (by omega) (by omega) (by omega) (by have := hancc.le; omega)
            (by rw [show (cc - 1) / 2 = c by omega]; exact hc) hb
    · rename_i hleaf
      refine ⟨hpos, rfl, hanc, hinv, ?_, fun y => Perm.refl _⟩
      show heap.length ≤ 2 * pos + 1
      omega


/-- `_siftup(heap, pos)` on a list whose edges below `pos` are in order: the edges from `pos` down are in order
afterwards, and the list is a permutation of the input -/
theorem siftup_spec {lt : α → α → Bool} (o : Ord lt) (heap : List α) (pos : Nat) (hpos : pos < heap.length)
    (hh : HeapFrom lt (pos + 1) heap) : HeapFrom lt pos (siftup lt heap pos) ∧ siftup lt heap pos ~ heap := by
  unfold siftup
  have hx : heap[pos]? = some heap[pos] := List.getElem?_eq_getElem hpos
  rw [hx]
  simp only []
  generalize heap[pos] = x at hx
  have hinv : BInv lt pos heap pos := by
    constructor
    · intro j a b hj _ hpar hk ha hb
      exact hh j a b hj (by omega) ha hb
    · intro h; omega
  obtain ⟨r1, r2, r3, r4, r5, r6⟩ := bubble_spec o pos heap.length heap pos (by omega) hpos Anc.refl hinv
  generalize bubble lt heap.length heap pos = r at r1 r2 r3 r4 r5 r6
  obtain ⟨h', leaf⟩ := r
  simp only [] at r1 r2 r3 r4 r5 r6 ⊢
  constructor
  · apply siftdownLoop_heap o pos x leaf h' leaf (Nat.le_refl _) r1 r3
    have hget : ∀ j, (h'.set leaf x)[j]? = if j = leaf then some x else h'[j]? := fun j => get_set _ _ _ _ r1
    constructor
    · intro j a b hj hjl hk ha hb
      have hjlt : j < h'.length := by have := lt_of_get hb; simpa using this
      rw [hget] at ha hb
      simp only [hjl, if_false] at hb
      simp only [show ¬ (j - 1) / 2 = leaf by omega, if_false] at ha
      exact r4.b1 j a b hj hjl (by omega) hk ha hb
    · intro _ c a b hc _ hb
      have := lt_of_get hb
      simp only [List.length_set] at this
      omega
  · refine (siftdownLoop_perm lt pos x leaf h' leaf r1).trans ((r6 x).trans ?_)
    rw [set_same hx]

/-- the root of a heap is a minimum -/
theorem root_min {lt : α → α → Bool} (o : Ord lt) (l : List α) (hh : IsHeap lt l) (m : α) (hm : l[0]? = some m) :
    ∀ (j : Nat) (b : α), l[j]? = some b → Le lt m b := by
  intro j
  induction j using Nat.strongRecOn with
  | _ j ih =>
    intro b hb
    by_cases h0 : j = 0
    · subst h0; rw [hm] at hb; cases hb; exact Le.refl o _
    · have hlt := lt_of_get hb
      have hp : l[(j - 1) / 2]? = some l[(j - 1) / 2] := List.getElem?_eq_getElem (by omega)
      exact Le.trans o (ih ((j - 1) / 2) (by omega) _ hp) (hh j _ b (by omega) (Nat.zero_le _) hp hb)

theorem root_min_mem {lt : α → α → Bool} (o : Ord lt) (l : List α) (hh : IsHeap lt l) (m : α) (hm : l[0]? = some m) :
    ∀ x ∈ l, Le lt m x := by
  intro x hx
  obtain ⟨j, hj, rfl⟩ := List.getElem_of_mem hx
  exact root_min o l hh m hm j _ (List.getElem?_eq_getElem hj)

theorem isHeap_nil (lt : α → α → Bool) : IsHeap lt ([] : List α) := by
  intro j a b _ _ _ hb; simp at hb

/-- `heappush` keeps the heap invariant and adds exactly the item -/
theorem heappush_spec {lt : α → α → Bool} (o : Ord lt) (heap : List α) (item : α) (hh : IsHeap lt heap) :
    IsHeap lt (heappush lt heap item) ∧ heappush lt heap item ~ item :: heap := by
  unfold heappush siftdown
  have hx : (heap ++ [item])[heap.length]? = some item := by simp
  rw [hx]
  simp only []
  have hlen : heap.length < (heap ++ [item]).length := by simp
  have hV : (heap ++ [item]).set heap.length item = heap ++ [item] := set_same hx
  constructor
  · apply siftdownLoop_heap o 0 item heap.length (heap ++ [item]) heap.length (Nat.le_refl _) hlen (Anc.zero _)
    rw [hV]
    constructor
    · intro j a b hj hjn hk ha hb
      have hjlt : j < heap.length := by have := lt_of_get hb; simp at this; omega
      rw [List.getElem?_append_left (by omega)] at ha
      rw [List.getElem?_append_left hjlt] at hb
      exact hh j a b hj hk ha hb
    · intro _ c a b hc _ hb
      have := lt_of_get hb
      simp at this
      omega
  · refine (siftdownLoop_perm lt 0 item heap.length (heap ++ [item]) heap.length hlen).trans ?_
    rw [hV]
    exact List.perm_append_singleton item heap

/-- `heappop` fails exactly on the empty list -/
theorem heappop_none (lt : α → α → Bool) (heap : List α) : heappop lt heap = none ↔ heap = [] := by
  unfold heappop
  cases h : heap.getLast? with
  | none => simp [List.getLast?_eq_none_iff.1 h]
  | some last =>
    have hne : heap ≠ [] := by intro h'; rw [h'] at h; simp at h
    simp only [hne, iff_false]
    cases heap.dropLast <;> simp

/-- `heappop` on a heap returns a minimum of the multiset (the root), leaves the other items, keeps the invariant -/
theorem heappop_spec {lt : α → α → Bool} (o : Ord lt) (heap : List α) (hh : IsHeap lt heap) (m : α) (rest : List α)
    (h : heappop lt heap = some (m, rest)) :
    heap ~ m :: rest ∧ IsHeap lt rest ∧ (∀ x ∈ heap, Le lt m x) ∧ heap[0]? = some m := by
  unfold heappop at h
  cases hl : heap.getLast? with
  | none => rw [hl] at h; cases h
  | some last =>
    rw [hl] at h
    simp only [] at h
    have hsplit : heap = heap.dropLast ++ [last] := by
      have hne : heap ≠ [] := by intro h'; rw [h'] at hl; simp at hl
      have := List.dropLast_concat_getLast hne
      rw [List.getLast?_eq_some_getLast hne] at hl
      cases hl
      exact this.symm
    cases hd : heap.dropLast with
    | nil =>
      rw [hd] at h hsplit
      simp only [Option.some.injEq, Prod.mk.injEq] at h
      obtain ⟨rfl, rfl⟩ := h
      rw [hsplit]
      refine ⟨Perm.refl _, isHeap_nil lt, ?_, by simp⟩
      intro x hx
      simp at hx
      rw [hx]; exact Le.refl o _
    | cons r0 tl =>
      rw [hd] at h hsplit
      simp only [Option.some.injEq, Prod.mk.injEq] at h
      obtain ⟨rfl, rfl⟩ := h
      have hroot : heap[0]? = some r0 := by rw [hsplit]; simp
      have hfrom : HeapFrom lt 1 (last :: tl) := by
        intro j a b hj hk ha hb
        have hjlt : j < (last :: tl).length := lt_of_get hb
        simp only [List.length_cons] at hjlt
        have e1 : (last :: tl)[j]? = heap[j]? := by
          rw [hsplit]
          cases j with
          | zero => omega
          | succ j' =>
            simp only [List.cons_append, List.getElem?_cons_succ]
            rw [List.getElem?_append_left (by omega)]
        have e2 : (last :: tl)[(j - 1) / 2]? = heap[(j - 1) / 2]? := by
          rw [hsplit]
          cases hq : (j - 1) / 2 with
          | zero => omega
          | succ q =>
            simp only [List.cons_append, List.getElem?_cons_succ]
            rw [List.getElem?_append_left (by omega)]
        rw [e1] at hb; rw [e2] at ha
        exact hh j a b hj (Nat.zero_le _) ha hb
      obtain ⟨s1, s2⟩ := siftup_spec o (last :: tl) 0 (by simp) hfrom
      refine ⟨?_, s1, root_min_mem o heap hh r0 hroot, hroot⟩
      have : heap ~ r0 :: (last :: tl) := by
        rw [hsplit]
        simp only [List.cons_append]
        exact Perm.cons _ (List.perm_append_singleton last tl)
      exact this.trans (Perm.cons _ s2.symm)

theorem heapifyLoop_spec {lt : α → α → Bool} (o : Ord lt) (i : Nat) (x : List α) (hi : i ≤ x.length / 2)
    (hh : HeapFrom lt i x) : IsHeap lt (heapifyLoop lt i x) ∧ heapifyLoop lt i x ~ x := by
  induction i generalizing x with
  | zero => exact ⟨hh, Perm.refl _⟩
  | succ i ih =>
    unfold heapifyLoop
    obtain ⟨s1, s2⟩ := siftup_spec o x i (by omega) hh
    obtain ⟨a, b⟩ := ih (siftup lt x i) (by rw [s2.length_eq]; omega) s1
    exact ⟨a, b.trans s2⟩

/-- `heapify` establishes the heap invariant and permutes the list -/
theorem heapify_spec {lt : α → α → Bool} (o : Ord lt) (x : List α) : IsHeap lt (heapify lt x) ∧ heapify lt x ~ x := by
  unfold heapify
  apply heapifyLoop_spec o _ x (Nat.le_refl _)
  intro j a b hj hk _ hb
  have := lt_of_get hb
  omega
end TV.Heapq
