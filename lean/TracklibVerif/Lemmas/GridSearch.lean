import TracklibVerif.Lemmas.GridNetwork
/-! The incremental (`unit = -1`) search of `neighborhood(i, j, unit)` / `neighborhood(coord, unit)` of
`Model/Grid.lean`: rings (`__neighboringcells(i, j, u, True)`), the `while` loop, and the relation between a radius given
in UNITS and ground distance (`u` units cover every point within `u · min(dX, dY)` on each axis). -/
namespace TV.Grid

section index
variable {α : Type}

/-- converse of `collectCells_spec`: the loop adds nothing but what the cells list -/
theorem collectCells_sound (ix : Index α) (cells : List (Int × Int)) (tab out : List Nat)
    (h : collectCells ix tab cells = .ok out) :
    ∀ d ∈ out, d ∈ tab ∨ ∃ cell ∈ cells, Holds ix.grid cell.1 cell.2 d := by
  induction cells generalizing tab with
  | nil =>
    simp only [collectCells, Except.ok.injEq] at h
    subst h
    intro d hd; exact Or.inl hd
  | cons cell rest ih =>
    unfold collectCells at h
    cases hr : requestCell ix cell.1 cell.2 with
    | error e => simp [hr] at h
    | ok values =>
      simp only [hr] at h
      intro d hd
      rcases ih (addAll tab values) h d hd with h1 | ⟨c, hc, hH⟩
      · rcases (mem_addAll _ _ _).mp h1 with h2 | h2
        · exact Or.inl h2
        · exact Or.inr ⟨cell, by simp, values, hr, h2⟩
      · exact Or.inr ⟨c, List.mem_cons_of_mem _ hc, hH⟩

/-- `__neighboringcells(i, j, u, True)`: the cells of the clipped square of radius `u` that lie on the first / last
column or row OF THE CLIPPED square -/
theorem mem_ring (ix : Index α) (i j u i' j' : Int) :
    (i', j') ∈ neighboringCells ix i j u true ↔
      ((max (i - u) 0 ≤ i' ∧ i' < min (i + u + 1) ix.csize) ∧ (max (j - u) 0 ≤ j' ∧ j' < min (j + u + 1) ix.lsize)) ∧
      ((i' = max (i - u) 0 ∨ i' = min (i + u + 1) ix.csize - 1) ∨ (j' = max (j - u) 0 ∨ j' = min (j + u + 1) ix.lsize - 1)) := by
  unfold neighboringCells
  simp only [Bool.true_and, List.mem_flatMap, List.mem_filterMap, mem_rangeI]
  constructor
  · rintro ⟨a, ha, b, hb, hab⟩
    split_ifs at hab with hc
    simp only [Option.some.injEq, Prod.mk.injEq] at hab
    obtain ⟨rfl, rfl⟩ := hab
    refine ⟨⟨ha, hb⟩, ?_⟩
    simp only [Bool.and_eq_true, bne_iff_ne, ne_eq, not_and, not_not] at hc
    by_cases h1 : a = max (i - u) 0
    · exact Or.inl (Or.inl h1)
    by_cases h2 : a = min (i + u + 1) ix.csize - 1
    · exact Or.inl (Or.inr h2)
    by_cases h3 : b = max (j - u) 0
    · exact Or.inr (Or.inl h3)
    exact Or.inr (Or.inr (hc ⟨h1, h2⟩ h3))
  · rintro ⟨⟨ha, hb⟩, hc⟩
    refine ⟨i', ha, j', hb, ?_⟩
    rw [if_neg]
    simp only [Bool.and_eq_true, bne_iff_ne, ne_eq, not_and, not_not]
    rintro ⟨h1, h2⟩ h3
    rcases hc with (h | h) | (h | h)
    · exact absurd h h1
    · exact absurd h h2
    · exact absurd h h3
    · exact h

/-- the clipped square of radius `u` is that of radius `u - 1` plus the ring `u`: the rings `0 … u` of the
incremental search cover the whole clipped square (the ring is taken on the clipped square, so a ring cut by the border
of the grid repeats cells of earlier rings but loses none) -/
theorem sq_succ (ix : Index α) (i j u : Int) (c : Int × Int) :
    c ∈ neighboringCells ix i j u false ↔
      c ∈ neighboringCells ix i j (u - 1) false ∨ c ∈ neighboringCells ix i j u true := by
  obtain ⟨i', j'⟩ := c
  rw [mem_neighboringCells, mem_neighboringCells, mem_ring]
  constructor
  · rintro ⟨⟨a, b⟩, c, d⟩
    by_cases h : (max (i - (u - 1)) 0 ≤ i' ∧ i' < min (i + (u - 1) + 1) ix.csize) ∧
        (max (j - (u - 1)) 0 ≤ j' ∧ j' < min (j + (u - 1) + 1) ix.lsize)
    · exact Or.inl h
    · right
      refine ⟨⟨⟨a, b⟩, c, d⟩, ?_⟩
      omega
  · rintro (⟨⟨a, b⟩, c, d⟩ | ⟨⟨⟨a, b⟩, c, d⟩, _⟩)
    · exact ⟨⟨by omega, by omega⟩, by omega, by omega⟩
    · exact ⟨⟨a, b⟩, c, d⟩

/-- a square of radius `max(csize, lsize) - 1` or more around a cell of the grid is the whole grid -/
theorem sq_full (ix : Index α) (i j u : Int) (hi : 0 ≤ i ∧ i < ix.csize) (hj : 0 ≤ j ∧ j < ix.lsize)
    (hu : max ix.csize ix.lsize - 1 ≤ u) (c : Int × Int) :
    c ∈ neighboringCells ix i j u false ↔ (0 ≤ c.1 ∧ c.1 < ix.csize) ∧ (0 ≤ c.2 ∧ c.2 < ix.lsize) := by
  obtain ⟨i', j'⟩ := c
  rw [mem_neighboringCells]
  constructor
  · rintro ⟨⟨a, b⟩, c, d⟩
    exact ⟨⟨by omega, by omega⟩, by omega, by omega⟩
  · rintro ⟨⟨a, b⟩, c, d⟩
    exact ⟨⟨by omega, by omega⟩, by omega, by omega⟩

/-- some cell of the clipped square of radius `u` around `(i, j)` lists `d` -/
def SqHolds (ix : Index α) (i j u : Int) (d : Nat) : Prop :=
  ∃ cell ∈ neighboringCells ix i j u false, Holds ix.grid cell.1 cell.2 d

theorem SqHolds.mono {ix : Index α} {i j u v : Int} {d : Nat} (h : SqHolds ix i j u d) (huv : u ≤ v) :
    SqHolds ix i j v d := by
  obtain ⟨⟨i', j'⟩, hc, hH⟩ := h
  refine ⟨(i', j'), ?_, hH⟩
  rw [mem_neighboringCells] at hc ⊢
  obtain ⟨⟨a, b⟩, c, d⟩ := hc
  exact ⟨⟨by omega, by omega⟩, by omega, by omega⟩

theorem not_SqHolds_neg (ix : Index α) (i j : Int) (d : Nat) : ¬ SqHolds ix i j (-1) d := by
  rintro ⟨⟨i', j'⟩, hc, _⟩
  rw [mem_neighboringCells] at hc
  omega

/-- one ring of the search: `TAB` lists the square of radius `u - 1`; after the ring `u` it lists that of radius `u` -/
theorem collect_ring (ix : Index α) (hs : Shape ix.grid ix.csize.toNat ix.lsize.toNat) (i j u : Int) (tab : List Nat)
    (htab : ∀ d, d ∈ tab ↔ SqHolds ix i j (u - 1) d) :
    ∃ tab', collectCells ix tab (neighboringCells ix i j u true) = .ok tab' ∧ ∀ d, d ∈ tab' ↔ SqHolds ix i j u d := by
  obtain ⟨tab', h⟩ := collectCells_ok ix (neighboringCells ix i j u true) tab hs (by
    intro cell hcell
    have := (mem_ring ix i j u cell.1 cell.2).mp hcell
    obtain ⟨⟨⟨a, b⟩, c, d⟩, _⟩ := this
    exact ⟨⟨by omega, by omega⟩, by omega, by omega⟩)
  refine ⟨tab', h, ?_⟩
  obtain ⟨t1, t2⟩ := collectCells_spec ix _ tab tab' h
  have t3 := collectCells_sound ix _ tab tab' h
  intro d
  constructor
  · intro hd
    rcases t3 d hd with h1 | ⟨cell, hc, hH⟩
    · exact ((htab d).mp h1).mono (by omega)
    · exact ⟨cell, (sq_succ ix i j u cell).mpr (Or.inr hc), hH⟩
  · rintro ⟨cell, hc, hH⟩
    rcases (sq_succ ix i j u cell).mp hc with h1 | h1
    · exact t1 d ((htab d).mpr ⟨cell, h1, hH⟩)
    · exact t2 cell h1 d hH

/-- the `while` loop of `neighborhood(i, j, unit=-1)` from any reachable state (`found` is `len(TAB) > 0`, `TAB` lists the
square of radius `u - 1`): it returns the contents of the clipped square of some radius `U`; when `TAB` was non-empty
the loop makes exactly one more ring; when it was empty, either nothing is found up to the last ring (the whole grid), or
`U - 1` is the first radius at which something is listed. -/
theorem searchCellLoop_spec (ix : Index α) (hs : Shape ix.grid ix.csize.toNat ix.lsize.toNat) (i j : Int)
    (hi : 0 ≤ i ∧ i < ix.csize) (hj : 0 ≤ j ∧ j < ix.lsize) :
    ∀ (fuel : Nat) (u : Int) (tab : List Nat), 0 ≤ u → u ≤ max ix.csize ix.lsize + 1 →
      max ix.csize ix.lsize + 1 - u < (fuel : Int) →
      (∀ d, d ∈ tab ↔ SqHolds ix i j (u - 1) d) →
      ∃ out U, searchCellLoop ix i j fuel u tab (decide (tab.length > 0)) = .ok out ∧
        u - 1 ≤ U ∧ U ≤ max ix.csize ix.lsize ∧ (∀ d, d ∈ out ↔ SqHolds ix i j U d) ∧
        (tab ≠ [] → U = min u (max ix.csize ix.lsize)) ∧
        (tab = [] → (out = [] ∧ U = max ix.csize ix.lsize) ∨
          (u + 1 ≤ U ∧ out ≠ [] ∧ (∃ d, SqHolds ix i j (U - 1) d) ∧ ∀ d, ¬ SqHolds ix i j (U - 2) d)) := by
  intro fuel
  induction fuel with
  | zero => intro u tab h0 h1 h2; omega
  | succ fuel ih =>
    intro u tab h0 h1 h2 htab
    unfold searchCellLoop
    by_cases hu : u ≤ max ix.csize ix.lsize
    · rw [if_pos hu]
      obtain ⟨tab', hcol, htab'⟩ := collect_ring ix hs i j u tab htab
      simp only [hcol]
      by_cases ht : tab = []
      · -- nothing found so far: next ring
        subst ht
        simp only [List.length_nil, gt_iff_lt, lt_self_iff_false, decide_false, Bool.false_eq_true, if_false]
        have e : u + 1 - 1 = u := by omega
        obtain ⟨out, U, hrun, b1, b2, b3, b4, b5⟩ := ih (u + 1) tab' (by omega) (by omega) (by push_cast at h2 ⊢; omega)
          (by rw [e]; exact htab')
        refine ⟨out, U, hrun, by omega, b2, b3, fun h => absurd rfl h, fun _ => ?_⟩
        by_cases ht' : tab' = []
        · rcases b5 ht' with h | ⟨c1, c2, c3, c4⟩
          · exact Or.inl h
          · exact Or.inr ⟨by omega, c2, c3, c4⟩
        · have hU := b4 ht'
          obtain ⟨d0, hd0⟩ := List.exists_mem_of_ne_nil tab' ht'
          have hS := (htab' d0).mp hd0
          by_cases hM : u + 1 ≤ max ix.csize ix.lsize
          · have hU' : U = u + 1 := by omega
            right
            refine ⟨by omega, ?_, ⟨d0, by rw [hU']; rw [e]; exact hS⟩, ?_⟩
            · intro ho
              have : d0 ∈ out := (b3 d0).mpr (hS.mono (by omega))
              rw [ho] at this; cases this
            · intro d hd
              have e2 : U - 2 = u - 1 := by omega
              rw [e2] at hd
              have := (htab d).mpr hd
              cases this
          · -- u is the last ring: it cannot be the first to list something
            exfalso
            obtain ⟨cell, hc, hH⟩ := hS
            have hfull := (sq_full ix i j u hi hj (by omega) cell).mp hc
            have hc' := (sq_full ix i j (u - 1) hi hj (by omega) cell).mpr hfull
            have := (htab d0).mpr ⟨cell, hc', hH⟩
            cases this
      · -- something was found on the previous ring: this ring is the last
        have hlen : decide (tab.length > 0) = true := by
          cases tab with
          | nil => exact absurd rfl ht
          | cons a t => simp
        simp only [hlen, if_true]
        exact ⟨tab', u, rfl, by omega, hu, htab', fun _ => by omega, fun h => absurd h ht⟩
    · rw [if_neg hu]
      refine ⟨tab, u - 1, rfl, le_refl _, by omega, htab, fun _ => by omega, fun h => Or.inl ⟨h, by omega⟩⟩

/-- `neighborhood(i, j, unit=-1)` from a cell of the grid -/
theorem neighborhoodCell_search (ix : Index α) (hs : Shape ix.grid ix.csize.toNat ix.lsize.toNat) (i j : Int)
    (hi : 0 ≤ i ∧ i < ix.csize) (hj : 0 ≤ j ∧ j < ix.lsize) :
    ∃ out U, neighborhoodCell ix i j (-1) = .ok out ∧ 0 ≤ U ∧ U ≤ max ix.csize ix.lsize ∧
      (∀ d, d ∈ out ↔ SqHolds ix i j U d) ∧
      ((out = [] ∧ U = max ix.csize ix.lsize) ∨
        (1 ≤ U ∧ out ≠ [] ∧ (∃ d, SqHolds ix i j (U - 1) d) ∧ ∀ d, ¬ SqHolds ix i j (U - 2) d)) := by
  obtain ⟨out, U, hrun, _, b2, b3, _, b5⟩ := searchCellLoop_spec ix hs i j hi hj ((max ix.csize ix.lsize).toNat + 2) 0 []
    (le_refl _) (by omega) (by push_cast; omega) (by
      intro d
      constructor
      · intro h; cases h
      · intro h; exact absurd h (not_SqHolds_neg ix i j d))
  have hrun' : neighborhoodCell ix i j (-1) = .ok out := by
    unfold neighborhoodCell
    rw [if_neg (by decide)]
    exact hrun
  refine ⟨out, U, hrun', ?_, b2, b3, ?_⟩
  · rcases b5 rfl with ⟨_, h⟩ | ⟨h, _⟩ <;> omega
  · rcases b5 rfl with h | ⟨c1, c2, c3, c4⟩
    · exact Or.inl h
    · exact Or.inr ⟨by omega, c2, c3, c4⟩

end index

section scalar
variable {α : Type} [Field α] [LinearOrder α] [IsStrictOrderedRing α]

/-- one axis: two abscissas at most `U · mn` apart (`U ≥ 0` an integer number of units, `mn` at most the cell width)
fall in columns at most `U` apart -/
theorem units_axis_int {fl : α → Int} (hf : IsFloor fl) (p q o dC mn : α) (U : Int) (hU : 0 ≤ U) (hmn : 0 < mn) (hle : mn ≤ dC)
    (h1 : -(((U : Int) : α) * mn) ≤ q - p) (h2 : q - p ≤ ((U : Int) : α) * mn) :
    fl ((q - o) / dC) - fl ((p - o) / dC) ≤ U ∧ fl ((p - o) / dC) - fl ((q - o) / dC) ≤ U := by
  have hdC : 0 < dC := lt_of_lt_of_le hmn hle
  have hUc : (0 : α) ≤ ((U : Int) : α) := by exact_mod_cast hU
  have hUm : ((U : Int) : α) * mn ≤ ((U : Int) : α) * dC := mul_le_mul_of_nonneg_left hle hUc
  have e : (q - o) / dC - (p - o) / dC = (q - p) / dC := by ring
  have b1 : (q - p) / dC ≤ ((U : Int) : α) := by rw [div_le_iff₀ hdC]; linarith
  have b2 : -((U : Int) : α) ≤ (q - p) / dC := by rw [le_div_iff₀ hdC]; linarith
  have fa := hf ((q - o) / dC)
  have fb := hf ((p - o) / dC)
  constructor
  · have : (((fl ((q - o) / dC) : Int) : α)) < ((fl ((p - o) / dC) + 1 + U : Int) : α) := by
      push_cast; linarith [fa.1, fb.2]
    have := Int.cast_lt.mp this
    omega
  · have : (((fl ((p - o) / dC) : Int) : α)) < ((fl ((q - o) / dC) + 1 + U : Int) : α) := by
      push_cast; linarith [fa.2, fb.1]
    have := Int.cast_lt.mp this
    omega

/-- a point `P` of the extent whose coordinates differ from those of `q` by at most `U · min(dX, dY)` lies in a cell of
the clipped square of radius `U` around the cell of `q` -/
theorem cell_within_units {fl : α → Int} (hf : IsFloor fl) (ix : Index α) (hg : Good ix) (P q cP cq : α × α) (U : Int)
    (hU : 0 ≤ U) (hP : getCell ix P = some cP) (hq : getCell ix q = some cq)
    (hx : -(((U : Int) : α) * min ix.dX ix.dY) ≤ q.1 - P.1 ∧ q.1 - P.1 ≤ ((U : Int) : α) * min ix.dX ix.dY)
    (hy : -(((U : Int) : α) * min ix.dX ix.dY) ≤ q.2 - P.2 ∧ q.2 - P.2 ≤ ((U : Int) : α) * min ix.dX ix.dY) :
    ((cellOf fl ix cP).1, (cellOf fl ix cP).2) ∈
      neighboringCells ix (cellOf fl ix cq).1 (cellOf fl ix cq).2 U false := by
  obtain ⟨⟨hi0, hi1⟩, hj0, hj1⟩ := cellOf_inGrid hf ix hg P cP hP
  obtain ⟨_, _, _, hdX, hdY, _⟩ := hg
  have hmn : 0 < min ix.dX ix.dY := lt_min hdX hdY
  obtain ⟨_, _, rfl⟩ := (getCell_some_iff ix P cP).mp hP
  obtain ⟨_, _, rfl⟩ := (getCell_some_iff ix q cq).mp hq
  have ax := units_axis_int hf P.1 q.1 ix.xmin ix.dX _ U hU hmn (min_le_left _ _) hx.1 hx.2
  have ay := units_axis_int hf P.2 q.2 ix.ymin ix.dY _ U hU hmn (min_le_right _ _) hy.1 hy.2
  rw [mem_neighboringCells]
  unfold cellOf at hi0 hi1 hj0 hj1 ⊢
  dsimp only at hi0 hi1 hj0 hj1 ax ay ⊢
  exact ⟨⟨by omega, by omega⟩, by omega, by omega⟩

end scalar
end TV.Grid
