import TracklibVerif.Lemmas.Proj
/-! Helper lemmas for the front ends of C20 (`Model/Proj.lean`, second part): argument forms
(`projSegmentG`), the two-sequence loop (`polyLoopXY`), 3D positions (`projOnTrack3`, `mapOnTrack3`),
and the vertices of skipped zero-length segments. -/
namespace TV.Proj
variable {α : Type} [Field α] [LinearOrder α] [IsStrictOrderedRing α]

/-! ### argument forms -/

theorem footG_false (sqrt : α → α) (a b c x y : α) : footG false sqrt a b c x y = foot sqrt a b c x y := by
  unfold footG foot
  simp only [Bool.not_false, Bool.true_and]

theorem footG_of_ne (np : Bool) (sqrt : α → α) (a b c x y : α) (hb : b ≠ 0) :
    footG np sqrt a b c x y = foot sqrt a b c x y := by
  unfold footG foot
  simp only [isZero_false b hb, Bool.and_false]

theorem projSegmentG_false (sqrt : α → α) (x1 y1 x2 y2 x y : α) :
    projSegmentG false sqrt x1 y1 x2 y2 x y = projSegment sqrt x1 y1 x2 y2 x y := by
  unfold projSegmentG projSegment projectionDroiteG projectionDroite
  simp only [footG_false]

theorem projSegmentG_of_ne (np : Bool) (sqrt : α → α) (x1 y1 x2 y2 x y : α) (hx : x1 ≠ x2) :
    projSegmentG np sqrt x1 y1 x2 y2 x y = projSegment sqrt x1 y1 x2 y2 x y := by
  have hb : (cartesienne x1 y1 x2 y2).2.1 ≠ 0 := by
    simp only [cartesienne]; intro h; apply hx; linear_combination h
  unfold projSegmentG projSegment projectionDroiteG projectionDroite
  simp only [footG_of_ne np sqrt _ _ _ _ _ hb]

/-! ### the two-sequence loop -/

/-- the loop on two sequences is the loop on the zipped vertices whenever `Yp` is at least as long as `Xp`
and the argument form makes no difference on the segments that are projected on -/
theorem polyLoopXY_zip (np : Bool) (sqrt : α → α) (eps x y : α) :
    ∀ (X Y : List α) (i : Nat) (cur : Option (α × α × α × Nat)), X.length ≤ Y.length →
      (∀ k p1 p2, SegAt (X.zip Y) k p1 p2 → skipped eps p1.1 p1.2 p2.1 p2.2 = false →
        projSegmentG np sqrt p1.1 p1.2 p2.1 p2.2 x y = projSegment sqrt p1.1 p1.2 p2.1 p2.2 x y) →
      polyLoopXY np sqrt eps x y X Y i cur = (polyLoop sqrt eps x y (X.zip Y) i cur).mapError ErrX.base := by
  intro X
  induction X with
  | nil => intro Y i cur _ _; simp [polyLoopXY, polyLoop, Except.mapError]
  | cons x1 tl ih =>
    cases tl with
    | nil =>
      intro Y i cur hl _
      cases Y with
      | nil => simp at hl
      | cons y1 ys => simp [polyLoopXY, polyLoop, Except.mapError]
    | cons x2 xs =>
      intro Y i cur hl hseg
      cases Y with
      | nil => simp at hl
      | cons y1 ys =>
        cases ys with
        | nil => simp at hl
        | cons y2 ys' =>
          have hl' : (x2 :: xs).length ≤ (y2 :: ys').length := by simp at hl ⊢; omega
          have hseg' : ∀ k p1 p2, SegAt ((x2 :: xs).zip (y2 :: ys')) k p1 p2 → skipped eps p1.1 p1.2 p2.1 p2.2 = false →
              projSegmentG np sqrt p1.1 p1.2 p2.1 p2.2 x y = projSegment sqrt p1.1 p1.2 p2.1 p2.2 x y :=
            fun k p1 p2 hs hk => hseg (k + 1) p1 p2 (by
              simp only [List.zip_cons_cons] at hs ⊢
              exact (SegAt_succ _ _ k p1 p2).mpr hs) hk
          simp only [List.zip_cons_cons]
          rw [polyLoopXY, polyLoop]
          cases hsk : skipped eps x1 y1 x2 y2 with
          | true =>
            simp only [↓reduceIte]
            have := ih (y2 :: ys') (i + 1) cur hl' hseg'
            simpa only [List.zip_cons_cons] using this
          | false =>
            simp only [Bool.false_eq_true, ↓reduceIte]
            have h0 := hseg 0 (x1, y1) (x2, y2)
              (by simp only [List.zip_cons_cons]; exact (SegAt_zero _ _ _ _ _).mpr ⟨rfl, rfl⟩) hsk
            simp only at h0
            rw [h0]
            cases hp : projSegment sqrt x1 y1 x2 y2 x y with
            | error e => simp [Except.mapError]
            | ok r =>
              simp only []
              have := ih (y2 :: ys') (i + 1) (if better r.1 cur = true then some (r.1, r.2.1, r.2.2, i) else cur) hl' hseg'
              simpa only [List.zip_cons_cons] using this

/-- a `Yp` shorter than `Xp` (with at least one segment in `Xp`) never lets the loop finish -/
theorem polyLoopXY_short (np : Bool) (sqrt : α → α) (eps x y : α) :
    ∀ (X Y : List α) (i : Nat) (cur res : Option (α × α × α × Nat)), 2 ≤ X.length → Y.length < X.length →
      polyLoopXY np sqrt eps x y X Y i cur ≠ .ok res := by
  intro X
  induction X with
  | nil => intro Y i cur res h2; simp at h2
  | cons x1 tl ih =>
    cases tl with
    | nil => intro Y i cur res h2; simp at h2
    | cons x2 xs =>
      intro Y i cur res _ hl
      cases Y with
      | nil => simp [polyLoopXY]
      | cons y1 ys =>
        cases ys with
        | nil => simp [polyLoopXY]
        | cons y2 ys' =>
          rw [polyLoopXY]
          have hl' : (y2 :: ys').length < (x2 :: xs).length := by simp at hl ⊢; omega
          have h2' : 2 ≤ (x2 :: xs).length := by simp at hl' ⊢; omega
          split
          · exact ih (y2 :: ys') (i + 1) cur res h2' hl'
          · split
            · simp
            · exact ih (y2 :: ys') (i + 1) _ res h2' hl'

/-! ### skipped zero-length segments: every vertex is an end point of a segment that is not skipped -/

/-- If `bound` holds at both ends of every non-skipped segment, at vertex `i`, and every skipped segment has
two equal end points, then it holds at every vertex. -/
theorem vertices_of_live (eps : α) (pts : List (α × α)) (bound : α × α → Prop) (i : Nat) (pi : α × α)
    (hz : ∀ j p1 p2, pts[j]? = some p1 → pts[j + 1]? = some p2 → skipped eps p1.1 p1.2 p2.1 p2.2 = true → p1 = p2)
    (hlive : ∀ j p1 p2, pts[j]? = some p1 → pts[j + 1]? = some p2 → skipped eps p1.1 p1.2 p2.1 p2.2 = false →
      bound p1 ∧ bound p2)
    (hpi : pts[i]? = some pi) (hi : bound pi) :
    ∀ (v : Nat) (p : α × α), pts[v]? = some p → bound p := by
  have hil : i < pts.length := (List.getElem?_eq_some_iff.mp hpi).1
  have up : ∀ n p, pts[i + n]? = some p → bound p := by
    intro n
    induction n with
    | zero => intro p hp; rw [Nat.add_zero, hpi] at hp; injection hp with hp; rw [← hp]; exact hi
    | succ n ih =>
      intro p2 hp2
      have hlt : i + n < pts.length := by
        have := (List.getElem?_eq_some_iff.mp hp2).1; omega
      have hp1 : pts[i + n]? = some pts[i + n] := List.getElem?_eq_getElem hlt
      cases hsk : skipped eps (pts[i + n]).1 (pts[i + n]).2 p2.1 p2.2 with
      | true => have e := hz _ _ _ hp1 hp2 hsk; rw [← e]; exact ih _ hp1
      | false => exact (hlive _ _ _ hp1 hp2 hsk).2
  have down : ∀ n, n ≤ i → ∀ p, pts[i - n]? = some p → bound p := by
    intro n
    induction n with
    | zero => intro _ p hp; rw [Nat.sub_zero, hpi] at hp; injection hp with hp; rw [← hp]; exact hi
    | succ n ih =>
      intro hn p1 hp1
      have e1 : i - (n + 1) + 1 = i - n := by omega
      have hlt : i - n < pts.length := by omega
      have hp2 : pts[i - (n + 1) + 1]? = some pts[i - n] := by rw [e1]; exact List.getElem?_eq_getElem hlt
      cases hsk : skipped eps p1.1 p1.2 (pts[i - n]).1 (pts[i - n]).2 with
      | true => have e := hz _ _ _ hp1 hp2 hsk; rw [e]; exact ih (by omega) _ (List.getElem?_eq_getElem hlt)
      | false => exact (hlive _ _ _ hp1 hp2 hsk).1
  intro v p hp
  rcases Nat.le_total i v with h | h
  · have e : v = i + (v - i) := by omega
    rw [e] at hp; exact up _ p hp
  · have e : v = i - (i - v) := by omega
    rw [e] at hp; exact down _ (by omega) p hp

end TV.Proj
