import TracklibVerif.Model.SimplifyTrack
import TracklibVerif.Lemmas.Simplify
/-! Lemmas relating the `Track`-level model of simplification (`Model/SimplifyTrack.lean`) to the list-level
model (`Model/Simplify.lean`): the positions computed are the same, the feature rows travel with their
observations, the temporary `'@aire'` column leaves no trace. No property of the scalar type is used. -/
namespace TV.Simplify
set_option linter.unusedSectionVars false
variable {α : Type} [Add α] [Sub α] [Mul α] [Div α] [Neg α] [LT α] [DecidableLT α] [BEq α]
  [OfNat α 0] [OfNat α 1] [OfNat α 2]

/-! ### Douglas–Peucker -/

theorem dpTrkFuel_short (sqrt : α → α) (eps : α) (fuel : Nat) (T : Trk α) (h : T.pts.length ≤ 2) :
    dpTrkFuel sqrt eps fuel T = some ⟨T.pts, Info.default, []⟩ := by
  cases fuel with
  | zero => rw [dpTrkFuel]; simp [h]
  | succ fuel => rw [dpTrkFuel]; simp [h]

theorem dpTrkFuel_zero_long (sqrt : α → α) (eps : α) (T : Trk α) (h : ¬ T.pts.length ≤ 2) :
    dpTrkFuel sqrt eps 0 T = none := by
  rw [dpTrkFuel]; simp [h]

/-- unfolding of one level of the recursion on a track of at least three fixes -/
theorem dpTrkFuel_succ_long (sqrt : α → α) (eps : α) (fuel : Nat) (T : Trk α) (A P Q : Ob α) (R : List (Ob α))
    (h : T.pts = A :: P :: Q :: R) :
    dpTrkFuel sqrt eps (fuel + 1) T =
      if (farthest sqrt A.fix ((Q :: R).getLast (List.cons_ne_nil _ _)).fix (fixes T.pts) 0 0 0).1 < eps then
        some ⟨[A, (Q :: R).getLast (List.cons_ne_nil _ _)], T.info, []⟩
      else
        (dpTrkFuel sqrt eps fuel ⟨T.pts.take
            (farthest sqrt A.fix ((Q :: R).getLast (List.cons_ne_nil _ _)).fix (fixes T.pts) 0 0 0).2, T.info, []⟩).bind fun o1 =>
        (dpTrkFuel sqrt eps fuel ⟨T.pts.drop
            (farthest sqrt A.fix ((Q :: R).getLast (List.cons_ne_nil _ _)).fix (fixes T.pts) 0 0 0).2, T.info, []⟩).map fun o2 =>
          trkAdd o1 o2 := by
  have hl : ¬ T.pts.length ≤ 2 := by rw [h]; simp
  have hh : T.pts.head? = some A := by rw [h]; rfl
  have hg : T.pts.getLast? = some ((Q :: R).getLast (List.cons_ne_nil _ _)) := by
    rw [h, List.getLast?_cons_cons, List.getLast?_cons_cons, List.getLast?_eq_some_getLast]
  rw [dpTrkFuel]
  simp only [hl, ↓reduceIte, hh, hg]
  split
  · rfl
  · generalize dpTrkFuel sqrt eps fuel _ = x
    generalize dpTrkFuel sqrt eps fuel _ = y
    cases x <;> cases y <;> rfl

theorem fixes_getLast (Q : Ob α) (R : List (Ob α)) :
    ((Q :: R).getLast (List.cons_ne_nil _ _)).fix = chordEnd Q.fix (fixes R) := by
  unfold chordEnd
  have : (Q.fix :: fixes R) = (Q :: R).map (·.fix) := rfl
  simp only [this, List.getLast_map]

/-- the positions of the `Track`-level Douglas–Peucker are those of the list-level model (`dpFuel`) — hence every
theorem about `douglasPeucker` (sub-sequence, ends, termination, tolerance) is about the `Track` returned -/
theorem dpTrkFuel_fixes (sqrt : α → α) (eps : α) (fuel : Nat) (T : Trk α) :
    (dpTrkFuel sqrt eps fuel T).map (fun O => fixes O.pts) = dpFuel sqrt eps fuel (fixes T.pts) := by
  induction fuel generalizing T with
  | zero =>
    by_cases h : T.pts.length ≤ 2
    · rw [dpTrkFuel_short sqrt eps 0 T h, dpFuel_short sqrt eps 0 _ (by simpa using h)]; rfl
    · rw [dpTrkFuel_zero_long sqrt eps T h]
      obtain ⟨a, p, q, rest, e⟩ := three_of_len (fixes T.pts) (by simpa using h)
      rw [e, dpFuel_zero]; rfl
  | succ fuel ih =>
    by_cases h : T.pts.length ≤ 2
    · rw [dpTrkFuel_short sqrt eps _ T h, dpFuel_short sqrt eps _ _ (by simpa using h)]; rfl
    · obtain ⟨A, P, Q, R, e⟩ := three_of_len T.pts h
      rw [dpTrkFuel_succ_long sqrt eps fuel T A P Q R e]
      have ef : fixes T.pts = A.fix :: P.fix :: Q.fix :: fixes R := by rw [e]; rfl
      have hd := dpFuel_succ sqrt eps fuel A.fix P.fix Q.fix (fixes R)
      rw [← ef, ← fixes_getLast Q R] at hd
      rw [hd]
      split
      · rfl
      · have i1 := ih ⟨T.pts.take (farthest sqrt A.fix ((Q :: R).getLast (List.cons_ne_nil _ _)).fix (fixes T.pts) 0 0 0).2, T.info, []⟩
        have i2 := ih ⟨T.pts.drop (farthest sqrt A.fix ((Q :: R).getLast (List.cons_ne_nil _ _)).fix (fixes T.pts) 0 0 0).2, T.info, []⟩
        simp only [List.map_take, List.map_drop] at i1 i2
        rw [← i1, ← i2]
        generalize dpTrkFuel sqrt eps fuel _ = x
        generalize dpTrkFuel sqrt eps fuel _ = y
        cases x <;> cases y <;> simp [trkAdd]

theorem head?_take_or_drop {β : Type} (l : List β) (k : Nat) :
    ((l.take k).head?).or ((l.drop k).head?) = l.head? := by
  rw [← List.head?_append, List.take_append_drop]

theorem getLast?_drop_or_take {β : Type} (l : List β) (k : Nat) :
    ((l.drop k).getLast?).or ((l.take k).getLast?) = l.getLast? := by
  rw [← List.getLast?_append, List.take_append_drop]

/-- what Douglas–Peucker does to the observations and to the `Track` object: the **observations** returned (position,
tag and feature row) are a sub-sequence of the input's, first and last included; the feature dict of the result is
empty; `uid`, `tid`, `base` are the input's or the constructor's defaults -/
theorem dpTrkFuel_obs (sqrt : α → α) (eps : α) (fuel : Nat) (T O : Trk α)
    (h : dpTrkFuel sqrt eps fuel T = some O) :
    O.pts.Sublist T.pts ∧ O.pts.head? = T.pts.head? ∧ O.pts.getLast? = T.pts.getLast? ∧ O.dico = [] ∧
    (O.info = T.info ∨ O.info = Info.default) := by
  induction fuel generalizing T O with
  | zero =>
    by_cases hl : T.pts.length ≤ 2
    · rw [dpTrkFuel_short sqrt eps 0 T hl] at h; cases h
      exact ⟨List.Sublist.refl _, rfl, rfl, rfl, Or.inr rfl⟩
    · rw [dpTrkFuel_zero_long sqrt eps T hl] at h; cases h
  | succ fuel ih =>
    by_cases hl : T.pts.length ≤ 2
    · rw [dpTrkFuel_short sqrt eps _ T hl] at h; cases h
      exact ⟨List.Sublist.refl _, rfl, rfl, rfl, Or.inr rfl⟩
    · obtain ⟨A, P, Q, R, e⟩ := three_of_len T.pts hl
      rw [dpTrkFuel_succ_long sqrt eps fuel T A P Q R e] at h
      split at h
      · cases h
        refine ⟨?_, by rw [e]; rfl, ?_, rfl, Or.inl rfl⟩
        · rw [e]
          refine List.Sublist.cons_cons _ ?_
          refine List.Sublist.cons _ ?_
          exact List.singleton_sublist.mpr (List.getLast_mem _)
        · rw [e]
          simp only [List.getLast?_cons_cons]
          exact (List.getLast?_eq_some_getLast (List.cons_ne_nil _ _)).symm
      · generalize hk : (farthest sqrt A.fix ((Q :: R).getLast (List.cons_ne_nil _ _)).fix (fixes T.pts) 0 0 0).2 = k at h
        cases h1 : dpTrkFuel sqrt eps fuel ⟨T.pts.take k, T.info, []⟩ with
        | none => rw [h1] at h; cases h
        | some o1 =>
          cases h2 : dpTrkFuel sqrt eps fuel ⟨T.pts.drop k, T.info, []⟩ with
          | none => rw [h1, h2] at h; cases h
          | some o2 =>
            rw [h1, h2] at h
            simp only [Option.bind_some, Option.map_some, Option.some.injEq] at h
            subst h
            obtain ⟨s1, a1, b1, d1, m1⟩ := ih _ _ h1
            obtain ⟨s2, a2, b2, d2, m2⟩ := ih _ _ h2
            simp only at s1 a1 b1 s2 a2 b2 m1 m2
            refine ⟨?_, ?_, ?_, ?_, ?_⟩
            · have := List.Sublist.append s1 s2
              rwa [List.take_append_drop] at this
            · simp only [trkAdd, List.head?_append, a1, a2, head?_take_or_drop]
            · simp only [trkAdd, List.getLast?_append, b1, b2, getLast?_drop_or_take]
            · simp only [trkAdd, Trk.names, d1, d2, List.map_nil, TV.Seq.sameNames, ↓reduceIte]
            · simp only [trkAdd]; exact m1

/-! ### Visvalingam -/

/-- `removeObs(id)` (C04's `removeObsList([id])`, `TV.Seq.removeObs`) is `del L[id]` — the `eraseIdx` of the
list-level model — for every natural index (past the end: `IndexError` in Python, the list unchanged here) -/
theorem removeObs_eq_eraseIdx {β : Type} (S : List β) (id : Nat) :
    (TV.Seq.removeObs S (id : Int)).1 = S.eraseIdx id := by
  unfold TV.Seq.removeObs TV.Seq.removeByIdx
  simp only [List.isEmpty_cons, Bool.false_eq_true, ↓reduceIte, List.mergeSort_singleton, TV.Seq.hasAdjDup,
    List.reverse_singleton, TV.Seq.delLoop, TV.Seq.pyDel, Int.natCast_nonneg, Int.toNat_natCast]
  by_cases h : id < S.length
  · simp [h]
  · simp only [h, ↓reduceIte]
    rw [List.eraseIdx_of_length_le (by omega)]

/-- the list-level state seen in the feature rows: position and column `k` -/
def absK (k : Nat) (S : List (Ob α)) : VState α := S.map (fun o => (o.fix, colAt k o))

/-- the observations without column `k` (what `removeAnalyticalFeature` leaves) -/
def restK (k : Nat) (S : List (Ob α)) : List (Ob α) := S.map (fun o => { o with feats := o.feats.eraseIdx k })

/-- every row has a column `k` -/
def HasK (k : Nat) (S : List (Ob α)) : Prop := ∀ o ∈ S, k < o.feats.length

theorem absK_map_fst (k : Nat) (S : List (Ob α)) : (absK k S).map (·.1) = fixes S := by
  simp [absK, fixes]

theorem absK_map_snd (k : Nat) (S : List (Ob α)) : (absK k S).map (·.2) = S.map (colAt k) := by
  simp [absK]

theorem absK_length (k : Nat) (S : List (Ob α)) : (absK k S).length = S.length := by simp [absK]

theorem colAt_setFeat (k : Nat) (o : Ob α) (v : Option α) (h : k < o.feats.length) :
    colAt k (o.setFeat k v) = v := by
  simp [colAt, Ob.setFeat, h]

theorem set_self_of_getElem? {β : Type} (l : List β) (i : Nat) (a : β) (h : l[i]? = some a) : l.set i a = l := by
  apply List.ext_getElem?
  intro j
  rw [List.getElem?_set]
  split
  · rename_i hij; subst hij
    split
    · exact h.symm
    · rename_i hl; rw [List.getElem?_eq_none_iff.mpr (by omega)] at h; cases h
  · rfl

theorem absK_setAireT (k : Nat) (S : List (Ob α)) (i : Nat) (hk : HasK k S) :
    absK k (setAireT k S i) = setAire (absK k S) i := by
  unfold setAireT setAire
  have e : (absK k S)[i]? = (S[i]?).map (fun o => (o.fix, colAt k o)) := by simp [absK]
  rw [e]
  cases hi : S[i]? with
  | none => rfl
  | some o =>
    have ho : o ∈ S := List.mem_of_getElem? hi
    simp only [Option.map_some, absK_map_fst]
    simp only [absK, List.map_set, colAt_setFeat k o _ (hk o ho)]
    rfl

theorem restK_setAireT (k : Nat) (S : List (Ob α)) (i : Nat) : restK k (setAireT k S i) = restK k S := by
  unfold setAireT
  cases hi : S[i]? with
  | none => rfl
  | some o =>
    simp only [restK, List.map_set, Ob.setFeat, List.eraseIdx_set_eq]
    apply set_self_of_getElem?
    simp [hi]

theorem setAireT_length (k : Nat) (S : List (Ob α)) (i : Nat) : (setAireT k S i).length = S.length := by
  unfold setAireT
  cases S[i]? <;> simp

theorem HasK_setAireT (k : Nat) (S : List (Ob α)) (i : Nat) (hk : HasK k S) : HasK k (setAireT k S i) := by
  unfold setAireT
  cases hi : S[i]? with
  | none => exact hk
  | some o =>
    intro o' ho'
    rcases List.mem_or_eq_of_mem_set ho' with h | h
    · exact hk o' h
    · subst h
      simp only [Ob.setFeat, List.length_set]
      exact hk o (List.mem_of_getElem? hi)

theorem HasK_eraseIdx (k : Nat) (S : List (Ob α)) (i : Nat) (hk : HasK k S) : HasK k (S.eraseIdx i) :=
  fun o ho => hk o (List.mem_of_mem_eraseIdx ho)

/-- the part of the loop body after the `break` test, on the feature rows … -/
def bodyT (k : Nat) (S : List (Ob α)) (id : Nat) : List (Ob α) :=
  if id < (if id > 1 then setAireT k (S.eraseIdx id) (id - 1) else S.eraseIdx id).length - 1 then
    setAireT k (if id > 1 then setAireT k (S.eraseIdx id) (id - 1) else S.eraseIdx id) id
  else if id > 1 then setAireT k (S.eraseIdx id) (id - 1) else S.eraseIdx id

/-- … and in the list-level model -/
def bodyL (A : VState α) (id : Nat) : VState α :=
  if id < (if id > 1 then setAire (A.eraseIdx id) (id - 1) else A.eraseIdx id).length - 1 then
    setAire (if id > 1 then setAire (A.eraseIdx id) (id - 1) else A.eraseIdx id) id
  else if id > 1 then setAire (A.eraseIdx id) (id - 1) else A.eraseIdx id

theorem bodyT_spec (k : Nat) (S : List (Ob α)) (id : Nat) (hk : HasK k S) :
    absK k (bodyT k S id) = bodyL (absK k S) id ∧ HasK k (bodyT k S id) ∧
    restK k (bodyT k S id) = (restK k S).eraseIdx id := by
  unfold bodyT bodyL
  have h1 : HasK k (S.eraseIdx id) := HasK_eraseIdx k S id hk
  have a1 : absK k (S.eraseIdx id) = (absK k S).eraseIdx id := map_eraseIdx' _ _ _
  have r1 : restK k (S.eraseIdx id) = (restK k S).eraseIdx id := map_eraseIdx' _ _ _
  have h2 : HasK k (if id > 1 then setAireT k (S.eraseIdx id) (id - 1) else S.eraseIdx id) := by
    split
    · exact HasK_setAireT k _ _ h1
    · exact h1
  have a2 : absK k (if id > 1 then setAireT k (S.eraseIdx id) (id - 1) else S.eraseIdx id) =
      (if id > 1 then setAire ((absK k S).eraseIdx id) (id - 1) else (absK k S).eraseIdx id) := by
    split
    · rw [absK_setAireT k _ _ h1, a1]
    · exact a1
  have r2 : restK k (if id > 1 then setAireT k (S.eraseIdx id) (id - 1) else S.eraseIdx id) =
      (restK k S).eraseIdx id := by
    split
    · rw [restK_setAireT, r1]
    · exact r1
  have l2 : (if id > 1 then setAireT k (S.eraseIdx id) (id - 1) else S.eraseIdx id).length =
      (if id > 1 then setAire ((absK k S).eraseIdx id) (id - 1) else (absK k S).eraseIdx id).length := by
    rw [← a2, absK_length]
  generalize (if id > 1 then setAireT k (S.eraseIdx id) (id - 1) else S.eraseIdx id) = S2 at h2 a2 r2 l2 ⊢
  generalize (if id > 1 then setAire ((absK k S).eraseIdx id) (id - 1) else (absK k S).eraseIdx id) = A2 at a2 l2 ⊢
  rw [l2]
  split
  · exact ⟨by rw [absK_setAireT k _ _ h2, a2], HasK_setAireT k _ _ h2, by rw [restK_setAireT, r2]⟩
  · exact ⟨a2, h2, r2⟩

/-- `vwStep` of the list-level model, with its `break` test written with `stopOf` -/
theorem vwStep_eq (big eps2 : α) (A : VState α) :
    vwStep big eps2 A =
      if A.length > 2 then
        (if stopOf eps2 ((A[argmin big (A.map (·.2))]?).map (·.2)) = true then none
         else some (bodyL A (argmin big (A.map (·.2)))))
      else none := by
  unfold vwStep bodyL
  split
  · generalize argmin big (A.map (·.2)) = id
    refine congrArg (fun b : Bool => if b = true then none else some (_ : VState α)) ?_
    split
    · rename_i h; simp [h, stopOf]
    · rename_i h
      cases hA : A[id]? with
      | none => simp [stopOf]
      | some e =>
        obtain ⟨p, c⟩ := e
        cases c with
        | none => simp [stopOf]
        | some v => exact absurd hA (h p v)
  · rfl

/-- one pass of the loop on the feature rows is one pass of the list-level loop on column `k`; the other columns
are only affected by the removal of the designated observation -/
theorem vwStepT_spec (big eps2 : α) (k : Nat) (S : List (Ob α)) (hk : HasK k S) :
    (vwStepT big eps2 k S).map (absK k) = vwStep big eps2 (absK k S) ∧
    ∀ S', vwStepT big eps2 k S = some S' →
      HasK k S' ∧ restK k S' = (restK k S).eraseIdx (argmin big ((absK k S).map (·.2))) := by
  rw [vwStep_eq]
  unfold vwStepT
  rw [absK_length, absK_map_snd]
  by_cases hl : S.length > 2
  · simp only [hl, ↓reduceIte, removeObs_eq_eraseIdx]
    generalize argmin big (S.map (colAt k)) = id
    have e : ((absK k S)[id]?).map (·.2) = (S[id]?).map (colAt k) := by
      simp only [absK, List.getElem?_map, Option.map_map]; rfl
    rw [e]
    obtain ⟨b1, b2, b3⟩ := bodyT_spec k S id hk
    generalize stopOf eps2 ((S[id]?).map (colAt k)) = stop
    cases stop with
    | true => simp
    | false =>
      simp only [Bool.false_eq_true, ↓reduceIte, Option.map_some, Option.some.injEq]
      exact ⟨b1, fun S' h => h ▸ ⟨b2, b3⟩⟩
  · simp [hl]

/-- the whole loop: same passes as the list-level loop; the rows only lose observations -/
theorem vwLoopT_spec (big eps2 : α) (k : Nat) (fuel : Nat) :
    ∀ S : List (Ob α), HasK k S →
      absK k (vwLoopT big eps2 k fuel S) = vwLoop big eps2 fuel (absK k S) ∧
      HasK k (vwLoopT big eps2 k fuel S) ∧
      (restK k (vwLoopT big eps2 k fuel S)).Sublist (restK k S) := by
  induction fuel with
  | zero => intro S hk; exact ⟨rfl, hk, List.Sublist.refl _⟩
  | succ fuel ih =>
    intro S hk
    obtain ⟨hc, hr⟩ := vwStepT_spec big eps2 k S hk
    rw [vwLoopT, vwLoop, ← hc]
    cases hs : vwStepT big eps2 k S with
    | none => exact ⟨rfl, hk, List.Sublist.refl _⟩
    | some S' =>
      obtain ⟨hk', hr'⟩ := hr S' hs
      obtain ⟨i1, i2, i3⟩ := ih S' hk'
      refine ⟨i1, i2, i3.trans ?_⟩
      rw [hr']
      exact List.eraseIdx_sublist _ _

/-- with the invariant of the list-level loop (areas below ARGMIN's sentinel), the rows keep their first and last
observation -/
theorem vwLoopT_ends (big eps2 : α) (k : Nat) (L : List (Fix α))
    (hbig : ∀ a b c, a ∈ L → b ∈ L → c ∈ L → areaFix a b c < big) (fuel : Nat) :
    ∀ S : List (Ob α), HasK k S → VInv big L (absK k S) →
      (restK k (vwLoopT big eps2 k fuel S)).head? = (restK k S).head? ∧
      (restK k (vwLoopT big eps2 k fuel S)).getLast? = (restK k S).getLast? := by
  induction fuel with
  | zero => intro S _ _; exact ⟨rfl, rfl⟩
  | succ fuel ih =>
    intro S hk hv
    obtain ⟨hc, hr⟩ := vwStepT_spec big eps2 k S hk
    rw [vwLoopT]
    cases hs : vwStepT big eps2 k S with
    | none => exact ⟨rfl, rfl⟩
    | some S' =>
      obtain ⟨hk', hr'⟩ := hr S' hs
      rw [hs] at hc
      obtain ⟨hv', id, h0, h1, _, eid⟩ := vwStep_spec big eps2 L hbig (absK k S) (absK k S') hv hc.symm
      obtain ⟨i1, i2⟩ := ih S' hk' hv'
      rw [← eid] at hr'
      rw [absK_length] at h1
      have hlen : (restK k S).length = S.length := by simp [restK]
      refine ⟨?_, ?_⟩
      · rw [i1, hr', head?_eraseIdx_pos _ _ h0]
      · rw [i2, hr', getLast?_eraseIdx_interior _ _ (by omega)]

/-! #### the `'@aire'` column: creation, initial values, removal -/

/-- a well-formed feature table (the invariant of C01) that does not yet contain `'@aire'`: every row has as many
entries as the dict has names, the column indices are below that number -/
structure FreshTable (T : Trk α) : Prop where
  fresh : findAF T.dico aireName = none
  rows : ∀ o ∈ T.pts, o.feats.length = T.dico.length
  idx : ∀ p ∈ T.dico, p.2 < T.dico.length

/-- the rows when the loop starts: the new last column holds NaN for the first fix, `aire_visval` for the others -/
def initRows (P : List (Ob α)) : List (Ob α) :=
  P.zipIdx.map (fun oi => ⟨oi.1.fix, oi.1.feats ++ [if oi.2 = 0 then none else aireVisval (fixes P) oi.2]⟩)

theorem initRows_getElem? (P : List (Ob α)) (i : Nat) :
    (initRows P)[i]? = (P[i]?).map (fun o => ⟨o.fix, o.feats ++ [if i = 0 then none else aireVisval (fixes P) i]⟩) := by
  unfold initRows
  rw [List.getElem?_map, List.getElem?_zipIdx]
  cases P[i]? with
  | none => rfl
  | some o => simp

theorem findAF_append_new (dico : List (String × Nat)) (name : String) (k : Nat) (h : findAF dico name = none) :
    findAF (dico ++ [(name, k)]) name = some k := by
  unfold findAF at h ⊢
  have h' : dico.find? (fun p => p.1 == name) = none := by
    cases hf : dico.find? (fun p => p.1 == name) with
    | none => rfl
    | some x => rw [hf] at h; cases h
  rw [List.find?_append, h']
  simp

theorem set_last {β : Type} (l : List β) (a b : β) (k : Nat) (h : l.length = k) : (l ++ [a]).set k b = l ++ [b] := by
  rw [List.set_append_right k b (by omega)]
  have : k - l.length = 0 := by omega
  rw [this]; rfl

theorem eraseIdx_last {β : Type} (l : List β) (a : β) (k : Nat) (h : l.length = k) : (l ++ [a]).eraseIdx k = l := by
  rw [List.eraseIdx_append_of_length_le (by omega)]
  have : k - l.length = 0 := by omega
  rw [this]; simp

/-- `addAnalyticalFeature(aire_visval, "@aire")` on a table that does not have the column: new last column -/
theorem addAire_fresh (T : Trk α) (hf : FreshTable T) (hne : T.pts ≠ []) :
    addAire T = .ok (T.pts.zipIdx.map (fun oi => ⟨oi.1.fix, oi.1.feats ++ [aireVisval (fixes T.pts) oi.2]⟩),
      T.dico ++ [(aireName, T.dico.length)], T.dico.length) := by
  unfold addAire
  have hemp : T.pts.isEmpty = false := by
    cases hp : T.pts with
    | nil => exact absurd hp hne
    | cons _ _ => rfl
  simp only [hf.fresh, hemp, Bool.false_eq_true, ↓reduceIte, findAF_append_new _ _ _ hf.fresh]
  congr 2
  have hfx : fixes (T.pts.map (fun o => ({ o with feats := o.feats ++ [some 0] } : Ob α))) = fixes T.pts := by
    simp [fixes]
  rw [hfx]
  apply List.ext_getElem?
  intro i
  simp only [List.getElem?_map, List.getElem?_zipIdx]
  cases hi : T.pts[i]? with
  | none => rfl
  | some o =>
    have ho := hf.rows o (List.mem_of_getElem? hi)
    simp only [Option.map_some, Nat.zero_add, Ob.setFeat, set_last _ _ _ _ ho]

/-- the `Track`-level Visvalingam on a well-formed table without `'@aire'`, in closed form -/
theorem vwTrk_fresh (big eps : α) (T : Trk α) (hf : FreshTable T) (hne : T.pts ≠ []) :
    vwTrk big eps T = .ok ⟨restK T.dico.length (vwLoopT big (eps * eps) T.dico.length T.pts.length (initRows T.pts)),
      T.info, T.dico⟩ := by
  unfold vwTrk
  rw [addAire_fresh T hf hne]
  simp only
  obtain ⟨o0, r0, e0⟩ : ∃ o r, T.pts = o :: r := by
    cases hp : T.pts with
    | nil => exact absurd hp hne
    | cons o r => exact ⟨o, r, rfl⟩
  have h0 : (T.pts.zipIdx.map (fun oi => (⟨oi.1.fix, oi.1.feats ++ [aireVisval (fixes T.pts) oi.2]⟩ : Ob α)))[0]? =
      some ⟨o0.fix, o0.feats ++ [aireVisval (fixes T.pts) 0]⟩ := by
    rw [List.getElem?_map, List.getElem?_zipIdx, e0]; rfl
  rw [h0]
  simp only
  have hS1 : (T.pts.zipIdx.map (fun oi => (⟨oi.1.fix, oi.1.feats ++ [aireVisval (fixes T.pts) oi.2]⟩ : Ob α))).set 0
      (Ob.setFeat ⟨o0.fix, o0.feats ++ [aireVisval (fixes T.pts) 0]⟩ T.dico.length none) = initRows T.pts := by
    apply List.ext_getElem?
    intro i
    rw [List.getElem?_set, initRows_getElem?, List.getElem?_map, List.getElem?_zipIdx]
    by_cases hi : 0 = i
    · subst hi
      have hl : 0 < (T.pts.zipIdx.map (fun oi => (⟨oi.1.fix, oi.1.feats ++ [aireVisval (fixes T.pts) oi.2]⟩ : Ob α))).length := by
        rw [e0]; simp
      have ho := hf.rows o0 (by rw [e0]; exact List.mem_cons_self)
      rw [if_pos rfl, if_pos hl]
      simp only [↓reduceIte, e0, List.getElem?_cons_zero, Option.map_some, Ob.setFeat, set_last _ _ _ _ ho]
    · have hi' : ¬ i = 0 := fun h => hi h.symm
      simp only [hi, hi', ↓reduceIte, Nat.zero_add]
      cases T.pts[i]? <;> rfl
  rw [hS1]
  have hlen : (initRows T.pts).length = T.pts.length := by simp [initRows]
  rw [hlen]
  congr 2
  unfold removeCol
  simp only
  have hflt : (T.dico ++ [(aireName, T.dico.length)]).filter (fun p => !(p.1 == aireName)) = T.dico := by
    rw [List.filter_append]
    have h1 : T.dico.filter (fun p => !(p.1 == aireName)) = T.dico := by
      rw [List.filter_eq_self]
      intro a ha
      have := hf.fresh
      unfold findAF at this
      have h' : T.dico.find? (fun p => p.1 == aireName) = none := by
        cases hx : T.dico.find? (fun p => p.1 == aireName) with
        | none => rfl
        | some x => rw [hx] at this; cases this
      have := List.find?_eq_none.mp h' a ha
      simpa using this
    rw [h1]; simp
  rw [hflt]
  have hm : T.dico.map (fun p => (p.1, if p.2 > T.dico.length then p.2 - 1 else p.2)) = T.dico.map id := by
    apply List.map_congr_left
    intro p hp
    have := hf.idx p hp
    have hgt : ¬ p.2 > T.dico.length := by omega
    simp only [hgt, ↓reduceIte, id]
  rw [hm, List.map_id]

theorem colAt_last (k : Nat) (f : Fix α) (feats : List (Option α)) (v : Option α) (h : feats.length = k) :
    colAt k (⟨f, feats ++ [v]⟩ : Ob α) = v := by
  unfold colAt
  simp only
  rw [List.getElem?_append_right (by omega)]
  have : k - feats.length = 0 := by omega
  rw [this]; rfl

theorem initRows_abs (k : Nat) (P : List (Ob α)) (h : ∀ o ∈ P, o.feats.length = k) :
    absK k (initRows P) = vwInit (fixes P) := by
  apply List.ext_getElem?
  intro i
  unfold absK
  rw [List.getElem?_map, initRows_getElem?, vwInit_getElem?, List.getElem?_map]
  cases hi : P[i]? with
  | none => rfl
  | some o =>
    simp only [Option.map_some, colAt_last k _ _ _ (h o (List.mem_of_getElem? hi))]

theorem initRows_rest (k : Nat) (P : List (Ob α)) (h : ∀ o ∈ P, o.feats.length = k) :
    restK k (initRows P) = P := by
  apply List.ext_getElem?
  intro i
  unfold restK
  rw [List.getElem?_map, initRows_getElem?]
  cases hi : P[i]? with
  | none => rfl
  | some o =>
    simp only [Option.map_some, eraseIdx_last _ _ _ (h o (List.mem_of_getElem? hi))]

theorem initRows_has (k : Nat) (P : List (Ob α)) (h : ∀ o ∈ P, o.feats.length = k) : HasK k (initRows P) := by
  intro o ho
  obtain ⟨i, hi⟩ := List.mem_iff_getElem?.mp ho
  rw [initRows_getElem?] at hi
  cases hp : P[i]? with
  | none => rw [hp] at hi; cases hi
  | some o' =>
    rw [hp] at hi
    simp only [Option.map_some, Option.some.injEq] at hi
    subst hi
    have := h o' (List.mem_of_getElem? hp)
    simp only [List.length_append, List.length_singleton]
    omega

theorem fixes_restK (k : Nat) (S : List (Ob α)) : fixes (restK k S) = fixes S := by
  simp [fixes, restK]

/-- `visvalingam` on a `Track` with a well-formed feature table that has no `'@aire'` column: the call succeeds; the
positions returned are those of the list-level model (**any** tolerance, any areas); the observations returned —
position, tag and feature row — are a sub-sequence of the input's; the feature dict and `uid`, `tid`, `base` are the
input's: the temporary column leaves no trace -/
theorem vwTrk_spec (big eps : α) (T : Trk α) (hf : FreshTable T) (hne : T.pts ≠ []) :
    ∃ O, vwTrk big eps T = .ok O ∧ fixes O.pts = visvalingam big eps (fixes T.pts) ∧ O.pts.Sublist T.pts ∧
      O.dico = T.dico ∧ O.info = T.info := by
  refine ⟨_, vwTrk_fresh big eps T hf hne, ?_, ?_, rfl, rfl⟩
  · obtain ⟨a, _, _⟩ := vwLoopT_spec big (eps * eps) T.dico.length T.pts.length (initRows T.pts)
      (initRows_has _ _ hf.rows)
    simp only [fixes_restK]
    rw [← absK_map_fst T.dico.length, a, initRows_abs _ _ hf.rows]
    unfold visvalingam
    simp [fixes]
  · obtain ⟨_, _, c⟩ := vwLoopT_spec big (eps * eps) T.dico.length T.pts.length (initRows T.pts)
      (initRows_has _ _ hf.rows)
    rw [initRows_rest _ _ hf.rows] at c
    exact c

/-- … and, with the hypothesis of T6 (areas below ARGMIN's sentinel), the first and the last **observation** are kept -/
theorem vwTrk_ends (big eps : α) (T O : Trk α) (hf : FreshTable T) (h2 : 2 ≤ T.pts.length)
    (hbig : ∀ a b c, a ∈ fixes T.pts → b ∈ fixes T.pts → c ∈ fixes T.pts → areaFix a b c < big)
    (h : vwTrk big eps T = .ok O) :
    O.pts.head? = T.pts.head? ∧ O.pts.getLast? = T.pts.getLast? := by
  have hne : T.pts ≠ [] := by intro e; rw [e] at h2; simp at h2
  rw [vwTrk_fresh big eps T hf hne] at h
  cases h
  have hv : VInv big (fixes T.pts) (absK T.dico.length (initRows T.pts)) := by
    rw [initRows_abs _ _ hf.rows]
    exact vwInit_inv big (fixes T.pts) hbig (by simpa [fixes] using h2)
  have := vwLoopT_ends big (eps * eps) T.dico.length (fixes T.pts) hbig T.pts.length (initRows T.pts)
    (initRows_has _ _ hf.rows) hv
  rw [initRows_rest _ _ hf.rows] at this
  exact this

end TV.Simplify
