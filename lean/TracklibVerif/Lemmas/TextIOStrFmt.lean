import TracklibVerif.Model.TextIO
/-! The string-level algorithms of `ObsTime.__str__` and `ObsTime.__precompileReadFmt` (find / replace loops on the format
STRING) and their equivalence with the token-level model (`printTime`, `findCode` over `tokenize fmt`) for formats whose
literal characters are not code letters (core only).

What is assumed of Python's strings: `s.find(p)` for a two-character `p` is the index of the first position where the two
characters of `p` follow each other (`find2`), `-1` when there is none; `chaine[:id] + new + chaine[id+2:]` is `splice2`;
`"{:0wd}".format(v)` is `zpad w v`. The last loop of `__str__` (removal of backslashes) does nothing on a format without a
backslash and is not part of `strAlgo`. -/
namespace TV.TextIO
open TV.ObsTime

/-- `s.find(a + b)`: index of the first occurrence of the two-character string -/
def find2 (a b : Char) : Str → Option Nat
  | [] => none
  | x :: r => if x = a ∧ r.head? = some b then some 0 else (find2 a b r).map (· + 1)

/-- `chaine[:id] + new + chaine[id + 2:]` (`ObsTime.__replace` with length 2) -/
def splice2 (s : Str) (i : Nat) (new : Str) : Str := s.take i ++ new ++ s.drop (i + 2)

/-- `index = output.find(code); while index >= 0: output = replace(output, index, 2, new); index = output.find(code)` -/
def substCode : Nat → Char → Char → Str → Str → Str
  | 0, _, _, _, s => s
  | fuel + 1, a, b, new, s =>
    match find2 a b s with
    | none => s
    | some i => substCode fuel a b new (splice2 s i new)

/-- the loop of `ObsTime.__str__` over `__codes` on the format string (the fuel `output.length` is more than the number of
iterations of the `while` loop) -/
def strAlgo (fmt : Str) (t : Stamp) : Str :=
  codes.foldl (fun out c => substCode out.length (digitChar c.1) c.2 (zpad c.1 (fieldVal t c.1 c.2)) out) fmt

/-- the loop of `__precompileReadFmt` that fills the list (no `*` in the format): `format.find(code)` for every code -/
def precompileStr (fmt : Str) : List ((Nat × Char) × Nat) :=
  applyShift (sortByIdx (codes.filterMap (fun c => (find2 (digitChar c.1) c.2 fmt).map (fun i => (c, i))))) 0

def isCodeLetter (c : Char) : Bool := c = 'D' || c = 'M' || c = 'Y' || c = 'h' || c = 'm' || c = 's' || c = 'z'

/-! ### strings made of segments: finished text, or a code still to be replaced -/

inductive Seg where
  | done (s : Str)
  | todo (w : Nat) (l : Char)
  deriving DecidableEq

def Seg.str : Seg → Str
  | .done s => s
  | .todo w l => [digitChar w, l]

def segStr (ss : List Seg) : Str := (ss.map Seg.str).flatten

def SegOK : Seg → Prop
  | .done s => ∀ c ∈ s, isCodeLetter c = false
  | .todo w l => (w, l) ∈ codes

theorem codes_letter {w : Nat} {l : Char} (h : (w, l) ∈ codes) :
    isCodeLetter l = true ∧ isCodeLetter (digitChar w) = false ∧ 1 ≤ w ∧ w ≤ 4 := by
  simp only [codes, List.mem_cons, Prod.mk.injEq, List.not_mem_nil, or_false] at h
  rcases h with ⟨rfl, rfl⟩ | ⟨rfl, rfl⟩ | ⟨rfl, rfl⟩ | ⟨rfl, rfl⟩ | ⟨rfl, rfl⟩ | ⟨rfl, rfl⟩ | ⟨rfl, rfl⟩ | ⟨rfl, rfl⟩ | ⟨rfl, rfl⟩ |
    ⟨rfl, rfl⟩ | ⟨rfl, rfl⟩ | ⟨rfl, rfl⟩ | ⟨rfl, rfl⟩ | ⟨rfl, rfl⟩ | ⟨rfl, rfl⟩ <;> decide

theorem digitChar_inj {w w' : Nat} (h1 : w ≤ 4) (h2 : w' ≤ 4) (h : digitChar w = digitChar w') : w = w' := by
  have : ∀ a b : Fin 5, digitChar a.1 = digitChar b.1 → a = b := by decide
  have := this ⟨w, by omega⟩ ⟨w', by omega⟩ h
  exact Fin.mk.inj this

theorem segStr_cons (a : Seg) (r : List Seg) : segStr (a :: r) = a.str ++ segStr r := rfl

/-- a string of segments never STARTS with a code letter (a letter is always the second character of a pending code) -/
theorem segStr_head (ss : List Seg) (h : ∀ s ∈ ss, SegOK s) : ∀ c, (segStr ss).head? = some c → isCodeLetter c = false := by
  induction ss with
  | nil => intro c hc; simp [segStr] at hc
  | cons a r ih =>
    intro c hc
    rw [segStr_cons] at hc
    cases a with
    | todo w l =>
      simp only [Seg.str, List.cons_append, List.head?_cons, Option.some.injEq] at hc
      subst hc
      have hs : SegOK (.todo w l) := h _ (by simp)
      exact (codes_letter hs).2.1
    | done s =>
      cases s with
      | nil => exact ih (fun s hs => h s (by simp [hs])) c (by simpa [Seg.str] using hc)
      | cons x s' =>
        simp only [Seg.str, List.cons_append, List.head?_cons, Option.some.injEq] at hc
        subst hc
        exact h (.done (x :: s')) (by simp) x (by simp)

/-- offset of the first pending occurrence of the code `(w, l)` -/
def firstTodo (w : Nat) (l : Char) : List Seg → Option Nat
  | [] => none
  | .done s :: r => (firstTodo w l r).map (· + s.length)
  | .todo w' l' :: r => if w' = w ∧ l' = l then some 0 else (firstTodo w l r).map (· + 2)

theorem find2_done (a b : Char) (hb : isCodeLetter b = true) (s : Str) (R : Str)
    (hs : ∀ c ∈ s, isCodeLetter c = false) (hR : ∀ c, R.head? = some c → isCodeLetter c = false) :
    find2 a b (s ++ R) = (find2 a b R).map (· + s.length) := by
  induction s with
  | nil => simp
  | cons x s' ih =>
    have hhead : (s' ++ R).head? ≠ some b := by
      intro e
      cases s' with
      | nil => simp only [List.nil_append] at e; have := hR b e; rw [hb] at this; exact absurd this (by decide)
      | cons y s'' =>
        simp only [List.cons_append, List.head?_cons, Option.some.injEq] at e
        have := hs y (by simp); rw [e, hb] at this; exact absurd this (by decide)
    simp only [List.cons_append, find2, hhead, and_false, ↓reduceIte]
    rw [ih (fun c hc => hs c (by simp [hc]))]
    cases find2 a b R <;> simp [Nat.add_assoc]

/-- `find` on a string of segments finds the first pending occurrence of the code, nothing else -/
theorem find2_segs (w : Nat) (l : Char) (hc : (w, l) ∈ codes) (ss : List Seg) (h : ∀ s ∈ ss, SegOK s) :
    find2 (digitChar w) l (segStr ss) = firstTodo w l ss := by
  obtain ⟨hl, hd, _, hw4⟩ := codes_letter hc
  induction ss with
  | nil => rfl
  | cons a r ih =>
    have ih' := ih (fun s hs => h s (by simp [hs]))
    have hR := segStr_head r (fun s hs => h s (by simp [hs]))
    rw [segStr_cons]
    cases a with
    | done s =>
      simp only [Seg.str, firstTodo]
      rw [find2_done _ _ hl s _ (h (.done s) (by simp)) hR, ih']
    | todo w' l' =>
      obtain ⟨hl', hd', _, hw4'⟩ := codes_letter (h (.todo w' l') (by simp))
      simp only [Seg.str, firstTodo, List.cons_append, List.nil_append, find2, List.head?_cons, Option.some.injEq]
      by_cases hm : w' = w ∧ l' = l
      · obtain ⟨rfl, rfl⟩ := hm
        simp
      · have hm' : ¬ (digitChar w' = digitChar w ∧ l' = l) := fun ⟨e1, e2⟩ => hm ⟨digitChar_inj hw4' hw4 e1, e2⟩
        have h2 : ¬ (l' = digitChar w ∧ (segStr r).head? = some l) := by
          intro ⟨e, _⟩
          rw [e, hd] at hl'
          exact absurd hl' (by decide)
        simp only [hm', hm, h2, ↓reduceIte]
        rw [ih']
        cases firstTodo w l r <;> simp

/-- the first pending occurrence of the code replaced by finished text -/
def markFirst (w : Nat) (l : Char) (new : Str) : List Seg → List Seg
  | [] => []
  | .done s :: r => .done s :: markFirst w l new r
  | .todo w' l' :: r => if w' = w ∧ l' = l then .done new :: r else .todo w' l' :: markFirst w l new r

theorem splice2_segs (w : Nat) (l : Char) (new : Str) (ss : List Seg) (i : Nat) (h : firstTodo w l ss = some i) :
    splice2 (segStr ss) i new = segStr (markFirst w l new ss) := by
  induction ss generalizing i with
  | nil => simp [firstTodo] at h
  | cons a r ih =>
    cases a with
    | done s =>
      simp only [firstTodo, Option.map_eq_some_iff] at h
      obtain ⟨j, hj, rfl⟩ := h
      have := ih j hj
      simp only [markFirst, segStr_cons, Seg.str]
      rw [← this]
      unfold splice2
      have e1 : (s ++ segStr r).take (j + s.length) = s ++ (segStr r).take j := by
        rw [List.take_append, List.take_of_length_le (by omega)]
        congr 2
        omega
      have e2 : (s ++ segStr r).drop (j + s.length + 2) = (segStr r).drop (j + 2) := by
        rw [List.drop_append, List.drop_of_length_le (by omega), List.nil_append]
        congr 1
        omega
      rw [e1, e2]
      simp
    | todo w' l' =>
      simp only [firstTodo] at h
      by_cases hm : w' = w ∧ l' = l
      · simp only [hm, and_self, ↓reduceIte, Option.some.injEq] at h
        subst h
        simp [markFirst, hm, segStr_cons, Seg.str, splice2]
      · simp only [hm, ↓reduceIte, Option.map_eq_some_iff] at h
        obtain ⟨j, hj, rfl⟩ := h
        have := ih j hj
        simp only [markFirst, hm, ↓reduceIte, segStr_cons, Seg.str]
        rw [← this]
        simp [splice2]

/-- what one code does to a segment once its `while` loop is over -/
def stepSeg (w : Nat) (l : Char) (new : Str) : Seg → Seg
  | .done s => .done s
  | .todo w' l' => if w' = w ∧ l' = l then .done new else .todo w' l'

def countTodo (w : Nat) (l : Char) : List Seg → Nat
  | [] => 0
  | .done _ :: r => countTodo w l r
  | .todo w' l' :: r => (if w' = w ∧ l' = l then 1 else 0) + countTodo w l r

theorem firstTodo_none (w : Nat) (l : Char) (ss : List Seg) (h : firstTodo w l ss = none) : ss.map (stepSeg w l new) = ss := by
  induction ss with
  | nil => rfl
  | cons a r ih =>
    cases a with
    | done s =>
      simp only [firstTodo, Option.map_eq_none_iff] at h
      simp [stepSeg, ih h]
    | todo w' l' =>
      simp only [firstTodo] at h
      by_cases hm : w' = w ∧ l' = l
      · simp [hm] at h
      · simp only [hm, ↓reduceIte, Option.map_eq_none_iff] at h
        simp [stepSeg, hm, ih h]

theorem markFirst_props (w : Nat) (l : Char) (new : Str) (hnew : ∀ c ∈ new, isCodeLetter c = false) (ss : List Seg) (i : Nat)
    (h : firstTodo w l ss = some i) (hok : ∀ s ∈ ss, SegOK s) :
    (∀ s ∈ markFirst w l new ss, SegOK s) ∧ countTodo w l (markFirst w l new ss) + 1 = countTodo w l ss ∧
      (markFirst w l new ss).map (stepSeg w l new) = ss.map (stepSeg w l new) := by
  induction ss generalizing i with
  | nil => simp [firstTodo] at h
  | cons a r ih =>
    cases a with
    | done s =>
      simp only [firstTodo, Option.map_eq_some_iff] at h
      obtain ⟨j, hj, _⟩ := h
      obtain ⟨h1, h2, h3⟩ := ih j hj (fun s hs => hok s (by simp [hs]))
      refine ⟨?_, by simpa [markFirst, countTodo] using h2, by simp [markFirst, h3]⟩
      intro s' hs'
      simp only [markFirst, List.mem_cons] at hs'
      rcases hs' with rfl | hs'
      · exact hok _ (by simp)
      · exact h1 s' hs'
    | todo w' l' =>
      simp only [firstTodo] at h
      by_cases hm : w' = w ∧ l' = l
      · refine ⟨?_, by simp [markFirst, hm, countTodo]; omega, by simp [markFirst, hm, stepSeg]⟩
        intro s' hs'
        simp only [markFirst, hm, and_self, ↓reduceIte, List.mem_cons] at hs'
        rcases hs' with rfl | hs'
        · exact hnew
        · exact hok s' (by simp [hs'])
      · simp only [hm, ↓reduceIte, Option.map_eq_some_iff] at h
        obtain ⟨j, hj, _⟩ := h
        obtain ⟨h1, h2, h3⟩ := ih j hj (fun s hs => hok s (by simp [hs]))
        refine ⟨?_, by simp only [markFirst, hm, ↓reduceIte, countTodo]; omega, by simp [markFirst, hm, h3]⟩
        intro s' hs'
        simp only [markFirst, hm, ↓reduceIte, List.mem_cons] at hs'
        rcases hs' with rfl | hs'
        · exact hok _ (by simp)
        · exact h1 s' hs'

/-- the `while` loop of one code, with enough fuel, replaces every pending occurrence of that code and nothing else -/
theorem substCode_segs (w : Nat) (l : Char) (hc : (w, l) ∈ codes) (new : Str) (hnew : ∀ c ∈ new, isCodeLetter c = false)
    (fuel : Nat) (ss : List Seg) (hok : ∀ s ∈ ss, SegOK s) (hf : countTodo w l ss ≤ fuel) :
    substCode fuel (digitChar w) l new (segStr ss) = segStr (ss.map (stepSeg w l new)) := by
  induction fuel generalizing ss with
  | zero =>
    simp only [substCode]
    cases hft : firstTodo w l ss with
    | none => rw [firstTodo_none w l ss hft]
    | some i =>
      obtain ⟨_, h2, _⟩ := markFirst_props w l new hnew ss i hft hok
      omega
  | succ fuel ih =>
    simp only [substCode]
    rw [find2_segs w l hc ss hok]
    cases hft : firstTodo w l ss with
    | none => simp only; rw [firstTodo_none w l ss hft]
    | some i =>
      simp only
      obtain ⟨h1, h2, h3⟩ := markFirst_props w l new hnew ss i hft hok
      rw [splice2_segs w l new ss i hft, ih _ h1 (by omega), h3]

theorem countTodo_le (w : Nat) (l : Char) (ss : List Seg) : countTodo w l ss ≤ (segStr ss).length := by
  induction ss with
  | nil => simp [countTodo]
  | cons a r ih =>
    rw [segStr_cons, List.length_append]
    cases a with
    | done s => simp only [countTodo, Seg.str]; omega
    | todo w' l' => simp only [countTodo, Seg.str, List.length_cons, List.length_nil]; split <;> omega

theorem zpad_noletter (w v : Nat) : ∀ c ∈ zpad w v, isCodeLetter c = false := by
  intro c hc
  have : ∀ k n, ∀ c ∈ padDigits k n, isCodeLetter c = false := by
    intro k
    induction k with
    | zero => intro n c hc; simp [padDigits] at hc
    | succ k ih =>
      intro n c hc
      simp only [padDigits, List.mem_append, List.mem_singleton] at hc
      rcases hc with hc | rfl
      · exact ih _ c hc
      · have : ∀ d : Fin 10, isCodeLetter (digitChar d.1) = false := by decide
        exact this ⟨n % 10, Nat.mod_lt _ (by decide)⟩
  exact this _ _ c hc

theorem stepSeg_ok (w : Nat) (l : Char) (v : Nat) (s : Seg) (h : SegOK s) : SegOK (stepSeg w l (zpad w v) s) := by
  cases s with
  | done s => exact h
  | todo w' l' =>
    simp only [stepSeg]
    split
    · exact zpad_noletter w v
    · exact h

/-! ### tokens as segments -/

def tokSeg : Tok → Seg
  | .code w l => .todo w l
  | .lit c => .done [c]

theorem codeOf_digit {a b : Char} {w : Nat} {l : Char} (h : codeOf? a b = some (w, l)) : a = digitChar w ∧ b = l ∧ (w, l) ∈ codes := by
  unfold codeOf? at h
  cases hd : digitVal? a with
  | none => simp [hd] at h
  | some d =>
    simp only [hd] at h
    split at h
    · rename_i hmem
      simp only [Option.some.injEq, Prod.mk.injEq] at h
      obtain ⟨rfl, rfl⟩ := h
      refine ⟨?_, rfl, by simpa using hmem⟩
      unfold digitVal? at hd
      repeat' split at hd
      all_goals first | (simp only [Option.some.injEq] at hd; subst hd; subst_vars; rfl) | simp at hd
    · simp at h

/-- the format string is the string of the segments of its tokens; the codes among them are codes of `__codes` -/
theorem segStr_tokenize (fmt : Str) :
    segStr ((tokenize fmt).map tokSeg) = fmt ∧ ∀ w l, Tok.code w l ∈ tokenize fmt → (w, l) ∈ codes := by
  induction fmt using tokenize.induct with
  | case1 => exact ⟨rfl, by simp [tokenize]⟩
  | case2 a => exact ⟨rfl, by simp [tokenize]⟩
  | case3 a b r w l hco ih =>
    obtain ⟨ha, hb, hmem⟩ := codeOf_digit hco
    simp only [tokenize, hco, List.map_cons, tokSeg, segStr_cons, Seg.str, List.mem_cons, Tok.code.injEq]
    refine ⟨by rw [ih.1, ← ha, ← hb]; rfl, ?_⟩
    intro w' l' h
    rcases h with ⟨rfl, rfl⟩ | h
    · exact hmem
    · exact ih.2 w' l' h
  | case4 a b r hco ih =>
    simp only [tokenize, hco, List.map_cons, tokSeg, segStr_cons, Seg.str, List.mem_cons, reduceCtorEq, false_or]
    exact ⟨by rw [ih.1]; rfl, ih.2⟩

/-- the format's literal characters are not code letters -/
def LitsOK (fmt : Str) : Prop := ∀ c, Tok.lit c ∈ tokenize fmt → isCodeLetter c = false

theorem tokSegs_ok (fmt : Str) (h : LitsOK fmt) : ∀ s ∈ (tokenize fmt).map tokSeg, SegOK s := by
  intro s hs
  obtain ⟨tk, htk, rfl⟩ := List.mem_map.1 hs
  cases tk with
  | code w l => exact (segStr_tokenize fmt).2 w l htk
  | lit c =>
    intro x hx
    simp only [List.mem_singleton] at hx
    subst hx
    exact h _ htk

/-- the segments after the loops of the codes `cs` -/
def afterCodes (t : Stamp) (cs : List (Nat × Char)) (s : Seg) : Seg :=
  cs.foldl (fun sg c => stepSeg c.1 c.2 (zpad c.1 (fieldVal t c.1 c.2)) sg) s

theorem foldl_codes_segs (t : Stamp) (cs : List (Nat × Char)) (hcs : ∀ c ∈ cs, c ∈ codes) (ss : List Seg) (hok : ∀ s ∈ ss, SegOK s) :
    cs.foldl (fun out c => substCode out.length (digitChar c.1) c.2 (zpad c.1 (fieldVal t c.1 c.2)) out) (segStr ss)
      = segStr (ss.map (afterCodes t cs)) := by
  induction cs generalizing ss with
  | nil =>
    simp only [List.foldl_nil]
    rw [show afterCodes t [] = id from rfl, List.map_id]
  | cons c r ih =>
    simp only [List.foldl_cons]
    rw [substCode_segs c.1 c.2 (hcs c (by simp)) _ (zpad_noletter _ _) _ ss hok (countTodo_le _ _ _)]
    rw [ih (fun c' hc' => hcs c' (by simp [hc'])) _ (by
      intro s hs
      obtain ⟨s0, hs0, rfl⟩ := List.mem_map.1 hs
      exact stepSeg_ok _ _ _ s0 (hok s0 hs0)), List.map_map]
    rfl

theorem afterCodes_done (t : Stamp) (cs : List (Nat × Char)) (s : Str) : afterCodes t cs (.done s) = .done s := by
  induction cs with
  | nil => rfl
  | cons c r ih => simpa [afterCodes, stepSeg] using ih

theorem afterCodes_todo (t : Stamp) (cs : List (Nat × Char)) (w : Nat) (l : Char) :
    afterCodes t cs (.todo w l) = if (w, l) ∈ cs then .done (zpad w (fieldVal t w l)) else .todo w l := by
  induction cs with
  | nil => rfl
  | cons c r ih =>
    have hcons : afterCodes t (c :: r) (.todo w l)
        = afterCodes t r (stepSeg c.1 c.2 (zpad c.1 (fieldVal t c.1 c.2)) (.todo w l)) := rfl
    have hs : stepSeg c.1 c.2 (zpad c.1 (fieldVal t c.1 c.2)) (.todo w l)
        = if w = c.1 ∧ l = c.2 then .done (zpad c.1 (fieldVal t c.1 c.2)) else .todo w l := rfl
    rw [hcons, hs]
    by_cases hm : w = c.1 ∧ l = c.2
    · obtain ⟨rfl, rfl⟩ := hm
      simp only [and_self, ↓reduceIte, List.mem_cons, true_or]
      exact afterCodes_done t r _
    · simp only [hm, ↓reduceIte]
      have : ¬ ((w, l) = c) := fun e => hm (by rw [← e]; exact ⟨rfl, rfl⟩)
      rw [ih]
      simp [this]

theorem printTime_segs (t : Stamp) (toks : List Tok) (h : ∀ w l, Tok.code w l ∈ toks → (w, l) ∈ codes) :
    segStr ((toks.map tokSeg).map (afterCodes t codes)) = printTime toks t := by
  induction toks with
  | nil => rfl
  | cons tk r ih =>
    have ih' := ih (fun w l hm => h w l (by simp [hm]))
    cases tk with
    | code w l =>
      simp only [List.map_cons, tokSeg, segStr_cons, printTime]
      rw [afterCodes_todo, if_pos (h w l (by simp)), ih']
      rfl
    | lit c =>
      simp only [List.map_cons, tokSeg, segStr_cons, printTime]
      rw [afterCodes_done, ih']
      rfl

/-- **`__str__`, string level = token level**: for every format whose literal characters are not code letters (`D M Y h m s
z`; digits, punctuation, blanks and the other letters are fine), the find / replace loops of `ObsTime.__str__` on the format
string give the text the token-level model prints. -/
theorem strAlgo_eq (fmt : Str) (h : LitsOK fmt) (t : Stamp) : strAlgo fmt t = printTime (tokenize fmt) t := by
  unfold strAlgo
  conv => lhs; rw [← (segStr_tokenize fmt).1]
  rw [foldl_codes_segs t codes (fun _ hc => hc) _ (tokSegs_ok fmt h)]
  exact printTime_segs t _ (segStr_tokenize fmt).2

/-- `format.find(code)` is the position of the code's first token -/
theorem firstTodo_findCode (w : Nat) (l : Char) (toks : List Tok) (p : Nat) :
    (firstTodo w l (toks.map tokSeg)).map (· + p) = findCode w l toks p := by
  induction toks generalizing p with
  | nil => rfl
  | cons tk r ih =>
    cases tk with
    | code w' l' =>
      simp only [List.map_cons, tokSeg, firstTodo, findCode]
      by_cases hm : w' = w ∧ l' = l
      · obtain ⟨rfl, rfl⟩ := hm; simp
      · have hm' : ¬ (w = w' ∧ l = l') := fun ⟨a, b⟩ => hm ⟨a.symm, b.symm⟩
        simp only [hm, hm', ↓reduceIte, ← ih (p + 2)]
        cases firstTodo w l (r.map tokSeg) <;> simp; omega
    | lit c =>
      simp only [List.map_cons, tokSeg, firstTodo, findCode, List.length_singleton, ← ih (p + 1)]
      cases firstTodo w l (r.map tokSeg) <;> simp; omega

theorem filterMap_congr' {α β : Type} (f g : α → Option β) (l : List α) (h : ∀ x ∈ l, f x = g x) :
    l.filterMap f = l.filterMap g := by
  induction l with
  | nil => rfl
  | cons a r ih =>
    simp only [List.filterMap_cons, h a (by simp)]
    rw [ih (fun x hx => h x (by simp [hx]))]

/-- **`__precompileReadFmt`, string level = token level** (formats without `*`, literal characters not code letters) -/
theorem precompileStr_eq (fmt : Str) (h : LitsOK fmt) : precompileStr fmt = precompile (tokenize fmt) := by
  unfold precompileStr precompile
  congr 2
  apply filterMap_congr'
  intro c hc
  have hf := find2_segs c.1 c.2 hc _ (tokSegs_ok fmt h)
  rw [(segStr_tokenize fmt).1] at hf
  rw [hf, ← firstTodo_findCode c.1 c.2 (tokenize fmt) 0]
  cases firstTodo c.1 c.2 ((tokenize fmt).map tokSeg) <;> simp

/-- decidable form of `LitsOK` -/
def litsOKb (fmt : Str) : Bool := (tokenize fmt).all (fun tk => match tk with | .lit c => !isCodeLetter c | .code _ _ => true)

theorem litsOK_of_b (fmt : Str) (h : litsOKb fmt = true) : LitsOK fmt := by
  intro c hc
  unfold litsOKb at h
  have := List.all_eq_true.1 h _ hc
  simpa using this

end TV.TextIO
