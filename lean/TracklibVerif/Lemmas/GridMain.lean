import TracklibVerif.Lemmas.GridQuery
/-! The constructor as a whole (`build`), `__getCell` as an affine map, and the registration of every point of
every feature segment. -/
namespace TV.Grid
variable {α : Type} [Field α] [LinearOrder α] [IsStrictOrderedRing α]

/-- the point of parameter `s` of the segment `[A, B]` -/
def lerp (A B : α × α) (s : α) : α × α := (A.1 + s * (B.1 - A.1), A.2 + s * (B.2 - A.2))

omit [IsStrictOrderedRing α] in
theorem getCell_some_iff (ix : Index α) (p c : α × α) :
    getCell ix p = some c ↔ (ix.xmin ≤ p.1 ∧ p.1 ≤ ix.xmax) ∧ (ix.ymin ≤ p.2 ∧ p.2 ≤ ix.ymax) ∧
      c = ((p.1 - ix.xmin) / ix.dX, (p.2 - ix.ymin) / ix.dY) := by
  unfold getCell
  split_ifs with h1 h2
  · constructor
    · intro h; cases h
    · rintro ⟨⟨a, b⟩, _⟩
      rcases h1 with h1 | h1
      · exact absurd a (not_le.mpr h1)
      · exact absurd b (not_le.mpr h1)
  · constructor
    · intro h; cases h
    · rintro ⟨_, ⟨a, b⟩, _⟩
      rcases h2 with h2 | h2
      · exact absurd a (not_le.mpr h2)
      · exact absurd b (not_le.mpr h2)
  · push Not at h1 h2
    constructor
    · intro h
      simp only [Option.some.injEq] at h
      exact ⟨h1, h2, h.symm⟩
    · rintro ⟨_, _, rfl⟩; rfl

/-- `__getCell` maps the segment `[A, B]` onto the segment between the images of `A` and `B` -/
theorem getCell_lerp (ix : Index α) (A B pA pB : α × α) (s : α) (hs0 : 0 ≤ s) (hs1 : s ≤ 1)
    (hA : getCell ix A = some pA) (hB : getCell ix B = some pB) :
    getCell ix (lerp A B s) = some (lerp pA pB s) := by
  obtain ⟨a1, a2, rfl⟩ := (getCell_some_iff ix A pA).mp hA
  obtain ⟨b1, b2, rfl⟩ := (getCell_some_iff ix B pB).mp hB
  rw [getCell_some_iff]
  refine ⟨between A.1 B.1 ix.xmin ix.xmax s hs0 hs1 a1 b1, between A.2 B.2 ix.ymin ix.ymax s hs0 hs1 a2 b2, ?_⟩
  unfold lerp
  simp only [Prod.mk.injEq]
  constructor <;> ring

/-- the constructor: the index is well formed, every vertex is inside the extent, and for every consecutive pair
of vertices of feature `k` every cell returned by `__cellsCrossSegment` lists `k` -/
theorem build_spec {fl : α → Int} (feats : List (List (α × α))) (res : Option (α × α)) (margin : α) (ix : Index α)
    (hm : 0 ≤ margin) (hb : build fl feats res margin = .ok ix) :
    WF ix ∧ (∀ t ∈ feats, ∀ p ∈ t, getCell ix p ≠ none) ∧
    (∀ k t, feats[k]? = some t → ∀ A B, (A, B) ∈ Consec t → ∀ pA pB, getCell ix A = some pA → getCell ix B = some pB →
      ∀ cell ∈ cellsCross fl pA pB, Holds ix.grid cell.1 cell.2 k) ∧
    (IsFloor fl → (∀ r, res = some r → 0 < r.1 ∧ 0 < r.2) → 0 < ix.csize ∧ 0 < ix.lsize) ∧
    (∀ t ∈ feats, Consec t ≠ [] → NZ ix) := by
  unfold build at hb
  cases hbb : bboxOf feats.flatten with
  | none => simp [hbb] at hb
  | some bb =>
    simp only [hbb] at hb
    cases hmk : mkIndex fl bb res margin with
    | error e => simp [hmk] at hb
    | ok ix0 =>
      simp only [hmk] at hb
      have hbounds := bboxOf_bounds _ bb hbb
      have hin0 : ∀ t ∈ feats, ∀ p ∈ t, getCell ix0 p ≠ none := by
        intro t ht p hp
        exact getCell_of_bbox fl bb res margin ix0 hmk hm p (hbounds p (List.mem_flatten.mpr ⟨t, ht, hp⟩))
      obtain ⟨e, w, z, r⟩ := addFeatures_spec fl feats ix0 ix 0 (mkIndex_wf fl bb res margin ix0 hmk) hin0 hb
      refine ⟨w, ?_, ?_, ?_, fun t ht hne => (NZ_same e.1).mpr (z t ht hne)⟩
      · intro t ht p hp; rw [getCell_same e.1]; exact hin0 t ht p hp
      · intro k t hk A B hAB pA pB hA hB cell hcell
        have := r k t hk A B hAB pA pB (by rw [← getCell_same e.1]; exact hA) (by rw [← getCell_same e.1]; exact hB) cell hcell
        simpa using this
      · intro hf hres
        have hne : feats.flatten ≠ [] := by
          intro h0; rw [h0] at hbb; simp [bboxOf] at hbb
        obtain ⟨p0, hp0⟩ := List.exists_mem_of_ne_nil _ hne
        obtain ⟨b1, b2, b3, b4⟩ := hbounds p0 hp0
        have := mkIndex_pos hf bb res margin ix0 hmk hm (le_trans b1 b2) (le_trans b3 b4) hres
        obtain ⟨_, _, _, _, e5, e6, _, _⟩ := e.1
        rw [e5, e6]; exact this

/-- every point of every segment of feature `k` lies in a cell that lists `k` -/
theorem build_registers {fl : α → Int} (hf : IsFloor fl) (feats : List (List (α × α))) (res : Option (α × α))
    (margin : α) (ix : Index α) (hm : 0 ≤ margin) (hb : build fl feats res margin = .ok ix)
    (k : Nat) (t : List (α × α)) (hk : feats[k]? = some t) (A B : α × α) (hAB : (A, B) ∈ Consec t)
    (s : α) (hs0 : 0 ≤ s) (hs1 : s ≤ 1) :
    ∃ c, getCell ix (lerp A B s) = some c ∧ Holds ix.grid (fl c.1) (fl c.2) k := by
  obtain ⟨_, hin, hreg, _, _⟩ := build_spec feats res margin ix hm hb
  have ht : t ∈ feats := List.mem_of_getElem? hk
  have memAB : A ∈ t ∧ B ∈ t := by
    clear hk ht hin hreg
    induction t with
    | nil => simp [Consec] at hAB
    | cons a rest ih =>
      cases rest with
      | nil => simp [Consec] at hAB
      | cons b rest' =>
        simp only [Consec, List.mem_cons, Prod.mk.injEq] at hAB
        rcases hAB with ⟨rfl, rfl⟩ | hAB
        · simp
        · have := ih hAB
          exact ⟨List.mem_cons_of_mem _ this.1, List.mem_cons_of_mem _ this.2⟩
  obtain ⟨pA, hpA⟩ := Option.ne_none_iff_exists'.mp (hin t ht A memAB.1)
  obtain ⟨pB, hpB⟩ := Option.ne_none_iff_exists'.mp (hin t ht B memAB.2)
  refine ⟨lerp pA pB s, getCell_lerp ix A B pA pB s hs0 hs1 hpA hpB, ?_⟩
  exact hreg k t hk A B hAB pA pB hpA hpB _ (cellsCross_complete hf pA pB s hs0 hs1)

end TV.Grid

namespace TV.Grid
variable {α : Type} [Field α] [LinearOrder α] [IsStrictOrderedRing α]

/-- the cells tile the extent exactly: `csize · dX = xmax − xmin`, `lsize · dY = ymax − ymin` (and there is at
least one column and one row, or a negative number of them) -/
theorem build_extent {fl : α → Int} (feats : List (List (α × α))) (res : Option (α × α)) (margin : α) (ix : Index α)
    (hm : 0 ≤ margin) (hb : build fl feats res margin = .ok ix) :
    ix.dX * ((ix.csize : Int) : α) = ix.xmax - ix.xmin ∧ ix.dY * ((ix.lsize : Int) : α) = ix.ymax - ix.ymin ∧
    ix.csize ≠ 0 ∧ ix.lsize ≠ 0 := by
  unfold build at hb
  cases hbb : bboxOf feats.flatten with
  | none => simp [hbb] at hb
  | some bb =>
    simp only [hbb] at hb
    cases hmk : mkIndex fl bb res margin with
    | error e => simp [hmk] at hb
    | ok ix0 =>
      simp only [hmk] at hb
      have hbounds := bboxOf_bounds _ bb hbb
      have hin0 : ∀ t ∈ feats, ∀ p ∈ t, getCell ix0 p ≠ none := by
        intro t ht p hp
        exact getCell_of_bbox fl bb res margin ix0 hmk hm p (hbounds p (List.mem_flatten.mpr ⟨t, ht, hp⟩))
      obtain ⟨e, _, _⟩ := addFeatures_spec fl feats ix0 ix 0 (mkIndex_wf fl bb res margin ix0 hmk) hin0 hb
      obtain ⟨m1, m2, m3, m4, c1, c2, m7, m8, _⟩ := mkIndex_ok fl bb res margin ix0 hmk
      obtain ⟨e1, e2, e3, e4, e5, e6, e7, e8⟩ := e.1
      rw [e1, e2, e3, e4, e5, e6, e7, e8, m7, m8, m1, m2, m3, m4]
      have h1 : ((ix0.csize : Int) : α) ≠ 0 := by exact_mod_cast c1
      have h2 : ((ix0.lsize : Int) : α) ≠ 0 := by exact_mod_cast c2
      exact ⟨div_mul_cancel₀ _ h1, div_mul_cancel₀ _ h2, c1, c2⟩

omit [IsStrictOrderedRing α] in
theorem NZ_iff (ix : Index α) : NZ ix ↔ ix.dX ≠ 0 ∧ ix.dY ≠ 0 := by
  unfold NZ
  rw [isZero_false_iff, isZero_false_iff]

/-- a returned constructor call over a collection that has a segment (a feature of two vertices or more) went
through `__getCell`, so no cell side is `0` and the extent is not flat: `xmin < xmax` and `ymin < ymax` -/
theorem build_nonflat {fl : α → Int} (feats : List (List (α × α))) (res : Option (α × α)) (margin : α) (ix : Index α)
    (hm : 0 ≤ margin) (hb : build fl feats res margin = .ok ix) (t : List (α × α)) (ht : t ∈ feats)
    (hseg : Consec t ≠ []) : NZ ix ∧ ix.xmin < ix.xmax ∧ ix.ymin < ix.ymax := by
  obtain ⟨_, hin, _, _, hz⟩ := build_spec feats res margin ix hm hb
  obtain ⟨ex, ey, c1, c2⟩ := build_extent feats res margin ix hm hb
  have hnz := hz t ht hseg
  obtain ⟨zx, zy⟩ := (NZ_iff ix).mp hnz
  have hp : ∃ p, p ∈ t := by
    cases t with
    | nil => simp [Consec] at hseg
    | cons p _ => exact ⟨p, by simp⟩
  obtain ⟨p, hp⟩ := hp
  obtain ⟨c, hc⟩ := Option.ne_none_iff_exists'.mp (hin t ht p hp)
  obtain ⟨⟨a1, a2⟩, ⟨b1, b2⟩, _⟩ := (getCell_some_iff ix p c).mp hc
  have h1 : ((ix.csize : Int) : α) ≠ 0 := by exact_mod_cast c1
  have h2 : ((ix.lsize : Int) : α) ≠ 0 := by exact_mod_cast c2
  refine ⟨hnz, ?_, ?_⟩
  · have : ix.xmax - ix.xmin ≠ 0 := by rw [← ex]; exact mul_ne_zero zx h1
    exact lt_of_le_of_ne (le_trans a1 a2) (fun h => this (by rw [h]; ring))
  · have : ix.ymax - ix.ymin ≠ 0 := by rw [← ey]; exact mul_ne_zero zy h2
    exact lt_of_le_of_ne (le_trans b1 b2) (fun h => this (by rw [h]; ring))

/-- positivity of the grid dimensions (margin ≥ 0, positive or default cell size), and of a cell side whenever the
extent has a positive length on that axis; a flat axis (`xmin = xmax`) has cell side `0` -/
theorem build_pos {fl : α → Int} (hf : IsFloor fl) (feats : List (List (α × α))) (res : Option (α × α)) (margin : α)
    (ix : Index α) (hm : 0 ≤ margin) (hres : ∀ r, res = some r → 0 < r.1 ∧ 0 < r.2)
    (hb : build fl feats res margin = .ok ix) :
    0 < ix.csize ∧ 0 < ix.lsize ∧ (ix.xmin < ix.xmax → 0 < ix.dX) ∧ (ix.ymin < ix.ymax → 0 < ix.dY) ∧
    (ix.xmin = ix.xmax → ix.dX = 0) ∧ (ix.ymin = ix.ymax → ix.dY = 0) := by
  obtain ⟨_, _, _, hpos, _⟩ := build_spec feats res margin ix hm hb
  obtain ⟨hcs, hls⟩ := hpos hf hres
  obtain ⟨ex, ey, _, _⟩ := build_extent feats res margin ix hm hb
  have h1 : (0 : α) < ((ix.csize : Int) : α) := by exact_mod_cast hcs
  have h2 : (0 : α) < ((ix.lsize : Int) : α) := by exact_mod_cast hls
  refine ⟨hcs, hls, ?_, ?_, ?_, ?_⟩
  · intro h
    have : 0 < ix.dX * ((ix.csize : Int) : α) := by rw [ex]; linarith
    exact (pos_iff_pos_of_mul_pos this).mpr h1
  · intro h
    have : 0 < ix.dY * ((ix.lsize : Int) : α) := by rw [ey]; linarith
    exact (pos_iff_pos_of_mul_pos this).mpr h2
  · intro h
    have : ix.dX * ((ix.csize : Int) : α) = 0 := by rw [ex, h]; ring
    rcases mul_eq_zero.mp this with h' | h'
    · exact h'
    · exact absurd h' (ne_of_gt h1)
  · intro h
    have : ix.dY * ((ix.lsize : Int) : α) = 0 := by rw [ey, h]; ring
    rcases mul_eq_zero.mp this with h' | h'
    · exact h'
    · exact absurd h' (ne_of_gt h2)

/-- a point strictly below the upper border of the extent has a column (row) index inside the grid -/
theorem floor_index_range {fl : α → Int} (hf : IsFloor fl) (o hi dC x : α) (n : Int) (hdC : 0 < dC)
    (hext : dC * ((n : Int) : α) = hi - o) (h1 : o ≤ x) (h2 : x < hi) :
    0 ≤ fl ((x - o) / dC) ∧ fl ((x - o) / dC) < n := by
  constructor
  · have := hf.mono (div_nonneg (sub_nonneg.mpr h1) (le_of_lt hdC))
    rwa [hf.zero] at this
  · have h3 : (x - o) / dC < ((n : Int) : α) := by
      rw [div_lt_iff₀ hdC]; linarith [mul_comm dC ((n : Int) : α)]
    have h4 : ((fl ((x - o) / dC) : Int) : α) < ((n : Int) : α) := lt_of_le_of_lt (hf _).1 h3
    exact_mod_cast h4

end TV.Grid
