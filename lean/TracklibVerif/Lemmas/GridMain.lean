import TracklibVerif.Lemmas.GridQuery
/-! The constructor as a whole (`build`), `__getCell` as an affine map, and the registration of every point of
every feature segment. -/
namespace TV.Grid
variable {α : Type} [Field α] [LinearOrder α] [IsStrictOrderedRing α]

/-- the point of parameter `s` of the segment `[A, B]` -/
def lerp (A B : α × α) (s : α) : α × α := (A.1 + s * (B.1 - A.1), A.2 + s * (B.2 - A.2))

omit [IsStrictOrderedRing α] in
theorem getCell_some_iff (ix : Index α) (p c : α × α) :
    getCell ix p = some c ↔ (ix.xmin ≤ p.1 ∧ p.1 ≤ ix.xmax) ∧ (ix.ymin ≤ p.2 ∧ p.2 ≤ ix.ymax) ∧
      c = ((p.1 - ix.xmin) / ix.dX, (p.2 - ix.ymin) / ix.dY) := by
  unfold getCell
  split_ifs with h1 h2
  · constructor
    · intro h; cases h
    · rintro ⟨⟨a, b⟩, _⟩
      rcases h1 with h1 | h1
      · exact absurd a (not_le.mpr h1)
      · exact absurd b (not_le.mpr h1)
  · constructor
    · intro h; cases h
    · rintro ⟨_, ⟨a, b⟩, _⟩
      rcases h2 with h2 | h2
      · exact absurd a (not_le.mpr h2)
      · exact absurd b (not_le.mpr h2)
  · push Not at h1 h2
    constructor
    · intro h
      simp only [Option.some.injEq] at h
      exact ⟨h1, h2, h.symm⟩
    · rintro ⟨_, _, rfl⟩; rfl

/-- `__getCell` maps the segment `[A, B]` onto the segment between the images of `A` and `B` -/
theorem getCell_lerp (ix : Index α) (A B pA pB : α × α) (s : α) (hs0 : 0 ≤ s) (hs1 : s ≤ 1)
    (hA : getCell ix A = some pA) (hB : getCell ix B = some pB) :
    getCell ix (lerp A B s) = some (lerp pA pB s) := by
  obtain ⟨a1, a2, rfl⟩ := (getCell_some_iff ix A pA).mp hA
  obtain ⟨b1, b2, rfl⟩ := (getCell_some_iff ix B pB).mp hB
  rw [getCell_some_iff]
  refine ⟨between A.1 B.1 ix.xmin ix.xmax s hs0 hs1 a1 b1, between A.2 B.2 ix.ymin ix.ymax s hs0 hs1 a2 b2, ?_⟩
  unfold lerp
  simp only [Prod.mk.injEq]
  constructor <;> ring

/-- the fractional column (row) index of a point of the extent lies in `[0, csize]` (`[0, lsize]`) -/
theorem frac_index_range (o hi dC x : α) (n : Int) (hdC : 0 < dC) (hn : 1 ≤ n)
    (htile : o < hi → dC * ((n : Int) : α) = hi - o) (h1 : o ≤ x) (h2 : x ≤ hi) :
    0 ≤ (x - o) / dC ∧ (x - o) / dC ≤ ((n : Int) : α) := by
  refine ⟨div_nonneg (sub_nonneg.mpr h1) (le_of_lt hdC), ?_⟩
  rw [div_le_iff₀ hdC]
  rcases lt_or_eq_of_le (le_trans h1 h2) with hlt | heq
  · have := htile hlt
    linarith [mul_comm dC ((n : Int) : α)]
  · have hx : x - o = 0 := by
      have : x = o := le_antisymm (by rw [heq]; exact h2) h1
      rw [this]; ring
    have hn' : (0 : α) ≤ ((n : Int) : α) := by exact_mod_cast (by omega : 0 ≤ n)
    rw [hx]
    exact mul_nonneg hn' (le_of_lt hdC)

/-- the index returned by `mkIndex` (default or positive cell size) has bounded fractional indices: the `min` of
`__getCell` is the identity on it -/
theorem mkIndex_bounded {fl : α → Int} (hf : IsFloor fl) (bb : α × α × α × α) (res : Option (α × α)) (m : α) (ix : Index α)
    (hres : ∀ r, res = some r → 0 < r.1 ∧ 0 < r.2) (h : mkIndex fl bb res m = .ok ix) : Bounded ix := by
  obtain ⟨ix1, h1, hcs, hls, hdX, hdY, tX, tY, _, _⟩ := mkIndex_builds hf bb res m hres
  rw [h] at h1
  cases h1
  intro p c hp
  obtain ⟨a1, a2, rfl⟩ := (getCell_some_iff ix p c).mp hp
  exact ⟨(frac_index_range ix.xmin ix.xmax ix.dX p.1 ix.csize hdX hcs tX a1.1 a1.2).2,
    (frac_index_range ix.ymin ix.ymax ix.dY p.2 ix.lsize hdY hls tY a2.1 a2.2).2⟩

/-- the constructor: the index is well formed, every vertex is inside the extent, and for every consecutive pair
of vertices of feature `k` every cell returned by `__cellsCrossSegment` lists `k` -/
theorem build_spec {fl : α → Int} (hf : IsFloor fl) (feats : List (List (α × α))) (res : Option (α × α)) (margin : α)
    (ix : Index α) (hm : 0 ≤ margin) (hres : ∀ r, res = some r → 0 < r.1 ∧ 0 < r.2)
    (hb : build fl feats res margin = .ok ix) :
    WF ix ∧ (∀ t ∈ feats, ∀ p ∈ t, getCell ix p ≠ none) ∧
    (∀ k t, feats[k]? = some t → ∀ A B, (A, B) ∈ Consec t → ∀ pA pB, getCell ix A = some pA → getCell ix B = some pB →
      ∀ cell ∈ cellsCross fl ix.csize ix.lsize pA pB, Holds ix.grid cell.1 cell.2 k) ∧
    (∀ t ∈ feats, Consec t ≠ [] → NZ ix) := by
  unfold build at hb
  cases hbb : bboxOf feats.flatten with
  | none => simp [hbb] at hb
  | some bb =>
    simp only [hbb] at hb
    cases hmk : mkIndex fl bb res margin with
    | error e => simp [hmk] at hb
    | ok ix0 =>
      simp only [hmk] at hb
      have hbounds := bboxOf_bounds _ bb hbb
      have hin0 : ∀ t ∈ feats, ∀ p ∈ t, getCell ix0 p ≠ none := by
        intro t ht p hp
        exact getCell_of_bbox fl bb res margin ix0 hmk hm p (hbounds p (List.mem_flatten.mpr ⟨t, ht, hp⟩))
      obtain ⟨e, w, z, r⟩ := addFeatures_spec fl feats ix0 ix 0 (mkIndex_wf fl bb res margin ix0 hmk)
        (mkIndex_bounded hf bb res margin ix0 hres hmk) hin0 hb
      refine ⟨w, ?_, ?_, fun t ht hne => (NZ_same e.1).mpr (z t ht hne)⟩
      · intro t ht p hp; rw [getCell_same e.1]; exact hin0 t ht p hp
      · intro k t hk A B hAB pA pB hA hB cell hcell
        have := r k t hk A B hAB pA pB (by rw [← getCell_same e.1]; exact hA) (by rw [← getCell_same e.1]; exact hB) cell
          (by rw [← e.1.2.2.2.2.1, ← e.1.2.2.2.2.2.1]; exact hcell)
        simpa using this

end TV.Grid

namespace TV.Grid
variable {α : Type} [Field α] [LinearOrder α] [IsStrictOrderedRing α]

omit [IsStrictOrderedRing α] in
theorem NZ_iff (ix : Index α) : NZ ix ↔ ix.dX ≠ 0 ∧ ix.dY ≠ 0 := by
  unfold NZ
  rw [isZero_false_iff, isZero_false_iff]

/-- the grid of a built index (margin ≥ 0, positive or default cell size): at least one column and one row, positive
cell sides, the cells tile every axis of positive length exactly (`csize · dX = xmax − xmin`), and an axis of zero
length (all vertices on one vertical / horizontal line) has a single column / row -/
theorem build_grid {fl : α → Int} (hf : IsFloor fl) (feats : List (List (α × α))) (res : Option (α × α)) (margin : α)
    (ix : Index α) (hm : 0 ≤ margin) (hres : ∀ r, res = some r → 0 < r.1 ∧ 0 < r.2)
    (hb : build fl feats res margin = .ok ix) :
    1 ≤ ix.csize ∧ 1 ≤ ix.lsize ∧ 0 < ix.dX ∧ 0 < ix.dY ∧
    (ix.xmin < ix.xmax → ix.dX * ((ix.csize : Int) : α) = ix.xmax - ix.xmin) ∧
    (ix.ymin < ix.ymax → ix.dY * ((ix.lsize : Int) : α) = ix.ymax - ix.ymin) ∧
    (ix.xmin = ix.xmax → ix.csize = 1) ∧ (ix.ymin = ix.ymax → ix.lsize = 1) := by
  unfold build at hb
  cases hbb : bboxOf feats.flatten with
  | none => simp [hbb] at hb
  | some bb =>
    simp only [hbb] at hb
    cases hmk : mkIndex fl bb res margin with
    | error e => simp [hmk] at hb
    | ok ix0 =>
      simp only [hmk] at hb
      have hbounds := bboxOf_bounds _ bb hbb
      have hin0 : ∀ t ∈ feats, ∀ p ∈ t, getCell ix0 p ≠ none := by
        intro t ht p hp
        exact getCell_of_bbox fl bb res margin ix0 hmk hm p (hbounds p (List.mem_flatten.mpr ⟨t, ht, hp⟩))
      obtain ⟨e, _, _⟩ := addFeatures_spec fl feats ix0 ix 0 (mkIndex_wf fl bb res margin ix0 hmk)
        (mkIndex_bounded hf bb res margin ix0 hres hmk) hin0 hb
      obtain ⟨ix1, h1, facts⟩ := mkIndex_builds hf bb res margin hres
      rw [hmk] at h1
      cases h1
      obtain ⟨e1, e2, e3, e4, e5, e6, e7, e8⟩ := e.1
      rw [e1, e2, e3, e4, e5, e6, e7, e8]
      exact facts

/-- both cell sides of a built index are non-zero: `__getCell` never raises on it -/
theorem build_nz {fl : α → Int} (hf : IsFloor fl) (feats : List (List (α × α))) (res : Option (α × α)) (margin : α)
    (ix : Index α) (hm : 0 ≤ margin) (hres : ∀ r, res = some r → 0 < r.1 ∧ 0 < r.2)
    (hb : build fl feats res margin = .ok ix) : NZ ix := by
  obtain ⟨_, _, pX, pY, _⟩ := build_grid hf feats res margin ix hm hres hb
  exact (NZ_iff ix).mpr ⟨ne_of_gt pX, ne_of_gt pY⟩

/-- a point strictly below the upper border of the extent has a column (row) index inside the grid -/
theorem floor_index_range {fl : α → Int} (hf : IsFloor fl) (o hi dC x : α) (n : Int) (hdC : 0 < dC)
    (hext : dC * ((n : Int) : α) = hi - o) (h1 : o ≤ x) (h2 : x < hi) :
    0 ≤ fl ((x - o) / dC) ∧ fl ((x - o) / dC) < n := by
  constructor
  · have := hf.mono (div_nonneg (sub_nonneg.mpr h1) (le_of_lt hdC))
    rwa [hf.zero] at this
  · have h3 : (x - o) / dC < ((n : Int) : α) := by
      rw [div_lt_iff₀ hdC]; linarith [mul_comm dC ((n : Int) : α)]
    have h4 : ((fl ((x - o) / dC) : Int) : α) < ((n : Int) : α) := lt_of_le_of_lt (hf _).1 h3
    exact_mod_cast h4

/-- on a built index the fractional indices of a point of the extent lie in `[0, csize] × [0, lsize]` -/
theorem getCell_range {fl : α → Int} (hf : IsFloor fl) (feats : List (List (α × α))) (res : Option (α × α)) (margin : α)
    (ix : Index α) (hm : 0 ≤ margin) (hres : ∀ r, res = some r → 0 < r.1 ∧ 0 < r.2)
    (hb : build fl feats res margin = .ok ix) (p c : α × α) (hp : getCell ix p = some c) :
    (0 ≤ c.1 ∧ c.1 ≤ ((ix.csize : Int) : α)) ∧ (0 ≤ c.2 ∧ c.2 ≤ ((ix.lsize : Int) : α)) := by
  obtain ⟨hcs, hls, hdX, hdY, tX, tY, _, _⟩ := build_grid hf feats res margin ix hm hres hb
  obtain ⟨a1, a2, rfl⟩ := (getCell_some_iff ix p c).mp hp
  exact ⟨frac_index_range ix.xmin ix.xmax ix.dX p.1 ix.csize hdX hcs tX a1.1 a1.2,
    frac_index_range ix.ymin ix.ymax ix.dY p.2 ix.lsize hdY hls tY a2.1 a2.2⟩

/-- every point of every segment of feature `k` lies in a cell (`cellOf`: the last column / row closed on the upper
border) that lists `k` -/
theorem build_registers {fl : α → Int} (hf : IsFloor fl) (feats : List (List (α × α))) (res : Option (α × α))
    (margin : α) (ix : Index α) (hm : 0 ≤ margin) (hres : ∀ r, res = some r → 0 < r.1 ∧ 0 < r.2)
    (hb : build fl feats res margin = .ok ix)
    (k : Nat) (t : List (α × α)) (hk : feats[k]? = some t) (A B : α × α) (hAB : (A, B) ∈ Consec t)
    (s : α) (hs0 : 0 ≤ s) (hs1 : s ≤ 1) :
    ∃ c, getCell ix (lerp A B s) = some c ∧ Holds ix.grid (cellOf fl ix c).1 (cellOf fl ix c).2 k := by
  obtain ⟨_, hin, hreg, _⟩ := build_spec hf feats res margin ix hm hres hb
  have ht : t ∈ feats := List.mem_of_getElem? hk
  have memAB : A ∈ t ∧ B ∈ t := by
    clear hk ht hin hreg
    induction t with
    | nil => simp [Consec] at hAB
    | cons a rest ih =>
      cases rest with
      | nil => simp [Consec] at hAB
      | cons b rest' =>
        simp only [Consec, List.mem_cons, Prod.mk.injEq] at hAB
        rcases hAB with ⟨rfl, rfl⟩ | hAB
        · simp
        · have := ih hAB
          exact ⟨List.mem_cons_of_mem _ this.1, List.mem_cons_of_mem _ this.2⟩
  obtain ⟨pA, hpA⟩ := Option.ne_none_iff_exists'.mp (hin t ht A memAB.1)
  obtain ⟨pB, hpB⟩ := Option.ne_none_iff_exists'.mp (hin t ht B memAB.2)
  have hP := getCell_lerp ix A B pA pB s hs0 hs1 hpA hpB
  obtain ⟨r1, r2⟩ := getCell_range hf feats res margin ix hm hres hb _ _ hP
  refine ⟨lerp pA pB s, hP, ?_⟩
  exact hreg k t hk A B hAB pA pB hpA hpB _ (cellsCross_complete hf ix.csize ix.lsize pA pB s hs0 hs1 r1.2 r2.2)

end TV.Grid
