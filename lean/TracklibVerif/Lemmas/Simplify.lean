import TracklibVerif.Model.Simplify
/-! Lemmas about the simplification model that need **no** property of the scalar type: they hold for
every instantiation of the operations, the driver's `Float` included. -/
namespace TV.Simplify
set_option linter.unusedSectionVars false
variable {α : Type} [Add α] [Sub α] [Mul α] [Div α] [Neg α] [LT α] [DecidableLT α] [BEq α]
  [OfNat α 0] [OfNat α 1] [OfNat α 2]

/-! ### Douglas–Peucker -/

/-- last fix of a track of at least three fixes: the chord's second end -/
def chordEnd (q : Fix α) (rest : List (Fix α)) : Fix α := (q :: rest).getLast (List.cons_ne_nil _ _)

theorem dpFuel_succ (sqrt : α → α) (eps : α) (fuel : Nat) (a p q : Fix α) (rest : List (Fix α)) :
    dpFuel sqrt eps (fuel + 1) (a :: p :: q :: rest) =
      if (farthest sqrt a (chordEnd q rest) (a :: p :: q :: rest) 0 0 0).1 < eps then
        some [a, chordEnd q rest]
      else
        (dpFuel sqrt eps fuel ((a :: p :: q :: rest).take
            (farthest sqrt a (chordEnd q rest) (a :: p :: q :: rest) 0 0 0).2)).bind fun o1 =>
        (dpFuel sqrt eps fuel ((a :: p :: q :: rest).drop
            (farthest sqrt a (chordEnd q rest) (a :: p :: q :: rest) 0 0 0).2)).map fun o2 => o1 ++ o2 := by
  rw [dpFuel]
  unfold chordEnd
  split
  · rfl
  · split
    · simp_all
    · rename_i hx
      cases hA : dpFuel sqrt eps fuel (List.take (farthest sqrt a ((q :: rest).getLast (List.cons_ne_nil _ _)) (a :: p :: q :: rest) 0 0 0).snd (a :: p :: q :: rest)) with
      | none => rfl
      | some o1 =>
        cases hB : dpFuel sqrt eps fuel (List.drop (farthest sqrt a ((q :: rest).getLast (List.cons_ne_nil _ _)) (a :: p :: q :: rest) 0 0 0).snd (a :: p :: q :: rest)) with
        | none => rfl
        | some o2 => exact absurd hB (hx o1 o2 hA)

/-- the farthest search returns its initial pair untouched or an index of the scanned range -/
theorem farthest_cases (sqrt : α → α) (a b : Fix α) (rest : List (Fix α)) (i : Nat) (dmax : α) (imax : Nat) :
    farthest sqrt a b rest i dmax imax = (dmax, imax) ∨
      (i ≤ (farthest sqrt a b rest i dmax imax).2 ∧ (farthest sqrt a b rest i dmax imax).2 < i + rest.length) := by
  induction rest generalizing i dmax imax with
  | nil => left; rfl
  | cons p rest ih =>
    unfold farthest
    simp only
    split
    · right
      rcases ih (i + 1) (distFix sqrt a b p) i with h | h
      · rw [h]; simp
      · simp only [List.length_cons]; omega
    · rcases ih (i + 1) dmax imax with h | h
      · left; exact h
      · right; simp only [List.length_cons]; omega


theorem dpFuel_short (sqrt : α → α) (eps : α) (fuel : Nat) (L : List (Fix α)) (h : L.length ≤ 2) :
    dpFuel sqrt eps fuel L = some L := by
  match L, h with
  | [], _ => rw [dpFuel]
  | [_], _ => rw [dpFuel]
  | [_, _], _ => rw [dpFuel]
  | _ :: _ :: _ :: _, h => simp at h

theorem dpFuel_zero (sqrt : α → α) (eps : α) (a p q : Fix α) (rest : List (Fix α)) :
    dpFuel sqrt eps 0 (a :: p :: q :: rest) = none := by
  rw [dpFuel]

theorem three_of_len {β : Type} (L : List β) (h : ¬ L.length ≤ 2) : ∃ a p q rest, L = a :: p :: q :: rest := by
  match L, h with
  | [], h => simp at h
  | [_], h => simp at h
  | [_, _], h => simp at h
  | a :: p :: q :: rest, _ => exact ⟨a, p, q, rest, rfl⟩

theorem chordEnd_mem (q : Fix α) (rest : List (Fix α)) : chordEnd q rest ∈ q :: rest :=
  List.getLast_mem _

theorem chordEnd_getLast? (a p q : Fix α) (rest : List (Fix α)) :
    (a :: p :: q :: rest).getLast? = some (chordEnd q rest) := by
  unfold chordEnd
  rw [List.getLast?_cons_cons, List.getLast?_cons_cons, List.getLast?_eq_some_getLast]

/-- induction principle shared by the Douglas–Peucker lemmas: a predicate on (input, output) that holds in the
three kinds of leaves and is preserved by concatenating the results of a split holds for every result -/
theorem dpFuel_ind (sqrt : α → α) (eps : α) (Q : List (Fix α) → List (Fix α) → Prop)
    (hshort : ∀ L, L.length ≤ 2 → Q L L)
    (hchord : ∀ a p q rest,
      (farthest sqrt a (chordEnd q rest) (a :: p :: q :: rest) 0 0 0).1 < eps →
      Q (a :: p :: q :: rest) [a, chordEnd q rest])
    (hsplit : ∀ a p q rest o1 o2,
      ¬ (farthest sqrt a (chordEnd q rest) (a :: p :: q :: rest) 0 0 0).1 < eps →
      Q ((a :: p :: q :: rest).take (farthest sqrt a (chordEnd q rest) (a :: p :: q :: rest) 0 0 0).2) o1 →
      Q ((a :: p :: q :: rest).drop (farthest sqrt a (chordEnd q rest) (a :: p :: q :: rest) 0 0 0).2) o2 →
      Q (a :: p :: q :: rest) (o1 ++ o2))
    (fuel : Nat) : ∀ (L out : List (Fix α)), dpFuel sqrt eps fuel L = some out → Q L out := by
  induction fuel with
  | zero =>
    intro L out h
    by_cases hl : L.length ≤ 2
    · rw [dpFuel_short _ _ _ _ hl] at h; cases h; exact hshort L hl
    · obtain ⟨a, p, q, rest, rfl⟩ := three_of_len L hl
      rw [dpFuel_zero] at h; cases h
  | succ fuel ih =>
    intro L out h
    by_cases hl : L.length ≤ 2
    · rw [dpFuel_short _ _ _ _ hl] at h; cases h; exact hshort L hl
    · obtain ⟨a, p, q, rest, rfl⟩ := three_of_len L hl
      rw [dpFuel_succ] at h
      split at h
      · cases h; exact hchord a p q rest (by assumption)
      · rename_i hne
        cases hA : dpFuel sqrt eps fuel ((a :: p :: q :: rest).take
            (farthest sqrt a (chordEnd q rest) (a :: p :: q :: rest) 0 0 0).2) with
        | none => rw [hA] at h; cases h
        | some o1 =>
          cases hB : dpFuel sqrt eps fuel ((a :: p :: q :: rest).drop
              (farthest sqrt a (chordEnd q rest) (a :: p :: q :: rest) 0 0 0).2) with
          | none => rw [hA, hB] at h; cases h
          | some o2 =>
            rw [hA, hB] at h
            cases h
            exact hsplit a p q rest o1 o2 hne (ih _ _ hA) (ih _ _ hB)

/-- the output only drops fixes: it is a sublist of the input (same observations, same order) -/
theorem dpFuel_sublist (sqrt : α → α) (eps : α) (fuel : Nat) (L out : List (Fix α))
    (h : dpFuel sqrt eps fuel L = some out) : out.Sublist L := by
  refine dpFuel_ind sqrt eps (fun L out => out.Sublist L) ?_ ?_ ?_ fuel L out h
  · intro L _; exact List.Sublist.refl _
  · intro a p q rest _
    refine List.Sublist.cons_cons a ?_
    exact (List.singleton_sublist.mpr (chordEnd_mem q rest)).trans (List.sublist_cons_self p _)
  · intro a p q rest o1 o2 _ h1 h2
    have := List.Sublist.append h1 h2
    rwa [List.take_append_drop] at this

/-- the output begins with the first fix and ends with the last fix of the input -/
theorem dpFuel_ends (sqrt : α → α) (eps : α) (fuel : Nat) (L out : List (Fix α))
    (h : dpFuel sqrt eps fuel L = some out) : out.head? = L.head? ∧ out.getLast? = L.getLast? := by
  refine dpFuel_ind sqrt eps (fun L out => out.head? = L.head? ∧ out.getLast? = L.getLast?) ?_ ?_ ?_ fuel L out h
  · intro L _; exact ⟨rfl, rfl⟩
  · intro a p q rest _
    refine ⟨rfl, ?_⟩
    rw [chordEnd_getLast?]; rfl
  · intro a p q rest o1 o2 _ h1 h2
    constructor
    · rw [List.head?_append, h1.1, h2.1, ← List.head?_append, List.take_append_drop]
    · rw [List.getLast?_append, h1.2, h2.2, ← List.getLast?_append, List.take_append_drop]

/-- a track of at least two fixes is never simplified to fewer than two -/
theorem dpFuel_two_le (sqrt : α → α) (eps : α) (fuel : Nat) (L out : List (Fix α))
    (h : dpFuel sqrt eps fuel L = some out) : 2 ≤ L.length → 2 ≤ out.length := by
  refine dpFuel_ind sqrt eps (fun L out => (L = [] → out = []) ∧ (L ≠ [] → out ≠ []) ∧ (2 ≤ L.length → 2 ≤ out.length))
    ?_ ?_ ?_ fuel L out h |>.2.2
  · intro L _; exact ⟨id, id, id⟩
  · intro a p q rest _; simp
  · intro a p q rest o1 o2 _ h1 h2
    refine ⟨by simp, fun _ => ?_, fun _ => ?_⟩
    all_goals
      have hl : ((a :: p :: q :: rest).take (farthest sqrt a (chordEnd q rest) (a :: p :: q :: rest) 0 0 0).2).length +
          ((a :: p :: q :: rest).drop (farthest sqrt a (chordEnd q rest) (a :: p :: q :: rest) 0 0 0).2).length =
          (a :: p :: q :: rest).length := by
        rw [← List.length_append, List.take_append_drop]
      generalize (a :: p :: q :: rest).take (farthest sqrt a (chordEnd q rest) (a :: p :: q :: rest) 0 0 0).2 = A at *
      generalize (a :: p :: q :: rest).drop (farthest sqrt a (chordEnd q rest) (a :: p :: q :: rest) 0 0 0).2 = B at *
      simp only [List.length_cons] at hl
    · intro hc
      have hc1 : o1 = [] := (List.append_eq_nil_iff.mp hc).1
      have hc2 : o2 = [] := (List.append_eq_nil_iff.mp hc).2
      have hA : A = [] := by
        cases A with
        | nil => rfl
        | cons x xs => exact absurd hc1 (h1.2.1 (List.cons_ne_nil _ _))
      have hB : B = [] := by
        cases B with
        | nil => rfl
        | cons x xs => exact absurd hc2 (h2.2.1 (List.cons_ne_nil _ _))
      subst hA; subst hB; simp at hl
    · rw [List.length_append]
      by_cases hA2 : 2 ≤ A.length
      · have := h1.2.2 hA2; omega
      · by_cases hB2 : 2 ≤ B.length
        · have := h2.2.2 hB2; omega
        · have hA1 : A ≠ [] := by intro hx; subst hx; simp at hl; omega
          have hB1 : B ≠ [] := by intro hx; subst hx; simp at hl; omega
          have := List.length_pos_iff.mpr (h1.2.1 hA1)
          have := List.length_pos_iff.mpr (h2.2.1 hB1)
          omega


/-- the split index lies strictly inside the track as soon as the first fix is not (strictly) away from its
own chord and the farthest distance is not below a positive tolerance -/
theorem farthest_inside (sqrt : α → α) (eps : α) (heps : (0 : α) < eps) (a b : Fix α) (tl : List (Fix α))
    (hd0 : ¬ (distFix sqrt a b a > 0))
    (hne : ¬ (farthest sqrt a b (a :: tl) 0 0 0).1 < eps) :
    1 ≤ (farthest sqrt a b (a :: tl) 0 0 0).2 ∧ (farthest sqrt a b (a :: tl) 0 0 0).2 < (a :: tl).length := by
  have e : farthest sqrt a b (a :: tl) 0 0 0 = farthest sqrt a b tl 1 0 0 := by
    rw [farthest]; simp only [hd0, ↓reduceIte]
  rw [e] at hne ⊢
  rcases farthest_cases sqrt a b tl 1 0 0 with h | h
  · rw [h] at hne; exact absurd heps hne
  · simp only [List.length_cons]; omega

/-- termination, scalar-independent form: with a positive tolerance, and provided the distance of a fix to a
chord that starts at this very fix is never strictly positive, the recursion never exhausts `len(L)` levels -/
theorem dpFuel_total_gen (sqrt : α → α) (eps : α) (heps : (0 : α) < eps)
    (hd0 : ∀ a b : Fix α, ¬ (distFix sqrt a b a > 0)) (fuel : Nat) :
    ∀ L : List (Fix α), L.length ≤ fuel + 2 → ∃ out, dpFuel sqrt eps fuel L = some out := by
  induction fuel with
  | zero => intro L hl; exact ⟨L, dpFuel_short _ _ _ _ (by omega)⟩
  | succ fuel ih =>
    intro L hl
    by_cases hs : L.length ≤ 2
    · exact ⟨L, dpFuel_short _ _ _ _ hs⟩
    · obtain ⟨a, p, q, rest, rfl⟩ := three_of_len L hs
      rw [dpFuel_succ]
      split
      · exact ⟨_, rfl⟩
      · rename_i hne
        have hi := farthest_inside sqrt eps heps a (chordEnd q rest) (p :: q :: rest) (hd0 _ _) hne
        generalize (farthest sqrt a (chordEnd q rest) (a :: p :: q :: rest) 0 0 0).2 = i at hi
        obtain ⟨o1, h1⟩ := ih ((a :: p :: q :: rest).take i) (by rw [List.length_take]; omega)
        obtain ⟨o2, h2⟩ := ih ((a :: p :: q :: rest).drop i) (by rw [List.length_drop]; omega)
        rw [h1, h2]
        exact ⟨o1 ++ o2, rfl⟩


/-! ### every tie-break: `dpAllFuel` -/

theorem dpAllFuel_short (sqrt : α → α) (eps : α) (fuel : Nat) (L : List (Fix α)) (h : L.length ≤ 2) :
    dpAllFuel sqrt eps fuel L = [L] := by
  match L, h with
  | [], _ => rw [dpAllFuel]
  | [_], _ => rw [dpAllFuel]
  | [_, _], _ => rw [dpAllFuel]
  | _ :: _ :: _ :: _, h => simp at h

/-- induction principle for the runs with an arbitrary choice of the split fix -/
theorem dpAllFuel_ind (sqrt : α → α) (eps : α) (Q : List (Fix α) → List (Fix α) → Prop)
    (hshort : ∀ L, L.length ≤ 2 → Q L L)
    (hchord : ∀ a p q rest,
      (farthest sqrt a (chordEnd q rest) (a :: p :: q :: rest) 0 0 0).1 < eps →
      Q (a :: p :: q :: rest) [a, chordEnd q rest])
    (hsplit : ∀ (L : List (Fix α)) (i : Nat) o1 o2, Q (L.take i) o1 → Q (L.drop i) o2 → Q L (o1 ++ o2))
    (fuel : Nat) : ∀ (L out : List (Fix α)), out ∈ dpAllFuel sqrt eps fuel L → Q L out := by
  induction fuel with
  | zero =>
    intro L out h
    by_cases hl : L.length ≤ 2
    · rw [dpAllFuel_short _ _ _ _ hl] at h; simp at h; rw [h]; exact hshort L hl
    · obtain ⟨a, p, q, rest, rfl⟩ := three_of_len L hl
      rw [dpAllFuel] at h; simp at h
  | succ fuel ih =>
    intro L out h
    by_cases hl : L.length ≤ 2
    · rw [dpAllFuel_short _ _ _ _ hl] at h; simp at h; rw [h]; exact hshort L hl
    · obtain ⟨a, p, q, rest, rfl⟩ := three_of_len L hl
      rw [dpAllFuel] at h
      split at h
      · simp at h; subst h; exact hchord a p q rest (by assumption)
      · simp only [List.mem_flatMap, List.mem_map] at h
        obtain ⟨i, _, o1, h1, o2, h2, rfl⟩ := h
        exact hsplit _ i o1 o2 (ih _ _ h1) (ih _ _ h2)

theorem dpAllFuel_sublist (sqrt : α → α) (eps : α) (fuel : Nat) (L out : List (Fix α))
    (h : out ∈ dpAllFuel sqrt eps fuel L) : out.Sublist L := by
  refine dpAllFuel_ind sqrt eps (fun L out => out.Sublist L) ?_ ?_ ?_ fuel L out h
  · intro L _; exact List.Sublist.refl _
  · intro a p q rest _
    refine List.Sublist.cons_cons a ?_
    exact (List.singleton_sublist.mpr (chordEnd_mem q rest)).trans (List.sublist_cons_self p _)
  · intro L i o1 o2 h1 h2
    have := List.Sublist.append h1 h2
    rwa [List.take_append_drop] at this

theorem dpAllFuel_ends (sqrt : α → α) (eps : α) (fuel : Nat) (L out : List (Fix α))
    (h : out ∈ dpAllFuel sqrt eps fuel L) : out.head? = L.head? ∧ out.getLast? = L.getLast? := by
  refine dpAllFuel_ind sqrt eps (fun L out => out.head? = L.head? ∧ out.getLast? = L.getLast?) ?_ ?_ ?_ fuel L out h
  · intro L _; exact ⟨rfl, rfl⟩
  · intro a p q rest _
    refine ⟨rfl, ?_⟩
    rw [chordEnd_getLast?]; rfl
  · intro L i o1 o2 h1 h2
    constructor
    · rw [List.head?_append, h1.1, h2.1, ← List.head?_append, List.take_append_drop]
    · rw [List.getLast?_append, h1.2, h2.2, ← List.getLast?_append, List.take_append_drop]

theorem dpAllFuel_two_le (sqrt : α → α) (eps : α) (fuel : Nat) (L out : List (Fix α))
    (h : out ∈ dpAllFuel sqrt eps fuel L) : 2 ≤ L.length → 2 ≤ out.length := by
  refine dpAllFuel_ind sqrt eps (fun L out => (L ≠ [] → out ≠ []) ∧ (2 ≤ L.length → 2 ≤ out.length))
    ?_ ?_ ?_ fuel L out h |>.2
  · intro L _; exact ⟨id, id⟩
  · intro a p q rest _; simp
  · intro L i o1 o2 h1 h2
    have hl : (L.take i).length + (L.drop i).length = L.length := by
      rw [← List.length_append, List.take_append_drop]
    generalize L.take i = A at *
    generalize L.drop i = B at *
    constructor
    · intro hL hc
      have hc1 : o1 = [] := (List.append_eq_nil_iff.mp hc).1
      have hc2 : o2 = [] := (List.append_eq_nil_iff.mp hc).2
      have hA : A = [] := by
        cases A with
        | nil => rfl
        | cons x xs => exact absurd hc1 (h1.1 (List.cons_ne_nil _ _))
      have hB : B = [] := by
        cases B with
        | nil => rfl
        | cons x xs => exact absurd hc2 (h2.1 (List.cons_ne_nil _ _))
      subst hA; subst hB
      simp at hl
      exact hL (List.eq_nil_of_length_eq_zero hl.symm)
    · intro h2L
      rw [List.length_append]
      by_cases hA2 : 2 ≤ A.length
      · have := h1.2 hA2; omega
      · by_cases hB2 : 2 ≤ B.length
        · have := h2.2 hB2; omega
        · by_cases hA0 : A = []
          · subst hA0; simp at hl; omega
          · by_cases hB0 : B = []
            · subst hB0; simp at hl; omega
            · have := List.length_pos_iff.mpr (h1.1 hA0)
              have := List.length_pos_iff.mpr (h2.1 hB0)
              omega

/-- the farthest search returns its initial pair or (distance, index) of one scanned fix -/
theorem farthest_witness (sqrt : α → α) (a b : Fix α) (rest : List (Fix α)) (i : Nat) (dmax : α) (imax : Nat) :
    farthest sqrt a b rest i dmax imax = (dmax, imax) ∨
      ∃ j, ∃ h : j < rest.length, (farthest sqrt a b rest i dmax imax).2 = i + j ∧
        (farthest sqrt a b rest i dmax imax).1 = distFix sqrt a b rest[j] := by
  induction rest generalizing i dmax imax with
  | nil => left; rfl
  | cons p rest ih =>
    unfold farthest
    simp only
    split
    · right
      rcases ih (i + 1) (distFix sqrt a b p) i with h | ⟨j, hj, h1, h2⟩
      · rw [h]; exact ⟨0, by simp, rfl, rfl⟩
      · exact ⟨j + 1, by simp; omega, by omega, by simpa using h2⟩
    · rcases ih (i + 1) dmax imax with h | ⟨j, hj, h1, h2⟩
      · left; exact h
      · right; exact ⟨j + 1, by simp; omega, by omega, by simpa using h2⟩

theorem mem_tiesAt (sqrt : α → α) (a b : Fix α) (d : α) (rest : List (Fix α)) (i j : Nat) (hj : j < rest.length)
    (he : (distFix sqrt a b rest[j] == d) = true) : i + j ∈ tiesAt sqrt a b d rest i := by
  induction rest generalizing i j with
  | nil => simp at hj
  | cons p rest ih =>
    rw [tiesAt]
    cases j with
    | zero =>
      simp only [List.getElem_cons_zero] at he
      simp [he]
    | succ j =>
      have := ih (i + 1) j (by simpa using hj) (by simpa using he)
      have e : i + (j + 1) = i + 1 + j := by omega
      rw [e]
      split
      · exact List.mem_cons_of_mem _ this
      · exact this

/-- the code's own run is one of the runs enumerated by `dpAllFuel` (reflexive `==`, positive tolerance,
first fix at distance 0 from its chord) -/
theorem dpFuel_mem_all [ReflBEq α] (sqrt : α → α) (eps : α) (heps : (0 : α) < eps)
    (hd0 : ∀ a b : Fix α, ¬ (distFix sqrt a b a > 0)) (fuel : Nat) :
    ∀ (L out : List (Fix α)), dpFuel sqrt eps fuel L = some out → out ∈ dpAllFuel sqrt eps fuel L := by
  induction fuel with
  | zero =>
    intro L out h
    by_cases hl : L.length ≤ 2
    · rw [dpFuel_short _ _ _ _ hl] at h; cases h; rw [dpAllFuel_short _ _ _ _ hl]; simp
    · obtain ⟨a, p, q, rest, rfl⟩ := three_of_len L hl
      rw [dpFuel_zero] at h; cases h
  | succ fuel ih =>
    intro L out h
    by_cases hl : L.length ≤ 2
    · rw [dpFuel_short _ _ _ _ hl] at h; cases h; rw [dpAllFuel_short _ _ _ _ hl]; simp
    · obtain ⟨a, p, q, rest, rfl⟩ := three_of_len L hl
      rw [dpFuel_succ] at h
      rw [dpAllFuel]
      change out ∈ (if (farthest sqrt a (chordEnd q rest) (a :: p :: q :: rest) 0 0 0).1 < eps then _ else _)
      split at h
      · rename_i hlt; cases h; rw [if_pos hlt]; simp [chordEnd]
      · rename_i hne
        rw [if_neg hne]
        have hin := farthest_inside sqrt eps heps a (chordEnd q rest) (p :: q :: rest) (hd0 _ _) hne
        cases hA : dpFuel sqrt eps fuel ((a :: p :: q :: rest).take
            (farthest sqrt a (chordEnd q rest) (a :: p :: q :: rest) 0 0 0).2) with
        | none => rw [hA] at h; cases h
        | some o1 =>
          cases hB : dpFuel sqrt eps fuel ((a :: p :: q :: rest).drop
              (farthest sqrt a (chordEnd q rest) (a :: p :: q :: rest) 0 0 0).2) with
          | none => rw [hA, hB] at h; cases h
          | some o2 =>
            rw [hA, hB] at h
            cases h
            simp only [List.mem_flatMap, List.mem_map, List.mem_filter, decide_eq_true_eq]
            refine ⟨(farthest sqrt a (chordEnd q rest) (a :: p :: q :: rest) 0 0 0).2, ⟨?_, hin.1⟩,
              o1, ih _ _ hA, o2, ih _ _ hB, rfl⟩
            rcases farthest_witness sqrt a (chordEnd q rest) (a :: p :: q :: rest) 0 0 0 with e | ⟨j, hj, e1, e2⟩
            · rw [e] at hin; simp at hin
            · rw [e1]
              have hm := mem_tiesAt sqrt a (chordEnd q rest)
                (distFix sqrt a (chordEnd q rest) (a :: p :: q :: rest)[j]) (a :: p :: q :: rest) 0 j hj (by simp)
              rw [← e2] at hm
              exact hm

/-! ### Visvalingam -/

/-- the strict scan — ARGMIN's loop **once an index has been recorded** (`val < minimum` only; before b728412 it was the whole
operator, started from index 0). Not code of tracklib: a proof device; `argminLoop_some` / `argmin_eq_strict` tie the model to it. -/
def argminLoopS : List (Option α) → Nat → α → Nat → Nat
  | [], _, _, idmin => idmin
  | none :: rest, i, minimum, idmin => argminLoopS rest (i + 1) minimum idmin
  | some v :: rest, i, minimum, idmin =>
    if v < minimum then argminLoopS rest (i + 1) v i else argminLoopS rest (i + 1) minimum idmin

/-- once an index is recorded the clause `idmin is None and val == minimum` is dead: the scan is the strict one -/
theorem argminLoop_some (col : List (Option α)) (i : Nat) (m : α) (k : Nat) :
    argminLoop col i m (some k) = some (argminLoopS col i m k) := by
  induction col generalizing i m k with
  | nil => rfl
  | cons c rest ih =>
    cases c with
    | none => rw [argminLoop, argminLoopS]; exact ih _ _ _
    | some w =>
      rw [argminLoop, argminLoopS]
      by_cases hw : w < m
      · simp only [hw, true_or, ↓reduceIte]; exact ih _ _ _
      · simp only [hw, false_or, reduceCtorEq, false_and, ↓reduceIte]; exact ih _ _ _

/-- on a column all of whose numbers are below the start value (T6's hypothesis) ARGMIN is the strict scan from index 0 -/
theorem argminLoop_none_strict (col : List (Option α)) (i : Nat) (m : α) (k : Nat)
    (h : ∀ (j : Nat) (v : α), col[j]? = some (some v) → v < m) :
    (argminLoop col i m none).getD k = argminLoopS col i m k := by
  induction col generalizing i with
  | nil => rfl
  | cons c rest ih =>
    cases c with
    | none =>
      rw [argminLoop, argminLoopS]
      exact ih (i + 1) (fun j v hj => h (j + 1) v (by simpa using hj))
    | some w =>
      rw [argminLoop, argminLoopS]
      have hw : w < m := h 0 w (by simp)
      simp only [hw, true_or, ↓reduceIte, argminLoop_some, Option.getD_some]

theorem argmin_eq_strict (big : α) (col : List (Option α))
    (h : ∀ (j : Nat) (v : α), col[j]? = some (some v) → v < big) : argmin big col = argminLoopS col 0 big 0 :=
  argminLoop_none_strict col 0 big 0 h

/-- ARGMIN's loop returns its initial index (or none) or the index of a non-NaN entry -/
theorem argminLoop_cases (col : List (Option α)) (i : Nat) (m : α) (id0 : Option Nat) :
    argminLoop col i m id0 = id0 ∨ ∃ (j : Nat) (v : α), argminLoop col i m id0 = some (i + j) ∧ col[j]? = some (some v) := by
  induction col generalizing i m id0 with
  | nil => left; rfl
  | cons c rest ih =>
    cases c with
    | none =>
      rw [argminLoop]
      rcases ih (i + 1) m id0 with h | ⟨j, v, h1, h2⟩
      · exact Or.inl h
      · exact Or.inr ⟨j + 1, v, by rw [h1]; congr 1; omega, by simpa using h2⟩
    | some w =>
      rw [argminLoop]
      split
      · rcases ih (i + 1) w (some i) with h | ⟨j, v, h1, h2⟩
        · exact Or.inr ⟨0, w, by rw [h]; rfl, by simp⟩
        · exact Or.inr ⟨j + 1, v, by rw [h1]; congr 1; omega, by simpa using h2⟩
      · rcases ih (i + 1) m id0 with h | ⟨j, v, h1, h2⟩
        · exact Or.inl h
        · exact Or.inr ⟨j + 1, v, by rw [h1]; congr 1; omega, by simpa using h2⟩

/-- ARGMIN returns 0 or the index of a non-NaN entry -/
theorem argmin_cases (big : α) (col : List (Option α)) :
    argmin big col = 0 ∨ ∃ (j : Nat) (v : α), argmin big col = j ∧ col[j]? = some (some v) := by
  unfold argmin
  rcases argminLoop_cases col 0 big none with e | ⟨j, v, e1, e2⟩
  · left; rw [e]; rfl
  · right; exact ⟨j, v, by rw [e1]; simp, e2⟩

/-- as soon as one entry is a number below the running minimum — or, while no index is recorded, equal to it —, ARGMIN's loop
designates a non-NaN entry -/
theorem argminLoop_hit (col : List (Option α)) (i : Nat) (m : α) (id0 : Option Nat)
    (h : ∃ (j : Nat) (v : α), col[j]? = some (some v) ∧ (v < m ∨ (id0 = none ∧ (v == m) = true))) :
    ∃ (j : Nat) (v : α), argminLoop col i m id0 = some (i + j) ∧ col[j]? = some (some v) := by
  induction col generalizing i m id0 with
  | nil => obtain ⟨j, v, h1, _⟩ := h; simp at h1
  | cons c rest ih =>
    obtain ⟨j, v, h1, h2⟩ := h
    cases c with
    | none =>
      rw [argminLoop]
      cases j with
      | zero => simp at h1
      | succ j =>
        obtain ⟨j', v', e1, e2⟩ := ih (i + 1) m id0 ⟨j, v, by simpa using h1, h2⟩
        exact ⟨j' + 1, v', by rw [e1]; congr 1; omega, by simpa using e2⟩
    | some w =>
      rw [argminLoop]
      split
      · rcases argminLoop_cases rest (i + 1) w (some i) with e | ⟨j', v', e1, e2⟩
        · exact ⟨0, w, by rw [e]; rfl, by simp⟩
        · exact ⟨j' + 1, v', by rw [e1]; congr 1; omega, by simpa using e2⟩
      · rename_i hw
        cases j with
        | zero =>
          simp at h1; subst h1; exact absurd h2 hw
        | succ j =>
          obtain ⟨j', v', e1, e2⟩ := ih (i + 1) m id0 ⟨j, v, by simpa using h1, h2⟩
          exact ⟨j' + 1, v', by rw [e1]; congr 1; omega, by simpa using e2⟩

/-- as soon as one entry is a number below ARGMIN's start value, or equal to it, ARGMIN designates a non-NaN entry -/
theorem argmin_hit (big : α) (col : List (Option α))
    (h : ∃ (j : Nat) (v : α), col[j]? = some (some v) ∧ (v < big ∨ (v == big) = true)) :
    ∃ (j : Nat) (v : α), argmin big col = j ∧ col[j]? = some (some v) := by
  obtain ⟨j0, v0, a, b⟩ := h
  obtain ⟨j, v, e1, e2⟩ := argminLoop_hit col 0 big none ⟨j0, v0, a, b.imp id (fun x => ⟨rfl, x⟩)⟩
  exact ⟨j, v, by unfold argmin; rw [e1]; simp, e2⟩

theorem argmin_lt (big : α) (col : List (Option α)) (h : 0 < col.length) : argmin big col < col.length := by
  rcases argmin_cases big col with e | ⟨j, v, e1, e2⟩
  · rw [e]; exact h
  · rw [e1]
    exact (List.getElem?_eq_some_iff.mp e2).1

theorem setAire_length (S : VState α) (i : Nat) : (setAire S i).length = S.length := by
  unfold setAire
  split
  · simp
  · rfl

theorem setAire_map_fst (S : VState α) (i : Nat) : (setAire S i).map (·.1) = S.map (·.1) := by
  unfold setAire
  split
  · rename_i p o hi
    rw [List.map_set]
    have := (List.getElem?_eq_some_iff.mp hi)
    obtain ⟨hlt, he⟩ := this
    apply List.ext_getElem?
    intro j
    rw [List.getElem?_set]
    split
    · rename_i hij
      subst hij
      simp [hlt, he]
    · rfl
  · rfl

theorem setAire_ne (S : VState α) (i j : Nat) (h : i ≠ j) : (setAire S i)[j]? = S[j]? := by
  unfold setAire
  split
  · rw [List.getElem?_set]; simp [h]
  · rfl

/-- a neighbour update in the interior writes the area of three fixes of the track -/
theorem setAire_at (S : VState α) (i : Nat) (h0 : 0 < i) (h1 : i + 1 < S.length) :
    ∃ p0 p1 p2, p0 ∈ S.map (·.1) ∧ p1 ∈ S.map (·.1) ∧ p2 ∈ S.map (·.1) ∧
      (setAire S i)[i]? = some (p1, some (areaFix p0 p1 p2)) := by
  have hi : i < S.length := by omega
  have hp : i - 1 < S.length := by omega
  unfold setAire
  rw [List.getElem?_eq_getElem hi]
  simp only
  refine ⟨(S[i - 1]).1, (S[i]).1, (S[i + 1]).1, ?_, ?_, ?_, ?_⟩
  · exact List.mem_map.mpr ⟨_, List.getElem_mem hp, rfl⟩
  · exact List.mem_map.mpr ⟨_, List.getElem_mem hi, rfl⟩
  · exact List.mem_map.mpr ⟨_, List.getElem_mem h1, rfl⟩
  · rw [List.getElem?_set]
    simp only [hi, ↓reduceIte]
    unfold aireVisval
    have e0 : ¬ i = 0 := by omega
    simp only [e0, ↓reduceIte, List.getElem?_map, List.getElem?_eq_getElem hp, List.getElem?_eq_getElem hi,
      List.getElem?_eq_getElem h1, Option.map_some]


/-- invariant of the Visvalingam loop: at least two fixes, NaN area at both ends, a number below ARGMIN's
sentinel everywhere in between, and only fixes of the input track `L` -/
structure VInv (big : α) (L : List (Fix α)) (S : VState α) : Prop where
  len : 2 ≤ S.length
  first : ∃ p, S[0]? = some (p, none)
  last : ∃ p, S[S.length - 1]? = some (p, none)
  mid : ∀ i, 0 < i → i + 1 < S.length → ∃ p v, S[i]? = some (p, some v) ∧ v < big
  mem : ∀ e ∈ S, e.1 ∈ L

theorem VInv.erase {big : α} {L : List (Fix α)} {S : VState α} (h : VInv big L S) (id : Nat)
    (h0 : 0 < id) (h1 : id + 1 < S.length) : VInv big L (S.eraseIdx id) := by
  have hlen : (S.eraseIdx id).length = S.length - 1 := List.length_eraseIdx_of_lt (by omega)
  refine ⟨by omega, ?_, ?_, ?_, ?_⟩
  · obtain ⟨p, hp⟩ := h.first
    exact ⟨p, by rw [List.getElem?_eraseIdx]; simp [h0, hp]⟩
  · obtain ⟨p, hp⟩ := h.last
    refine ⟨p, ?_⟩
    rw [List.getElem?_eraseIdx, hlen]
    have : ¬ (S.length - 1 - 1 < id) := by omega
    simp only [this, ↓reduceIte]
    have e : S.length - 1 - 1 + 1 = S.length - 1 := by omega
    rw [e]; exact hp
  · intro i hi0 hi1
    rw [hlen] at hi1
    rw [List.getElem?_eraseIdx]
    split
    · exact h.mid i hi0 (by omega)
    · exact h.mid (i + 1) (by omega) (by omega)
  · intro e he
    exact h.mem e (List.mem_of_mem_eraseIdx he)

theorem VInv.setAire {big : α} {L : List (Fix α)} {S : VState α} (h : VInv big L S)
    (hbig : ∀ a b c, a ∈ L → b ∈ L → c ∈ L → areaFix a b c < big) (i : Nat)
    (h0 : 0 < i) (h1 : i + 1 < S.length) : VInv big L (setAire S i) := by
  have hmemL : ∀ q ∈ S.map (·.1), q ∈ L := by
    intro q hq
    obtain ⟨e, he, rfl⟩ := List.mem_map.mp hq
    exact h.mem e he
  obtain ⟨p0, p1, p2, m0, m1, m2, hat⟩ := setAire_at S i h0 h1
  refine ⟨by rw [setAire_length]; exact h.len, ?_, ?_, ?_, ?_⟩
  · obtain ⟨p, hp⟩ := h.first
    exact ⟨p, by rw [setAire_ne S i 0 (by omega)]; exact hp⟩
  · obtain ⟨p, hp⟩ := h.last
    exact ⟨p, by rw [setAire_length, setAire_ne S i _ (by omega)]; exact hp⟩
  · intro j hj0 hj1
    rw [setAire_length] at hj1
    by_cases hij : i = j
    · subst hij
      exact ⟨p1, _, hat, hbig _ _ _ (hmemL _ m0) (hmemL _ m1) (hmemL _ m2)⟩
    · rw [setAire_ne S i j hij]; exact h.mid j hj0 hj1
  · intro e he
    have : e.1 ∈ (TV.Simplify.setAire S i).map (·.1) := List.mem_map.mpr ⟨e, he, rfl⟩
    rw [setAire_map_fst] at this
    exact hmemL _ this

theorem map_eraseIdx' {β γ : Type} (f : β → γ) (l : List β) (i : Nat) :
    (l.eraseIdx i).map f = (l.map f).eraseIdx i := by
  induction l generalizing i with
  | nil => rfl
  | cons a l ih =>
    cases i with
    | zero => rfl
    | succ i => simp [List.eraseIdx, ih]

theorem ite_none_some {β : Type} {c : Prop} [Decidable c] {x y : β}
    (h : (if c then none else some x) = some y) : x = y := by
  split at h
  · cases h
  · cases h; rfl

/-- one pass of the loop body removes exactly one *interior* fix and re-establishes the invariant -/
theorem vwStep_spec (big eps2 : α) (L : List (Fix α))
    (hbig : ∀ a b c, a ∈ L → b ∈ L → c ∈ L → areaFix a b c < big)
    (S S' : VState α) (h : VInv big L S) (hs : vwStep big eps2 S = some S') :
    VInv big L S' ∧ ∃ id, 0 < id ∧ id + 1 < S.length ∧ S'.map (·.1) = (S.map (·.1)).eraseIdx id ∧
      id = argmin big (S.map (·.2)) := by
  unfold vwStep at hs
  split at hs
  · rename_i hlen
    -- ARGMIN designates an interior fix
    obtain ⟨p1, v1, hp1, hv1⟩ := h.mid 1 (by omega) (by omega)
    obtain ⟨j, v, eid, hj⟩ := argmin_hit big (S.map (·.2)) ⟨1, v1, by simp [hp1], Or.inl hv1⟩
    rw [List.getElem?_map] at hj
    have hjlt : j < S.length := by
      cases hx : S[j]? with
      | none => rw [hx] at hj; simp at hj
      | some e => exact (List.getElem?_eq_some_iff.mp hx).1
    have hj0 : 0 < j := by
      cases j with
      | zero => obtain ⟨p, hp⟩ := h.first; rw [hp] at hj; simp at hj
      | succ j => omega
    have hj1 : j + 1 < S.length := by
      by_cases hc : j = S.length - 1
      · obtain ⟨p, hp⟩ := h.last; rw [← hc] at hp; rw [hp] at hj; simp at hj
      · omega
    simp only [eid] at hs
    have hs' := ite_none_some hs
    subst hs'
    · have hl1 : (S.eraseIdx j).length = S.length - 1 := List.length_eraseIdx_of_lt hjlt
      have i1 : VInv big L (S.eraseIdx j) := h.erase j hj0 hj1
      have i2 : VInv big L (if j > 1 then setAire (S.eraseIdx j) (j - 1) else S.eraseIdx j) := by
        split
        · exact i1.setAire hbig (j - 1) (by omega) (by omega)
        · exact i1
      have l2 : (if j > 1 then setAire (S.eraseIdx j) (j - 1) else S.eraseIdx j).length = S.length - 1 := by
        split
        · rw [setAire_length]; exact hl1
        · exact hl1
      have m2 : (if j > 1 then setAire (S.eraseIdx j) (j - 1) else S.eraseIdx j).map (·.1) = (S.map (·.1)).eraseIdx j := by
        split
        · rw [setAire_map_fst, map_eraseIdx']
        · rw [map_eraseIdx']
      generalize (if j > 1 then setAire (S.eraseIdx j) (j - 1) else S.eraseIdx j) = S2 at i2 l2 m2 ⊢
      refine ⟨?_, j, hj0, hj1, ?_, eid.symm⟩
      · split
        · exact i2.setAire hbig j hj0 (by omega)
        · exact i2
      · split
        · rw [setAire_map_fst]; exact m2
        · exact m2
  · cases hs


theorem head?_eraseIdx_pos {β : Type} (l : List β) (i : Nat) (h : 0 < i) : (l.eraseIdx i).head? = l.head? := by
  cases l with
  | nil => rfl
  | cons a l =>
    cases i with
    | zero => omega
    | succ i => rfl

theorem getLast?_eraseIdx_interior {β : Type} (l : List β) (i : Nat) (h : i + 1 < l.length) :
    (l.eraseIdx i).getLast? = l.getLast? := by
  rw [List.getLast?_eq_getElem?, List.getLast?_eq_getElem?, List.getElem?_eraseIdx,
    List.length_eraseIdx_of_lt (by omega)]
  have : ¬ (l.length - 1 - 1 < i) := by omega
  simp only [this, ↓reduceIte]
  congr 1
  omega

/-- the loop, for any number of passes: invariant kept, fixes only dropped, both end fixes kept -/
theorem vwLoop_spec (big eps2 : α) (L : List (Fix α))
    (hbig : ∀ a b c, a ∈ L → b ∈ L → c ∈ L → areaFix a b c < big) (fuel : Nat) :
    ∀ S : VState α, VInv big L S →
      VInv big L (vwLoop big eps2 fuel S) ∧
      ((vwLoop big eps2 fuel S).map (·.1)).Sublist (S.map (·.1)) ∧
      ((vwLoop big eps2 fuel S).map (·.1)).head? = (S.map (·.1)).head? ∧
      ((vwLoop big eps2 fuel S).map (·.1)).getLast? = (S.map (·.1)).getLast? := by
  induction fuel with
  | zero => intro S h; exact ⟨h, List.Sublist.refl _, rfl, rfl⟩
  | succ fuel ih =>
    intro S h
    rw [vwLoop]
    cases hs : vwStep big eps2 S with
    | none => exact ⟨h, List.Sublist.refl _, rfl, rfl⟩
    | some S' =>
      obtain ⟨hi, id, h0, h1, hm, _⟩ := vwStep_spec big eps2 L hbig S S' h hs
      obtain ⟨r1, r2, r3, r4⟩ := ih S' hi
      refine ⟨r1, ?_, ?_, ?_⟩
      · exact r2.trans (by rw [hm]; exact List.eraseIdx_sublist _ _)
      · rw [r3, hm, head?_eraseIdx_pos _ _ h0]
      · rw [r4, hm, getLast?_eraseIdx_interior _ _ (by rw [List.length_map]; exact h1)]

/-- termination: `size − 2` passes are enough for the loop to stop by itself (`size ≤ 2` or `break`) -/
theorem vwLoop_stops (big eps2 : α) (L : List (Fix α))
    (hbig : ∀ a b c, a ∈ L → b ∈ L → c ∈ L → areaFix a b c < big) (fuel : Nat) :
    ∀ S : VState α, VInv big L S → S.length ≤ fuel + 2 →
      vwStep big eps2 (vwLoop big eps2 fuel S) = none := by
  induction fuel with
  | zero =>
    intro S _ hl
    rw [vwLoop]; unfold vwStep
    have : ¬ S.length > 2 := by omega
    simp only [this, ↓reduceIte]
  | succ fuel ih =>
    intro S h hl
    rw [vwLoop]
    cases hs : vwStep big eps2 S with
    | none => exact hs
    | some S' =>
      obtain ⟨hi, id, h0, h1, hm, _⟩ := vwStep_spec big eps2 L hbig S S' h hs
      have hlen : S'.length = S.length - 1 := by
        have := congrArg List.length hm
        rw [List.length_map, List.length_eraseIdx_of_lt (by rw [List.length_map]; omega), List.length_map] at this
        exact this
      exact ih S' hi (by omega)

theorem vwInit_getElem? (L : List (Fix α)) (i : Nat) :
    (vwInit L)[i]? = (L[i]?).map (fun p => (p, if i = 0 then none else aireVisval L i)) := by
  unfold vwInit
  rw [List.getElem?_map, List.getElem?_zipIdx]
  cases L[i]? with
  | none => rfl
  | some p => simp

theorem vwInit_map_fst (L : List (Fix α)) : (vwInit L).map (·.1) = L := by
  apply List.ext_getElem?
  intro i
  rw [List.getElem?_map, vwInit_getElem?]
  cases L[i]? with
  | none => rfl
  | some p => rfl

theorem vwInit_inv (big : α) (L : List (Fix α))
    (hbig : ∀ a b c, a ∈ L → b ∈ L → c ∈ L → areaFix a b c < big) (h2 : 2 ≤ L.length) :
    VInv big L (vwInit L) := by
  have hlen : (vwInit L).length = L.length := by
    have := congrArg List.length (vwInit_map_fst L)
    rwa [List.length_map] at this
  refine ⟨by omega, ?_, ?_, ?_, ?_⟩
  · refine ⟨L[0], ?_⟩
    rw [vwInit_getElem?, List.getElem?_eq_getElem (by omega)]; rfl
  · refine ⟨L[L.length - 1], ?_⟩
    rw [vwInit_getElem?, hlen, List.getElem?_eq_getElem (by omega)]
    have e0 : ¬ L.length - 1 = 0 := by omega
    have e1 : L[L.length - 1 + 1]? = none := by
      rw [List.getElem?_eq_none_iff]; omega
    simp only [Option.map_some, e0, ↓reduceIte, aireVisval, e1]
    split <;> simp_all
  · intro i h0 h1
    rw [hlen] at h1
    have hi : i < L.length := by omega
    have hp : i - 1 < L.length := by omega
    refine ⟨L[i], areaFix L[i - 1] L[i] L[i + 1], ?_, ?_⟩
    · rw [vwInit_getElem?, List.getElem?_eq_getElem hi]
      have e0 : ¬ i = 0 := by omega
      simp only [Option.map_some, e0, ↓reduceIte, aireVisval, List.getElem?_eq_getElem hp,
        List.getElem?_eq_getElem hi, List.getElem?_eq_getElem h1]
    · exact hbig _ _ _ (List.getElem_mem hp) (List.getElem_mem hi) (List.getElem_mem h1)
  · intro e he
    have : e.1 ∈ (vwInit L).map (·.1) := List.mem_map.mpr ⟨e, he, rfl⟩
    rwa [vwInit_map_fst] at this

end TV.Simplify
