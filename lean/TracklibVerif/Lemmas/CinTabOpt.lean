import TracklibVerif.Lemmas.CinTabProg
import TracklibVerif.Lemmas.Cinematics
/-! Feature values `Option α` (`none` = NaN): the table-level columns computed by the generic programs are the
columns of `Model/Cinematics.lean` (`dsCol`, `integrator`, `speedCol`) of the current coordinates. -/
namespace TV.CinTab
open TV.Features TV.Cinematics

variable {α : Type} [Add α] [Sub α] [Mul α] [Div α] [OfNat α 0] [BEq α] [LE α] [DecidableLE α]

/-- coordinate columns of finite positions -/
def xsOf (xy : List (α × α)) : List (Option α) := xy.map (fun p => some p.1)
def ysOf (xy : List (α × α)) : List (Option α) := xy.map (fun p => some p.2)
def tsOf (ts : List α) : List (Option α) := ts.map some

theorem integLoopG_opt (sqrt : α → α) (ofNat : Nat → α) (isNaN : α → Bool) :
    ∀ (acc : Option α) (l : List (Option α)), integLoopG (optG sqrt ofNat isNaN).toOps acc l = integLoop acc l
  | _, [] => rfl
  | acc, d :: rest => by
    show oadd acc d :: integLoopG _ (oadd acc d) rest = _
    rw [integLoopG_opt sqrt ofNat isNaN (oadd acc d) rest]
    rfl

theorem integG_opt (sqrt : α → α) (ofNat : Nat → α) (isNaN : α → Bool) (l : List (Option α)) :
    integG (optG sqrt ofNat isNaN).toOps l = integrator l := by
  cases l with
  | nil => rfl
  | cons d rest =>
    show some 0 :: integLoopG _ (some 0) rest = _
    rw [integLoopG_opt]
    rfl

theorem dsF_opt (sqrt : α → α) (ofNat : Nat → α) (isNaN : α → Bool) (xy : List (α × α)) (i : Nat) :
    dsF (optG sqrt ofNat isNaN) (xsOf xy) (ysOf xy) i = dsAt sqrt xy i := by
  unfold dsF dsAt
  by_cases h0 : i = 0
  · simp only [h0, if_true]; rfl
  · simp only [h0, if_false, xsOf, ysOf, List.getElem?_map]
    cases h1 : xy[i]? with
    | none => rfl
    | some p =>
      cases h2 : xy[i - 1]? with
      | none => rfl
      | some q => rfl

theorem dsCol_opt (sqrt : α → α) (ofNat : Nat → α) (isNaN : α → Bool) (xy : List (α × α)) :
    (List.range xy.length).map (dsF (optG sqrt ofNat isNaN) (xsOf xy) (ysOf xy)) = dsCol sqrt xy := by
  unfold dsCol
  apply List.map_congr_left
  intro i _
  exact dsF_opt sqrt ofNat isNaN xy i

theorem betweenF_opt (sqrt : α → α) (ofNat : Nat → α) (isNaN : α → Bool) (xy : List (α × α)) (ts : List α) (a b : Nat) :
    betweenF (optG sqrt ofNat isNaN) (xsOf xy) (ysOf xy) (tsOf ts) a b = speedBetween sqrt xy ts a b := by
  unfold betweenF speedBetween
  simp only [xsOf, ysOf, tsOf, List.getElem?_map]
  cases h1 : xy[a]? with
  | none => rfl
  | some pa =>
    cases h2 : xy[b]? with
    | none => rfl
    | some pb =>
      cases h3 : ts[a]? with
      | none => rfl
      | some ta =>
        cases h4 : ts[b]? with
        | none => rfl
        | some tb =>
          show (if ((ta - tb) == 0) = true then none else some (sqrt ((pb.1 - pa.1) * (pb.1 - pa.1) + (pb.2 - pa.2) * (pb.2 - pa.2)) / (ta - tb))) = quot _ _
          unfold quot dist2D
          rfl

theorem speedCol_opt (sqrt : α → α) (ofNat : Nat → α) (isNaN : α → Bool) (xy : List (α × α)) (ts : List α) :
    (List.range xy.length).map (speedF (optG sqrt ofNat isNaN) (xsOf xy) (ysOf xy) (tsOf ts) xy.length) = speedCol sqrt xy ts := by
  unfold speedCol
  apply List.map_congr_left
  intro i _
  unfold speedF speedAt
  simp only [betweenF_opt]

section field
variable {β : Type} [Field β] [LinearOrder β]

/-- in exact arithmetic the legs accumulated by `computeCurvAbsBetweenTwoPoints` (`P[i+1] - P[i]`) are those of `absc`
(`P[i] - P[i+1]`) -/
theorem curvF_absc (sqrt : β → β) (ofNat : Nat → β) (isNaN : β → Bool) (xy : List (β × β)) :
    ∀ k, k < xy.length → curvF (optG sqrt ofNat isNaN) (xsOf xy) (ysOf xy) k = some (absc sqrt xy k)
  | 0, _ => rfl
  | k + 1, h => by
    have hk : k < xy.length := by omega
    have h0 : xy[k]? = some xy[k] := List.getElem?_eq_getElem hk
    have h1 : xy[k + 1]? = some xy[k + 1] := List.getElem?_eq_getElem h
    unfold curvF
    rw [curvF_absc sqrt ofNat isNaN xy k hk]
    simp only [xsOf, ysOf, List.getElem?_map, h0, h1, Option.map_some, absc]
    show some (absc sqrt xy k + sqrt ((xy[k + 1].1 - xy[k].1) * (xy[k + 1].1 - xy[k].1) + (xy[k + 1].2 - xy[k].2) * (xy[k + 1].2 - xy[k].2)))
      = some (absc sqrt xy k + sqrt ((xy[k].1 - xy[k + 1].1) * (xy[k].1 - xy[k + 1].1) + (xy[k].2 - xy[k + 1].2) * (xy[k].2 - xy[k + 1].2)))
    congr 3
    ring


end field

end TV.CinTab
