import TracklibVerif.Lemmas.TextIORow2
/-! Whole CSV files: `writeToFile` then `readCsv` (core only). -/
namespace TV.TextIO
open TV.ObsTime

theorem mapM_ok {α β : Type} (g : α → Except String β) (h : α → β) (l : List α) (hg : ∀ x ∈ l, g x = .ok (h x)) :
    l.mapM g = .ok (l.map h) := by
  induction l with
  | nil => rfl
  | cons a r ih =>
    rw [List.mapM_cons, hg a (by simp), ih (fun x hx => hg x (by simp [hx]))]
    rfl

/-- what has to hold of every observation of the track -/
def RowOK (f : CsvFmt) (geo : Bool) (pf : List Tok) (r : Row) : Prop :=
  (f.idT ≠ -1 → Fits r.t) ∧
  decTrunc (r.x.toInt, (floatFmt geo).2) ≠ noData ∧ decTrunc (r.y.toInt, (floatFmt geo).2) ≠ noData

/-! ### the header block -/

theorem dropWhile_snoc (p : Char → Bool) (l : Str) (x : Char) (h : p x = false) :
    (l ++ [x]).dropWhile p = l.dropWhile p ++ [x] := by
  induction l with
  | nil => simp [List.dropWhile, h]
  | cons a r ih =>
    by_cases ha : p a = true
    · simp [List.dropWhile, ha, ih]
    · simp [List.dropWhile, ha]

/-- a line that starts with the comment character still does after `strip()` -/
theorem strip_hash (cs : Str) : ∃ cs', strip ('#' :: cs) = '#' :: cs' := by
  refine ⟨(cs.reverse.dropWhile isWs).reverse, ?_⟩
  unfold strip
  rw [lstrip_cons_of_not_ws cs (by decide)]
  unfold rstrip
  rw [List.reverse_cons, dropWhile_snoc isWs _ '#' (by decide)]
  simp

/-- what the header block needs of the coordinate system name and of the feature names: no end of line in them -/
def HdrOK (srid : Str) (names : List Str) : Prop := '\n' ∉ srid ∧ ∀ n ∈ names, '\n' ∉ n

theorem headerAF_mem (sep : Char) (names : List Str) (acc : Str) (c : Char)
    (hc : c ∈ names.foldl (fun acc n => acc ++ [sep] ++ n) acc) : c ∈ acc ∨ c = sep ∨ ∃ n ∈ names, c ∈ n := by
  induction names generalizing acc with
  | nil => exact Or.inl hc
  | cons n r ih =>
    rcases ih _ hc with h | h | ⟨m, hm, hcm⟩
    · simp only [List.mem_append, List.mem_singleton] at h
      rcases h with (h | h) | h
      · exact Or.inl h
      · exact Or.inr (Or.inl h)
      · exact Or.inr (Or.inr ⟨n, by simp, h⟩)
    · exact Or.inr (Or.inl h)
    · exact Or.inr (Or.inr ⟨m, by simp [hm], hcm⟩)

theorem hdrNames_nl (srid : Str) :
    '\n' ∉ strip (hdrNames srid).1 ∧ '\n' ∉ strip (hdrNames srid).2.1 ∧ '\n' ∉ strip (hdrNames srid).2.2
      ∧ '\n' ∉ strip "time".toList := by
  unfold hdrNames
  split
  · decide
  · split <;> decide

/-- the header block of `writeToFile` for a bijective layout: three lines, none contains an end of line, each
starts with the comment character (also after `strip()`) -/
theorem headerBlock_ok (f : CsvFmt) (hv : ValidIds f) (hnl : f.sep ≠ '\n') (naf : Nat) (srid : Str) (names : List Str)
    (hh : HdrOK srid names) :
    ∃ hdr, headerBlock f srid names (orderList f naf) = .ok hdr ∧ hdr.length = 3 ∧
      ∀ l ∈ hdr, '\n' ∉ l ∧ ∃ cs, strip l = '#' :: cs := by
  unfold headerBlock
  have hn := hdrNames_nl srid
  cases hx : hdrNames srid with
  | mk a bc =>
    cases bc with
    | mk b c =>
      rw [hx] at hn
      simp only at hn ⊢
      have hU : (if f.idU = -1 then none else some c).isSome = decide (f.idU ≠ -1) := by split <;> simp_all
      have hT : (if f.idT = -1 then none else some "time".toList).isSome = decide (f.idT ≠ -1) := by split <;> simp_all
      rw [printInOrder_layout f hv naf a b _ _ _ hU hT]
      simp only [bind, Except.bind, pure, Except.pure]
      refine ⟨_, rfl, rfl, ?_⟩
      intro l hl
      simp only [List.mem_cons, List.not_mem_nil, or_false] at hl
      have hs1 : '\n' ∉ "srid: ".toList := by decide
      have hs2 : '\n' ∉ "Geo".toList := by decide
      rcases hl with rfl | rfl | rfl
      · refine ⟨?_, strip_hash _⟩
        intro hc
        simp only [List.mem_cons, List.mem_append] at hc
        rcases hc with hc | hc | hc
        · exact absurd hc (by decide)
        · exact hs1 hc
        · split at hc
          · exact hs2 hc
          · exact hh.1 hc
      · exact ⟨by decide, strip_hash _⟩
      · refine ⟨?_, strip_hash _⟩
        intro hc
        simp only [List.mem_cons, List.mem_append] at hc
        rcases hc with hc | hc | hc
        · exact absurd hc (by decide)
        · rcases mem_joinChar hc with h | ⟨v, hv', hcv⟩
          · exact hnl h.symm
          · rcases mem_cols f hv _ _ _ _ (by simpa using hU) (by simpa using hT) v hv' with h | h | h | h
            · subst h; exact hn.1 hcv
            · subst h; exact hn.2.1 hcv
            · split at h
              · simp at h
              · simp only [Option.map_some, Option.some.injEq] at h
                subst h; exact hn.2.2.1 hcv
            · split at h
              · simp at h
              · simp only [Option.map_some, Option.some.injEq] at h
                subst h; exact hn.2.2.2 hcv
        · rcases headerAF_mem f.sep names [] _ hc with h | h | ⟨n, hn', hcn⟩
          · simp at h
          · exact hnl h.symm
          · exact hh.2 n hn' hcn

/-- the text `writeToFile` produces: the header block when `h > 0` (three comment lines), then the data lines -/
theorem writeToFile_eq (f : CsvFmt) (geo : Bool) (pf : List Tok) (h naf : Nat) (rows : List (Row × List AFVal))
    (srid : Str) (names : List Str)
    (hv : ValidIds f) (hsep : numChar f.sep = false) (hnl : f.sep ≠ '\n') (htime : f.idT ≠ -1 → TimeOK pf f.sep)
    (hrows : ∀ ra ∈ rows, RowOK f geo pf ra.1) (hafs : ∀ ra ∈ rows, ∀ v ∈ ra.2, AFOK f.sep v) (hh : HdrOK srid names) :
    ∃ hdr, hdr.length = (if h = 0 then 0 else 3) ∧ (∀ l ∈ hdr, '\n' ∉ l ∧ ∃ cs, strip l = '#' :: cs) ∧
    writeToFile f geo pf h naf rows srid names
      = .ok ((hdr ++ rows.map (fun ra => rowLine f geo pf ra.1 ra.2)).map (· ++ ['\n'])).flatten := by
  unfold writeToFile
  have := mapM_ok (fun ra : Row × List AFVal => writeRow f geo pf (orderList f naf) ra.1 ra.2)
    (fun ra => rowLine f geo pf ra.1 ra.2) rows (by
      intro ra hra
      have hr := hrows ra hra
      exact (row_roundtrip_line f geo pf naf ra.1 ra.2 hv hsep hnl (fun ht => ⟨htime ht, hr.1 ht⟩) hr.2 (hafs ra hra)).1)
  by_cases h0 : h = 0
  · subst h0
    refine ⟨[], rfl, by simp, ?_⟩
    simp only [this, Nat.lt_irrefl, ↓reduceIte, pure, Except.pure, bind, Except.bind, List.nil_append]
  · obtain ⟨hdr, hb, hlen, hl⟩ := headerBlock_ok f hv hnl naf srid names hh
    refine ⟨hdr, by simp [h0, hlen], hl, ?_⟩
    have hpos : h > 0 := Nat.pos_of_ne_zero h0
    simp only [this, hpos, ↓reduceIte, hb, pure, Except.pure, bind, Except.bind]

theorem readLines_lines (f : CsvFmt) (geo : Bool) (pf : List Tok) (naf : Nat) (rows : List (Row × List AFVal))
    (hv : ValidIds f) (hsep : numChar f.sep = false) (hnl : f.sep ≠ '\n') (htime : f.idT ≠ -1 → TimeOK pf f.sep)
    (hrows : ∀ ra ∈ rows, RowOK f geo pf ra.1) (hafs : ∀ ra ∈ rows, ∀ v ∈ ra.2, AFOK f.sep v) :
    readLines f pf '#' (rows.map (fun ra => rowLine f geo pf ra.1 ra.2)) = .ok (rows.map (fun ra => expRow f geo pf ra.1)) := by
  induction rows with
  | nil => rfl
  | cons ra r ih =>
    have hr := hrows ra (by simp)
    have h := row_roundtrip_line f geo pf naf ra.1 ra.2 hv hsep hnl (fun ht => ⟨htime ht, hr.1 ht⟩) hr.2 (hafs ra (by simp))
    obtain ⟨_, _, hstrip, ⟨c, cs, hc, hne⟩, hread⟩ := h
    simp only [List.map_cons, readLines, hstrip]
    rw [hc]
    simp only [hne, ↓reduceIte]
    rw [← hc, hread, ih (fun x hx => hrows x (by simp [hx])) (fun x hx => hafs x (by simp [hx]))]
    rfl

theorem readLines_skip_comments (f : CsvFmt) (rf : List Tok) (cm ls : List Str)
    (h : ∀ l ∈ cm, ∃ cs, strip l = '#' :: cs) : readLines f rf '#' (cm ++ ls) = readLines f rf '#' ls := by
  induction cm with
  | nil => rfl
  | cons l r ih =>
    obtain ⟨cs, hcs⟩ := h l (by simp)
    simp only [List.cons_append, readLines, hcs, ↓reduceIte]
    exact ih (fun x hx => h x (by simp [hx]))

theorem skipHeader_append (pre ls : List Str) : skipHeader pre.length (pre ++ ls) = .ok ls := by
  induction pre with
  | nil => rfl
  | cons a r ih => simpa [skipHeader] using ih

/-- reader side of the header option: a file that starts with `header` lines of any content, then any number of
comment lines, then the data lines is read as the observations -/
theorem csv_header_block_roundtrip (f : CsvFmt) (geo : Bool) (pf : List Tok) (naf : Nat) (rows : List (Row × List AFVal))
    (hv : ValidIds f) (hsep : numChar f.sep = false) (hnl : f.sep ≠ '\n') (htime : f.idT ≠ -1 → TimeOK pf f.sep)
    (hrows : ∀ ra ∈ rows, RowOK f geo pf ra.1) (hafs : ∀ ra ∈ rows, ∀ v ∈ ra.2, AFOK f.sep v)
    (pre : List Str) (cm : List Str) (hpre : ∀ l ∈ pre, '\n' ∉ l) (hcm : ∀ l ∈ cm, '\n' ∉ l ∧ ∃ cs, strip l = '#' :: cs) :
    readCsv f pf pre.length (((pre ++ (cm ++ rows.map (fun ra => rowLine f geo pf ra.1 ra.2))).map (· ++ ['\n'])).flatten)
      = .ok (rows.map (fun ra => expRow f geo pf ra.1)) := by
  unfold readCsv
  rw [fileLines_flatten]
  · rw [skipHeader_append]
    simp only [bind, Except.bind]
    rw [readLines_skip_comments f pf cm _ (fun l hl => (hcm l hl).2)]
    exact readLines_lines f geo pf naf rows hv hsep hnl htime hrows hafs
  · intro l hl
    simp only [List.mem_append, List.mem_map] at hl
    rcases hl with hl | hl | ⟨ra, hra, rfl⟩
    · exact hpre l hl
    · exact (hcm l hl).1
    · have hr := hrows ra hra
      exact (row_roundtrip_line f geo pf naf ra.1 ra.2 hv hsep hnl (fun ht => ⟨htime ht, hr.1 ht⟩) hr.2 (hafs ra hra)).2.1

/-- **T2 (file)**: the whole file, with or without the header block, read with any header count up to the number
of header lines written -/
theorem csv_file_roundtrip (f : CsvFmt) (geo : Bool) (pf : List Tok) (h naf : Nat) (rows : List (Row × List AFVal))
    (srid : Str) (names : List Str)
    (hv : ValidIds f) (hsep : numChar f.sep = false) (hnl : f.sep ≠ '\n') (htime : f.idT ≠ -1 → TimeOK pf f.sep)
    (hrows : ∀ ra ∈ rows, RowOK f geo pf ra.1) (hafs : ∀ ra ∈ rows, ∀ v ∈ ra.2, AFOK f.sep v) (hh : HdrOK srid names) :
    ∃ text, writeToFile f geo pf h naf rows srid names = .ok text ∧
      ∀ hr, hr ≤ (if h = 0 then 0 else 3) → readCsv f pf hr text = .ok (rows.map (fun ra => expRow f geo pf ra.1)) := by
  obtain ⟨hdr, hlen, hl, hw⟩ := writeToFile_eq f geo pf h naf rows srid names hv hsep hnl htime hrows hafs hh
  refine ⟨_, hw, ?_⟩
  intro hr hle
  rw [← hlen] at hle
  have hlt : (hdr.take hr).length = hr := by simp [List.length_take, Nat.min_eq_left hle]
  have := csv_header_block_roundtrip f geo pf naf rows hv hsep hnl htime hrows hafs (hdr.take hr) (hdr.drop hr)
    (fun l hm => (hl l (List.mem_of_mem_take hm)).1) (fun l hm => hl l (List.mem_of_mem_drop hm))
  rw [hlt, ← List.append_assoc, List.take_append_drop] at this
  exact this

end TV.TextIO
