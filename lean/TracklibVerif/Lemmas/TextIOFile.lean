import TracklibVerif.Lemmas.TextIORow2
/-! Whole CSV files: `writeToFile` then `readCsv` (core only). -/
namespace TV.TextIO
open TV.ObsTime

theorem mapM_ok {α β : Type} (g : α → Except String β) (h : α → β) (l : List α) (hg : ∀ x ∈ l, g x = .ok (h x)) :
    l.mapM g = .ok (l.map h) := by
  induction l with
  | nil => rfl
  | cons a r ih =>
    rw [List.mapM_cons, hg a (by simp), ih (fun x hx => hg x (by simp [hx]))]
    rfl

/-- what has to hold of every observation of the track -/
def RowOK (f : CsvFmt) (geo : Bool) (pf : List Tok) (r : Row) : Prop :=
  (f.idT ≠ -1 → Fits r.t) ∧
  decTrunc (r.x.toInt, (floatFmt geo).2) ≠ noData ∧ decTrunc (r.y.toInt, (floatFmt geo).2) ≠ noData

theorem writeToFile_eq (f : CsvFmt) (geo : Bool) (pf : List Tok) (h naf : Nat) (rows : List (Row × List Int))
    (hv : ValidIds f) (hsep : numChar f.sep = false) (hnl : f.sep ≠ '\n') (htime : f.idT ≠ -1 → TimeOK pf f.sep)
    (hrows : ∀ ra ∈ rows, RowOK f geo pf ra.1) :
    writeToFile f geo pf h naf rows
      = .ok ((rows.map (fun ra => rowLine f geo pf ra.1 ra.2)).map (· ++ ['\n'])).flatten := by
  unfold writeToFile
  have := mapM_ok (fun ra : Row × List Int => writeRow f geo pf (orderList f naf) ra.1 ra.2)
    (fun ra => rowLine f geo pf ra.1 ra.2) rows (by
      intro ra hra
      have hr := hrows ra hra
      exact (row_roundtrip_line f geo pf naf ra.1 ra.2 hv hsep hnl (fun ht => ⟨htime ht, hr.1 ht⟩) hr.2).1)
  simp only [this, hdrEff, Nat.lt_irrefl, ↓reduceIte, pure, Except.pure, bind, Except.bind, List.nil_append]

theorem readLines_lines (f : CsvFmt) (geo : Bool) (pf : List Tok) (naf : Nat) (rows : List (Row × List Int))
    (hv : ValidIds f) (hsep : numChar f.sep = false) (hnl : f.sep ≠ '\n') (htime : f.idT ≠ -1 → TimeOK pf f.sep)
    (hrows : ∀ ra ∈ rows, RowOK f geo pf ra.1) :
    readLines f pf '#' (rows.map (fun ra => rowLine f geo pf ra.1 ra.2)) = .ok (rows.map (fun ra => expRow f geo pf ra.1)) := by
  induction rows with
  | nil => rfl
  | cons ra r ih =>
    have hr := hrows ra (by simp)
    have h := row_roundtrip_line f geo pf naf ra.1 ra.2 hv hsep hnl (fun ht => ⟨htime ht, hr.1 ht⟩) hr.2
    obtain ⟨_, _, hstrip, ⟨c, cs, hc, hne⟩, hread⟩ := h
    simp only [List.map_cons, readLines, hstrip]
    rw [hc]
    simp only [hne, ↓reduceIte]
    rw [← hc, hread, ih (fun x hx => hrows x (by simp [hx]))]
    rfl

/-- **T2 (file)**: the whole file -/
theorem csv_file_roundtrip (f : CsvFmt) (geo : Bool) (pf : List Tok) (h naf : Nat) (rows : List (Row × List Int))
    (hv : ValidIds f) (hsep : numChar f.sep = false) (hnl : f.sep ≠ '\n') (htime : f.idT ≠ -1 → TimeOK pf f.sep)
    (hrows : ∀ ra ∈ rows, RowOK f geo pf ra.1) :
    ∃ text, writeToFile f geo pf h naf rows = .ok text ∧
      readCsv f pf 0 text = .ok (rows.map (fun ra => expRow f geo pf ra.1)) ∧
      (∀ ra rest, rows = ra :: rest → readCsv f pf 1 text = .ok (rest.map (fun ra => expRow f geo pf ra.1))) := by
  refine ⟨_, writeToFile_eq f geo pf h naf rows hv hsep hnl htime hrows, ?_, ?_⟩
  · unfold readCsv
    rw [fileLines_flatten]
    · simp only [skipHeader, pure, Except.pure, bind, Except.bind]
      exact readLines_lines f geo pf naf rows hv hsep hnl htime hrows
    · intro l hl
      simp only [List.mem_map] at hl
      obtain ⟨ra, hra, rfl⟩ := hl
      have hr := hrows ra hra
      exact (row_roundtrip_line f geo pf naf ra.1 ra.2 hv hsep hnl (fun ht => ⟨htime ht, hr.1 ht⟩) hr.2).2.1
  · intro ra rest he
    subst he
    unfold readCsv
    rw [fileLines_flatten]
    · simp only [List.map_cons, skipHeader, pure, Except.pure, bind, Except.bind]
      exact readLines_lines f geo pf naf rest hv hsep hnl htime (fun x hx => hrows x (by simp [hx]))
    · intro l hl
      simp only [List.mem_map] at hl
      obtain ⟨ra', hra, rfl⟩ := hl
      have hr := hrows ra' hra
      exact (row_roundtrip_line f geo pf naf ra'.1 ra'.2 hv hsep hnl (fun ht => ⟨htime ht, hr.1 ht⟩) hr.2).2.1

theorem readLines_skip_comments (f : CsvFmt) (rf : List Tok) (cm ls : List Str)
    (h : ∀ l ∈ cm, ∃ cs, strip l = '#' :: cs) : readLines f rf '#' (cm ++ ls) = readLines f rf '#' ls := by
  induction cm with
  | nil => rfl
  | cons l r ih =>
    obtain ⟨cs, hcs⟩ := h l (by simp)
    simp only [List.cons_append, readLines, hcs, ↓reduceIte]
    exact ih (fun x hx => h x (by simp [hx]))

/-- a file that starts with a header block — a first line, then comment lines — followed by the data lines is
read with `h=1` as the observations: what the repaired writer (`fmt.header = h`) produces -/
theorem csv_header_block_roundtrip (f : CsvFmt) (geo : Bool) (pf : List Tok) (naf : Nat) (rows : List (Row × List Int))
    (hv : ValidIds f) (hsep : numChar f.sep = false) (hnl : f.sep ≠ '\n') (htime : f.idT ≠ -1 → TimeOK pf f.sep)
    (hrows : ∀ ra ∈ rows, RowOK f geo pf ra.1)
    (first : Str) (cm : List Str) (hfirst : '\n' ∉ first) (hcm : ∀ l ∈ cm, '\n' ∉ l ∧ ∃ cs, strip l = '#' :: cs) :
    readCsv f pf 1 (((first :: cm ++ rows.map (fun ra => rowLine f geo pf ra.1 ra.2)).map (· ++ ['\n'])).flatten)
      = .ok (rows.map (fun ra => expRow f geo pf ra.1)) := by
  unfold readCsv
  rw [fileLines_flatten]
  · simp only [List.cons_append, skipHeader, pure, Except.pure, bind, Except.bind]
    rw [readLines_skip_comments f pf cm _ (fun l hl => (hcm l hl).2)]
    exact readLines_lines f geo pf naf rows hv hsep hnl htime hrows
  · intro l hl
    simp only [List.cons_append, List.mem_cons, List.mem_append, List.mem_map] at hl
    rcases hl with rfl | hl | ⟨ra, hra, rfl⟩
    · exact hfirst
    · exact (hcm l hl).1
    · have hr := hrows ra hra
      exact (row_roundtrip_line f geo pf naf ra.1 ra.2 hv hsep hnl (fun ht => ⟨htime ht, hr.1 ht⟩) hr.2).2.1

end TV.TextIO
