import TracklibVerif.Lemmas.ExprPre6
/-! # Extension: `**` written for `^`

Surface trees with one more node, `l ** r`; the first step of the chain (`**` → `^`) maps their source
string to the source string of the tree with `^`. -/
namespace TV.Expr
open TV.Rpn

/-- surface trees with the Python spelling of the power -/
inductive Sy where
  | num (s : Str)
  | var (s : Str)
  | bin (o : Char) (l r : Sy)
  | pw (l r : Sy)
  | call (f : Str) (e : Sy)
  | neg (e : Sy)
  | par (e : Sy)

/-- `l ** r` is `l ^ r` -/
def lower : Sy → Sx
  | .num s => .num s
  | .var s => .var s
  | .bin o l r => .bin o (lower l) (lower r)
  | .pw l r => .bin '^' (lower l) (lower r)
  | .call f e => .call f (lower e)
  | .neg e => .neg (lower e)
  | .par e => .par (lower e)

/-- the source string, the power written `**` -/
def srcY : Sy → Str
  | .num s => s
  | .var s => s
  | .bin o l r =>
    wrapS (decide (slv (lower l) < pyLvl o)) (srcY l) ++ o :: wrapS (decide (slv (lower r) ≤ pyLvl o)) (srcY r)
  | .pw l r =>
    wrapS (decide (slv (lower l) < pyLvl '^')) (srcY l) ++ '*' :: '*' :: wrapS (decide (slv (lower r) ≤ pyLvl '^')) (srcY r)
  | .call f e => f ++ ('{' :: (srcY e ++ ['}']))
  | .neg e => '(' :: '-' :: (wrapS (decide (slv (lower e) ≤ 2)) (srcY e) ++ [')'])
  | .par e => '(' :: (srcY e ++ [')'])

theorem getLast?_append_ne {s t : Str} (ht : t ≠ []) : (s ++ t).getLast? = t.getLast? := by
  rw [List.getLast?_append]
  cases h : t.getLast? with
  | none => exact absurd (List.getLast?_eq_none_iff.mp h) ht
  | some z => rfl

theorem getLast?_cons_snoc (c d : Char) (s : Str) : (c :: (s ++ [d])).getLast? = some d := by
  rw [← List.cons_append, List.getLast?_concat]

/-- does not start and does not end with `*`, is not empty -/
def NS (s : Str) : Prop := s ≠ [] ∧ s.head? ≠ some '*' ∧ s.getLast? ≠ some '*'

theorem NS.wrap {s : Str} (b : Bool) (h : NS s) : NS (wrapS b s) := by
  cases b with
  | false => exact h
  | true => exact ⟨by simp [wrapS], by simp [wrapS], by simp [wrapS, getLast?_cons_snoc]⟩

theorem NS.join {s t : Str} (m : Str) (hs : NS s) (ht : NS t) : NS (s ++ (m ++ t)) := by
  obtain ⟨s1, s2, _⟩ := hs
  obtain ⟨t1, _, t3⟩ := ht
  refine ⟨by simp [s1], ?_, ?_⟩
  · cases s with
    | nil => exact absurd rfl s1
    | cons c cs => simpa using s2
  · rw [← List.append_assoc, getLast?_append_ne t1]; exact t3

theorem NS_name {s : Str} (h : NameOK s) : NS s := by
  have hn : '*' ∉ s := name_not_mem h (by decide)
  refine ⟨h.1, ?_, ?_⟩
  · intro hh; exact hn (List.mem_of_mem_head? hh)
  · intro hh; exact hn (List.mem_of_getLast? hh)

theorem NS_paren (s : Str) : NS ('(' :: (s ++ [')'])) :=
  ⟨by simp, by simp, by simp [getLast?_cons_snoc]⟩

theorem srcY_NS (e : Sy) (h : SrcOK (lower e)) : NS (srcY e) := by
  induction e with
  | num s => exact NS_name h.1
  | var s => exact NS_name h.1
  | bin o l r ihl ihr => exact NS.join [o] ((ihl h.2.1).wrap _) ((ihr h.2.2).wrap _)
  | pw l r ihl ihr => exact NS.join ['*', '*'] ((ihl h.2.1).wrap _) ((ihr h.2.2).wrap _)
  | call f e ih =>
    refine ⟨by simp [srcY], ?_, ?_⟩
    · have := (NS_name h.1)
      cases f with
      | nil => exact absurd rfl this.1
      | cons c cs => simpa [srcY] using this.2.1
    · rw [srcY, getLast?_append_ne (by simp), getLast?_cons_snoc]; simp
  | neg e ih =>
    refine ⟨by simp [srcY], by simp [srcY], ?_⟩
    rw [srcY, List.getLast?_cons_cons, getLast?_cons_snoc]; simp
  | par e ih => exact NS_paren _

/-- `s.replace("**", "^")` -/
abbrev rS : Str → Str := rep2 '*' '*' ['^']

theorem rS_app (s t : Str) (hj : s.getLast? ≠ some '*' ∨ t.head? ≠ some '*') : rS (s ++ t) = rS s ++ rS t :=
  rep2_append _ _ _ s.length s t (Nat.le_refl _) hj

theorem rS_cons {c : Char} (hc : c ≠ '*') (t : Str) : rS (c :: t) = c :: rS t := by
  have := rS_app [c] t (Or.inl (by simpa using hc))
  simpa [rS, rep2] using this

theorem rS_snoc {c : Char} (hc : c ≠ '*') (s : Str) : rS (s ++ [c]) = rS s ++ [c] := by
  rw [rS_app s [c] (Or.inr (by simpa using hc))]; rfl

theorem rS_wrapS (b : Bool) (s : Str) : rS (wrapS b s) = wrapS b (rS s) := by
  cases b with
  | false => rfl
  | true => simp only [wrapS, if_true]; rw [rS_cons (by decide), rS_snoc (by decide)]

theorem rS_name {s : Str} (h : NameOK s) : rS s = s := rep2_absent_left (name_not_mem h (by decide))

/-- the first step of the chain: `**` → `^` -/
theorem rS_srcY (e : Sy) (h : SrcOK (lower e)) : rS (srcY e) = src (lower e) := by
  unfold src
  induction e with
  | num s => exact rS_name h.1
  | var s => exact rS_name h.1
  | bin o l r ihl ihr =>
    have hl := (srcY_NS l h.2.1).wrap (decide (slv (lower l) < pyLvl o))
    have hr := (srcY_NS r h.2.2).wrap (decide (slv (lower r) ≤ pyLvl o))
    simp only [srcY, lower, pr]
    rw [rS_app _ _ (Or.inl hl.2.2)]
    have := rS_app [o] _ (Or.inr hr.2.1)
    simp only [List.cons_append, List.nil_append] at this
    rw [this, rS_wrapS, rS_wrapS, ihl h.2.1, ihr h.2.2]
    rfl
  | pw l r ihl ihr =>
    have hl := (srcY_NS l h.2.1).wrap (decide (slv (lower l) < pyLvl '^'))
    simp only [srcY, lower, pr]
    rw [rS_app _ _ (Or.inl hl.2.2)]
    have : ∀ t, rS ('*' :: '*' :: t) = '^' :: rS t := by intro t; simp [rS, rep2]
    rw [this, rS_wrapS, rS_wrapS, ihl h.2.1, ihr h.2.2]
  | call f e ih =>
    simp only [srcY, lower, pr]
    rw [rS_app _ _ (Or.inr (by simp)), rS_name h.1, rS_cons (by decide), rS_snoc (by decide), ih h.2]
    rfl
  | neg e ih =>
    simp only [srcY, lower, pr]
    rw [rS_cons (by decide), rS_cons (by decide), rS_snoc (by decide), rS_wrapS, ih h]
    rfl
  | par e ih =>
    simp only [srcY, lower, pr]
    rw [rS_cons (by decide), rS_snoc (by decide), ih h]

theorem mem_wrapS {c : Char} {b : Bool} {s : Str} (h : c ∈ wrapS b s) : c = '(' ∨ c ∈ s ∨ c = ')' := by
  cases b with
  | false => exact Or.inr (Or.inl h)
  | true => simpa [wrapS] using h

theorem srcY_no_space (e : Sy) (h : SrcOK (lower e)) : ' ' ∉ srcY e := by
  have hw : ∀ (b : Bool) (s : Str), ' ' ∉ s → ' ' ∉ wrapS b s := by
    intro b s hs hm
    rcases mem_wrapS hm with h | h | h
    · exact absurd h (by decide)
    · exact hs h
    · exact absurd h (by decide)
  have hop : ∀ o, pyLvl o < 9 → ' ' ≠ o := by
    intro o ho e; subst e; revert ho; decide
  induction e with
  | num s => exact name_not_mem h.1 (by decide)
  | var s => exact name_not_mem h.1 (by decide)
  | bin o l r ihl ihr =>
    simp only [srcY, List.mem_append, List.mem_cons, not_or]
    exact ⟨hw _ _ (ihl h.2.1), hop o h.1.1, hw _ _ (ihr h.2.2)⟩
  | pw l r ihl ihr =>
    simp only [srcY, List.mem_append, List.mem_cons, not_or]
    exact ⟨hw _ _ (ihl h.2.1), by decide, by decide, hw _ _ (ihr h.2.2)⟩
  | call f e ih =>
    simp only [srcY, List.mem_append, List.mem_cons, List.mem_nil_iff, or_false, not_or]
    exact ⟨name_not_mem h.1 (by decide), by decide, ih h.2, by decide⟩
  | neg e ih =>
    simp only [srcY, List.mem_append, List.mem_cons, List.mem_nil_iff, or_false, not_or]
    exact ⟨by decide, by decide, hw _ _ (ih h), by decide⟩
  | par e ih =>
    simp only [srcY, List.mem_append, List.mem_cons, List.mem_nil_iff, or_false, not_or]
    exact ⟨by decide, ih h, by decide⟩

/-- `preprocess` sees the string only through its first two steps -/
theorem preprocess_congr {s1 s2 : Str}
    (h : replace (replace s1 [' '] []) ['*', '*'] ['^'] = replace (replace s2 [' '] []) ['*', '*'] ['^']) :
    preprocess s1 = preprocess s2 := by
  simp only [preprocess, specialOpChar, h]

theorem operate_congr {α : Type} [Scalar α] (tr : Tr α) {s1 s2 : Str} (h : preprocess s1 = preprocess s2) :
    operate tr s1 = operate tr s2 := by
  unfold operate evaluate
  rw [h]

/-- in front of the expression: nothing or `lhs=` (no `*`) -/
theorem preprocess_pow_pre (pre : Str) (hp : PreOK pre) (hs : '*' ∉ pre) (e : Sy) (h : SrcOK (lower e)) :
    preprocess (pre ++ srcY e) = preprocess (pre ++ src (lower e)) := by
  apply preprocess_congr
  have c0 : chn okp (pre ++ src (lower e)) = true :=
    hp.chn _ (pr_inv (Or.inl rfl) (Or.inl rfl) (Or.inl rfl) (lower e) h)
  have a1 : replace (pre ++ srcY e) [' '] [] = pre ++ srcY e := by
    apply replace_absent
    apply contains_single_false
    simp only [List.mem_append, not_or]
    exact ⟨hp.nosp, srcY_no_space e h⟩
  have a2 : replace (pre ++ src (lower e)) [' '] [] = pre ++ src (lower e) := by
    apply replace_absent
    apply contains_single_false
    simp only [List.mem_append, not_or]
    exact ⟨hp.nosp, src_no_space (lower e) h⟩
  rw [a1, a2, replace_two, replace_chn ['*', '*'] _ c0 (by decide)]
  have hl : pre.getLast? ≠ some '*' := fun hl => hs (List.mem_of_getLast? hl)
  have := rS_app pre (srcY e) (Or.inl hl)
  simp only [rS] at this
  rw [this, rep2_absent_left hs]
  exact congrArg _ (rS_srcY e h)

theorem lhs_no_star {lhs : Str} (hl : NameOK lhs) : '*' ∉ lhs ++ ['='] := by
  simp only [List.mem_append, List.mem_singleton, not_or]
  exact ⟨name_not_mem hl (by decide), by decide⟩

/-- **`lhs=e` with `**`** -/
theorem preprocess_assign_pow (lhs : Str) (e : Sy) (hl : NameOK lhs) (h : SrcOK (lower e)) :
    preprocess (lhs ++ '=' :: srcY e)
      = .ok (flat (shw pyLvl 9 (.bin '=' (.atom (String.ofList lhs)) (toE' (lower e)))), true) := by
  have := preprocess_pow_pre (lhs ++ ['=']) (preOK_lhs hl) (lhs_no_star hl) e h
  simp only [List.append_assoc, List.cons_append, List.nil_append] at this
  rw [this]
  exact preprocess_assign lhs (lower e) hl h

/-- **value form with `**`** -/
theorem preprocess_value_pow (e : Sy) (h : SrcOK (lower e)) :
    preprocess (srcY e) = .ok ("#output = ".toList ++ flat (shw pyLvl 9 (toE' (lower e))), false) := by
  have := preprocess_pow_pre [] preOK_nil (by simp) e h
  simp only [List.nil_append] at this
  rw [this]
  exact preprocess_value (lower e) h

variable {α : Type} [Scalar α]

theorem operate_source_tokens_pow (tr : Tr α) (lhs : Str) (e : Sy)
    (hl : NameOK lhs) (hg : GoodTok lhs) (h : SrcOK (lower e)) (hq : NoQuote (desugar (lower e))) :
    operate tr (lhs ++ '=' :: srcY e)
      = operateTokens tr (lhs :: (Expr.post (desugar (lower e)) ++ [['=']])) true := by
  have := preprocess_pow_pre (lhs ++ ['=']) (preOK_lhs hl) (lhs_no_star hl) e h
  simp only [List.append_assoc, List.cons_append, List.nil_append] at this
  rw [operate_congr tr this]
  exact operate_source_tokens tr lhs (lower e) hl hg h hq

theorem operate_source_value_pow (tr : Tr α) (e : Sy) (v : Val α) (h : SrcOK (lower e))
    (hq : NoQuote (desugar (lower e))) (hw : WFx (desugar (lower e))) (hn : tr.n ≠ 0) (hnt : NoTemps tr)
    (hl : NoLitNames tr) (hd : denoteM tr (desugar (lower e)) = .ok v) :
    operate tr (srcY e) = (.ok (some (v.toVec tr.n)), tr) := by
  have := preprocess_pow_pre [] preOK_nil (by simp) e h
  simp only [List.nil_append] at this
  rw [operate_congr tr this]
  exact operate_source_value tr (lower e) v h hq hw hn hnt hl hd

/-- `a**2-b` -/
example : srcY (.bin '-' (.pw (.var ['a']) (.num ['2'])) (.var ['b'])) = "a**2-b".toList := by decide +kernel
example : (preprocess "c=a**2-b".toList).toOption = some ("c=a^2-b".toList, true) := by decide +kernel

end TV.Expr
