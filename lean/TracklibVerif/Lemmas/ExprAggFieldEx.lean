import TracklibVerif.Lemmas.ExprAggField
import TracklibVerif.Lemmas.ExprExact
import Mathlib.Algebra.Order.Field.Rat
import Mathlib.Data.Rat.Floor
import Mathlib.Tactic.NormNum
import Mathlib.Tactic.FieldSimp
/-! `Option Rat` (`Lemmas/ExprExact.lean`) is a `FieldModel` over `ℚ`: the hypotheses of the closed forms of
`Lemmas/ExprAggField.lean` are those of exact arithmetic with a NaN element. And the index arithmetic of `Median`
(`(int)(N / 2 - 1)`, `(int)(N / 2)` with Python's true division) against the integer ranks `N/2 - 1`, `N/2` of the model. -/
namespace TV.Expr
open Scalar

def exactQ_model : FieldModel (Option Rat) Rat where
  val := id
  nan_iff := fun _ => rfl
  val_add := by intro a b x y ha hb; simp only [id] at ha hb; subst ha hb; rfl
  val_sub := by intro a b x y ha hb; simp only [id] at ha hb; subst ha hb; rfl
  val_mul := by intro a b x y ha hb; simp only [id] at ha hb; subst ha hb; rfl
  val_div := by
    intro a b x y ha hb hy; simp only [id] at ha hb; subst ha hb
    simp [Scalar.div, hy]
  val_sq := by
    intro a x ha; simp only [id] at ha; subst ha
    refine ⟨some (x * x), ?_, rfl⟩
    have h2 : (Scalar.two : Option Rat) = some 2 := by simp [Scalar.two, Scalar.ofDec]
    rw [h2]
    have hc : ((2 : Rat).den = 1 ∧ 0 ≤ (2 : Rat).num) := by decide
    simp only [Scalar.pow, hc, and_self, if_true]
    congr 2
    have : (2 : Rat).num.toNat = 2 := by decide
    rw [this, pow_two]
  val_abs := by
    intro a x ha; simp only [id] at ha; subst ha
    simp only [Scalar.abs, Option.map, id]
    congr 1
    by_cases h : x < 0
    · simp [h, abs_of_neg h]
    · simp [h, abs_of_nonneg (not_lt.mp h)]
  val_lt := by intro a b x y ha hb; simp only [id] at ha hb; subst ha hb; rfl
  val_ofNat := by intro n; simp [Scalar.ofNat, Scalar.ofDec]
  val_half := by
    simp only [Scalar.half, Scalar.ofDec, id]
    norm_num

/-- the formulas on a concrete vector with a NaN: `[3, NaN, -1, 4]` -/
example : nums exactQ_model [some 3, none, some (-1), some 4] = [3, -1, 4] := by rfl
example : sumL ([some 3, none, some (-1), some 4] : List (Option Rat)) = some 6 := by decide +kernel
example : IsOS ([3, -1, 4] : List Rat) 1 3 := by unfold IsOS; decide +kernel

/-- Python `int(q)`: truncation toward zero -/
def pyInt (q : Rat) : Int := if 0 ≤ q then ⌊q⌋ else ⌈q⌉

/-- **the index arithmetic of `Median`**: for an even number `N ≥ 2` of observations, `(int)(N / 2 - 1)` and `(int)(N / 2)`
(true division, then truncation) are the ranks `N/2 - 1` and `N/2` (integer division) the model uses — the two central
ranks; the quotient is exact in doubles for every `N < 2^53`. -/
theorem median_ranks_even (N : Nat) (hev : N % 2 = 0) (h2 : 2 ≤ N) :
    pyInt ((N : Rat) / 2 - 1) = ((N / 2 - 1 : Nat) : Int) ∧ pyInt ((N : Rat) / 2) = ((N / 2 : Nat) : Int) := by
  obtain ⟨k, rfl⟩ : ∃ k, N = 2 * k := ⟨N / 2, by omega⟩
  have hk : 1 ≤ k := by omega
  have e1 : ((2 * k : Nat) : Rat) / 2 = (k : Rat) := by push_cast; field_simp
  have e2 : (k : Rat) - 1 = ((k - 1 : Nat) : Rat) := by rw [Nat.cast_sub hk]; simp
  have d1 : 2 * k / 2 = k := by omega
  rw [e1, d1]
  refine ⟨?_, ?_⟩
  · rw [e2]
    have : (0 : Rat) ≤ ((k - 1 : Nat) : Rat) := Nat.cast_nonneg _
    simp only [pyInt, this, if_true]
    exact Int.floor_natCast _
  · have : (0 : Rat) ≤ (k : Rat) := Nat.cast_nonneg _
    simp only [pyInt, this, if_true]
    exact Int.floor_natCast _

/-- … whereas *rounding* the same quotients (Python's `round`: half to even) does not give one central rank for an odd
`N`: for `N = 3`, `round(0.5) = 0` and `round(1.5) = 2` are the two outer ranks (what the seeded change C02-11 did) -/
example : ((3 : Rat) / 2 - 1 = 1 / 2) ∧ ((3 : Rat) / 2 = 3 / 2) ∧ 3 / 2 = 1 := by
  refine ⟨by norm_num, by norm_num, by decide⟩

end TV.Expr
