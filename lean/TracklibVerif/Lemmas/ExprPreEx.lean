import TracklibVerif.Lemmas.ExprPre5
/-! # Non-vacuity of the hypotheses of `Lemmas/ExprPre*.lean`, on `(a+b)*2-SUM{(-a)}` -/
namespace TV.ExprPreEx
open TV.Expr TV.Rpn

/-- `(a+b)*2-SUM{(-a)}` -/
def exS : Sx :=
  .bin '-' (.bin '*' (.bin '+' (.var ['a']) (.var ['b'])) (.num ['2'])) (.call ['S', 'U', 'M'] (.neg (.var ['a'])))
/-- `((-(a-b)))-(-x1.5)*c` : explicit parentheses, a parenthesised operand of the unary minus, nested minus -/
def exS2 : Sx :=
  .bin '-' (.par (.neg (.bin '-' (.var ['a']) (.var ['b'])))) (.bin '*' (.neg (.num ['1', '.', '5'])) (.var ['c']))

example : src exS = "(a+b)*2-SUM{(-a)}".toList := by decide +kernel
example : tgt exS = "(a+b)*2-SUM@((0-a))".toList := by decide +kernel
example : src exS2 = "((-(a-b)))-(-1.5)*c".toList := by decide +kernel
example : tgt exS2 = "((0-(a-b)))-(0-1.5)*c".toList := by decide +kernel

theorem srcOK_exS : SrcOK exS := by
  simp only [exS, SrcOK, NameOK]
  decide

example : SrcOK exS2 := by
  simp only [exS2, SrcOK, NameOK]
  decide

theorem nameOK_y : NameOK ['y'] ∧ GoodTok ['y'] := ⟨⟨by decide, by decide⟩, ⟨'y', rfl, by decide⟩⟩

theorem noQuote_exS : NoQuote (desugar exS) := by
  simp only [exS, desugar, NoQuote, GoodTok]
  decide

theorem wfx_exS : WFx (desugar exS) := by
  simp only [exS, desugar, WFx]
  decide

/-- the chain on the concrete strings (computed), as the theorems say -/
example : (preprocess "y=(a+b)*2-SUM{(-a)}".toList).toOption = some ("y=(a+b)*2-SUM@((0-a))".toList, true) := by
  decide +kernel
example : (preprocess "(a+b)*2-SUM{(-a)}".toList).toOption = some ("#output = (a+b)*2-SUM@((0-a))".toList, false) := by
  decide +kernel
example : (preprocess "((-(a-b)))-(-1.5)*c".toList).toOption
    = some ("#output = ((0-(a-b)))-(0-1.5)*c".toList, false) := by decide +kernel
example : flat (shw pyLvl 9 (.bin '=' (.atom (String.ofList ['y'])) (toE' exS))) = "y=(a+b)*2-SUM@((0-a))".toList := by
  decide +kernel
example : (makeRPN "#output = (a+b)*2-SUM@((0-a))".toList).toOption
    = some (outputName :: (Expr.post (desugar exS) ++ [['=']])) := by decide +kernel

/-- the same through the theorems -/
example : preprocess ("y".toList ++ '=' :: src exS)
    = .ok (flat (shw pyLvl 9 (.bin '=' (.atom (String.ofList ['y'])) (toE' exS))), true) :=
  preprocess_assign ['y'] exS nameOK_y.1 srcOK_exS
example : preprocess (src exS) = .ok ("#output = ".toList ++ flat (shw pyLvl 9 (toE' exS)), false) :=
  preprocess_value exS srcOK_exS

/-- a toy exact scalar (integers) for the end-to-end example -/
instance toy : Scalar Int where
  add := (· + ·)
  sub := (· - ·)
  mul := (· * ·)
  div := (· / ·)
  neg := fun x => -x
  pow := fun x y => .ok (x ^ y.toNat)
  sqrt := fun x => .ok x
  abs := fun x => x.natAbs
  lt := fun a b => decide (a < b)
  isZero := fun x => x == 0
  isNaN := fun _ => false
  nan := 0
  ofDec := fun m k => (m : Int) / (10 ^ k : Nat)
  inf := 10 ^ 300

def trEx : Tr Int := ⟨3, [1, 2, 3], [0, 0, 0], [0, 0, 0], [0, 10, 20], [(['a'], [1, -2, 4]), (['b'], [2, 2, 5])]⟩

theorem noTemps_trEx : NoTemps trEx := by intro p hp; simp [trEx] at hp; rcases hp with rfl | rfl <;> rfl
theorem noLit_trEx : NoLitNames trEx := by
  intro s hs
  simp only [trEx, lookup]
  split
  · rename_i h; subst h; exact absurd hs (by decide)
  · split
    · rename_i h; subst h; exact absurd hs (by decide)
    · rfl
theorem denote_exS : denoteM trEx (desugar exS) = .ok (.vec [9, 3, 21]) := by rfl

/-- every hypothesis of `operate_source_value` holds: `operate` on the string `(a+b)*2-SUM{(-a)}` -/
example : operate trEx "(a+b)*2-SUM{(-a)}".toList = (.ok (some [9, 3, 21]), trEx) := by
  have h := operate_source_value trEx exS _ srcOK_exS noQuote_exS wfx_exS (by decide) noTemps_trEx noLit_trEx denote_exS
  have hs : src exS = "(a+b)*2-SUM{(-a)}".toList := by decide +kernel
  rw [hs] at h
  exact h

end TV.ExprPreEx
