import TracklibVerif.Lemmas.TextIOCols
import TracklibVerif.Lemmas.TextIOFixed
import TracklibVerif.Lemmas.TextIOTime
/-! One CSV data line written by `writeToFile` and read by `__readFromCsv` (core only). -/
namespace TV.TextIO
open TV.ObsTime

/-! ### reading side of the layout -/

theorem cols_lookup (f : CsvFmt) (hv : ValidIds f) (E N : Str) (U T : Option Str) (more : List Str) :
    nth (cols f E N U T ++ more) (idx f.idE) = .ok E ∧ nth (cols f E N U T ++ more) (idx f.idN) = .ok N ∧
    (f.idU ≠ -1 → nth (cols f E N U T ++ more) (idx f.idU) = .ok (U.getD [])) ∧
    (f.idT ≠ -1 → nth (cols f E N U T ++ more) (idx f.idT) = .ok (T.getD [])) := by
  obtain ⟨e, n, u, t, sep⟩ := f
  have hm := validB_mem_layouts hv
  layout_cases hm <;> simp [cols, datum, nSpecial, nth, idx, List.range, List.range.loop, pure, Except.pure]

theorem cols_length (f : CsvFmt) (E N : Str) (U T : Option Str) : (cols f E N U T).length = nSpecial f := by
  simp [cols]

theorem mem_cols (f : CsvFmt) (hv : ValidIds f) (E N : Str) (U T : Option Str)
    (hU : U.isSome = decide (f.idU ≠ -1)) (hT : T.isSome = decide (f.idT ≠ -1)) :
    ∀ s ∈ cols f E N U T, s = E ∨ s = N ∨ U = some s ∨ T = some s := by
  obtain ⟨e, n, u, t, sep⟩ := f
  have hm := validB_mem_layouts hv
  layout_cases hm <;> (cases U <;> cases T <;> simp at hU hT <;>
    simp [cols, datum, nSpecial, List.range, List.range.loop]) <;> (intro s hs; simp [hs]) <;> (rcases hs with rfl | rfl | rfl | rfl <;> simp)

/-! ### feature columns -/

theorem afs_foldl (sep : Char) (afs : List AFVal) (acc : Str) :
    afs.foldl (fun acc v => acc ++ [sep] ++ afText v) acc = acc ++ (afs.map (fun v => sep :: afText v)).flatten := by
  induction afs generalizing acc with
  | nil => simp
  | cons a r ih => simp [ih]

theorem joinChar_cons_flatten (sep : Char) (b : Str) (ms : List Str) :
    b ++ (ms.map (fun v => sep :: v)).flatten = joinChar sep (b :: ms) := by
  induction ms generalizing b with
  | nil => simp [joinChar]
  | cons x xs ih =>
    simp only [List.map_cons, List.flatten_cons, joinChar]
    rw [← ih x]
    simp

theorem joinChar_append_flatten (sep : Char) (cs more : List Str) (h : cs ≠ []) :
    joinChar sep cs ++ (more.map (fun v => sep :: v)).flatten = joinChar sep (cs ++ more) := by
  induction cs with
  | nil => exact absurd rfl h
  | cons a r ih =>
    cases r with
    | nil => exact joinChar_cons_flatten sep a more
    | cons b r' =>
      have := ih (by simp)
      simp only [List.cons_append, joinChar, List.append_assoc] at this ⊢
      rw [← this]

/-! ### the reader on a line whose fields are known -/

theorem readRow_of_fields (f : CsvFmt) (rf : List Tok) (line : Str) (fs : List Str)
    (hfs : (splitOnChar f.sep (strip line)).filter (fun s => !s.isEmpty) = fs)
    (X Y : Str) (xv yv zv : Dec) (tv : Stamp)
    (hE : nth fs (idx f.idE) = .ok X) (hN : nth fs (idx f.idN) = .ok Y)
    (hX : coordField X true = some xv) (hY : coordField Y true = some yv)
    (hnd : decTrunc xv ≠ noData ∧ decTrunc yv ≠ noData)
    (hZ : if f.idU ≥ 0 then ∃ Z, nth fs (idx f.idU) = .ok Z ∧ coordField Z false = some zv else zv = (0, 0))
    (hT : if f.idT ≠ -1 then ∃ Ts, nth fs (idx f.idT) = .ok Ts ∧
            (match readTimestamp rf ((strip Ts).filter (· ≠ '"')) with | some t => t | none => epoch) = tv
          else tv = epoch) :
    readRow f rf line = .ok ⟨xv, yv, zv, tv⟩ := by
  unfold readRow
  by_cases hT' : f.idT ≠ -1
  · rw [if_pos hT'] at hT
    obtain ⟨Ts, hTs, htv⟩ := hT
    simp only [ne_eq, decide_not] at htv
    by_cases hU' : f.idU ≥ 0
    · rw [if_pos hU'] at hZ
      obtain ⟨Z, hZ1, hZ2⟩ := hZ
      simp [hfs, hT', hU', hTs, hE, hN, hZ1, hX, hY, hZ2, hnd, bind, Except.bind, pure, Except.pure]
      exact htv
    · rw [if_neg hU'] at hZ
      simp [hfs, hT', hU', hTs, hE, hN, hX, hY, hZ, hnd, bind, Except.bind, pure, Except.pure]
      exact htv
  · rw [if_neg hT'] at hT
    by_cases hU' : f.idU ≥ 0
    · rw [if_pos hU'] at hZ
      obtain ⟨Z, hZ1, hZ2⟩ := hZ
      simp [hfs, hT', hU', hE, hN, hZ1, hX, hY, hZ2, hnd, hT, bind, Except.bind, pure, Except.pure]
    · rw [if_neg hU'] at hZ
      simp [hfs, hT', hU', hE, hN, hX, hY, hZ, hnd, hT, bind, Except.bind, pure, Except.pure]

/-! ### a coordinate field -/

theorem fixedCoreS_ne_nil (d : Nat) (v : SNum) : fixedCoreS d v ≠ [] := by
  unfold fixedCoreS
  have := natStr_ne_nil (v.mag / 10 ^ d)
  cases v.neg <;> simp [this]

theorem coordField_fixedCoreS (d : Nat) (v : SNum) (naToo : Bool) :
    coordField (fixedCoreS d v) naToo = some (v.toInt, d) := by
  unfold coordField
  rw [strip_fixedCoreS]
  have h1 : (fixedCoreS d v).isEmpty = false := by
    cases h : fixedCoreS d v with
    | nil => exact absurd h (fixedCoreS_ne_nil d v)
    | cons _ _ => rfl
  have h2 : (fixedCoreS d v == ['N', 'A']) = false := by
    cases h : fixedCoreS d v == ['N', 'A'] with
    | false => rfl
    | true =>
      have e : fixedCoreS d v = ['N', 'A'] := by simpa using h
      have := fixedCoreS_numChar d v 'N' (by rw [e]; simp)
      exact absurd this (by decide)
  simp [h1, h2, parseDec_fixedCoreS]

/-! ### the printed timestamp as a field -/

theorem printTime_append (a b : List Tok) (t : Stamp) : printTime (a ++ b) t = printTime a t ++ printTime b t := by
  induction a with
  | nil => rfl
  | cons tk r ih => cases tk <;> simp [printTime, ih]

theorem zpad_digits (w v : Nat) : ∀ c ∈ zpad w v, (digitVal? c).isSome = true := padDigits_digits _ _

theorem zpad_ne_nil (w v : Nat) : zpad w v ≠ [] := by
  intro h
  have h1 : (zpad w v).length = max w (numDigits v) := padDigits_length _ _
  have h2 := numDigits_pos v
  rw [h] at h1; simp at h1; omega

theorem printTime_chars (pf : List Tok) (t : Stamp) :
    ∀ x ∈ printTime pf t, (digitVal? x).isSome = true ∨ Tok.lit x ∈ pf := by
  induction pf with
  | nil => simp [printTime]
  | cons tk r ih =>
    intro x hx
    cases tk with
    | code w l =>
      simp only [printTime, List.mem_append] at hx
      rcases hx with hx | hx
      · exact Or.inl (zpad_digits _ _ x hx)
      · rcases ih x hx with h | h
        · exact Or.inl h
        · exact Or.inr (by simp [h])
    | lit c =>
      simp only [printTime, List.mem_cons] at hx
      rcases hx with rfl | hx
      · exact Or.inr (by simp)
      · rcases ih x hx with h | h
        · exact Or.inl h
        · exact Or.inr (by simp [h])

/-- the print format can be used for a CSV column with separator `sep` -/
structure TimeOK (pf : List Tok) (sep : Char) : Prop where
  lossless : Lossless pf
  nonempty : pf ≠ []
  lits : ∀ c, Tok.lit c ∈ pf → c ≠ sep ∧ c ≠ '"' ∧ c ≠ '#' ∧ c ≠ '\n'
  headOK : ∀ c, pf.head? = some (Tok.lit c) → isWs c = false
  lastOK : ∀ c, pf.getLast? = some (Tok.lit c) → isWs c = false

theorem tokStr_head (tk : Tok) (t : Stamp) (r : Str) :
    ∃ c, (printTime [tk] t ++ r).head? = some c ∧ ((digitVal? c).isSome = true ∨ tk = Tok.lit c) := by
  cases tk with
  | code w l =>
    cases h : zpad w (fieldVal t w l) with
    | nil => exact absurd h (zpad_ne_nil _ _)
    | cons c cs =>
      refine ⟨c, by simp [printTime, h], Or.inl (zpad_digits w (fieldVal t w l) c (by rw [h]; simp))⟩
  | lit c => exact ⟨c, by simp [printTime], Or.inr rfl⟩

theorem tokStr_last (tk : Tok) (t : Stamp) (r : Str) :
    ∃ c, (r ++ printTime [tk] t).getLast? = some c ∧ ((digitVal? c).isSome = true ∨ tk = Tok.lit c) := by
  cases tk with
  | code w l =>
    have hne := zpad_ne_nil w (fieldVal t w l)
    have : (printTime [Tok.code w l] t) = zpad w (fieldVal t w l) := by simp [printTime]
    rw [this, List.getLast?_append]
    cases h : (zpad w (fieldVal t w l)).getLast? with
    | none => simp at h; exact absurd h hne
    | some c => exact ⟨c, by simp, Or.inl (zpad_digits _ _ c (List.mem_of_getLast? h))⟩
  | lit c => exact ⟨c, by simp [printTime], Or.inr rfl⟩

theorem printTime_head_last (pf : List Tok) (sep : Char) (h : TimeOK pf sep) (t : Stamp) :
    (∀ c, (printTime pf t).head? = some c → isWs c = false ∧ c ≠ '#') ∧
    (∀ c, (printTime pf t).getLast? = some c → isWs c = false) := by
  constructor
  · intro c hc
    cases hp : pf with
    | nil => exact absurd hp h.nonempty
    | cons tk r =>
      have e : printTime (tk :: r) t = printTime [tk] t ++ printTime r t := printTime_append [tk] r t
      rw [hp, e] at hc
      obtain ⟨c', hc', hd⟩ := tokStr_head tk t (printTime r t)
      rw [hc'] at hc
      cases hc
      rcases hd with hd | hd
      · refine ⟨(digit_of_digitVal hd).1, ?_⟩
        intro e; subst e; revert hd; decide
      · exact ⟨h.headOK c (by rw [hp, hd]; rfl), (h.lits c (by rw [hp, hd]; simp)).2.2.1⟩
  · intro c hc
    have hsplit : pf = pf.dropLast ++ [pf.getLast h.nonempty] := (List.dropLast_concat_getLast h.nonempty).symm
    have e : printTime pf t = printTime pf.dropLast t ++ printTime [pf.getLast h.nonempty] t := by
      rw [← printTime_append, ← hsplit]
    rw [e] at hc
    obtain ⟨c', hc', hd⟩ := tokStr_last (pf.getLast h.nonempty) t (printTime pf.dropLast t)
    rw [hc'] at hc
    cases hc
    rcases hd with hd | hd
    · exact (digit_of_digitVal hd).1
    · exact h.lastOK c (by rw [← hd]; exact List.getLast?_eq_some_getLast h.nonempty)

theorem strip_printTime (pf : List Tok) (sep : Char) (h : TimeOK pf sep) (t : Stamp) :
    strip (printTime pf t) = printTime pf t :=
  strip_eq_self _ (fun c hc => ((printTime_head_last pf sep h t).1 c hc).1) (printTime_head_last pf sep h t).2

theorem printTime_ne_nil (pf : List Tok) (sep : Char) (h : TimeOK pf sep) (t : Stamp) : printTime pf t ≠ [] := by
  cases hp : pf with
  | nil => exact absurd hp h.nonempty
  | cons tk r =>
    have e : printTime (tk :: r) t = printTime [tk] t ++ printTime r t := printTime_append [tk] r t
    obtain ⟨c', hc', _⟩ := tokStr_head tk t (printTime r t)
    intro hnil
    rw [e] at hnil
    rw [hnil] at hc'
    simp at hc'

/-- the separator, the quote, `#` and the newline do not occur in a printed timestamp -/
theorem printTime_avoids (pf : List Tok) (sep : Char) (h : TimeOK pf sep) (hsep : numChar sep = false) (t : Stamp) :
    sep ∉ printTime pf t ∧ '"' ∉ printTime pf t ∧ '#' ∉ printTime pf t ∧ '\n' ∉ printTime pf t := by
  have key : ∀ x, x ∈ printTime pf t → ((digitVal? x).isSome = true → False) → (∀ c, Tok.lit c ∈ pf → c ≠ x) → False := by
    intro x hx hd hl
    rcases printTime_chars pf t x hx with h1 | h1
    · exact hd h1
    · exact hl x h1 rfl
  refine ⟨fun hx => key _ hx ?_ (fun c hc => (h.lits c hc).1), fun hx => key _ hx (by decide) (fun c hc => (h.lits c hc).2.1),
    fun hx => key _ hx (by decide) (fun c hc => (h.lits c hc).2.2.1), fun hx => key _ hx (by decide) (fun c hc => (h.lits c hc).2.2.2)⟩
  intro hd
  unfold numChar at hsep
  simp [hd] at hsep

/-! ### the line as a whole -/

theorem numChar_not_ws {c : Char} (h : numChar c = true) : isWs c = false ∧ c ≠ '#' ∧ c ≠ '\n' ∧ c ≠ '"' := by
  unfold numChar at h
  simp only [Bool.or_eq_true, decide_eq_true_eq] at h
  rcases h with (h | h) | h
  · have := digit_of_digitVal h
    refine ⟨this.1, ?_, ?_, ?_⟩ <;> (intro e; subst e; revert h; decide)
  · subst h; decide
  · subst h; decide

theorem joinChar_head (sep : Char) (a : Str) (r : List Str) (ha : a ≠ []) :
    (joinChar sep (a :: r)).head? = a.head? := by
  cases a with
  | nil => exact absurd rfl ha
  | cons c cs => cases r <;> simp [joinChar]

theorem joinChar_getLast (sep : Char) (fs : List Str) (hne : fs ≠ []) (hl : fs.getLast hne ≠ []) :
    (joinChar sep fs).getLast? = (fs.getLast hne).getLast? := by
  induction fs with
  | nil => exact absurd rfl hne
  | cons a r ih =>
    cases r with
    | nil => simp [joinChar]
    | cons b r' =>
      have hne' : (b :: r') ≠ [] := by simp
      have hl' : (b :: r').getLast hne' ≠ [] := by simpa [List.getLast_cons hne'] using hl
      have ih' := ih hne' hl'
      obtain ⟨y, hy⟩ : ∃ y, ((b :: r').getLast hne').getLast? = some y := by
        cases h : ((b :: r').getLast hne').getLast? with
        | none => simp at h; exact absurd h hl'
        | some y => exact ⟨y, rfl⟩
      rw [List.getLast_cons hne', hy]
      rw [hy] at ih'
      simp only [joinChar, List.getLast?_append, List.getLast?_cons, ih']
      simp

/-- a line whose fields are non-empty and start / end with non-blank characters is its own `strip()`,
is not empty and is not a comment line -/
theorem joinChar_line (sep : Char) (fs : List Str) (hne : fs ≠ [])
    (hf : ∀ s ∈ fs, s ≠ [] ∧ (∀ c, s.head? = some c → isWs c = false ∧ c ≠ '#') ∧ (∀ c, s.getLast? = some c → isWs c = false)) :
    strip (joinChar sep fs) = joinChar sep fs ∧ ∃ c cs, joinChar sep fs = c :: cs ∧ c ≠ '#' := by
  obtain ⟨a, r, rfl⟩ : ∃ a r, fs = a :: r := by
    cases fs with
    | nil => exact absurd rfl hne
    | cons a r => exact ⟨a, r, rfl⟩
  have ha := hf a (by simp)
  have hhead := joinChar_head sep a r ha.1
  constructor
  · apply strip_eq_self
    · intro c hc
      rw [hhead] at hc
      exact (ha.2.1 c hc).1
    · intro c hc
      have hlast := hf ((a :: r).getLast hne) (List.getLast_mem hne)
      rw [joinChar_getLast sep (a :: r) hne hlast.1] at hc
      exact hlast.2.2 c hc
  · cases hj : joinChar sep (a :: r) with
    | nil =>
      rw [hj] at hhead
      cases a with
      | nil => exact absurd rfl ha.1
      | cons c cs => simp at hhead
    | cons c cs =>
      refine ⟨c, cs, rfl, ?_⟩
      rw [hj] at hhead
      exact (ha.2.1 c (by rw [← hhead]; rfl)).2

end TV.TextIO
