import TracklibVerif.Lemmas.DTWReal
import TracklibVerif.Lemmas.FDTW
import TracklibVerif.Lemmas.FDTWStruct
/-! Histories and the fast variant: `_fdtw` on a `track1` that carries the feature rows of an earlier matching. `_fillAF_dtw` resets
every `pair` list but overwrites `diff` / `ex` / `ey` only at the observations the walk through the antecedent map `A` visits, so the
statement needs what makes that walk a coupling: the hypotheses of `fdtw_spec` (`FastHyp`) on the accumulation that `_p2weight`
returns and the point distance that `_distance` computes for the call at hand (`FastCallOK`). -/
namespace TV.DTW

section fastHyp
variable {α : Type} [Add α] [Sub α] [Mul α] [LinearOrder α] [OfNat α 0]

/-- the hypotheses of `fdtw_spec` / `fdtw_equal` on an accumulation `w`, a point distance `dist` and two tracks: `w` is monotone in
the accumulated cost, inflationary on the distances at hand, and `big` (the 1e300 placeholder priority of `_update_node`) is above
every candidate cost -/
def FastHyp (big : α) (w : α → α → α) (dist : Pt α → Pt α → α) (t1 t2 : List (Pt α)) : Prop :=
  (∀ a b d, a ≤ b → w a d ≤ w b d) ∧
  (∀ a i j, i < t2.length → j < t1.length → a ≤ w a (Dmat dist t1 t2 i j)) ∧
  (∀ i j i' j', i < t2.length → j < t1.length → i' < t2.length → j' < t1.length →
      w (T w 0 (Dmat dist t1 t2) i j) (Dmat dist t1 t2 i' j') < big)

/-- `big` is above the accumulated cost of every partial coupling of the two tracks (every monotone unit-step path from the first pair
to some pair): all that `fdtw_struct` needs, whatever the accumulation and the point distance -/
def FastBig (big : α) (w : α → α → α) (dist : Pt α → Pt α → α) (t1 t2 : List (Pt α)) : Prop :=
  ∀ i j c, i < t2.length → j < t1.length → Coupling w 0 (Dmat dist t1 t2) i j c → c < big

/-- what makes the walk through the antecedent map of `_fdtw` a coupling: the hypotheses of `fdtw_spec` (then the score is the optimum
too) **or** only `big` above every partial coupling cost (`fdtw_struct`: any accumulation) -/
def FastOK (big : α) (w : α → α → α) (dist : Pt α → Pt α → α) (t1 t2 : List (Pt α)) : Prop :=
  FastHyp big w dist t1 t2 ∨ FastBig big w dist t1 t2

end fastHyp

section fastW
variable {α : Type} [Add α] [Sub α] [Mul α] [Div α] [Neg α] [LinearOrder α] [OfNat α 0] [OfScientific α]

omit [Div α] [Neg α] [OfScientific α] in
/-- `_fdtw` on a `track1` that carries earlier feature rows returns what it returns on a `track1` without them, and that is a
track with one feature row per observation -/
theorem fdtwOn_history (dist : Pt α → Pt α → α) (big : α) (w : α → α → α) (rows0 : List (Row α)) (t1 t2 : List (Pt α))
    (hl : rows0.length = t1.length) (h1 : 0 < t1.length) (h2 : 0 < t2.length) (H : FastOK big w dist t1 t2) :
    ∃ o, fdtw dist big w t1 t2 = some o ∧ fdtwOn dist big w rows0 t1 t2 = some o ∧ o.rows.length = t1.length := by
  rcases H with H | H
  · obtain ⟨S, rows, he, hbp, hhd, _, hlen, _⟩ := fdtw_spec dist big w t1 t2 h1 h2 H.1 H.2.1 H.2.2
    exact ⟨_, he, fdtwOn_of_fdtw dist big w rows0 t1 t2 hl h1 h2 _ he hbp hhd, hlen⟩
  · obtain ⟨S, rows, he, hbp, hhd, hlen, _⟩ := fdtw_struct dist big w t1 t2 h1 h2 H
    exact ⟨_, he, fdtwOn_of_fdtw dist big w rows0 t1 t2 hl h1 h2 _ he hbp hhd, hlen⟩

/-- the fast variant, once `_p2weight(p)` has returned `w`, on a `track1` that carries earlier feature rows -/
theorem warpW_fast_history (G : Geom α) (big : α) (w : α → α → α) (dim : DimArg α) (t1 t2 : List (Pt α)) (rows0 : List (Row α))
    (hl : rows0.length = t1.length) (h1 : 0 < t1.length) (h2 : 0 < t2.length)
    (H : ∀ dist, distanceOf G dim = .ok dist → FastOK big w dist t1 t2) :
    warpW G big true w dim { pts := t1, rows := rows0 } t2 = warpW G big true w dim (TrackObj.fresh t1) t2 := by
  unfold warpW
  simp only [TrackObj.fresh, if_true]
  cases hd : distanceOf G dim with
  | error e => rfl
  | ok dist =>
    simp only []
    obtain ⟨o, _, e1, _⟩ := fdtwOn_history dist big w rows0 t1 t2 hl h1 h2 (H dist hd)
    obtain ⟨o', _, e2, _⟩ := fdtwOn_history dist big w (freshRows t1) t1 t2 (by simp [freshRows]) h1 h2 (H dist hd)
    rw [e1, e2]
    have : o = o' := by
      have := ‹fdtw dist big w t1 t2 = some o›.symm.trans ‹fdtw dist big w t1 t2 = some o'›
      exact Option.some.inj this
    rw [this]

/-- the track the fast variant returns has one feature row per observation of track1 -/
theorem warpW_fast_rows_length (G : Geom α) (big : α) (w : α → α → α) (dim : DimArg α) (t1 t2 : List (Pt α))
    (h1 : 0 < t1.length) (h2 : 0 < t2.length)
    (H : ∀ dist, distanceOf G dim = .ok dist → FastOK big w dist t1 t2) (o : Out α)
    (h : warpW G big true w dim (TrackObj.fresh t1) t2 = .ok o) : o.rows.length = t1.length := by
  unfold warpW at h
  have hne : t1.isEmpty = false := by cases t1 with | nil => simp at h1 | cons _ _ => rfl
  have hne2 : t2.isEmpty = false := by cases t2 with | nil => simp at h2 | cons _ _ => rfl
  cases hd : distanceOf G dim with
  | error e =>
    rw [hd] at h
    simp [TrackObj.fresh, hne, hne2] at h
  | ok dist =>
    rw [hd] at h
    obtain ⟨o', _, e2, hlen⟩ := fdtwOn_history dist big w (freshRows t1) t1 t2 (by simp [freshRows]) h1 h2 (H dist hd)
    simp only [TrackObj.fresh, hne, hne2, Bool.false_eq_true, if_false, if_true, e2] at h
    cases h
    exact hlen

end fastW

section fastCall
variable {α : Type} [Add α] [Sub α] [Mul α] [Div α] [Neg α] [LinearOrder α] [OfNat α 0] [OfNat α 1] [OfScientific α]

/-- **the call is one the fast variant is good for**: whatever accumulation `_p2weight(_exponent(p))` returns and whatever point
distance `_distance(·, ·, dim)` is on this class of positions, the hypotheses of `fdtw_spec` — or, failing them, only `big` above every
partial coupling cost (`FastOK`) — hold on the two tracks (nothing is asked
of a call in which either fails: it raises before `_fdtw` runs) -/
def FastCallOK (pow : α → α → α) (G : Geom α) (big : α) (p : PArgX α) (dim : DimArg α) (t1 t2 : List (Pt α)) : Prop :=
  ∀ w dist, p2weightX pow p.exponent = .ok w → distanceOf G dim = .ok dist → FastOK big w dist t1 t2

/-- `matchCallX` in **every** mode on a track1 that carries earlier feature rows: same result as on a track1 without them — for
the mode FDTW (3) when the call is one the fast variant is good for -/
theorem matchCallX_history_all (pow : α → α → α) (G : Geom α) (big : α) (mode : Nat) (p : PArgX α) (dim : DimArg α)
    (t1 t2 : List (Pt α)) (rows0 : List (Row α)) (hl : rows0.length = t1.length) (h1 : 0 < t1.length) (h2 : 0 < t2.length)
    (hm : mode = 3 → FastCallOK pow G big p dim t1 t2) :
    matchCallX pow G big mode p dim { pts := t1, rows := rows0 } t2 = matchCallX pow G big mode p dim (TrackObj.fresh t1) t2 := by
  by_cases m3 : mode = 3
  · subst m3
    unfold matchCallX matchBodyX warpOnX
    simp only [show ¬ (3 = 1) by decide, show ¬ (3 = 4) by decide, show ¬ (3 = 2) by decide, if_false, if_true]
    cases hp : p2weightX pow p.exponent with
    | error e => rfl
    | ok w => exact warpW_fast_history G big w dim t1 t2 rows0 hl h1 h2 (fun dist hd => hm rfl w dist hp hd)
  · exact matchCallX_history pow G big mode m3 p dim t1 t2 rows0 hl h1 h2

/-- the same of `compareCallX` (mode FDTW = 107) -/
theorem compareCallX_history_all (pow : α → α → α) (G : Geom α) (root : Nat → α → α) (ofNat : Nat → α) (big : α) (mode : Nat)
    (p : PArgX α) (dim : DimArg α) (t1 t2 : List (Pt α)) (rows0 : List (Row α)) (hl : rows0.length = t1.length)
    (h1 : 0 < t1.length) (h2 : 0 < t2.length) (hm : mode = 107 → FastCallOK pow G big p dim t1 t2) :
    compareCallX pow G root ofNat big mode p dim { pts := t1, rows := rows0 } t2
      = compareCallX pow G root ofNat big mode p dim (TrackObj.fresh t1) t2 := by
  by_cases m7 : mode = 107
  · subst m7
    unfold compareCallX compareBodyX warpCompareX warpOnX
    simp only [show ¬ (107 = 101 ∨ 107 = 109 ∨ 107 = 102 ∨ 107 = 103 ∨ 107 = 104 ∨ 107 = 105) by decide,
      show ¬ (107 = 108) by decide, show ¬ (107 = 106) by decide, if_false, if_true]
    cases hp : p2weightX pow p.exponent with
    | error e => rfl
    | ok w =>
      simp only [bind, Except.bind]
      rw [warpW_fast_history G big w dim t1 t2 rows0 hl h1 h2 (fun dist hd => hm rfl w dist hp hd)]
  · exact compareCallX_history pow G root ofNat big mode m7 p dim t1 t2 rows0 hl h1 h2

/-- the track `matchCallX` returns has one feature row per observation of track1, in every mode -/
theorem matchCallX_rows_length_all (pow : α → α → α) (G : Geom α) (big : α) (mode : Nat) (p : PArgX α)
    (dim : DimArg α) (t1 t2 : List (Pt α)) (h1 : 0 < t1.length) (h2 : 0 < t2.length)
    (hm : mode = 3 → FastCallOK pow G big p dim t1 t2) (o : Out α)
    (h : matchCallX pow G big mode p dim (TrackObj.fresh t1) t2 = .ok o) : o.rows.length = t1.length := by
  by_cases m3 : mode = 3
  · subst m3
    unfold matchCallX matchBodyX warpOnX at h
    simp only [show ¬ (3 = 1) by decide, show ¬ (3 = 4) by decide, show ¬ (3 = 2) by decide, if_false, if_true] at h
    cases hp : p2weightX pow p.exponent with
    | error e => rw [hp] at h; cases h
    | ok w =>
      rw [hp] at h
      exact warpW_fast_rows_length G big w dim t1 t2 h1 h2 (fun dist hd => hm rfl w dist hp hd) o h
  · exact matchCallX_rows_length pow G big mode m3 p dim t1 t2 h1 h2 o h

omit [Sub α] [Div α] [Neg α] [OfScientific α] in
/-- whatever `_p2weight` returns is `A + B**x` for the value `x` of `p` (`A + (B != 0)` for 0, `max` for infinity), with `0 < x` for
an `x` that is not a natural number -/
theorem p2weightX_ok (pow : α → α → α) (p : PArgX α) (w : α → α → α) (h : p2weightX pow p = .ok w) :
    ∃ e : PExp α, w = weightX pow e ∧ (∀ x, e = .real x → 0 < x) := by
  have hacc : ∀ (v : PExp α) (w : α → α → α), accOf pow v = .ok w → ∃ e : PExp α, w = weightX pow e ∧ (∀ x, e = .real x → 0 < x) := by
    intro v w hv
    cases v with
    | norm n =>
      simp only [accOf] at hv
      cases hv
      exact ⟨.norm n, rfl, fun x hx => by cases hx⟩
    | real x =>
      simp only [accOf] at hv
      split at hv
      · cases hv
        rename_i hx
        exact ⟨.real x, rfl, fun y hy => by cases hy; exact hx⟩
      · cases hv
  have hnorm : ∀ n : PNorm, ∃ e : PExp α, weight (α := α) n = weightX pow e ∧ (∀ x, e = .real x → 0 < x) :=
    fun n => ⟨.norm n, rfl, fun x hx => by cases hx⟩
  unfold p2weightX at h
  by_cases hi : p.isInf = true
  · simp only [hi, if_true] at h
    cases h
    exact hnorm _
  · by_cases hz : p.isZero = true
    · simp only [hi, hz, if_true, if_false, Bool.false_eq_true] at h
      cases h
      exact hnorm _
    · by_cases hn : p.isNum = true
      · simp only [hi, hz, hn, if_true, if_false, Bool.false_eq_true] at h
        cases hv : p.val with
        | none => rw [hv] at h; cases h
        | some v => rw [hv] at h; exact hacc v w h
      · by_cases hf : p.isFn = true
        · simp only [hi, hz, hn, hf, if_true, if_false, Bool.false_eq_true] at h
          cases hv : p.fnw with
          | none => rw [hv] at h; cases h
          | some v => rw [hv] at h; exact hacc v w h
        · simp only [hi, hz, hn, hf, if_false, Bool.false_eq_true] at h
          cases h

end fastCall
end TV.DTW
