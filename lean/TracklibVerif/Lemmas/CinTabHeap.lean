import TracklibVerif.Lemmas.CinTabHoare
/-! Heap-level lemmas for `CinTab.World`: applying the same change to the observation objects of one track
(distinct references) and looking an object up afterwards. -/
namespace TV.CinTab
open TV.Features

variable {V : Type}

/-- apply `f` to the objects referenced by `ids`, one after the other -/
def updAll (f : WObs V → WObs V) (ids : List Nat) (h : List (WObs V)) : List (WObs V) :=
  ids.foldl (fun h id => h.modify id f) h

theorem updAll_length (f : WObs V → WObs V) : ∀ (ids : List Nat) (h : List (WObs V)), (updAll f ids h).length = h.length
  | [], _ => rfl
  | id :: ids, h => by
    show (updAll f ids (h.modify id f)).length = _
    rw [updAll_length f ids, List.length_modify]

theorem updAll_getElem?_not_mem (f : WObs V → WObs V) : ∀ (ids : List Nat) (h : List (WObs V)) (j : Nat),
    j ∉ ids → (updAll f ids h)[j]? = h[j]?
  | [], _, _, _ => rfl
  | id :: ids, h, j, hj => by
    show (updAll f ids (h.modify id f))[j]? = _
    rw [updAll_getElem?_not_mem f ids _ j (fun hm => hj (List.mem_cons_of_mem _ hm)),
      List.getElem?_modify_ne f h (fun e => hj (by rw [e]; exact List.mem_cons_self))]

theorem updAll_getElem?_mem (f : WObs V → WObs V) : ∀ (ids : List Nat) (h : List (WObs V)) (j : Nat),
    ids.Nodup → j ∈ ids → (updAll f ids h)[j]? = (h[j]?).map f
  | id :: ids, h, j, hnd, hj => by
    obtain ⟨hnot, hnd'⟩ := List.nodup_cons.mp hnd
    show (updAll f ids (h.modify id f))[j]? = _
    rcases List.mem_cons.mp hj with rfl | hj'
    · rw [updAll_getElem?_not_mem f ids _ j hnot, List.getElem?_modify_eq]; rfl
    · have hne : id ≠ j := fun e => hnot (e ▸ hj')
      rw [updAll_getElem?_mem f ids _ j hnd' hj', List.getElem?_modify_ne f h hne]

theorem appendScalar_eq (v : V) (ids : List Nat) (h : List (WObs V)) :
    appendScalar v ids h = updAll (fun ob => { ob with feats := ob.feats ++ [v] }) ids h := rfl

theorem set_eq_modify (h : List (WObs V)) (id : Nat) (ob : WObs V) (f : WObs V → WObs V) (hob : h[id]? = some ob) :
    h.set id (f ob) = h.modify id f := by
  apply List.ext_getElem?
  intro j
  rw [List.getElem?_set, List.getElem?_modify]
  have hlt : id < h.length := by
    rcases Nat.lt_or_ge id h.length with hl | hl
    · exact hl
    · rw [List.getElem?_eq_none hl] at hob; cases hob
  by_cases hj : id = j
  · subst hj
    have e : h[id] = ob := by
      have := List.getElem?_eq_getElem hlt
      rw [hob] at this
      exact (Option.some.inj this).symm
    simp [hlt, e]
  · simp [hj]

/-- `for i in range(size): del getObs(i).features[idx]` succeeds when every object carries the slot -/
theorem delSlots_ok (idx : Nat) : ∀ (ids : List Nat) (h : List (WObs V)), ids.Nodup →
    (∀ id ∈ ids, ∃ ob, h[id]? = some ob ∧ idx < ob.feats.length) →
    delSlots idx ids h = (.ok (), updAll (fun ob => { ob with feats := ob.feats.eraseIdx idx }) ids h)
  | [], _, _, _ => rfl
  | id :: ids, h, hnd, hall => by
    obtain ⟨hnot, hnd'⟩ := List.nodup_cons.mp hnd
    obtain ⟨ob, hob, hlt⟩ := hall id List.mem_cons_self
    unfold delSlots
    simp only [hob, hlt, if_true]
    rw [set_eq_modify h id ob (fun ob => { ob with feats := ob.feats.eraseIdx idx }) hob]
    rw [delSlots_ok idx ids _ hnd' (fun j hj => by
      obtain ⟨ob', hob', hlt'⟩ := hall j (List.mem_cons_of_mem _ hj)
      have hne : id ≠ j := fun e => hnot (e ▸ hj)
      exact ⟨ob', by rw [List.getElem?_modify_ne _ h hne]; exact hob', hlt'⟩)]
    rfl

end TV.CinTab
