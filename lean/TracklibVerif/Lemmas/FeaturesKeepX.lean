import TracklibVerif.Lemmas.FeaturesKeep
import TracklibVerif.Lemmas.FeaturesResult
import TracklibVerif.Lemmas.FeaturesEval
/-! "The deleting calls delete only what they are meant to delete": `KX n X P m ma` = the code's table `m` and the
specification table `ma` simulate each other (`Sim`) and, started on an aligned table of `n` observations, running them
unlists no name outside `X`, whether they return or raise. For `operate(str)` `X` = the `#` names (and the reserved
names, which are never listed by the API); for `computeAbsCurv` `X` = `ds`. The one place where a user's name leaves the
listing for a moment is the re-assignment `a = <feature>` of `__applyOperation` (get / remove / create): `kx_reassign`
shows the create that follows the remove cannot fail on a non-empty track. -/
set_option linter.unusedSectionVars false
namespace TV.Features
variable {V : Type} [Inhabited V] {n : Nat}
open Tbl

def KX {α : Type} (n : Nat) (X : String → Prop) (P : α → Prop) (m : M (St V) α) (ma : M (ATab V) α) : Prop :=
  Sim n P m ma ∧ ∀ st, Inv n st → ∀ nm, (lookup (abs st).cols nm).isSome = true → ¬ X nm →
    (lookup (ma (abs st)).2.cols nm).isSome = true

section combinators
variable {α β : Type} {X : String → Prop}

theorem kx_of {P : α → Prop} {m : M (St V) α} {ma : M (ATab V) α} (hs : Sim n P m ma) (hk : Keeps ma) :
    KX n X P m ma := ⟨hs, fun st _ nm hl _ => hk (abs st) nm hl⟩

theorem kx_bind {P : α → Prop} {Q : β → Prop} {m : M (St V) α} {ma : M (ATab V) α}
    {f : α → M (St V) β} {fa : α → M (ATab V) β}
    (h1 : KX n X P m ma) (h2 : ∀ x, P x → KX n X Q (f x) (fa x)) : KX n X Q (m >>= f) (ma >>= fa) := by
  refine ⟨sim_bind h1.1 (fun x hx => (h2 x hx).1), ?_⟩
  intro st hinv nm hl hx
  obtain ⟨i1, e1, p1⟩ := h1.1 st hinv
  have k1 := h1.2 st hinv nm hl hx
  show (lookup (M.bind ma fa (abs st)).2.cols nm).isSome = true
  unfold M.bind
  rw [e1] at k1 ⊢
  cases hm : m st with
  | mk r st1 =>
    rw [hm] at i1 p1 k1
    cases r with
    | error e => exact k1
    | ok x => exact (h2 x (p1 x rfl)).2 st1 i1 nm k1 hx

theorem kx_ite {P : α → Prop} (c : Prop) [Decidable c] {a b : M (St V) α} {aa ba : M (ATab V) α}
    (h1 : KX n X P a aa) (h2 : KX n X P b ba) : KX n X P (if c then a else b) (if c then aa else ba) := by
  split <;> assumption

theorem kx_iteH {P : α → Prop} (c : Prop) [Decidable c] {a b : M (St V) α} {aa ba : M (ATab V) α}
    (h1 : c → KX n X P a aa) (h2 : ¬ c → KX n X P b ba) : KX n X P (if c then a else b) (if c then aa else ba) := by
  split
  · exact h1 (by assumption)
  · exact h2 (by assumption)

theorem kx_forEach (l : List α) {f : α → M (St V) Unit} {fa : α → M (ATab V) Unit}
    (h : ∀ a, a ∈ l → KX n X (fun _ => True) (f a) (fa a)) :
    KX n X (fun _ => True) (M.forEach l f) (M.forEach l fa) := by
  induction l with
  | nil => exact kx_of (sim_pure () trivial) (keeps_pure ())
  | cons a t ih =>
    unfold M.forEach
    exact kx_bind (h a (by simp)) (fun _ _ => ih (fun b hb => h b (by simp [hb])))

theorem kx_tryFinally {P : α → Prop} {m : M (St V) α} {ma : M (ATab V) α}
    {fin : M (St V) Unit} {fina : M (ATab V) Unit}
    (h1 : KX n X P m ma) (h2 : KX n X (fun _ => True) fin fina) :
    KX n X P (M.tryFinally m fin) (M.tryFinally ma fina) := by
  refine ⟨sim_tryFinally h1.1 h2.1, ?_⟩
  intro st hinv nm hl hx
  obtain ⟨i1, e1, _⟩ := h1.1 st hinv
  have k1 := h1.2 st hinv nm hl hx
  rw [tryFinally_snd]
  rw [e1] at k1 ⊢
  exact h2.2 (m st).2 i1 nm k1 hx

end combinators

/-- removing a name of `X` -/
theorem kx_remove {X : String → Prop} (nm : String) (hX : X nm) :
    KX (V := V) n X (fun _ => True) (removeC nm) (removeA nm) := by
  refine ⟨sim_remove nm, ?_⟩
  intro st _ m hl hx
  have hne : m ≠ nm := fun e => hx (e ▸ hX)
  unfold removeA
  split
  · exact hl
  · split
    · exact hl
    · show (lookup ((abs st).cols.filter _) m).isSome = true
      rw [lookup_filter_ne _ _ _ hne]; exact hl

/-- the names `operate(str)` may unlist: `#` names; reserved names are never listed by the API -/
def hashOrReserved (m : String) : Prop := isHash m = true ∨ reserved m = true

/-- `self.removeAnalyticalFeature(op1); self.createAnalyticalFeature(op1, af)` with `af` a full column, on a non-empty
track: `op1` is listed again, nothing else leaves -/
theorem kx_reassign (hn : n ≠ 0) (s1 : String) (af : List V) (haf : af.length = n) :
    KX n hashOrReserved (fun _ => True) (removeC s1 >>= fun _ => createC s1 (.list af))
      (removeA s1 >>= fun _ => createA s1 (.list af)) := by
  refine ⟨sim_bind (sim_remove s1) (fun _ _ => sim_create s1 (.list af)), ?_⟩
  intro st hinv m hl hx
  have hA := ainv_abs hinv
  by_cases hm : m = s1
  · subst hm
    have hr : reserved m = false := by
      cases h : reserved m with
      | false => rfl
      | true => exact absurd (Or.inr h) hx
    show (lookup (M.bind (removeA m) (fun _ => createA m (.list af)) (abs st)).2.cols m).isSome = true
    unfold M.bind
    rw [removeA_ok _ _ hl]
    simp only
    have hsz : ({ (abs st) with cols := (abs st).cols.filter (fun p => !(p.1 == m)) } : ATab V).size = n := hA.size
    rw [createA_new _ m (.list af) hr (by rw [hsz]; exact hn) (lookup_filter_self _ _) (by simp only [hsz, haf]; exact Nat.le_refl _)]
    simp only
    rw [lookup_append_new _ _ _ _ (lookup_filter_self _ _)]
    simp
  · have h := kx_bind (n := n) (X := fun x => x = s1) (kx_remove (V := V) s1 rfl)
      (fun _ _ => kx_of (sim_create s1 (.list af)) (keeps_create s1 (.list af)))
    exact h.2 st hinv m hl hm

/-! ### the evaluator: everything but `=` keeps the listing -/

theorem keeps_hasSV (sv : SV V) : Keeps (hasSV (σ := ATab V) sv) := by
  cases sv <;> (unfold hasSV; keeps_auto)
macro_rules | `(tactic| keeps_leaf) => `(tactic| with_reducible_and_instances exact keeps_hasSV _)

theorem keeps_toFloat (o : Ops V) (sv : SV V) : Keeps (toFloat (σ := ATab V) o sv) := by
  cases sv with
  | tok s => unfold toFloat; simp only; cases o.parse s <;> keeps_auto
  | num v => unfold toFloat; keeps_auto
  | none => unfold toFloat; keeps_auto
macro_rules | `(tactic| keeps_leaf) => `(tactic| with_reducible_and_instances exact keeps_toFloat _ _)

theorem keeps_isFloat (o : Ops V) (sv : SV V) : Keeps (isFloat (σ := ATab V) o sv) := by
  cases sv <;> (unfold isFloat; keeps_auto)
macro_rules | `(tactic| keeps_leaf) => `(tactic| with_reducible_and_instances exact keeps_isFloat _ _)

theorem keeps_setCoordFromAF (o : Ops V) (c nm : String) : Keeps (setCoordFromAF (σ := ATab V) o c nm) := by
  unfold setCoordFromAF
  keeps_auto

macro_rules | `(tactic| keeps_leaf) => `(tactic| with_reducible_and_instances first
  | exact keeps_runVFn _ _ _ _
  | exact keeps_aggOp _ _ _
  | exact keeps_binaryVoid _ _ _ _ _
  | exact keeps_scalarKind _ _ _ _ _
  | exact keeps_setCoordFromAF _ _ _)

theorem keeps_funcOp (o : Ops V) (op1 op2 : SV V) (out : String) : Keeps (funcOp (σ := ATab V) o op1 op2 out) := by
  unfold funcOp
  cases op1 with
  | tok f =>
    simp only
    cases vfn? f with
    | some vf => cases op2 <;> simp only <;> keeps_auto
    | none =>
      simp only
      refine keeps_ite _ ?_ ?_
      · cases op2 <;> simp only <;> keeps_auto
      · keeps_auto
  | num v => keeps_auto
  | none => keeps_auto
macro_rules | `(tactic| keeps_leaf) => `(tactic| with_reducible_and_instances exact keeps_funcOp _ _ _ _)

theorem keeps_dispatchOp (o : Ops V) (op1 op2 : SV V) (operator : String) (k : Nat) :
    Keeps (dispatchOp (σ := ATab V) o op1 op2 operator k) := by
  unfold dispatchOp
  refine keeps_ite _ ?_ ?_
  · keeps_auto
  refine keeps_bind (keeps_hasSV op1) (fun a1 => ?_)
  refine keeps_bind (keeps_hasSV op2) (fun a2 => ?_)
  cases a1 <;> cases a2 <;> cases op1 <;> cases op2 <;> simp only <;>
    first
    | keeps_leaf
    | (cases bKind? operator with
       | none => keeps_auto
       | some b => cases b <;> simp only <;> keeps_auto)
    | (cases sKind? operator <;> simp only <;> keeps_auto)
    | (cases srKind? operator <;> simp only <;> keeps_auto)
macro_rules | `(tactic| keeps_leaf) => `(tactic| with_reducible_and_instances exact keeps_dispatchOp _ _ _ _ _)

theorem keeps_arithOp (o : Ops V) (operator : String) (op1 op2 : SV V) (k : Nat) :
    Keeps (arithOp (σ := ATab V) o operator op1 op2 k) := by
  unfold arithOp
  refine keeps_bind (keeps_isFloat o op1) (fun f1 => ?_)
  refine keeps_bind ?_ (fun f2 => ?_)
  · keeps_auto
  refine keeps_ite _ ?_ ?_
  · refine keeps_bind (keeps_toFloat o op1) (fun a => ?_)
    refine keeps_bind (keeps_toFloat o op2) (fun c => ?_)
    cases litOp o operator a c <;> simp only <;> keeps_auto
  · keeps_auto

/-! ### the assignment, the stack machine, the purge -/

/-- `kx_of` for a branch whose two sides are closed by the automation -/
syntax "kx_leaf" : tactic
macro_rules | `(tactic| kx_leaf) => `(tactic| exact kx_of (by sim_auto) (by keeps_auto))

theorem kx_assignOp (hn : n ≠ 0) (o : Ops V) (op1 op2 : SV V) :
    KX n hashOrReserved (fun _ => True) (assignOp (σ := St V) o op1 op2) (assignOp (σ := ATab V) o op1 op2) := by
  unfold assignOp
  refine kx_bind (kx_of (sim_hasSV op2) (keeps_hasSV op2)) (fun b2 _ => ?_)
  refine kx_ite _ ?_ ?_
  · cases op2 with
    | tok s2 =>
      simp only
      refine kx_bind (kx_of (sim_hasSV op1) (keeps_hasSV op1)) (fun b1 _ => ?_)
      refine kx_ite _ ?_ ?_
      · cases op1 with
        | tok s1 =>
          simp only
          refine kx_ite _ ?_ ?_
          · refine kx_bind (kx_of (sim_setCoordFromAF o s1 s2) (keeps_setCoordFromAF o s1 s2)) (fun _ _ => ?_)
            exact kx_iteH _ (fun hh => kx_remove s2 (Or.inl hh)) (fun _ => kx_of (sim_pure _ trivial) (keeps_pure _))
          · refine kx_bind (kx_of (sim_get o s2) (keeps_get o s2)) (fun af haf => ?_)
            exact kx_reassign hn s1 af haf
        | num v => kx_leaf
        | none => kx_leaf
      · refine kx_bind (kx_of (sim_get o s2) (keeps_get o s2)) (fun af haf => ?_)
        cases op1 with
        | tok s1 => exact kx_of (sim_create s1 (.list af)) (keeps_create s1 (.list af))
        | num v => kx_leaf
        | none => kx_leaf
    | num v => kx_leaf
    | none => kx_leaf
  · cases coordTarget op1 with
    | some c => simp only; kx_leaf
    | none =>
      simp only
      refine kx_bind (kx_of (sim_hasSV op1) (keeps_hasSV op1)) (fun b1 _ => ?_)
      refine kx_ite _ ?_ ?_
      · refine kx_bind (kx_of (sim_toFloat o op2) (keeps_toFloat o op2)) (fun v _ => ?_)
        cases op1 <;> kx_leaf
      · refine kx_bind (kx_of (sim_toFloat o op2) (keeps_toFloat o op2)) (fun v _ => ?_)
        cases op1 <;> kx_leaf

theorem kx_applyOperation (hn : n ≠ 0) (o : Ops V) (op1 op2 : SV V) (operator : String) (k : Nat) :
    KX n hashOrReserved (fun _ => True) (applyOperation (σ := St V) o op1 op2 operator k)
      (applyOperation (σ := ATab V) o op1 op2 operator k) := by
  unfold applyOperation
  refine kx_ite _ ?_ ?_
  · exact kx_bind (kx_assignOp hn o op1 op2) (fun _ _ => kx_of (sim_pure _ trivial) (keeps_pure _))
  · exact kx_of (sim_arithOp o operator op1 op2 k) (keeps_arithOp o operator op1 op2 k)

theorem kx_evaluateRPN (hn : n ≠ 0) (o : Ops V) (rpn : List String) (stack : List (SV V)) (k : Nat) :
    KX n hashOrReserved (fun _ => True) (evaluateRPN (σ := St V) o rpn stack k)
      (evaluateRPN (σ := ATab V) o rpn stack k) := by
  induction rpn generalizing stack k with
  | nil => unfold evaluateRPN; exact kx_of (sim_pure _ trivial) (keeps_pure _)
  | cons e rest ih =>
    unfold evaluateRPN
    refine kx_ite _ ?_ (ih _ _)
    match stack with
    | [] => exact kx_of (sim_throw _) (keeps_throw _)
    | [_] => exact kx_of (sim_throw _) (keeps_throw _)
    | op2 :: op1 :: stack' =>
      simp only
      exact kx_bind (kx_applyOperation hn o op1 op2 e k) (fun r _ => ih _ _)

theorem kx_evaluate (hn : n ≠ 0) (o : Ops V) (rpn : List String) :
    KX n hashOrReserved (fun _ => True) (evaluate (σ := St V) o rpn) (evaluate (σ := ATab V) o rpn) := by
  have hout : isHash "#output" = true := by decide +kernel
  unfold evaluate
  simp only
  refine kx_ite _ ?_ ?_
  · exact kx_bind (kx_evaluateRPN hn o rpn [] 0) (fun _ _ => kx_of (sim_pure _ trivial) (keeps_pure _))
  · refine kx_bind (kx_evaluateRPN hn o _ [] 0) (fun _ _ => ?_)
    refine kx_bind (kx_of (sim_get o _) (keeps_get o _)) (fun out _ => ?_)
    exact kx_bind (kx_remove "#output" (Or.inl hout)) (fun _ _ => kx_of (sim_pure _ trivial) (keeps_pure _))

theorem kx_purge : KX n hashOrReserved (fun _ => True) (purge (σ := St V)) (purge (σ := ATab V)) := by
  unfold purge
  refine kx_bind (kx_of sim_names keeps_names) (fun l _ => ?_)
  refine kx_forEach _ (fun af _ => ?_)
  exact kx_iteH _ (fun hh => kx_remove af (Or.inl hh)) (fun _ => kx_of (sim_pure _ trivial) (keeps_pure _))

/-- `operate(str)`, returning or raising, on a non-empty aligned table: only `#` names (and reserved names, never listed
by the API) can leave the listing -/
theorem kx_operateStr (hn : n ≠ 0) (o : Ops V) (rpn : List String) :
    KX n hashOrReserved (fun _ => True) (operateStr (σ := St V) o rpn) (operateStr (σ := ATab V) o rpn) := by
  unfold operateStr
  exact kx_tryFinally (kx_evaluate hn o rpn) kx_purge

/-- `computeAbsCurv`: only `ds` can leave the listing -/
theorem kx_absCurvOp (o : Ops V) :
    KX n (· = "ds") (fun _ => True) (absCurvOp (σ := St V) o) (absCurvOp (σ := ATab V) o) := by
  unfold absCurvOp
  refine kx_bind (kx_of (sim_has _) (keeps_has _)) (fun h1 _ => ?_)
  refine kx_bind (P := fun _ => True) (kx_of (by sim_auto) ?_) (fun _ _ => ?_)
  · refine keeps_ite _ (keeps_pure _) (keeps_bind (keeps_addAF o _ _) (fun _ => keeps_pure _))
  refine kx_bind (kx_of (sim_has _) (keeps_has _)) (fun h2 _ => ?_)
  refine kx_bind (P := fun _ => True) (kx_of (by sim_auto) ?_) (fun _ _ => ?_)
  · refine keeps_ite _ (keeps_pure _) (keeps_bind (keeps_unaryVoid o _ _ _) (fun _ => keeps_pure _))
  refine kx_bind (kx_remove "ds" rfl) (fun _ _ => ?_)
  exact kx_of (sim_weaken (sim_get o _) (fun _ _ => trivial)) (keeps_get o _)

/-! ### every call form -/

theorem kx_mono {α : Type} {X Y : String → Prop} {P : α → Prop} {m : M (St V) α} {ma : M (ATab V) α}
    (h : KX n X P m ma) (hxy : ∀ nm, X nm → Y nm) : KX n Y P m ma :=
  ⟨h.1, fun st hi nm hl hy => h.2 st hi nm hl (fun hx => hy (hxy nm hx))⟩

/-- the names one API call may unlist: the argument of `removeAnalyticalFeature`, `ds` for `computeAbsCurv`, the `#`
names for `operate(str)` (reserved names are never listed by the API); nothing for any other call -/
def mayUnlist : Op V → String → Prop
  | .remove nm, m => m = nm
  | .absCurv, m => m = "ds"
  | .expr _, m => hashOrReserved m
  | _, _ => False

theorem kx_step (hn : n ≠ 0) (o : Ops V) (op : Op V) :
    KX n (mayUnlist op) (fun _ => True) (step (σ := St V) o op) (step (σ := ATab V) o op) := by
  cases hd : deletes op with
  | false => exact kx_of (sim_step o op) (keeps_step o op hd)
  | true =>
    cases op with
    | remove nm =>
      unfold step
      exact kx_bind (kx_remove nm rfl) (fun _ _ => kx_of (sim_pure _ trivial) (keeps_pure _))
    | absCurv =>
      unfold step
      exact kx_bind (kx_absCurvOp o) (fun _ _ => kx_of (sim_pure _ trivial) (keeps_pure _))
    | expr rpn => unfold step; exact kx_operateStr hn o rpn
    | _ => cases hd

theorem kx_stepList (hn : n ≠ 0) (o : Ops V) (ops : List (Op V)) :
    KX n (fun m => ∃ op ∈ ops, mayUnlist op m) (fun _ => True) (stepList (σ := St V) o ops)
      (stepList (σ := ATab V) o ops) := by
  induction ops with
  | nil => exact kx_of (sim_pure _ trivial) (keeps_pure _)
  | cons op rest ih =>
    unfold stepList
    refine kx_bind (kx_mono (kx_step hn o op) (fun nm h => ⟨op, by simp, h⟩)) (fun _ _ => ?_)
    exact kx_mono ih (fun nm ⟨op', h1, h2⟩ => ⟨op', by simp [h1], h2⟩)

/-- the names a call in any form may unlist -/
def Call.mayUnlist : Call V → String → Prop
  | .one op, m => Features.mayUnlist op m
  | .list ops, m => ∃ op ∈ ops, Features.mayUnlist op m
  | .refused, _ => False

theorem kx_call (hn : n ≠ 0) (o : Ops V) (c : Call V) :
    KX n c.mayUnlist (fun _ => True) (call (σ := St V) o c) (call (σ := ATab V) o c) := by
  cases c with
  | one op => exact kx_step hn o op
  | list ops => exact kx_stepList hn o ops
  | refused => exact kx_of (sim_throw _) (keeps_throw _)

end TV.Features
