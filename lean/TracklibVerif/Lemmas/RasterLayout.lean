import TracklibVerif.Model.RasterLayout
import TracklibVerif.Lemmas.Features
/-! Helper lemmas for C19 about the feature table of a track (`Model/RasterLayout.lean`):

* `addColl` depends on the tracks only through their positions and the view "feature name ↦ values" (`featVals`);
* the script that builds the features of a track, run on the concrete table (dictionary of ranks + `Obs.features`),
  is simulated by the same script on the table by name (the refinement proved for C01, `Lemmas/Features.lean`), so
  the view by name of the track the driver builds does not depend on the ranks. -/
set_option linter.unusedSectionVars false
namespace TV.Raster
open TV.Features

section congr
variable {α : Type} [Add α] [Sub α] [Mul α] [Div α] [OfNat α 0] [OfNat α 1] [OfNat α 2] [IntCast α] [NatCast α]
  [LT α] [DecidableLT α] [LE α] [DecidableLE α] [BEq α]

/-- two tracks seen alike by the raster for the features `afs`: same positions, same values by name -/
def SameByName (afs : List String) (t t' : Trk α) : Prop :=
  t.pts = t'.pts ∧ ∀ af ∈ afs, featVals t af = featVals t' af

/-- two collections seen alike, track by track -/
inductive SameColl (afs : List String) : List (Trk α) → List (Trk α) → Prop
  | nil : SameColl afs [] []
  | cons {t t' : Trk α} {ts ts' : List (Trk α)} : SameByName afs t t' → SameColl afs ts ts' → SameColl afs (t :: ts) (t' :: ts')

theorem growE_congr (floor : α → Int) (g : Grid α) (t t' : Trk α) (e : String × Cells (Option α))
    (hp : t.pts = t'.pts) (hf : featVals t e.1 = featVals t' e.1) : growE floor g t e = growE floor g t' e := by
  unfold growE obsOf
  rw [hf, hp]

theorem addTrack_keys (floor : α → Int) (g : Grid α) (t : Trk α) : ∀ V : Vals α,
    (addTrack floor g t V).1.map Prod.fst = V.map Prod.fst := by
  intro V
  induction V with
  | nil => rfl
  | cons e rest ih =>
    have hk : (growE floor g t e).1.1 = e.1 := by
      unfold growE
      cases featVals t e.1 <;> rfl
    unfold addTrack
    cases hg : growE floor g t e with
    | mk e' r =>
      rw [hg] at hk
      have hk' : e'.1 = e.1 := hk
      cases r with
      | some x => simp [hk']
      | none => simp [hk', ih]

theorem addTrack_congr (floor : α → Int) (g : Grid α) (t t' : Trk α) (hp : t.pts = t'.pts) : ∀ V : Vals α,
    (∀ e ∈ V, featVals t e.1 = featVals t' e.1) → addTrack floor g t V = addTrack floor g t' V := by
  intro V
  induction V with
  | nil => intro _; rfl
  | cons e rest ih =>
    intro h
    unfold addTrack
    rw [growE_congr floor g t t' e hp (h e (by simp)), ih (fun e' he' => h e' (by simp [he']))]

theorem addTracks_congr (floor : α → Int) (g : Grid α) (afs : List String) : ∀ (ts ts' : List (Trk α)) (V : Vals α),
    SameColl afs ts ts' → (∀ k ∈ V.map Prod.fst, k ∈ afs) →
    addTracks floor g ts V = addTracks floor g ts' V := by
  intro ts ts' V h
  induction h generalizing V with
  | nil => intro _; rfl
  | @cons t t' ts ts' hd _ ih =>
    intro hV
    unfold addTracks
    have h1 : addTrack floor g t V = addTrack floor g t' V :=
      addTrack_congr floor g t t' hd.1 V (fun e he => hd.2 e.1 (hV e.1 (List.mem_map_of_mem he)))
    rw [← h1]
    cases hr : addTrack floor g t V with
    | mk V' r =>
      cases r with
      | some x => rfl
      | none =>
        have hk := addTrack_keys floor g t V
        rw [hr] at hk
        exact ih V' (by rw [hk]; exact hV)

theorem any_missing_congr (afs : List String) : ∀ (ts ts' : List (Trk α)), SameColl afs ts ts' →
    ts.any (fun t => afs.any (fun af => (featVals t af).isNone)) = ts'.any (fun t => afs.any (fun af => (featVals t af).isNone)) := by
  intro ts ts' h
  induction h with
  | nil => rfl
  | @cons t t' ts ts' hd _ ih =>
    have aux : ∀ l : List String, (∀ af ∈ l, af ∈ afs) →
        l.any (fun af => (featVals t af).isNone) = l.any (fun af => (featVals t' af).isNone) := by
      intro l
      induction l with
      | nil => intro _; rfl
      | cons a r ih2 =>
        intro hl
        simp only [List.any_cons]
        rw [hd.2 a (hl a (by simp)), ih2 (fun b hb => hl b (by simp [hb]))]
    have := aux afs (fun _ h => h)
    simp only [List.any_cons, this, ih]

/-- `addCollectionToRaster` sees a collection only through the positions of its tracks and their values by name for
    the features of the bands -/
theorem addColl_congr (floor : α → Int) (s : RState α) (afo : List String) (ts ts' : List (Trk α))
    (h : SameColl afo ts ts') : addColl floor s afo ts = addColl floor s afo ts' := by
  have h2 := addTracks_congr floor s.g afo ts ts' (afo.map (fun af => (af, emptyCells s.g.nrow.toNat s.g.ncol.toNat))) h
    (by intro k hk; simpa [List.map_map, Function.comp_def] using hk)
  unfold addColl
  simp only [any_missing_congr afo ts ts' h, h2]

end congr

section table
variable {α : Type}

/-- the script on the table by name (the specification table of C01): no rank anywhere -/
def LStep.runA : LStep α → M (ATab (Option α)) Unit
  | .create n vs => createA n (.list vs)
  | .remove n => removeA n
  | .write n vs => M.forEach vs.zipIdx (fun p => setObsA n p.2 p.1)

def runScriptA (steps : List (LStep α)) : M (ATab (Option α)) Unit := M.forEach steps LStep.runA

theorem sim_lstep (n : Nat) (s : LStep α) : Sim n (fun _ => True) s.run s.runA := by
  cases s with
  | create nm vs => exact sim_create nm (.list vs)
  | remove nm => exact sim_remove nm
  | write nm vs => exact sim_forEach _ (fun p _ => sim_setObs nm p.2 p.1)

theorem sim_script (n : Nat) (steps : List (LStep α)) : Sim n (fun _ => True) (runScript steps) (runScriptA steps) :=
  sim_forEach _ (fun s _ => sim_lstep n s)

theorem inv_tab0 (pts : List (α × α)) : Inv pts.length (tab0 pts) where
  enum := rfl
  nodup := List.nodup_nil
  rows := by intro r hr; simp [tab0] at hr; simp [tab0, hr]
  size := by simp [tab0]
  xs := by simp [tab0]
  ys := by simp [tab0]
  zs := by simp [tab0]
  ts := by simp [tab0]

theorem featsOfTab_abs (st : St (Option α)) : featsOfTab st = (abs st).cols := rfl

theorem list_lookup_eq (cols : List (String × List (Option α))) (af : String) :
    cols.lookup af = Features.lookup cols af := by
  induction cols with
  | nil => rfl
  | cons p rest ih =>
    obtain ⟨k, v⟩ := p
    unfold Features.lookup at ih ⊢
    by_cases h : af = k
    · subst h; simp [List.lookup, List.find?]
    · have h' : (k == af) = false := by simpa using fun hh => h hh.symm
      have h'' : (af == k) = false := by simpa using h
      simp [List.lookup, List.find?, h', h'', ih]

end table
end TV.Raster
