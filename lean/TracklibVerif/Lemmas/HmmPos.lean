import TracklibVerif.Lemmas.Hmm
/-! Lemmas about what `HMM.estimate` does to the POSITIONS of the track (`Model/Hmm.lean`: `pos`, `xyz`, the names
`x`, `y`, `z` as observations) and about what `S` may return (`SRet`, `estimateS`).

The position of an epoch is a reference: the track's own `Coords` object or a state object BOUND there by a decoding in
mode 3, 4, 5. `estimate` only rebinds; the coordinates of the track's own objects (`xyz`) and of the state objects
(`Num.stXYZ`, a constant) have no writer. -/
namespace TV.Hmm
open TV.Viterbi
variable {α : Type}

/-- the position-writing modes: MODE_OBS_AND_STATES_AS_2D_POSITIONS, …_3D_POSITIONS, MODE_STATES_AS_2D_POSITIONS -/
def PosMode (mode : Nat) : Prop := mode = 3 ∨ mode = 4 ∨ mode = 5

/-! ### frame: the feature-table primitives do not touch positions -/

theorem setObs_frame (tr tr' : Trk α) (name : String) (i : Nat) (v : Cell α) (h : tr.setObs name i v = .ok tr') :
    tr'.pos = tr.pos ∧ tr'.xyz = tr.xyz := by
  unfold Trk.setObs at h
  split at h
  · cases h
  · split at h
    · cases h
    · split at h
      · injection h with h; subst h; exact ⟨rfl, rfl⟩
      · cases h

theorem create_frame (tr tr' : Trk α) (name : String) (init : Cell α) (h : tr.create name init = .ok tr') :
    tr'.pos = tr.pos ∧ tr'.xyz = tr.xyz := by
  unfold Trk.create at h
  split at h
  · cases h
  · split at h
    · cases h
    · split at h
      · injection h with h; subst h; exact ⟨rfl, rfl⟩
      · injection h with h; subst h; exact ⟨rfl, rfl⟩

theorem posStep_xyz (tr : Trk α) (mode k s : Nat) : (tr.posStep mode k s).xyz = tr.xyz := by
  unfold Trk.posStep; split <;> rfl

theorem posStep_pos (tr : Trk α) (mode k s : Nat) (hm : PosMode mode) :
    (tr.posStep mode k s).pos = tr.pos.set k (some s) := by
  unfold Trk.posStep PosMode at *; simp [hm, Trk.setPos]

theorem posStep_pos_not (tr : Trk α) (mode k s : Nat) (hm : ¬ PosMode mode) : (tr.posStep mode k s).pos = tr.pos := by
  unfold Trk.posStep PosMode at *; simp [hm]

theorem posStep_pos_length (tr : Trk α) (mode k s : Nat) : (tr.posStep mode k s).pos.length = tr.pos.length := by
  unfold Trk.posStep; split <;> simp [Trk.setPos]

theorem posStep_pos_ne (tr : Trk α) (mode k s j : Nat) (hj : k ≠ j) : (tr.posStep mode k s).pos[j]? = tr.pos[j]? := by
  unfold Trk.posStep; split
  · simp [Trk.setPos, List.getElem?_set_ne hj]
  · rfl

/-! ### the backward loop, whatever the columns -/

/-- the coordinates of the track's own position objects are never written -/
theorem writeBack_xyz (mode : Nat) (STATES : List (List Nat)) :
    ∀ (cols : List (List α × List Nat)) (idk : Nat) (tr : Trk α), (writeBack mode STATES cols idk tr).1.xyz = tr.xyz
  | [], _, _ => rfl
  | c :: rest, idk, tr => by
    simp only [writeBack]
    split
    · split
      · rfl
      · next tr1 e1 =>
        split
        · exact (setObs_frame _ _ _ _ _ e1).2
        · next tr2 e2 =>
          rw [writeBack_xyz mode STATES rest, posStep_xyz, (setObs_frame _ _ _ _ _ e2).2, (setObs_frame _ _ _ _ _ e1).2]
    · rfl

theorem writeBack_pos_length (mode : Nat) (STATES : List (List Nat)) :
    ∀ (cols : List (List α × List Nat)) (idk : Nat) (tr : Trk α),
      (writeBack mode STATES cols idk tr).1.pos.length = tr.pos.length
  | [], _, _ => rfl
  | c :: rest, idk, tr => by
    simp only [writeBack]
    split
    · split
      · rfl
      · next tr1 e1 =>
        split
        · rw [(setObs_frame _ _ _ _ _ e1).1]
        · next tr2 e2 =>
          rw [writeBack_pos_length mode STATES rest, posStep_pos_length, (setObs_frame _ _ _ _ _ e2).1,
            (setObs_frame _ _ _ _ _ e1).1]
    · rfl

/-- outside the modes 3, 4, 5 no position is rebound -/
theorem writeBack_pos_not (mode : Nat) (hm : ¬ PosMode mode) (STATES : List (List Nat)) :
    ∀ (cols : List (List α × List Nat)) (idk : Nat) (tr : Trk α), (writeBack mode STATES cols idk tr).1.pos = tr.pos
  | [], _, _ => rfl
  | c :: rest, idk, tr => by
    simp only [writeBack]
    split
    · split
      · rfl
      · next tr1 e1 =>
        split
        · exact (setObs_frame _ _ _ _ _ e1).1
        · next tr2 e2 =>
          rw [writeBack_pos_not mode hm STATES rest, posStep_pos_not _ _ _ _ hm, (setObs_frame _ _ _ _ _ e2).1,
            (setObs_frame _ _ _ _ _ e1).1]
    · rfl

/-- the loop over the epochs `cols.length - 1, …, 0` leaves the positions of the later epochs alone -/
theorem writeBack_pos_beyond (mode : Nat) (STATES : List (List Nat)) :
    ∀ (cols : List (List α × List Nat)) (idk : Nat) (tr : Trk α) (j : Nat), cols.length ≤ j →
      (writeBack mode STATES cols idk tr).1.pos[j]? = tr.pos[j]?
  | [], _, _, _, _ => rfl
  | c :: rest, idk, tr, j, hj => by
    have hj' : rest.length < j := by simpa [Nat.lt_iff_add_one_le] using hj
    simp only [writeBack]
    split
    · split
      · rfl
      · next tr1 e1 =>
        split
        · rw [(setObs_frame _ _ _ _ _ e1).1]
        · next tr2 e2 =>
          rw [writeBack_pos_beyond mode STATES rest _ _ j (by omega), posStep_pos_ne _ _ _ _ _ (by omega),
            (setObs_frame _ _ _ _ _ e2).1, (setObs_frame _ _ _ _ _ e1).1]
    · rfl

/-! ### the backward loop on the forward tables -/
section
variable [LinearOrder α]

/-- in the modes 3, 4, 5 the position of every epoch `j ≤ k` is REBOUND to the state object `STATES[j][back j]` — the
very object recorded in `hmm_inference[j]` (`writeBack_forward`) -/
theorem writeBack_forward_pos (mode : Nat) (hm : PosMode mode) (STATES : List (List Nat)) (t : Tables α) (k : Nat) :
    ∀ (l : Nat) (tr : Trk α), (∀ j, j ≤ k → 0 < t.n j) → l < t.n k →
      (∀ j, j ≤ k → (STATES.getD j []).length = t.n j) →
      tr.WF → tr.has "hmm_inference" = true → tr.has "hmm_cost" = true → k < tr.size → k < tr.pos.length →
      ∀ j, j ≤ k → (writeBack mode STATES (forward t k) l tr).1.pos[j]?
        = some (some ((STATES.getD j []).getD (back t k l j) 0)) := by
  induction k with
  | zero =>
    intro l tr hpos hl hS hwf hinf hcost hk hp j hj
    have h1 : (firstCol t).1[l]? = some (t.obs 0 l) := by simp [firstCol, hl]
    have h2 : (firstCol t).2[l]? = some 0 := by simp [firstCol, hl]
    have h3 := getElem?_getD_nat (STATES.getD 0 []) l (by rw [hS 0 (Nat.le_refl _)]; exact hl)
    obtain ⟨tr1, e1, w1, s1, p1, hh1, _, _⟩ := setObs_spec tr hwf "hmm_inference" 0
      (.st ((STATES.getD 0 []).getD l 0)) (by decide) hinf hk
    obtain ⟨tr2, e2, w2, s2, p2, hh2, _, _⟩ := setObs_spec tr1 w1 "hmm_cost" 0 (.num (t.obs 0 l)) (by decide)
      (by rw [hh1]; exact hcost) (by omega)
    have : j = 0 := by omega
    subst this
    simp only [forward, writeBack, h1, h2, h3, List.length_nil, e1, e2]
    rw [posStep_pos _ _ _ _ hm, p2, p1]
    simp [hp, back]
  | succ k ih =>
    intro l tr hpos hl hS hwf hinf hcost hk hp j hj
    rw [forward_succ]
    have h1 : (colOf t (k+1)).1[l]? = some (val t (k+1) l) := by simp [colOf, hl]
    have h2 : (colOf t (k+1)).2[l]? = some (mrk t k l) := by simp [colOf, hl]
    have h3 := getElem?_getD_nat (STATES.getD (k+1) []) l (by rw [hS (k+1) (Nat.le_refl _)]; exact hl)
    obtain ⟨tr1, e1, w1, s1, p1, hh1, _, _⟩ := setObs_spec tr hwf "hmm_inference" (k+1)
      (.st ((STATES.getD (k+1) []).getD l 0)) (by decide) hinf hk
    obtain ⟨tr2, e2, w2, s2, p2, hh2, _, _⟩ := setObs_spec tr1 w1 "hmm_cost" (k+1) (.num (val t (k+1) l)) (by decide)
      (by rw [hh1]; exact hcost) (by omega)
    have hh3 : ∀ n, (tr2.posStep mode (k+1) ((STATES.getD (k+1) []).getD l 0)).has n = tr.has n := by
      intro n; rw [posStep_has, hh2, hh1]
    simp only [writeBack, h1, h2, h3, forward_length, e1, e2]
    by_cases hjk : j = k + 1
    · subst hjk
      rw [writeBack_pos_beyond mode STATES (forward t k) _ _ (k+1) (by rw [forward_length]; exact Nat.le_refl _),
        posStep_pos _ _ _ _ hm, p2, p1, back_self]
      simp [hp]
    · rw [back_lt t k l j (by omega)]
      exact ih (mrk t k l) (tr2.posStep mode (k+1) ((STATES.getD (k+1) []).getD l 0))
        (fun j hj => hpos j (by omega)) (mrk_lt t k l (hpos k (by omega))) (fun j hj => hS j (by omega))
        (posStep_WF tr2 w2 _ _ _) (by rw [hh3]; exact hinf) (by rw [hh3]; exact hcost)
        (by rw [posStep_size]; omega) (by rw [posStep_pos_length, p2, p1]; omega) j (by omega)

/-- **Positions after one call of `estimate`.** Same hypotheses as `estimate_ok`, and one position per epoch. The
coordinates of the track's own position objects are untouched. In the modes 3, 4, 5 the position of EVERY epoch is
rebound to the decoded state object (the one recorded in `hmm_inference`: same `r`, `decode` being a function); in
every other mode the positions are exactly what they were. -/
theorem estimate_pos [Add α] [Neg α] (nm : Num α) (h : Obj α) (tr : Trk α) (obs : List String) (log : Bool)
    (mode N : Nat) (hwf : tr.WF) (hsize : tr.size = N + 1) (hplen : tr.pos.length = tr.size)
    (OBS : List (List (ObsItem α)))
    (hobs : (List.range tr.size).mapM (fun k => getObsK nm tr obs k mode) = .ok OBS)
    (hS : ∀ k, k ≤ N → h.S tr k ≠ []) :
    ∃ r tr', decode (tablesOf nm { h with log := h.log || log } tr ((List.range tr.size).map (h.S tr)) OBS) (N+1) = .ok r ∧
      estimate nm h tr obs log mode = ({ h with log := h.log || log }, tr', none) ∧
      tr'.xyz = tr.xyz ∧ tr'.pos.length = tr.pos.length ∧
      (PosMode mode → ∀ k, k ≤ N → tr'.pos[k]? = some (some ((h.S tr k).getD (seqOf r k) 0))) ∧
      (¬ PosMode mode → tr'.pos = tr.pos) := by
  generalize ht : tablesOf nm { h with log := h.log || log } tr ((List.range tr.size).map (h.S tr)) OBS = t
  have hn : ∀ k, k ≤ N → t.n k = (h.S tr k).length := by
    intro k hk
    subst ht
    show (((List.range tr.size).map (h.S tr)).getD k []).length = _
    rw [states_getD _ _ _ (by omega)]
  have hpos : ∀ k, k ≤ N → 0 < t.n k := by
    intro k hk
    rw [hn k hk]
    exact List.length_pos_iff.mpr (hS k hk)
  have hSt : ∀ j, j ≤ N → (((List.range tr.size).map (h.S tr)).getD j []).length = t.n j := by
    intro j hj
    rw [hn j hj, states_getD _ _ _ (by omega)]
  obtain ⟨rest, hf⟩ := forward_head t N
  have hne : (colOf t N).1 ≠ [] := by
    rw [colOf_fst]
    intro hc
    have := congrArg List.length hc
    simp at this
    have := hpos N (Nat.le_refl _); omega
  obtain ⟨idk, v, hr, hv, _⟩ := argmin?_spec (colOf t N).1 hne
  rw [colOf_fst] at hv
  have hidk : idk < t.n N := by
    by_cases hlt : idk < t.n N
    · exact hlt
    · simp [hlt] at hv
  obtain ⟨tr1, e1, w1, s1, p1, hi1, hk1, _, _⟩ := create_spec tr hwf "hmm_inference" (.num nm.zero) (by decide) (by omega)
  obtain ⟨tr2, e2, w2, s2, p2, hc2, hk2, _, _⟩ := create_spec tr1 w1 "hmm_cost" (.num nm.zero) (by decide) (by omega)
  have x1 := (create_frame _ _ _ _ e1).2
  have x2 := (create_frame _ _ _ _ e2).2
  obtain ⟨tr', e', _, _, _, _, _⟩ := writeBack_forward mode ((List.range tr.size).map (h.S tr)) t N idk tr2
    hpos hidk hSt w2 (hk2 _ hi1) hc2 (by omega)
  have hw := walk_forward t N idk hpos hidk
  have etr : tr' = (writeBack mode ((List.range tr.size).map (h.S tr)) (forward t N) idk tr2).1 := by rw [e']
  refine ⟨(List.range (N+1)).map (fun j => (back t N idk j, val t j (back t N idk j))), tr', ?_, ?_, ?_, ?_, ?_, ?_⟩
  · rw [hf] at hw
    simp only [decode, hf, hr, hw]
    rw [← List.map_reverse, List.reverse_reverse]
  · rw [hf] at e'
    unfold estimate
    simp only [hsize] at ht e' hobs
    simp only [hsize, hobs, ht, hf, e1, e2, hr, e']
  · rw [etr, writeBack_xyz, x2, x1]
  · rw [etr, writeBack_pos_length, p2, p1]
  · intro hm k hk
    have hk' : k < N + 1 := by omega
    rw [etr, writeBack_forward_pos mode hm ((List.range tr.size).map (h.S tr)) t N idk tr2 hpos hidk hSt w2 (hk2 _ hi1) hc2
      (by omega) (by rw [p2, p1, hplen]; omega) k hk, states_getD _ _ _ (by omega)]
    simp [seqOf, hk']
  · intro hm
    rw [etr, writeBack_pos_not mode hm, p2, p1]
end

/-! ### what `S` returns -/
section
variable [Add α] [Neg α] [LT α] [DecidableLT α] [BEq α]

/-- no value handed to `math.log` is outside its domain (in particular: the flag is set, or `logDom` is total) -/
def NoDomainError (nm : Num α) (h : ObjS α) (tr : Trk α) (obs : List String) (log : Bool) (mode : Nat) : Prop :=
  ∀ OBS, (List.range tr.size).mapM (fun k => getObsK nm tr obs k mode) = .ok OBS →
    domainError nm { h.toObj with log := h.log || log } tr ((List.range tr.size).map (h.toObj.S tr)) OBS = false

/-- every `S(track, k)` has a length and `math.log` is defined where it is called: the call is `estimate` on the items,
whatever the container types -/
theorem estimateS_sized (nm : Num α) (h : ObjS α) (tr : Trk α) (obs : List String) (log : Bool) (mode : Nat)
    (hs : ∀ k, k < tr.size → (h.S tr k).isSized = true) (hd : NoDomainError nm h tr obs log mode) :
    estimateS nm h tr obs log mode =
      ({ h with log := (estimate nm h.toObj tr obs log mode).1.log }, (estimate nm h.toObj tr obs log mode).2.1,
        (estimate nm h.toObj tr obs log mode).2.2) := by
  unfold estimateS
  rw [if_pos (by simp only [List.all_eq_true, List.mem_range]; exact hs)]
  cases hobs : (List.range tr.size).mapM (fun k => getObsK nm tr obs k mode) with
  | error e => simp
  | ok OBS =>
    have := hd OBS hobs
    simp only [ObjS.toObj] at this ⊢
    simp [this]

/-- a value outside the domain of `math.log` among those that are converted: `ValueError`, flag or-ed, track untouched -/
theorem estimateS_domain (nm : Num α) (h : ObjS α) (tr : Trk α) (obs : List String) (log : Bool) (mode : Nat)
    (hs : ∀ k, k < tr.size → (h.S tr k).isSized = true) (hne : tr.size ≠ 0) (OBS : List (List (ObsItem α)))
    (hobs : (List.range tr.size).mapM (fun k => getObsK nm tr obs k mode) = .ok OBS)
    (hd : domainError nm { h.toObj with log := h.log || log } tr ((List.range tr.size).map (h.toObj.S tr)) OBS = true) :
    estimateS nm h tr obs log mode = ({ h with log := h.log || log }, tr, some .value) := by
  unfold estimateS
  rw [if_pos (by simp only [List.all_eq_true, List.mem_range]; exact hs)]
  simp only [ObjS.toObj] at hd ⊢
  simp [hobs, hd, hne]

/-- some `S(track, k)` has no length: `TypeError`, the flag is or-ed into the object, the track is untouched -/
theorem estimateS_unsized (nm : Num α) (h : ObjS α) (tr : Trk α) (obs : List String) (log : Bool) (mode : Nat)
    (k : Nat) (hk : k < tr.size) (hu : (h.S tr k).isSized = false) :
    estimateS nm h tr obs log mode = ({ h with log := h.log || log }, tr, some .type) := by
  unfold estimateS
  rw [if_neg]
  simp only [List.all_eq_true, List.mem_range, not_forall]
  exact ⟨k, hk, by simp [hu]⟩
end
end TV.Hmm
