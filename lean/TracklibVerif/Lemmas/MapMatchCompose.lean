import TracklibVerif.Lemmas.MapMatchNet
import TracklibVerif.Props.C08
import TracklibVerif.Props.C09
/-! Helper lemmas for C10, third part: the two PARAMETERS of the model instantiated with the models of C08 (spatial index)
and C09 (Viterbi decoder), through the registered theorems of those properties only (`TV.C08.neighborhood_complete`,
`TV.C09.decode_succeeds`, `TV.C09.decoded_valid`), and the completeness of the candidate loop with respect to the list of
candidates it is given. -/
namespace TV.MapMatch
open TV.Proj
variable {α : Type} [Field α] [LinearOrder α] [IsStrictOrderedRing α]

/-- the candidate loop keeps what it has and, when it returns, has a state for every candidate edge whose projection is
strictly within the radius -/
theorem candLoop_complete (sqrt : α → α) (eps radius : α) (edges : List (Edge α)) (pos : α × α) (E : List Nat) :
    ∀ (acc res : List (State α)), candLoop sqrt eps radius edges pos E acc = .ok res →
      (∀ s ∈ acc, s ∈ res) ∧
      ∀ (n : Nat) (eg : Edge α) (r : (α × α) × α × Nat), n ∈ E → edges[n]? = some eg →
        projOnTrack sqrt eps eg.geom pos.1 pos.2 = .ok r → r.2.1 < radius → ∃ s ∈ res, s.edge = (n : Int) ∧ s.p = r.1 := by
  induction E with
  | nil =>
    intro acc res h
    simp only [candLoop] at h; injection h with h; subst h
    exact ⟨fun s hs => hs, fun n eg r hn => by simp at hn⟩
  | cons elem rest ih =>
    intro acc res h
    rw [candLoop] at h
    cases he : edges[elem]? with
    | none => rw [he] at h; cases h
    | some eg0 =>
      rw [he] at h
      simp only at h
      cases hp : projOnTrack sqrt eps eg0.geom pos.1 pos.2 with
      | error e => rw [hp] at h; cases h
      | ok r0 =>
        rw [hp] at h
        simp only at h
        split at h
        · rename_i hlt
          cases ha : distToNode sqrt eg0 r0.1 r0.2.2 0 with
          | none => rw [ha] at h; cases h
          | some a =>
            cases hb : distToNode sqrt eg0 r0.1 r0.2.2 1 with
            | none => rw [ha, hb] at h; cases h
            | some b =>
              rw [ha, hb] at h
              simp only at h
              obtain ⟨k1, k2⟩ := ih _ res h
              refine ⟨fun s hs => k1 s (List.mem_append_left _ hs), ?_⟩
              intro n eg r hn hen hpr hr
              rcases List.mem_cons.mp hn with rfl | hn'
              · rw [he] at hen; injection hen with hen; subst hen
                rw [hp] at hpr; injection hpr with hpr; subst hpr
                exact ⟨_, k1 _ (List.mem_append_right _ (List.mem_singleton.mpr rfl)), rfl, rfl⟩
              · exact k2 n eg r hn' hen hpr hr
        · rename_i hnlt
          obtain ⟨k1, k2⟩ := ih _ res h
          refine ⟨k1, ?_⟩
          intro n eg r hn hen hpr hr
          rcases List.mem_cons.mp hn with rfl | hn'
          · rw [he] at hen; injection hen with hen; subst hen
            rw [hp] at hpr; injection hpr with hpr; subst hpr
            exact absurd hr hnlt
          · exact k2 n eg r hn' hen hpr hr

/-- `STATES[i]` is the flag state exactly when no candidate edge projects strictly within the radius -/
theorem obsStates_flag_iff (sqrt : α → α) (eps radius : α) (edges : List (Edge α)) (pos : α × α) (E : List Nat)
    (l : List (State α)) (h : obsStates sqrt eps radius edges pos (some E) = .ok l) :
    (∃ s ∈ l, s.edge = -1) ↔
      ∀ (n : Nat) (eg : Edge α) (r : (α × α) × α × Nat), n ∈ E → edges[n]? = some eg →
        projOnTrack sqrt eps eg.geom pos.1 pos.2 = .ok r → ¬ r.2.1 < radius := by
  unfold obsStates at h
  simp only at h
  cases hl : candLoop sqrt eps radius edges pos E [] with
  | error e => rw [hl] at h; cases h
  | ok res =>
    rw [hl] at h
    obtain ⟨_, comp⟩ := candLoop_complete sqrt eps radius edges pos E [] res hl
    -- every state of the loop names a candidate edge number (a natural number)
    have nat : ∀ (E : List Nat) (acc res : List (State α)), (∀ s ∈ acc, 0 ≤ s.edge) →
        candLoop sqrt eps radius edges pos E acc = .ok res → ∀ s ∈ res, 0 ≤ s.edge := by
      intro E
      induction E with
      | nil => intro acc res ha h; simp only [candLoop] at h; injection h with h; subst h; exact ha
      | cons elem rest ih =>
        intro acc res ha h
        rw [candLoop] at h
        split at h
        · cases h
        · split at h
          · cases h
          · split at h
            · split at h
              · refine ih _ res ?_ h
                intro s hs
                rcases List.mem_append.mp hs with hs | hs
                · exact ha s hs
                · simp only [List.mem_singleton] at hs; subst hs; exact Int.natCast_nonneg _
              · cases h
            · exact ih _ res ha h
    have hnn := nat E [] res (fun s hs => by simp at hs) hl
    cases res with
    | nil =>
      simp only at h; injection h with h; subst h
      constructor
      · intro _ n eg r hn hen hpr hr
        obtain ⟨s, hs, _⟩ := comp n eg r hn hen hpr hr
        simp at hs
      · intro _; exact ⟨flag pos, by simp, rfl⟩
    | cons s0 ss =>
      simp only at h; injection h with h; subst h
      constructor
      · rintro ⟨s, hs, he⟩
        have := hnn s hs
        omega
      · intro hall
        exfalso
        -- s0 comes from some candidate within the radius: read it off the loop
        have src : ∀ (E : List Nat) (acc res : List (State α)),
            candLoop sqrt eps radius edges pos E acc = .ok res → ∀ s ∈ res, s ∈ acc ∨
              ∃ (n : Nat) (eg : Edge α) (r : (α × α) × α × Nat), n ∈ E ∧ edges[n]? = some eg ∧
                projOnTrack sqrt eps eg.geom pos.1 pos.2 = .ok r ∧ r.2.1 < radius := by
          intro E
          induction E with
          | nil => intro acc res h s hs; simp only [candLoop] at h; injection h with h; subst h; exact Or.inl hs
          | cons elem rest ih =>
            intro acc res h s hs
            rw [candLoop] at h
            cases he : edges[elem]? with
            | none => rw [he] at h; cases h
            | some eg0 =>
              rw [he] at h
              simp only at h
              cases hp : projOnTrack sqrt eps eg0.geom pos.1 pos.2 with
              | error e => rw [hp] at h; cases h
              | ok r0 =>
                rw [hp] at h
                simp only at h
                split at h
                · rename_i hlt
                  split at h
                  · rcases ih _ res h s hs with hin | ⟨n, eg, r, hn, x⟩
                    · rcases List.mem_append.mp hin with hin | hin
                      · exact Or.inl hin
                      · exact Or.inr ⟨elem, eg0, r0, by simp, he, hp, hlt⟩
                    · exact Or.inr ⟨n, eg, r, List.mem_cons_of_mem _ hn, x⟩
                  · cases h
                · rcases ih _ res h s hs with hin | ⟨n, eg, r, hn, x⟩
                  · exact Or.inl hin
                  · exact Or.inr ⟨n, eg, r, List.mem_cons_of_mem _ hn, x⟩
        rcases src E [] (s0 :: ss) hl s0 (by simp) with hin | ⟨n, eg, r, hn, hen, hpr, hr⟩
        · simp at hin
        · exact hall n eg r hn hen hpr hr

/-! ### the decoder of C09 -/

/-- `HMM.estimate` as modelled for C09 (`Viterbi.decode`, the table-building form the C09 driver runs), over ANY cost tables
whose numbers of states per epoch are the sizes of the candidate lists: it does not raise (`TV.C09.decode_succeeds`),
answers one in-range index per epoch (`TV.C09.decoded_valid`), and the backward step of `mapOnNetwork` fed with these
indices returns an inference column whose entry `k` is one of `STATES[k]`. Discharges the hypothesis of
`decoder_in_range_total` for the real decoder; needs the candidate lists non-empty, which `candidate_sound` gives. -/
theorem viterbi_inference {β : Type} [LinearOrder β] (ss : List (List (State α))) (N : Nat) (hlen : ss.length = N + 1)
    (hne : ∀ (k : Nat) (l : List (State α)), ss[k]? = some l → l ≠ [])
    (t : TV.Viterbi.Tables β) (hn : ∀ (k : Nat) (l : List (State α)), ss[k]? = some l → t.n k = l.length) :
    ∃ (r : List (Nat × β)) (inf : List (State α)), TV.Viterbi.decode t (N + 1) = .ok r ∧
      inferAll ss (r.map Prod.fst) = .ok inf ∧ inf.length = N + 1 ∧
      ∀ (k : Nat) (st : State α), inf[k]? = some st → ∃ l, ss[k]? = some l ∧ st ∈ l := by
  have hpos : ∀ k, k ≤ N → 0 < t.n k := by
    intro k hk
    have hk' : k < ss.length := by omega
    have e : ss[k]? = some ss[k] := List.getElem?_eq_getElem hk'
    rw [hn k _ e]
    exact List.length_pos_iff.mpr (hne k _ e)
  obtain ⟨r, hr, hrl⟩ := TV.C09.decode_succeeds t N hpos
  obtain ⟨_, hv⟩ := TV.C09.decoded_valid t N hpos r hr
  obtain ⟨inf, hinf⟩ := inferAll_total ss (r.map Prod.fst) (by
    intro k l hk
    have hk' : k < ss.length := lt_of_getElem?_some _ _ _ hk
    have := hv k (by omega)
    rw [hn k l hk] at this
    simpa [TV.Viterbi.seqOf] using this)
  obtain ⟨len, mem⟩ := inferAll_mem ss _ _ hinf
  exact ⟨r, inf, hr, hinf, by rw [len, hlen], mem⟩

/-! ### the spatial index of C08 -/

/-- `TV.C08.neighborhood_complete` read for map-matching: for a network whose index was built by the constructor of C08's
model on the network's geometries (`margin ≥ 0`, positive or default cell size), an observation `q` inside the extent and
an edge number `k` that has a point within Euclidean distance `d` of `q`: IF the search unit computed by
`__mapOnNetwork` (`ceil(search_radius / min(csize, lsize))`, from the NUMBERS of cells) is the unit the index itself derives
from the ground distance `d` (`groundDistanceToUnits`), then `k` is among the candidates of `q`. The code's unit is in
general a different number: completeness of the candidates in terms of the search radius is not claimed by C10 and does not
hold in general. -/
theorem near_edge_is_candidate {fl : α → Int} (hf : TV.Grid.IsFloor fl) (net : Net α) (res : Option (α × α)) (margin : α)
    (ix : TV.Grid.Index α) (hm : 0 ≤ margin) (hres : ∀ r, res = some r → 0 < r.1 ∧ 0 < r.2)
    (hb : TV.Grid.build fl (netFeatures net) res margin = .ok ix) (hix : net.index = some ix)
    (k : Nat) (g : List (α × α)) (hk : (netFeatures net)[k]? = some g) (A B : α × α) (hAB : (A, B) ∈ TV.Grid.Consec g)
    (s : α) (hs0 : 0 ≤ s) (hs1 : s ≤ 1) (q : α × α) (hq : TV.Grid.getCell ix q ≠ none) (d : α) (hd : 0 ≤ d)
    (hdist : (q.1 - (TV.Grid.lerp A B s).1) ^ 2 + (q.2 - (TV.Grid.lerp A B s).2) ^ 2 ≤ d ^ 2)
    (radius : α) (hu : ∀ u, TV.Grid.groundDistanceToUnits fl ix d = .ok u → searchUnit fl radius ix = .ok u) :
    ∃ l, candidatesOf fl radius net q = .ok (some l) ∧ k ∈ l := by
  obtain ⟨u, l, hgu, hnb, hkl⟩ :=
    TV.C08.neighborhood_complete hf (netFeatures net) res margin ix hm hres hb k g hk A B hAB s hs0 hs1 q hq d hd hdist
  refine ⟨l, ?_, hkl⟩
  unfold candidatesOf
  simp only [hix, hu u hgu, hnb]

end TV.MapMatch
