import TracklibVerif.Lemmas.GridBuild
/-! Query side of `Model/Grid.lean`: `request` (segment / track), `__neighboringcells`, `neighborhood`,
`groundDistanceToUnits`. -/
namespace TV.Grid

section index
variable {α : Type}

/-- `for cell in CELLS: __addCellValuesInTAB(TAB, cell)` keeps `TAB` and adds everything listed in the cells -/
theorem collectCells_spec (ix : Index α) (cells : List (Int × Int)) (tab out : List Nat)
    (h : collectCells ix tab cells = .ok out) :
    (∀ x ∈ tab, x ∈ out) ∧ ∀ cell ∈ cells, ∀ d, Holds ix.grid cell.1 cell.2 d → d ∈ out := by
  induction cells generalizing tab with
  | nil =>
    simp only [collectCells, Except.ok.injEq] at h
    subst h
    exact ⟨fun _ hx => hx, by simp⟩
  | cons cell rest ih =>
    unfold collectCells at h
    cases hr : requestCell ix cell.1 cell.2 with
    | error e => simp [hr] at h
    | ok values =>
      simp only [hr] at h
      obtain ⟨t1, t2⟩ := ih (addAll tab values) h
      refine ⟨fun x hx => t1 x ((mem_addAll _ _ _).mpr (Or.inl hx)), ?_⟩
      intro c hc d hd
      rcases List.mem_cons.mp hc with rfl | hc
      · obtain ⟨v, hv, hdv⟩ := hd
        unfold requestCell at hr
        rw [hr] at hv; cases hv
        exact t1 d ((mem_addAll _ _ _).mpr (Or.inr hdv))
      · exact t2 c hc d hd

/-- a cell inside the grid can be read -/
theorem cellGet_ok_of_shape (g : Cells) (cs ls : Nat) (hs : Shape g cs ls) (i j : Int)
    (hi : 0 ≤ i ∧ i < (cs : Int)) (hj : 0 ≤ j ∧ j < (ls : Int)) : ∃ c, cellGet g i j = .ok c := by
  obtain ⟨s1, s2⟩ := hs
  have h1 : pyIdx g.length i = some i.toNat := by
    unfold pyIdx; rw [if_pos hi.1, if_pos (by rw [s1]; exact hi.2)]
  have ha : i.toNat < g.length := by rw [s1]; omega
  have hrow : (g[i.toNat]'ha).length = ls := s2 _ (List.getElem_mem ha)
  have h3 : pyIdx (g[i.toNat]'ha).length j = some j.toNat := by
    unfold pyIdx; rw [if_pos hj.1, if_pos (by rw [hrow]; exact hj.2)]
  have hb : j.toNat < (g[i.toNat]'ha).length := by rw [hrow]; omega
  refine ⟨(g[i.toNat]'ha)[j.toNat]'hb, ?_⟩
  rw [cellGet_ok_iff]
  exact ⟨i.toNat, g[i.toNat]'ha, j.toNat, h1, List.getElem?_eq_getElem ha, h3, List.getElem?_eq_getElem hb⟩

/-- a cell that can be read with a non-negative index is inside the grid -/
theorem lt_of_cellGet_ok (g : Cells) (cs ls : Nat) (hs : Shape g cs ls) (i j : Int) (c : List Nat)
    (h : cellGet g i j = .ok c) (hi : 0 ≤ i) (hj : 0 ≤ j) : i < (cs : Int) ∧ j < (ls : Int) := by
  obtain ⟨a, row, b, h1, h2, h3, h4⟩ := (cellGet_ok_iff g i j c).mp h
  obtain ⟨s1, s2⟩ := hs
  have hrow : row.length = ls := s2 row (List.mem_of_getElem? h2)
  unfold pyIdx at h1 h3
  rw [if_pos hi] at h1
  rw [if_pos hj] at h3
  constructor
  · by_contra hc
    rw [if_neg (by rw [s1]; exact hc)] at h1
    cases h1
  · by_contra hc
    rw [if_neg (by rw [hrow]; exact hc)] at h3
    cases h3

/-- reading a column at or beyond `len(grid)` is an IndexError -/
theorem cellGet_err_col (g : Cells) (i j : Int) (hi : (g.length : Int) ≤ i) : cellGet g i j = .error .index := by
  have h1 : pyIdx g.length i = none := by
    unfold pyIdx
    rw [if_pos (by omega), if_neg (by omega)]
  unfold cellGet
  simp only [h1]

/-- reading a row at or beyond `lsize` is an IndexError -/
theorem cellGet_err_row (g : Cells) (cs ls : Nat) (hs : Shape g cs ls) (i j : Int) (hj : (ls : Int) ≤ j) :
    cellGet g i j = .error .index := by
  unfold cellGet
  cases h1 : pyIdx g.length i with
  | none => rfl
  | some a =>
    cases h2 : g[a]? with
    | none => simp only [h2]
    | some row =>
      have hrow : row.length = ls := hs.2 row (List.mem_of_getElem? h2)
      have h3 : pyIdx row.length j = none := by
        unfold pyIdx
        rw [if_pos (by omega), if_neg (by rw [hrow]; omega)]
      simp only [h2, h3]

theorem collectCells_ok (ix : Index α) (cells : List (Int × Int)) (tab : List Nat)
    (hs : Shape ix.grid ix.csize.toNat ix.lsize.toNat)
    (hc : ∀ cell ∈ cells, (0 ≤ cell.1 ∧ cell.1 < ix.csize) ∧ (0 ≤ cell.2 ∧ cell.2 < ix.lsize)) :
    ∃ out, collectCells ix tab cells = .ok out := by
  induction cells generalizing tab with
  | nil => exact ⟨tab, rfl⟩
  | cons cell rest ih =>
    obtain ⟨⟨a1, a2⟩, b1, b2⟩ := hc cell (by simp)
    obtain ⟨c, hcg⟩ := cellGet_ok_of_shape ix.grid _ _ hs cell.1 cell.2 ⟨a1, by omega⟩ ⟨b1, by omega⟩
    unfold collectCells requestCell
    simp only [hcg]
    exact ih _ (fun c' hc' => hc c' (List.mem_cons_of_mem _ hc'))

/-- `__neighboringcells(i, j, u, False)` is the square of radius `u` around `(i, j)` clipped to the grid -/
theorem mem_neighboringCells (ix : Index α) (i j u i' j' : Int) :
    (i', j') ∈ neighboringCells ix i j u false ↔
      (max (i - u) 0 ≤ i' ∧ i' < min (i + u + 1) ix.csize) ∧ (max (j - u) 0 ≤ j' ∧ j' < min (j + u + 1) ix.lsize) := by
  unfold neighboringCells
  simp only [Bool.false_and, Bool.false_eq_true, if_false, List.mem_flatMap, List.mem_filterMap, mem_rangeI,
    Option.some.injEq, Prod.mk.injEq]
  constructor
  · rintro ⟨a, ha, b, hb, rfl, rfl⟩; exact ⟨ha, hb⟩
  · rintro ⟨ha, hb⟩; exact ⟨i', ha, j', hb, rfl, rfl⟩

end index

section scalar
variable {α : Type} [Field α] [LinearOrder α] [IsStrictOrderedRing α]

omit [IsStrictOrderedRing α] in
theorem requestSegInto_spec (fl : α → Int) (ix : Index α) (hb : Bounded ix) (tab out : List Nat) (a b : α × α)
    (h : requestSegInto fl ix tab a b = .ok out) :
    ∃ p1 p2, getCell ix a = some p1 ∧ getCell ix b = some p2 ∧ (∀ x ∈ tab, x ∈ out) ∧
      ∀ cell ∈ cellsCross fl ix.csize ix.lsize p1 p2, ∀ d, Holds ix.grid cell.1 cell.2 d → d ∈ out := by
  unfold requestSegInto at h
  cases r1 : getCellR ix a with
  | error e => simp [r1] at h
  | ok o1 =>
    cases r2 : getCellR ix b with
    | error e => simp [r1, r2] at h
    | ok o2 =>
      have e1 := getCellR_ok ix hb a o1 r1
      have e2 := getCellR_ok ix hb b o2 r2
      cases o1 with
      | none => simp [r1, r2] at h
      | some p1 =>
        cases o2 with
        | none => simp [r1, r2] at h
        | some p2 =>
          simp only [r1, r2] at h
          obtain ⟨t1, t2⟩ := collectCells_spec ix _ tab out h
          exact ⟨p1, p2, e1.symm, e2.symm, t1, t2⟩

omit [IsStrictOrderedRing α] in
theorem requestTrackLoop_spec (fl : α → Int) (ix : Index α) (hb : Bounded ix) (track : List (α × α)) (prev : Option (α × α))
    (tab out : List Nat) (h : requestTrackLoop fl ix tab prev track = .ok out) :
    (∀ x ∈ tab, x ∈ out) ∧
    ∀ A B, (A, B) ∈ Consec (prev.toList ++ track) → ∃ p1 p2, getCell ix A = some p1 ∧ getCell ix B = some p2 ∧
      ∀ cell ∈ cellsCross fl ix.csize ix.lsize p1 p2, ∀ d, Holds ix.grid cell.1 cell.2 d → d ∈ out := by
  induction track generalizing prev tab with
  | nil =>
    cases prev <;> (simp only [requestTrackLoop, Except.ok.injEq] at h; subst h; exact ⟨fun _ hx => hx, by simp [Consec]⟩)
  | cons p2 rest ih =>
    cases prev with
    | none =>
      simp only [requestTrackLoop] at h
      have := ih (some p2) tab h
      simpa using this
    | some p1 =>
      simp only [requestTrackLoop] at h
      cases hs : requestSegInto fl ix tab p1 p2 with
      | error e => simp [hs] at h
      | ok tab' =>
        simp only [hs] at h
        obtain ⟨q1, q2, g1, g2, t1, t2⟩ := requestSegInto_spec fl ix hb tab tab' p1 p2 hs
        obtain ⟨u1, u2⟩ := ih (some p2) tab' h
        refine ⟨fun x hx => u1 x (t1 x hx), ?_⟩
        intro A B hAB
        simp only [Option.toList_some, List.singleton_append, Consec, List.mem_cons, Prod.mk.injEq] at hAB
        rcases hAB with ⟨rfl, rfl⟩ | hAB
        · exact ⟨q1, q2, g1, g2, fun cell hc d hd => u1 d (t2 cell hc d hd)⟩
        · exact u2 A B (by simpa using hAB)

/-- one axis of `units_sound`: two abscissas at most `d` apart fall in columns at most
`floor(d / mn + 1)` apart, for cells of width `dC ≥ mn > 0` -/
theorem units_axis {fl : α → Int} (hf : IsFloor fl) (p q o dC d mn : α) (hmn : 0 < mn) (hle : mn ≤ dC)
    (h1 : -d ≤ q - p) (h2 : q - p ≤ d) :
    fl ((q - o) / dC) - fl ((p - o) / dC) ≤ fl (d / mn + 1) ∧ fl ((p - o) / dC) - fl ((q - o) / dC) ≤ fl (d / mn + 1) := by
  have hdC : 0 < dC := lt_of_lt_of_le hmn hle
  have hd : 0 ≤ d := by linarith
  have hM : d / dC ≤ d / mn := div_le_div_of_nonneg_left hd hmn hle
  have e : (q - o) / dC - (p - o) / dC = (q - p) / dC := by ring
  have b1 : (q - p) / dC ≤ d / dC := div_le_div_of_nonneg_right h2 (le_of_lt hdC)
  have b2 : -(d / dC) ≤ (q - p) / dC := by
    have := div_le_div_of_nonneg_right h1 (le_of_lt hdC)
    rwa [neg_div] at this
  have fa := hf ((q - o) / dC)
  have fb := hf ((p - o) / dC)
  have fk := hf (d / mn + 1)
  constructor
  · have : (((fl ((q - o) / dC) : Int) : α)) < ((fl ((p - o) / dC) + 1 + fl (d / mn + 1) : Int) : α) := by
      push_cast; linarith [fa.1, fb.2, fk.2]
    have := Int.cast_lt.mp this
    omega
  · have : (((fl ((p - o) / dC) : Int) : α)) < ((fl ((q - o) / dC) + 1 + fl (d / mn + 1) : Int) : α) := by
      push_cast; linarith [fa.2, fb.1, fk.2]
    have := Int.cast_lt.mp this
    omega

theorem units_pos {fl : α → Int} (hf : IsFloor fl) (d mn : α) (hd : 0 ≤ d) (hmn : 0 < mn) : 1 ≤ fl (d / mn + 1) := by
  have h1 : (1 : α) ≤ d / mn + 1 := by
    have := div_nonneg hd (le_of_lt hmn); linarith
  have := hf.mono h1
  have e : fl (1 : α) = 1 := hf.eq_of (by simp) (by simp)
  omega

end scalar
end TV.Grid
