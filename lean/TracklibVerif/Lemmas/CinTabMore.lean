import TracklibVerif.Lemmas.CinTabProg
import TracklibVerif.Lemmas.CinTabOpt
/-! The VALUES of the read-only entry points `Track.length`, `Track.duration`, `Track.isSorted` on a lawful feature
table (C17): each one only reads and returns a function of the current coordinate / time columns. -/
namespace TV.CinTab
open TV.Features

variable {σ V : Type} [Tbl σ V]
variable {I : σ → Prop} {n : σ → Nat} {rd : σ → String → Option (List V)} {co : σ → Coord → List V}

theorem dist3DT_read (L : Laws I n rd co) (g : GOps V) (s : σ) (hI : I s) (i j : Nat) (hi : i < n s) (hj : j < n s) :
    ∃ xi yi zi xj yj zj, (co s .x)[i]? = some xi ∧ (co s .y)[i]? = some yi ∧ (co s .z)[i]? = some zi
      ∧ (co s .x)[j]? = some xj ∧ (co s .y)[j]? = some yj ∧ (co s .z)[j]? = some zj ∧
      (dist3DT g i j : M σ V) s = (.ok (norm3D g (g.sub xj xi) (g.sub yj yi) (g.sub zj zi)), s) := by
  obtain ⟨xi, h1, e1⟩ := getObs_co L g.toOps s hI .x i hi
  obtain ⟨yi, h2, e2⟩ := getObs_co L g.toOps s hI .y i hi
  obtain ⟨zi, h3, e3⟩ := getObs_co L g.toOps s hI .z i hi
  obtain ⟨xj, h4, e4⟩ := getObs_co L g.toOps s hI .x j hj
  obtain ⟨yj, h5, e5⟩ := getObs_co L g.toOps s hI .y j hj
  obtain ⟨zj, h6, e6⟩ := getObs_co L g.toOps s hI .z j hj
  refine ⟨xi, yi, zi, xj, yj, zj, h1, h2, h3, h4, h5, h6, ?_⟩
  unfold dist3DT
  rw [bind_ok_eq (show (Tbl.getObs g.toOps "x" i : M σ V) s = _ from e1),
    bind_ok_eq (show (Tbl.getObs g.toOps "y" i : M σ V) s = _ from e2),
    bind_ok_eq (show (Tbl.getObs g.toOps "z" i : M σ V) s = _ from e3),
    bind_ok_eq (show (Tbl.getObs g.toOps "x" j : M σ V) s = _ from e4),
    bind_ok_eq (show (Tbl.getObs g.toOps "y" j : M σ V) s = _ from e5),
    bind_ok_eq (show (Tbl.getObs g.toOps "z" j : M σ V) s = _ from e6)]
  rfl

/-- `Track.length()` after `k` legs, as a function of the coordinate columns -/
def lenF (g : GOps V) (X Y Z : List V) : Nat → V
  | 0 => g.zero
  | k + 1 => g.add (lenF g X Y Z k)
      (match X[k]?, Y[k]?, Z[k]?, X[k + 1]?, Y[k + 1]?, Z[k + 1]? with
        | some xi, some yi, some zi, some xj, some yj, some zj => norm3D g (g.sub xj xi) (g.sub yj yi) (g.sub zj zi)
        | _, _, _, _, _, _ => g.nan)

/-- `Track.length()` only reads, and returns the accumulated 3D legs of the current coordinates -/
theorem lengthT_read (L : Laws I n rd co) (g : GOps V) (s : σ) (hI : I s) :
    (lengthT g : M σ V) s = (.ok (lenF g (co s .x) (co s .y) (co s .z) (n s - 1)), s) := by
  unfold lengthT
  rw [bind_ok_eq (L.size s)]
  have key := triple_foldL_aux
    (fun (acc : V) i => (dist3DT g (i - 1) i : M σ V) >>= fun d => pure (g.add acc d))
    (fun k (acc : V) s' => s' = s ∧ acc = lenF g (co s .x) (co s .y) (co s .z) k)
    (List.range' 1 (n s - 1)) 0 g.zero
    (by
      intro i hi acc s' ⟨hs, hacc⟩
      subst hs
      have hi' : i < n s' - 1 := by simpa using hi
      have hel : (List.range' 1 (n s' - 1))[i] = 1 + i := by simp
      rw [hel]
      obtain ⟨xi, yi, zi, xj, yj, zj, h1, h2, h3, h4, h5, h6, e⟩ :=
        dist3DT_read L g s' hI (1 + i - 1) (1 + i) (by omega) (by omega)
      refine ⟨_, s', bind_ok_eq e, rfl, ?_⟩
      have e1 : 1 + i - 1 = i := by omega
      have e2 : 1 + i = i + 1 := by omega
      rw [e1] at h1 h2 h3
      rw [e2] at h4 h5 h6
      simp only [Nat.zero_add, lenF, h1, h2, h3, h4, h5, h6, hacc])
  obtain ⟨x, s', e, hs, hx⟩ := key s ⟨rfl, rfl⟩
  subst hs
  rw [e, hx]
  simp

/-- `Track.duration()` as a function of the time column -/
def durF (g : GOps V) (T : List V) (N : Nat) : V :=
  match T[N - 1]?, T[0]? with
  | some a, some b => g.sub a b
  | _, _ => g.nan

/-- `Track.duration()` on a non-empty track only reads, and returns last time − first time -/
theorem durationT_read (L : Laws I n rd co) (g : GOps V) (s : σ) (hI : I s) (hn : 0 < n s) :
    (durationT g : M σ V) s = (.ok (durF g (co s .t) (n s)), s) := by
  unfold durationT
  rw [bind_ok_eq (L.size s)]
  have h0 : ¬ n s = 0 := by omega
  simp only [h0, if_false]
  obtain ⟨a, h1, e1⟩ := getObs_co L g.toOps s hI .t (n s - 1) (by omega)
  obtain ⟨b, h2, e2⟩ := getObs_co L g.toOps s hI .t 0 hn
  rw [bind_ok_eq (show (Tbl.getObs g.toOps "t" (n s - 1) : M σ V) s = _ from e1),
    bind_ok_eq (show (Tbl.getObs g.toOps "t" 0 : M σ V) s = _ from e2)]
  unfold durF
  rw [h1, h2]
  rfl

/-- `Track.isSorted()` after `k` comparisons, as a function of the time column -/
def sortedF (g : GOps V) (T : List V) : Nat → Bool
  | 0 => true
  | k + 1 =>
    if !(sortedF g T k) then false
    else match T[k + 1]?, T[k]? with
      | some a, some b => !(g.nonpos (g.sub a b))
      | _, _ => false

/-- `Track.isSorted()` only reads -/
theorem isSortedT_read (L : Laws I n rd co) (g : GOps V) (s : σ) (hI : I s) :
    (isSortedT g : M σ Bool) s = (.ok (sortedF g (co s .t) (n s - 1)), s) := by
  unfold isSortedT
  rw [bind_ok_eq (L.size s)]
  have key := triple_foldL_aux
    (fun (acc : Bool) i => (if !acc then (pure false : M σ Bool)
      else (Tbl.getObs g.toOps "t" (i + 1) : M σ V) >>= fun a => (Tbl.getObs g.toOps "t" i : M σ V) >>= fun b =>
        pure (!(g.nonpos (g.sub a b)))))
    (fun k (acc : Bool) s' => s' = s ∧ acc = sortedF g (co s .t) k)
    (List.range (n s - 1)) 0 true
    (by
      intro i hi acc s' ⟨hs, hacc⟩
      subst hs
      have hi' : i < n s' - 1 := by simpa using hi
      have hel : (List.range (n s' - 1))[i] = i := by simp
      rw [hel]
      rw [Nat.zero_add] at hacc
      by_cases hb : acc = true
      · obtain ⟨a, h1, e1⟩ := getObs_co L g.toOps s' hI .t (i + 1) (by omega)
        obtain ⟨b, h2, e2⟩ := getObs_co L g.toOps s' hI .t i (by omega)
        refine ⟨!(g.nonpos (g.sub a b)), s', ?_, rfl, ?_⟩
        · simp only [hb, Bool.not_true, Bool.false_eq_true, if_false]
          rw [bind_ok_eq (show (Tbl.getObs g.toOps "t" (i + 1) : M σ V) s' = _ from e1),
            bind_ok_eq (show (Tbl.getObs g.toOps "t" i : M σ V) s' = _ from e2)]
          rfl
        · simp only [Nat.zero_add, sortedF, h1, h2]
          rw [← hacc, hb]
          simp
      · have hb' : acc = false := by simpa using hb
        refine ⟨false, s', ?_, rfl, ?_⟩
        · simp only [hb', Bool.not_false, if_true]; rfl
        · simp only [Nat.zero_add, sortedF]
          rw [← hacc, hb']
          simp)
  obtain ⟨x, s', e, hs, hx⟩ := key s ⟨rfl, rfl⟩
  subst hs
  have hprog : (M.foldL (List.range (n s' - 1)) true fun acc i =>
        if !acc then (pure false : M σ Bool)
        else do
          let a ← Tbl.getObs g.toOps "t" (i + 1)
          let b ← Tbl.getObs g.toOps "t" i
          pure (!(g.nonpos (g.sub a b)))) s' = (.ok x, s') := e
  rw [hprog, hx]
  simp

/-! ### at `Option α` -/
section opt
variable {α : Type} [Add α] [Sub α] [Mul α] [Div α] [OfNat α 0] [BEq α] [LE α] [DecidableLE α]
open TV.Cinematics

def zsOf (zs : List α) : List (Option α) := zs.map some

/-- 3D length of the first `k` legs of finite positions (`xy`, `zs`), each leg `sqrt(dx² + dy² + dz²)` of
`P[k+1] - P[k]`, accumulated in Python's order -/
def len3D (sqrt : α → α) (xy : List (α × α)) (zs : List α) : Nat → α
  | 0 => 0
  | k + 1 => len3D sqrt xy zs k + (match xy[k]?, zs[k]?, xy[k + 1]?, zs[k + 1]? with
      | some p, some zp, some q, some zq =>
        sqrt ((q.1 - p.1) * (q.1 - p.1) + (q.2 - p.2) * (q.2 - p.2) + (zq - zp) * (zq - zp))
      | _, _, _, _ => 0)

theorem lenF_opt (sqrt : α → α) (ofNat : Nat → α) (isNaN : α → Bool) (xy : List (α × α)) (zs : List α)
    (hz : zs.length = xy.length) :
    ∀ k, k < xy.length → lenF (optG sqrt ofNat isNaN) (xsOf xy) (ysOf xy) (zsOf zs) k = some (len3D sqrt xy zs k)
  | 0, _ => rfl
  | k + 1, h => by
    have hk : k < xy.length := by omega
    have h0 : xy[k]? = some xy[k] := List.getElem?_eq_getElem hk
    have h1 : xy[k + 1]? = some xy[k + 1] := List.getElem?_eq_getElem h
    have z0 : zs[k]? = some (zs[k]'(hz ▸ hk)) := List.getElem?_eq_getElem (hz ▸ hk)
    have z1 : zs[k + 1]? = some (zs[k + 1]'(hz ▸ h)) := List.getElem?_eq_getElem (hz ▸ h)
    unfold lenF
    rw [lenF_opt sqrt ofNat isNaN xy zs hz k hk]
    simp only [xsOf, ysOf, zsOf, List.getElem?_map, h0, h1, z0, z1, Option.map_some, len3D]
    rfl

theorem durF_opt (sqrt : α → α) (ofNat : Nat → α) (isNaN : α → Bool) (ts : List α) (h : 0 < ts.length) :
    durF (optG sqrt ofNat isNaN) (tsOf ts) ts.length = some (ts[ts.length - 1]'(by omega) - ts[0]'h) := by
  unfold durF
  simp only [tsOf, List.getElem?_map, List.getElem?_eq_getElem h,
    List.getElem?_eq_getElem (show ts.length - 1 < ts.length by omega), Option.map_some]
  rfl

theorem sortedF_opt (sqrt : α → α) (ofNat : Nat → α) (isNaN : α → Bool) (ts : List α) :
    ∀ k (hk : k < ts.length),
      (sortedF (optG sqrt ofNat isNaN) (tsOf ts) k = true
        ↔ ∀ i (h : i + 1 ≤ k), ¬ (ts[i + 1]'(by omega) - ts[i]'(by omega) ≤ 0))
  | 0, _ => by simp [sortedF]
  | k + 1, h => by
    have hk : k < ts.length := by omega
    have ih := sortedF_opt sqrt ofNat isNaN ts k hk
    unfold sortedF
    simp only [tsOf, List.getElem?_map, List.getElem?_eq_getElem hk, List.getElem?_eq_getElem h, Option.map_some]
    have hstep : (!(optG sqrt ofNat isNaN).nonpos ((optG sqrt ofNat isNaN).sub (some ts[k + 1]) (some ts[k]))) = true
        ↔ ¬ (ts[k + 1] - ts[k] ≤ 0) := by
      show (!decide (ts[k + 1] - ts[k] ≤ 0)) = true ↔ _
      simp
    by_cases hs : sortedF (optG sqrt ofNat isNaN) (tsOf ts) k = true
    · have hs' : sortedF (optG sqrt ofNat isNaN) (List.map some ts) k = true := hs
      simp only [hs', Bool.not_true, Bool.false_eq_true, if_false]
      rw [hstep]
      constructor
      · intro hlast i hi
        by_cases hik : i + 1 ≤ k
        · exact (ih.1 hs) i hik
        · have : i = k := by omega
          subst this
          exact hlast
      · intro hall
        exact hall k (le_refl _)
    · have hs' : sortedF (optG sqrt ofNat isNaN) (List.map some ts) k = false := by
        have : sortedF (optG sqrt ofNat isNaN) (tsOf ts) k = false := by simpa using hs
        exact this
      simp only [hs', Bool.not_false, if_true, Bool.false_eq_true, false_iff]
      intro hall
      exact hs (ih.2 (fun i hi => hall i (by omega)))

end opt
end TV.CinTab
