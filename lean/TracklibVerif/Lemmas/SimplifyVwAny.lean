import TracklibVerif.Lemmas.SimplifyTrack
/-! Visvalingam **without any hypothesis on the areas** (infinite, NaN, mixed columns, any pass): what the loop
guarantees on every input. The entry of the *last* observation is NaN from the start (`aire_visval` raises `IndexError`
there, `addAnalyticalFeature` stores NaN) and is never rewritten (the two neighbour updates are guarded by `id > 1`
and `id < size − 1`), so ARGMIN never designates it while more than two observations remain: the last observation
is never removed, every pass removes exactly one observation, and the loop stops by itself.
No property of the scalar type is used. -/
namespace TV.Simplify
set_option linter.unusedSectionVars false
variable {α : Type} [Add α] [Sub α] [Mul α] [Div α] [Neg α] [LT α] [DecidableLT α] [BEq α]
  [OfNat α 0] [OfNat α 1] [OfNat α 2]

/-- the weak invariant: the `'@aire'` entry of the last observation is NaN -/
def LastNaN (S : VState α) : Prop := ∃ p, S[S.length - 1]? = some (p, none)

/-- ARGMIN never designates the last entry of a column of more than one entry whose last entry is NaN -/
theorem argmin_not_last (big : α) (S : VState α) (hl : 1 < S.length) (h : LastNaN S) :
    argmin big (S.map (·.2)) + 1 < S.length := by
  rcases argmin_cases big (S.map (·.2)) with e | ⟨j, v, e1, e2⟩
  · rw [e]; omega
  · rw [e1]
    rw [List.getElem?_map] at e2
    have hjlt : j < S.length := by
      cases hx : S[j]? with
      | none => rw [hx] at e2; simp at e2
      | some e => exact (List.getElem?_eq_some_iff.mp hx).1
    by_cases hc : j = S.length - 1
    · obtain ⟨p, hp⟩ := h; rw [← hc] at hp; rw [hp] at e2; simp at e2
    · omega

/-- the body of one pass, for an index that is not the last: one observation less, the last entry untouched -/
theorem bodyL_any (S : VState α) (id : Nat) (h : LastNaN S) (h1 : id + 1 < S.length) :
    LastNaN (bodyL S id) ∧ (bodyL S id).length = S.length - 1 ∧
    (bodyL S id).map (·.1) = (S.map (·.1)).eraseIdx id := by
  have hl1 : (S.eraseIdx id).length = S.length - 1 := List.length_eraseIdx_of_lt (by omega)
  have n1 : LastNaN (S.eraseIdx id) := by
    obtain ⟨p, hp⟩ := h
    refine ⟨p, ?_⟩
    rw [hl1, List.getElem?_eraseIdx]
    have : ¬ (S.length - 1 - 1 < id) := by omega
    simp only [this, ↓reduceIte]
    rw [← hp]; congr 1; omega
  have n2 : LastNaN (if id > 1 then setAire (S.eraseIdx id) (id - 1) else S.eraseIdx id) := by
    split
    · obtain ⟨p, hp⟩ := n1
      refine ⟨p, ?_⟩
      rw [setAire_length, setAire_ne _ _ _ (by omega)]
      exact hp
    · exact n1
  have l2 : (if id > 1 then setAire (S.eraseIdx id) (id - 1) else S.eraseIdx id).length = S.length - 1 := by
    split
    · rw [setAire_length]; exact hl1
    · exact hl1
  have m2 : (if id > 1 then setAire (S.eraseIdx id) (id - 1) else S.eraseIdx id).map (·.1) = (S.map (·.1)).eraseIdx id := by
    split
    · rw [setAire_map_fst, map_eraseIdx']
    · rw [map_eraseIdx']
  unfold bodyL
  generalize (if id > 1 then setAire (S.eraseIdx id) (id - 1) else S.eraseIdx id) = S2 at n2 l2 m2 ⊢
  split
  · rename_i hlt
    refine ⟨?_, by rw [setAire_length]; exact l2, by rw [setAire_map_fst]; exact m2⟩
    obtain ⟨p, hp⟩ := n2
    refine ⟨p, ?_⟩
    rw [setAire_length, setAire_ne _ _ _ (by omega)]
    exact hp
  · exact ⟨n2, l2, m2⟩

/-- one pass, no hypothesis on the areas: exactly one observation is removed, and it is not the last one -/
theorem vwStep_any (big eps2 : α) (S S' : VState α) (h : LastNaN S) (hs : vwStep big eps2 S = some S') :
    LastNaN S' ∧ 2 < S.length ∧ S'.length = S.length - 1 ∧
    ∃ id, id + 1 < S.length ∧ S'.map (·.1) = (S.map (·.1)).eraseIdx id ∧ id = argmin big (S.map (·.2)) := by
  rw [vwStep_eq] at hs
  split at hs
  · rename_i hlen
    have h1 := argmin_not_last big S (by omega) h
    have hs' := ite_none_some hs
    subst hs'
    obtain ⟨a, b, c⟩ := bodyL_any S _ h h1
    exact ⟨a, hlen, b, _, h1, c, rfl⟩
  · cases hs

/-- the loop, any number of passes, no hypothesis on the areas: only removals, the last observation stays, a track of
two or more observations keeps at least two -/
theorem vwLoop_any (big eps2 : α) (fuel : Nat) :
    ∀ S : VState α, LastNaN S →
      LastNaN (vwLoop big eps2 fuel S) ∧
      ((vwLoop big eps2 fuel S).map (·.1)).Sublist (S.map (·.1)) ∧
      ((vwLoop big eps2 fuel S).map (·.1)).getLast? = (S.map (·.1)).getLast? ∧
      (2 ≤ S.length → 2 ≤ (vwLoop big eps2 fuel S).length) := by
  induction fuel with
  | zero => intro S h; exact ⟨h, List.Sublist.refl _, rfl, fun h => h⟩
  | succ fuel ih =>
    intro S h
    rw [vwLoop]
    cases hs : vwStep big eps2 S with
    | none => exact ⟨h, List.Sublist.refl _, rfl, fun h => h⟩
    | some S' =>
      obtain ⟨hi, hl, hl', id, h1, hm, _⟩ := vwStep_any big eps2 S S' h hs
      obtain ⟨r1, r2, r3, r4⟩ := ih S' hi
      refine ⟨r1, ?_, ?_, fun _ => r4 (by omega)⟩
      · exact r2.trans (by rw [hm]; exact List.eraseIdx_sublist _ _)
      · rw [r3, hm, getLast?_eraseIdx_interior _ _ (by rw [List.length_map]; exact h1)]

/-- termination without hypothesis: `size − 2` passes are enough for the loop to stop by itself -/
theorem vwLoop_stops_any (big eps2 : α) (fuel : Nat) :
    ∀ S : VState α, LastNaN S → S.length ≤ fuel + 2 →
      vwStep big eps2 (vwLoop big eps2 fuel S) = none := by
  induction fuel with
  | zero =>
    intro S _ hl
    rw [vwLoop]; unfold vwStep
    have : ¬ S.length > 2 := by omega
    simp only [this, ↓reduceIte]
  | succ fuel ih =>
    intro S h hl
    rw [vwLoop]
    cases hs : vwStep big eps2 S with
    | none => exact hs
    | some S' =>
      obtain ⟨hi, _, hl', _⟩ := vwStep_any big eps2 S S' h hs
      exact ih S' hi (by omega)

/-- the initial column of a non-empty track ends with NaN -/
theorem vwInit_lastNaN (L : List (Fix α)) (h1 : 1 ≤ L.length) : LastNaN (vwInit L) := by
  have hlen : (vwInit L).length = L.length := by
    have := congrArg List.length (vwInit_map_fst L)
    rwa [List.length_map] at this
  refine ⟨L[L.length - 1], ?_⟩
  rw [vwInit_getElem?, hlen, List.getElem?_eq_getElem (by omega)]
  have e1 : L[L.length - 1 + 1]? = none := by
    rw [List.getElem?_eq_none_iff]; omega
  by_cases e0 : L.length - 1 = 0
  · simp only [Option.map_some, e0, ↓reduceIte]
  · simp only [Option.map_some, e0, ↓reduceIte, aireVisval, e1]
    split <;> simp_all

/-! ### the same on the `Track` object -/

/-- the rows keep their last observation, whatever the areas -/
theorem vwLoopT_last_any (big eps2 : α) (k : Nat) (fuel : Nat) :
    ∀ S : List (Ob α), HasK k S → LastNaN (absK k S) →
      (restK k (vwLoopT big eps2 k fuel S)).getLast? = (restK k S).getLast? := by
  induction fuel with
  | zero => intro S _ _; rfl
  | succ fuel ih =>
    intro S hk hv
    obtain ⟨hc, hr⟩ := vwStepT_spec big eps2 k S hk
    rw [vwLoopT]
    cases hs : vwStepT big eps2 k S with
    | none => rfl
    | some S' =>
      obtain ⟨hk', hr'⟩ := hr S' hs
      rw [hs] at hc
      obtain ⟨hv', _, _, id, h1, _, eid⟩ := vwStep_any big eps2 (absK k S) (absK k S') hv hc.symm
      have i2 := ih S' hk' hv'
      rw [← eid] at hr'
      rw [absK_length] at h1
      have hlen : (restK k S).length = S.length := by simp [restK]
      rw [i2, hr', getLast?_eraseIdx_interior _ _ (by omega)]

/-- `visvalingam` on a `Track` with a well-formed feature table without `'@aire'`, **no hypothesis on the areas**: the last
observation (feature row included) is kept -/
theorem vwTrk_last_any (big eps : α) (T O : Trk α) (hf : FreshTable T) (hne : T.pts ≠ [])
    (h : vwTrk big eps T = .ok O) : O.pts.getLast? = T.pts.getLast? := by
  rw [vwTrk_fresh big eps T hf hne] at h
  cases h
  have hv : LastNaN (absK T.dico.length (initRows T.pts)) := by
    rw [initRows_abs _ _ hf.rows]
    refine vwInit_lastNaN (fixes T.pts) ?_
    cases hp : T.pts with
    | nil => exact absurd hp hne
    | cons a l => simp [fixes]
  have := vwLoopT_last_any big (eps * eps) T.dico.length T.pts.length (initRows T.pts)
    (initRows_has _ _ hf.rows) hv
  rw [initRows_rest _ _ hf.rows] at this
  exact this

end TV.Simplify
