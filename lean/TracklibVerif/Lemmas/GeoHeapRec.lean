import TracklibVerif.Lemmas.GeoHeap
import TracklibVerif.Lemmas.GeoTrackRec
/-! Helper lemma for C14, heap level: the whole-track round trip whose base was chosen by the library (`Track.toENUCoords()`
without argument) survives in-place updates of every older object, the first position object included — the record is a
copy (`base.toGeoCoords()`), and the new positions are new objects. Same argument as `track_round_trip_survives_update'`. -/
namespace TV.Geo
open Real
variable (T : Trig ℝ)

/-- a Geo track goes to ENU *without argument* (the library takes the position object of the first observation as base);
the caller then updates any object that existed before the conversion (that first position object for instance); the
track comes back without argument: every position is its own Geo → ECEF → Geo image, the record being the first position
as it was at the time of the conversion -/
theorem track_default_round_trip_survives_update' (hT : Pyth T) (w : World ℝ) (ti : Nat) (t : HTrack)
    (ht : w.tracks[ti]? = some t) (p : V3 ℝ) (ps : List (V3 ℝ)) (ab : Option (BaseArg ℝ))
    (hA : Abs w.heap t ⟨.geo, p :: ps, ab⟩)
    (j k : Nat) (x : ℝ) (hj : j < w.heap.length) :
    ∃ w1 w2 w3 t3, w.trackToENU T ti .none = .ok w1 ∧ w1.set j k x = .ok w2 ∧ w2.trackToGeo T ti .none = .ok w3 ∧
      w3.tracks[ti]? = some t3 ∧
      Abs w3.heap t3 ⟨.geo, (p :: ps).map (fun g => ecefToGeo T (geoToEcef T g)), some (.pt (.geo p))⟩ := by
  have hne : (p :: ps) ≠ [] := List.cons_ne_nil _ _
  have h1 := trackToENU_sim T w ti t ht _ hA .none none rfl
  rw [toENU_geo_none T ⟨.geo, p :: ps, ab⟩ rfl p ps rfl, toENU_geo_pt T ⟨.geo, p :: ps, ab⟩ rfl hne (.geo p)] at h1
  simp only [Base.toGeo] at h1
  obtain ⟨w1, t1, hw1, ht1, hA1⟩ := SimRes_ok ti _ _ h1
  obtain ⟨t1', ht1', hfresh⟩ := trackToENU_fresh T w w1 ti .none hw1
  rw [ht1] at ht1'
  cases ht1'
  obtain ⟨l, hl⟩ := trackToENU_frame T w w1 ti .none hw1
  have hj1 : j < w1.heap.length := by rw [hl]; simp; omega
  have hoj : ∃ o, w1.heap[j]? = some o := ⟨w1.heap[j], by simp [hj1]⟩
  obtain ⟨o, ho⟩ := hoj
  let w2 : World ℝ := { w1 with heap := w1.heap.set j ⟨o.kind, o.v.set k x⟩ }
  have hw2 : w1.set j k x = .ok w2 := by simp [World.set, ho, w2]
  have hA2 : Abs w2.heap t1 _ := Abs_set_old w1.heap w.heap.length j _ hj t1 _ hfresh hA1
  have ht2 : w2.tracks[ti]? = some t1 := ht1
  have h3 := trackToGeo_sim T w2 ti t1 ht2 _ hA2 .none none rfl
  have hne' : ((p :: ps).map (fun g => geoToEnu T g (.geo p))) ≠ [] := by simp
  rw [toGeo_enu T ⟨.enu, (p :: ps).map (fun g => geoToEnu T g (.geo p)), some (.pt (.geo p))⟩ rfl hne' (.geo p) none rfl] at h3
  obtain ⟨w3, t3, hw3, ht3, hA3⟩ := SimRes_ok ti _ _ h3
  refine ⟨w1, w2, w3, t3, hw1, hw2, hw3, ht3, ?_⟩
  simp only [List.map_map] at hA3
  have : List.map ((fun q => enuToGeo T q (Base.geo p)) ∘ fun g => geoToEnu T g (Base.geo p)) (p :: ps)
      = List.map (fun g => ecefToGeo T (geoToEcef T g)) (p :: ps) := by
    apply List.map_congr_left
    intro g _
    exact enuToGeo_geoToEnu' T hT g (.geo p)
  rw [this] at hA3
  exact hA3
end TV.Geo
