import TracklibVerif.Lemmas.FeaturesSim
/-! Data lemmas about enumerations (`zipIdx`), the index remap of `removeAnalyticalFeature`, columns
(`colAt`) under the row edits of the primitives, and the simulation lemma of every primitive. -/
set_option linter.unusedSectionVars false
set_option linter.unusedSimpArgs false
namespace TV.Features
variable {V : Type} [Inhabited V]

/-- lookup in an enumeration -/
theorem find_zipIdx (ns : List String) (off : Nat) (n : String) (i : Nat)
    (h : find (ns.zipIdx off) n = some i) : off ≤ i ∧ i < off + ns.length ∧ ns[i - off]? = some n := by
  induction ns generalizing off with
  | nil => simp [find] at h
  | cons a rest ih =>
    simp only [find, List.zipIdx_cons, List.find?_cons] at h
    by_cases ha : (a == n) = true
    · simp only [ha] at h
      simp only [Option.map_some, Option.some.injEq] at h
      subst h
      have : a = n := by simpa using ha
      simp [this]
    · simp only [ha] at h
      have := ih (off + 1) (by simpa [find] using h)
      obtain ⟨h1, h2, h3⟩ := this
      refine ⟨by omega, by simp; omega, ?_⟩
      have : i - off = (i - (off + 1)) + 1 := by omega
      rw [this]; simpa using h3

theorem find_zipIdx_none (ns : List String) (off : Nat) (n : String)
    (h : find (ns.zipIdx off) n = none) : n ∉ ns := by
  induction ns generalizing off with
  | nil => simp
  | cons a rest ih =>
    simp only [find, List.zipIdx_cons, List.find?_cons] at h
    by_cases ha : (a == n) = true
    · simp [ha] at h
    · simp only [ha] at h
      have := ih (off + 1) (by simpa [find] using h)
      have hne : ¬ a = n := by simpa using ha
      simp only [List.mem_cons, not_or]
      exact ⟨fun e => hne e.symm, this⟩

/-- shifting all indices of an enumeration down by one -/
theorem zipIdx_dec (ns : List String) (off idx : Nat) (h : idx ≤ off) :
    (ns.zipIdx (off + 1)).map (fun p => (p.1, if p.2 > idx then p.2 - 1 else p.2)) = ns.zipIdx off := by
  induction ns generalizing off with
  | nil => simp
  | cons a rest ih =>
    simp only [List.zipIdx_cons, List.map_cons]
    rw [ih (off + 1) (by omega)]
    have : off + 1 > idx := by omega
    simp [this]

/-- the remap of `removeAnalyticalFeature` turns the enumeration of `ns` into the enumeration of `ns` without `name` -/
theorem remap_zipIdx (ns : List String) (hnd : ns.Nodup) (off : Nat) (name : String) (idx : Nat)
    (hf : find (ns.zipIdx off) name = some idx) :
    ((ns.zipIdx off).filter (fun p => !(p.1 == name))).map (fun p => (p.1, if p.2 > idx then p.2 - 1 else p.2))
      = (ns.erase name).zipIdx off := by
  induction ns generalizing off with
  | nil => simp [find] at hf
  | cons a rest ih =>
    have hnd' := (List.nodup_cons.mp hnd)
    simp only [find, List.zipIdx_cons, List.find?_cons] at hf
    by_cases ha : (a == name) = true
    · have hEq : a = name := by simpa using ha
      simp only [ha, Option.map_some, Option.some.injEq] at hf
      subst hf
      simp only [List.zipIdx_cons, List.filter_cons, ha, Bool.not_true, Bool.false_eq_true, if_false]
      have hnotin : name ∉ rest := by rw [← hEq]; exact hnd'.1
      have hfil : (rest.zipIdx (off + 1)).filter (fun p => !(p.1 == name)) = rest.zipIdx (off + 1) := by
        apply List.filter_eq_self.mpr
        intro p hp
        have : p.1 ∈ rest := by
          have := List.mem_map_of_mem (f := Prod.fst) hp
          simpa [List.zipIdx_map_fst] using this
        have : ¬ p.1 = name := fun e => hnotin (e ▸ this)
        simpa using this
      rw [hfil, zipIdx_dec rest off off (Nat.le_refl _)]
      simp [hEq]
    · have hne : ¬ a = name := by simpa using ha
      simp only [ha] at hf
      have hf' : find (rest.zipIdx (off + 1)) name = some idx := by simpa [find] using hf
      have hb := (find_zipIdx rest (off + 1) name idx hf').1
      simp only [List.zipIdx_cons, List.filter_cons, ha, Bool.not_false, if_true, List.map_cons]
      rw [ih hnd'.2 (off + 1) hf']
      have : ¬ off > idx := by omega
      simp only [this, if_false]
      rw [List.erase_cons_tail (by simpa using hne)]
      simp [List.zipIdx_cons]

theorem find_remap (d : List (String × Nat)) (name n : String) (hne : n ≠ name) (g : Nat → Nat) :
    find ((d.filter (fun p => !(p.1 == name))).map (fun p => (p.1, g p.2))) n = (find d n).map g := by
  induction d with
  | nil => simp [find]
  | cons p rest ih =>
    obtain ⟨a, i⟩ := p
    by_cases ha : (a == name) = true
    · have : a = name := by simpa using ha
      have hn : ¬ (a == n) = true := by
        intro h; have : a = n := by simpa using h
        exact hne (by rw [← this]; assumption)
      simp only [List.filter_cons, ha, Bool.not_true, Bool.false_eq_true, if_false]
      rw [ih]
      simp [find, List.find?_cons, hn]
    · simp only [List.filter_cons, ha, Bool.not_false, if_true, List.map_cons]
      by_cases hn : (a == n) = true
      · simp [find, List.find?_cons, hn]
      · have ih' := ih
        simp only [find] at ih' ⊢
        simp only [List.find?_cons, hn]
        exact ih'

/-! ### lookup in the abstraction -/

theorem lookup_map (d : List (String × Nat)) (g : Nat → List V) (name : String) :
    lookup (d.map (fun p => (p.1, g p.2))) name = (find d name).map g := by
  induction d with
  | nil => rfl
  | cons p t ih =>
    unfold lookup find at ih ⊢
    simp only [List.map_cons, List.find?_cons]
    by_cases h : (p.1 == name) = true
    · simp [h]
    · simp only [h]; exact ih

/-! ### what alignment says about the dict -/
section inv
variable {n : Nat} {st : St V}

theorem Inv.mem_iff (h : Inv n st) {p : String × Nat} : p ∈ st.dico ↔ (names st)[p.2]? = some p.1 := by
  rw [h.enum]
  have : (names ({ st with dico := (names st).zipIdx 0 } : St V)) = names st := by
    simp [names, List.zipIdx_map_fst]
  exact List.mem_zipIdx_iff_getElem?

theorem Inv.dico_length (_h : Inv n st) : st.dico.length = (names st).length := by simp [names]

theorem Inv.idx_lt (h : Inv n st) {p : String × Nat} (hp : p ∈ st.dico) : p.2 < st.dico.length := by
  have := h.mem_iff.mp hp
  rw [h.dico_length]
  exact (List.getElem?_eq_some_iff.mp this).1

theorem Inv.find_some (h : Inv n st) {name : String} {idx : Nat} (hf : find st.dico name = some idx) :
    idx < st.dico.length ∧ (names st)[idx]? = some name := by
  have hf' : find ((names st).zipIdx 0) name = some idx := by rw [← h.enum]; exact hf
  obtain ⟨_, hlt, hget⟩ := find_zipIdx (names st) 0 name idx hf'
  rw [h.dico_length]
  exact ⟨by omega, by simpa using hget⟩

theorem Inv.find_none (h : Inv n st) {name : String} (hf : find st.dico name = none) : name ∉ names st := by
  have hf' : find ((names st).zipIdx 0) name = none := by rw [← h.enum]; exact hf
  exact find_zipIdx_none _ 0 _ hf'

theorem Inv.idx_of_name (h : Inv n st) {name : String} {idx : Nat} (hf : find st.dico name = some idx)
    {p : String × Nat} (hp : p ∈ st.dico) (hn : (p.1 == name) = true) : p.2 = idx := by
  have hp' := h.mem_iff.mp hp
  obtain ⟨hlt, hget⟩ := h.find_some hf
  have e : p.1 = name := by simpa using hn
  rw [e, ← hget] at hp'
  have hl : p.2 < (names st).length := by rw [← h.dico_length]; exact h.idx_lt hp
  exact (List.getElem?_inj hl h.nodup).mp hp'

theorem Inv.idx_ne (h : Inv n st) {name : String} {idx : Nat} (hf : find st.dico name = some idx)
    {p : String × Nat} (hp : p ∈ st.dico) (hn : (p.1 == name) = false) : p.2 ≠ idx := by
  intro e
  have hp' := h.mem_iff.mp hp
  obtain ⟨_, hget⟩ := h.find_some hf
  rw [e, hget] at hp'
  have : name = p.1 := Option.some.inj hp'
  rw [this] at hn
  simp at hn

theorem Inv.row_lt (h : Inv n st) {p : String × Nat} (hp : p ∈ st.dico) : ∀ r ∈ st.rows, p.2 < r.length := by
  intro r hr
  rw [h.rows r hr]
  exact h.idx_lt hp

end inv

/-! ### columns under the row edits -/

theorem colAt_length (rows : List (List V)) (i : Nat) : (colAt rows i).length = rows.length := by
  simp [colAt]

theorem colAt_map_append_old (rows : List (List V)) (v : V) (i : Nat) (h : ∀ r ∈ rows, i < r.length) :
    colAt (rows.map (· ++ [v])) i = colAt rows i := by
  unfold colAt
  rw [List.map_map]
  apply List.map_congr_left
  intro r hr
  have := h r hr
  simp [List.getD_eq_getElem?_getD, List.getElem?_append_left this]

theorem colAt_map_append_new (rows : List (List V)) (v : V) (k : Nat) (h : ∀ r ∈ rows, r.length = k) :
    colAt (rows.map (· ++ [v])) k = List.replicate rows.length v := by
  unfold colAt
  rw [List.map_map]
  apply List.ext_getElem?
  intro j
  simp only [List.getElem?_map, List.getElem?_replicate]
  by_cases hj : j < rows.length
  · have hr : rows[j] ∈ rows := List.getElem_mem hj
    have hk := h _ hr
    simp [hj, List.getD_eq_getElem?_getD, ← hk]
  · simp [hj, List.getElem?_eq_none (Nat.le_of_not_lt hj)]

theorem appendCol_length (rows : List (List V)) (l : List V) : (appendCol rows l).length = rows.length := by
  induction rows generalizing l with
  | nil => cases l <;> simp [appendCol]
  | cons r rs ih => cases l <;> simp [appendCol, ih]

theorem appendCol_rows (rows : List (List V)) (l : List V) (k : Nat) (h : ∀ r ∈ rows, r.length = k)
    (hl : rows.length ≤ l.length) : ∀ r ∈ appendCol rows l, r.length = k + 1 := by
  induction rows generalizing l with
  | nil => cases l <;> simp [appendCol]
  | cons r rs ih =>
    cases l with
    | nil => simp at hl
    | cons v vs =>
      simp only [appendCol, List.mem_cons]
      intro r' hr'
      rcases hr' with rfl | hr'
      · simp [h r (by simp)]
      · exact ih vs (fun x hx => h x (by simp [hx])) (by simpa using hl) r' hr'

theorem colAt_appendCol_old (rows : List (List V)) (l : List V) (i : Nat) (h : ∀ r ∈ rows, i < r.length) :
    colAt (appendCol rows l) i = colAt rows i := by
  induction rows generalizing l with
  | nil => cases l <;> simp [appendCol, colAt]
  | cons r rs ih =>
    cases l with
    | nil => simp [appendCol]
    | cons v vs =>
      have h1 := h r (by simp)
      have := ih vs (fun x hx => h x (by simp [hx]))
      simp only [colAt, appendCol, List.map_cons] at this ⊢
      rw [this]
      simp [List.getD_eq_getElem?_getD, List.getElem?_append_left h1]

theorem colAt_appendCol_new (rows : List (List V)) (l : List V) (k : Nat) (h : ∀ r ∈ rows, r.length = k)
    (hl : rows.length ≤ l.length) : colAt (appendCol rows l) k = l.take rows.length := by
  induction rows generalizing l with
  | nil => cases l <;> simp [appendCol, colAt]
  | cons r rs ih =>
    cases l with
    | nil => simp at hl
    | cons v vs =>
      have h1 := h r (by simp)
      have := ih vs (fun x hx => h x (by simp [hx])) (by simpa using hl)
      simp only [colAt, appendCol, List.map_cons, List.length_cons, List.take_succ_cons] at this ⊢
      rw [this]
      simp [List.getD_eq_getElem?_getD, ← h1]

theorem colAt_map_set_same (rows : List (List V)) (idx : Nat) (v : V) (h : ∀ r ∈ rows, idx < r.length) :
    colAt (rows.map (·.set idx v)) idx = List.replicate rows.length v := by
  unfold colAt
  rw [List.map_map]
  apply List.ext_getElem?
  intro j
  simp only [List.getElem?_map, List.getElem?_replicate]
  by_cases hj : j < rows.length
  · have hr : rows[j] ∈ rows := List.getElem_mem hj
    have hk := h _ hr
    simp [hj, List.getD_eq_getElem?_getD, hk]
  · simp [hj, List.getElem?_eq_none (Nat.le_of_not_lt hj)]

theorem colAt_map_set_other (rows : List (List V)) (idx j : Nat) (v : V) (hne : j ≠ idx) :
    colAt (rows.map (·.set idx v)) j = colAt rows j := by
  unfold colAt
  rw [List.map_map]
  apply List.map_congr_left
  intro r _
  simp [List.getD_eq_getElem?_getD, List.getElem?_set, Ne.symm hne]

theorem writeCol_length (idx : Nat) (rows : List (List V)) (l : List V) : (writeCol idx rows l).length = rows.length := by
  induction rows generalizing l with
  | nil => cases l <;> simp [writeCol]
  | cons r rs ih => cases l <;> simp [writeCol, ih]

theorem writeCol_rows (idx : Nat) (rows : List (List V)) (l : List V) (k : Nat) (h : ∀ r ∈ rows, r.length = k) :
    ∀ r ∈ writeCol idx rows l, r.length = k := by
  induction rows generalizing l with
  | nil => cases l <;> simp [writeCol]
  | cons r rs ih =>
    cases l with
    | nil => simpa [writeCol] using h
    | cons v vs =>
      simp only [writeCol, List.mem_cons]
      intro r' hr'
      rcases hr' with rfl | hr'
      · simp [h r (by simp)]
      · exact ih vs (fun x hx => h x (by simp [hx])) r' hr'

theorem colAt_writeCol_other (rows : List (List V)) (l : List V) (idx j : Nat) (hne : j ≠ idx) :
    colAt (writeCol idx rows l) j = colAt rows j := by
  induction rows generalizing l with
  | nil => cases l <;> simp [writeCol, colAt]
  | cons r rs ih =>
    cases l with
    | nil => simp [writeCol]
    | cons v vs =>
      have := ih vs
      simp only [colAt, writeCol, List.map_cons] at this ⊢
      rw [this]
      simp [List.getD_eq_getElem?_getD, List.getElem?_set, Ne.symm hne]

theorem colAt_writeCol_same (rows : List (List V)) (l : List V) (idx : Nat) (h : ∀ r ∈ rows, idx < r.length) :
    colAt (writeCol idx rows l) idx = overwrite l (colAt rows idx) := by
  induction rows generalizing l with
  | nil => cases l <;> simp [writeCol, colAt, overwrite]
  | cons r rs ih =>
    cases l with
    | nil => simp [writeCol, overwrite]
    | cons v vs =>
      have h1 := h r (by simp)
      have := ih vs (fun x hx => h x (by simp [hx]))
      simp only [colAt, writeCol, List.map_cons, overwrite, List.length_cons, List.take_succ_cons,
        List.drop_succ_cons, List.cons_append, List.length_map] at this ⊢
      rw [this]
      simp [List.getD_eq_getElem?_getD, h1]

theorem colAt_set_same (rows : List (List V)) (i : Nat) (r : List V) (idx : Nat) (v : V)
    (h : idx < r.length) : colAt (rows.set i (r.set idx v)) idx = (colAt rows idx).set i v := by
  unfold colAt
  rw [List.map_set]
  simp [List.getD_eq_getElem?_getD, h]

theorem colAt_set_other (rows : List (List V)) (i : Nat) (r : List V) (idx j : Nat) (v : V)
    (hr : rows[i]? = some r) (hne : j ≠ idx) : colAt (rows.set i (r.set idx v)) j = colAt rows j := by
  unfold colAt
  rw [List.map_set]
  apply List.ext_getElem?
  intro k
  rw [List.getElem?_set]
  by_cases hk : i = k
  · subst hk
    simp [List.getD_eq_getElem?_getD, List.getElem?_set, Ne.symm hne, hr]
    exact (List.getElem?_eq_some_iff.mp hr).1
  · simp [hk]

theorem colAt_eraseIdx (rows : List (List V)) (idx j : Nat) (hne : j ≠ idx) :
    colAt (rows.map (·.eraseIdx idx)) (if j > idx then j - 1 else j) = colAt rows j := by
  unfold colAt
  rw [List.map_map]
  apply List.map_congr_left
  intro r _
  simp only [Function.comp, List.getD_eq_getElem?_getD, List.getElem?_eraseIdx]
  by_cases hgt : j > idx
  · have h1 : ¬ (j - 1 < idx) := by omega
    have h2 : j - 1 + 1 = j := by omega
    simp [hgt, h1, h2]
  · have h1 : j < idx := by omega
    simp [hgt, h1]

theorem mapM_getElem (rows : List (List V)) (idx : Nat) (h : ∀ r ∈ rows, idx < r.length) :
    rows.mapM (fun r => r[idx]?) = some (colAt rows idx) := by
  induction rows with
  | nil => simp [colAt]
  | cons r rs ih =>
    have h1 := h r (by simp)
    have := ih (fun x hx => h x (by simp [hx]))
    simp only [List.mapM_cons, this, colAt, List.map_cons]
    simp [List.getD_eq_getElem?_getD, h1]

/-! ### the primitives: concrete and specification tables simulate each other -/
section prims
variable {n : Nat}

/-- closes a `Sim` goal whose state is unchanged (possibly after `simp` has already closed parts of it) -/
macro "sim_done " h:term : tactic => `(tactic| first
  | exact ⟨$h, rfl, fun _ _ => trivial⟩
  | exact ⟨$h, trivial, trivial⟩
  | exact ⟨$h, rfl, trivial⟩
  | exact ⟨$h, trivial, fun _ _ => trivial⟩
  | exact ⟨$h, rfl, fun x hx => by cases hx⟩
  | exact ⟨$h, trivial, fun x hx => by cases hx⟩)

theorem abs_lookup (st : St V) (name : String) :
    lookup (abs st).cols name = (find st.dico name).map (colAt st.rows) := lookup_map _ _ _

theorem hasA_abs (st : St V) (name : String) : hasA (abs st) name = hasC st name := by
  simp [hasA, hasC, abs_lookup]

theorem abs_size {st : St V} (h : Inv n st) : (abs st).size = n := by simp [ATab.size, abs, h.xs]

theorem abs_coord (st : St V) (c : Coord) : (abs st).coord c = st.coord c := by
  cases c <;> rfl

theorem coord_length {st : St V} (h : Inv n st) (c : Coord) : (st.coord c).length = n := by
  cases c <;> simp [St.coord, h.xs, h.ys, h.zs, h.ts]

theorem sim_size : Sim n (fun k => k = n) (tblSt.size : M (St V) Nat) (tblATab.size : M (ATab V) Nat) := by
  intro st h
  refine ⟨h, ?_, ?_⟩
  · show (Except.ok (abs st).size, abs st) = (Except.ok st.rows.length, abs st)
    rw [abs_size h, h.size]
  · intro x hx
    have : (Except.ok st.rows.length : Except Err Nat) = Except.ok x := hx
    cases this; exact h.size

theorem sim_has (name : String) :
    Sim n (fun _ => True) (tblSt.has name : M (St V) Bool) (tblATab.has name : M (ATab V) Bool) := by
  intro st h
  refine ⟨h, ?_, fun _ _ => trivial⟩
  show (Except.ok (hasA (abs st) name), abs st) = (Except.ok (hasC st name), abs st)
  rw [hasA_abs]

theorem sim_names :
    Sim n (fun _ => True) (tblSt.names : M (St V) (List String)) (tblATab.names : M (ATab V) (List String)) := by
  intro st h
  refine ⟨h, ?_, fun _ _ => trivial⟩
  show (Except.ok ((abs st).cols.map Prod.fst), abs st) = (Except.ok (st.dico.map Prod.fst), abs st)
  simp [abs]

theorem sim_get (o : Ops V) (name : String) :
    Sim n (fun l => l.length = n) (getC o name) (getA o name) := by
  intro st h
  unfold getC getA
  cases hc : coord? name with
  | some c =>
    simp only [abs_coord]
    exact ⟨h, by first | trivial | rfl, fun x hx => by cases hx; exact coord_length h c⟩
  | none =>
    simp only
    by_cases h1 : (name == "timestamp") = true
    · simp only [h1, if_true]
      sim_done h
    · simp only [h1, if_false]
      by_cases h2 : (name == "idx") = true
      · simp only [h2, if_true, abs_size h, h.size]
        exact ⟨h, by first | trivial | rfl, fun x hx => by cases hx; simp⟩
      · simp only [h2, if_false, abs_lookup]
        cases hf : find st.dico name with
        | none => sim_done h
        | some idx =>
          have hlt := (h.find_some hf).1
          have hrow : ∀ r ∈ st.rows, idx < r.length := fun r hr => by rw [h.rows r hr]; exact hlt
          simp only [Option.map_some, mapM_getElem st.rows idx hrow]
          exact ⟨h, by first | trivial | rfl, fun x hx => by cases hx; rw [colAt_length, h.size]⟩

theorem sim_getObs (o : Ops V) (name : String) (i : Nat) :
    Sim n (fun _ => True) (getObsC o name i) (getObsA o name i) := by
  intro st h
  unfold getObsC getObsA
  cases hc : coord? name with
  | some c =>
    simp only [abs_coord]
    cases (st.coord c)[i]? <;> sim_done h
  | none =>
    simp only
    by_cases h1 : (name == "timestamp") = true
    · simp only [h1, if_true]
      sim_done h
    · simp only [h1, if_false]
      by_cases h2 : (name == "idx") = true
      · simp only [h2, if_true]
        sim_done h
      · simp only [h2, if_false, abs_lookup]
        cases hf : find st.dico name with
        | none => sim_done h
        | some idx =>
          have hlt := (h.find_some hf).1
          simp only [Option.map_some, colAt, List.getElem?_map]
          cases hr : st.rows[i]? with
          | none => sim_done h
          | some r =>
            have hmem : r ∈ st.rows := List.mem_of_getElem? hr
            have hl : idx < r.length := by rw [h.rows r hmem]; exact hlt
            simp only [Option.map_some, List.getD_eq_getElem?_getD, List.getElem?_eq_getElem hl, Option.getD_some]
            sim_done h

/-- alignment after registering a new name with one more value in every row -/
theorem inv_create {st : St V} (h : Inv n st) {name : String} (hf : find st.dico name = none)
    (rows' : List (List V)) (hlen : rows'.length = st.rows.length)
    (hrows : ∀ r ∈ rows', r.length = st.dico.length + 1) :
    Inv n { st with dico := st.dico ++ [(name, st.dico.length)], rows := rows' } := by
  have hn : names ({ st with dico := st.dico ++ [(name, st.dico.length)], rows := rows' } : St V) = names st ++ [name] := by
    simp [names]
  refine ⟨?_, ?_, ?_, ?_, h.xs, h.ys, h.zs, h.ts⟩
  · rw [hn, List.zipIdx_append]
    simp only [List.zipIdx_cons, List.zipIdx_nil, Nat.zero_add]
    rw [← h.enum, ← h.dico_length]
  · rw [hn]
    have := h.find_none hf
    exact List.nodup_append.mpr ⟨h.nodup, by simp, by
      intro a ha b hb
      simp at hb
      subst hb
      intro e; subst e; exact this ha⟩
  · intro r hr
    simp only [List.length_append, List.length_cons, List.length_nil]
    exact hrows r hr
  · simp only; rw [hlen]; exact h.size

theorem abs_create {st : St V} {name : String} (rows' : List (List V)) (c : List V)
    (hold : ∀ p ∈ st.dico, colAt rows' p.2 = colAt st.rows p.2) (hnew : colAt rows' st.dico.length = c) :
    abs ({ st with dico := st.dico ++ [(name, st.dico.length)], rows := rows' } : St V)
      = { abs st with cols := (abs st).cols ++ [(name, c)] } := by
  simp only [abs, List.map_append, List.map_cons, List.map_nil, hnew]
  congr 1
  congr 1
  apply List.map_congr_left
  intro p hp
  rw [hold p hp]

/-- createAnalyticalFeature (a list initialiser shorter than the track is refused on both sides, nothing changes) -/
theorem sim_create (name : String) (init : Init V) :
    Sim n (fun _ => True) (createC name init) (createA name init) := by
  intro st h
  unfold createC createA
  by_cases h1 : reserved name = true
  · simp only [h1, if_true]; sim_done h
  · simp only [h1, if_false, abs_size h, hasA_abs]
    have he : st.rows.isEmpty = (n == 0) := by
      rw [← h.size]; cases st.rows <;> simp
    rw [he]
    by_cases h2 : (n == 0) = true
    · simp only [h2, if_true]; sim_done h
    · simp only [h2, if_false]
      by_cases h3 : hasC st name = true
      · simp only [h3, if_true]; sim_done h
      · simp only [h3, if_false, Bool.false_eq_true]
        have hf : find st.dico name = none := by
          cases hfd : find st.dico name with
          | none => rfl
          | some i => simp [hasC, hfd] at h3
        have hlt : ∀ p ∈ st.dico, ∀ r ∈ st.rows, p.2 < r.length := fun p hp => h.row_lt hp
        cases init with
        | scalar v =>
          simp only
          refine ⟨inv_create h hf _ (by simp) ?_, ?_, fun _ _ => trivial⟩
          · intro r hr
            obtain ⟨r0, hr0, rfl⟩ := List.mem_map.mp hr
            simp [h.rows r0 hr0]
          · rw [abs_create (st := st) (name := name) _ (List.replicate n v)
              (fun p hp => colAt_map_append_old _ _ _ (hlt p hp))
              (by rw [colAt_map_append_new _ _ _ h.rows, h.size])]
        | list l =>
          simp only [h.size]
          by_cases hl : l.length < n
          · simp only [hl, if_true]; sim_done h
          simp only [hl, if_false]
          refine ⟨inv_create h hf _ (appendCol_length _ _) ?_, ?_, fun _ _ => trivial⟩
          · exact appendCol_rows _ _ _ h.rows (by rw [h.size]; omega)
          · rw [abs_create (st := st) (name := name) _ (l.take n)
              (fun p hp => colAt_appendCol_old _ _ _ (hlt p hp))
              (by rw [colAt_appendCol_new _ _ _ h.rows (by rw [h.size]; omega), h.size])]

/-- alignment after an edit of the rows that keeps their number and their lengths -/
theorem inv_rows {st : St V} (h : Inv n st) (rows' : List (List V)) (hlen : rows'.length = st.rows.length)
    (hrows : ∀ r ∈ rows', r.length = st.dico.length) : Inv n { st with rows := rows' } :=
  ⟨h.enum, h.nodup, hrows, by simp only; rw [hlen]; exact h.size, h.xs, h.ys, h.zs, h.ts⟩

theorem abs_replace {st : St V} (h : Inv n st) {name : String} {idx : Nat} (hf : find st.dico name = some idx)
    (rows' : List (List V)) (c : List V) (hsame : colAt rows' idx = c)
    (hother : ∀ j, j ≠ idx → colAt rows' j = colAt st.rows j) :
    abs ({ st with rows := rows' } : St V) = { abs st with cols := replaceCol (abs st).cols name c } := by
  simp only [abs, replaceCol, List.map_map]
  congr 1
  apply List.map_congr_left
  intro p hp
  simp only [Function.comp]
  cases hn : (p.1 == name) with
  | true => simp only [if_true]; rw [h.idx_of_name hf hp hn, hsame]
  | false => simp only [Bool.false_eq_true, if_false]; rw [hother _ (h.idx_ne hf hp hn)]

theorem isEmpty_rows {st : St V} (h : Inv n st) : st.rows.isEmpty = (n == 0) := by
  rw [← h.size]; cases st.rows <;> simp

/-- updateAnalyticalFeature (a short list is a partial overwrite on both sides) -/
theorem sim_update (name : String) (init : Init V) :
    Sim n (fun _ => True) (updateC name init) (updateA name init) := by
  intro st h
  unfold updateC updateA
  simp only [hasA_abs, abs_size h, isEmpty_rows h, abs_lookup]
  cases h1 : hasC st name with
  | false => simp only [Bool.not_false, if_true]; sim_done h
  | true =>
    simp only [Bool.not_true, Bool.false_eq_true, if_false]
    cases h2 : (n == 0) with
    | true => simp only [if_true]; sim_done h
    | false =>
      simp only [Bool.false_eq_true, if_false]
      cases hf : find st.dico name with
      | none => simp only [Option.map_none]; sim_done h
      | some idx =>
        have hlt := (h.find_some hf).1
        have hrow : ∀ r ∈ st.rows, idx < r.length := fun r hr => by rw [h.rows r hr]; exact hlt
        simp only [Option.map_some]
        cases init with
        | scalar v =>
          simp only
          refine ⟨inv_rows h _ (by simp) ?_, ?_, fun _ _ => trivial⟩
          · intro r hr
            obtain ⟨r0, hr0, rfl⟩ := List.mem_map.mp hr
            simp [h.rows r0 hr0]
          · rw [abs_replace h hf _ (List.replicate (colAt st.rows idx).length v)
              (by rw [colAt_map_set_same _ _ _ hrow, colAt_length])
              (fun j hj => colAt_map_set_other _ _ _ _ hj)]
        | list l =>
          simp only [h.size]
          refine ⟨inv_rows h _ (writeCol_length _ _ _) (writeCol_rows _ _ _ _ h.rows), ?_, fun _ _ => trivial⟩
          rw [abs_replace h hf _ (overwrite l (colAt st.rows idx))
              (colAt_writeCol_same _ _ _ hrow)
              (fun j hj => colAt_writeCol_other _ _ _ _ hj)]

theorem abs_setCoord (st : St V) (c : Coord) (l : List V) : abs (st.setCoord c l) = (abs st).setCoord c l := by
  cases c <;> rfl

theorem inv_setCoord {st : St V} (h : Inv n st) (c : Coord) (l : List V) (hl : l.length = n) :
    Inv n (st.setCoord c l) := by
  cases c
  · exact ⟨h.enum, h.nodup, h.rows, h.size, hl, h.ys, h.zs, h.ts⟩
  · exact ⟨h.enum, h.nodup, h.rows, h.size, h.xs, hl, h.zs, h.ts⟩
  · exact ⟨h.enum, h.nodup, h.rows, h.size, h.xs, h.ys, hl, h.ts⟩
  · exact ⟨h.enum, h.nodup, h.rows, h.size, h.xs, h.ys, h.zs, hl⟩

/-- setObsAnalyticalFeature -/
theorem sim_setObs (name : String) (i : Nat) (v : V) :
    Sim n (fun _ => True) (setObsC name i v) (setObsA name i v) := by
  intro st h
  unfold setObsC setObsA
  cases h1 : (name == "x" || name == "y" || name == "z") with
  | true =>
    simp only [if_true]
    cases hc : coord? name with
    | none => simp only; sim_done h
    | some c =>
      simp only [abs_coord]
      by_cases hi : i < (st.coord c).length
      · simp only [hi, if_true]
        exact ⟨inv_setCoord h c _ (by rw [List.length_set]; exact coord_length h c),
          by rw [abs_setCoord], fun _ _ => trivial⟩
      · simp only [hi, if_false]; sim_done h
  | false =>
    simp only [Bool.false_eq_true, if_false, abs_lookup]
    cases hf : find st.dico name with
    | none => simp only [Option.map_none]; sim_done h
    | some idx =>
      have hlt := (h.find_some hf).1
      simp only [Option.map_some, colAt_length]
      cases hr : st.rows[i]? with
      | none =>
        have : ¬ i < st.rows.length := by
          intro hlt'; rw [List.getElem?_eq_getElem hlt'] at hr; cases hr
        simp only [this, if_false]; sim_done h
      | some r =>
        have hi : i < st.rows.length := (List.getElem?_eq_some_iff.mp hr).1
        have hmem : r ∈ st.rows := List.mem_of_getElem? hr
        have hl : idx < r.length := by rw [h.rows r hmem]; exact hlt
        simp only [hi, hl, if_true]
        refine ⟨inv_rows h _ (by simp) ?_, ?_, fun _ _ => trivial⟩
        · intro r' hr'
          rcases List.mem_or_eq_of_mem_set hr' with h' | h'
          · exact h.rows r' h'
          · rw [h', List.length_set]; exact h.rows r hmem
        · rw [abs_replace h hf _ ((colAt st.rows idx).set i v)
            (colAt_set_same _ _ _ _ _ hl)
            (fun j hj => colAt_set_other _ _ _ _ _ _ hr hj)]

/-- alignment survives deletion: the remap of `removeAnalyticalFeature` re-enumerates the remaining names -/
theorem inv_remove {st : St V} (h : Inv n st) {name : String} {idx : Nat} (hf : find st.dico name = some idx) :
    Inv n { st with
      dico := (st.dico.filter (fun p => !(p.1 == name))).map (fun p => (p.1, if p.2 > idx then p.2 - 1 else p.2)),
      rows := st.rows.map (·.eraseIdx idx) } := by
  have hf' : find ((names st).zipIdx 0) name = some idx := by rw [← h.enum]; exact hf
  obtain ⟨hlt, hget⟩ := h.find_some hf
  have hmem : name ∈ names st := List.mem_of_getElem? hget
  have hd : (st.dico.filter (fun p => !(p.1 == name))).map (fun p => (p.1, if p.2 > idx then p.2 - 1 else p.2))
      = ((names st).erase name).zipIdx 0 := by
    have := remap_zipIdx (names st) h.nodup 0 name idx hf'
    rw [← h.enum] at this
    exact this
  have hn : names ({ st with
      dico := (st.dico.filter (fun p => !(p.1 == name))).map (fun p => (p.1, if p.2 > idx then p.2 - 1 else p.2)),
      rows := st.rows.map (·.eraseIdx idx) } : St V) = (names st).erase name := by
    show List.map Prod.fst _ = _
    rw [hd]; simp [List.zipIdx_map_fst]
  refine ⟨by rw [hn]; exact hd, by rw [hn]; exact h.nodup.erase _, ?_, by simp [h.size], h.xs, h.ys, h.zs, h.ts⟩
  intro r hr
  obtain ⟨r0, hr0, rfl⟩ := List.mem_map.mp hr
  have hl0 := h.rows r0 hr0
  simp only
  rw [hd, List.length_zipIdx, List.length_erase_of_mem hmem, List.length_eraseIdx, ← h.dico_length]
  have : idx < r0.length := by omega
  simp [this]; omega

/-- removeAnalyticalFeature -/
theorem sim_remove (name : String) : Sim n (fun _ => True) (removeC (V := V) name) (removeA name) := by
  intro st h
  unfold removeC removeA
  simp only [hasA_abs, abs_lookup]
  cases h1 : hasC st name with
  | false => simp only [Bool.not_false, if_true]; sim_done h
  | true =>
    simp only [Bool.not_true, Bool.false_eq_true, if_false]
    cases hf : find st.dico name with
    | none => simp only [Option.map_none]; sim_done h
    | some idx =>
      simp only [Option.map_some]
      refine ⟨inv_remove h hf, ?_, fun _ _ => trivial⟩
      simp only [abs, List.filter_map, List.map_map]
      congr 2
      apply List.map_congr_left
      intro p hp
      obtain ⟨hp1, hp2⟩ := List.mem_filter.mp hp
      have hn : (p.1 == name) = false := by simpa using hp2
      simp only [Function.comp]
      rw [colAt_eraseIdx _ _ _ (h.idx_ne hf hp1 hn)]

end prims
end TV.Features
