import TracklibVerif.Model.Features
namespace TV.Features
variable {V : Type}

def names (st : St V) : List String := st.dico.map Prod.fst

/-- the table is aligned: the dict is the enumeration of its names, names are distinct, every row has one value per name -/
structure Inv (st : St V) : Prop where
  enum : st.dico = (names st).zipIdx 0
  nodup : (names st).Nodup
  rows : ∀ r ∈ st.rows, r.length = st.dico.length

/-- lookup in an enumeration -/
theorem find_zipIdx (ns : List String) (off : Nat) (n : String) (i : Nat)
    (h : find (ns.zipIdx off) n = some i) : off ≤ i ∧ i < off + ns.length ∧ ns[i - off]? = some n := by
  induction ns generalizing off with
  | nil => simp [find] at h
  | cons a rest ih =>
    simp only [find, List.zipIdx_cons, List.find?_cons] at h
    by_cases ha : (a == n) = true
    · simp only [ha] at h
      simp only [Option.map_some, Option.some.injEq] at h
      subst h
      have : a = n := by simpa using ha
      simp [this]
    · simp only [ha] at h
      have := ih (off + 1) (by simpa [find] using h)
      obtain ⟨h1, h2, h3⟩ := this
      refine ⟨by omega, by simp; omega, ?_⟩
      have : i - off = (i - (off + 1)) + 1 := by omega
      rw [this]; simpa using h3

theorem find_zipIdx_none (ns : List String) (off : Nat) (n : String)
    (h : find (ns.zipIdx off) n = none) : n ∉ ns := by
  induction ns generalizing off with
  | nil => simp
  | cons a rest ih =>
    simp only [find, List.zipIdx_cons, List.find?_cons] at h
    by_cases ha : (a == n) = true
    · simp [ha] at h
    · simp only [ha] at h
      have := ih (off + 1) (by simpa [find] using h)
      have hne : ¬ a = n := by simpa using ha
      simp only [List.mem_cons, not_or]
      exact ⟨fun e => hne e.symm, this⟩

/-- shifting all indices of an enumeration down by one -/
theorem zipIdx_dec (ns : List String) (off idx : Nat) (h : idx ≤ off) :
    (ns.zipIdx (off + 1)).map (fun p => (p.1, if p.2 > idx then p.2 - 1 else p.2)) = ns.zipIdx off := by
  induction ns generalizing off with
  | nil => simp
  | cons a rest ih =>
    simp only [List.zipIdx_cons, List.map_cons]
    rw [ih (off + 1) (by omega)]
    have : off + 1 > idx := by omega
    simp [this]

/-- the remap of `removeAnalyticalFeature` turns the enumeration of `ns` into the enumeration of `ns` without `name` -/
theorem remap_zipIdx (ns : List String) (hnd : ns.Nodup) (off : Nat) (name : String) (idx : Nat)
    (hf : find (ns.zipIdx off) name = some idx) :
    ((ns.zipIdx off).filter (fun p => !(p.1 == name))).map (fun p => (p.1, if p.2 > idx then p.2 - 1 else p.2))
      = (ns.erase name).zipIdx off := by
  induction ns generalizing off with
  | nil => simp [find] at hf
  | cons a rest ih =>
    have hnd' := (List.nodup_cons.mp hnd)
    simp only [find, List.zipIdx_cons, List.find?_cons] at hf
    by_cases ha : (a == name) = true
    · have hEq : a = name := by simpa using ha
      simp only [ha, Option.map_some, Option.some.injEq] at hf
      subst hf
      simp only [List.zipIdx_cons, List.filter_cons, ha, Bool.not_true, Bool.false_eq_true, if_false]
      have hnotin : name ∉ rest := by rw [← hEq]; exact hnd'.1
      have hfil : (rest.zipIdx (off + 1)).filter (fun p => !(p.1 == name)) = rest.zipIdx (off + 1) := by
        apply List.filter_eq_self.mpr
        intro p hp
        have : p.1 ∈ rest := by
          have := List.mem_map_of_mem (f := Prod.fst) hp
          simpa [List.zipIdx_map_fst] using this
        have : ¬ p.1 = name := fun e => hnotin (e ▸ this)
        simpa using this
      rw [hfil, zipIdx_dec rest off off (Nat.le_refl _)]
      simp [hEq]
    · have hne : ¬ a = name := by simpa using ha
      simp only [ha] at hf
      have hf' : find (rest.zipIdx (off + 1)) name = some idx := by simpa [find] using hf
      have hb := (find_zipIdx rest (off + 1) name idx hf').1
      simp only [List.zipIdx_cons, List.filter_cons, ha, Bool.not_false, if_true, List.map_cons]
      rw [ih hnd'.2 (off + 1) hf']
      have : ¬ off > idx := by omega
      simp only [this, if_false]
      rw [List.erase_cons_tail (by simpa using hne)]
      simp [List.zipIdx_cons]
end TV.Features

namespace TV.Features
variable {V : Type}

theorem find_remap (d : List (String × Nat)) (name n : String) (hne : n ≠ name) (g : Nat → Nat) :
    find ((d.filter (fun p => !(p.1 == name))).map (fun p => (p.1, g p.2))) n = (find d n).map g := by
  induction d with
  | nil => simp [find]
  | cons p rest ih =>
    obtain ⟨a, i⟩ := p
    by_cases ha : (a == name) = true
    · have : a = name := by simpa using ha
      have hn : ¬ (a == n) = true := by
        intro h; have : a = n := by simpa using h
        exact hne (by rw [← this]; assumption)
      simp only [List.filter_cons, ha, Bool.not_true, Bool.false_eq_true, if_false]
      rw [ih]
      simp [find, List.find?_cons, hn]
    · simp only [List.filter_cons, ha, Bool.not_false, if_true, List.map_cons]
      by_cases hn : (a == n) = true
      · simp [find, List.find?_cons, hn]
      · have ih' := ih
        simp only [find] at ih' ⊢
        simp only [List.find?_cons, hn]
        exact ih'

theorem names_remove (st st' : St V) (name : String) (hinv : Inv st) (h : remove st name = .ok st') :
    st'.dico = ((names st).erase name).zipIdx 0 ∧ ∃ idx, find st.dico name = some idx ∧
      st'.rows = st.rows.map (·.eraseIdx idx) ∧ idx < st.dico.length ∧ name ∈ names st := by
  unfold remove at h
  cases hf : find st.dico name with
  | none => rw [hf] at h; cases h
  | some idx =>
    rw [hf] at h
    simp only [Except.ok.injEq] at h
    have hf' : find ((names st).zipIdx 0) name = some idx := by rw [← hinv.enum]; exact hf
    obtain ⟨_, hlt, hget⟩ := find_zipIdx (names st) 0 name idx hf'
    have hmem : name ∈ names st := List.mem_of_getElem? hget
    refine ⟨?_, idx, rfl, ?_, ?_, hmem⟩
    · rw [← h]
      simp only
      have := remap_zipIdx (names st) hinv.nodup 0 name idx hf'
      rw [← hinv.enum] at this
      exact this
    · rw [← h]
    · have : st.dico.length = (names st).length := by simp [names]
      omega

/-- C01: the invariant survives deletion -/
theorem inv_remove (st st' : St V) (name : String) (hinv : Inv st) (h : remove st name = .ok st') : Inv st' := by
  obtain ⟨hd, idx, hf, hr, hlt, hmem⟩ := names_remove st st' name hinv h
  have hn : names st' = (names st).erase name := by
    unfold names at *; rw [hd]; simp [List.zipIdx_map_fst]
  refine ⟨by rw [hn]; exact hd, by rw [hn]; exact hinv.nodup.erase _, ?_⟩
  intro r hr'
  rw [hr] at hr'
  obtain ⟨r0, hr0, rfl⟩ := List.mem_map.mp hr'
  have hl0 := hinv.rows r0 hr0
  have hlen : st'.dico.length = st.dico.length - 1 := by
    rw [hd]; simp only [List.length_zipIdx]
    rw [List.length_erase_of_mem hmem]; simp [names]
  rw [List.length_eraseIdx, hlen]
  have : idx < r0.length := by omega
  simp [this]; omega

/-- C01: deleting a feature never alters what is read under the remaining names -/
theorem read_remove (st st' : St V) (name n : String) (hinv : Inv st) (h : remove st name = .ok st')
    (hne : n ≠ name) : read st' n = read st n := by
  unfold remove at h
  cases hf : find st.dico name with
  | none => rw [hf] at h; cases h
  | some idx =>
    rw [hf] at h
    simp only [Except.ok.injEq] at h
    subst h
    unfold read
    simp only
    rw [find_remap st.dico name n hne (fun i => if i > idx then i - 1 else i)]
    cases hn : find st.dico n with
    | none => rfl
    | some i =>
      simp only [Option.map_some, Option.some.injEq, List.map_map]
      -- i ≠ idx because names are distinct
      have hi : find ((names st).zipIdx 0) n = some i := by rw [← hinv.enum]; exact hn
      have hx : find ((names st).zipIdx 0) name = some idx := by rw [← hinv.enum]; exact hf
      obtain ⟨_, hil, hig⟩ := find_zipIdx _ 0 n i hi
      obtain ⟨_, hxl, hxg⟩ := find_zipIdx _ 0 name idx hx
      have hneq : i ≠ idx := by
        intro e; subst e
        rw [hig] at hxg; exact hne (Option.some.inj hxg)
      apply List.map_congr_left
      intro r _
      simp only [Function.comp, List.getElem?_eraseIdx]
      by_cases hgt : i > idx
      · have h1 : ¬ (i - 1 < idx) := by omega
        have h2 : i - 1 + 1 = i := by omega
        simp [hgt, h1, h2]
      · have h1 : i < idx := by omega
        simp [hgt, h1]
end TV.Features
