import TracklibVerif.Model.TextIO
/-! Decimal printer / parser lemmas for C13 (core only). -/
namespace TV.TextIO

/-- characters that occur in a rendered number -/
def numChar (c : Char) : Bool := (digitVal? c).isSome || c = '-' || c = '.'

theorem digitVal_digitChar (k : Nat) (h : k < 10) : digitVal? (digitChar k) = some k := by
  have : ∀ k, k < 10 → digitVal? (digitChar k) = some k := by decide
  exact this k h

theorem digitChar_mod (n : Nat) : digitVal? (digitChar (n % 10)) = some (n % 10) :=
  digitVal_digitChar _ (Nat.mod_lt _ (by decide))

/-- every digit character: is a digit, hence not white space, sign, point, quote, newline … -/
theorem digitChar_props (k : Nat) :
    isWs (digitChar k) = false ∧ digitChar k ≠ '.' ∧ digitChar k ≠ '-' ∧ digitChar k ≠ '+' ∧
    (digitVal? (digitChar k)).isSome = true ∧ (digitChar k).toUpper = digitChar k := by
  unfold digitChar
  split <;> decide

theorem digit_of_digitVal {c : Char} (h : (digitVal? c).isSome = true) :
    isWs c = false ∧ c ≠ '.' ∧ c ≠ '-' ∧ c ≠ '+' ∧ c.toUpper = c := by
  unfold digitVal? at h
  repeat' split at h
  all_goals first | (subst_vars; decide) | simp at h

/-! ### padDigits / parseNatAux -/

theorem padDigits_length (k n : Nat) : (padDigits k n).length = k := by
  induction k generalizing n with
  | zero => rfl
  | succ k ih => simp [padDigits, ih]

theorem padDigits_digits (k n : Nat) : ∀ c ∈ padDigits k n, (digitVal? c).isSome = true := by
  induction k generalizing n with
  | zero => simp [padDigits]
  | succ k ih =>
    intro c hc
    simp only [padDigits, List.mem_append, List.mem_singleton] at hc
    rcases hc with hc | hc
    · exact ih _ c hc
    · subst hc; exact (digitChar_props _).2.2.2.2.1

theorem parseNatAux_append (a b : Str) (acc : Nat) :
    parseNatAux (a ++ b) acc = (parseNatAux a acc).bind (parseNatAux b) := by
  induction a generalizing acc with
  | nil => rfl
  | cons c cs ih =>
    simp only [List.cons_append, parseNatAux]
    cases digitVal? c with
    | none => rfl
    | some d => exact ih _

theorem parseNatAux_padDigits (k n acc : Nat) :
    parseNatAux (padDigits k n) acc = some (acc * 10 ^ k + n % 10 ^ k) := by
  induction k generalizing n acc with
  | zero => simp [padDigits, parseNatAux, Nat.mod_one]
  | succ k ih =>
    simp only [padDigits, parseNatAux_append, ih, Option.bind_some, parseNatAux, digitChar_mod]
    congr 1
    have h1 : n % 10 ^ (k + 1) = (n / 10 % 10 ^ k) * 10 + n % 10 := by
      rw [Nat.pow_succ, Nat.mul_comm, Nat.mod_mul]
      omega
    rw [h1, Nat.pow_succ]
    simp only [Nat.add_mul, Nat.mul_assoc, Nat.add_assoc]

theorem numDigitsF_pos (f n : Nat) : 1 ≤ numDigitsF f n := by
  cases f with
  | zero => simp [numDigitsF]
  | succ f => unfold numDigitsF; split <;> omega

theorem numDigits_pos (n : Nat) : 1 ≤ numDigits n := numDigitsF_pos _ _

theorem lt_pow_numDigitsF (f n : Nat) (h : n ≤ f) : n < 10 ^ numDigitsF f n := by
  induction f generalizing n with
  | zero => have : n = 0 := by omega
            subst this; simp [numDigitsF]
  | succ f ih =>
    unfold numDigitsF
    split
    · simpa using ‹n < 10›
    · have := ih (n / 10) (by omega)
      rw [Nat.add_comm, Nat.pow_succ]
      omega

theorem lt_pow_numDigits (n : Nat) : n < 10 ^ numDigits n := lt_pow_numDigitsF n n (Nat.le_refl n)

theorem numDigitsF_le (f v w : Nat) (h : v < 10 ^ w) (hw : 1 ≤ w) : numDigitsF f v ≤ w := by
  induction f generalizing v w with
  | zero => simpa [numDigitsF] using hw
  | succ f ih =>
    unfold numDigitsF
    split
    · exact hw
    · cases w with
      | zero => omega
      | succ w =>
        have hw' : 1 ≤ w := by
          cases w with
          | zero => simp at h; omega
          | succ _ => omega
        have := ih (v / 10) w (by rw [Nat.pow_succ] at h; omega) hw'
        omega

theorem natStr_ne_nil (n : Nat) : natStr n ≠ [] := by
  intro h
  have := congrArg List.length h
  simp [natStr, padDigits_length] at this
  have := numDigits_pos n
  omega

theorem parseNatAux_natStr (n acc : Nat) :
    parseNatAux (natStr n) acc = some (acc * 10 ^ numDigits n + n) := by
  rw [natStr, parseNatAux_padDigits, Nat.mod_eq_of_lt (lt_pow_numDigits n)]

theorem parseNat_natStr (n : Nat) : parseNat? (natStr n) = some n := by
  unfold parseNat?
  have h := natStr_ne_nil n
  cases hs : natStr n with
  | nil => exact absurd hs h
  | cons c cs => simp [← hs, parseNatAux_natStr, h]

/-- `"{:0wd}".format(v)` has exactly `w` characters when `v` has at most `w` digits -/
theorem zpad_length (w v : Nat) (h : v < 10 ^ w) (hw : 1 ≤ w) : (zpad w v).length = w := by
  unfold zpad
  rw [padDigits_length]
  have : numDigits v ≤ w := numDigitsF_le _ _ _ h hw
  omega

theorem parseNat_zpad (w v : Nat) : parseNat? (zpad w v) = some v := by
  unfold parseNat? zpad
  have hlen : (padDigits (max w (numDigits v)) v).length = max w (numDigits v) := padDigits_length _ _
  have hpos : 1 ≤ max w (numDigits v) := by have := numDigits_pos v; omega
  cases hs : padDigits (max w (numDigits v)) v with
  | nil => rw [hs] at hlen; simp at hlen; omega
  | cons c cs =>
    rw [← hs]
    simp only [hs, List.isEmpty_cons, Bool.false_eq_true, ↓reduceIte]
    rw [← hs, parseNatAux_padDigits]
    have h1 : v < 10 ^ numDigits v := lt_pow_numDigits v
    have h2 : 10 ^ numDigits v ≤ 10 ^ max w (numDigits v) := Nat.pow_le_pow_right (by decide) (by omega)
    rw [Nat.mod_eq_of_lt (by omega)]
    simp

/-! ### strip -/

theorem lstrip_cons_of_not_ws {c : Char} (s : Str) (h : isWs c = false) : lstrip (c :: s) = c :: s := by
  simp [lstrip, List.dropWhile, h]

theorem lstrip_replicate_append (k : Nat) (s : Str) : lstrip (List.replicate k ' ' ++ s) = lstrip s := by
  induction k with
  | zero => rfl
  | succ k ih =>
    simp only [List.replicate_succ, List.cons_append, lstrip, List.dropWhile]
    have : isWs ' ' = true := by decide
    simp only [this]
    exact ih

theorem rstrip_append_of_not_ws (s : Str) {c : Char} (h : isWs c = false) : rstrip (s ++ [c]) = s ++ [c] := by
  simp [rstrip, h]

/-- a string that starts and ends with non-blank characters is its own `strip()`, also after left padding -/
theorem strip_lpad (w : Nat) (s : Str) (a b : Char) (m : Str) (hs : s = a :: (m ++ [b]))
    (ha : isWs a = false) (hb : isWs b = false) : strip (lpad w s) = s := by
  unfold strip lpad
  rw [lstrip_replicate_append, hs, lstrip_cons_of_not_ws _ ha]
  have : a :: (m ++ [b]) = (a :: m) ++ [b] := rfl
  rw [this, rstrip_append_of_not_ws _ hb]

theorem strip_self (s : Str) (a b : Char) (m : Str) (hs : s = a :: (m ++ [b]))
    (ha : isWs a = false) (hb : isWs b = false) : strip s = s := by
  have := strip_lpad 0 s a b m hs ha hb
  simpa [lpad] using this

end TV.TextIO
