import TracklibVerif.Lemmas.GridReturns
/-! Sequences of later additions on one index (`Network.addEdge` on an indexed network = the registration loop
`addFeatures` started at the running number of edges): every addition inside the extent returns, keeps the index
`Good`, keeps what was registered, and registers the new track under its number. -/
namespace TV.Grid

section scalar
variable {α : Type} [Field α] [LinearOrder α] [IsStrictOrderedRing α]

omit [Field α] [IsStrictOrderedRing α] in
theorem cellOf_same {fl : α → Int} {ix ix' : Index α} (h : Same ix ix') (c : α × α) : cellOf fl ix' c = cellOf fl ix c := by
  obtain ⟨_, _, _, _, e5, e6, _, _⟩ := h
  unfold cellOf
  rw [e5, e6]

/-- the registration loop started at number `n` on a `Good` index, every vertex of every track inside the extent:
it returns a `Good` extension of the index in which the `k`-th track is registered under `n + k` in the cell of each
of its points -/
theorem addFeatures_inside_complete {fl : α → Int} (hf : IsFloor fl) (tracks : List (List (α × α))) :
    ∀ (ix : Index α) (n : Nat), Good ix → (∀ t ∈ tracks, ∀ p ∈ t, getCell ix p ≠ none) →
      ∃ ix', addFeatures fl ix n tracks = .ok ix' ∧ Good ix' ∧ Ext ix ix' ∧
        ∀ (k : Nat) (t : List (α × α)), tracks[k]? = some t → ∀ A B, (A, B) ∈ Consec t → ∀ s : α, 0 ≤ s → s ≤ 1 →
          ∃ c, getCell ix' (lerp A B s) = some c ∧ Holds ix'.grid (cellOf fl ix' c).1 (cellOf fl ix' c).2 (n + k) := by
  induction tracks with
  | nil =>
    intro ix n hg _
    exact ⟨ix, rfl, hg, Ext.refl ix, by intro k t hk; simp at hk⟩
  | cons t rest ih =>
    intro ix n hg hin
    obtain ⟨ix1, h1, hg1, e1, hreg⟩ := addFeature_complete hf ix hg t n (hin t (List.mem_cons_self ..))
    have hin1 : ∀ t' ∈ rest, ∀ p ∈ t', getCell ix1 p ≠ none := by
      intro t' ht' p hp
      rw [getCell_same e1.1 p]
      exact hin t' (List.mem_cons_of_mem _ ht') p hp
    obtain ⟨ix', h2, hg', e2, hrest⟩ := ih ix1 (n + 1) hg1 hin1
    refine ⟨ix', by unfold addFeatures; simp only [h1, h2], hg', Ext.trans e1 e2, ?_⟩
    intro k t' hk A B hAB s hs0 hs1
    cases k with
    | zero =>
      simp only [List.getElem?_cons_zero, Option.some.injEq] at hk
      subst hk
      obtain ⟨c, hc, hH⟩ := hreg A B hAB s hs0 hs1
      refine ⟨c, by rw [getCell_same e2.1]; exact hc, ?_⟩
      rw [cellOf_same e2.1]
      exact e2.2 _ _ _ hH
    | succ k =>
      simp only [List.getElem?_cons_succ] at hk
      obtain ⟨c, hc, hH⟩ := hrest k t' hk A B hAB s hs0 hs1
      refine ⟨c, hc, ?_⟩
      have : n + (k + 1) = n + 1 + k := by omega
      rw [this]
      exact hH

end scalar
end TV.Grid
