import TracklibVerif.Lemmas.CinTabHoare
import TracklibVerif.Lemmas.FeaturesResult
/-! The specification table `Features.ATab` (name ↦ column) satisfies the laws of a feature table. -/
set_option linter.unusedSectionVars false
namespace TV.CinTab
open TV.Features

variable {V : Type} [Inhabited V]

/-- every column, and every coordinate column, has one value per observation -/
def aI (a : ATab V) : Prop :=
  (∀ p ∈ a.cols, p.2.length = a.size) ∧ a.ys.length = a.size ∧ a.zs.length = a.size ∧ a.ts.length = a.size

/-- what a feature name reads -/
def aRd (a : ATab V) (name : String) : Option (List V) := if reserved name then none else lookup a.cols name

theorem aRd_nr (a : ATab V) {name : String} (hr : reserved name = false) : aRd a name = lookup a.cols name := by
  simp [aRd, hr]

theorem coord?_cnm (c : Coord) : coord? (cnm c) = some c := by cases c <;> rfl

theorem aI_cols {a : ATab V} (h : aI a) (cols' : List (String × List V)) (hc : ∀ p ∈ cols', p.2.length = a.size) :
    aI { a with cols := cols' } := ⟨hc, h.2.1, h.2.2.1, h.2.2.2⟩

theorem laws_ATab : Laws (σ := ATab V) (V := V) aI ATab.size aRd ATab.coord where
  size := fun _ => rfl
  has := by
    intro a name _ hr
    show (Except.ok (hasA a name), a) = _
    simp [hasA, hr, aRd]
  co_len := by
    intro a c h
    cases c with
    | x => rfl
    | y => exact h.2.1
    | z => exact h.2.2.1
    | t => exact h.2.2.2
  rd_len := by
    intro a name col h hrd
    by_cases hr : reserved name = true
    · simp [aRd, hr] at hrd
    · rw [aRd_nr a (by simpa using hr)] at hrd
      obtain ⟨p, hp, rfl⟩ := lookup_mem _ _ _ hrd
      exact h.1 p hp
  getObs_coord := by
    intro o a c i v _ hv
    show getObsA o (cnm c) i a = _
    unfold getObsA
    simp only [coord?_cnm, hv]
  getObs_feat := by
    intro o a name col i v _ hr hrd hv
    rw [aRd_nr a hr] at hrd
    obtain ⟨h1, h2, h3⟩ := coord?_of_not_reserved hr
    show getObsA o name i a = _
    unfold getObsA
    simp only [h1, h2, h3, Bool.false_eq_true, if_false, hrd, hv]
  get_feat := by
    intro o a name col _ hr hrd
    rw [aRd_nr a hr] at hrd
    obtain ⟨h1, h2, h3⟩ := coord?_of_not_reserved hr
    show getA o name a = _
    unfold getA
    simp only [h1, h2, h3, Bool.false_eq_true, if_false, hrd]
  create_new := by
    intro a name v h hr hrd hn
    rw [aRd_nr a hr] at hrd
    refine ⟨{ a with cols := a.cols ++ [(name, List.replicate a.size v)] }, List.replicate a.size v,
      createA_new a name (.scalar v) hr (by omega) hrd trivial, ?_, ?_, rfl, ?_, rfl⟩
    · refine aI_cols h _ ?_
      intro p hp
      simp only [List.mem_append, List.mem_cons, List.not_mem_nil, or_false] at hp
      rcases hp with hp | rfl
      · exact h.1 p hp
      · simp
    · rw [aRd_nr _ hr]
      show lookup (a.cols ++ [(name, List.replicate a.size v)]) name = _
      rw [lookup_append_new _ _ _ _ hrd]; simp
    · intro m hm
      simp only [aRd]
      show (if reserved m = true then none else lookup (a.cols ++ [(name, List.replicate a.size v)]) m) = _
      rw [lookup_append_new _ _ _ _ hrd]; simp [hm]
  create_old := by
    intro a name v col _ hr hrd hn
    rw [aRd_nr a hr] at hrd
    exact createA_existing a name (.scalar v) hr (by omega) (by rw [hrd]; rfl)
  setObs := by
    intro a name col i v h hr hrd hi
    have hrd0 := hrd
    rw [aRd_nr a hr] at hrd
    have hlen : col.length = a.size := by
      obtain ⟨p, hp, rfl⟩ := lookup_mem _ _ _ hrd
      exact h.1 p hp
    refine ⟨{ a with cols := replaceCol a.cols name (col.set i v) }, setObsA_ok a name i v col hr hrd (by omega), ?_, ?_, rfl, ?_, rfl⟩
    · refine aI_cols h _ ?_
      intro p hp
      simp only [replaceCol, List.mem_map] at hp
      obtain ⟨q, hq, rfl⟩ := hp
      by_cases hqn : (q.1 == name) = true
      · simp [hqn, hlen]
      · simp [hqn]; exact h.1 q hq
    · rw [aRd_nr _ hr]
      show lookup (replaceCol a.cols name (col.set i v)) name = _
      rw [lookup_replaceCol, hrd]; simp
    · intro m hm
      simp only [aRd]
      show (if reserved m = true then none else lookup (replaceCol a.cols name (col.set i v)) m) = _
      rw [lookup_replaceCol]; simp [hm]
  remove := by
    intro a name col h hr hrd
    rw [aRd_nr a hr] at hrd
    refine ⟨{ a with cols := a.cols.filter (fun p => !(p.1 == name)) }, removeA_ok a name (by rw [hrd]; rfl), ?_, ?_, rfl, ?_, rfl⟩
    · refine aI_cols h _ ?_
      intro p hp
      exact h.1 p (List.mem_filter.mp hp).1
    · rw [aRd_nr _ hr]
      exact lookup_filter_self a.cols name
    · intro m hm
      simp only [aRd]
      show (if reserved m = true then none else lookup (a.cols.filter (fun p => !(p.1 == name))) m) = _
      rw [lookup_filter_ne _ _ _ hm]

end TV.CinTab
