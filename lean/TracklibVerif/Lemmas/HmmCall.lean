import TracklibVerif.Lemmas.HmmPos
import Mathlib.Tactic.SplitIfs
/-! The user functions are evaluated on the track of the call (`Model/Hmm.lean`): `estimate` depends on `S`, `Q`, `P`
only through their values on the track it is handed, as that track is WHEN THE CALL IS MADE — whatever the functions
would return on any other track, in particular on the half-written tracks the call itself goes through (result
features created, later epochs already written, positions of later epochs already rebound in the modes 3, 4, 5). -/
namespace TV.Hmm
open TV.Viterbi
variable {α : Type}

/-- two objects define the same model ON THE TRACK `tr`: same candidates, same values of `Q` and `P`, same flag
(on every other track they may differ) -/
def AgreeOn (h1 h2 : Obj α) (tr : Trk α) : Prop :=
  (∀ k, h1.S tr k = h2.S tr k) ∧ (∀ a b k, h1.Q a b k tr = h2.Q a b k tr) ∧
  (∀ s y k, h1.P s y k tr = h2.P s y k tr) ∧ h1.log = h2.log

theorem tablesOf_congr [Add α] [Neg α] (nm : Num α) (h1 h2 : Obj α) (tr : Trk α) (ST : List (List Nat))
    (OBS : List (List (ObsItem α))) (hQ : ∀ a b k, h1.Q a b k tr = h2.Q a b k tr)
    (hP : ∀ s y k, h1.P s y k tr = h2.P s y k tr) (hl : h1.log = h2.log) :
    tablesOf nm h1 tr ST OBS = tablesOf nm h2 tr ST OBS := by
  unfold tablesOf
  simp only [hQ, hP, hl]

theorem estimate_congr [Add α] [Neg α] [LT α] [DecidableLT α] [BEq α] (nm : Num α) (h1 h2 : Obj α) (tr : Trk α)
    (obs : List String) (log : Bool) (mode : Nat) (h : AgreeOn h1 h2 tr) :
    (estimate nm h1 tr obs log mode).2 = (estimate nm h2 tr obs log mode).2 ∧
    (estimate nm h1 tr obs log mode).1.log = (estimate nm h2 tr obs log mode).1.log := by
  obtain ⟨hS, hQ, hP, hl⟩ := h
  have hST : (List.range tr.size).map (h1.S tr) = (List.range tr.size).map (h2.S tr) :=
    List.map_congr_left (fun k _ => hS k)
  have hT : ∀ ST OBS, tablesOf nm { h1 with log := h1.log || log } tr ST OBS
      = tablesOf nm { h2 with log := h2.log || log } tr ST OBS :=
    fun ST OBS => tablesOf_congr nm _ _ tr ST OBS hQ hP (by simp [hl])
  unfold estimate
  simp only [hST, hl]
  constructor <;> (repeat' split) <;> simp_all

/-- the object whose functions ignore the track they are handed and answer as they do on `tr0`: the candidate lists and
likelihood tables "frozen" when the track was `tr0` -/
def Obj.frozen (h : Obj α) (tr0 : Trk α) : Obj α :=
  { S := fun _ k => h.S tr0 k, Q := fun a b k _ => h.Q a b k tr0, P := fun s y k _ => h.P s y k tr0, log := h.log }

theorem agreeOn_frozen (h : Obj α) (tr : Trk α) : AgreeOn h (h.frozen tr) tr :=
  ⟨fun _ => rfl, fun _ _ _ => rfl, fun _ _ _ => rfl, rfl⟩

/-- the same for objects whose `S` may return anything (`estimateS`) -/
def AgreeOnS (h1 h2 : ObjS α) (tr : Trk α) : Prop :=
  (∀ k, h1.S tr k = h2.S tr k) ∧ (∀ a b k, h1.Q a b k tr = h2.Q a b k tr) ∧
  (∀ s y k, h1.P s y k tr = h2.P s y k tr) ∧ h1.log = h2.log

theorem domainError_congr [Add α] (nm : Num α) (h1 h2 : Obj α) (tr : Trk α) (ST : List (List Nat))
    (OBS : List (List (ObsItem α))) (hQ : ∀ a b k, h1.Q a b k tr = h2.Q a b k tr)
    (hP : ∀ s y k, h1.P s y k tr = h2.P s y k tr) (hl : h1.log = h2.log) :
    domainError nm h1 tr ST OBS = domainError nm h2 tr ST OBS := by
  unfold domainError
  simp only [hQ, hP, hl]

theorem estimateS_congr [Add α] [Neg α] [LT α] [DecidableLT α] [BEq α] (nm : Num α) (h1 h2 : ObjS α) (tr : Trk α)
    (obs : List String) (log : Bool) (mode : Nat) (h : AgreeOnS h1 h2 tr) :
    (estimateS nm h1 tr obs log mode).2 = (estimateS nm h2 tr obs log mode).2 ∧
    (estimateS nm h1 tr obs log mode).1.log = (estimateS nm h2 tr obs log mode).1.log := by
  obtain ⟨hS, hQ, hP, hl⟩ := h
  have hA : AgreeOn h1.toObj h2.toObj tr :=
    ⟨fun k => by simp [ObjS.toObj, hS], hQ, hP, hl⟩
  obtain ⟨e1, e2⟩ := estimate_congr nm h1.toObj h2.toObj tr obs log mode hA
  have hST : (List.range tr.size).map (h1.toObj.S tr) = (List.range tr.size).map (h2.toObj.S tr) :=
    List.map_congr_left (fun k _ => hA.1 k)
  have hD : ∀ ST OBS, domainError nm { h1.toObj with log := h1.toObj.log || log } tr ST OBS
      = domainError nm { h2.toObj with log := h2.toObj.log || log } tr ST OBS :=
    fun ST OBS => domainError_congr nm _ _ tr ST OBS hQ hP (by simp [ObjS.toObj, hl])
  unfold estimateS
  simp only [hS, hST, hD, e1, e2, hl]
  constructor <;> (repeat' split) <;> simp_all

/-! ### user functions that raise (`estimateX`) -/

theorem mapM_error {β γ : Type} (f : β → Except Err γ) (l : List β) (e : Err) (h : l.mapM f = .error e) :
    ∃ x, x ∈ l ∧ f x = .error e := by
  induction l with
  | nil => simp [List.mapM_nil, pure, Except.pure] at h
  | cons a as ih =>
    rw [List.mapM_cons] at h
    cases ha : f a with
    | error e' =>
      simp only [ha, bind, Except.bind] at h
      exact ⟨a, List.mem_cons_self, by rw [ha]; injection h with h; rw [h]⟩
    | ok v =>
      simp only [ha, bind, Except.bind] at h
      cases has : as.mapM f with
      | error e' =>
        simp only [has] at h
        obtain ⟨x, hx, hfx⟩ := ih (by rw [has]; exact h)
        exact ⟨x, List.mem_cons_of_mem _ hx, hfx⟩
      | ok vs => simp [has, pure, Except.pure] at h

theorem getObs_ne_user (nm : Num α) (tr : Trk α) (name : String) (i : Nat) (e : Err)
    (h : tr.getObs nm name i = .error e) : e ≠ .user := by
  unfold Trk.getObs at h
  repeat' split at h
  all_goals first | (injection h with h; subst h; decide) | (exact absurd h (by simp))

theorem getObsK_ne_user (nm : Num α) (tr : Trk α) (obs : List String) (k mode : Nat) (e : Err)
    (h : getObsK nm tr obs k mode = .error e) : e ≠ .user := by
  unfold getObsK at h
  split at h
  · rename_i e' he
    injection h with h; subst h
    obtain ⟨x, _, hx⟩ := mapM_error _ _ _ he
    exact getObs_ne_user nm tr x k _ hx
  · repeat' split at h
    all_goals first | (injection h with h; subst h; decide) | (exact absurd h (by simp))

theorem create_ne_user (tr : Trk α) (name : String) (init : Cell α) (e : Err)
    (h : tr.create name init = .error e) : e ≠ .user := by
  unfold Trk.create at h
  repeat' split at h
  all_goals first | (injection h with h; subst h; decide) | (exact absurd h (by simp))

theorem setObs_ne_user (tr : Trk α) (name : String) (i : Nat) (v : Cell α) (e : Err)
    (h : tr.setObs name i v = .error e) : e ≠ .user := by
  unfold Trk.setObs at h
  repeat' split at h
  all_goals first | (injection h with h; subst h; decide) | (exact absurd h (by simp))

theorem writeBack_ne_user (mode : Nat) (STATES : List (List Nat)) :
    ∀ (cols : List (List α × List Nat)) (idk : Nat) (tr : Trk α),
      (writeBack mode STATES cols idk tr).2 ≠ some .user := by
  intro cols
  induction cols with
  | nil => intro idk tr; simp [writeBack]
  | cons c rest ih =>
    intro idk tr
    unfold writeBack
    simp only
    split
    · split
      · rename_i e he
        have := setObs_ne_user _ _ _ _ _ he
        simpa using this
      · split
        · rename_i e he
          have := setObs_ne_user _ _ _ _ _ he
          simpa using this
        · exact ih _ _
    · simp

/-- `estimate` itself never reports a user function's exception (its user functions are total) -/
theorem estimate_ne_user [Add α] [Neg α] [LT α] [DecidableLT α] [BEq α] (nm : Num α) (h : Obj α) (tr : Trk α)
    (obs : List String) (log : Bool) (mode : Nat) : (estimate nm h tr obs log mode).2.2 ≠ some .user := by
  unfold estimate
  simp only
  split
  · rename_i e he
    obtain ⟨k, _, hk⟩ := mapM_error _ _ _ he
    have := getObsK_ne_user nm tr obs k mode e hk
    simpa using this
  · split
    · simp
    · split
      · simp
      · split
        · rename_i e he
          have := create_ne_user _ _ _ _ he
          simpa using this
        · split
          · rename_i e he
            have := create_ne_user _ _ _ _ he
            simpa using this
          · split
            · simp
            · exact writeBack_ne_user mode _ _ _ _

theorem estimateS_ne_user [Add α] [Neg α] [LT α] [DecidableLT α] [BEq α] (nm : Num α) (h : ObjS α) (tr : Trk α)
    (obs : List String) (log : Bool) (mode : Nat) : (estimateS nm h tr obs log mode).2.2 ≠ some .user := by
  have he := estimate_ne_user nm h.toObj tr obs log mode
  unfold estimateS
  simp only
  repeat' split
  all_goals first | exact he | simp

section X
variable [Add α] [Neg α] [LT α] [DecidableLT α] [BEq α]

/-- **`S` raises.** `S(track, k)` raising at some epoch: the exception leaves `estimate` from the first loop — the flag
has been or-ed, nothing of the track is written (whatever the other epochs return, sized or not). -/
theorem estimateX_S_raises (nm : Num α) (h : ObjX α) (tr : Trk α) (obs : List String) (log : Bool) (mode : Nat)
    (k : Nat) (hk : k < tr.size) (hn : h.S tr k = none) :
    estimateX nm h tr obs log mode = (h.log || log, tr, some .user) := by
  have : (List.range tr.size).any (fun k => (h.S tr k).isNone) = true :=
    List.any_eq_true.mpr ⟨k, List.mem_range.mpr hk, by simp [hn]⟩
  unfold estimateX
  rw [if_pos this]

/-- **`Q` or `P` raises first.** Every `S(track, k)` has a length, the observations compile, the track is not empty, and
the first failing call of the first column / forward pass is a user function's exception: it propagates, the flag has
been or-ed, nothing of the track is written. -/
theorem estimateX_call_raises (nm : Num α) (h : ObjX α) (tr : Trk α) (obs : List String) (log : Bool) (mode : Nat)
    (hS : ∀ k, k < tr.size → ∃ l, h.S tr k = some (.sized l)) (hne : tr.size ≠ 0)
    (OBS : List (List (ObsItem α)))
    (hobs : (List.range tr.size).mapM (fun k => getObsK nm tr obs k mode) = .ok OBS)
    (hf : firstErr (callsOf nm (h.log || log) h tr
      ((List.range tr.size).map (fun k => ((h.toObjS nm.zero).S tr k).items)) OBS) = some .user) :
    estimateX nm h tr obs log mode = (h.log || log, tr, some .user) := by
  have h1 : ¬ (List.range tr.size).any (fun k => (h.S tr k).isNone) = true := by
    intro hc
    obtain ⟨k, hk, hk'⟩ := List.any_eq_true.mp hc
    obtain ⟨l, hl⟩ := hS k (List.mem_range.mp hk)
    simp [hl] at hk'
  have h2 : (List.range tr.size).all (fun k => ((h.toObjS nm.zero).S tr k).isSized) = true := by
    apply List.all_eq_true.mpr
    intro k hk
    obtain ⟨l, hl⟩ := hS k (List.mem_range.mp hk)
    simp [ObjX.toObjS, hl, SRet.isSized]
  unfold estimateX
  rw [if_neg h1]
  simp only [h2, hobs, hf, Bool.true_and]
  simp [hne]

theorem firstErr_ne_user (l : List (Option Err)) (h : ∀ e, e ∈ l → e ≠ some .user) : firstErr l ≠ some .user := by
  induction l with
  | nil => simp [firstErr]
  | cons a as ih =>
    cases a with
    | none => exact ih (fun e he => h e (List.mem_cons_of_mem _ he))
    | some e => exact h (some e) List.mem_cons_self

omit [Neg α] [LT α] [DecidableLT α] [BEq α] in
theorem callErr_some_ne_user (nm : Num α) (log : Bool) (v : Option α) (hv : v.isSome) :
    callErr nm log v ≠ some .user := by
  cases v with
  | none => simp at hv
  | some v => simp only [callErr]; split <;> simp

/-- **No user function raises** (on the track of the call): `estimateX` is `estimateS` on the functions' values. -/
theorem estimateX_total (nm : Num α) (h : ObjX α) (tr : Trk α) (obs : List String) (log : Bool) (mode : Nat)
    (hS : ∀ k, k < tr.size → (h.S tr k).isSome) (hQ : ∀ a b k, (h.Q a b k tr).isSome)
    (hP : ∀ s y k, (h.P s y k tr).isSome) :
    estimateX nm h tr obs log mode =
      ((estimateS nm (h.toObjS nm.zero) tr obs log mode).1.log, (estimateS nm (h.toObjS nm.zero) tr obs log mode).2.1,
       (estimateS nm (h.toObjS nm.zero) tr obs log mode).2.2) := by
  have h1 : ¬ (List.range tr.size).any (fun k => (h.S tr k).isNone) = true := by
    intro hc
    obtain ⟨k, hk, hk'⟩ := List.any_eq_true.mp hc
    have := hS k (List.mem_range.mp hk)
    cases hv : h.S tr k <;> simp [hv] at this hk'
  have h3 : ∀ ST OBS, (firstErr (callsOf nm (h.log || log) h tr ST OBS) == some Err.user) = false := by
    intro ST OBS
    have : firstErr (callsOf nm (h.log || log) h tr ST OBS) ≠ some .user := by
      apply firstErr_ne_user
      intro e he
      unfold callsOf at he
      simp only [List.mem_append, List.mem_map, List.mem_flatMap, List.mem_singleton] at he
      rcases he with ⟨s, _, rfl⟩ | ⟨k, _, s2, _, (⟨s1, _, rfl⟩ | rfl)⟩
      · exact callErr_some_ne_user nm _ _ (hP _ _ _)
      · exact callErr_some_ne_user nm _ _ (hQ _ _ _)
      · exact callErr_some_ne_user nm _ _ (hP _ _ _)
    simpa using this
  unfold estimateX
  rw [if_neg h1]
  simp only [h3]
  split <;> simp

/-- **A user function's exception means nothing was written**: whenever `estimate` ends with the exception of a user
function, the track is what it was and the flag has been or-ed. -/
theorem estimateX_user_unchanged (nm : Num α) (h : ObjX α) (tr : Trk α) (obs : List String) (log : Bool) (mode : Nat)
    (hu : (estimateX nm h tr obs log mode).2.2 = some .user) :
    estimateX nm h tr obs log mode = (h.log || log, tr, some .user) := by
  have hs := estimateS_ne_user nm (h.toObjS nm.zero) tr obs log mode
  unfold estimateX at hu ⊢
  simp only at hu ⊢
  by_cases hc : (List.range tr.size).any (fun k => (h.S tr k).isNone) = true
  · rw [if_pos hc]
  · rw [if_neg hc] at hu ⊢
    split_ifs at hu ⊢ with hb
    · rfl
    · exact absurd hu hs
end X
end TV.Hmm
