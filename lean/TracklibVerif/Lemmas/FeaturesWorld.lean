import TracklibVerif.Model.FeaturesWorld
import TracklibVerif.Lemmas.FeaturesEval
import TracklibVerif.Lemmas.FeaturesGSimEval
/-! The Track API on a heap of `Obs` objects (`Model/FeaturesWorld.lean`) against the one-track table `St`:
the loop `forObs` on pairwise distinct objects, and what `view` shows afterwards. -/
set_option linter.unusedSectionVars false
namespace TV.Features
variable {V : Type} [Inhabited V]

/-! ### `forObs` on pairwise distinct objects -/

/-- what a successful prefix of the loop leaves: no object added or dropped, the objects outside the visited positions as
they were, the object at the visited position `i` changed by `g (s + i)` -/
structure LoopRes (g : Nat → HObs V → HObs V) (s k : Nat) (ids : List Nat) (h h' : List (HObs V)) : Prop where
  length : h'.length = h.length
  other : ∀ id, id ∉ ids.take k → h'[id]? = h[id]?
  done : ∀ i id, i < k → ids[i]? = some id → h'[id]? = (h[id]?).map (g (s + i))

/-- The loop over pairwise distinct objects: if the statement succeeds at the first `k` positions (doing `g`) and, when
`k` is not the last position, raises `e` at position `k`, the loop returns / raises `e` and leaves `LoopRes`. -/
theorem forObs_prefix (f : Nat → HObs V → Except Err (HObs V)) (g : Nat → HObs V → HObs V) (e : Err) :
    ∀ (ids : List Nat) (s k : Nat) (h : List (HObs V)), ids.Nodup → (∀ id ∈ ids, id < h.length) → k ≤ ids.length →
      (∀ i id ob, i < k → ids[i]? = some id → h[id]? = some ob → f (s + i) ob = .ok (g (s + i) ob)) →
      (∀ id ob, ids[k]? = some id → h[id]? = some ob → f (s + k) ob = .error e) →
      ∃ h', forObs f s ids h = (if k < ids.length then .error e else .ok (), h') ∧ LoopRes g s k ids h h' := by
  intro ids
  induction ids with
  | nil =>
    intro s k h _ _ hk _ _
    have : k = 0 := by simpa using hk
    subst this
    exact ⟨h, by simp [forObs], ⟨rfl, fun _ _ => rfl, fun i _ hi _ => by omega⟩⟩
  | cons id rest ih =>
    intro s k h hnd hv hk hok herr
    have hid : id < h.length := hv id (by simp)
    have hob : h[id]? = some h[id] := List.getElem?_eq_getElem hid
    obtain ⟨hnotin, hnd'⟩ := List.nodup_cons.mp hnd
    cases k with
    | zero =>
      have he := herr id h[id] (by simp) hob
      refine ⟨h, ?_, ⟨rfl, fun _ _ => rfl, fun i _ hi _ => by omega⟩⟩
      simp only [forObs, hob]
      simp only [Nat.add_zero] at he
      simp [he]
    | succ k =>
      have h0 := hok 0 id h[id] (by omega) (by simp) hob
      simp only [Nat.add_zero] at h0
      -- the rest of the loop on the heap with the first object changed
      have hv' : ∀ id' ∈ rest, id' < (h.set id (g s h[id])).length := by
        intro id' hm; rw [List.length_set]; exact hv id' (by simp [hm])
      have hget : ∀ id', id' ≠ id → (h.set id (g s h[id]))[id']? = h[id']? := by
        intro id' hne
        rw [List.getElem?_set_ne (Ne.symm hne)]
      have hok' : ∀ i id' ob, i < k → rest[i]? = some id' → (h.set id (g s h[id]))[id']? = some ob →
          f (s + 1 + i) ob = .ok (g (s + 1 + i) ob) := by
        intro i id' ob hi hri hgo
        have hne : id' ≠ id := fun e => hnotin (e ▸ List.mem_of_getElem? hri)
        rw [hget id' hne] at hgo
        have := hok (i + 1) id' ob (by omega) (by simpa using hri) hgo
        rwa [show s + (i + 1) = s + 1 + i by omega] at this
      have herr' : ∀ id' ob, rest[k]? = some id' → (h.set id (g s h[id]))[id']? = some ob → f (s + 1 + k) ob = .error e := by
        intro id' ob hri hgo
        have hne : id' ≠ id := fun e => hnotin (e ▸ List.mem_of_getElem? hri)
        rw [hget id' hne] at hgo
        have := herr id' ob (by simpa using hri) hgo
        rwa [show s + (k + 1) = s + 1 + k by omega] at this
      obtain ⟨h', hrun, hres⟩ := ih (s + 1) k (h.set id (g s h[id])) hnd' hv' (by simpa using hk) hok' herr'
      refine ⟨h', ?_, ⟨?_, ?_, ?_⟩⟩
      · simp only [forObs, hob, h0, hrun, List.length_cons, Nat.add_lt_add_iff_right]
      · rw [hres.length, List.length_set]
      · intro id' hni
        have hne : id' ≠ id := fun e => hni (by simp [e])
        have : id' ∉ rest.take k := fun hm => hni (by simp [hm])
        rw [hres.other id' this, hget id' hne]
      · intro i id' hi hri
        cases i with
        | zero =>
          have : id' = id := by simpa using hri.symm
          subst this
          have : id' ∉ rest.take k := fun hm => hnotin (List.mem_of_mem_take hm)
          rw [hres.other id' this, List.getElem?_set_self hid, hob]
          simp
        | succ j =>
          have hrj : rest[j]? = some id' := by simpa using hri
          have hne : id' ≠ id := fun e => hnotin (e ▸ List.mem_of_getElem? hrj)
          rw [hres.done j id' (by omega) hrj, hget id' hne, show s + 1 + j = s + (j + 1) by omega]

/-- the whole loop succeeds -/
theorem forObs_ok (f : Nat → HObs V → Except Err (HObs V)) (g : Nat → HObs V → HObs V)
    (ids : List Nat) (h : List (HObs V)) (hnd : ids.Nodup) (hv : ∀ id ∈ ids, id < h.length)
    (hok : ∀ i id ob, ids[i]? = some id → h[id]? = some ob → f i ob = .ok (g i ob)) :
    ∃ h', forObs f 0 ids h = (.ok (), h') ∧ LoopRes g 0 ids.length ids h h' := by
  obtain ⟨h', h1, h2⟩ := forObs_prefix f g .index ids 0 ids.length h hnd hv (Nat.le_refl _)
    (fun i id ob _ hi ho => by simpa using hok i id ob hi ho)
    (fun id ob hi _ => by simp at hi)
  exact ⟨h', by simpa using h1, h2⟩

/-- the object found at position `i` after a prefix of the loop -/
theorem LoopRes.at {g : Nat → HObs V → HObs V} {k : Nat} {ids : List Nat} {h h' : List (HObs V)}
    (hr : LoopRes g 0 k ids h h') (hnd : ids.Nodup) {i id : Nat} (hi : ids[i]? = some id) :
    h'[id]? = (h[id]?).map (fun ob => if i < k then g i ob else ob) := by
  by_cases hik : i < k
  · have := hr.done i id hik hi
    simp only [Nat.zero_add] at this
    simp [this, hik]
  · have hni : id ∉ ids.take k := by
      intro hm
      obtain ⟨j, hj, hje⟩ := List.mem_take_iff_getElem.mp hm
      have hjl : j < ids.length := by omega
      have hil : i < ids.length := by
        rcases Nat.lt_or_ge i ids.length with h1 | h1
        · exact h1
        · rw [List.getElem?_eq_none h1] at hi; cases hi
      have hie : ids[i] = id := by
        rw [List.getElem?_eq_getElem hil] at hi; exact Option.some.inj hi
      have : j = i := (List.getElem_inj hnd).mp (hje.trans hie.symm)
      omega
    rw [hr.other id hni]
    cases h[id]? <;> simp [hik]

/-! ### what `view` shows -/

theorem featsAt_some {h : List (HObs V)} {id : Nat} {ob : HObs V} (ho : h[id]? = some ob) : featsAt h id = ob.feats := by
  simp [featsAt, ho]

theorem coordAt_some {h : List (HObs V)} {id : Nat} {ob : HObs V} (ho : h[id]? = some ob) (c : Coord) :
    coordAt h c id = ob.coord c := by
  simp [coordAt, ho]

/-- a statement that only changes the `features` list -/
def onFeats (φ : List V → List V) (ob : HObs V) : HObs V := { ob with feats := φ ob.feats }

theorem onFeats_coord (φ : List V → List V) (ob : HObs V) (c : Coord) : (onFeats φ ob).coord c = ob.coord c := by
  cases c <;> rfl

/-- rows after a prefix of a loop of statements on the `features` lists -/
theorem rows_loop {φ : Nat → List V → List V} {k : Nat} {ids : List Nat} {h h' : List (HObs V)}
    (hr : LoopRes (fun i => onFeats (φ i)) 0 k ids h h') (hnd : ids.Nodup) (hv : ∀ id ∈ ids, id < h.length) (i : Nat) :
    (ids.map (featsAt h'))[i]? = ((ids.map (featsAt h))[i]?).map (fun r => if i < k then φ i r else r) := by
  simp only [List.getElem?_map]
  cases hi : ids[i]? with
  | none => rfl
  | some id =>
    have hid : id < h.length := hv id (List.mem_of_getElem? hi)
    have hob : h[id]? = some h[id] := List.getElem?_eq_getElem hid
    have h1 := hr.at hnd hi
    rw [hob] at h1
    simp only [Option.map_some] at h1 ⊢
    rw [featsAt_some h1, featsAt_some hob]
    by_cases hik : i < k <;> simp [hik, onFeats]

/-- coordinates after a prefix of a loop of statements on the `features` lists -/
theorem coords_loop {φ : Nat → List V → List V} {k : Nat} {ids : List Nat} {h h' : List (HObs V)}
    (hr : LoopRes (fun i => onFeats (φ i)) 0 k ids h h') (hnd : ids.Nodup) (hv : ∀ id ∈ ids, id < h.length) (c : Coord) :
    ids.map (coordAt h' c) = ids.map (coordAt h c) := by
  apply List.map_congr_left
  intro id hm
  obtain ⟨i, hil, hie⟩ := List.getElem_of_mem hm
  have hi : ids[i]? = some id := by rw [List.getElem?_eq_getElem hil, hie]
  have hid : id < h.length := hv id hm
  have hob : h[id]? = some h[id] := List.getElem?_eq_getElem hid
  have h1 := hr.at hnd hi
  rw [hob] at h1
  simp only [Option.map_some] at h1
  rw [coordAt_some h1, coordAt_some hob]
  by_cases hik : i < k <;> simp [hik, onFeats_coord]

/-- the view after a loop of statements on the `features` lists: the dict given, the rows as `rows_loop`, coordinates as before -/
theorem view_loop {φ : Nat → List V → List V} {k : Nat} {w : Wd V} {h' : List (HObs V)} (d' : List (String × Nat))
    (hr : LoopRes (fun i => onFeats (φ i)) 0 k w.ids w.heap h') (hnd : w.ids.Nodup) (hv : ∀ id ∈ w.ids, id < w.heap.length)
    (rows' : List (List V))
    (hrows : ∀ i, rows'[i]? = ((view w).rows[i]?).map (fun r => if i < k then φ i r else r)) :
    view { w with heap := h', dico := d' } = { view w with dico := d', rows := rows' } := by
  unfold view
  simp only [St.mk.injEq, true_and]
  refine ⟨?_, coords_loop hr hnd hv .x, coords_loop hr hnd hv .y, coords_loop hr hnd hv .z, coords_loop hr hnd hv .t⟩
  apply List.ext_getElem?
  intro i
  rw [rows_loop hr hnd hv i, hrows i]
  rfl

/-! ### the rows the primitives of `St` build, position by position -/

theorem appendCol_getElem? (rows : List (List V)) (l : List V) (i : Nat) :
    (appendCol rows l)[i]? = (rows[i]?).map (fun r => match l[i]? with | some v => r ++ [v] | none => r) := by
  induction rows generalizing l i with
  | nil => cases l <;> simp [appendCol]
  | cons r rs ih =>
    cases l with
    | nil =>
      simp only [appendCol, List.getElem?_nil]
      cases (r :: rs)[i]? <;> rfl
    | cons v vs =>
      cases i with
      | zero => simp [appendCol]
      | succ j => simp [appendCol, ih]

theorem writeCol_getElem? (idx : Nat) (rows : List (List V)) (l : List V) (i : Nat) :
    (writeCol idx rows l)[i]? = (rows[i]?).map (fun r => match l[i]? with | some v => r.set idx v | none => r) := by
  induction rows generalizing l i with
  | nil => cases l <;> simp [writeCol]
  | cons r rs ih =>
    cases l with
    | nil =>
      simp only [writeCol, List.getElem?_nil]
      cases (r :: rs)[i]? <;> rfl
    | cons v vs =>
      cases i with
      | zero => simp [writeCol]
      | succ j => simp [writeCol, ih]

/-! ### the invariant: a track of pairwise distinct objects showing an aligned table; the frame -/

/-- The track in focus refers to pairwise distinct existing objects and shows an aligned table of `n` observations; and,
with respect to the heap `h0` and the track `ids0` the history started from: the track still refers to the same objects,
no object was added or dropped, and every object OUTSIDE the track is as it was. -/
structure WGood (n : Nat) (h0 : List (HObs V)) (ids0 : List Nat) (w : Wd V) : Prop where
  nodup : w.ids.Nodup
  valid : ∀ id ∈ w.ids, id < w.heap.length
  inv : Inv n (view w)
  ids : w.ids = ids0
  length : w.heap.length = h0.length
  other : ∀ id, id ∉ ids0 → w.heap[id]? = h0[id]?

variable {n : Nat} {h0 : List (HObs V)} {ids0 : List Nat}

theorem view_rows_length (w : Wd V) : (view w).rows.length = w.ids.length := by simp [view]

theorem view_isEmpty (w : Wd V) : (view w).rows.isEmpty = w.ids.isEmpty := by
  simp only [view]; cases w.ids <;> rfl

theorem view_dico (w : Wd V) : (view w).dico = w.dico := rfl

theorem view_has (w : Wd V) (name : String) : hasC (view w) name = hasW w name := rfl

/-- closing a primitive's proof: the call on the heap and the call on the table shown give the same outcome and
corresponding states, the call keeps the references of the track, adds / drops no object and touches no object outside the track -/
theorem prim_close {α : Type} {P : α → Prop} {m : M (Wd V) α} {mc : M (St V) α} {ma : M (ATab V) α} (hs : Sim n P mc ma)
    {w : Wd V} (hg : WGood n h0 ids0 w) {r : Except Err α} {w' : Wd V} (hW : m w = (r, w')) (hC : mc (view w) = (r, view w'))
    (hids : w'.ids = w.ids) (hlen : w'.heap.length = w.heap.length) (hoth : ∀ id, id ∉ w.ids → w'.heap[id]? = w.heap[id]?) :
    WGood n h0 ids0 (m w).2 ∧ mc (view w) = ((m w).1, view (m w).2) ∧ ∀ x, (m w).1 = .ok x → True := by
  rw [hW]
  refine ⟨⟨by rw [hids]; exact hg.nodup, ?_, ?_, by rw [hids]; exact hg.ids, by rw [hlen]; exact hg.length, ?_⟩, hC, fun _ _ => trivial⟩
  · intro id hm
    rw [hids] at hm; rw [hlen]; exact hg.valid id hm
  · have := (hs (view w) hg.inv).1
    rw [hC] at this; exact this
  · intro id hni
    rw [hoth id (by rw [hg.ids]; exact hni)]; exact hg.other id hni

/-- … when nothing changes -/
theorem prim_same {α : Type} {P : α → Prop} {m : M (Wd V) α} {mc : M (St V) α} {ma : M (ATab V) α} (hs : Sim n P mc ma)
    {w : Wd V} (hg : WGood n h0 ids0 w) {r : Except Err α} (hW : m w = (r, w)) (hC : mc (view w) = (r, view w)) :
    WGood n h0 ids0 (m w).2 ∧ mc (view w) = ((m w).1, view (m w).2) ∧ ∀ x, (m w).1 = .ok x → True :=
  prim_close hs hg hW hC rfl rfl (fun _ _ => rfl)

theorem map_if_lt {α : Type} (rows : List α) (k : Nat) (hk : rows.length = k) (f : Nat → α → α) (i : Nat) :
    (rows[i]?).map (fun r => if i < k then f i r else r) = (rows[i]?).map (f i) := by
  by_cases hi : i < k
  · simp [hi]
  · rw [List.getElem?_eq_none (by omega)]; rfl

/-- after a whole loop of statements on the `features` lists -/
theorem loop_close {α : Type} {P : α → Prop} {m : M (Wd V) α} {mc : M (St V) α} {ma : M (ATab V) α} (hs : Sim n P mc ma)
    {w : Wd V} (hg : WGood n h0 ids0 w) {φ : Nat → List V → List V} {k : Nat} {h' : List (HObs V)}
    (hr : LoopRes (fun i => onFeats (φ i)) 0 k w.ids w.heap h') (d' : List (String × Nat)) (rows' : List (List V))
    (hrows : ∀ i, rows'[i]? = ((view w).rows[i]?).map (fun r => if i < k then φ i r else r))
    {r : Except Err α} (hW : m w = (r, { w with heap := h', dico := d' }))
    (hC : mc (view w) = (r, { view w with dico := d', rows := rows' })) :
    WGood n h0 ids0 (m w).2 ∧ mc (view w) = ((m w).1, view (m w).2) ∧ ∀ x, (m w).1 = .ok x → True := by
  refine prim_close hs hg hW ?_ rfl hr.length ?_
  · rw [view_loop d' hr hg.nodup hg.valid rows' hrows]; exact hC
  · intro id hni
    exact hr.other id (fun hm => hni (List.mem_of_mem_take hm))

theorem w_create (name : String) (init : Init V) :
    GSim (WGood n h0 ids0) view (fun _ => True) (createW (V := V) name init) (createC name init) := by
  intro w hg
  have hs := sim_create (V := V) (n := n) name init
  by_cases h1 : reserved name = true
  · exact prim_same (r := .error .reserved) hs hg (by simp [createW, h1]) (by simp [createC, h1])
  by_cases h2 : w.ids.isEmpty = true
  · exact prim_same (r := .error .empty) hs hg (by simp [createW, h1, h2]) (by simp [createC, h1, view_isEmpty, h2])
  by_cases h3 : hasW w name = true
  · exact prim_same (r := .ok ()) hs hg (by simp [createW, h1, h2, h3]) (by simp [createC, h1, view_isEmpty, h2, view_has, h3])
  cases init with
  | scalar v =>
    obtain ⟨h', hrun, hres⟩ := forObs_ok (fun _ ob => .ok (pushFeat v ob)) (fun _ => onFeats (· ++ [v])) w.ids w.heap
      hg.nodup hg.valid (fun _ _ _ _ _ => rfl)
    refine loop_close (r := .ok ()) hs hg hres (w.dico ++ [(name, w.dico.length)]) ((view w).rows.map (· ++ [v])) ?_ ?_ ?_
    · intro i
      rw [map_if_lt _ _ (view_rows_length w) (fun _ r => r ++ [v])]; simp
    · simp [createW, h1, h2, h3, hrun]
    · simp [createC, h1, view_isEmpty, h2, view_has, h3, view_dico]
  | list l =>
    by_cases h4 : l.length < w.ids.length
    · exact prim_same (r := .error .index) hs hg (by simp [createW, h1, h2, h3, h4])
        (by simp [createC, h1, view_isEmpty, h2, view_has, h3, view_rows_length, h4])
    obtain ⟨h', hrun, hres⟩ := forObs_ok (pushNth l)
      (fun i => onFeats (fun r => match l[i]? with | some v => r ++ [v] | none => r)) w.ids w.heap
      hg.nodup hg.valid (by
        intro i id ob hi _
        have hil : i < w.ids.length := by
          rcases Nat.lt_or_ge i w.ids.length with h | h
          · exact h
          · rw [List.getElem?_eq_none h] at hi; cases hi
        have : i < l.length := by omega
        simp [pushNth, List.getElem?_eq_getElem this, pushFeat, onFeats])
    refine loop_close (r := .ok ()) hs hg hres (w.dico ++ [(name, w.dico.length)]) (appendCol (view w).rows l) ?_ ?_ ?_
    · intro i
      rw [map_if_lt _ _ (view_rows_length w) (fun i r => match l[i]? with | some v => r ++ [v] | none => r), appendCol_getElem?]
    · simp [createW, h1, h2, h3, h4, hrun]
    · simp [createC, h1, view_isEmpty, h2, view_has, h3, view_rows_length, h4, view_dico]

/-- on a good track every object of the track has the slot a listed name designates -/
theorem WGood.slot {w : Wd V} (hg : WGood n h0 ids0 w) {name : String} {idx : Nat} (hf : find w.dico name = some idx)
    {i id : Nat} {ob : HObs V} (hi : w.ids[i]? = some id) (ho : w.heap[id]? = some ob) : idx < ob.feats.length := by
  have hm : id ∈ w.ids := List.mem_of_getElem? hi
  have hr : featsAt w.heap id ∈ (view w).rows := List.mem_map_of_mem hm
  have h1 := hg.inv.rows _ hr
  rw [featsAt_some ho] at h1
  have h2 := (hg.inv.find_some (st := view w) hf).1
  omega

theorem lt_of_getElem?_some {α : Type} {l : List α} {i : Nat} {a : α} (h : l[i]? = some a) : i < l.length := by
  rcases Nat.lt_or_ge i l.length with h1 | h1
  · exact h1
  · rw [List.getElem?_eq_none h1] at h; cases h

theorem w_update (name : String) (init : Init V) :
    GSim (WGood n h0 ids0) view (fun _ => True) (updateW (V := V) name init) (updateC name init) := by
  intro w hg
  have hs := sim_update (V := V) (n := n) name init
  by_cases h1' : hasW w name = false
  · exact prim_same (r := .error .unknown) hs hg (by simp [updateW, h1']) (by simp [updateC, view_has, h1'])
  have h1 : hasW w name = true := by simpa using h1'
  by_cases h2 : w.ids.isEmpty = true
  · exact prim_same (r := .error .empty) hs hg (by simp [updateW, h1, h2]) (by simp [updateC, view_has, h1, view_isEmpty, h2])
  cases hf : find w.dico name with
  | none =>
    exact prim_same (r := .error .key) hs hg (by simp [updateW, h1, h2, hf]) (by simp [updateC, view_has, h1, view_isEmpty, h2, view_dico, hf])
  | some idx =>
    cases init with
    | scalar v =>
      obtain ⟨h', hrun, hres⟩ := forObs_ok (fun _ ob => setFeat idx v ob) (fun _ => onFeats (·.set idx v)) w.ids w.heap
        hg.nodup hg.valid (by
          intro i id ob hi ho
          simp [setFeat, hg.slot hf hi ho, onFeats])
      refine loop_close (r := .ok ()) hs hg hres w.dico ((view w).rows.map (·.set idx v)) ?_ ?_ ?_
      · intro i
        rw [map_if_lt _ _ (view_rows_length w) (fun _ r => r.set idx v)]; simp
      · simp [updateW, h1, h2, hf, hrun]
      · simp [updateC, view_has, h1, view_isEmpty, h2, view_dico, hf]
    | list l =>
      by_cases h4 : l.length < w.ids.length
      · obtain ⟨h', hrun, hres⟩ := forObs_prefix (setNth idx l)
          (fun i => onFeats (fun r => match l[i]? with | some v => r.set idx v | none => r)) .index w.ids 0 l.length w.heap
          hg.nodup hg.valid (by omega)
          (by
            intro i id ob hil hi ho
            simp [setNth, List.getElem?_eq_getElem hil, setFeat, hg.slot hf hi ho, onFeats])
          (by
            intro id ob _ _
            simp [setNth])
        simp only [h4, if_true] at hrun
        refine loop_close (r := .error .index) hs hg hres w.dico (writeCol idx (view w).rows l) ?_ ?_ ?_
        · intro i
          rw [writeCol_getElem?]
          congr 1
          funext r
          by_cases hil : i < l.length
          · simp [hil]
          · simp [hil]
        · simp [updateW, h1, h2, hf, hrun]
        · simp [updateC, view_has, h1, view_isEmpty, h2, view_dico, hf, view_rows_length, h4]
      · obtain ⟨h', hrun, hres⟩ := forObs_ok (setNth idx l)
          (fun i => onFeats (fun r => match l[i]? with | some v => r.set idx v | none => r)) w.ids w.heap
          hg.nodup hg.valid (by
            intro i id ob hi ho
            have hil : i < l.length := by have := lt_of_getElem?_some hi; omega
            simp [setNth, List.getElem?_eq_getElem hil, setFeat, hg.slot hf hi ho, onFeats])
        refine loop_close (r := .ok ()) hs hg hres w.dico (writeCol idx (view w).rows l) ?_ ?_ ?_
        · intro i
          rw [map_if_lt _ _ (view_rows_length w) (fun i r => match l[i]? with | some v => r.set idx v | none => r), writeCol_getElem?]
        · simp [updateW, h1, h2, hf, hrun]
        · simp [updateC, view_has, h1, view_isEmpty, h2, view_dico, hf, view_rows_length, h4]

theorem w_remove (name : String) :
    GSim (WGood n h0 ids0) view (fun _ => True) (removeW (V := V) name) (removeC name) := by
  intro w hg
  have hs := sim_remove (V := V) (n := n) name
  by_cases h1' : hasW w name = false
  · exact prim_same (r := .error .unknown) hs hg (by simp [removeW, h1']) (by simp [removeC, view_has, h1'])
  have h1 : hasW w name = true := by simpa using h1'
  cases hf : find w.dico name with
  | none =>
    exact prim_same (r := .error .key) hs hg (by simp [removeW, h1, hf]) (by simp [removeC, view_has, h1, view_dico, hf])
  | some idx =>
    obtain ⟨h', hrun, hres⟩ := forObs_ok (fun _ ob => delFeat idx ob) (fun _ => onFeats (·.eraseIdx idx)) w.ids w.heap
      hg.nodup hg.valid (by
        intro i id ob hi ho
        simp [delFeat, hg.slot hf hi ho, onFeats])
    refine loop_close (r := .ok ()) hs hg hres
      ((w.dico.filter (fun p => !(p.1 == name))).map (fun p => (p.1, if p.2 > idx then p.2 - 1 else p.2)))
      ((view w).rows.map (·.eraseIdx idx)) ?_ ?_ ?_
    · intro i
      rw [map_if_lt _ _ (view_rows_length w) (fun _ r => r.eraseIdx idx)]; simp
    · simp [removeW, h1, hf, hrun]
    · simp [removeC, view_has, h1, view_dico, hf]

/-! ### reads -/

theorem mapM_opt_some {α β : Type} (f : α → Option β) (g : α → β) (l : List α) (h : ∀ a ∈ l, f a = some (g a)) :
    l.mapM f = some (l.map g) := by
  induction l with
  | nil => rfl
  | cons a t ih =>
    rw [List.mapM_cons, h a (by simp), ih (fun b hb => h b (by simp [hb]))]
    rfl

theorem mapM_opt_map {α β γ : Type} (f : α → β) (g : β → Option γ) (l : List α) :
    (l.map f).mapM g = l.mapM (fun a => g (f a)) := by
  induction l with
  | nil => rfl
  | cons a t ih => rw [List.map_cons, List.mapM_cons, List.mapM_cons, ih]

theorem mapM_opt_congr {α β : Type} {f g : α → Option β} (l : List α) (h : ∀ a ∈ l, f a = g a) : l.mapM f = l.mapM g := by
  induction l with
  | nil => rfl
  | cons a t ih => rw [List.mapM_cons, List.mapM_cons, h a (by simp), ih (fun b hb => h b (by simp [hb]))]

theorem featsAt_getElem? (h : List (HObs V)) (id idx : Nat) : (featsAt h id)[idx]? = (h[id]?).bind (·.feats[idx]?) := by
  unfold featsAt
  cases h[id]? <;> simp

theorem view_coord (w : Wd V) (c : Coord) : (view w).coord c = w.ids.map (coordAt w.heap c) := by
  cases c <;> rfl

theorem w_get (o : Ops V) (name : String) :
    GSim (WGood n h0 ids0) view (fun _ => True) (getW (V := V) o name) (getC o name) := by
  intro w hg
  have hs := sim_get (V := V) (n := n) o name
  cases hc : coord? name with
  | some c =>
    have hm : w.ids.mapM (fun id => (w.heap[id]?).map (·.coord c)) = some (w.ids.map (coordAt w.heap c)) := by
      apply mapM_opt_some
      intro id hid
      have := List.getElem?_eq_getElem (hg.valid id hid)
      simp [coordAt, this]
    exact prim_same (r := .ok (w.ids.map (coordAt w.heap c))) hs hg (by simp [getW, hc, hm]) (by simp [getC, hc, view_coord])
  | none =>
    by_cases h1 : (name == "timestamp") = true
    · exact prim_same (r := .error .unsupported) hs hg (by simp [getW, hc, h1]) (by simp [getC, hc, h1])
    by_cases h2 : (name == "idx") = true
    · exact prim_same (r := .ok ((List.range w.ids.length).map o.ofNat)) hs hg (by simp [getW, hc, h1, h2])
        (by simp [getC, hc, h1, h2, view_rows_length])
    cases hf : find w.dico name with
    | none => exact prim_same (r := .error .unknown) hs hg (by simp [getW, hc, h1, h2, hf]) (by simp [getC, hc, h1, h2, view_dico, hf])
    | some idx =>
      have hm : (view w).rows.mapM (fun r => r[idx]?) = w.ids.mapM (fun id => (w.heap[id]?).bind (·.feats[idx]?)) := by
        show (w.ids.map (featsAt w.heap)).mapM (fun r => r[idx]?) = _
        rw [mapM_opt_map]
        exact mapM_opt_congr _ (fun id _ => featsAt_getElem? w.heap id idx)
      cases hcol : w.ids.mapM (fun id => (w.heap[id]?).bind (·.feats[idx]?)) with
      | some col =>
        exact prim_same (r := .ok col) hs hg (by simp [getW, hc, h1, h2, hf, hcol]) (by simp [getC, hc, h1, h2, view_dico, hf, hm, hcol])
      | none =>
        exact prim_same (r := .error .index) hs hg (by simp [getW, hc, h1, h2, hf, hcol]) (by simp [getC, hc, h1, h2, view_dico, hf, hm, hcol])

/-- the object found at a position of a good track -/
theorem WGood.obj {w : Wd V} (hg : WGood n h0 ids0 w) {i id : Nat} (hi : w.ids[i]? = some id) :
    ∃ ob, w.heap[id]? = some ob :=
  ⟨_, List.getElem?_eq_getElem (hg.valid id (List.mem_of_getElem? hi))⟩

theorem view_rows_getElem? (w : Wd V) (i : Nat) : (view w).rows[i]? = (w.ids[i]?).map (featsAt w.heap) := by
  simp [view]

theorem w_getObs (o : Ops V) (name : String) (i : Nat) :
    GSim (WGood n h0 ids0) view (fun _ => True) (getObsW (V := V) o name i) (getObsC o name i) := by
  intro w hg
  have hs := sim_getObs (V := V) (n := n) o name i
  cases hi : w.ids[i]? with
  | none =>
    cases hc : coord? name with
    | some c => exact prim_same (r := .error .index) hs hg (by simp [getObsW, hc, hi]) (by simp [getObsC, hc, view_coord, hi])
    | none =>
      by_cases h1 : (name == "timestamp") = true
      · exact prim_same (r := .error .unsupported) hs hg (by simp [getObsW, hc, h1]) (by simp [getObsC, hc, h1])
      by_cases h2 : (name == "idx") = true
      · exact prim_same (r := .ok (o.ofNat i)) hs hg (by simp [getObsW, hc, h1, h2]) (by simp [getObsC, hc, h1, h2])
      cases hf : find w.dico name with
      | none => exact prim_same (r := .error .unknown) hs hg (by simp [getObsW, hc, h1, h2, hf]) (by simp [getObsC, hc, h1, h2, view_dico, hf])
      | some idx =>
        exact prim_same (r := .error .index) hs hg (by simp [getObsW, hc, h1, h2, hf, hi])
          (by simp [getObsC, hc, h1, h2, view_dico, hf, view_rows_getElem?, hi])
  | some id =>
    obtain ⟨ob, ho⟩ := hg.obj hi
    cases hc : coord? name with
    | some c =>
      exact prim_same (r := .ok (ob.coord c)) hs hg (by simp [getObsW, hc, hi, ho])
        (by simp [getObsC, hc, view_coord, hi, coordAt_some ho])
    | none =>
      by_cases h1 : (name == "timestamp") = true
      · exact prim_same (r := .error .unsupported) hs hg (by simp [getObsW, hc, h1]) (by simp [getObsC, hc, h1])
      by_cases h2 : (name == "idx") = true
      · exact prim_same (r := .ok (o.ofNat i)) hs hg (by simp [getObsW, hc, h1, h2]) (by simp [getObsC, hc, h1, h2])
      cases hf : find w.dico name with
      | none => exact prim_same (r := .error .unknown) hs hg (by simp [getObsW, hc, h1, h2, hf]) (by simp [getObsC, hc, h1, h2, view_dico, hf])
      | some idx =>
        cases hv : ob.feats[idx]? with
        | some v =>
          exact prim_same (r := .ok v) hs hg (by simp [getObsW, hc, h1, h2, hf, hi, ho, hv])
            (by simp [getObsC, hc, h1, h2, view_dico, hf, view_rows_getElem?, hi, featsAt_some ho, hv])
        | none =>
          exact prim_same (r := .error .index) hs hg (by simp [getObsW, hc, h1, h2, hf, hi, ho, hv])
            (by simp [getObsC, hc, h1, h2, view_dico, hf, view_rows_getElem?, hi, featsAt_some ho, hv])

/-! ### one object of the track replaced -/

theorem map_set_obj {β : Type} (q : Option (HObs V) → β) {ids : List Nat} (hnd : ids.Nodup) (heap : List (HObs V))
    {i id : Nat} (hi : ids[i]? = some id) (hid : id < heap.length) (ob' : HObs V) :
    ids.map (fun j => q ((heap.set id ob')[j]?)) = (ids.map (fun j => q (heap[j]?))).set i (q (some ob')) := by
  apply List.ext_getElem?
  intro j
  have hil := lt_of_getElem?_some hi
  by_cases hji : j = i
  · subst hji
    rw [List.getElem?_set_self (by simpa using hil), List.getElem?_map, hi]
    simp [List.getElem?_set_self hid]
  · rw [List.getElem?_set_ne (fun e => hji e.symm), List.getElem?_map, List.getElem?_map]
    cases hj : ids[j]? with
    | none => rfl
    | some id' =>
      have hne : id ≠ id' := by
        intro e
        have hjl := lt_of_getElem?_some hj
        rw [List.getElem?_eq_getElem hil] at hi
        rw [List.getElem?_eq_getElem hjl] at hj
        have : ids[j] = ids[i] := by rw [Option.some.inj hi, Option.some.inj hj, e]
        exact hji ((List.getElem_inj hnd).mp this)
      simp [List.getElem?_set_ne hne]

theorem set_same {α : Type} (l : List α) (i : Nat) (a : α) (h : l[i]? = some a) : l.set i a = l := by
  apply List.ext_getElem?
  intro j
  by_cases hji : j = i
  · subst hji; rw [List.getElem?_set_self (lt_of_getElem?_some h), h]
  · rw [List.getElem?_set_ne (fun e => hji e.symm)]

/-- the view after the object at position `i` was replaced by `ob'` -/
theorem view_set_obj {w : Wd V} (hnd : w.ids.Nodup) {i id : Nat} (hi : w.ids[i]? = some id) (hid : id < w.heap.length)
    (ob' : HObs V) :
    view { w with heap := w.heap.set id ob' } =
      { dico := w.dico, rows := (view w).rows.set i ob'.feats,
        xs := (view w).xs.set i ob'.x, ys := (view w).ys.set i ob'.y, zs := (view w).zs.set i ob'.z, ts := (view w).ts.set i ob'.t } := by
  unfold view
  simp only [St.mk.injEq, true_and]
  exact ⟨map_set_obj (β := List V) (fun o => (o.map HObs.feats).getD []) hnd w.heap hi hid ob',
    map_set_obj (β := V) (fun o => (o.map (fun ob => HObs.coord ob .x)).getD default) hnd w.heap hi hid ob',
    map_set_obj (β := V) (fun o => (o.map (fun ob => HObs.coord ob .y)).getD default) hnd w.heap hi hid ob',
    map_set_obj (β := V) (fun o => (o.map (fun ob => HObs.coord ob .z)).getD default) hnd w.heap hi hid ob',
    map_set_obj (β := V) (fun o => (o.map (fun ob => HObs.coord ob .t)).getD default) hnd w.heap hi hid ob'⟩

theorem view_xs_getElem? (w : Wd V) (c : Coord) (i : Nat) : ((view w).coord c)[i]? = (w.ids[i]?).map (coordAt w.heap c) := by
  rw [view_coord]; simp

theorem coord_set_same {w : Wd V} {i id : Nat} {ob : HObs V} (hi : w.ids[i]? = some id) (ho : w.heap[id]? = some ob) (c : Coord) :
    ((view w).coord c).set i (ob.coord c) = (view w).coord c :=
  set_same _ _ _ (by rw [view_xs_getElem?, hi]; simp [coordAt_some ho])

theorem rows_set_same {w : Wd V} {i id : Nat} {ob : HObs V} (hi : w.ids[i]? = some id) (ho : w.heap[id]? = some ob) :
    (view w).rows.set i ob.feats = (view w).rows :=
  set_same _ _ _ (by rw [view_rows_getElem?, hi]; simp [featsAt_some ho])

theorem coord_of_xyz {name : String} (h : (name == "x" || name == "y" || name == "z") = true) :
    (name = "x" ∧ coord? name = some .x) ∨ (name = "y" ∧ coord? name = some .y) ∨ (name = "z" ∧ coord? name = some .z) := by
  simp only [Bool.or_eq_true, beq_iff_eq] at h
  rcases h with (h | h) | h
  · exact .inl ⟨h, by subst h; decide +kernel⟩
  · exact .inr (.inl ⟨h, by subst h; decide +kernel⟩)
  · exact .inr (.inr ⟨h, by subst h; decide +kernel⟩)

theorem w_setObs (name : String) (i : Nat) (v : V) :
    GSim (WGood n h0 ids0) view (fun _ => True) (setObsW (V := V) name i v) (setObsC name i v) := by
  intro w hg
  have hs := sim_setObs (V := V) (n := n) name i v
  by_cases hxyz : (name == "x" || name == "y" || name == "z") = true
  · cases hi : w.ids[i]? with
    | none =>
      have hnl : ∀ c, ¬ i < ((view w).coord c).length := by
        intro c; rw [view_coord, List.length_map]
        intro hlt; rw [List.getElem?_eq_getElem hlt] at hi; cases hi
      rcases coord_of_xyz hxyz with ⟨_, hc⟩ | ⟨_, hc⟩ | ⟨_, hc⟩ <;>
        exact prim_same (r := .error .index) hs hg (by simp [setObsW, hxyz, hc, hi]) (by simp [setObsC, hxyz, hc, hnl])
    | some id =>
      obtain ⟨ob, ho⟩ := hg.obj hi
      have hid : id < w.heap.length := hg.valid id (List.mem_of_getElem? hi)
      have hlt : ∀ c, i < ((view w).coord c).length := by
        intro c; rw [view_coord, List.length_map]; exact lt_of_getElem?_some hi
      have hoth : ∀ ob' id', id' ∉ w.ids → (w.heap.set id ob')[id']? = w.heap[id']? := by
        intro ob' id' hni
        exact List.getElem?_set_ne (fun (e : id = id') => hni (by rw [← e]; exact List.mem_of_getElem? hi))
      have hr := rows_set_same hi ho
      have hcx := coord_set_same hi ho .x
      have hcy := coord_set_same hi ho .y
      have hcz := coord_set_same hi ho .z
      have hct := coord_set_same hi ho .t
      simp only [St.coord, HObs.coord] at hcx hcy hcz hct
      rcases coord_of_xyz hxyz with ⟨_, hc⟩ | ⟨_, hc⟩ | ⟨_, hc⟩
      · refine prim_close (r := .ok ()) (w' := { w with heap := w.heap.set id (ob.setCoord .x v) }) hs hg
          (by simp [setObsW, hxyz, hc, hi, ho]) ?_ rfl (by simp) (hoth _)
        rw [view_set_obj hg.nodup hi hid]
        simp only [setObsC, hxyz, hc, hlt, if_true, HObs.setCoord, hr, hcy, hcz, hct]
        rfl
      · refine prim_close (r := .ok ()) (w' := { w with heap := w.heap.set id (ob.setCoord .y v) }) hs hg
          (by simp [setObsW, hxyz, hc, hi, ho]) ?_ rfl (by simp) (hoth _)
        rw [view_set_obj hg.nodup hi hid]
        simp only [setObsC, hxyz, hc, hlt, if_true, HObs.setCoord, hr, hcx, hcz, hct]
        rfl
      · refine prim_close (r := .ok ()) (w' := { w with heap := w.heap.set id (ob.setCoord .z v) }) hs hg
          (by simp [setObsW, hxyz, hc, hi, ho]) ?_ rfl (by simp) (hoth _)
        rw [view_set_obj hg.nodup hi hid]
        simp only [setObsC, hxyz, hc, hlt, if_true, HObs.setCoord, hr, hcx, hcy, hct]
        rfl
  · have hxyz' : (name == "x" || name == "y" || name == "z") = false := by simpa using hxyz
    cases hf : find w.dico name with
    | none => exact prim_same (r := .error .unknown) hs hg (by simp [setObsW, hxyz', hf]) (by simp [setObsC, hxyz', view_dico, hf])
    | some idx =>
      cases hi : w.ids[i]? with
      | none =>
        exact prim_same (r := .error .index) hs hg (by simp [setObsW, hxyz', hf, hi])
          (by simp [setObsC, hxyz', view_dico, hf, view_rows_getElem?, hi])
      | some id =>
        obtain ⟨ob, ho⟩ := hg.obj hi
        have hid : id < w.heap.length := hg.valid id (List.mem_of_getElem? hi)
        have hsl := hg.slot hf hi ho
        refine prim_close (r := .ok ()) (w' := { w with heap := w.heap.set id { ob with feats := ob.feats.set idx v } }) hs hg
          (by simp [setObsW, hxyz', hf, hi, ho, setFeat, hsl]) ?_ rfl (by simp)
          (fun id' hni => List.getElem?_set_ne (fun (e : id = id') => hni (by rw [← e]; exact List.mem_of_getElem? hi)))
        rw [view_set_obj hg.nodup hi hid]
        have hcx := coord_set_same hi ho .x
        have hcy := coord_set_same hi ho .y
        have hcz := coord_set_same hi ho .z
        have hct := coord_set_same hi ho .t
        simp only [St.coord, HObs.coord] at hcx hcy hcz hct
        simp only [setObsC, hxyz', view_dico, hf, view_rows_getElem?, hi, Option.map_some, featsAt_some ho, hsl, if_true,
          hcx, hcy, hcz, hct, Bool.false_eq_true, if_false]

/-- **The Track API on a heap of pairwise distinct objects is the Track API on the table the track shows.** -/
instance primSimWd : PrimSim (WGood (V := V) n h0 ids0) view where
  size := by
    intro w hg
    exact prim_same (r := .ok w.ids.length) (sim_size (V := V) (n := n)) hg rfl (by simp [Tbl.size, view_rows_length])
  has := by
    intro name w hg
    exact prim_same (r := .ok (hasW w name)) (sim_has (V := V) (n := n) name) hg rfl rfl
  names := by
    intro w hg
    exact prim_same (r := .ok (w.dico.map Prod.fst)) (sim_names (V := V) (n := n)) hg rfl rfl
  get := w_get
  getObs := w_getObs
  setObs := w_setObs
  create := w_create
  update := w_update
  remove := w_remove

/-- the one-track table against the specification table is an instance of the generic development too (`Sim n` is
`GSim (Inv n) abs`): `gsim_step` then gives `sim_step` again -/
instance primSimSt : PrimSim (Inv (V := V) n) abs where
  size := sim_weaken sim_size (fun _ _ => trivial)
  has := sim_has
  names := sim_names
  get := fun o name => sim_weaken (sim_get o name) (fun _ _ => trivial)
  getObs := sim_getObs
  setObs := sim_setObs
  create := sim_create
  update := sim_update
  remove := sim_remove

example (o : Ops V) (op : Op V) : Sim n (fun _ => True) (step (σ := St V) o op) (step (σ := ATab V) o op) :=
  gsim_step (I := Inv n) (ab := abs) o op

end TV.Features
