import TracklibVerif.Model.Features
/-! Simulation relation between the concrete table (`St`: dict + rows) and the specification table
(`ATab`: name ↦ column), and its closure under the control structures of the monad `M`. -/
namespace TV.Features
variable {V : Type} [Inhabited V]

def names (st : St V) : List String := st.dico.map Prod.fst

/-- The table is aligned: the dict is the enumeration of its names, names are distinct, every
observation carries exactly one value per listed name; the track has `n` observations. -/
structure Inv (n : Nat) (st : St V) : Prop where
  enum : st.dico = (names st).zipIdx 0
  nodup : (names st).Nodup
  rows : ∀ r ∈ st.rows, r.length = st.dico.length
  size : st.rows.length = n
  xs : st.xs.length = n
  ys : st.ys.length = n
  zs : st.zs.length = n
  ts : st.ts.length = n

/-- what is read in column `i` -/
def colAt (rows : List (List V)) (i : Nat) : List V := rows.map (fun r => r.getD i default)

/-- abstraction: forget the indices -/
def abs (st : St V) : ATab V :=
  { cols := st.dico.map (fun p => (p.1, colAt st.rows p.2)), xs := st.xs, ys := st.ys, zs := st.zs, ts := st.ts }

/-- `m` (on the concrete table) and `ma` (on the specification table) do the same thing on every aligned
table: alignment is preserved, outcome and returned value are equal, the resulting tables correspond;
`P` is a guaranteed property of the returned value. -/
def Sim {α : Type} (n : Nat) (P : α → Prop) (m : M (St V) α) (ma : M (ATab V) α) : Prop :=
  ∀ st, Inv n st → Inv n (m st).2 ∧ ma (abs st) = ((m st).1, abs (m st).2) ∧ ∀ x, (m st).1 = .ok x → P x

section combinators
variable {α β : Type} {n : Nat}

theorem sim_pure {P : α → Prop} (x : α) (hx : P x) :
    Sim (V := V) n P (pure x) (pure x) := by
  intro st hinv
  exact ⟨hinv, rfl, fun y hy => by cases hy; exact hx⟩

theorem sim_throw {P : α → Prop} (e : Err) : Sim (V := V) n P (M.throw e) (M.throw e) := by
  intro st hinv
  exact ⟨hinv, rfl, fun y hy => by cases hy⟩

theorem sim_ofExcept {P : α → Prop} (r : Except Err α) (h : ∀ x, r = .ok x → P x) :
    Sim (V := V) n P (M.ofExcept r) (M.ofExcept r) := by
  intro st hinv
  exact ⟨hinv, rfl, fun y hy => h y hy⟩

theorem sim_weaken {P Q : α → Prop} {m : M (St V) α} {ma : M (ATab V) α}
    (h : Sim n P m ma) (hpq : ∀ x, P x → Q x) : Sim n Q m ma := by
  intro st hinv
  obtain ⟨a, b, c⟩ := h st hinv
  exact ⟨a, b, fun x hx => hpq x (c x hx)⟩

theorem sim_bind {P : α → Prop} {Q : β → Prop} {m : M (St V) α} {ma : M (ATab V) α}
    {f : α → M (St V) β} {fa : α → M (ATab V) β}
    (h1 : Sim n P m ma) (h2 : ∀ x, P x → Sim n Q (f x) (fa x)) : Sim n Q (m >>= f) (ma >>= fa) := by
  intro st hinv
  obtain ⟨i1, e1, p1⟩ := h1 st hinv
  show Inv n (M.bind m f st).2 ∧ M.bind ma fa (abs st) = ((M.bind m f st).1, abs (M.bind m f st).2)
      ∧ ∀ x, (M.bind m f st).1 = .ok x → Q x
  unfold M.bind
  rw [e1]
  cases hm : m st with
  | mk r st1 =>
    rw [hm] at i1 p1
    cases r with
    | error e => exact ⟨i1, rfl, fun x hx => by cases hx⟩
    | ok x => exact h2 x (p1 x rfl) st1 i1

theorem sim_ite {P : α → Prop} (c : Prop) [Decidable c] {a b : M (St V) α} {aa ba : M (ATab V) α}
    (h1 : Sim n P a aa) (h2 : Sim n P b ba) :
    Sim n P (if c then a else b) (if c then aa else ba) := by
  split <;> assumption

theorem sim_tryFinally {P : α → Prop} {m : M (St V) α} {ma : M (ATab V) α}
    {fin : M (St V) Unit} {fina : M (ATab V) Unit}
    (h1 : Sim n P m ma) (h2 : Sim n (fun _ => True) fin fina) :
    Sim n P (M.tryFinally m fin) (M.tryFinally ma fina) := by
  intro st hinv
  obtain ⟨i1, e1, p1⟩ := h1 st hinv
  unfold M.tryFinally
  rw [e1]
  cases hm : m st with
  | mk r st1 =>
    rw [hm] at i1 p1
    obtain ⟨i2, e2, _⟩ := h2 st1 i1
    simp only
    rw [e2]
    cases hf : fin st1 with
    | mk r2 st2 =>
      rw [hf] at i2
      cases r2 with
      | error e =>
        refine ⟨i2, rfl, fun x hx => ?_⟩
        cases r with
        | ok y => cases hx
        | error e' => cases e' <;> cases hx
      | ok u => exact ⟨i2, rfl, fun x hx => p1 x hx⟩

theorem sim_catchIndex {P : α → Prop} {m : M (St V) α} {ma : M (ATab V) α} (d : α)
    (h1 : Sim n P m ma) (hd : P d) : Sim n P (M.catchIndex m d) (M.catchIndex ma d) := by
  intro st hinv
  obtain ⟨i1, e1, p1⟩ := h1 st hinv
  unfold M.catchIndex
  rw [e1]
  cases hm : m st with
  | mk r st1 =>
    rw [hm] at i1 p1
    cases r with
    | ok x => exact ⟨i1, rfl, fun y hy => p1 y hy⟩
    | error e =>
      cases e <;> first
        | exact ⟨i1, rfl, fun y hy => by cases hy; exact hd⟩
        | exact ⟨i1, rfl, fun y hy => by cases hy⟩

theorem sim_forEach (l : List α) {f : α → M (St V) Unit} {fa : α → M (ATab V) Unit}
    (h : ∀ a, a ∈ l → Sim n (fun _ => True) (f a) (fa a)) :
    Sim n (fun _ => True) (M.forEach l f) (M.forEach l fa) := by
  induction l with
  | nil => exact sim_pure () trivial
  | cons a t ih =>
    unfold M.forEach
    exact sim_bind (h a (by simp)) (fun _ _ => ih (fun b hb => h b (by simp [hb])))

theorem sim_mapL (l : List α) {Q : β → Prop} {f : α → M (St V) β} {fa : α → M (ATab V) β}
    (h : ∀ a, a ∈ l → Sim n Q (f a) (fa a)) :
    Sim n (fun r => r.length = l.length) (M.mapL l f) (M.mapL l fa) := by
  induction l with
  | nil => exact sim_pure [] rfl
  | cons a t ih =>
    unfold M.mapL
    refine sim_bind (h a (by simp)) (fun b _ => ?_)
    refine sim_bind (ih (fun c hc => h c (by simp [hc]))) (fun bs hbs => ?_)
    exact sim_pure _ (by simp [hbs])

theorem sim_foldL (l : List α) {f : β → α → M (St V) β} {fa : β → α → M (ATab V) β}
    (init : β) (h : ∀ b a, a ∈ l → Sim n (fun _ => True) (f b a) (fa b a)) :
    Sim n (fun _ => True) (M.foldL l init f) (M.foldL l init fa) := by
  induction l generalizing init with
  | nil => exact sim_pure init trivial
  | cons a t ih =>
    unfold M.foldL
    exact sim_bind (h init a (by simp)) (fun b _ => ih b (fun b' c hc => h b' c (by simp [hc])))

end combinators
end TV.Features
