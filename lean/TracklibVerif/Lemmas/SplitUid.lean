import TracklibVerif.Lemmas.SplitLimit
/-! Helper lemmas for C11: the uid numbers (`count`, `begin`, `end`) of the pieces. -/
namespace TV.Split
variable {β : Type}

/-- forgetting the uid numbers gives the loop of `splitL`; `begin != 0` is its `started` flag -/
theorem goU_goL (short : List β → Bool) (obs : List (β × Bool)) (i begin count : Nat) (cur : List β)
    (acc : List (PId × List β)) (st : Bool) (hst : decide (begin ≠ 0) = st) :
    ((goU short obs i begin count cur acc).1.map Prod.snd, (goU short obs i begin count cur acc).2.1,
      decide ((goU short obs i begin count cur acc).2.2.1 ≠ 0)) = goL short obs cur (acc.map Prod.snd) st := by
  induction obs generalizing i begin count cur acc st with
  | nil => subst hst; rfl
  | cons p rest ih =>
    obtain ⟨o, m⟩ := p
    cases m with
    | true =>
      simp only [goU, goL, if_true]
      cases hs : short (cur ++ [o]) with
      | true =>
        simp only [if_true]
        exact ih (i + 1) (i + 1) count [] acc true (by simp)
      | false =>
        simp only [Bool.false_eq_true, if_false]
        have := ih (i + 1) (i + 1) (count + 1) [] (acc ++ [((count, begin, i), cur ++ [o])]) true (by simp)
        simpa using this
    | false =>
      simp only [goU, goL, Bool.false_eq_true, if_false]
      exact ih (i + 1) begin count (cur ++ [o]) acc st hst

theorem splitU_pieces (short keepTail : List β → Bool) (obs : List (β × Bool)) :
    (splitU short keepTail obs).map Prod.snd = splitL short keepTail obs := by
  have h := goU_goL short obs 0 0 0 [] [] false (by simp)
  simp only [List.map_nil] at h
  unfold splitU splitL
  rw [← h]
  generalize goU short obs 0 0 0 [] [] = r
  obtain ⟨acc, cur, begin, count⟩ := r
  by_cases hb : begin = 0
  · simp [hb]
  · cases hk : keepTail cur <;> simp [hb, hk]

/-- the piece with numbers (`count`, `begin`, `end`) is the run `begin..end` of the track -/
def IdOk (full : List β) (x : PId × List β) : Prop :=
  x.2 = (full.take (x.1.2.2 + 1)).drop x.1.2.1 ∧ x.1.2.1 ≤ x.1.2.2 + 1 ∧ x.1.2.2 + 1 ≤ full.length

theorem goU_inv (short : List β → Bool) (full : List β) :
    ∀ (rest : List (β × Bool)) (pre : List β) (i begin count : Nat) (cur : List β) (acc : List (PId × List β)),
    full = pre ++ rest.map Prod.fst → i = pre.length → begin ≤ i → cur = pre.drop begin →
    (∀ x ∈ acc, IdOk full x) → acc.map (fun x => x.1.1) = List.range count →
    (∀ x ∈ (goU short rest i begin count cur acc).1, IdOk full x) ∧
    (goU short rest i begin count cur acc).1.map (fun x => x.1.1) = List.range (goU short rest i begin count cur acc).2.2.2 ∧
    (goU short rest i begin count cur acc).2.1 = full.drop (goU short rest i begin count cur acc).2.2.1 ∧
    (goU short rest i begin count cur acc).2.2.1 ≤ full.length := by
  intro rest
  induction rest with
  | nil =>
    intro pre i begin count cur acc hfull hi hb hcur hacc hcnt
    simp only [List.map_nil, List.append_nil] at hfull
    subst hfull
    simp only [goU]
    exact ⟨hacc, hcnt, hcur, by omega⟩
  | cons p rest ih =>
    intro pre i begin count cur acc hfull hi hb hcur hacc hcnt
    obtain ⟨o, m⟩ := p
    have hfull' : full = (pre ++ [o]) ++ rest.map Prod.fst := by simp [hfull]
    have hi' : i + 1 = (pre ++ [o]).length := by simp [hi]
    cases m with
    | true =>
      simp only [goU, if_true]
      have hpiece : cur ++ [o] = (full.take (i + 1)).drop begin := by
        rw [hfull', hi', List.take_left', hcur, List.drop_append_of_le_length (by omega)]
        rfl
      cases hs : short (cur ++ [o]) with
      | true =>
        simp only [if_true]
        exact ih (pre ++ [o]) (i + 1) (i + 1) count [] acc hfull' hi' (Nat.le_refl _)
          (by rw [hi']; simp) hacc hcnt
      | false =>
        simp only [Bool.false_eq_true, if_false]
        refine ih (pre ++ [o]) (i + 1) (i + 1) (count + 1) [] _ hfull' hi' (Nat.le_refl _) (by rw [hi']; simp) ?_ ?_
        · intro x hx
          rcases List.mem_append.mp hx with h | h
          · exact hacc x h
          · have : x = ((count, begin, i), cur ++ [o]) := by simpa using h
            subst this
            exact ⟨hpiece, by show begin ≤ i + 1; omega, by show i + 1 ≤ full.length; rw [hfull']; simp; omega⟩
        · simp [hcnt, List.range_succ]
    | false =>
      simp only [goU, Bool.false_eq_true, if_false]
      refine ih (pre ++ [o]) (i + 1) begin count (cur ++ [o]) acc hfull' hi' (by omega) ?_ hacc hcnt
      rw [hcur, List.drop_append_of_le_length (by omega)]

/-- the uid numbers of `split(track, name, limit)`: `begin` / `end` delimit the piece in the track, `count` numbers
the returned pieces 0, 1, 2, … -/
theorem splitU_ids (short keepTail : List β → Bool) (obs : List (β × Bool)) :
    (∀ x ∈ splitU short keepTail obs, IdOk (obs.map Prod.fst) x) ∧
    (splitU short keepTail obs).map (fun x => x.1.1) = List.range (splitU short keepTail obs).length := by
  obtain ⟨h1, h2, h3, h4⟩ := goU_inv short (obs.map Prod.fst) obs [] 0 0 0 [] [] (by simp) rfl (Nat.le_refl _) rfl
    (by intro x hx; cases hx) rfl
  unfold splitU
  revert h1 h2 h3 h4
  generalize goU short obs 0 0 0 [] [] = r
  obtain ⟨acc, cur, begin, count⟩ := r
  intro h1 h2 h3 h4
  simp only at h1 h2 h3 h4
  have hlen : acc.length = count := by
    have := congrArg List.length h2
    simpa using this
  by_cases hb : begin = 0
  · simp only [hb, ne_eq, not_true_eq_false, if_false]
    exact ⟨h1, by rw [h2, hlen]⟩
  · cases hk : keepTail cur with
    | false =>
      simp only [hb, ne_eq, not_false_eq_true, if_true, hk, Bool.false_eq_true, if_false]
      exact ⟨h1, by rw [h2, hlen]⟩
    | true =>
      simp only [hb, ne_eq, not_false_eq_true, if_true, hk]
      constructor
      · intro x hx
        rcases List.mem_append.mp hx with h | h
        · exact h1 x h
        · have : x = ((count, begin, obs.length - 1), cur) := by simpa using h
          subst this
          simp only [List.length_map] at h4
          have e : obs.length - 1 + 1 = (obs.map Prod.fst).length := by simp; omega
          refine ⟨?_, ?_, ?_⟩
          · show cur = ((obs.map Prod.fst).take (obs.length - 1 + 1)).drop begin
            rw [e, List.take_length, h3]
          · show begin ≤ obs.length - 1 + 1
            omega
          · show obs.length - 1 + 1 ≤ (obs.map Prod.fst).length
            omega
      · simp [h2, hlen, List.range_succ]

/-- a piece with uid numbers (`begin`, `end`) is what `Track.extract(begin, end)` returns -/
theorem IdOk.extract {full : List β} {x : PId × List β} (h : IdOk full x) :
    extract full (x.1.2.1 : Int) (x.1.2.2 : Int) = some x.2 := by
  obtain ⟨⟨c, b, e⟩, p⟩ := x
  obtain ⟨hp, hbe, hel⟩ := h
  simp only at hp hbe hel ⊢
  by_cases hlt : b ≤ e
  · rw [extract_range full b e hlt (by omega), hp, List.drop_take]
  · have hb : b = e + 1 := by omega
    rw [extract_empty full b e (by omega), hp, hb]
    congr 1
    symm
    apply List.drop_eq_nil_of_le
    simp only [List.length_take]
    omega
end TV.Split
