import TracklibVerif.Lemmas.SimplifyVwAny
import TracklibVerif.Lemmas.SimplifyVw
/-! Visvalingam, **mixed columns** (some `'@aire'` entries numbers below ARGMIN's initial minimum, some infinite — found since b728412 — or NaN — never found): when exactly the
first observation survives. The entry of the first observation is NaN from the start and is never rewritten while ARGMIN answers an
index >= 1 (the two neighbour updates write `id - 1 >= 1` and `id >= 1`); ARGMIN answers an index >= 1 exactly when it finds a minimum,
i.e. when some entry is a number below its initial minimum or equal to it (`Hit`; `+inf` itself counts since b728412: only a column
of NaN has no minimum); otherwise it answers its default 0, `NaN > eps` is False, and the
first observation is removed. So the first observation is kept **iff every pass finds a minimum** (`AllHit`).
No property of the scalar type is used. -/
namespace TV.Simplify
set_option linter.unusedSectionVars false
variable {α : Type} [Add α] [Sub α] [Mul α] [Div α] [Neg α] [LT α] [DecidableLT α] [BEq α]
  [OfNat α 0] [OfNat α 1] [OfNat α 2]

/-- the `'@aire'` entry of the first observation is NaN -/
def FirstNaN (S : VState α) : Prop := ∃ p, S[0]? = some (p, none)

/-- ARGMIN finds a minimum: some entry of the column is a number below its initial minimum or — since b728412 — equal to it
(`+inf`: an infinite area is found; only NaN is not) -/
def Hit (big : α) (S : VState α) : Prop :=
  ∃ (j : Nat) (v : α), (S.map (·.2))[j]? = some (some v) ∧ (v < big ∨ (v == big) = true)

/-- every pass of the run (at most `fuel` passes from `S`) finds a minimum -/
def AllHit (big eps2 : α) : Nat → VState α → Prop
  | 0, _ => True
  | fuel + 1, S =>
    match vwStep big eps2 S with
    | none => True
    | some S' => Hit big S ∧ AllHit big eps2 fuel S'

theorem hit_argmin_pos (big : α) (S : VState α) (hf : FirstNaN S) (hh : Hit big S) : 0 < argmin big (S.map (·.2)) := by
  obtain ⟨j0, v0, a0, b0⟩ := hh
  obtain ⟨j, v, eid, hj⟩ := argmin_hit big (S.map (·.2)) ⟨j0, v0, a0, b0⟩
  rw [eid]
  cases j with
  | zero =>
    obtain ⟨p, hp⟩ := hf
    rw [List.getElem?_map, hp] at hj
    simp at hj
  | succ j => omega

theorem bodyL_firstNaN (S : VState α) (id : Nat) (h : FirstNaN S) (h0 : 0 < id) : FirstNaN (bodyL S id) := by
  obtain ⟨p, hp⟩ := h
  have n1 : (S.eraseIdx id)[0]? = some (p, none) := by
    rw [List.getElem?_eraseIdx]; simp [h0, hp]
  have n2 : (if id > 1 then setAire (S.eraseIdx id) (id - 1) else S.eraseIdx id)[0]? = some (p, none) := by
    split
    · rw [setAire_ne _ _ _ (by omega)]; exact n1
    · exact n1
  unfold bodyL
  generalize (if id > 1 then setAire (S.eraseIdx id) (id - 1) else S.eraseIdx id) = S2 at n2 ⊢
  split
  · exact ⟨p, by rw [setAire_ne _ _ _ (by omega)]; exact n2⟩
  · exact ⟨p, n2⟩

/-- a pass that finds a minimum removes an observation other than the first (and the last) -/
theorem vwStep_hit (big eps2 : α) (S S' : VState α) (hf : FirstNaN S) (hl : LastNaN S) (hh : Hit big S)
    (hs : vwStep big eps2 S = some S') :
    FirstNaN S' ∧ LastNaN S' ∧ (S'.map (·.1)).head? = (S.map (·.1)).head? ∧ (S'.map (·.1)).Sublist (S.map (·.1)) := by
  obtain ⟨l', h2, _, id, _, hm, eid⟩ := vwStep_any big eps2 S S' hl hs
  have hpos := hit_argmin_pos big S hf hh
  refine ⟨?_, l', ?_, by rw [hm]; exact List.eraseIdx_sublist _ _⟩
  · have h2' : S.length > 2 := h2
    rw [vwStep_eq, if_pos h2'] at hs
    have hs' := ite_none_some hs
    subst hs'
    exact bodyL_firstNaN S _ hf hpos
  · rw [hm, head?_eraseIdx_pos _ _ (by rw [eid]; exact hpos)]

/-- a pass that finds no minimum removes the first observation -/
theorem vwStep_nohit (big eps2 : α) (S S' : VState α) (hf : FirstNaN S) (hl : LastNaN S) (hh : ¬ Hit big S)
    (hs : vwStep big eps2 S = some S') : S'.map (·.1) = (S.map (·.1)).eraseIdx 0 := by
  obtain ⟨_, h2, _, _⟩ := vwStep_any big eps2 S S' hl hs
  obtain ⟨p, hp⟩ := hf
  obtain ⟨S'', e1, e2⟩ := vwStep_sentinel big eps2 S h2 p hp (fun j v hj => ⟨fun hlt => hh ⟨j, v, hj, Or.inl hlt⟩, fun he => hh ⟨j, v, hj, Or.inr he⟩⟩)
  rw [hs] at e1
  cases e1
  exact e2

/-- if every pass finds a minimum the first observation is kept -/
theorem vwLoop_first_kept (big eps2 : α) (fuel : Nat) :
    ∀ S : VState α, FirstNaN S → LastNaN S → AllHit big eps2 fuel S →
      ((vwLoop big eps2 fuel S).map (·.1)).head? = (S.map (·.1)).head? := by
  induction fuel with
  | zero => intro S _ _ _; rfl
  | succ fuel ih =>
    intro S hf hl ha
    rw [vwLoop]
    cases hs : vwStep big eps2 S with
    | none => rfl
    | some S' =>
      simp only [AllHit, hs] at ha
      obtain ⟨f', l', e, _⟩ := vwStep_hit big eps2 S S' hf hl ha.1 hs
      simp only
      rw [ih S' f' l' ha.2, e]

/-- if some pass finds no minimum the first observation is lost (observations pairwise different, as the tagged fixes of a track are) -/
theorem vwLoop_first_lost (big eps2 : α) (fuel : Nat) :
    ∀ S : VState α, FirstNaN S → LastNaN S → (S.map (·.1)).Nodup → ¬ AllHit big eps2 fuel S →
      ((vwLoop big eps2 fuel S).map (·.1)).head? ≠ (S.map (·.1)).head? := by
  induction fuel with
  | zero => intro S _ _ _ ha; exact absurd trivial ha
  | succ fuel ih =>
    intro S hf hl hn ha
    rw [vwLoop]
    cases hs : vwStep big eps2 S with
    | none => simp only [AllHit, hs] at ha; exact absurd trivial ha
    | some S' =>
      simp only [AllHit, hs] at ha
      simp only
      by_cases hh : Hit big S
      · obtain ⟨f', l', e, sub⟩ := vwStep_hit big eps2 S S' hf hl hh hs
        have := ih S' f' l' (hn.sublist sub) (fun h' => ha ⟨hh, h'⟩)
        rw [e] at this
        exact this
      · have em := vwStep_nohit big eps2 S S' hf hl hh hs
        obtain ⟨l', h2, hlen, _⟩ := vwStep_any big eps2 S S' hl hs
        obtain ⟨_, sub, _, hge⟩ := vwLoop_any big eps2 fuel S' l'
        rw [em] at sub
        have hge' := hge (by omega)
        cases hS : S.map (·.1) with
        | nil =>
          have := congrArg List.length hS
          simp only [List.length_map, List.length_nil] at this
          omega
        | cons a tl =>
          rw [hS] at sub hn
          simp only [List.eraseIdx_zero, List.tail_cons] at sub
          cases hR : (vwLoop big eps2 fuel S').map (·.1) with
          | nil =>
            have := congrArg List.length hR
            simp only [List.length_map, List.length_nil] at this
            omega
          | cons x rest =>
            rw [hR] at sub
            simp only [List.head?_cons, ne_eq, Option.some.injEq]
            intro hxa
            subst hxa
            have hx : x ∈ tl := sub.subset List.mem_cons_self
            exact (List.nodup_cons.mp hn).1 hx

end TV.Simplify
