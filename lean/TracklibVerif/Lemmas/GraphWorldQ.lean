import TracklibVerif.Lemmas.GraphWorld
import TracklibVerif.Lemmas.GraphSessionQ
/-! The session invariant (`SessOK`, `Lemmas/GraphSession.lean`) through the routing-method API: an A* search leaves
flags on nodes of `NODES` only, so every object of a `World` satisfies the invariant after any program. -/
set_option linter.unusedSectionVars false
namespace TV.Graph
variable {W : Type} [LinearOrder W] [Add W] [Zero W] [WalkAdd W] [Sub W] [Mul W] [OfNat W 1]

/-- an A* search on the object leaves clean flags outside `NODES` -/
theorem routeOnH_clean (net : Net W) (order : List Nat) (hends : ∀ e ∈ net.edges, e.src ∈ order ∧ e.tgt ∈ order)
    (st : St W) (hclean : CleanOutside order st) (h : Nat → W) (s : Nat) (hs : s ∈ order) (tgt : Option Nat)
    (cut : Option W) : CleanOutside order (routeOnH net order st h s tgt cut).1 := by
  unfold routeOnH
  rw [start_clean order st s hclean]
  have hinv := forwardH_invC net h s tgt cut
  generalize (forwardH net h tgt cut net.n (St.init s) []).1 = r at hinv
  intro v hv
  have hd : r.d v = none := by
    cases hq : r.d v with
    | none => rfl
    | some y =>
      obtain ⟨c, hc⟩ := hinv.c1 v y hq
      exact absurd (walk_in_order hends hs hc) hv
  refine ⟨hd, ?_, ?_⟩
  · cases hq : r.vis v with
    | false => rfl
    | true => obtain ⟨x, hx⟩ := hinv.c2 v hq; rw [hd] at hx; cases hx
  · cases hq : r.pred v with
    | none => rfl
    | some p => obtain ⟨x, hx⟩ := hinv.c3 v p hq; rw [hd] at hx; cases hx

/-- a search with a target on an object whose own `routing_mode` is 1, in any state a program can reach (`SessOK`): the
flags earlier searches left are reset, so the call answers with the pure A* search (`runForwardH`, heuristic
`astar_wgt × distance to the target`) on the object's graph as it is at that moment; a caller's dictionary receives that
search's entries -/
theorem execObj_astar_eq (sqrt : W → W) (o : NetObj W) (hok : SessOK o.sess) (hm : o.mode = 1) (s t : Nat)
    (hs : s ∈ o.sess.order) (ht : t ∈ o.sess.order) (cut : Option W) (ud : Bool) :
    (execObj sqrt o (.call (.dist s t cut ud))).2 = .val (shortestDistanceH o.sess.net (o.h sqrt (some t)) s t cut) ∧
    (execObj sqrt o (.call (.dist s t cut ud))).1.sess.udict =
      (if ud then record o.sess.udict s (runForwardH o.sess.net (o.h sqrt (some t)) s (some t) cut).2 else o.sess.udict) ∧
    (execObj sqrt o (.call (.route s (some t) cut ud))).2 =
      .flags (o.sess.order.map (runForwardH o.sess.net (o.h sqrt (some t)) s (some t) cut).1.d)
             (o.sess.order.map (runForwardH o.sess.net (o.h sqrt (some t)) s (some t) cut).1.vis) ∧
    (execObj sqrt o (.call (.route s (some t) cut ud))).1.sess.udict =
      (if ud then record o.sess.udict s (runForwardH o.sess.net (o.h sqrt (some t)) s (some t) cut).2 else o.sess.udict) := by
  have hcs : (o.sess.order.contains s && o.sess.order.contains t) = true := by
    simp only [Bool.and_eq_true, contains_iff]; exact ⟨hs, ht⟩
  have hst : routeOnH o.sess.net o.sess.order o.sess.flags (o.h sqrt (some t)) s (some t) cut =
      runForwardH o.sess.net (o.h sqrt (some t)) s (some t) cut := by
    unfold routeOnH runForwardH
    rw [start_clean o.sess.order o.sess.flags s hok.clean]
  refine ⟨?_, ?_, ?_, ?_⟩ <;> simp only [execObj, hm, if_true, hcs, hst] <;> rfl

/-- every call of the routing-method API keeps the session invariant of its object -/
theorem execObj_ok (sqrt : W → W) (o : NetObj W) (hok : SessOK o.sess) (op : WOp W) :
    SessOK (execObj sqrt o op).1.sess := by
  cases op with
  | setMethod m => exact hok
  | setWeight x => exact hok
  | call op =>
    by_cases hm : o.mode = 1
    · cases op with
      | route s t cut ud =>
        cases t with
        | none => exact exec_ok o.sess hok _
        | some t =>
          simp only [execObj, hm, if_true]
          split
          · rename_i hc
            simp only [Bool.and_eq_true, contains_iff] at hc
            exact ⟨hok.wf, hok.nodes, hok.ends, routeOnH_clean _ _ hok.ends _ hok.clean _ s hc.1 _ _⟩
          · exact hok
      | dist s t cut ud =>
        simp only [execObj, hm, if_true]
        split
        · rename_i hc
          simp only [Bool.and_eq_true, contains_iff] at hc
          exact ⟨hok.wf, hok.nodes, hok.ends, routeOnH_clean _ _ hok.ends _ hok.clean _ s hc.1 _ _⟩
        · exact hok
      | _ => exact exec_ok o.sess hok _
    · rw [execObj_dijkstra sqrt o hm op]; exact exec_ok o.sess hok op

/-- every object of a program that starts with no `Network` object satisfies the session invariant -/
theorem worldAfter_ok (sqrt : W → W) (w : World W) (hw : ∀ (k : Nat) (o : NetObj W), w[k]? = some o → SessOK o.sess)
    (ops : List (WorldOp W)) : ∀ (k : Nat) (o : NetObj W), (worldAfter sqrt w ops)[k]? = some o → SessOK o.sess := by
  induction ops generalizing w with
  | nil => exact hw
  | cons op rest ih =>
    apply ih
    intro k o hk
    cases op with
    | create n pos =>
      simp only [execWorld] at hk
      rcases Nat.lt_or_ge k w.length with hlt | hge
      · rw [List.getElem?_append_left hlt] at hk; exact hw k o hk
      · rw [List.getElem?_append_right hge] at hk
        have : o = NetObj.new n pos := by
          cases hq : k - w.length with
          | zero => rw [hq] at hk; simpa using hk.symm
          | succ m => rw [hq] at hk; simp at hk
        rw [this]; exact new_ok n
    | on j wop =>
      simp only [execWorld] at hk
      cases hj : w[j]? with
      | none => rw [hj] at hk; exact hw k o hk
      | some oj =>
        rw [hj] at hk
        simp only [] at hk
        by_cases hjk : j = k
        · subst hjk
          have hlen : j < w.length := by
            rcases Nat.lt_or_ge j w.length with hq | hq
            · exact hq
            · rw [List.getElem?_eq_none hq] at hj; cases hj
          rw [List.getElem?_set_self hlen] at hk
          cases hk
          exact execObj_ok sqrt oj (hw j oj hj) wop
        · rw [List.getElem?_set_ne hjk] at hk; exact hw k o hk
end TV.Graph
