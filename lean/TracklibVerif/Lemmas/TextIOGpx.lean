import TracklibVerif.Lemmas.TextIONet
/-! GPX (core only): the body `writeToGpx` writes for one track, scanned by the `trk` branch of `__readFromGpx`. -/
namespace TV.TextIO
open TV.ObsTime

/-! ### substring tests -/

theorem isInfix_skip (p : Char) (ps X S : Str) (h : p ∉ X) : isInfix (p :: ps) (X ++ S) = isInfix (p :: ps) S := by
  induction X with
  | nil => rfl
  | cons x xs ih =>
    have hx : p ≠ x := fun e => h (by simp [e])
    simp only [List.cons_append, isInfix, isPrefix, hx, decide_false, Bool.false_and, Bool.false_or]
    exact ih (fun hm => h (by simp [hm]))

/-! ### symbolic parts -/

theorem fixedWS_3_8 (v : SNum) : fixedWS 3 8 v = fixedCoreS 8 v := by
  unfold fixedWS lpad
  have : 3 - (fixedCoreS 8 v).length = 0 := by
    unfold fixedCoreS
    simp only [List.length_append, padDigits_length]
    omega
  rw [this]; rfl

theorem fixedWS_3_8_num (v : SNum) : ∀ c ∈ fixedWS 3 8 v, numChar c = true := by
  rw [fixedWS_3_8]; exact fixedCoreS_numChar 8 v

theorem num_avoid (v : SNum) (x : Char) (hx : numChar x = false) : x ∉ fixedWS 3 8 v :=
  not_mem_of_numChar _ (fixedWS_3_8_num v) x hx

def litsOf (f : List Tok) : List Char := f.filterMap (fun tk => match tk with | Tok.lit c => some c | _ => none)

theorem mem_litsOf {f : List Tok} {c : Char} (h : Tok.lit c ∈ f) : c ∈ litsOf f := by
  unfold litsOf
  exact List.mem_filterMap.2 ⟨_, h, rfl⟩

/-- characters of an ISO timestamp: digits, `-`, `T`, `:` -/
theorem isoTime_chars (t : Stamp) : ∀ c ∈ printTime isoFmt t, (digitVal? c).isSome = true ∨ c = '-' ∨ c = 'T' ∨ c = ':' := by
  intro c hc
  rcases printTime_chars isoFmt t c hc with h | h
  · exact Or.inl h
  · right
    have hl : litsOf isoFmt = ['-', '-', 'T', ':', ':'] := by decide
    have := mem_litsOf h
    rw [hl] at this
    simp at this
    rcases this with h | h | h <;> simp [h]

theorem isoTime_avoid (t : Stamp) (x : Char) (hd : (digitVal? x).isSome = false) (h1 : x ≠ '-') (h2 : x ≠ 'T') (h3 : x ≠ ':') :
    x ∉ printTime isoFmt t := by
  intro hm
  rcases isoTime_chars t x hm with h | h | h | h
  · rw [h] at hd; exact absurd hd (by decide)
  · exact h1 h
  · exact h2 h
  · exact h3 h

/-! ### which tags each line contains -/

structure Tags (line : Str) (trk etrk pt ept ele time : Bool) : Prop where
  trk : isInfix "<trk>".toList line = trk
  etrk : isInfix "</trk>".toList line = etrk
  pt : isInfix "<trkpt ".toList line = pt
  ept : isInfix "</trkpt>".toList line = ept
  ele : isInfix "<ele>".toList line = ele
  time : isInfix "<time>".toList line = time

theorem tags_lTrk : Tags lTrk true false false false false false := by constructor <;> decide
theorem tags_lSeg : Tags lSeg false false false false false false := by constructor <;> decide
theorem tags_lEndPt : Tags lEndPt false false false true false false := by constructor <;> decide
theorem tags_lEndSeg : Tags lEndSeg false false false false false false := by constructor <;> decide
theorem tags_lEndTrk : Tags lEndTrk false true false false false false := by constructor <;> decide
theorem tags_lEndGpx : Tags lEndGpx false false false false false false := by constructor <;> decide

theorem isInfix_none (p : Char) (ps B : Str) (h : p ∉ B) : isInfix (p :: ps) B = false := by
  have := isInfix_skip p ps B [] h
  simpa [isInfix] using this

theorem isInfix_one (ps A B : Str) (hA : '<' ∉ A) (hB : '<' ∉ B) :
    isInfix ('<' :: ps) (A ++ '<' :: B) = isPrefix ps B := by
  rw [isInfix_skip _ _ _ _ hA]
  simp [isInfix, isPrefix, isInfix_none _ _ _ hB]

theorem isInfix_two (ps A B C : Str) (hA : '<' ∉ A) (hB : '<' ∉ B) (hC : '<' ∉ C) :
    isInfix ('<' :: ps) (A ++ '<' :: (B ++ '<' :: C)) = (isPrefix ps (B ++ '<' :: C) || isPrefix ps C) := by
  rw [isInfix_skip _ _ _ _ hA]
  simp only [isInfix, isPrefix, decide_true, Bool.true_and]
  rw [isInfix_one ps B C hB hC]

theorem pat_trk : "<trk>".toList = '<' :: ['t', 'r', 'k', '>'] := rfl
theorem pat_etrk : "</trk>".toList = '<' :: ['/', 't', 'r', 'k', '>'] := rfl
theorem pat_pt : "<trkpt ".toList = '<' :: ['t', 'r', 'k', 'p', 't', ' '] := rfl
theorem pat_ept : "</trkpt>".toList = '<' :: ['/', 't', 'r', 'k', 'p', 't', '>'] := rfl
theorem pat_ele : "<ele>".toList = '<' :: ['e', 'l', 'e', '>'] := rfl
theorem pat_time : "<time>".toList = '<' :: ['t', 'i', 'm', 'e', '>'] := rfl

theorem lName_decomp (name : Str) :
    lName name = [' ', ' ', ' ', ' '] ++ '<' :: (('n' :: 'a' :: 'm' :: 'e' :: '>' :: name) ++ '<' :: ['/', 'n', 'a', 'm', 'e', '>']) := rfl

theorem lPt_decomp (r : GRow) :
    lPt r = List.replicate 12 ' ' ++ '<' :: ('t' :: 'r' :: 'k' :: 'p' :: 't' :: ' ' :: 'l' :: 'a' :: 't' :: '=' :: '"' ::
      (fixedWS 3 8 r.y ++ '"' :: ' ' :: 'l' :: 'o' :: 'n' :: '=' :: '"' :: (fixedWS 3 8 r.x ++ ['"', '>']))) := rfl

theorem lEle_decomp (r : GRow) :
    lEle r = List.replicate 16 ' ' ++ '<' :: (('e' :: 'l' :: 'e' :: '>' :: fixedWS 3 8 r.z) ++ '<' :: ['/', 'e', 'l', 'e', '>']) := rfl

theorem lTime_decomp (r : GRow) :
    lTime r = List.replicate 16 ' ' ++ '<' :: (('t' :: 'i' :: 'm' :: 'e' :: '>' :: (printTime isoFmt r.t ++ ['Z'])) ++ '<' :: ['/', 't', 'i', 'm', 'e', '>']) := by
  unfold lTime
  have : printTime isoFmt r.t ++ "Z</time>".toList = (printTime isoFmt r.t ++ ['Z']) ++ '<' :: ['/', 't', 'i', 'm', 'e', '>'] := by
    rw [List.append_assoc]; rfl
  rw [this]; rfl

theorem tags_lName (name : Str) (h : '<' ∉ name) : Tags (lName name) false false false false false false := by
  have hA : '<' ∉ [' ', ' ', ' ', ' '] := by decide
  have hB : '<' ∉ ('n' :: 'a' :: 'm' :: 'e' :: '>' :: name) := by simp [h]
  have hC : '<' ∉ ['/', 'n', 'a', 'm', 'e', '>'] := by decide
  constructor <;>
    simp only [lName_decomp, pat_trk, pat_etrk, pat_pt, pat_ept, pat_ele, pat_time, isInfix_two _ _ _ _ hA hB hC] <;>
    simp [isPrefix]

theorem tags_lPt (r : GRow) : Tags (lPt r) false false true false false false := by
  have hA : '<' ∉ List.replicate 12 ' ' := by decide
  have hB : '<' ∉ ('t' :: 'r' :: 'k' :: 'p' :: 't' :: ' ' :: 'l' :: 'a' :: 't' :: '=' :: '"' ::
      (fixedWS 3 8 r.y ++ '"' :: ' ' :: 'l' :: 'o' :: 'n' :: '=' :: '"' :: (fixedWS 3 8 r.x ++ ['"', '>']))) := by
    simp [num_avoid r.y '<' (by decide), num_avoid r.x '<' (by decide)]
  constructor <;>
    simp only [lPt_decomp, pat_trk, pat_etrk, pat_pt, pat_ept, pat_ele, pat_time, isInfix_one _ _ _ hA hB] <;>
    simp [isPrefix]

theorem tags_lEle (r : GRow) : Tags (lEle r) false false false false true false := by
  have hA : '<' ∉ List.replicate 16 ' ' := by decide
  have hB : '<' ∉ ('e' :: 'l' :: 'e' :: '>' :: fixedWS 3 8 r.z) := by simp [num_avoid r.z '<' (by decide)]
  have hC : '<' ∉ ['/', 'e', 'l', 'e', '>'] := by decide
  constructor <;>
    simp only [lEle_decomp, pat_trk, pat_etrk, pat_pt, pat_ept, pat_ele, pat_time, isInfix_two _ _ _ _ hA hB hC] <;>
    simp [isPrefix]

theorem tags_lTime (r : GRow) : Tags (lTime r) false false false false false true := by
  have hA : '<' ∉ List.replicate 16 ' ' := by decide
  have hB : '<' ∉ ('t' :: 'i' :: 'm' :: 'e' :: '>' :: (printTime isoFmt r.t ++ ['Z'])) := by
    simp [isoTime_avoid r.t '<' (by decide) (by decide) (by decide) (by decide)]
  have hC : '<' ∉ ['/', 't', 'i', 'm', 'e', '>'] := by decide
  constructor <;>
    simp only [lTime_decomp, pat_trk, pat_etrk, pat_pt, pat_ept, pat_ele, pat_time, isInfix_two _ _ _ _ hA hB hC] <;>
    simp [isPrefix]

/-! ### no line of the plain body opens or closes an `<extensions>` block -/

structure NoExt (line : Str) : Prop where
  ext : isInfix "<extensions>".toList line = false
  eext : isInfix "</extensions>".toList line = false

theorem pat_ext : "<extensions>".toList = '<' :: ['e', 'x', 't', 'e', 'n', 's', 'i', 'o', 'n', 's', '>'] := rfl
theorem pat_eext : "</extensions>".toList = '<' :: ['/', 'e', 'x', 't', 'e', 'n', 's', 'i', 'o', 'n', 's', '>'] := rfl

theorem noext_lTrk : NoExt lTrk := by constructor <;> decide
theorem noext_lSeg : NoExt lSeg := by constructor <;> decide
theorem noext_lEndPt : NoExt lEndPt := by constructor <;> decide
theorem noext_lEndSeg : NoExt lEndSeg := by constructor <;> decide
theorem noext_lEndTrk : NoExt lEndTrk := by constructor <;> decide
theorem noext_lEndGpx : NoExt lEndGpx := by constructor <;> decide

theorem noext_lName (name : Str) (h : '<' ∉ name) : NoExt (lName name) := by
  have hA : '<' ∉ [' ', ' ', ' ', ' '] := by decide
  have hB : '<' ∉ ('n' :: 'a' :: 'm' :: 'e' :: '>' :: name) := by simp [h]
  have hC : '<' ∉ ['/', 'n', 'a', 'm', 'e', '>'] := by decide
  constructor <;>
    simp only [lName_decomp, pat_ext, pat_eext, isInfix_two _ _ _ _ hA hB hC] <;>
    simp [isPrefix]

theorem noext_lPt (r : GRow) : NoExt (lPt r) := by
  have hA : '<' ∉ List.replicate 12 ' ' := by decide
  have hB : '<' ∉ ('t' :: 'r' :: 'k' :: 'p' :: 't' :: ' ' :: 'l' :: 'a' :: 't' :: '=' :: '"' ::
      (fixedWS 3 8 r.y ++ '"' :: ' ' :: 'l' :: 'o' :: 'n' :: '=' :: '"' :: (fixedWS 3 8 r.x ++ ['"', '>']))) := by
    simp [num_avoid r.y '<' (by decide), num_avoid r.x '<' (by decide)]
  constructor <;>
    simp only [lPt_decomp, pat_ext, pat_eext, isInfix_one _ _ _ hA hB] <;>
    simp [isPrefix]

theorem noext_lEle (r : GRow) : NoExt (lEle r) := by
  have hA : '<' ∉ List.replicate 16 ' ' := by decide
  have hB : '<' ∉ ('e' :: 'l' :: 'e' :: '>' :: fixedWS 3 8 r.z) := by simp [num_avoid r.z '<' (by decide)]
  have hC : '<' ∉ ['/', 'e', 'l', 'e', '>'] := by decide
  constructor <;>
    simp only [lEle_decomp, pat_ext, pat_eext, isInfix_two _ _ _ _ hA hB hC] <;>
    simp [isPrefix]

theorem noext_lTime (r : GRow) : NoExt (lTime r) := by
  have hA : '<' ∉ List.replicate 16 ' ' := by decide
  have hB : '<' ∉ ('t' :: 'i' :: 'm' :: 'e' :: '>' :: (printTime isoFmt r.t ++ ['Z'])) := by
    simp [isoTime_avoid r.t '<' (by decide) (by decide) (by decide) (by decide)]
  have hC : '<' ∉ ['/', 't', 'i', 'm', 'e', '>'] := by decide
  constructor <;>
    simp only [lTime_decomp, pat_ext, pat_eext, isInfix_two _ _ _ _ hA hB hC] <;>
    simp [isPrefix]

/-! ### effect of each line on the scanner state -/

theorem gpxLine_notags (rf : List Tok) (geo : Bool) (st : GState) (line : Str)
    (T : Tags line false false false false false false) (N : NoExt line) (hs : st.inExt = false) :
    gpxLine rf geo st line = .ok st := by
  unfold gpxLine gpxPt gpxEndPt gpxEle gpxTime
  simp only [N.ext, hs, T.trk, T.etrk, T.pt, T.ept, T.ele, T.time, Bool.false_eq_true, ↓reduceIte, bind, Except.bind, pure, Except.pure]
  cases st.inTrk <;> cases st.inPt <;> simp

theorem gpxLine_trk (rf : List Tok) (geo : Bool) (st : GState) (hs : st.inExt = false) :
    gpxLine rf geo st lTrk = .ok ⟨true, false, st.pos, st.tps, st.tracks ++ [[]], false⟩ := by
  have T := tags_lTrk
  have N := noext_lTrk
  unfold gpxLine gpxPt gpxEndPt gpxEle gpxTime
  simp only [N.ext, hs, T.trk, T.etrk, T.pt, T.ept, T.ele, T.time, Bool.false_eq_true, ↓reduceIte, bind, Except.bind, pure, Except.pure]

theorem gpxLine_endTrk (rf : List Tok) (geo : Bool) (st : GState) (hs : st.inExt = false) :
    gpxLine rf geo st lEndTrk = .ok ⟨false, st.inPt, st.pos, st.tps, st.tracks, false⟩ := by
  have T := tags_lEndTrk
  have N := noext_lEndTrk
  unfold gpxLine gpxPt gpxEndPt gpxEle gpxTime
  simp only [N.ext, hs, T.trk, T.etrk, T.pt, T.ept, T.ele, T.time, Bool.false_eq_true, ↓reduceIte, bind, Except.bind, pure, Except.pure]

theorem split_lPt (r : GRow) :
    splitOnChar '"' (lPt r) = ["            <trkpt lat=".toList, fixedWS 3 8 r.y, " lon=".toList, fixedWS 3 8 r.x, ">".toList] := by
  unfold lPt
  rw [splitOnChar_append _ _ _ (by decide), splitOnChar_append _ _ _ (num_avoid r.y '"' (by decide)),
    splitOnChar_append _ _ _ (by decide), splitOnChar_append _ _ _ (num_avoid r.x '"' (by decide)),
    splitOnChar_of_not_mem _ _ (by decide)]

theorem gpxLine_pt (rf : List Tok) (geo : Bool) (pos : Option (Dec × Dec × Dec)) (tps : Option Stamp)
    (tracks : List (List RRow)) (inPt : Bool) (r : GRow) :
    gpxLine rf geo ⟨true, inPt, pos, tps, tracks, false⟩ (lPt r)
      = .ok ⟨true, true, some ((r.x.toInt, 8), (r.y.toInt, 8), (0, 0)), tps, tracks, false⟩ := by
  have T := tags_lPt r
  have N := noext_lPt r
  unfold gpxLine gpxPt gpxEndPt gpxEle gpxTime
  simp only [N.ext, T.trk, T.etrk, T.pt, T.ept, T.ele, T.time, Bool.false_eq_true, ↓reduceIte, split_lPt, nth, List.getElem?_cons_succ, List.getElem?_cons_zero, parseDec_fixedWS, bind, Except.bind, pure, Except.pure]

theorem tagText_lEle (r : GRow) : tagText (lEle r) = .ok (fixedWS 3 8 r.z) := by
  unfold tagText lEle
  have e1 : "                <ele>".toList ++ (fixedWS 3 8 r.z ++ "</ele>".toList)
      = "                <ele".toList ++ '>' :: (fixedWS 3 8 r.z ++ "</ele>".toList) := rfl
  rw [e1, splitOnChar_append _ _ _ (by decide)]
  have e2 : fixedWS 3 8 r.z ++ "</ele>".toList = (fixedWS 3 8 r.z ++ "</ele".toList) ++ '>' :: [] := by
    rw [List.append_assoc]; rfl
  have h2 : '>' ∉ fixedWS 3 8 r.z ++ "</ele".toList := by
    intro h
    rcases List.mem_append.1 h with h | h
    · exact num_avoid r.z '>' (by decide) h
    · revert h; decide
  rw [e2, splitOnChar_append _ _ _ h2]
  simp only [nth, List.getElem?_cons_succ, List.getElem?_cons_zero, bind, Except.bind, pure, Except.pure]
  have e3 : fixedWS 3 8 r.z ++ "</ele".toList = fixedWS 3 8 r.z ++ '<' :: "/ele".toList := rfl
  rw [e3, splitOnChar_append _ _ _ (num_avoid r.z '<' (by decide))]
  rfl

theorem gpxLine_ele (rf : List Tok) (geo : Bool) (p : Dec × Dec × Dec) (tps : Option Stamp)
    (tracks : List (List RRow)) (r : GRow) :
    gpxLine rf geo ⟨true, true, some p, tps, tracks, false⟩ (lEle r)
      = .ok ⟨true, true, some (p.1, p.2.1, if geo then (r.z.toInt, 8) else p.2.2), tps, tracks, false⟩ := by
  have T := tags_lEle r
  have N := noext_lEle r
  obtain ⟨x, y, z⟩ := p
  unfold gpxLine gpxPt gpxEndPt gpxEle gpxTime
  simp only [N.ext, T.trk, T.etrk, T.pt, T.ept, T.ele, T.time, Bool.false_eq_true, ↓reduceIte, tagText_lEle, parseDec_fixedWS, bind, Except.bind, pure, Except.pure]

theorem tagText_lTime (r : GRow) : tagText (lTime r) = .ok (printTime isoFmt r.t ++ ['Z']) := by
  unfold tagText lTime
  have hgt : '>' ∉ printTime isoFmt r.t := isoTime_avoid r.t '>' (by decide) (by decide) (by decide) (by decide)
  have hlt : '<' ∉ printTime isoFmt r.t := isoTime_avoid r.t '<' (by decide) (by decide) (by decide) (by decide)
  have e1 : "                <time>".toList ++ (printTime isoFmt r.t ++ "Z</time>".toList)
      = "                <time".toList ++ '>' :: (printTime isoFmt r.t ++ "Z</time>".toList) := rfl
  rw [e1, splitOnChar_append _ _ _ (by decide)]
  have e2 : printTime isoFmt r.t ++ "Z</time>".toList = (printTime isoFmt r.t ++ "Z</time".toList) ++ '>' :: [] := by
    rw [List.append_assoc]; rfl
  have h2 : '>' ∉ printTime isoFmt r.t ++ "Z</time".toList := by
    intro h
    rcases List.mem_append.1 h with h | h
    · exact hgt h
    · revert h; decide
  rw [e2, splitOnChar_append _ _ _ h2]
  simp only [nth, List.getElem?_cons_succ, List.getElem?_cons_zero, bind, Except.bind, pure, Except.pure]
  have e3 : printTime isoFmt r.t ++ "Z</time".toList = (printTime isoFmt r.t ++ ['Z']) ++ '<' :: "/time".toList := by
    rw [List.append_assoc]; rfl
  have h3 : '<' ∉ printTime isoFmt r.t ++ ['Z'] := by
    intro h
    rcases List.mem_append.1 h with h | h
    · exact hlt h
    · revert h; decide
  rw [e3, splitOnChar_append _ _ _ h3]
  rfl

/-- the read format reads what the GPX writer prints: the ISO format itself, or the ISO format followed by `Z` -/
def ReadsIso (rf : List Tok) : Prop :=
  Lossless rf ∧ ∀ t, ∃ suf, printTime isoFmt t ++ ['Z'] = printTime rf t ++ suf

theorem gpxLine_time (rf : List Tok) (hrf : ReadsIso rf) (geo : Bool) (p : Option (Dec × Dec × Dec)) (tps : Option Stamp)
    (tracks : List (List RRow)) (r : GRow) (ht : Fits r.t) :
    gpxLine rf geo ⟨true, true, p, tps, tracks, false⟩ (lTime r) = .ok ⟨true, true, p, some (project rf r.t), tracks, false⟩ := by
  have T := tags_lTime r
  have N := noext_lTime r
  obtain ⟨suf, hs⟩ := hrf.2 r.t
  have hread : readTimestamp rf (printTime isoFmt r.t ++ ['Z']) = some (project rf r.t) := by
    rw [hs, readTimestamp_printTime_suffix rf hrf.1 r.t ht suf, applyCodes_epoch rf r.t hrf.1.1]
  unfold gpxLine gpxPt gpxEndPt gpxEle gpxTime
  simp only [N.ext, T.trk, T.etrk, T.pt, T.ept, T.ele, T.time, Bool.false_eq_true, ↓reduceIte, tagText_lTime, hread, bind, Except.bind, pure, Except.pure]

theorem appendLast_concat (ts : List (List RRow)) (cur : List RRow) (r : RRow) :
    appendLast (ts ++ [cur]) r = .ok (ts ++ [cur ++ [r]]) := by
  unfold appendLast
  simp [pure, Except.pure]

theorem gpxLine_endPt (rf : List Tok) (geo : Bool) (p : Dec × Dec × Dec) (t : Stamp)
    (ts : List (List RRow)) (cur : List RRow) (inPt : Bool) :
    gpxLine rf geo ⟨true, inPt, some p, some t, ts ++ [cur], false⟩ lEndPt
      = .ok ⟨true, false, some p, some t, ts ++ [cur ++ [⟨p.1, p.2.1, p.2.2, t⟩]], false⟩ := by
  have T := tags_lEndPt
  have N := noext_lEndPt
  obtain ⟨x, y, z⟩ := p
  unfold gpxLine gpxPt gpxEndPt gpxEle gpxTime
  simp only [N.ext, T.trk, T.etrk, T.pt, T.ept, T.ele, T.time, Bool.false_eq_true, ↓reduceIte, appendLast_concat, bind, Except.bind, pure, Except.pure]

/-! ### the whole body -/

/-- a track point as the scanner returns it -/
def expG (rf : List Tok) (geo : Bool) (r : GRow) : RRow :=
  ⟨(r.x.toInt, 8), (r.y.toInt, 8), if geo then (r.z.toInt, 8) else (0, 0), project rf r.t⟩

theorem fold_pt (rf : List Tok) (hrf : ReadsIso rf) (geo : Bool) (pos : Option (Dec × Dec × Dec)) (tps : Option Stamp)
    (ts : List (List RRow)) (cur : List RRow) (r : GRow) (ht : Fits r.t) :
    ∃ pos' tps', (ptLines r).foldlM (gpxLine rf geo) ⟨true, false, pos, tps, ts ++ [cur], false⟩
      = .ok ⟨true, false, pos', tps', ts ++ [cur ++ [expG rf geo r]], false⟩ := by
  refine ⟨some ((r.x.toInt, 8), (r.y.toInt, 8), if geo then (r.z.toInt, 8) else (0, 0)), some (project rf r.t), ?_⟩
  unfold ptLines
  simp only [List.foldlM_cons, List.foldlM_nil, gpxLine_pt, bind, Except.bind]
  rw [gpxLine_ele]
  simp only [gpxLine_time rf hrf geo _ _ _ r ht]
  rw [gpxLine_endPt]
  rfl

theorem fold_pts (rf : List Tok) (hrf : ReadsIso rf) (geo : Bool) (rows : List GRow) (hrows : ∀ r ∈ rows, Fits r.t)
    (pos : Option (Dec × Dec × Dec)) (tps : Option Stamp) (ts : List (List RRow)) (cur : List RRow) :
    ∃ pos' tps', ((rows.map ptLines).flatten).foldlM (gpxLine rf geo) ⟨true, false, pos, tps, ts ++ [cur], false⟩
      = .ok ⟨true, false, pos', tps', ts ++ [cur ++ rows.map (expG rf geo)], false⟩ := by
  induction rows generalizing pos tps cur with
  | nil => exact ⟨pos, tps, by simp [pure, Except.pure]⟩
  | cons r rs ih =>
    obtain ⟨p1, t1, h1⟩ := fold_pt rf hrf geo pos tps ts cur r (hrows r (by simp))
    obtain ⟨p2, t2, h2⟩ := ih (fun x hx => hrows x (by simp [hx])) p1 t1 (cur ++ [expG rf geo r])
    refine ⟨p2, t2, ?_⟩
    simp only [List.map_cons, List.flatten_cons, List.foldlM_append, h1, bind, Except.bind]
    rw [h2]
    simp

theorem gpxLines_nl (name : Str) (hname : '\n' ∉ name) (rows : List GRow) : ∀ l ∈ gpxLines name rows, '\n' ∉ l := by
  intro l hl
  unfold gpxLines at hl
  simp only [List.mem_append, List.mem_cons, List.mem_flatten, List.mem_map, List.not_mem_nil, or_false] at hl
  have hnum : ∀ v : SNum, '\n' ∉ fixedWS 3 8 v := fun v => num_avoid v '\n' (by decide)
  have htime : ∀ t : Stamp, '\n' ∉ printTime isoFmt t := fun t => isoTime_avoid t '\n' (by decide) (by decide) (by decide) (by decide)
  rcases hl with ((rfl | rfl | rfl) | ⟨ls, ⟨r, _, rfl⟩, hl⟩) | (rfl | rfl | rfl)
  · decide
  · intro h
    unfold lName at h
    simp only [List.mem_append] at h
    rcases h with h | h | h
    · revert h; decide
    · exact hname h
    · revert h; decide
  · decide
  · unfold ptLines at hl
    simp only [List.mem_cons, List.not_mem_nil, or_false] at hl
    rcases hl with rfl | rfl | rfl | rfl
    · intro h
      unfold lPt at h
      simp only [List.mem_append, List.mem_cons] at h
      rcases h with h | h | h | h | h | h | h | h | h
      · revert h; decide
      · revert h; decide
      · exact hnum _ h
      · revert h; decide
      · revert h; decide
      · revert h; decide
      · exact hnum _ h
      · revert h; decide
      · revert h; decide
    · intro h
      unfold lEle at h
      simp only [List.mem_append] at h
      rcases h with h | h | h
      · revert h; decide
      · exact hnum _ h
      · revert h; decide
    · intro h
      unfold lTime at h
      simp only [List.mem_append] at h
      rcases h with h | h | h
      · revert h; decide
      · exact htime _ h
      · revert h; decide
    · decide
  · decide
  · decide
  · decide

/-- **GPX file**: the body `writeToGpx` writes for a track, read by the `trk` scanner with a read format that
reads ISO stamps, gives one track with the points written, in order -/
theorem gpx_file_roundtrip (rf : List Tok) (hrf : ReadsIso rf) (geo : Bool) (name : Str)
    (hname : '<' ∉ name ∧ '\n' ∉ name) (rows : List GRow) (hrows : ∀ r ∈ rows, Fits r.t) :
    readGpx rf geo (gpxBody name rows) = .ok [rows.map (expG rf geo)] := by
  unfold readGpx gpxBody
  rw [fileLines_flatten _ (gpxLines_nl name hname.2 rows)]
  unfold gpxLines
  obtain ⟨p, t, hp⟩ := fold_pts rf hrf geo rows hrows none none [] []
  simp only [List.nil_append] at hp
  have e0 : gpxLine rf geo {} lTrk = .ok ⟨true, false, none, none, [[]], false⟩ := gpxLine_trk rf geo {} rfl
  have e1 := gpxLine_notags rf geo ⟨true, false, none, none, [[]], false⟩ _ (tags_lName name hname.1) (noext_lName name hname.1) rfl
  have e2 := gpxLine_notags rf geo ⟨true, false, none, none, [[]], false⟩ _ tags_lSeg noext_lSeg rfl
  have e3 := gpxLine_notags rf geo ⟨true, false, p, t, [rows.map (expG rf geo)], false⟩ _ tags_lEndSeg noext_lEndSeg rfl
  have e4 := gpxLine_endTrk rf geo ⟨true, false, p, t, [rows.map (expG rf geo)], false⟩ rfl
  have e5 := gpxLine_notags rf geo ⟨false, false, p, t, [rows.map (expG rf geo)], false⟩ _ tags_lEndGpx noext_lEndGpx rfl
  simp only [List.foldlM_append, List.foldlM_cons, List.foldlM_nil, e0, e1, e2, bind, Except.bind, pure, Except.pure]
  rw [hp]
  simp only [e3, e4, e5]

/-! ### a collection in one file -/

theorem gpxLines_eq (name : Str) (rows : List GRow) : gpxLines name rows = trkLines name rows ++ [lEndGpx] := by
  simp [gpxLines, trkLines]

/-- one `<trk>` element met outside a track: a new track with its points is appended -/
theorem fold_trk (rf : List Tok) (hrf : ReadsIso rf) (geo : Bool) (name : Str) (hname : '<' ∉ name) (rows : List GRow)
    (hrows : ∀ r ∈ rows, Fits r.t) (pos : Option (Dec × Dec × Dec)) (tps : Option Stamp) (ts : List (List RRow)) :
    ∃ pos' tps', (trkLines name rows).foldlM (gpxLine rf geo) ⟨false, false, pos, tps, ts, false⟩
      = .ok ⟨false, false, pos', tps', ts ++ [rows.map (expG rf geo)], false⟩ := by
  obtain ⟨p, t, hp⟩ := fold_pts rf hrf geo rows hrows pos tps ts []
  simp only [List.nil_append] at hp
  refine ⟨p, t, ?_⟩
  unfold trkLines
  have e0 : gpxLine rf geo ⟨false, false, pos, tps, ts, false⟩ lTrk = .ok ⟨true, false, pos, tps, ts ++ [[]], false⟩ :=
    gpxLine_trk rf geo _ rfl
  have e1 := gpxLine_notags rf geo ⟨true, false, pos, tps, ts ++ [[]], false⟩ _ (tags_lName name hname) (noext_lName name hname) rfl
  have e2 := gpxLine_notags rf geo ⟨true, false, pos, tps, ts ++ [[]], false⟩ _ tags_lSeg noext_lSeg rfl
  have e3 := gpxLine_notags rf geo ⟨true, false, p, t, ts ++ [rows.map (expG rf geo)], false⟩ _ tags_lEndSeg noext_lEndSeg rfl
  have e4 := gpxLine_endTrk rf geo ⟨true, false, p, t, ts ++ [rows.map (expG rf geo)], false⟩ rfl
  simp only [List.foldlM_append, List.foldlM_cons, List.foldlM_nil, e0, e1, e2, bind, Except.bind, pure, Except.pure]
  rw [hp]
  simp only [e3, e4]

theorem fold_trks (rf : List Tok) (hrf : ReadsIso rf) (geo : Bool) (tracks : List (Str × List GRow))
    (hok : ∀ t ∈ tracks, '<' ∉ t.1 ∧ ∀ r ∈ t.2, Fits r.t) (pos : Option (Dec × Dec × Dec)) (tps : Option Stamp)
    (ts : List (List RRow)) :
    ∃ pos' tps', ((tracks.map (fun t => trkLines t.1 t.2)).flatten).foldlM (gpxLine rf geo) ⟨false, false, pos, tps, ts, false⟩
      = .ok ⟨false, false, pos', tps', ts ++ tracks.map (fun t => t.2.map (expG rf geo)), false⟩ := by
  induction tracks generalizing pos tps ts with
  | nil => exact ⟨pos, tps, by simp [pure, Except.pure]⟩
  | cons t rest ih =>
    obtain ⟨p1, t1, h1⟩ := fold_trk rf hrf geo t.1 (hok t (by simp)).1 t.2 (hok t (by simp)).2 pos tps ts
    obtain ⟨p2, t2, h2⟩ := ih (fun x hx => hok x (by simp [hx])) p1 t1 (ts ++ [t.2.map (expG rf geo)])
    refine ⟨p2, t2, ?_⟩
    simp only [List.map_cons, List.flatten_cons, List.foldlM_append, h1, bind, Except.bind]
    rw [h2]
    simp

/-- **GPX collection**: the body `writeToGpx` writes for a collection in one file is read as the tracks, in order -/
theorem gpx_collection_roundtrip (rf : List Tok) (hrf : ReadsIso rf) (geo : Bool) (tracks : List (Str × List GRow))
    (hok : ∀ t ∈ tracks, ('<' ∉ t.1 ∧ '\n' ∉ t.1) ∧ ∀ r ∈ t.2, Fits r.t) :
    readGpx rf geo (gpxBodyColl tracks) = .ok (tracks.map (fun t => t.2.map (expG rf geo))) := by
  unfold readGpx gpxBodyColl
  have hnl : ∀ l ∈ (tracks.map (fun t => trkLines t.1 t.2)).flatten ++ [lEndGpx], '\n' ∉ l := by
    intro l hl
    rcases List.mem_append.1 hl with hl | hl
    · obtain ⟨ls, hls, hl⟩ := List.mem_flatten.1 hl
      obtain ⟨t, ht, rfl⟩ := List.mem_map.1 hls
      exact gpxLines_nl t.1 (hok t ht).1.2 t.2 l (by rw [gpxLines_eq]; exact List.mem_append_left _ hl)
    · simp only [List.mem_singleton] at hl; subst hl; decide
  rw [fileLines_flatten _ hnl]
  obtain ⟨p, t, hp⟩ := fold_trks rf hrf geo tracks (fun x hx => ⟨(hok x hx).1.1, (hok x hx).2⟩) none none []
  have e5 := gpxLine_notags rf geo ⟨false, false, p, t, tracks.map (fun t => t.2.map (expG rf geo)), false⟩ _ tags_lEndGpx noext_lEndGpx rfl
  simp only [List.nil_append] at hp
  have h0 : ({} : GState) = ⟨false, false, none, none, [], false⟩ := rfl
  simp only [List.foldlM_append, List.foldlM_cons, List.foldlM_nil, h0, hp, e5, bind, Except.bind, pure, Except.pure]

theorem readsIso_iso : ReadsIso isoFmt := ⟨by decide, fun _ => ⟨['Z'], rfl⟩⟩

theorem readsIso_isoZ : ReadsIso (tokenize "4Y-2M-2DT2h:2m:2sZ".toList) := by
  refine ⟨by decide, fun t => ⟨[], ?_⟩⟩
  have : tokenize "4Y-2M-2DT2h:2m:2sZ".toList = isoFmt ++ [Tok.lit 'Z'] := by decide
  rw [this, printTime_append]
  simp [printTime]

end TV.TextIO
