import TracklibVerif.Lemmas.ViterbiSentinel
import Mathlib.Algebra.Order.Monoid.WithTop
/-! Costs with a top element (`WithTop β`: `⊤` = the cost of an IMPOSSIBLE transition / emission, `-log 0`, what a user
who supplies logarithms returns for a zero probability): a sequence of finite cost uses no impossible entry. -/
namespace TV.Viterbi
variable {β : Type} [AddCommMonoid β]

/-- with `+` on `WithTop β`, a sequence whose cost up to epoch `k` is not `⊤` goes through no `⊤` entry up to `k` -/
theorem cost_ne_top (t : Tables (WithTop β)) (hadd : t.add = (· + ·)) (σ : Nat → Nat) (k : Nat)
    (h : cost t σ k ≠ ⊤) :
    (∀ j, j ≤ k → t.obs j (σ j) ≠ ⊤) ∧ (∀ j, j < k → t.trans j (σ j) (σ (j+1)) ≠ ⊤) := by
  induction k with
  | zero =>
    refine ⟨fun j hj => ?_, fun j hj => absurd hj (Nat.not_lt_zero _)⟩
    have : j = 0 := by omega
    subst this
    simpa [cost] using h
  | succ k ih =>
    have h' : (t.trans k (σ k) (σ (k+1)) + cost t σ k) + t.obs (k+1) (σ (k+1)) ≠ ⊤ := by
      have e : cost t σ (k+1) = (t.trans k (σ k) (σ (k+1)) + cost t σ k) + t.obs (k+1) (σ (k+1)) := by
        simp only [cost, hadd]
      rw [← e]; exact h
    obtain ⟨h1, h2⟩ := WithTop.add_ne_top.mp h'
    obtain ⟨h3, h4⟩ := WithTop.add_ne_top.mp h1
    obtain ⟨i1, i2⟩ := ih h4
    refine ⟨fun j hj => ?_, fun j hj => ?_⟩
    · by_cases e : j = k + 1
      · subst e; exact h2
      · exact i1 j (by omega)
    · by_cases e : j = k
      · subst e; exact h3
      · exact i2 j (by omega)
end TV.Viterbi
