import TracklibVerif.Model.Proj
import Mathlib.Algebra.Order.Field.Basic
import Mathlib.Tactic.Ring
import Mathlib.Tactic.Linarith
import Mathlib.Tactic.FieldSimp
import Mathlib.Tactic.LinearCombination
/-! Helper lemmas for C20 / C10: the projection model over a linearly ordered field. -/
namespace TV.Proj
variable {α : Type} [Field α] [LinearOrder α] [IsStrictOrderedRing α]

/-- contract of the `sqrt` parameter (inhabited by `Real.sqrt`) -/
def SqrtSpec (sqrt : α → α) : Prop := ∀ v, 0 ≤ v → 0 ≤ sqrt v ∧ sqrt v * sqrt v = v

/-- squared distance -/
def d2 (x y px py : α) : α := (x - px) * (x - px) + (y - py) * (y - py)

/-- `(px, py)` lies on the closed segment `(x1,y1)-(x2,y2)` -/
def OnSeg (x1 y1 x2 y2 px py : α) : Prop :=
  ∃ t, 0 ≤ t ∧ t ≤ 1 ∧ px = x1 + t * (x2 - x1) ∧ py = y1 + t * (y2 - y1)

theorem d2_nonneg (x y px py : α) : 0 ≤ d2 x y px py :=
  add_nonneg (mul_self_nonneg _) (mul_self_nonneg _)

theorem isZero_iff (v : α) : isZero v = true ↔ v = 0 := by
  unfold isZero
  simp only [Bool.and_eq_true, decide_eq_true_eq]
  exact ⟨fun h => le_antisymm h.1 h.2, fun h => by subst h; exact ⟨le_refl _, le_refl _⟩⟩

theorem isZero_false (v : α) (h : v ≠ 0) : isZero v = false := by
  cases hz : isZero v with
  | false => rfl
  | true => exact absurd ((isZero_iff v).mp hz) h

theorem fabs_mul_self (v : α) : fabs v * fabs v = v * v := by
  unfold fabs; split <;> ring

theorem fabs_nonneg (v : α) : 0 ≤ fabs v := by
  unfold fabs; split
  · exact le_of_lt ‹_›
  · have : v ≤ 0 := le_of_not_gt ‹_›
    linarith

theorem fabs_eq_zero (v : α) (h : fabs v = 0) : v = 0 := by
  unfold fabs at h; split at h
  · exact h
  · linarith

theorem sqrt_pos {sqrt : α → α} (hs : SqrtSpec sqrt) (v : α) (hv : 0 < v) : 0 < sqrt v := by
  obtain ⟨h0, h1⟩ := hs v (le_of_lt hv)
  rcases lt_or_eq_of_le h0 with h | h
  · exact h
  · rw [← h] at h1; simp at h1; linarith

theorem sqrt_zero {sqrt : α → α} (hs : SqrtSpec sqrt) : sqrt 0 = 0 := by
  obtain ⟨_, h1⟩ := hs 0 (le_refl _)
  exact mul_self_eq_zero.mp h1

/-- closed form of the foot of the perpendicular from `(x,y)` on the line `a X + b Y + c = 0` -/
def footX (a b c x y : α) : α := (b * b * x - a * b * y - a * c) / (a * a + b * b)
def footY (a b c x y : α) : α := (a * a * y - a * b * x - b * c) / (a * a + b * b)

theorem norm_pos (a b : α) (hb : b ≠ 0) : 0 < a * a + b * b := by
  have h1 : 0 < b * b := mul_self_pos.mpr hb
  have h2 : 0 ≤ a * a := mul_self_nonneg a
  linarith

/-- for `b ≠ 0` the code's foot computation is the orthogonal projection on the line -/
theorem foot_eq {sqrt : α → α} (hs : SqrtSpec sqrt) (a b c x y : α) (hb : b ≠ 0) :
    foot sqrt a b c x y = .ok (footX a b c x y, footY a b c x y) := by
  have hN : 0 < (-b) * (-b) + a * a := by have := norm_pos a b hb; linarith
  have hn := sqrt_pos hs _ hN
  obtain ⟨_, hnn⟩ := hs _ (le_of_lt hN)
  unfold foot
  simp only [isZero_false b hb, isZero_false _ (ne_of_gt hn), Bool.false_eq_true, ↓reduceIte]
  have hne : sqrt (-b * -b + a * a) ≠ 0 := ne_of_gt hn
  generalize sqrt (-b * -b + a * a) = n at *
  have e : a * a + b * b = n * n := by rw [hnn]; ring
  congr 2
  · unfold footX; rw [e]; field_simp; ring
  · unfold footY; rw [e]; field_simp; linear_combination (-c) * hnn

theorem foot_on_line (a b c x y : α) (hb : b ≠ 0) :
    a * footX a b c x y + b * footY a b c x y + c = 0 := by
  have hN : a * a + b * b ≠ 0 := ne_of_gt (norm_pos a b hb)
  unfold footX footY; field_simp; ring

theorem foot_d2 (a b c x y : α) (hb : b ≠ 0) :
    d2 x y (footX a b c x y) (footY a b c x y) = (a * x + b * y + c) * (a * x + b * y + c) / (a * a + b * b) := by
  have hN : a * a + b * b ≠ 0 := ne_of_gt (norm_pos a b hb)
  unfold d2 footX footY; field_simp; ring

/-- the squared distance to any point of the line is at least `(a x + b y + c)² / (a² + b²)` -/
theorem line_dist_le (a b c x y qx qy : α) (hb : b ≠ 0) (hq : a * qx + b * qy + c = 0) :
    (a * x + b * y + c) * (a * x + b * y + c) / (a * a + b * b) ≤ d2 x y qx qy := by
  have hN := norm_pos a b hb
  rw [div_le_iff₀ hN]
  have e : a * x + b * y + c = a * (x - qx) + b * (y - qy) := by linear_combination hq
  rw [e]; unfold d2
  nlinarith [mul_self_nonneg (a * (y - qy) - b * (x - qx))]

/-! ### the segment -/

/-- coefficients of `cartesienne` -/
abbrev cA (y1 y2 : α) : α := y2 - y1
abbrev cB (x1 x2 : α) : α := -(x2 - x1)
abbrev cC (x1 y1 x2 y2 : α) : α := -((y2 - y1) * x1 + (-(x2 - x1)) * y1)

/-- parameter of the orthogonal projection of `(x,y)` along the segment -/
def tstar (x1 y1 x2 y2 x y : α) : α :=
  ((x - x1) * (x2 - x1) + (y - y1) * (y2 - y1)) / ((x2 - x1) * (x2 - x1) + (y2 - y1) * (y2 - y1))

theorem seg_norm_pos (x1 y1 x2 y2 : α) (hx : x1 ≠ x2) :
    0 < (x2 - x1) * (x2 - x1) + (y2 - y1) * (y2 - y1) := by
  have h : x2 - x1 ≠ 0 := sub_ne_zero.mpr (Ne.symm hx)
  have := norm_pos (y2 - y1) (x2 - x1) h
  linarith

theorem footX_param (x1 y1 x2 y2 x y : α) (hx : x1 ≠ x2) :
    footX (cA y1 y2) (cB x1 x2) (cC x1 y1 x2 y2) x y = x1 + tstar x1 y1 x2 y2 x y * (x2 - x1) := by
  have hN : (x2 - x1) * (x2 - x1) + (y2 - y1) * (y2 - y1) ≠ 0 := ne_of_gt (seg_norm_pos x1 y1 x2 y2 hx)
  have hN' : (y2 - y1) * (y2 - y1) + (-(x2 - x1)) * (-(x2 - x1)) ≠ 0 := by
    intro h; apply hN; linear_combination h
  unfold footX tstar cA cB cC
  field_simp
  ring

theorem footY_param (x1 y1 x2 y2 x y : α) (hx : x1 ≠ x2) :
    footY (cA y1 y2) (cB x1 x2) (cC x1 y1 x2 y2) x y = y1 + tstar x1 y1 x2 y2 x y * (y2 - y1) := by
  have hN : (x2 - x1) * (x2 - x1) + (y2 - y1) * (y2 - y1) ≠ 0 := ne_of_gt (seg_norm_pos x1 y1 x2 y2 hx)
  have hN' : (y2 - y1) * (y2 - y1) + (-(x2 - x1)) * (-(x2 - x1)) ≠ 0 := by
    intro h; apply hN; linear_combination h
  unfold footY tstar cA cB cC
  field_simp
  ring

theorem included_iff (x1 y1 x2 y2 px py : α) :
    included x1 y1 x2 y2 px py = true ↔
      ((x1 ≤ px ∧ px ≤ x2) ∨ (px ≤ x1 ∧ x2 ≤ px)) ∧ ((y1 ≤ py ∧ py ≤ y2) ∨ (py ≤ y1 ∧ y2 ≤ py)) := by
  unfold included
  simp only [Bool.and_eq_true, Bool.or_eq_true, decide_eq_true_eq]

theorem between_param (u1 u2 t : α) (h0 : 0 ≤ t) (h1 : t ≤ 1) :
    (u1 ≤ u1 + t * (u2 - u1) ∧ u1 + t * (u2 - u1) ≤ u2) ∨ (u1 + t * (u2 - u1) ≤ u1 ∧ u2 ≤ u1 + t * (u2 - u1)) := by
  have h1' : 0 ≤ 1 - t := by linarith
  rcases le_total u1 u2 with h | h
  · left
    have hd : 0 ≤ u2 - u1 := by linarith
    have a := mul_nonneg h0 hd
    have b := mul_nonneg h1' hd
    constructor <;> nlinarith
  · right
    have hd : 0 ≤ u1 - u2 := by linarith
    have a := mul_nonneg h0 hd
    have b := mul_nonneg h1' hd
    constructor <;> nlinarith

theorem param_included (x1 y1 x2 y2 t : α) (h0 : 0 ≤ t) (h1 : t ≤ 1) :
    included x1 y1 x2 y2 (x1 + t * (x2 - x1)) (y1 + t * (y2 - y1)) = true :=
  (included_iff ..).mpr ⟨between_param x1 x2 t h0 h1, between_param y1 y2 t h0 h1⟩

theorem param_of_between (u1 u2 t : α) (hu : u1 ≠ u2)
    (h : (u1 ≤ u1 + t * (u2 - u1) ∧ u1 + t * (u2 - u1) ≤ u2) ∨ (u1 + t * (u2 - u1) ≤ u1 ∧ u2 ≤ u1 + t * (u2 - u1))) :
    0 ≤ t ∧ t ≤ 1 := by
  rcases lt_or_gt_of_ne hu with hlt | hgt
  · have hd : 0 < u2 - u1 := by linarith
    rcases h with ⟨a, b⟩ | ⟨a, b⟩
    · constructor
      · by_contra hc; have hc : t < 0 := lt_of_not_ge hc
        have := mul_neg_of_neg_of_pos hc hd; linarith
      · by_contra hc; have hc : 0 < t - 1 := by have := lt_of_not_ge hc; linarith
        have := mul_pos hc hd; nlinarith
    · have e : t * (u2 - u1) = u2 - u1 := by nlinarith
      have e0 : t * (u2 - u1) ≤ 0 := by linarith
      linarith
  · have hd : 0 < u1 - u2 := by linarith
    rcases h with ⟨a, b⟩ | ⟨a, b⟩
    · have e0 : 0 ≤ t * (u2 - u1) := by linarith
      have e1 : t * (u2 - u1) ≤ u2 - u1 := by linarith
      linarith
    · constructor
      · by_contra hc; have hc : t < 0 := lt_of_not_ge hc
        have := mul_pos_of_neg_of_neg hc (by linarith : u2 - u1 < 0); linarith
      · by_contra hc; have hc : 0 < t - 1 := by have := lt_of_not_ge hc; linarith
        have := mul_pos hc hd; nlinarith

theorem included_param (x1 y1 x2 y2 t : α) (hx : x1 ≠ x2)
    (h : included x1 y1 x2 y2 (x1 + t * (x2 - x1)) (y1 + t * (y2 - y1)) = true) : 0 ≤ t ∧ t ≤ 1 :=
  param_of_between x1 x2 t hx ((included_iff ..).mp h).1

/-- squared distance along the segment as a quadratic in the parameter -/
theorem d2_param (x1 y1 x2 y2 x y t : α) (hx : x1 ≠ x2) :
    d2 x y (x1 + t * (x2 - x1)) (y1 + t * (y2 - y1)) =
      d2 x y x1 y1 + ((x2 - x1) * (x2 - x1) + (y2 - y1) * (y2 - y1)) * (t * (t - 2 * tstar x1 y1 x2 y2 x y)) := by
  have hN : (x2 - x1) * (x2 - x1) + (y2 - y1) * (y2 - y1) ≠ 0 := ne_of_gt (seg_norm_pos x1 y1 x2 y2 hx)
  unfold d2 tstar
  field_simp
  ring

/-- nearest end point branch -/
theorem nearestEnd_spec {sqrt : α → α} (hs : SqrtSpec sqrt) (x1 y1 x2 y2 x y : α) :
    0 ≤ (nearestEnd sqrt x1 y1 x2 y2 x y).1 ∧
    (nearestEnd sqrt x1 y1 x2 y2 x y).1 * (nearestEnd sqrt x1 y1 x2 y2 x y).1 =
      d2 x y (nearestEnd sqrt x1 y1 x2 y2 x y).2.1 (nearestEnd sqrt x1 y1 x2 y2 x y).2.2 ∧
    (nearestEnd sqrt x1 y1 x2 y2 x y).1 * (nearestEnd sqrt x1 y1 x2 y2 x y).1 ≤ d2 x y x1 y1 ∧
    (nearestEnd sqrt x1 y1 x2 y2 x y).1 * (nearestEnd sqrt x1 y1 x2 y2 x y).1 ≤ d2 x y x2 y2 ∧
    (((nearestEnd sqrt x1 y1 x2 y2 x y).2.1 = x1 ∧ (nearestEnd sqrt x1 y1 x2 y2 x y).2.2 = y1) ∨
     ((nearestEnd sqrt x1 y1 x2 y2 x y).2.1 = x2 ∧ (nearestEnd sqrt x1 y1 x2 y2 x y).2.2 = y2)) := by
  obtain ⟨p1, q1⟩ := hs _ (d2_nonneg x y x1 y1)
  obtain ⟨p2, q2⟩ := hs _ (d2_nonneg x y x2 y2)
  unfold d2 at p1 q1 p2 q2
  unfold nearestEnd
  simp only []
  split
  · rename_i h
    refine ⟨p1, ?_, ?_, ?_, Or.inl ⟨rfl, rfl⟩⟩
    · simpa [d2] using q1
    · simpa [d2] using le_of_eq q1
    · have := mul_self_le_mul_self p1 h
      unfold d2; rw [q2] at this; exact this
  · rename_i h
    have h : sqrt ((x - x2) * (x - x2) + (y - y2) * (y - y2)) ≤ sqrt ((x - x1) * (x - x1) + (y - y1) * (y - y1)) :=
      le_of_lt (lt_of_not_ge h)
    refine ⟨p2, ?_, ?_, ?_, Or.inr ⟨rfl, rfl⟩⟩
    · simpa [d2] using q2
    · have := mul_self_le_mul_self p2 h
      unfold d2; rw [q1] at this; exact this
    · simpa [d2] using le_of_eq q2

/-- `proj_segment` on a non-vertical segment: foot when it passes the inclusion test, nearest end otherwise -/
theorem projSegment_nonvertical {sqrt : α → α} (hs : SqrtSpec sqrt) (x1 y1 x2 y2 x y : α) (hx : x1 ≠ x2) :
    projSegment sqrt x1 y1 x2 y2 x y =
      if included x1 y1 x2 y2 (footX (cA y1 y2) (cB x1 x2) (cC x1 y1 x2 y2) x y) (footY (cA y1 y2) (cB x1 x2) (cC x1 y1 x2 y2) x y) then
        .ok (fabs (cA y1 y2 * x + cB x1 x2 * y + cC x1 y1 x2 y2) / sqrt (cA y1 y2 * cA y1 y2 + cB x1 x2 * cB x1 x2),
             footX (cA y1 y2) (cB x1 x2) (cC x1 y1 x2 y2) x y, footY (cA y1 y2) (cB x1 x2) (cC x1 y1 x2 y2) x y)
      else .ok (nearestEnd sqrt x1 y1 x2 y2 x y) := by
  have hb : cB x1 x2 ≠ 0 := by
    unfold cB; intro h; apply hx; linear_combination h
  have hn := sqrt_pos hs _ (norm_pos (cA y1 y2) (cB x1 x2) hb)
  unfold projSegment cartesienne projectionDroite
  simp only []
  rw [isZero_false _ (ne_of_gt hn), isZero_false _ hb, foot_eq hs _ _ _ _ _ hb]
  simp only [Bool.false_eq_true, ↓reduceIte]

/-- `proj_segment` on a vertical segment **as coded**: `ZeroDivisionError` when the pseudo-foot `(x, a)` passes
the inclusion test, the nearest END POINT otherwise (never the foot) -/
theorem projSegment_vertical {sqrt : α → α} (hs : SqrtSpec sqrt) (x1 y1 y2 x y : α) (hy : y1 ≠ y2) :
    projSegment sqrt x1 y1 x1 y2 x y =
      if included x1 y1 x1 y2 x (y2 - y1) then .error .zerodiv else .ok (nearestEnd sqrt x1 y1 x1 y2 x y) := by
  have ha : y2 - y1 ≠ 0 := sub_ne_zero.mpr (Ne.symm hy)
  have hN : 0 < (y2 - y1) * (y2 - y1) + (-(x1 - x1)) * (-(x1 - x1)) := by
    have := mul_self_pos.mpr ha; simp only [sub_self, neg_zero, mul_zero, add_zero]; exact this
  have hn := sqrt_pos hs _ hN
  have hb : isZero (-(x1 - x1)) = true := (isZero_iff _).mpr (by simp)
  unfold projSegment cartesienne projectionDroite foot
  simp only []
  rw [isZero_false _ (ne_of_gt hn), hb]
  simp only [Bool.false_eq_true, ↓reduceIte]

/-- `proj_segment` on a zero-length segment raises `ZeroDivisionError` -/
theorem projSegment_degenerate {sqrt : α → α} (hs : SqrtSpec sqrt) (x1 y1 x y : α) :
    projSegment sqrt x1 y1 x1 y1 x y = .error .zerodiv := by
  unfold projSegment cartesienne
  simp only [sub_self, neg_zero, mul_zero, add_zero, sqrt_zero hs]
  rw [(isZero_iff (0 : α)).mpr rfl]
  simp

/-! ### the polyline loop -/

/-- `(p1, p2)` is segment number `k` of the vertex list -/
def SegAt (l : List (α × α)) (k : Nat) (p1 p2 : α × α) : Prop := l[k]? = some p1 ∧ l[k + 1]? = some p2

/-- `r` is the answer of `proj_segment` on a non-skipped segment `k` of `l`, reported under index `i0 + k` -/
def FromSeg (sqrt : α → α) (eps x y : α) (l : List (α × α)) (i0 : Nat) (r : α × α × α × Nat) : Prop :=
  ∃ k p1 p2, SegAt l k p1 p2 ∧ r.2.2.2 = i0 + k ∧ skipped eps p1.1 p1.2 p2.1 p2.2 = false ∧
    projSegment sqrt p1.1 p1.2 p2.1 p2.2 x y = .ok (r.1, r.2.1, r.2.2.1)

theorem SegAt_nil (k : Nat) (p1 p2 : α × α) : ¬ SegAt ([] : List (α × α)) k p1 p2 := by
  intro h; simp [SegAt] at h

theorem SegAt_single (p : α × α) (k : Nat) (p1 p2 : α × α) : ¬ SegAt [p] k p1 p2 := by
  intro h; simp [SegAt] at h

theorem SegAt_zero (a b : α × α) (rest : List (α × α)) (p1 p2 : α × α) :
    SegAt (a :: b :: rest) 0 p1 p2 ↔ (p1 = a ∧ p2 = b) := by
  simp [SegAt, eq_comm]

theorem SegAt_succ (a : α × α) (l : List (α × α)) (k : Nat) (p1 p2 : α × α) :
    SegAt (a :: l) (k + 1) p1 p2 ↔ SegAt l k p1 p2 := by
  simp [SegAt]

theorem FromSeg_shift (sqrt : α → α) (eps x y : α) (a : α × α) (l : List (α × α)) (i0 : Nat) (r : α × α × α × Nat)
    (h : FromSeg sqrt eps x y l (i0 + 1) r) : FromSeg sqrt eps x y (a :: l) i0 r := by
  obtain ⟨k, p1, p2, hs, hi, hk, hp⟩ := h
  exact ⟨k + 1, p1, p2, (SegAt_succ a l k p1 p2).mpr hs, by omega, hk, hp⟩

/-- the three facts carried through the loop of `proj_polyligne` -/
def LoopPost (sqrt : α → α) (eps x y : α) (l : List (α × α)) (i0 : Nat)
    (cur res : Option (α × α × α × Nat)) : Prop :=
  (res = cur ∨ ∃ r, res = some r ∧ FromSeg sqrt eps x y l i0 r) ∧
  (∀ rc, cur = some rc → ∃ r, res = some r ∧ r.1 ≤ rc.1) ∧
  (∀ k p1 p2, SegAt l k p1 p2 → skipped eps p1.1 p1.2 p2.1 p2.2 = false →
    ∃ r rk, res = some r ∧ projSegment sqrt p1.1 p1.2 p2.1 p2.2 x y = .ok rk ∧ r.1 ≤ rk.1)

theorem polyLoop_spec (sqrt : α → α) (eps x y : α) (l : List (α × α)) :
    ∀ (i0 : Nat) (cur res : Option (α × α × α × Nat)),
      polyLoop sqrt eps x y l i0 cur = .ok res → LoopPost sqrt eps x y l i0 cur res := by
  induction l with
  | nil =>
    intro i0 cur res h
    simp only [polyLoop] at h; injection h with h; subst h
    exact ⟨Or.inl rfl, fun rc e => ⟨rc, e, le_refl _⟩, fun k p1 p2 hs => absurd hs (SegAt_nil k p1 p2)⟩
  | cons a tl ih =>
    cases tl with
    | nil =>
      intro i0 cur res h
      simp only [polyLoop] at h; injection h with h; subst h
      exact ⟨Or.inl rfl, fun rc e => ⟨rc, e, le_refl _⟩, fun k p1 p2 hs => absurd hs (SegAt_single a k p1 p2)⟩
    | cons b rest =>
      intro i0 cur res h
      rw [polyLoop] at h
      split at h
      · -- skipped segment
        rename_i hsk
        obtain ⟨o1, o2, o3⟩ := ih (i0 + 1) cur res h
        refine ⟨?_, o2, ?_⟩
        · rcases o1 with e | ⟨r, e, f⟩
          · exact Or.inl e
          · exact Or.inr ⟨r, e, FromSeg_shift sqrt eps x y a _ i0 r f⟩
        · intro k p1 p2 hs hk
          cases k with
          | zero =>
            obtain ⟨e1, e2⟩ := (SegAt_zero a b rest p1 p2).mp hs
            subst e1 e2; rw [hsk] at hk; cases hk
          | succ k => exact o3 k p1 p2 ((SegAt_succ a _ k p1 p2).mp hs) hk
      · rename_i hsk
        have hsk : skipped eps a.1 a.2 b.1 b.2 = false := by
          cases hh : skipped eps a.1 a.2 b.1 b.2 with
          | false => rfl
          | true => exact absurd hh hsk
        split at h
        · cases h
        · rename_i r0 hr0
          obtain ⟨o1, o2, o3⟩ := ih (i0 + 1) _ res h
          -- the new current best
          have fa : (if better r0.1 cur = true then some (r0.1, r0.2.1, r0.2.2, i0) else cur) = cur ∨
              (if better r0.1 cur = true then some (r0.1, r0.2.1, r0.2.2, i0) else cur) = some (r0.1, r0.2.1, r0.2.2, i0) := by
            split
            · exact Or.inr rfl
            · exact Or.inl rfl
          have fb : ∃ rc', (if better r0.1 cur = true then some (r0.1, r0.2.1, r0.2.2, i0) else cur) = some rc' ∧ rc'.1 ≤ r0.1 := by
            split
            · exact ⟨_, rfl, le_refl _⟩
            · rename_i hb
              cases cur with
              | none => simp [better] at hb
              | some c =>
                simp only [better, decide_eq_true_eq] at hb
                exact ⟨c, rfl, le_of_not_gt hb⟩
          have fc : ∀ rc, cur = some rc → ∃ rc', (if better r0.1 cur = true then some (r0.1, r0.2.1, r0.2.2, i0) else cur) = some rc' ∧ rc'.1 ≤ rc.1 := by
            intro rc e
            subst e
            split
            · rename_i hb
              simp only [better, decide_eq_true_eq] at hb
              exact ⟨_, rfl, le_of_lt hb⟩
            · exact ⟨rc, rfl, le_refl _⟩
          have from0 : FromSeg sqrt eps x y (a :: b :: rest) i0 (r0.1, r0.2.1, r0.2.2, i0) :=
            ⟨0, a, b, (SegAt_zero a b rest a b).mpr ⟨rfl, rfl⟩, rfl, hsk, hr0⟩
          refine ⟨?_, ?_, ?_⟩
          · rcases o1 with e | ⟨r, e, f⟩
            · rcases fa with fa | fa
              · exact Or.inl (e.trans fa)
              · exact Or.inr ⟨_, e.trans fa, from0⟩
            · exact Or.inr ⟨r, e, FromSeg_shift sqrt eps x y a _ i0 r f⟩
          · intro rc e
            obtain ⟨rc', e', le'⟩ := fc rc e
            obtain ⟨r, er, ler⟩ := o2 rc' e'
            exact ⟨r, er, le_trans ler le'⟩
          · intro k p1 p2 hs hk
            cases k with
            | zero =>
              obtain ⟨e1, e2⟩ := (SegAt_zero a b rest p1 p2).mp hs
              subst e1 e2
              obtain ⟨rc', e', le'⟩ := fb
              obtain ⟨r, er, ler⟩ := o2 rc' e'
              exact ⟨r, r0, er, hr0, le_trans ler le'⟩
            | succ k => exact o3 k p1 p2 ((SegAt_succ a _ k p1 p2).mp hs) hk

/-- the loop raises nothing when `proj_segment` returns on every non-skipped segment, and ends with a
current minimum as soon as there was one or one segment was not skipped -/
theorem polyLoop_total (sqrt : α → α) (eps x y : α) (l : List (α × α))
    (hall : ∀ k p1 p2, SegAt l k p1 p2 → skipped eps p1.1 p1.2 p2.1 p2.2 = false →
      ∃ r, projSegment sqrt p1.1 p1.2 p2.1 p2.2 x y = .ok r) :
    ∀ (i0 : Nat) (cur : Option (α × α × α × Nat)), ∃ res, polyLoop sqrt eps x y l i0 cur = .ok res ∧
      (res = none → cur = none ∧ ∀ k p1 p2, SegAt l k p1 p2 → skipped eps p1.1 p1.2 p2.1 p2.2 = true) := by
  induction l with
  | nil =>
    intro i0 cur
    exact ⟨cur, by simp only [polyLoop], fun e => ⟨e, fun k p1 p2 hs => absurd hs (SegAt_nil k p1 p2)⟩⟩
  | cons a tl ih =>
    cases tl with
    | nil =>
      intro i0 cur
      exact ⟨cur, by simp only [polyLoop], fun e => ⟨e, fun k p1 p2 hs => absurd hs (SegAt_single a k p1 p2)⟩⟩
    | cons b rest =>
      intro i0 cur
      have hall' : ∀ k p1 p2, SegAt (b :: rest) k p1 p2 → skipped eps p1.1 p1.2 p2.1 p2.2 = false →
          ∃ r, projSegment sqrt p1.1 p1.2 p2.1 p2.2 x y = .ok r :=
        fun k p1 p2 hs hk => hall (k + 1) p1 p2 ((SegAt_succ a _ k p1 p2).mpr hs) hk
      rw [polyLoop]
      cases hsk : skipped eps a.1 a.2 b.1 b.2 with
      | true =>
        simp only [↓reduceIte]
        obtain ⟨res, e, f⟩ := ih hall' (i0 + 1) cur
        refine ⟨res, e, fun en => ⟨(f en).1, ?_⟩⟩
        intro k p1 p2 hs
        cases k with
        | zero =>
          obtain ⟨e1, e2⟩ := (SegAt_zero a b rest p1 p2).mp hs
          subst e1 e2; exact hsk
        | succ k => exact (f en).2 k p1 p2 ((SegAt_succ a _ k p1 p2).mp hs)
      | false =>
        simp only [Bool.false_eq_true, ↓reduceIte]
        obtain ⟨r0, hr0⟩ := hall 0 a b ((SegAt_zero a b rest a b).mpr ⟨rfl, rfl⟩) hsk
        rw [hr0]
        simp only []
        obtain ⟨res, e, f⟩ := ih hall' (i0 + 1) (if better r0.1 cur = true then some (r0.1, r0.2.1, r0.2.2, i0) else cur)
        refine ⟨res, e, fun en => ?_⟩
        exfalso
        have h1 := (f en).1
        split at h1
        · cases h1
        · rename_i hb
          subst h1
          simp [better] at hb

/-! ### the lines after the loop (since the `fix:` commit 563eeba): the first vertex when nothing was kept -/

/-- when the loop ends without a current minimum, every segment was skipped -/
theorem polyLoop_none (sqrt : α → α) (eps x y : α) (l : List (α × α)) (i0 : Nat) (cur : Option (α × α × α × Nat))
    (h : polyLoop sqrt eps x y l i0 cur = .ok none) :
    ∀ k p1 p2, SegAt l k p1 p2 → skipped eps p1.1 p1.2 p2.1 p2.2 = true := by
  intro k p1 p2 hs
  cases hsk : skipped eps p1.1 p1.2 p2.1 p2.2 with
  | true => rfl
  | false =>
    obtain ⟨r, rk, e, _⟩ := (polyLoop_spec sqrt eps x y l i0 cur none h).2.2 k p1 p2 hs hsk
    cases e

/-- when every segment is skipped the loop leaves the current minimum as it is -/
theorem polyLoop_all_skipped (sqrt : α → α) (eps x y : α) (l : List (α × α))
    (hall : ∀ k p1 p2, SegAt l k p1 p2 → skipped eps p1.1 p1.2 p2.1 p2.2 = true) :
    ∀ (i0 : Nat) (cur : Option (α × α × α × Nat)), polyLoop sqrt eps x y l i0 cur = .ok cur := by
  induction l with
  | nil => intro i0 cur; simp only [polyLoop]
  | cons a tl ih =>
    cases tl with
    | nil => intro i0 cur; simp only [polyLoop]
    | cons b rest =>
      intro i0 cur
      have h0 : skipped eps a.1 a.2 b.1 b.2 = true := hall 0 a b ((SegAt_zero a b rest a b).mpr ⟨rfl, rfl⟩)
      rw [polyLoop, h0]
      simp only [↓reduceIte]
      exact ih (fun k p1 p2 hs => hall (k + 1) p1 p2 ((SegAt_succ a _ k p1 p2).mpr hs)) (i0 + 1) cur

/-- `proj_polyligne` on a polyline with a kept segment: what it returns is what the loop kept -/
theorem projPolyligne_kept (sqrt : α → α) (eps : α) (pts : List (α × α)) (x y : α) (r : α × α × α × Nat)
    (hex : ∃ j p1 p2, pts[j]? = some p1 ∧ pts[j + 1]? = some p2 ∧ skipped eps p1.1 p1.2 p2.1 p2.2 = false)
    (h : projPolyligne sqrt eps pts x y = .ok r) : polyLoop sqrt eps x y pts 0 none = .ok (some r) := by
  unfold projPolyligne at h
  match pts, h with
  | [], h => cases h
  | p0 :: rest, h =>
    simp only at h
    cases hl : polyLoop sqrt eps x y (p0 :: rest) 0 none with
    | error e => rw [hl] at h; cases h
    | ok res =>
      rw [hl] at h
      cases res with
      | some r' => simp only at h; injection h with h; rw [h]
      | none =>
        obtain ⟨j, p1, p2, s1, s2, hk⟩ := hex
        have := polyLoop_none sqrt eps x y _ 0 none hl j p1 p2 ⟨s1, s2⟩
        rw [hk] at this; cases this

/-- `proj_polyligne` on a polyline all of whose segments are skipped (all the vertices coincide up to `eps` per segment; a
single vertex): the first vertex, the distance to it, index 0 -/
theorem projPolyligne_all_skipped (sqrt : α → α) (eps : α) (p0 : α × α) (rest : List (α × α)) (x y : α)
    (hall : ∀ k p1 p2, SegAt (p0 :: rest) k p1 p2 → skipped eps p1.1 p1.2 p2.1 p2.2 = true) :
    projPolyligne sqrt eps (p0 :: rest) x y = .ok (firstVertex sqrt x y p0.1 p0.2) := by
  unfold projPolyligne
  simp only [polyLoop_all_skipped sqrt eps x y _ hall 0 none]

/-- the converse: with no kept segment the answer is the first vertex, whatever `proj_polyligne` returns -/
theorem projPolyligne_ok_cases (sqrt : α → α) (eps : α) (pts : List (α × α)) (x y : α) (r : α × α × α × Nat)
    (h : projPolyligne sqrt eps pts x y = .ok r) :
    polyLoop sqrt eps x y pts 0 none = .ok (some r) ∨
      (∃ p0 rest, pts = p0 :: rest ∧ r = firstVertex sqrt x y p0.1 p0.2 ∧
        ∀ k p1 p2, SegAt pts k p1 p2 → skipped eps p1.1 p1.2 p2.1 p2.2 = true) := by
  unfold projPolyligne at h
  match pts, h with
  | [], h => cases h
  | p0 :: rest, h =>
    simp only at h
    cases hl : polyLoop sqrt eps x y (p0 :: rest) 0 none with
    | error e => rw [hl] at h; cases h
    | ok res =>
      rw [hl] at h
      cases res with
      | some r' => simp only at h; injection h with h; left; rw [h]
      | none =>
        simp only at h; injection h with h
        exact Or.inr ⟨p0, rest, rfl, h.symm, polyLoop_none sqrt eps x y _ 0 none hl⟩

end TV.Proj
