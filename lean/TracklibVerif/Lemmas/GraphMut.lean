import TracklibVerif.Model.GraphMut
import TracklibVerif.Lemmas.GraphPathExt
/-! Lemmas for the network that is modified between the routing calls (`Model/GraphMut.lean`), for C07.

* `forwardA_eq`: the forward pass over explicit adjacency lists is the model's forward pass when relaxing over the list of a
  settled node does what relaxing over `nextEdges` does;
* `Inv`: `NEXT_EDGES` agrees with the orientation attributes of the edges of `EDGES` (`Synced`), edge ids are unique, the
  network is well formed, node ids are below the bound. It holds of a new `Network()` and every call preserves it — except
  `getEdge(i).orientation = o`, which changes the attribute and leaves `NEXT_EDGES` as it was;
* `search_spec` / `path_query`: under `Inv`, a routing call = the same call on a FRESH network holding the current content;
* `OriEq` / `exec_oriEq`: two objects that differ only in the orientation attributes of their edges answer every call alike. -/
set_option linter.unusedSectionVars false
namespace TV.GraphMut
open TV.Graph TV.GraphExt

section plain
variable {W : Type} [LT W] [DecidableLT W] [Add W]

theorem forwardA_eq (net : Net W) (nx : Nat → List (Edge W))
    (h : ∀ u du (st : St W), st.vis u = true → (nx u).foldl (relaxOne u du) st = (nextEdges net u).foldl (relaxOne u du) st)
    (tgt : Option Nat) (cut : Option W) :
    ∀ (f : Nat) (st : St W) (out : List (Nat × W)), forwardA nx net.n tgt cut f st out = forward net tgt cut f st out := by
  intro f
  induction f with
  | zero => intro st out; rfl
  | succ f ih =>
    intro st out
    unfold forwardA forward
    cases popMinAux st net.n with
    | none => rfl
    | some q =>
      obtain ⟨u, du⟩ := q
      simp only []
      have hs : settleA nx st u du = settle net st u du := by
        unfold settleA settle
        exact h u du _ (by simp)
      rw [hs, ih]

/-- two families of adjacency lists over which relaxation does the same give the same forward pass -/
theorem forwardA_congr (nx nx' : Nat → List (Edge W)) (n : Nat)
    (h : ∀ u du (st : St W), (nx u).foldl (relaxOne u du) st = (nx' u).foldl (relaxOne u du) st)
    (tgt : Option Nat) (cut : Option W) :
    ∀ (f : Nat) (st : St W) (out : List (Nat × W)), forwardA nx n tgt cut f st out = forwardA nx' n tgt cut f st out := by
  intro f
  induction f with
  | zero => intro st out; rfl
  | succ f ih =>
    intro st out
    unfold forwardA
    cases popMinAux st n with
    | none => rfl
    | some q =>
      obtain ⟨u, du⟩ := q
      simp only []
      have hs : settleA nx st u du = settleA nx' st u du := by
        unfold settleA
        exact h u du _
      rw [hs, ih]

theorem registered_iff (o : Obj W) (v : Nat) : registered o v = (order o).contains v := by
  unfold registered order
  induction o.nb.nodes with
  | nil => rfl
  | cons p r ih =>
    simp only [List.any_cons, List.map_cons, List.contains_cons, ih]
    congr 1
    exact Bool.beq_comm

theorem hasEdge_false (o : Obj W) (i : Nat) (h : hasEdge o i = false) : ∀ e ∈ o.nb.edges, e.id ≠ i := by
  intro e he hid
  unfold hasEdge at h
  have := List.any_eq_false.1 h e he
  simp [hid] at this

theorem hasEdge_true (o : Obj W) (i : Nat) (h : hasEdge o i = true) : ∃ e ∈ o.nb.edges, e.id = i := by
  unfold hasEdge at h
  obtain ⟨e, he, hid⟩ := List.any_eq_true.1 h
  exact ⟨e, he, by simpa using hid⟩

/-- `e.<attr> = x` keeps the ids, ends and orientations where `f` does -/
theorem updEdge_next (f : Edge W → Edge W) (hf : ∀ e, (f e).id = e.id ∧ (f e).src = e.src ∧ (f e).tgt = e.tgt ∧ (f e).ori = e.ori)
    (i u : Nat) (es : List (Edge W)) :
    (updEdge f i es).flatMap (fun e => nextOf e u) = es.flatMap (fun e => nextOf e u) := by
  unfold updEdge
  rw [List.flatMap_map]
  congr 1
  funext e
  by_cases h : e.id = i
  · obtain ⟨a, b, c, d⟩ := hf e
    simp only [h, if_true, nextOf, a, b, c, d]
  · simp only [h, if_false]

theorem mem_updEdge (f : Edge W → Edge W) (i : Nat) (es : List (Edge W)) (e' : Edge W) (h : e' ∈ updEdge f i es) :
    ∃ e ∈ es, e' = if e.id = i then f e else e := by
  unfold updEdge at h
  obtain ⟨e, he, rfl⟩ := List.mem_map.1 h
  exact ⟨e, he, rfl⟩

theorem addNode_nodes (nb : NetObj W Seq.Obs) (v : Nat) (c : Seq.Obs) (n : Nat) (hv : v < n) (h : ∀ p ∈ nb.nodes, p.1 < n) :
    ∀ p ∈ (GraphExt.addNode nb v c).nodes, p.1 < n := by
  unfold GraphExt.addNode
  split
  · exact h
  · intro p hp
    simp only [List.mem_append, List.mem_singleton] at hp
    rcases hp with hp | rfl
    · exact h p hp
    · exact hv

theorem addEdge_nodes (nb : NetObj W Seq.Obs) (e : Edge W) (sc tc : Seq.Obs) :
    (GraphExt.addEdge nb e sc tc).nodes = (GraphExt.addNode (GraphExt.addNode nb e.src sc) e.tgt tc).nodes := by
  unfold GraphExt.addEdge
  simp only []
  generalize GraphExt.addNode (GraphExt.addNode nb e.src sc) e.tgt tc = nb'
  by_cases ha : 0 ≤ e.ori <;> by_cases hb : e.ori ≤ 0 <;> simp [ha, hb]

end plain

section ordered
variable {W : Type} [LinearOrder W] [Add W] [Zero W] [WalkAdd W]

/-- `NEXT_EDGES[u]` lists, in insertion order, the ids of the edges of `EDGES` that their CURRENT orientation attribute
permits to leave from `u` -/
def Synced (o : Obj W) : Prop := ∀ u, o.nb.next u = o.nb.edges.flatMap (fun e => nextOf e u)

structure Inv (o : Obj W) : Prop where
  synced : Synced o
  uniq : UniqueIds (netOf o)
  wf : WFNet (netOf o)
  bound : ∀ p ∈ o.nb.nodes, p.1 < o.n

theorem inv_new (n : Nat) : Inv (Obj.new n : Obj W) where
  synced := fun _ => rfl
  uniq := fun e he => by cases he
  wf := fun e he => by cases he
  bound := fun p hp => by cases hp

theorem registered_lt (o : Obj W) (hi : Inv o) (v : Nat) (h : registered o v = true) : v < o.n := by
  unfold registered at h
  obtain ⟨p, hp, hv⟩ := List.any_eq_true.1 h
  have := hi.bound p hp
  simp only [beq_iff_eq] at hv
  omega

/-- under `Synced`, the edges met by `for edge_id in NEXT_EDGES[u]: e = EDGES[edge_id]` are `pyNext` of the current content -/
theorem adj_pyNext (o : Obj W) (hs : Synced o) (hu : UniqueIds (netOf o)) (u : Nat) : adj o u = pyNext (netOf o) u := by
  unfold adj pyNext
  rw [hs u]
  exact lookup_next (netOf o) hu u (netOf o).edges (fun e he => he)

/-- the forward pass of a call on the object = the forward pass on a fresh network with the current content -/
theorem forward_now (o : Obj W) (hi : Inv o) (s : Nat) (t : Option Nat) (cut : Option W) :
    forwardA (adj o) o.n t cut o.n (setSource (GraphExt.resetFlags (some o.flags)) s) [] = runForward (netOf o) s t cut := by
  have := forwardA_eq (netOf o) (adj o) (fun u du st hv => by
    rw [adj_pyNext o hi.synced hi.uniq u]; exact pyNext_fold (netOf o) u du st hv) t cut o.n (St.init s) []
  exact this

theorem search_spec (o : Obj W) (hi : Inv o) (s : Nat) (hs : registered o s = true) (t : Option Nat) (cut : Option W) (ud : Bool) :
    search o s t cut ud =
      { o with flags := (runForward (netOf o) s t cut).1, seen := order o,
               dict := if ud then record o.dict s (runForward (netOf o) s t cut).2 else o.dict } := by
  unfold search
  rw [if_pos hs]
  simp only [forward_now o hi s t cut]

/-- `shortest_path(s, t, cut[, output_dict])` on the object, whatever was done to it before (`Inv`): what it returns on a
fresh network holding the current nodes, edges (current weights), polylines and coordinates -/
theorem path_query (o : Obj W) (hi : Inv o) (s t : NodeArg) (cut : Option W) (ud : Bool)
    (hs : registered o (correctInputNode s) = true) (ht : registered o (correctInputNode t) = true) :
    (exec o (.path s t cut ud)).2 =
      .path (shortestPathT (netOf o) (geoOf o) (correctInputNode s) (correctInputNode t) cut)
            (shortestDistance (netOf o) (correctInputNode s) (correctInputNode t) cut) := by
  simp only [exec, hs, if_true]
  rw [search_spec o hi _ hs]
  unfold backward
  have h2 : (order o).contains (correctInputNode t) = true := by rw [← registered_iff]; exact ht
  have h1 : ∀ (f : St W) (sn : List Nat) (dc : Table W), registered ({ o with flags := f, seen := sn, dict := dc } : Obj W) (correctInputNode t) = true :=
    fun _ _ _ => ht
  simp only [h1, h2, Bool.not_true, Bool.false_eq_true, if_false]
  rfl

theorem dist_query (o : Obj W) (hi : Inv o) (s t : NodeArg) (cut : Option W) (ud : Bool)
    (hs : registered o (correctInputNode s) = true) (ht : registered o (correctInputNode t) = true) :
    (exec o (.dist s (some t) cut ud)).2 = .dist (shortestDistance (netOf o) (correctInputNode s) (correctInputNode t) cut) := by
  simp only [exec, hs, ht, Option.map_some, Bool.not_true, Bool.false_eq_true, if_false, if_true]
  rw [search_spec o hi _ hs]
  rfl

/-! ### every call but `orientation = …` preserves the invariant -/

def Op.isSetOri : Op W → Bool
  | .setOri _ _ => true
  | _ => false

theorem search_nb (o : Obj W) (s : Nat) (t : Option Nat) (cut : Option W) (ud : Bool) :
    (search o s t cut ud).nb = o.nb ∧ (search o s t cut ud).n = o.n ∧ (search o s t cut ud).geom = o.geom := by
  unfold search
  split <;> exact ⟨rfl, rfl, rfl⟩

theorem inv_of_nb (o o' : Obj W) (hi : Inv o) (h1 : o'.nb.edges = o.nb.edges) (h2 : o'.nb.next = o.nb.next)
    (h3 : ∀ p ∈ o'.nb.nodes, p.1 < o'.n) (h4 : o'.n = o.n) : Inv o' := by
  refine ⟨?_, ?_, ?_, h3⟩
  · intro u; rw [h2, h1]; exact hi.synced u
  · intro e he e' he'; unfold netOf at he he'; simp only [h1] at he he'; exact hi.uniq e he e' he'
  · intro e he; unfold netOf at he ⊢; simp only [h1] at he; simp only [h4]; exact hi.wf e he

theorem exec_inv (o : Obj W) (hi : Inv o) (op : Op W) (hop : op.isSetOri = false) : Inv (exec o op).1 := by
  cases op with
  | addNode v c =>
    simp only [exec]
    split
    · rename_i hv
      exact inv_of_nb o _ hi (addNode_edges o.nb v c).1 (addNode_edges o.nb v c).2 (addNode_nodes o.nb v c o.n hv hi.bound) rfl
    · exact hi
  | addEdge e sc tc g =>
    simp only [exec]
    split
    · rename_i hg
      simp only [Bool.and_eq_true, decide_eq_true_eq, Bool.not_eq_true', decide_eq_false_iff_not, not_lt] at hg
      obtain ⟨⟨⟨h1, h2⟩, h3⟩, h4⟩ := hg
      have hne := hasEdge_false o e.id h4
      refine ⟨?_, ?_, ?_, ?_⟩
      · intro u
        show (GraphExt.addEdge o.nb e sc tc).next u = (GraphExt.addEdge o.nb e sc tc).edges.flatMap (fun e => nextOf e u)
        rw [addEdge_next, addEdge_edges, List.flatMap_append, hi.synced u]
        simp
      · intro a ha b hb hab
        have ha' : a ∈ o.nb.edges ++ [e] := by
          have : a ∈ (GraphExt.addEdge o.nb e sc tc).edges := ha
          rwa [addEdge_edges] at this
        have hb' : b ∈ o.nb.edges ++ [e] := by
          have : b ∈ (GraphExt.addEdge o.nb e sc tc).edges := hb
          rwa [addEdge_edges] at this
        simp only [List.mem_append, List.mem_singleton] at ha' hb'
        rcases ha' with ha' | rfl <;> rcases hb' with hb' | rfl
        · exact hi.uniq a ha' b hb' hab
        · exact absurd hab (hne a ha')
        · exact absurd hab.symm (hne b hb')
        · rfl
      · intro a ha
        have ha' : a ∈ o.nb.edges ++ [e] := by
          have : a ∈ (GraphExt.addEdge o.nb e sc tc).edges := ha
          rwa [addEdge_edges] at this
        simp only [List.mem_append, List.mem_singleton] at ha'
        rcases ha' with ha' | rfl
        · exact hi.wf a ha'
        · exact ⟨h1, h2, h3⟩
      · show ∀ p ∈ (GraphExt.addEdge o.nb e sc tc).nodes, p.1 < o.n
        rw [addEdge_nodes]
        exact addNode_nodes _ _ _ _ h2 (addNode_nodes _ _ _ _ h1 hi.bound)
    · exact hi
  | setWeight i w =>
    simp only [exec]
    split
    · exact hi
    · split
      · exact hi
      · rename_i _ hw
        simp only [decide_eq_true_eq, not_lt] at hw
        refine ⟨?_, ?_, ?_, hi.bound⟩
        · intro u
          show o.nb.next u = (updEdge (fun e => { e with w := w }) i o.nb.edges).flatMap (fun e => nextOf e u)
          rw [updEdge_next (fun e => { e with w := w }) (fun e => ⟨rfl, rfl, rfl, rfl⟩)]
          exact hi.synced u
        · intro a ha b hb hab
          obtain ⟨a0, ha0, rfl⟩ := mem_updEdge _ i _ a ha
          obtain ⟨b0, hb0, rfl⟩ := mem_updEdge _ i _ b hb
          have key : ∀ e : Edge W, (if e.id = i then ({ e with w := w } : Edge W) else e).id = e.id := by
            intro e; split <;> rfl
          have hid : a0.id = b0.id := by rw [← key a0, ← key b0]; exact hab
          rw [hi.uniq a0 ha0 b0 hb0 hid]
        · intro a ha
          obtain ⟨a0, ha0, rfl⟩ := mem_updEdge _ i _ a ha
          obtain ⟨x, y, z⟩ := hi.wf a0 ha0
          by_cases h1 : a0.id = i
          · simp only [h1, if_true]; exact ⟨x, y, hw⟩
          · simp only [h1, if_false]; exact ⟨x, y, z⟩
  | setOri i x => cases hop
  | setGeom i g =>
    simp only [exec]
    split
    · exact hi
    · exact inv_of_nb o _ hi rfl rfl hi.bound rfl
  | setCoord v c =>
    simp only [exec]
    split
    · exact hi
    · refine inv_of_nb o _ hi rfl rfl ?_ rfl
      intro p hp
      simp only [List.mem_map] at hp
      obtain ⟨q, hq, rfl⟩ := hp
      have hb := hi.bound q hq
      by_cases h1 : q.1 = v
      · simp only [h1, if_true]; rw [← h1]; exact hb
      · simp only [h1, if_false]; exact hb
  | path s t cut ud =>
    simp only [exec]
    obtain ⟨a, b, _⟩ := search_nb o (correctInputNode s) (some (correctInputNode t)) cut ud
    split <;> exact inv_of_nb o _ hi (by rw [a]) (by rw [a]) (by rw [a, b]; exact hi.bound) b
  | dist s t cut ud =>
    simp only [exec]
    obtain ⟨a, b, _⟩ := search_nb o (correctInputNode s) (t.map correctInputNode) cut ud
    split
    · exact inv_of_nb o _ hi (by rw [a]) (by rw [a]) (by rw [a, b]; exact hi.bound) b
    · split
      · split <;> exact inv_of_nb o _ hi (by rw [a]) (by rw [a]) (by rw [a, b]; exact hi.bound) b
      · exact inv_of_nb o _ hi (by rw [a]) (by rw [a]) (by rw [a, b]; exact hi.bound) b
  | fwd s t cut ud =>
    simp only [exec]
    obtain ⟨a, b, _⟩ := search_nb o (correctInputNode s) (t.map correctInputNode) cut ud
    split <;> exact inv_of_nb o _ hi (by rw [a]) (by rw [a]) (by rw [a, b]; exact hi.bound) b
  | back t => exact hi

theorem runOps_inv : ∀ (ops : List (Op W)) (o : Obj W), Inv o → (∀ op ∈ ops, op.isSetOri = false) → Inv (runOps o ops).2 := by
  intro ops
  induction ops with
  | nil => intro o hi _; exact hi
  | cons op ops ih =>
    intro o hi h
    simp only [runOps]
    exact ih _ (exec_inv o hi op (h op List.mem_cons_self)) (fun q hq => h q (List.mem_cons_of_mem _ hq))

end ordered

/-! ### the orientation ATTRIBUTE of an edge is read by `addEdge` only -/
section ori
variable {W : Type} [LT W] [DecidableLT W] [Add W] [OfNat W 0]

/-- an Edge object without its orientation attribute -/
def strip (e : Edge W) : Edge W := { e with ori := 0 }

/-- the same object up to the orientation attributes of the Edge objects in `EDGES` (`NEXT_EDGES` included) -/
structure OriEq (o o' : Obj W) : Prop where
  n : o.n = o'.n
  nodes : o.nb.nodes = o'.nb.nodes
  next : o.nb.next = o'.nb.next
  edges : o.nb.edges.map strip = o'.nb.edges.map strip
  geom : o.geom = o'.geom
  flags : o.flags = o'.flags
  seen : o.seen = o'.seen
  dict : o.dict = o'.dict

theorem OriEq.refl (o : Obj W) : OriEq o o := ⟨rfl, rfl, rfl, rfl, rfl, rfl, rfl, rfl⟩

theorem findEdge_strip (n n' : Nat) (es es' : List (Edge W)) (h : es.map strip = es'.map strip) (i : Nat) :
    (findEdge ⟨n, es⟩ i).map strip = (findEdge ⟨n', es'⟩ i).map strip := by
  unfold findEdge
  have key : ∀ l : List (Edge W), (l.find? (fun e => e.id == i)).map strip = (l.map strip).find? (fun e => e.id == i) := by
    intro l
    rw [List.find?_map]
    rfl
  simp only []
  rw [key es, key es', h]

theorem foldl_strip (u : Nat) (du : W) (l : List (Edge W)) (st : St W) :
    (l.map strip).foldl (relaxOne u du) st = l.foldl (relaxOne u du) st := by
  rw [List.foldl_map]
  rfl

theorem adj_strip (o o' : Obj W) (h : OriEq o o') (u : Nat) : (adj o u).map strip = (adj o' u).map strip := by
  unfold adj
  rw [List.map_filterMap, List.map_filterMap, h.next]
  congr 1
  funext i
  exact findEdge_strip o.n o'.n _ _ h.edges i

theorem adj_fold (o o' : Obj W) (h : OriEq o o') (u : Nat) (du : W) (st : St W) :
    (adj o u).foldl (relaxOne u du) st = (adj o' u).foldl (relaxOne u du) st := by
  rw [← foldl_strip u du (adj o u), ← foldl_strip u du (adj o' u), adj_strip o o' h u]

theorem backAuxT_strip (net net' : Net W) (geo : GeoT) (st : St W)
    (hf : ∀ i, (findEdge net i).map strip = (findEdge net' i).map strip) :
    ∀ (f node : Nat) (nodes : List Nat) (track : Seq.Track),
      backAuxT net geo st f node nodes track = backAuxT net' geo st f node nodes track := by
  intro f
  induction f with
  | zero => intro node nodes track; rfl
  | succ f ih =>
    intro node nodes track
    unfold backAuxT
    cases st.pred node with
    | none => rfl
    | some p =>
      obtain ⟨a, eid⟩ := p
      simp only []
      have := hf eid
      cases h1 : findEdge net eid with
      | none =>
        cases h2 : findEdge net' eid with
        | none => rfl
        | some e' => rw [h1, h2] at this; cases this
      | some e =>
        cases h2 : findEdge net' eid with
        | none => rw [h1, h2] at this; cases this
        | some e' =>
          rw [h1, h2] at this
          simp only [Option.map_some, Option.some.injEq] at this
          have hsrc : e.src = e'.src := by have h3 := congrArg Edge.src this; exact h3
          simp only [hsrc]
          exact ih _ _ _

theorem runBackwardT_strip (net net' : Net W) (geo : GeoT) (st : St W) (hn : net.n = net'.n)
    (hf : ∀ i, (findEdge net i).map strip = (findEdge net' i).map strip) (t : Nat) :
    runBackwardT net geo st t = runBackwardT net' geo st t := by
  unfold runBackwardT
  cases st.pred t with
  | none => rfl
  | some p => simp only [hn]; exact backAuxT_strip net net' geo st hf _ _ _ _

theorem registered_oriEq (o o' : Obj W) (h : OriEq o o') (v : Nat) : registered o v = registered o' v := by
  unfold registered; rw [h.nodes]

theorem order_oriEq (o o' : Obj W) (h : OriEq o o') : order o = order o' := by
  unfold order; rw [h.nodes]

theorem hasEdge_oriEq (o o' : Obj W) (h : OriEq o o') (i : Nat) : hasEdge o i = hasEdge o' i := by
  have key : ∀ l : List (Edge W), l.any (fun e => e.id == i) = (l.map strip).any (fun e => e.id == i) := by
    intro l; rw [List.any_map]; rfl
  unfold hasEdge
  rw [key o.nb.edges, key o'.nb.edges, h.edges]

theorem geoOf_oriEq (o o' : Obj W) (h : OriEq o o') : geoOf o = geoOf o' := by
  unfold geoOf posOf; rw [h.nodes, h.geom]

theorem search_oriEq (o o' : Obj W) (h : OriEq o o') (s : Nat) (t : Option Nat) (cut : Option W) (ud : Bool) :
    OriEq (search o s t cut ud) (search o' s t cut ud) := by
  unfold search
  rw [registered_oriEq o o' h s, order_oriEq o o' h, h.flags, h.dict, h.n]
  have hfw := forwardA_congr (adj o) (adj o') o'.n (fun u du st => adj_fold o o' h u du st) t cut o'.n
    (setSource (GraphExt.resetFlags (some o'.flags)) s) []
  split
  · exact ⟨rfl, h.nodes, h.next, h.edges, h.geom, by simp only [hfw], rfl, by simp only [hfw]⟩
  · exact ⟨rfl, h.nodes, h.next, h.edges, h.geom, rfl, rfl, rfl⟩

theorem backward_oriEq (o o' : Obj W) (h : OriEq o o') (t : Nat) : backward o t = backward o' t := by
  unfold backward
  rw [registered_oriEq o o' h t, h.seen, h.flags, geoOf_oriEq o o' h,
    runBackwardT_strip (netOf o) (netOf o') (geoOf o') o'.flags h.n (fun i => findEdge_strip o.n o'.n _ _ h.edges i) t]

theorem addNode_nodes_congr (nb nb' : NetObj W Seq.Obs) (h : nb.nodes = nb'.nodes) (v : Nat) (c : Seq.Obs) :
    (GraphExt.addNode nb v c).nodes = (GraphExt.addNode nb' v c).nodes := by
  unfold GraphExt.addNode
  rw [h]
  split <;> simp [h]

theorem updEdge_strip (f : Edge W → Edge W) (hf : ∀ e, strip (f e) = f (strip e)) (i : Nat) (es : List (Edge W)) :
    (updEdge f i es).map strip = updEdge f i (es.map strip) := by
  unfold updEdge
  rw [List.map_map, List.map_map]
  congr 1
  funext e
  show strip (if e.id = i then f e else e) = if (strip e).id = i then f (strip e) else strip e
  have : (strip e).id = e.id := rfl
  rw [this]
  split
  · exact hf e
  · rfl

theorem updEdge_ori_strip (x : Int) (i : Nat) (es : List (Edge W)) :
    (updEdge (fun e => { e with ori := x }) i es).map strip = es.map strip := by
  unfold updEdge
  rw [List.map_map]
  congr 1
  funext e
  show strip (if e.id = i then { e with ori := x } else e) = strip e
  split <;> rfl

/-- two objects that differ only in the orientation attributes of their edges answer every call alike, and still differ
only there afterwards -/
theorem exec_oriEq (o o' : Obj W) (h : OriEq o o') (op : Op W) :
    OriEq (exec o op).1 (exec o' op).1 ∧ (exec o op).2 = (exec o' op).2 := by
  cases op with
  | addNode v c =>
    simp only [exec, h.n]
    split
    · refine ⟨⟨rfl, addNode_nodes_congr _ _ h.nodes v c, ?_, ?_, h.geom, h.flags, h.seen, h.dict⟩, rfl⟩
      · show (GraphExt.addNode o.nb v c).next = (GraphExt.addNode o'.nb v c).next
        rw [(addNode_edges o.nb v c).2, (addNode_edges o'.nb v c).2, h.next]
      · show (GraphExt.addNode o.nb v c).edges.map strip = (GraphExt.addNode o'.nb v c).edges.map strip
        rw [(addNode_edges o.nb v c).1, (addNode_edges o'.nb v c).1, h.edges]
    · exact ⟨h, rfl⟩
  | addEdge e sc tc g =>
    simp only [exec, h.n, hasEdge_oriEq o o' h]
    split
    · refine ⟨⟨rfl, ?_, ?_, ?_, by simp only [h.geom], h.flags, h.seen, h.dict⟩, rfl⟩
      · show (GraphExt.addEdge o.nb e sc tc).nodes = (GraphExt.addEdge o'.nb e sc tc).nodes
        rw [addEdge_nodes, addEdge_nodes]
        exact addNode_nodes_congr _ _ (addNode_nodes_congr _ _ h.nodes _ _) _ _
      · show (GraphExt.addEdge o.nb e sc tc).next = (GraphExt.addEdge o'.nb e sc tc).next
        funext u
        rw [addEdge_next, addEdge_next, h.next]
      · show (GraphExt.addEdge o.nb e sc tc).edges.map strip = (GraphExt.addEdge o'.nb e sc tc).edges.map strip
        rw [addEdge_edges, addEdge_edges, List.map_append, List.map_append, h.edges]
    · exact ⟨h, rfl⟩
  | setWeight i w =>
    simp only [exec, hasEdge_oriEq o o' h]
    split
    · exact ⟨h, rfl⟩
    · split
      · exact ⟨h, rfl⟩
      · refine ⟨⟨h.n, h.nodes, h.next, ?_, h.geom, h.flags, h.seen, h.dict⟩, rfl⟩
        show (updEdge (fun e => { e with w := w }) i o.nb.edges).map strip = (updEdge (fun e => { e with w := w }) i o'.nb.edges).map strip
        rw [updEdge_strip (fun e => { e with w := w }) (fun e => rfl), updEdge_strip (fun e => { e with w := w }) (fun e => rfl), h.edges]
  | setOri i x =>
    simp only [exec, hasEdge_oriEq o o' h]
    split
    · exact ⟨h, rfl⟩
    · refine ⟨⟨h.n, h.nodes, h.next, ?_, h.geom, h.flags, h.seen, h.dict⟩, rfl⟩
      show (updEdge (fun e => { e with ori := x }) i o.nb.edges).map strip = (updEdge (fun e => { e with ori := x }) i o'.nb.edges).map strip
      rw [updEdge_ori_strip, updEdge_ori_strip, h.edges]
  | setGeom i g =>
    simp only [exec, hasEdge_oriEq o o' h]
    split
    · exact ⟨h, rfl⟩
    · exact ⟨⟨h.n, h.nodes, h.next, h.edges, by simp only [h.geom], h.flags, h.seen, h.dict⟩, rfl⟩
  | setCoord v c =>
    simp only [exec, registered_oriEq o o' h]
    split
    · exact ⟨h, rfl⟩
    · exact ⟨⟨h.n, by simp only [h.nodes], h.next, h.edges, h.geom, h.flags, h.seen, h.dict⟩, rfl⟩
  | path s t cut ud =>
    have hs := search_oriEq o o' h (correctInputNode s) (some (correctInputNode t)) cut ud
    simp only [exec, registered_oriEq o o' h]
    split
    · exact ⟨hs, backward_oriEq _ _ hs _⟩
    · exact ⟨hs, rfl⟩
  | dist s t cut ud =>
    have hs := search_oriEq o o' h (correctInputNode s) (t.map correctInputNode) cut ud
    simp only [exec, registered_oriEq o o' h, order_oriEq o o' h]
    split
    · exact ⟨hs, rfl⟩
    · split
      · split
        · exact ⟨hs, by rw [hs.flags]⟩
        · exact ⟨hs, rfl⟩
      · exact ⟨hs, by rw [hs.flags]⟩
  | fwd s t cut ud =>
    have hs := search_oriEq o o' h (correctInputNode s) (t.map correctInputNode) cut ud
    simp only [exec, registered_oriEq o o' h]
    split <;> exact ⟨hs, rfl⟩
  | back t => exact ⟨h, backward_oriEq o o' h _⟩

theorem runOps_oriEq : ∀ (ops : List (Op W)) (o o' : Obj W), OriEq o o' →
    (runOps o ops).1 = (runOps o' ops).1 ∧ OriEq (runOps o ops).2 (runOps o' ops).2 := by
  intro ops
  induction ops with
  | nil => intro o o' h; exact ⟨rfl, h⟩
  | cons op ops ih =>
    intro o o' h
    obtain ⟨h1, h2⟩ := exec_oriEq o o' h op
    obtain ⟨h3, h4⟩ := ih _ _ h1
    simp only [runOps]
    exact ⟨by rw [h2, h3], h4⟩

/-- `getEdge(i).orientation = x` on a built network changes an attribute that no routing call reads -/
theorem setOri_oriEq (o : Obj W) (i : Nat) (x : Int) : OriEq (exec o (.setOri i x)).1 o := by
  simp only [exec]
  split
  · exact OriEq.refl o
  · exact ⟨rfl, rfl, rfl, updEdge_ori_strip x i o.nb.edges, rfl, rfl, rfl, rfl⟩

end ori
/-! ### any history, orientation assignments included; the backward loop always ends -/
section history
variable {W : Type} [LT W] [DecidableLT W] [Add W] [OfNat W 0]

theorem OriEq.symm {o o' : Obj W} (h : OriEq o o') : OriEq o' o :=
  ⟨h.n.symm, h.nodes.symm, h.next.symm, h.edges.symm, h.geom.symm, h.flags.symm, h.seen.symm, h.dict.symm⟩

theorem OriEq.trans {o o' o'' : Obj W} (h : OriEq o o') (h' : OriEq o' o'') : OriEq o o'' :=
  ⟨h.n.trans h'.n, h.nodes.trans h'.nodes, h.next.trans h'.next, h.edges.trans h'.edges, h.geom.trans h'.geom,
   h.flags.trans h'.flags, h.seen.trans h'.seen, h.dict.trans h'.dict⟩

/-- the calls of a history without its orientation assignments -/
def dropOri (ops : List (Op W)) : List (Op W) := ops.filter (fun op => !op.isSetOri)

theorem dropOri_clean (ops : List (Op W)) : ∀ op ∈ dropOri ops, op.isSetOri = false := by
  intro op h
  unfold dropOri at h
  have := (List.mem_filter.1 h).2
  simpa using this

/-- the state after a history = the state after the same history without its orientation assignments, up to the
orientation attributes -/
theorem runOps_dropOri : ∀ (ops : List (Op W)) (o o' : Obj W), OriEq o o' → OriEq (runOps o ops).2 (runOps o' (dropOri ops)).2 := by
  intro ops
  induction ops with
  | nil => intro o o' h; exact h
  | cons op ops ih =>
    intro o o' h
    cases hop : op.isSetOri with
    | true =>
      have hd : dropOri (op :: ops) = dropOri ops := by unfold dropOri; simp [hop]
      rw [hd]
      simp only [runOps]
      apply ih
      cases op with
      | setOri i x => exact (setOri_oriEq o i x).trans h
      | _ => cases hop
    | false =>
      have hd : dropOri (op :: ops) = op :: dropOri ops := by unfold dropOri; simp [hop]
      rw [hd]
      simp only [runOps]
      exact ih _ _ (exec_oriEq o o' h op).1

/-- the `while node.antecedent != ""` loop ends when the antecedents are ranked: every antecedent is a settled node whose
recorded edge is still in `EDGES`, and the antecedent of a settled node has a smaller rank -/
theorem backAuxT_ends (net : Net W) (geo : GeoT) (st : St W) (rk : Nat → Nat)
    (h1 : ∀ v a i, st.pred v = some (a, i) → st.vis a = true ∧ (findEdge net i).isSome = true)
    (h3 : ∀ v a i, st.pred v = some (a, i) → st.vis v = true → rk a < rk v) :
    ∀ (f v : Nat) (nodes : List Nat) (track : Seq.Track), 1 ≤ f → (∀ a i, st.pred v = some (a, i) → rk a + 2 ≤ f) →
      backAuxT net geo st f v nodes track ≠ .diverge := by
  intro f
  induction f with
  | zero => intro v nodes track h; omega
  | succ f ih =>
    intro v nodes track _ hb
    unfold backAuxT
    cases hp : st.pred v with
    | none => intro h; cases h
    | some p =>
      obtain ⟨a, i⟩ := p
      simp only []
      obtain ⟨hva, hfe⟩ := h1 v a i hp
      have hba := hb a i hp
      cases hf : findEdge net i with
      | none => rw [hf] at hfe; cases hfe
      | some e =>
        simp only []
        apply ih
        · omega
        · intro b j hpa
          have := h3 a b j hpa hva
          omega

/-- the flags on the nodes are ranked antecedent chains through edges of `EDGES` (true of the flags of any forward pass on
an earlier content: edges are never removed) -/
def ChainOK (o : Obj W) : Prop :=
  ∃ rk : Nat → Nat,
    (∀ v a i, o.flags.pred v = some (a, i) → o.flags.vis a = true ∧ hasEdge o i = true) ∧
    (∀ a, o.flags.vis a = true → rk a < o.n) ∧
    (∀ v a i, o.flags.pred v = some (a, i) → o.flags.vis v = true → rk a < rk v)

theorem findEdge_isSome (o : Obj W) (i : Nat) (h : hasEdge o i = true) : (findEdge (netOf o) i).isSome = true := by
  unfold findEdge netOf
  rw [List.find?_isSome]
  unfold hasEdge at h
  exact List.any_eq_true.1 h

theorem backward_ends (o : Obj W) (hc : ChainOK o) (t : Nat) (b : BackT) (lab : Option W)
    (h : backward o t = .path b lab) : b ≠ .diverge := by
  obtain ⟨rk, c1, c2, c3⟩ := hc
  unfold backward at h
  split at h
  · cases h
  · split at h
    · cases h
    · simp only [Out.path.injEq] at h
      rw [← h.1]
      unfold runBackwardT
      cases hp : o.flags.pred t with
      | none => intro h'; cases h'
      | some p =>
        simp only []
        apply backAuxT_ends (netOf o) (geoOf o) o.flags rk
          (fun v a i hv => ⟨(c1 v a i hv).1, findEdge_isSome o i (c1 v a i hv).2⟩) c3
        · show 1 ≤ o.n + 1
          omega
        · intro a i hpa
          have := c2 a (c1 t a i hpa).1
          show rk a + 2 ≤ o.n + 1
          omega

theorem chainOK_of_flags (o o' : Obj W) (hc : ChainOK o) (hf : o'.flags = o.flags) (hn : o'.n = o.n)
    (he : ∀ i, hasEdge o i = true → hasEdge o' i = true) : ChainOK o' := by
  obtain ⟨rk, c1, c2, c3⟩ := hc
  refine ⟨rk, ?_, ?_, ?_⟩
  · intro v a i h; rw [hf] at h ⊢; exact ⟨(c1 v a i h).1, he i (c1 v a i h).2⟩
  · intro a h; rw [hf] at h; rw [hn]; exact c2 a h
  · intro v a i h hv; rw [hf] at h hv; exact c3 v a i h hv

theorem hasEdge_updEdge (o : Obj W) (f : Edge W → Edge W) (hf : ∀ e, (f e).id = e.id) (j i : Nat) (nodes : List (Nat × Seq.Obs))
    (g : Nat → Seq.Track) (h : hasEdge o i = true) :
    hasEdge ({ o with nb := { o.nb with edges := updEdge f j o.nb.edges, nodes := nodes }, geom := g } : Obj W) i = true := by
  unfold hasEdge at h ⊢
  obtain ⟨e, he, hid⟩ := List.any_eq_true.1 h
  apply List.any_eq_true.2
  refine ⟨if e.id = j then f e else e, ?_, ?_⟩
  · unfold updEdge; exact List.mem_map.2 ⟨e, he, rfl⟩
  · split
    · rw [hf e]; exact hid
    · exact hid

end history

section history2
variable {W : Type} [LinearOrder W] [Add W] [Zero W] [WalkAdd W]

theorem chainOK_reset (o : Obj W) (h : o.flags = GraphExt.resetFlags none) : ChainOK o := by
  refine ⟨fun _ => 0, ?_, ?_, ?_⟩
  · intro v a i hp; rw [h] at hp; simp [GraphExt.resetFlags] at hp
  · intro a hv; rw [h] at hv; simp [GraphExt.resetFlags] at hv
  · intro v a i hp; rw [h] at hp; simp [GraphExt.resetFlags] at hp

theorem chainOK_new (n : Nat) : ChainOK (Obj.new n : Obj W) := chainOK_reset _ rfl

theorem search_chainOK (o : Obj W) (hi : Inv o) (s : Nat) (t : Option Nat) (cut : Option W) (ud : Bool) :
    ChainOK (search o s t cut ud) := by
  by_cases hs : registered o s = true
  · rw [search_spec o hi s hs]
    have hlt := registered_lt o hi s hs
    obtain ⟨hinv, rk, K, hp⟩ : Good (netOf o) s (runForward (netOf o) s t cut).1 :=
      forward_good (netOf o) hi.wf s t cut (netOf o).n _ [] (good_init (netOf o) s hlt)
    refine ⟨rk, ?_, ?_, ?_⟩
    · intro v a i h
      obtain ⟨_, hva, e, he, hid, _⟩ := hp.p2 v a i h
      refine ⟨hva, ?_⟩
      have hmem : e ∈ o.nb.edges := by simp only [nextEdges, List.mem_filter] at he; exact he.1
      unfold hasEdge
      exact List.any_eq_true.2 ⟨e, hmem, by simp [hid]⟩
    · intro a h
      have h4 := hp.p4 a h
      have h6 := hp.p6
      show rk a < (netOf o).n
      omega
    · intro v a i h hv; exact hp.p5 v a i h hv
  · unfold search
    rw [if_neg hs]
    exact chainOK_reset _ rfl

theorem exec_chainOK (o : Obj W) (hi : Inv o) (hc : ChainOK o) (op : Op W) : ChainOK (exec o op).1 := by
  cases op with
  | addNode v c =>
    simp only [exec]
    split
    · refine chainOK_of_flags o _ hc rfl rfl (fun i h => ?_)
      unfold hasEdge at h ⊢
      show (GraphExt.addNode o.nb v c).edges.any _ = true
      rw [(addNode_edges o.nb v c).1]; exact h
    · exact hc
  | addEdge e sc tc g =>
    simp only [exec]
    split
    · refine chainOK_of_flags o _ hc rfl rfl (fun i h => ?_)
      unfold hasEdge at h ⊢
      show (GraphExt.addEdge o.nb e sc tc).edges.any _ = true
      rw [addEdge_edges, List.any_append, h]; rfl
    · exact hc
  | setWeight i w =>
    simp only [exec]
    split
    · exact hc
    · split
      · exact hc
      · exact chainOK_of_flags o _ hc rfl rfl (fun j h => hasEdge_updEdge o (fun e => { e with w := w }) (fun e => rfl) i j o.nb.nodes o.geom h)
  | setOri i x =>
    simp only [exec]
    split
    · exact hc
    · exact chainOK_of_flags o _ hc rfl rfl (fun j h => hasEdge_updEdge o (fun e => { e with ori := x }) (fun e => rfl) i j o.nb.nodes o.geom h)
  | setGeom i g =>
    simp only [exec]
    split
    · exact hc
    · exact chainOK_of_flags o _ hc rfl rfl (fun j h => h)
  | setCoord v c =>
    simp only [exec]
    split
    · exact hc
    · exact chainOK_of_flags o _ hc rfl rfl (fun j h => h)
  | path s t cut ud =>
    simp only [exec]
    split <;> exact search_chainOK o hi _ _ cut ud
  | dist s t cut ud =>
    simp only [exec]
    split
    · exact search_chainOK o hi _ _ cut ud
    · split
      · split <;> exact search_chainOK o hi _ _ cut ud
      · exact search_chainOK o hi _ _ cut ud
  | fwd s t cut ud =>
    simp only [exec]
    split <;> exact search_chainOK o hi _ _ cut ud
  | back t => exact hc

/-- what a `.path` output never is -/
def Out.ends : Out W → Prop
  | .path b _ => b ≠ .diverge
  | _ => True

theorem exec_ends (o : Obj W) (hi : Inv o) (hc : ChainOK o) (op : Op W) : (exec o op).2.ends := by
  cases op with
  | path s t cut ud =>
    simp only [exec]
    split
    · have hc' := search_chainOK o hi (correctInputNode s) (some (correctInputNode t)) cut ud
      generalize hb : backward (search o (correctInputNode s) (some (correctInputNode t)) cut ud) (correctInputNode t) = out
      cases out with
      | path b lab => exact backward_ends _ hc' _ b lab hb
      | _ => trivial
    · trivial
  | back t =>
    simp only [exec]
    generalize hb : backward o (correctInputNode t) = out
    cases out with
    | path b lab => exact backward_ends _ hc _ b lab hb
    | _ => trivial
  | addNode v c => simp only [exec]; split <;> trivial
  | addEdge e sc tc g => simp only [exec]; split <;> trivial
  | setWeight i w => simp only [exec]; split; trivial; split <;> trivial
  | setOri i x => simp only [exec]; split <;> trivial
  | setGeom i g => simp only [exec]; split <;> trivial
  | setCoord v c => simp only [exec]; split <;> trivial
  | dist s t cut ud =>
    simp only [exec]
    split
    · trivial
    · split
      · split <;> trivial
      · trivial
  | fwd s t cut ud => simp only [exec]; split <;> trivial

/-- in ANY sequence of calls on a new network — modifications, orientation assignments, searches, backward passes on flags
of any age — no `run_routing_backward` / `shortest_path` loops for ever -/
theorem runOps_ends : ∀ (ops : List (Op W)) (o o0 : Obj W), OriEq o o0 → Inv o0 → ChainOK o0 →
    ∀ out ∈ (runOps o ops).1, out.ends := by
  intro ops
  induction ops with
  | nil => intro o o0 _ _ _ out h; cases h
  | cons op ops ih =>
    intro o o0 he hi hc out h
    simp only [runOps, List.mem_cons] at h
    cases hop : op.isSetOri with
    | true =>
      cases op with
      | setOri i x =>
        rcases h with rfl | h
        · simp only [exec]; split <;> trivial
        · exact ih _ o0 ((setOri_oriEq o i x).trans he) hi hc out h
      | _ => cases hop
    | false =>
      obtain ⟨h1, h2⟩ := exec_oriEq o o0 he op
      rcases h with rfl | h
      · rw [h2]; exact exec_ends o0 hi hc op
      · exact ih _ _ h1 (exec_inv o0 hi op hop) (exec_chainOK o0 hi hc op) out h

end history2
end TV.GraphMut
