import TracklibVerif.Lemmas.SimplifyVw
import TracklibVerif.Lemmas.SimplifyTrack
/-! Visvalingam when the `break` test can never fire (no triangle of the track has an area `> eps²` — in particular
`eps * eps = +inf`, any tolerance from 1.35e154 on since b704eae): only the two ends remain. No property of the scalar
type is used. -/
namespace TV.Simplify
set_option linter.unusedSectionVars false
variable {α : Type} [Add α] [Sub α] [Mul α] [Div α] [Neg α] [LT α] [DecidableLT α] [BEq α]
  [OfNat α 0] [OfNat α 1] [OfNat α 2]

theorem stopOf_true' (eps2 : α) (x : Option (Option α)) (h : stopOf eps2 x = true) : ∃ w, x = some (some w) ∧ w > eps2 := by
  match x, h with
  | some (some w), h => exact ⟨w, rfl, by simpa [stopOf] using h⟩

/-- a state on which the loop has stopped although no area of the track exceeds the threshold has two fixes -/
theorem vwStop_len_two (big eps2 : α) (L : List (Fix α)) (S : VState α) (hv : VInv big L S) (hc : VCons S)
    (hle : ∀ a b c, a ∈ L → b ∈ L → c ∈ L → ¬ areaFix a b c > eps2)
    (hstop : vwStep big eps2 S = none) : S.length = 2 := by
  have h2 := hv.len
  by_cases hl : S.length > 2
  · exfalso
    rw [vwStep_eq] at hstop
    simp only [hl, ↓reduceIte] at hstop
    have hst : stopOf eps2 ((S[argmin big (S.map (·.2))]?).map (·.2)) = true := by
      cases hb : stopOf eps2 ((S[argmin big (S.map (·.2))]?).map (·.2)) with
      | true => rfl
      | false => rw [hb] at hstop; simp at hstop
    obtain ⟨w, hw, hgt⟩ := stopOf_true' eps2 _ hst
    generalize argmin big (S.map (·.2)) = id at hw
    cases hS : S[id]? with
    | none => rw [hS] at hw; simp at hw
    | some e =>
      obtain ⟨p, c⟩ := e
      rw [hS] at hw
      simp only [Option.map_some, Option.some.injEq] at hw
      subst hw
      have hid : id < S.length := (List.getElem?_eq_some_iff.mp hS).1
      have h0 : 0 < id := by
        cases id with
        | zero => obtain ⟨q, hq⟩ := hv.first; rw [hq] at hS; simp at hS
        | succ n => omega
      have h1 : id + 1 < S.length := by
        by_cases he : id = S.length - 1
        · obtain ⟨q, hq⟩ := hv.last; rw [← he, hS] at hq; simp at hq
        · omega
      obtain ⟨p0, c0, p1, p2, c2, e0, e1, e2⟩ := hc id h0 h1
      have m1 := hv.mem _ (List.mem_of_getElem? e1)
      rw [hS] at e1
      simp only [Option.some.injEq, Prod.mk.injEq] at e1
      obtain ⟨_, e1⟩ := e1
      rw [e1] at hgt
      exact hle p0 p1 p2 (hv.mem _ (List.mem_of_getElem? e0)) m1 (hv.mem _ (List.mem_of_getElem? e2)) hgt
  · omega

theorem eq_pair_of_ends {β : Type} (l : List β) (h : l.length = 2) :
    ∃ a b, l = [a, b] ∧ l.head? = some a ∧ l.getLast? = some b := by
  match l, h with
  | [a, b], _ => exact ⟨a, b, rfl, rfl, rfl⟩

end TV.Simplify
