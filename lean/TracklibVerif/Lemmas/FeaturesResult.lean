import TracklibVerif.Lemmas.FeaturesFrame
/-! Read-back of operator results on the specification table: after a void operator returns `temp`, the
output name reads `temp` ("reading a name returns what was last written under it" for operator outputs). -/
set_option linter.unusedSectionVars false
namespace TV.Features
variable {V : Type} [Inhabited V] {n : Nat}
open Tbl

/-- all columns of the specification table have one value per observation -/
structure AInv (n : Nat) (a : ATab V) : Prop where
  cols : ∀ p ∈ a.cols, p.2.length = n
  size : a.size = n

theorem ainv_abs {st : St V} (h : Inv n st) : AInv n (abs st) := by
  refine ⟨?_, abs_size h⟩
  intro p hp
  simp only [abs, List.mem_map] at hp
  obtain ⟨q, _, rfl⟩ := hp
  simp [colAt_length, h.size]

theorem lookup_mem (cols : List (String × List V)) (nm : String) (c : List V) (h : lookup cols nm = some c) :
    ∃ p ∈ cols, p.2 = c := by
  unfold lookup at h
  cases hf : cols.find? (fun p => p.1 == nm) with
  | none => rw [hf] at h; cases h
  | some p =>
    rw [hf] at h
    exact ⟨p, List.mem_of_find?_eq_some hf, by simpa using h⟩

theorem bind_ok {σ α β : Type} {m : M σ α} {f : α → M σ β} {s s' : σ} {x : β}
    (h : (m >>= f) s = (.ok x, s')) : ∃ y s1, m s = (.ok y, s1) ∧ f y s1 = (.ok x, s') := by
  have h' : M.bind m f s = (.ok x, s') := h
  unfold M.bind at h'
  cases hm : m s with
  | mk r s1 =>
    rw [hm] at h'
    cases r with
    | error e => simp at h'
    | ok y => exact ⟨y, s1, rfl, h'⟩

theorem lookup_replaceCol_self (cols : List (String × List V)) (nm : String) (c0 c : List V)
    (h : lookup cols nm = some c0) : lookup (replaceCol cols nm c) nm = some c := by
  rw [lookup_replaceCol]; simp [h]

theorem splice_step (col arr : List V) (s len : Nat) (hs : s < arr.length) (hc : s < col.length) :
    (col.set s arr[s]).take (s + 1) ++ (arr.drop (s + 1)).take len ++ (col.set s arr[s]).drop (s + 1 + len)
      = col.take s ++ (arr.drop s).take (len + 1) ++ col.drop (s + (len + 1)) := by
  have hset : col.set s arr[s] = col.take s ++ arr[s] :: col.drop (s + 1) := by
    rw [List.set_eq_take_append_cons_drop]; simp [hc]
  have hdrop : arr.drop s = arr[s] :: arr.drop (s + 1) := List.drop_eq_getElem_cons hs
  have hlen : (col.take s).length = s := by rw [List.length_take]; omega
  have e1 : (col.take s ++ arr[s] :: col.drop (s + 1)).take (s + 1) = col.take s ++ [arr[s]] := by
    rw [List.take_append, hlen, List.take_of_length_le (by omega)]
    simp
  have e2 : (col.take s ++ arr[s] :: col.drop (s + 1)).drop (s + 1 + len) = col.drop (s + (len + 1)) := by
    rw [List.drop_append, hlen]
    have : s + 1 + len - s = len + 1 := by omega
    rw [this, List.drop_of_length_le (by rw [hlen]; omega)]
    simp [List.drop_drop]
    congr 1; omega
  rw [hset, e1, e2]
  conv => rhs; rw [hdrop, List.take_succ_cons]
  simp only [List.append_assoc, List.cons_append, List.nil_append]

/-- the loop of addListToAF over the indices `s, …, s+len-1` -/
theorem addList_loop (nm : String) (arr : List V) (hr : reserved nm = false) (len : Nat) :
    ∀ (s : Nat) (a : ATab V) (col : List V), lookup a.cols nm = some col → s + len ≤ col.length → s + len ≤ arr.length →
      ∃ a', M.forEach (List.range' s len) (fun i => match arr[i]? with
          | some v => setObsA nm i v
          | none => (M.throw .index : M (ATab V) Unit)) a = (.ok (), a')
        ∧ lookup a'.cols nm = some (col.take s ++ (arr.drop s).take len ++ col.drop (s + len)) := by
  induction len with
  | zero =>
    intro s a col hl _ _
    refine ⟨a, rfl, ?_⟩
    simp [hl]
  | succ len ih =>
    intro s a col hl h1 h2
    have hs : s < arr.length := by omega
    have hc : s < col.length := by omega
    simp only [List.range', M.forEach]
    show ∃ a', M.bind _ _ a = _ ∧ _
    unfold M.bind
    simp only [List.getElem?_eq_getElem hs]
    rw [setObsA_ok a nm s arr[s] col hr hl hc]
    simp only
    have hl' := lookup_replaceCol_self a.cols nm col (col.set s arr[s]) hl
    obtain ⟨a', e1, e2⟩ := ih (s + 1) { a with cols := replaceCol a.cols nm (col.set s arr[s]) } (col.set s arr[s]) hl'
      (by rw [List.length_set]; omega) (by omega)
    refine ⟨a', e1, ?_⟩
    rw [e2, splice_step col arr s len hs hc]

/-- utils.addListToAF writes the whole list under the name -/
theorem addListToAF_spec (nm : String) (arr : List V) (hr : reserved nm = false) (a : ATab V) (col : List V)
    (hl : lookup a.cols nm = some col) (hc : col.length = a.size) (ha : arr.length = a.size) :
    ∃ a', addListToAF (σ := ATab V) nm arr a = (.ok (), a') ∧ lookup a'.cols nm = some arr := by
  obtain ⟨a', e1, e2⟩ := addList_loop nm arr hr a.size 0 a col hl (by omega) (by omega)
  refine ⟨a', ?_, ?_⟩
  · unfold addListToAF
    show M.bind (fun a => (Except.ok a.size, a)) _ a = _
    unfold M.bind
    simp only [List.range_eq_range']
    exact e1
  · rw [e2]
    simp only [List.take_zero, List.nil_append, List.drop_zero, Nat.zero_add]
    rw [List.take_of_length_le (by omega), List.drop_of_length_le (by omega), List.append_nil]

/-! read-only computations -/

/-- `m` never changes the table -/
def RO {α : Type} (m : M (ATab V) α) : Prop := ∀ s, (m s).2 = s

theorem ro_pure {α : Type} (x : α) : RO (V := V) (pure x) := fun _ => rfl
theorem ro_throw {α : Type} (e : Err) : RO (V := V) (M.throw e : M (ATab V) α) := fun _ => rfl
theorem ro_ofExcept {α : Type} (r : Except Err α) : RO (V := V) (M.ofExcept r : M (ATab V) α) := fun _ => rfl
theorem ro_bind {α β : Type} {m : M (ATab V) α} {f : α → M (ATab V) β} (h1 : RO m) (h2 : ∀ x, RO (f x)) :
    RO (m >>= f) := by
  intro s
  show (M.bind m f s).2 = s
  unfold M.bind
  have := h1 s
  cases hm : m s with
  | mk r s1 =>
    rw [hm] at this
    simp only at this
    subst this
    cases r with
    | error e => rfl
    | ok y => exact h2 y s1
theorem ro_getObs (o : Ops V) (nm : String) (i : Nat) : RO (getObsA o nm i) := by
  intro a
  have := (frame_getObs (T := fun _ => False) o nm i a).1
  unfold getObsA
  split
  · split <;> rfl
  · split
    · rfl
    · split
      · rfl
      · split
        · rfl
        · split <;> rfl

theorem mapL_ro {α β : Type} (l : List α) (f : α → M (ATab V) β) (h : ∀ x, RO (f x)) (s : ATab V) :
    (M.mapL l f s).2 = s ∧ ∀ t, (M.mapL l f s).1 = .ok t → t.length = l.length := by
  induction l with
  | nil => exact ⟨rfl, fun t ht => by cases ht; rfl⟩
  | cons x xs ih =>
    unfold M.mapL
    show (M.bind (f x) _ s).2 = s ∧ ∀ t, (M.bind (f x) _ s).1 = .ok t → _
    unfold M.bind
    have h1 := h x s
    cases hf : f x s with
    | mk r s1 =>
      rw [hf] at h1
      simp only at h1
      subst h1
      cases r with
      | error e => exact ⟨rfl, fun t ht => by cases ht⟩
      | ok b =>
        simp only
        show (M.bind (M.mapL xs f) _ s1).2 = s1 ∧ ∀ t, (M.bind (M.mapL xs f) _ s1).1 = .ok t → _
        unfold M.bind
        obtain ⟨i1, i2⟩ := ih
        cases hm : M.mapL xs f s1 with
        | mk r2 s2 =>
          rw [hm] at i1 i2
          simp only at i1
          subst i1
          cases r2 with
          | error e => exact ⟨rfl, fun t ht => by cases ht⟩
          | ok bs =>
            refine ⟨rfl, fun t ht => ?_⟩
            have : t = b :: bs := by
              have : (Except.ok (b :: bs) : Except Err (List β)) = .ok t := ht
              cases this; rfl
            rw [this, List.length_cons, i2 bs rfl, List.length_cons]

/-- a successful `createAnalyticalFeature(out)` (scalar initialiser): `out` is a listed feature with a full column -/
theorem createA_ok_inv (out : String) (z : V) (a a1 : ATab V) (u : Unit) (hA : AInv n a)
    (h : createA out (.scalar z) a = (.ok u, a1)) :
    reserved out = false ∧ n ≠ 0 ∧ AInv n a1 ∧ ∃ col, lookup a1.cols out = some col ∧ col.length = n := by
  unfold createA at h
  cases hr : reserved out with
  | true => simp [hr] at h
  | false =>
    simp only [hr, Bool.false_eq_true, if_false] at h
    cases hs : (a.size == 0) with
    | true => simp [hs] at h
    | false =>
      simp only [hs, Bool.false_eq_true, if_false] at h
      have hn : n ≠ 0 := by rw [← hA.size]; simpa using hs
      cases hh : hasA a out with
      | true =>
        simp only [hh, if_true] at h
        have : a1 = a := by cases h; rfl
        subst this
        have hl : (lookup a1.cols out).isSome = true := by simpa [hasA, hr] using hh
        cases hc : lookup a1.cols out with
        | none => rw [hc] at hl; cases hl
        | some col =>
          obtain ⟨p, hp, rfl⟩ := lookup_mem _ _ _ hc
          exact ⟨rfl, hn, hA, _, rfl, hA.cols p hp⟩
      | false =>
        simp only [hh, Bool.false_eq_true, if_false] at h
        have hl : lookup a.cols out = none := by
          cases hc : lookup a.cols out with
          | none => rfl
          | some c => simp [hasA, hc] at hh
        have : a1 = { a with cols := a.cols ++ [(out, List.replicate a.size z)] } := by cases h; rfl
        subst this
        refine ⟨rfl, hn, ⟨?_, hA.size⟩, List.replicate a.size z, ?_, by simp [hA.size]⟩
        · intro p hp
          simp only [List.mem_append, List.mem_cons, List.not_mem_nil, or_false] at hp
          rcases hp with hp | rfl
          · exact hA.cols p hp
          · simp [hA.size]
        · rw [lookup_append_new _ _ _ _ hl]; simp

/-- the common shape of the void operators: create the output, compute `temp` by reading, write it back -/
theorem void_pattern (out : String) (z : V) (compute : Nat → M (ATab V) (List V))
    (hro : ∀ k, RO (compute k)) (hlen : ∀ k s t, k ≠ 0 → (compute k s).1 = .ok t → t.length = k)
    (a a' : ATab V) (temp : List V) (hA : AInv n a)
    (h : (tblATab.create out (.scalar z) >>= fun _ => tblATab.size >>= fun k => compute k >>= fun t =>
            addListToAF (σ := ATab V) out t >>= fun _ => pure t) a = (.ok temp, a')) :
    reserved out = false ∧ lookup a'.cols out = some temp := by
  obtain ⟨u, a1, hc, h1⟩ := bind_ok h
  obtain ⟨hr, hn, hA1, col, hl, hcl⟩ := createA_ok_inv out z a a1 u hA hc
  obtain ⟨k, a2, hs, h2⟩ := bind_ok h1
  have hk : k = n ∧ a2 = a1 := by
    have : (Except.ok a1.size, a1) = (Except.ok k, a2) := hs
    cases this; exact ⟨hA1.size, rfl⟩
  obtain ⟨hk1, hk2⟩ := hk
  rw [hk1, hk2] at h2
  obtain ⟨t, a3, hm, h3⟩ := bind_ok h2
  have e3 : a3 = a1 := by have := hro n a1; rw [hm] at this; exact this
  have ht : t.length = n := hlen n a1 t hn (by rw [hm])
  rw [e3] at h3
  obtain ⟨u2, a4, hadd, h4⟩ := bind_ok h3
  obtain ⟨a5, e1, e2⟩ := addListToAF_spec out t hr a1 col hl (by rw [hcl, hA1.size]) (by rw [ht, hA1.size])
  rw [e1] at hadd
  have h5 : ((Except.ok t : Except Err (List V)), a4) = (Except.ok temp, a') := h4
  cases h5
  cases hadd
  exact ⟨hr, e2⟩

theorem binaryVoid_result (o : Ops V) (k : BOp) (in1 in2 out : String) (a a' : ATab V) (temp : List V)
    (hA : AInv n a) (h : binaryVoid (σ := ATab V) o k in1 in2 out a = (.ok temp, a')) :
    reserved out = false ∧ lookup a'.cols out = some temp := by
  refine void_pattern out o.zero (fun n => M.mapL (List.range n) fun i =>
    getObsA o in1 i >>= fun x => getObsA o in2 i >>= fun y => M.ofExcept (k.f o x y)) ?_ ?_ a a' temp hA h
  · intro n s
    exact (mapL_ro _ _ (fun i => ro_bind (ro_getObs o in1 i) (fun x => ro_bind (ro_getObs o in2 i) (fun y => ro_ofExcept _))) s).1
  · intro n s t _ ht
    have := (mapL_ro (List.range n) _ (fun i => ro_bind (ro_getObs o in1 i) (fun x => ro_bind (ro_getObs o in2 i) (fun y => ro_ofExcept _))) s).2 t ht
    simpa using this

theorem scalarVoid_result (o : Ops V) (k : SOp) (inp : String) (arg : V) (out : String) (a a' : ATab V)
    (temp : List V) (hA : AInv n a) (h : scalarVoid (σ := ATab V) o k inp arg out a = (.ok temp, a')) :
    reserved out = false ∧ lookup a'.cols out = some temp := by
  refine void_pattern out o.zero (fun n => M.mapL (List.range n) fun i =>
    getObsA o inp i >>= fun x => M.ofExcept (k.f o x arg)) ?_ ?_ a a' temp hA h
  · intro n s
    exact (mapL_ro _ _ (fun i => ro_bind (ro_getObs o inp i) (fun x => ro_ofExcept _)) s).1
  · intro n s t _ ht
    have := (mapL_ro (List.range n) _ (fun i => ro_bind (ro_getObs o inp i) (fun x => ro_ofExcept _)) s).2 t ht
    simpa using this

theorem applyVoid_result (o : Ops V) (f : V → Except Err V) (inp out : String) (a a' : ATab V)
    (temp : List V) (hA : AInv n a) (h : applyVoid (σ := ATab V) o f inp out a = (.ok temp, a')) :
    reserved out = false ∧ lookup a'.cols out = some temp := by
  refine void_pattern out o.zero (fun n => M.mapL (List.range n) fun i =>
    getObsA o inp i >>= fun x => M.ofExcept (f x)) ?_ ?_ a a' temp hA h
  · intro n s
    exact (mapL_ro _ _ (fun i => ro_bind (ro_getObs o inp i) (fun x => ro_ofExcept _)) s).1
  · intro n s t _ ht
    have := (mapL_ro (List.range n) _ (fun i => ro_bind (ro_getObs o inp i) (fun x => ro_ofExcept _)) s).2 t ht
    simpa using this

theorem shiftCircular_result (o : Ops V) (inp : String) (arg : V) (out : String) (a a' : ATab V)
    (temp : List V) (hA : AInv n a) (h : shiftCircular (σ := ATab V) o inp arg out a = (.ok temp, a')) :
    reserved out = false ∧ lookup a'.cols out = some temp := by
  refine void_pattern out o.zero (fun n => M.mapL (List.range n) fun i =>
    (M.ofExcept (o.shiftIdx arg i n) : M (ATab V) Nat) >>= fun j => getObsA o inp j) ?_ ?_ a a' temp hA h
  · intro n s
    exact (mapL_ro _ _ (fun i => ro_bind (ro_ofExcept _) (fun j => ro_getObs o inp j)) s).1
  · intro n s t _ ht
    have := (mapL_ro (List.range n) _ (fun i => ro_bind (ro_ofExcept _) (fun j => ro_getObs o inp j)) s).2 t ht
    simpa using this

theorem foldL_ro_inv {α β : Type} (l : List α) (f : β → α → M (ATab V) β) (I : β → Nat → Prop)
    (h : ∀ b x, RO (f b x)) (hI : ∀ b x s b' k, I b k → (f b x s).1 = .ok b' → I b' (k + 1))
    (init : β) (k0 : Nat) (h0 : I init k0) (s : ATab V) :
    (M.foldL l init f s).2 = s ∧ ∀ r, (M.foldL l init f s).1 = .ok r → I r (k0 + l.length) := by
  induction l generalizing init k0 with
  | nil => exact ⟨rfl, fun r hr => by cases hr; simpa using h0⟩
  | cons x xs ih =>
    unfold M.foldL
    show (M.bind (f init x) _ s).2 = s ∧ ∀ r, (M.bind (f init x) _ s).1 = .ok r → _
    unfold M.bind
    have h1 := h init x s
    have h2 := hI init x s
    cases hf : f init x s with
    | mk r s1 =>
      rw [hf] at h1 h2
      simp only at h1
      subst h1
      cases r with
      | error e => exact ⟨rfl, fun r hr => by cases hr⟩
      | ok b =>
        simp only
        obtain ⟨i1, i2⟩ := ih b (k0 + 1) (h2 b k0 h0 rfl)
        refine ⟨i1, fun r hr => ?_⟩
        have := i2 r hr
        simp only [List.length_cons]
        rw [show k0 + (xs.length + 1) = k0 + 1 + xs.length by omega]
        exact this

theorem unaryTemp_ro (o : Ops V) (k : UOp) (inp : String) (m : Nat) : RO (unaryTemp (σ := ATab V) o k inp m) := by
  cases k with
  | integrator =>
    unfold unaryTemp
    refine ro_bind ?_ (fun _ => ro_pure _)
    intro s
    exact (foldL_ro_inv _ _ (fun _ _ => True) (fun b i => ro_bind (ro_getObs o inp i) (fun _ => ro_pure _))
      (fun _ _ _ _ _ _ _ => trivial) _ 0 trivial s).1
  | differentiator =>
    unfold unaryTemp
    refine ro_bind ?_ (fun vals => ?_)
    · intro s
      exact (mapL_ro _ _ (fun i => ro_bind (ro_getObs o inp i) (fun _ => ro_bind (ro_getObs o inp _) (fun _ => ro_pure _))) s).1
    · split
      · exact ro_throw _
      · exact ro_pure _

theorem unaryTemp_length (o : Ops V) (k : UOp) (inp : String) (m : Nat) (s : ATab V) (t : List V) (hm : m ≠ 0)
    (ht : (unaryTemp (σ := ATab V) o k inp m s).1 = .ok t) : t.length = m := by
  have hne : (m == 0) = false := by simpa using hm
  cases k with
  | integrator =>
    unfold unaryTemp at ht
    have hfold := foldL_ro_inv (List.range' 1 (m - 1))
      (fun (acc : V × List V) i => (Tbl.getObs o inp i : M (ATab V) V) >>= fun v => pure (o.add acc.1 v, o.add acc.1 v :: acc.2))
      (fun b k => b.2.length = k) (fun b i => ro_bind (ro_getObs o inp i) (fun _ => ro_pure _))
      (by
        intro b x s b' k hb hres
        have hres' : (M.bind (Tbl.getObs o inp x : M (ATab V) V) (fun v => M.pure (o.add b.1 v, o.add b.1 v :: b.2)) s).1 = .ok b' := hres
        unfold M.bind at hres'
        cases hg : (Tbl.getObs o inp x : M (ATab V) V) s with
        | mk r s1 =>
          rw [hg] at hres'
          cases r with
          | error e => cases hres'
          | ok v =>
            have : (Except.ok (o.add b.1 v, o.add b.1 v :: b.2) : Except Err (V × List V)) = .ok b' := hres'
            cases this
            simp [hb])
      (o.zero, []) 0 rfl s
    have ht' : (M.bind (M.foldL (List.range' 1 (m - 1)) (o.zero, ([] : List V)) _) _ s).1 = .ok t := ht
    unfold M.bind at ht'
    cases hf : M.foldL (List.range' 1 (m - 1)) (o.zero, ([] : List V)) (fun (acc : V × List V) i =>
      (Tbl.getObs o inp i : M (ATab V) V) >>= fun v => pure (o.add acc.1 v, o.add acc.1 v :: acc.2)) s with
    | mk r s1 =>
      rw [hf] at ht' hfold
      cases r with
      | error e => cases ht'
      | ok r =>
        have hl := hfold.2 r rfl
        have : (Except.ok (if (m == 0) = true then [] else o.zero :: r.2.reverse) : Except Err (List V)) = .ok t := ht'
        cases this
        simp only [hne, Bool.false_eq_true, if_false, List.length_cons, List.length_reverse, hl, List.length_range']
        omega
  | differentiator =>
    unfold unaryTemp at ht
    have hmap := mapL_ro (List.range' 1 (m - 1)) (fun i =>
      (Tbl.getObs o inp i : M (ATab V) V) >>= fun x => (Tbl.getObs o inp (i - 1) : M (ATab V) V) >>= fun y => pure (o.sub x y))
      (fun i => ro_bind (ro_getObs o inp i) (fun _ => ro_bind (ro_getObs o inp _) (fun _ => ro_pure _))) s
    have ht' : (M.bind (M.mapL (List.range' 1 (m - 1)) _) _ s).1 = .ok t := ht
    unfold M.bind at ht'
    cases hf : M.mapL (List.range' 1 (m - 1)) (fun i =>
      (Tbl.getObs o inp i : M (ATab V) V) >>= fun x => (Tbl.getObs o inp (i - 1) : M (ATab V) V) >>= fun y => pure (o.sub x y)) s with
    | mk r s1 =>
      rw [hf] at ht' hmap
      cases r with
      | error e => cases ht'
      | ok vals =>
        have hl := hmap.2 vals rfl
        simp only [hne, Bool.false_eq_true, if_false] at ht'
        have : (Except.ok (o.nan :: vals) : Except Err (List V)) = .ok t := ht'
        cases this
        simp only [List.length_cons, hl, List.length_range']
        omega

theorem unaryVoid_result (o : Ops V) (k : UOp) (inp out : String) (a a' : ATab V) (temp : List V)
    (hA : AInv n a) (h : unaryVoid (σ := ATab V) o k inp out a = (.ok temp, a')) :
    reserved out = false ∧ lookup a'.cols out = some temp :=
  void_pattern out o.zero (fun m => unaryTemp o k inp m) (fun m => unaryTemp_ro o k inp m)
    (fun m s t hm ht => unaryTemp_length o k inp m s t hm ht) a a' temp hA h

end TV.Features
