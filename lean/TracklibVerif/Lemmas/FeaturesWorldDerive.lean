import TracklibVerif.Lemmas.FeaturesWorld
/-! Tracks made of COPIES of observations (`Obs.copy()` = deepcopy: a new object): what `copyEach` builds, what the new
track shows, and that a selection / a repetition of the positions of an aligned track is aligned. -/
set_option linter.unusedSectionVars false
namespace TV.Features
variable {V : Type} [Inhabited V]

/-- two tracks show the same table when, position by position, they refer to equal objects -/
theorem view_eq_of_maps (heap1 heap2 : List (HObs V)) (ids1 ids2 : List Nat) (dico : List (String × Nat))
    (h : ∀ {β : Type} (q : Option (HObs V) → β), ids1.map (fun id => q (heap1[id]?)) = ids2.map (fun id => q (heap2[id]?))) :
    view { heap := heap1, ids := ids1, dico := dico } = view { heap := heap2, ids := ids2, dico := dico } := by
  unfold view
  simp only [St.mk.injEq, true_and]
  exact ⟨h (β := List V) (fun o => (o.map HObs.feats).getD []),
    h (β := V) (fun o => (o.map (fun ob => HObs.coord ob .x)).getD default),
    h (β := V) (fun o => (o.map (fun ob => HObs.coord ob .y)).getD default),
    h (β := V) (fun o => (o.map (fun ob => HObs.coord ob .z)).getD default),
    h (β := V) (fun o => (o.map (fun ob => HObs.coord ob .t)).getD default)⟩

/-- `[o.copy() for o in sel]`: the new objects are `heap.length, heap.length + 1, …` — new names, one per position —, the
old objects are untouched, the `j`-th new object equals the object `sel[j]` -/
theorem copyEach_spec : ∀ (sel : List Nat) (heap : List (HObs V)), (∀ id ∈ sel, id < heap.length) →
    ∃ heap', copyEach sel heap = some (List.range' heap.length sel.length, heap') ∧
      heap'.length = heap.length + sel.length ∧
      (∀ id, id < heap.length → heap'[id]? = heap[id]?) ∧
      (∀ j, j < sel.length → heap'[heap.length + j]? = (sel[j]?).bind (heap[·]?)) := by
  intro sel
  induction sel with
  | nil => intro heap _; exact ⟨heap, rfl, rfl, fun _ _ => rfl, fun j hj => by simp at hj⟩
  | cons id rest ih =>
    intro heap hv
    have hid : id < heap.length := hv id (by simp)
    have hob : heap[id]? = some heap[id] := List.getElem?_eq_getElem hid
    have hv1 : ∀ id' ∈ rest, id' < (heap ++ [heap[id]]).length := by
      intro id' hm; rw [List.length_append]; have := hv id' (by simp [hm]); simp; omega
    obtain ⟨heap', h1, h2, h3, h4⟩ := ih (heap ++ [heap[id]]) hv1
    have hl : (heap ++ [heap[id]]).length = heap.length + 1 := by simp
    refine ⟨heap', ?_, ?_, ?_, ?_⟩
    · simp only [copyEach, allocCopy, hob, Option.map_some, h1, hl, List.length_cons]
      rw [List.range'_succ]
    · rw [h2, hl, List.length_cons]; omega
    · intro id' hlt
      rw [h3 id' (by rw [hl]; omega), List.getElem?_append_left hlt]
    · intro j hj
      cases j with
      | zero =>
        rw [Nat.add_zero, h3 heap.length (by rw [hl]; omega)]
        simp [hob]
      | succ j =>
        have hj' : j < rest.length := by simpa using hj
        have := h4 j hj'
        rw [hl] at this
        rw [show heap.length + (j + 1) = heap.length + 1 + j by omega, this]
        simp only [List.getElem?_cons_succ]
        rw [List.getElem?_eq_getElem hj']
        simp only [Option.bind_some]
        exact List.getElem?_append_left (hv rest[j] (by simp))

/-- the track made of the copies shows, position by position, what the objects copied show -/
theorem copies_maps {sel : List Nat} {heap heap' : List (HObs V)}
    (h4 : ∀ j, j < sel.length → heap'[heap.length + j]? = (sel[j]?).bind (heap[·]?)) {β : Type} (q : Option (HObs V) → β) :
    (List.range' heap.length sel.length).map (fun id => q (heap'[id]?)) = sel.map (fun id => q (heap[id]?)) := by
  apply List.ext_getElem?
  intro j
  simp only [List.getElem?_map]
  by_cases hj : j < sel.length
  · rw [List.getElem?_range' hj, List.getElem?_eq_getElem hj]
    simp only [Option.map_some, Nat.one_mul, h4 j hj, List.getElem?_eq_getElem hj, Option.bind_some]
  · rw [List.getElem?_eq_none (by simpa using Nat.le_of_not_lt hj), List.getElem?_eq_none (Nat.le_of_not_lt hj)]
    rfl

/-- a track whose positions are taken (in any order, with repetitions) among the positions of an aligned track shows an
aligned table (of as many observations as positions) -/
theorem inv_select {n : Nat} {heap : List (HObs V)} {ids : List Nat} {dico : List (String × Nat)}
    (h : Inv n (view { heap := heap, ids := ids, dico := dico })) (sel : List Nat) (hsub : ∀ id ∈ sel, id ∈ ids) :
    Inv sel.length (view { heap := heap, ids := sel, dico := dico }) := by
  refine ⟨h.enum, h.nodup, ?_, by simp [view], by simp [view], by simp [view], by simp [view], by simp [view]⟩
  intro r hr
  simp only [view, List.mem_map] at hr
  obtain ⟨id, hm, rfl⟩ := hr
  exact h.rows _ (List.mem_map_of_mem (hsub id hm))

theorem nodup_pyInsert (l : List Nat) (p x : Nat) (hnd : l.Nodup) (hx : x ∉ l) : (pyInsert l p x).Nodup := by
  unfold pyInsert
  have hsplit : l.take p ++ l.drop p = l := List.take_append_drop p l
  rw [← hsplit] at hnd hx
  rw [List.nodup_append] at hnd ⊢
  obtain ⟨h1, h2, h3⟩ := hnd
  refine ⟨h1, List.nodup_cons.mpr ⟨fun hm => hx (List.mem_append_right _ hm), h2⟩, ?_⟩
  intro a ha b hb
  rcases List.mem_cons.mp hb with rfl | hb
  · intro e; exact hx (List.mem_append_left _ (e ▸ ha))
  · exact h3 a ha b hb

theorem mem_pyInsert {l : List Nat} {p x a : Nat} (h : a ∈ pyInsert l p x) : a = x ∨ a ∈ l := by
  unfold pyInsert at h
  rcases List.mem_append.mp h with h | h
  · exact .inr (List.mem_of_mem_take h)
  · rcases List.mem_cons.mp h with h | h
    · exact .inl h
    · exact .inr (List.mem_of_mem_drop h)

theorem length_pyInsert (l : List Nat) (p x : Nat) : (pyInsert l p x).length = l.length + 1 := by
  unfold pyInsert
  simp only [List.length_append, List.length_cons, List.length_take, List.length_drop]
  omega

/-- what a track shows depends only on the objects it refers to -/
theorem view_congr (heap heap' : List (HObs V)) (ids : List Nat) (dico : List (String × Nat))
    (h : ∀ id ∈ ids, heap'[id]? = heap[id]?) :
    view { heap := heap', ids := ids, dico := dico } = view { heap := heap, ids := ids, dico := dico } := by
  unfold view
  simp only [St.mk.injEq, true_and]
  refine ⟨?_, ?_, ?_, ?_, ?_⟩ <;>
    (apply List.map_congr_left; intro id hm; simp only [featsAt, coordAt, h id hm])


theorem copyMemo_eq_copyEach : ∀ (ids : List Nat) (memo : List (Nat × Nat)) (heap : List (HObs V)), ids.Nodup →
    (∀ id ∈ ids, memo.lookup id = none) → copyMemo ids memo heap = copyEach ids heap := by
  intro ids
  induction ids with
  | nil => intro _ _ _ _; rfl
  | cons id rest ih =>
    intro memo heap hnd hm
    obtain ⟨hni, hnd'⟩ := List.nodup_cons.mp hnd
    simp only [copyMemo, copyEach, hm id (by simp)]
    cases allocCopy heap id with
    | none => rfl
    | some r =>
      obtain ⟨nid, h1⟩ := r
      simp only
      rw [ih _ _ hnd' ?_]
      intro id' hm'
      have hne : (id' == id) = false := by
        simp only [beq_eq_false_iff_ne, ne_eq]
        intro e; exact hni (e ▸ hm')
      simp only [List.lookup_cons, hne]
      exact hm id' (by simp [hm'])


end TV.Features
