import TracklibVerif.Model.Partition
import Mathlib.Algebra.Order.Monoid.Defs
namespace TV.Partition
variable {α : Type} [AddCommMonoid α] [LinearOrder α] [IsOrderedAddMonoid α]

def lt' (a b : α) : Bool := decide (a < b)

theorem scan_min (f : Nat → α) (lo n : Nat) (acc : α × Option Nat) :
    (scan lt' f lo n acc).1 ≤ acc.1 ∧ (∀ k, lo ≤ k → k < lo + n → (scan lt' f lo n acc).1 ≤ f k) ∧
    ((scan lt' f lo n acc).1 = acc.1 ∨ ∃ k, lo ≤ k ∧ k < lo + n ∧ (scan lt' f lo n acc).1 = f k) := by
  induction n with
  | zero => exact ⟨le_refl _, fun k h1 h2 => by omega, Or.inl rfl⟩
  | succ n ih =>
    obtain ⟨h1, h2, h3⟩ := ih
    simp only [scan]
    by_cases hb : lt' (f (lo + n)) (scan lt' f lo n acc).1 = true
    · simp only [hb, if_true]
      have hlt : f (lo + n) < (scan lt' f lo n acc).1 := by simpa [lt'] using hb
      refine ⟨le_trans (le_of_lt hlt) h1, ?_, Or.inr ⟨lo + n, by omega, by omega, rfl⟩⟩
      intro k hk1 hk2
      by_cases hk : k = lo + n
      · rw [hk]
      · exact le_trans (le_of_lt hlt) (h2 k hk1 (by omega))
    · simp only [hb]
      have hge : (scan lt' f lo n acc).1 ≤ f (lo + n) := by
        have : ¬ f (lo + n) < (scan lt' f lo n acc).1 := by simpa [lt'] using hb
        exact not_lt.mp this
      refine ⟨h1, ?_, ?_⟩
      · intro k hk1 hk2
        by_cases hk : k = lo + n
        · rw [hk]; exact hge
        · exact h2 k hk1 (by omega)
      · rcases h3 with h | ⟨k, a, b, c⟩
        · exact Or.inl h
        · exact Or.inr ⟨k, a, by omega, c⟩

/-- increasing chains i = p0 < p1 < … < pr = j with the sum of their segment costs -/
inductive Chain (cost : Nat → Nat → α) : Nat → Nat → α → Prop
  | single {i j} : i < j → Chain cost i j (cost i j)
  | cons {i k j c} : i < k → Chain cost k j c → Chain cost i j (cost i k + c)

theorem chain_lt {cost : Nat → Nat → α} {i j : Nat} {c : α} (h : Chain cost i j c) : i < j := by
  induction h with
  | single h => exact h
  | cons h _ ih => omega

theorem chain_append {cost : Nat → Nat → α} {i k j : Nat} {c1 c2 : α}
    (h1 : Chain cost i k c1) (h2 : Chain cost k j c2) : Chain cost i j (c1 + c2) := by
  induction h1 with
  | single h => exact Chain.cons h h2
  | cons h _ ih => rw [add_assoc]; exact Chain.cons h (ih h2)

/-- C12-T2 (minimise, lower bound): D[i,j] is below the cost of every chain -/
theorem opt_le (cost : Nat → Nat → α) :
    ∀ f i j c, Chain cost i j c → j - i ≤ f + 1 → (opt lt' (· + ·) cost f i j).1 ≤ c := by
  intro f
  induction f with
  | zero =>
    intro i j c h hf
    cases h with
    | single h => simp [opt]
    | cons h h' => have := chain_lt h'; omega
  | succ f ih =>
    intro i j c h hf
    simp only [opt]
    obtain ⟨s1, s2, _⟩ := scan_min (fun k => (opt lt' (· + ·) cost f i k).1 + (opt lt' (· + ·) cost f k j).1) (i+1) (j - i - 1) (cost i j, none)
    cases h with
    | single h => exact s1
    | @cons _ k _ c' hik h' =>
      have hkj := chain_lt h'
      refine le_trans (s2 k (by omega) (by omega)) ?_
      exact add_le_add (ih i k _ (Chain.single hik) (by omega)) (ih k j c' h' (by omega))

/-- C12-T2 (achievability): some chain realises D[i,j] -/
theorem opt_chain (cost : Nat → Nat → α) :
    ∀ f i j, i < j → Chain cost i j (opt lt' (· + ·) cost f i j).1 := by
  intro f
  induction f with
  | zero => intro i j h; simp only [opt]; exact Chain.single h
  | succ f ih =>
    intro i j h
    simp only [opt]
    obtain ⟨_, _, s3⟩ := scan_min (fun k => (opt lt' (· + ·) cost f i k).1 + (opt lt' (· + ·) cost f k j).1) (i+1) (j - i - 1) (cost i j, none)
    rcases s3 with h' | ⟨k, a, b, c⟩
    · rw [h']; exact Chain.single h
    · rw [c]; exact chain_append (ih i k (by omega)) (ih k j (by omega))
end TV.Partition
