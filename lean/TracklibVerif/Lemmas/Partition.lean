import TracklibVerif.Lemmas.PartitionTable
import Mathlib.Algebra.Order.Monoid.Defs
/-! Optimality of the interval recursion `opt`, for both directions at once, over a linearly ordered
additive commutative monoid (ℕ, ℤ, ℚ, ℝ are instances), and what `backtracking` reconstructs. -/
namespace TV.Partition

/-! ### chains as lists -/

/-- consecutive elements strictly increase -/
def Inc : List Nat → Prop
  | a :: b :: rest => a < b ∧ Inc (b :: rest)
  | _ => True

/-- last element of `i :: l` -/
def lastOf : Nat → List Nat → Nat
  | i, [] => i
  | _, p :: ps => lastOf p ps

theorem lastOf_append (i : Nat) (l1 l2 : List Nat) : lastOf i (l1 ++ l2) = lastOf (lastOf i l1) l2 := by
  induction l1 generalizing i with
  | nil => rfl
  | cons p ps ih => exact ih p

theorem inc_le_last : ∀ (l : List Nat) (i : Nat), Inc (i :: l) → i ≤ lastOf i l := by
  intro l
  induction l with
  | nil => intro i _; exact Nat.le_refl _
  | cons p ps ih => intro i h; exact Nat.le_trans (Nat.le_of_lt h.1) (ih p h.2)

theorem chain_le_last (a : Nat) (t : List Nat) (h : Inc (a :: t)) (x : Nat) (hx : x ∈ a :: t) : x ≤ lastOf a t := by
  induction t generalizing a with
  | nil => simp at hx; subst hx; exact Nat.le_refl _
  | cons p ps ih =>
    rcases List.mem_cons.mp hx with rfl | hx
    · exact inc_le_last (p :: ps) x h
    · exact ih p h.2 hx

theorem inc_append : ∀ (l1 l2 : List Nat) (i : Nat), Inc (i :: l1) → Inc (lastOf i l1 :: l2) → Inc (i :: (l1 ++ l2)) := by
  intro l1
  induction l1 with
  | nil => intro l2 i _ h; exact h
  | cons p ps ih => intro l2 i h1 h2; exact ⟨h1.1, ih l2 p h1.2 h2⟩

theorem inc_pairwise : ∀ (l : List Nat), Inc l ↔ l.Pairwise (· < ·) := by
  intro l
  induction l with
  | nil => simp [Inc]
  | cons a l ih =>
    cases l with
    | nil => simp [Inc]
    | cons b r =>
      simp only [Inc, ih, List.pairwise_cons]
      constructor
      · rintro ⟨hab, hb, hr⟩
        refine ⟨?_, hb, hr⟩
        intro x hx
        rcases List.mem_cons.mp hx with rfl | hx
        · exact hab
        · exact Nat.lt_trans hab (hb x hx)
      · rintro ⟨ha, hb, hr⟩
        exact ⟨ha b List.mem_cons_self, hb, hr⟩

theorem lastOf_getLast? (i : Nat) (l : List Nat) : (i :: l).getLast? = some (lastOf i l) := by
  induction l generalizing i with
  | nil => rfl
  | cons p ps ih => rw [List.getLast?_cons_cons]; exact ih p

section cost
variable {α : Type} [AddCommMonoid α]

theorem pathCost_append (C : Nat → Nat → α) : ∀ (l1 l2 : List Nat) (i : Nat),
    pathCost 0 C (i :: (l1 ++ l2)) = pathCost 0 C (i :: l1) + pathCost 0 C (lastOf i l1 :: l2) := by
  intro l1
  induction l1 with
  | nil => intro l2 i; simp [pathCost, lastOf]
  | cons p ps ih =>
    intro l2 i
    simp only [List.cons_append, pathCost, lastOf]
    rw [ih l2 p, add_assoc]

theorem pathCost_congr (C C' : Nat → Nat → α) (n : Nat) (h : ∀ a b, a < b → b ≤ n → C a b = C' a b) :
    ∀ (l : List Nat) (i : Nat), Inc (i :: l) → lastOf i l ≤ n → pathCost 0 C (i :: l) = pathCost 0 C' (i :: l) := by
  intro l
  induction l with
  | nil => intro i _ _; rfl
  | cons p ps ih =>
    intro i hinc hlast
    simp only [pathCost]
    rw [ih p hinc.2 hlast, h i p hinc.1 (Nat.le_trans (inc_le_last ps p hinc.2) hlast)]
end cost

/-! ### a direction: `better` is the strict test, `R a b` reads "a is at least as good as b" -/

structure Dir {α : Type} [Add α] (better : α → α → Bool) (R : α → α → Prop) : Prop where
  refl : ∀ a, R a a
  trans : ∀ {a b c}, R a b → R b c → R a c
  of_better : ∀ {a b}, better a b = true → R a b
  of_not_better : ∀ {a b}, better a b = false → R b a
  add : ∀ {a b c d}, R a b → R c d → R (a + c) (b + d)

section inst
variable {α : Type} [AddCommMonoid α] [LinearOrder α] [IsOrderedAddMonoid α]

theorem dir_min : Dir (better (α := α) 0) (· ≤ ·) where
  refl := le_refl
  trans := le_trans
  of_better := by intro a b h; simp [better] at h; exact le_of_lt h
  of_not_better := by intro a b h; simp [better] at h; exact h
  add := add_le_add

theorem dir_max : Dir (better (α := α) 1) (· ≥ ·) where
  refl := le_refl
  trans := fun h1 h2 => le_trans h2 h1
  of_better := by intro a b h; simp [better] at h; exact le_of_lt h
  of_not_better := by intro a b h; simp [better] at h; exact h
  add := fun h1 h2 => add_le_add h1 h2
end inst

section dirAdd
variable {α : Type} [Add α] {better : α → α → Bool} {R : α → α → Prop}

/-- the scan returns something at least as good as its start value and as every candidate -/
theorem scan_best (hd : Dir better R) (f : Nat → α) (lo n : Nat) (acc : α × Option Nat) :
    R (scan better f lo n acc).1 acc.1 ∧ (∀ k, lo ≤ k → k < lo + n → R (scan better f lo n acc).1 (f k)) := by
  induction n with
  | zero => exact ⟨hd.refl _, fun k h1 h2 => by omega⟩
  | succ n ih =>
    obtain ⟨h1, h2⟩ := ih
    simp only [scan]
    cases hb : better (f (lo + n)) (scan better f lo n acc).1 with
    | true =>
      simp only [if_true]
      have hR := hd.of_better hb
      refine ⟨hd.trans hR h1, ?_⟩
      intro k hk1 hk2
      by_cases hk : k = lo + n
      · rw [hk]; exact hd.refl _
      · exact hd.trans hR (h2 k hk1 (by omega))
    | false =>
      simp only [Bool.false_eq_true, if_false]
      have hR := hd.of_not_better hb
      refine ⟨h1, ?_⟩
      intro k hk1 hk2
      by_cases hk : k = lo + n
      · rw [hk]; exact hR
      · exact h2 k hk1 (by omega)

theorem opt_le_cost (hd : Dir better R) (C : Nat → Nat → α) (f i j : Nat) :
    R (opt better (· + ·) C f i j).1 (C i j) := by
  cases f with
  | zero => exact hd.refl _
  | succ f => exact (scan_best hd _ _ _ _).1

end dirAdd

section dir
variable {α : Type} [AddCommMonoid α] {better : α → α → Bool} {R : α → α → Prop}

/-- **bound**: `D[i,j]` is at least as good as the summed cost of every increasing chain from `i` to `j` -/
theorem opt_bound (hd : Dir better R) (C : Nat → Nat → α) :
    ∀ f i l, l ≠ [] → Inc (i :: l) → lastOf i l - i ≤ f + 1 →
      R (opt better (· + ·) C f i (lastOf i l)).1 (pathCost 0 C (i :: l)) := by
  intro f
  induction f with
  | zero =>
    intro i l hne hinc hf
    cases l with
    | nil => exact absurd rfl hne
    | cons p ps =>
      cases ps with
      | nil => simp only [lastOf, pathCost, add_zero, opt]; exact hd.refl _
      | cons q rest =>
        have h1 := hinc.1
        have h2 := hinc.2.1
        have h3 := inc_le_last rest q hinc.2.2
        simp only [lastOf] at hf
        omega
  | succ f ih =>
    intro i l hne hinc hf
    cases l with
    | nil => exact absurd rfl hne
    | cons p ps =>
      cases ps with
      | nil => simp only [lastOf, pathCost, add_zero]; exact opt_le_cost hd C _ i p
      | cons q rest =>
        have h1 := hinc.1
        have h2 := hinc.2.1
        have h3 := inc_le_last rest q hinc.2.2
        simp only [lastOf] at hf h3 ⊢
        have hs := (scan_best hd (fun k => (opt better (· + ·) C f i k).1 + (opt better (· + ·) C f k (lastOf q rest)).1)
          (i + 1) (lastOf q rest - i - 1) (C i (lastOf q rest), none)).2 p (by omega) (by omega)
        have hrest := ih p (q :: rest) (by simp) hinc.2 (by simp only [lastOf]; omega)
        simp only [lastOf] at hrest
        have hfirst := opt_le_cost hd C f i p
        show R (opt better (· + ·) C (f + 1) i (lastOf q rest)).1 (C i p + pathCost 0 C (p :: q :: rest))
        exact hd.trans hs (hd.add hfirst hrest)
end dir

/-! ### what `backtracking` reconstructs -/
section bt
variable {α : Type} [AddCommMonoid α]

omit [AddCommMonoid α] in
theorem enc_neg (o : Option Nat) : enc (-1) o < 0 ↔ o = none := by
  cases o with
  | none => simp [enc]
  | some k => simp [enc]

/-- On a table `M` holding the split points of `opt`, `backtracking(M, i, j)` (with enough fuel) returns `i`
followed by interior points such that, closed by `j`, the list is an increasing chain from `i` to `j` whose
summed cost is exactly `D[i,j]`. -/
theorem bt_spec (C : Nat → Nat → α) (bt : α → α → Bool) (N : Nat) (M : Nat → Nat → Int)
    (hM : ∀ a b, a < b → b < N → M a b = enc (-1) (opt bt (· + ·) C N a b).2) :
    ∀ fuel i j, i < j → j < N → j - i ≤ fuel →
      ∃ mids, backtracking M fuel i j = i :: mids ∧ Inc (i :: (mids ++ [j])) ∧
        pathCost 0 C (i :: (mids ++ [j])) = (opt bt (· + ·) C N i j).1 := by
  intro fuel
  induction fuel with
  | zero => intro i j h1 _ h3; omega
  | succ fuel ih =>
    intro i j hij hjN hfuel
    have hunf := opt_unfold bt (· + ·) C N i j (by omega)
    have harg := scan_arg bt (fun k => (opt bt (· + ·) C N i k).1 + (opt bt (· + ·) C N k j).1) (i + 1) (j - i - 1) (C i j, none)
    simp only [backtracking]
    by_cases hstop : M i j < 0 ∨ (if i ≤ j then j - i else i - j) ≤ 1
    · rw [if_pos hstop]
      refine ⟨[], rfl, ⟨hij, trivial⟩, ?_⟩
      simp only [List.nil_append, pathCost, add_zero]
      rcases hstop with hneg | hspan
      · rw [hM i j hij hjN, enc_neg] at hneg
        rcases harg with h | ⟨k, _, _, h⟩
        · rw [hunf, h]
        · rw [hunf, h] at hneg; cases hneg
      · rw [if_pos (Nat.le_of_lt hij)] at hspan
        rw [opt_adjacent bt (· + ·) C N i j hspan]
    · rw [if_neg hstop]
      have hnn : ¬ M i j < 0 := fun h => hstop (Or.inl h)
      have hspan : ¬ (j - i ≤ 1) := by
        intro h; apply hstop; right; rw [if_pos (Nat.le_of_lt hij)]; exact h
      rw [hM i j hij hjN, enc_neg] at hnn
      rcases harg with h | ⟨k, hk1, hk2, h⟩
      · exfalso; apply hnn; rw [hunf, h]
      · have hid : (M i j).toNat = k := by
          rw [hM i j hij hjN, hunf, h]; simp [enc]
        simp only [hid]
        obtain ⟨m1, e1, inc1, c1⟩ := ih i k (by omega) (by omega) (by omega)
        obtain ⟨m2, e2, inc2, c2⟩ := ih k j (by omega) hjN (by omega)
        refine ⟨m1 ++ k :: m2, by rw [e1, e2]; rfl, ?_, ?_⟩
        · have e : m1 ++ k :: m2 ++ [j] = (m1 ++ [k]) ++ (m2 ++ [j]) := by simp
          rw [e]
          apply inc_append _ _ _ inc1
          rw [lastOf_append]; exact inc2
        · have e : m1 ++ k :: m2 ++ [j] = (m1 ++ [k]) ++ (m2 ++ [j]) := by simp
          rw [e, pathCost_append, lastOf_append, c1]
          simp only [lastOf]
          rw [c2, hunf, h]
end bt
end TV.Partition
