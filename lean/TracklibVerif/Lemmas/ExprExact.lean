import TracklibVerif.Lemmas.ExprPointwise
/-! An exact scalar with NaN (`Option Rat`, `none` = NaN) satisfying the `Laws` of
`Lemmas/ExprPointwise.lean`: the hypotheses of `denoteM_pointwise` are those of ordinary arithmetic. -/
namespace TV.Expr
open Scalar

def qlift (f : Rat → Rat → Rat) : Option Rat → Option Rat → Option Rat
  | some x, some y => some (f x y)
  | _, _ => none

instance exactQ : Scalar (Option Rat) where
  add := qlift (· + ·)
  sub := qlift (· - ·)
  mul := qlift (· * ·)
  div := fun a b => match a, b with
    | some x, some y => if y = 0 then none else some (x / y)
    | _, _ => none
  neg := Option.map (fun x => -x)
  pow := fun a b => match a, b with
    | some x, some y => if y.den = 1 ∧ 0 ≤ y.num then .ok (some (x ^ y.num.toNat)) else .error "err:unsupported"
    | _, _ => .ok none
  sqrt := fun _ => .error "err:unsupported"
  abs := Option.map (fun x => if x < 0 then -x else x)
  lt := fun a b => match a, b with
    | some x, some y => decide (x < y)
    | _, _ => false
  isZero := fun a => a == some 0
  isNaN := Option.isNone
  nan := none
  ofDec := fun m k => if k = 0 then some (m : Rat) else some ((m : Rat) / ((10 ^ k : Nat) : Rat))
  inf := none

theorem exactQ_laws : Laws (Option Rat) where
  add_comm := by
    intro x s
    cases x <;> cases s <;> simp [Scalar.add, qlift, Rat.add_comm]
  mul_comm := by
    intro x s
    cases x <;> cases s <;> simp [Scalar.mul, qlift, Rat.mul_comm]

end TV.Expr
