import TracklibVerif.Lemmas.Geo
/-! Helper lemmas for C14, Lambert-93: exact recovery of the longitude and of the isometric latitude by
`__projFromLambert93 ∘ _projToLambert93`, and the original latitude as a fixed point of the loop body. -/
namespace TV.Geo
open Real

@[simp] theorem rt_tan : realTrig.tan = Real.tan := rfl
@[simp] theorem rt_atan : realTrig.atan = Real.arctan := rfl
@[simp] theorem rt_log : realTrig.log = Real.log := rfl
@[simp] theorem rt_exp : realTrig.exp = Real.exp := rfl

theorem lambN_val : (lambN : ℝ) = 725607765053267 / 1000000000000000 := by unfold lambN; norm_num
theorem lambL0_val : (lambLambda0 : ℝ) = 523598775598299 / 10000000000000000 := by unfold lambLambda0; norm_num
theorem lit180 : (180.0 : ℝ) = 180 := by norm_num
theorem lambN_pos : (0 : ℝ) < lambN := by unfold lambN; norm_num
theorem lambC_pos : (0 : ℝ) < lambC := by unfold lambC; norm_num

/-- the Lambert-93 round trip returns the longitude exactly (any latitude) -/
theorem lambert_lon' (g : V3 ℝ) (h1 : -90 < g.x) (h2 : g.x < 90) :
    (fromLambert93 realTrig (toLambert93 realTrig g)).x = g.x := by
  simp only [fromLambert93, toLambert93, rt_tan, rt_atan, rt_log, rt_exp, rt_sin, rt_cos, rt_pi]
  set L := Real.log (Real.tan (π / 4.0 + g.y * π / 180.0 / 2.0) *
    realTrig.pow ((1.0 - lambE * Real.sin (g.y * π / 180.0)) / (1.0 + lambE * Real.sin (g.y * π / 180.0))) (lambE / 2.0)) with hL
  have hR : 0 < lambC * Real.exp (-lambN * L) := mul_pos lambC_pos (Real.exp_pos _)
  set R := lambC * Real.exp (-lambN * L)
  set θ := lambN * (g.x * π / 180.0 - lambLambda0) with hθ
  have hθ1 : -(π / 2) < θ := by
    rw [hθ, lambN_val, lambL0_val, lit180]; nlinarith [Real.two_le_pi]
  have hθ2 : θ < π / 2 := by
    rw [hθ, lambN_val, lambL0_val, lit180]; nlinarith [Real.two_le_pi]
  have hcos : 0 < Real.cos θ := Real.cos_pos_of_mem_Ioo ⟨hθ1, hθ2⟩
  have hq : -(lambXp + R * Real.sin θ - lambXp) / (lambYp - R * Real.cos θ - lambYp) = Real.tan θ := by
    rw [Real.tan_eq_sin_div_cos]
    have := ne_of_gt hcos
    have := ne_of_gt hR
    field_simp
    ring
  rw [hq, Real.arctan_tan hθ1 hθ2, hθ, lit180]
  have := ne_of_gt lambN_pos
  have := Real.pi_ne_zero
  field_simp
  ring

theorem rt_pow (x y : ℝ) : realTrig.pow x y = x ^ y := rfl
theorem lambE_val : (lambE : ℝ) = 8181919106 / 100000000000 := by unfold lambE; norm_num
theorem lit1 : (1.0 : ℝ) = 1 := by norm_num
theorem lit2 : (2.0 : ℝ) = 2 := by norm_num
theorem lit4 : (4.0 : ℝ) = 4 := by norm_num

/-- isometric latitude as `_projToLambert93` computes it (`φ` in radians) -/
noncomputable def lambLatIso (φ : ℝ) : ℝ :=
  Real.log (Real.tan (π / 4 + φ / 2) * ((1 - lambE * Real.sin φ) / (1 + lambE * Real.sin φ)) ^ ((lambE : ℝ) / 2))

/-- the inverse recovers the isometric latitude exactly and runs its 10 passes from `2 atan(exp L) − π/2` -/
theorem lambert_lat_loop' (g : V3 ℝ) :
    (fromLambert93 realTrig (toLambert93 realTrig g)).y =
      iter (lambStep realTrig (lambLatIso (g.y * π / 180))) 10
        (2 * Real.arctan (Real.exp (lambLatIso (g.y * π / 180))) - π / 2) * 180 / π := by
  simp only [fromLambert93, toLambert93, rt_tan, rt_atan, rt_log, rt_exp, rt_sin, rt_cos, rt_pi, rt_sqrt, rt_pow2]
  have hLdef : Real.log (Real.tan (π / 4.0 + g.y * π / 180.0 / 2.0) *
      realTrig.pow ((1.0 - lambE * Real.sin (g.y * π / 180.0)) / (1.0 + lambE * Real.sin (g.y * π / 180.0))) (lambE / 2.0))
      = lambLatIso (g.y * π / 180) := by
    rw [rt_pow, lit180, lit1, lit2, lit4]; rfl
  rw [hLdef]
  set L := lambLatIso (g.y * π / 180)
  have hR : 0 < lambC * Real.exp (-lambN * L) := mul_pos lambC_pos (Real.exp_pos _)
  set R := lambC * Real.exp (-lambN * L) with hRdef
  set θ := lambN * (g.x * π / 180.0 - lambLambda0)
  have hsq : (lambXp + R * Real.sin θ - lambXp) ^ 2 + (lambYp - R * Real.cos θ - lambYp) ^ 2 = R ^ 2 := by
    linear_combination R ^ 2 * Real.sin_sq_add_cos_sq θ
  rw [hsq, Real.sqrt_sq (le_of_lt hR)]
  have hC := ne_of_gt lambC_pos
  have hn := ne_of_gt lambN_pos
  have hlog : -Real.log (R / lambC) / lambN = L := by
    rw [hRdef, mul_div_cancel_left₀ _ hC, Real.log_exp]
    field_simp
  rw [hlog, lit2, lit180]

theorem lambert_fixed_point' (φ : ℝ) (h1 : -(π / 2) < φ) (h2 : φ < π / 2) :
    lambStep realTrig (lambLatIso φ) φ = φ := by
  simp only [lambStep, rt_atan, rt_exp, rt_sin, rt_pi, rt_pow, lit1, lit2]
  have hE0 : (0 : ℝ) < lambE := by rw [lambE_val]; norm_num
  have hE1 : (lambE : ℝ) < 1 / 10 := by rw [lambE_val]; norm_num
  have hs1 := Real.sin_le_one φ
  have hs2 := Real.neg_one_le_sin φ
  have hp : 0 < 1 + lambE * Real.sin φ := by nlinarith
  have hm : 0 < 1 - lambE * Real.sin φ := by nlinarith
  have hq : 0 < (1 - lambE * Real.sin φ) / (1 + lambE * Real.sin φ) := div_pos hm hp
  have hu1 : 0 < π / 4 + φ / 2 := by linarith
  have hu2 : π / 4 + φ / 2 < π / 2 := by linarith
  have htan : 0 < Real.tan (π / 4 + φ / 2) := Real.tan_pos_of_pos_of_lt_pi_div_two hu1 hu2
  have hqp : 0 < ((1 - lambE * Real.sin φ) / (1 + lambE * Real.sin φ)) ^ ((lambE : ℝ) / 2) := Real.rpow_pos_of_pos hq _
  unfold lambLatIso
  rw [Real.exp_log (mul_pos htan hqp)]
  have hinv : ((1 + lambE * Real.sin φ) / (1 - lambE * Real.sin φ)) ^ ((lambE : ℝ) / 2)
      = (((1 - lambE * Real.sin φ) / (1 + lambE * Real.sin φ)) ^ ((lambE : ℝ) / 2))⁻¹ := by
    rw [← Real.inv_rpow (le_of_lt hq), inv_div]
  rw [hinv]
  have hne := ne_of_gt hqp
  rw [show (((1 - lambE * Real.sin φ) / (1 + lambE * Real.sin φ)) ^ ((lambE : ℝ) / 2))⁻¹ *
      (Real.tan (π / 4 + φ / 2) * ((1 - lambE * Real.sin φ) / (1 + lambE * Real.sin φ)) ^ ((lambE : ℝ) / 2))
      = Real.tan (π / 4 + φ / 2) by field_simp]
  rw [Real.arctan_tan (by linarith) hu2]
  ring

/-- hence the loop, started at the true latitude, stays there -/
theorem lambert_iter_fixed' (φ : ℝ) (h1 : -(π / 2) < φ) (h2 : φ < π / 2) (k : Nat) :
    iter (lambStep realTrig (lambLatIso φ)) k φ = φ := by
  induction k with
  | zero => rfl
  | succ k ih => rw [iter, lambert_fixed_point' φ h1 h2, ih]
end TV.Geo
