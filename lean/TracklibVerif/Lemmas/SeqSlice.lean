import TracklibVerif.Model.SeqOps
import TracklibVerif.Lemmas.Seq
/-! Helper lemmas for C04, part 6: Python slices with a positive step. Core Lean only. -/
namespace TV.Seq
variable {α : Type}

/-- a `filterMap` over `range m` none of whose entries is dropped: its length and its entries -/
theorem filterMap_range_all (f : Nat → Option α) : ∀ (m : Nat), (∀ k, k < m → (f k).isSome = true) →
    ((List.range m).filterMap f).length = m ∧
    ∀ k, ((List.range m).filterMap f)[k]? = if k < m then f k else none
  | 0, _ => by simp
  | m + 1, h => by
    obtain ⟨hl, hg⟩ := filterMap_range_all f m (fun k hk => h k (by omega))
    obtain ⟨x, hx⟩ := Option.isSome_iff_exists.mp (h m (by omega))
    have e : (List.range (m + 1)).filterMap f = (List.range m).filterMap f ++ [x] := by
      rw [List.range_succ, List.filterMap_append]
      simp [hx]
    rw [e]
    refine ⟨by simp [hl], ?_⟩
    intro k
    by_cases hk : k < m
    · rw [List.getElem?_append_left (by omega), hg k, if_pos hk, if_pos (by omega)]
    · rw [List.getElem?_append_right (by omega), hl]
      by_cases hkm : k = m
      · subst hkm; simp [hx]
      · have : ¬ (k < m + 1) := by omega
        rw [if_neg this]
        have : k - m = (k - m - 1) + 1 := by omega
        rw [this]; simp

/-- the bounds of a slice with a positive step are positions `0 ≤ s, e ≤ len` -/
theorem sliceBounds_pos (len : Nat) (a b : Option Int) (st : Int) (hst : 0 < st) :
    ∃ s e : Nat, sliceBounds len a b st = ((s : Int), (e : Int)) ∧ s ≤ len ∧ e ≤ len ∧
      (∀ x : Nat, a = some (x : Int) → s = min x len) ∧ (a = none → s = 0) ∧
      (∀ x : Nat, b = some (x : Int) → e = min x len) ∧ (b = none → e = len) := by
  have hneg : ¬ (st < 0) := by omega
  have adj : ∀ v : Int, ∃ r : Nat, r ≤ len ∧
      (if v < 0 then (if v + (len : Int) < 0 then 0 else v + (len : Int)) else (if v > (len : Int) then (len : Int) else v)) = (r : Int)
      ∧ ∀ x : Nat, v = (x : Int) → r = min x len := by
    intro v
    by_cases h1 : v < 0
    · by_cases h2 : v + (len : Int) < 0
      · exact ⟨0, by omega, by simp [h1, h2], by intro x hx; omega⟩
      · exact ⟨(v + (len : Int)).toNat, by omega, by simp only [h1, h2, if_true, if_false]; omega, by intro x hx; omega⟩
    · by_cases h2 : v > (len : Int)
      · exact ⟨len, by omega, by simp [h1, h2], by intro x hx; omega⟩
      · exact ⟨v.toNat, by omega, by simp only [h1, h2, if_false]; omega, by intro x hx; omega⟩
  obtain ⟨s, hs1, hs2, hs3⟩ : ∃ s : Nat, s ≤ len ∧
      (match a with
        | none => (0 : Int)
        | some v => if v < 0 then (if v + (len : Int) < 0 then 0 else v + (len : Int)) else (if v > (len : Int) then (len : Int) else v)) = (s : Int)
      ∧ ((∀ x : Nat, a = some (x : Int) → s = min x len) ∧ (a = none → s = 0)) := by
    cases a with
    | none => exact ⟨0, by omega, rfl, ⟨fun x hx => (by cases hx), fun _ => rfl⟩⟩
    | some v =>
      obtain ⟨r, h1, h2, h3⟩ := adj v
      exact ⟨r, h1, h2, ⟨fun x hx => h3 x (by cases hx; rfl), fun h => (by cases h)⟩⟩
  obtain ⟨e, he1, he2, he3⟩ : ∃ e : Nat, e ≤ len ∧
      (match b with
        | none => (len : Int)
        | some v => if v < 0 then (if v + (len : Int) < 0 then 0 else v + (len : Int)) else (if v > (len : Int) then (len : Int) else v)) = (e : Int)
      ∧ ((∀ x : Nat, b = some (x : Int) → e = min x len) ∧ (b = none → e = len)) := by
    cases b with
    | none => exact ⟨len, by omega, rfl, ⟨fun x hx => (by cases hx), fun _ => rfl⟩⟩
    | some v =>
      obtain ⟨r, h1, h2, h3⟩ := adj v
      exact ⟨r, h1, h2, ⟨fun x hx => h3 x (by cases hx; rfl), fun h => (by cases h)⟩⟩
  refine ⟨s, e, ?_, hs1, he1, hs3.1, hs3.2, he3.1, he3.2⟩
  unfold sliceBounds
  simp only [hneg, if_false]
  rw [← hs2, ← he2]
  cases a <;> cases b <;> rfl

/-- `L[a:b:c]` with `c ≥ 1` is `(L[a:b])[::c]`: every `c`-th element of the part between the clamped bounds -/
theorem pySlice_pos (l : List α) (a b : Option Int) (st : Nat) (hst : 1 ≤ st) :
    ∃ s e : Nat, sliceBounds l.length a b (st : Int) = ((s : Int), (e : Int)) ∧ s ≤ l.length ∧ e ≤ l.length ∧
      pySlice l a b (some (st : Int)) = some (stepAux st 0 ((l.take e).drop s)) := by
  obtain ⟨s, e, hb, hs, he, _⟩ := sliceBounds_pos l.length a b (st : Int) (by omega)
  refine ⟨s, e, hb, hs, he, ?_⟩
  have h0 : ¬ ((st : Int) = 0) := by omega
  simp only [pySlice, Option.getD_some, h0, if_false, hb]
  congr 1
  -- the length of the slice: k < sliceLen ↔ s + k*st < e
  have hlen : ∀ k : Nat, k < sliceLen (s : Int) (e : Int) (st : Int) ↔ s + k * st < e := by
    intro k
    unfold sliceLen
    have hpos : (st : Int) > 0 := by omega
    simp only [hpos, if_true]
    by_cases hse : (s : Int) < (e : Int)
    · simp only [hse, if_true]
      have hq : (0 : Int) ≤ ((e : Int) - (s : Int) - 1) / (st : Int) := Int.ediv_nonneg (by omega) (by omega)
      have h1 : k < (((e : Int) - (s : Int) - 1) / (st : Int) + 1).toNat ↔ (k : Int) ≤ ((e : Int) - (s : Int) - 1) / (st : Int) := by
        omega
      rw [h1, Int.le_ediv_iff_mul_le hpos]
      have : ((k * st : Nat) : Int) = (k : Int) * (st : Int) := by push_cast; rfl
      omega
    · simp only [hse, if_false]
      constructor
      · intro h; omega
      · intro h
        have : s ≤ s + k * st := Nat.le_add_right _ _
        omega
  have hidx : ∀ k : Nat, ((s : Int) + (k : Int) * (st : Int)).toNat = s + k * st := by
    intro k
    have : ((s + k * st : Nat) : Int) = (s : Int) + (k : Int) * (st : Int) := by push_cast; rfl
    omega
  simp only [hidx]
  have hall : ∀ k, k < sliceLen (s : Int) (e : Int) (st : Int) → (l[s + k * st]?).isSome = true := by
    intro k hk
    have := (hlen k).mp hk
    rw [List.getElem?_eq_getElem (by omega)]; rfl
  obtain ⟨_, hget⟩ := filterMap_range_all (fun k => l[s + k * st]?) _ hall
  apply List.ext_getElem?
  intro k
  rw [hget k, stepAux_getElem? st hst, List.getElem?_drop, List.getElem?_take, Nat.zero_add]
  by_cases hk : k < sliceLen (s : Int) (e : Int) (st : Int)
  · rw [if_pos hk, if_pos ((hlen k).mp hk)]
  · rw [if_neg hk, if_neg (fun h => hk ((hlen k).mpr h))]

end TV.Seq
