import TracklibVerif.Lemmas.TextIOSplit
/-! Column layout of `TrackWriter.writeToFile` / `__readFromCsv` (core only): the `O` list sorted by column id
puts the datum whose id is `j` in column `j` when the ids are a bijection onto `0..k-1`. -/
namespace TV.TextIO

/-- the column ids in use (`-1` = column absent, for U and T only) -/
def usedIds (e n u t : Int) : List Int :=
  [e, n] ++ (if u = -1 then [] else [u]) ++ (if t = -1 then [] else [t])

/-- the ids in use are pairwise distinct and all lie in `0..k-1`, `k` their number: a bijection onto `0..k-1` -/
def validB (e n u t : Int) : Bool :=
  (usedIds e n u t).all (fun x => decide (0 ≤ x) && decide (x < (usedIds e n u t).length)) && decide (usedIds e n u t).Nodup

def ValidIds (f : CsvFmt) : Prop := validB f.idE f.idN f.idU f.idT = true

/-- the 2 + 6 + 6 + 24 layouts -/
def layouts : List (Int × Int × Int × Int) :=
  [(0,1,-1,-1),(1,0,-1,-1),
   (0,1,2,-1),(0,2,1,-1),(1,0,2,-1),(1,2,0,-1),(2,0,1,-1),(2,1,0,-1),
   (0,1,-1,2),(0,2,-1,1),(1,0,-1,2),(1,2,-1,0),(2,0,-1,1),(2,1,-1,0),
   (0,1,2,3),(0,1,3,2),(0,2,1,3),(0,2,3,1),(0,3,1,2),(0,3,2,1),
   (1,0,2,3),(1,0,3,2),(1,2,0,3),(1,2,3,0),(1,3,0,2),(1,3,2,0),
   (2,0,1,3),(2,0,3,1),(2,1,0,3),(2,1,3,0),(2,3,0,1),(2,3,1,0),
   (3,0,1,2),(3,0,2,1),(3,1,0,2),(3,1,2,0),(3,2,0,1),(3,2,1,0)]

theorem usedIds_length_le (e n u t : Int) : (usedIds e n u t).length ≤ 4 := by
  unfold usedIds; split <;> split <;> simp

theorem validB_bounds {e n u t : Int} (h : validB e n u t = true) :
    (0 ≤ e ∧ e < 4) ∧ (0 ≤ n ∧ n < 4) ∧ (u = -1 ∨ (0 ≤ u ∧ u < 4)) ∧ (t = -1 ∨ (0 ≤ t ∧ t < 4)) := by
  unfold validB at h
  simp only [Bool.and_eq_true, List.all_eq_true, decide_eq_true_eq] at h
  have hl := usedIds_length_le e n u t
  have hb := h.1
  have he := hb e (by simp [usedIds])
  have hn := hb n (by simp [usedIds])
  refine ⟨⟨he.1, by omega⟩, ⟨hn.1, by omega⟩, ?_, ?_⟩
  · by_cases hu : u = -1
    · exact Or.inl hu
    · have := hb u (by simp [usedIds, hu]); exact Or.inr ⟨this.1, by omega⟩
  · by_cases ht : t = -1
    · exact Or.inl ht
    · have := hb t (by simp [usedIds, ht]); exact Or.inr ⟨this.1, by omega⟩

/-- every valid id assignment is one of the 38 layouts -/
theorem validB_mem_layouts {e n u t : Int} (h : validB e n u t = true) : (e, n, u, t) ∈ layouts := by
  obtain ⟨he, hn, hu, ht⟩ := validB_bounds h
  have he' : e = 0 ∨ e = 1 ∨ e = 2 ∨ e = 3 := by omega
  have hn' : n = 0 ∨ n = 1 ∨ n = 2 ∨ n = 3 := by omega
  have hu' : u = -1 ∨ u = 0 ∨ u = 1 ∨ u = 2 ∨ u = 3 := by omega
  have ht' : t = -1 ∨ t = 0 ∨ t = 1 ∨ t = 2 ∨ t = 3 := by omega
  clear he hn hu ht
  rcases he' with rfl | rfl | rfl | rfl <;> rcases hn' with rfl | rfl | rfl | rfl <;>
    rcases hu' with rfl | rfl | rfl | rfl | rfl <;> rcases ht' with rfl | rfl | rfl | rfl | rfl <;>
    first | decide | (exfalso; revert h; decide)

theorem layouts_valid : ∀ l ∈ layouts, validB l.1 l.2.1 l.2.2.1 l.2.2.2 = true := by decide

/-! ### the sort -/

theorem insertByKey_perm (x) (l : List (Int × Nat)) : (insertByKey x l).Perm (x :: l) := by
  induction l with
  | nil => exact List.Perm.refl _
  | cons y ys ih =>
    unfold insertByKey
    split
    · exact List.Perm.refl _
    · exact (List.Perm.cons y ih).trans (List.Perm.swap x y ys)

/-- inserting an element whose key is not below any key of the list appends it -/
theorem insertByKey_last (x : Int × Nat) (l : List (Int × Nat)) (h : ∀ y ∈ l, y.1 ≤ x.1) : insertByKey x l = l ++ [x] := by
  induction l with
  | nil => rfl
  | cons y ys ih =>
    have hy := h y (by simp)
    have : ¬ x.1 < y.1 := by omega
    simp only [insertByKey, this, ↓reduceIte, List.cons_append]
    rw [ih (fun z hz => h z (by simp [hz]))]

theorem foldl_insertByKey_mem (l acc : List (Int × Nat)) :
    ∀ y ∈ l.foldl (fun acc x => insertByKey x acc) acc, y ∈ l ∨ y ∈ acc := by
  induction l generalizing acc with
  | nil => intro y hy; exact Or.inr hy
  | cons x xs ih =>
    intro y hy
    rcases ih _ y hy with h | h
    · exact Or.inl (by simp [h])
    · have := (insertByKey_perm x acc).subset h
      rcases List.mem_cons.1 this with rfl | h'
      · exact Or.inl (by simp)
      · exact Or.inr h'

/-- feature columns `(start+i, start+i)` stay behind the special columns, in order -/
theorem sortByKey_append_feats (o : List (Int × Nat)) (start naf : Nat) (ho : ∀ y ∈ o, y.1 < start) :
    sortByKey (o ++ (List.range naf).map (fun i => (((start + i : Nat) : Int), start + i)))
      = sortByKey o ++ (List.range naf).map (fun i => (((start + i : Nat) : Int), start + i)) := by
  unfold sortByKey
  rw [List.foldl_append]
  generalize hacc : o.foldl (fun acc x => insertByKey x acc) [] = acc
  have hacc' : ∀ y ∈ acc, y.1 < start := by
    intro y hy
    rw [← hacc] at hy
    rcases foldl_insertByKey_mem o [] y hy with h | h
    · exact ho y h
    · simp at h
  clear hacc ho
  induction naf with
  | zero => simp
  | succ k ih =>
    rw [List.range_succ, List.map_append, List.foldl_append, ih]
    simp only [List.map_cons, List.map_nil, List.foldl_cons, List.foldl_nil]
    rw [insertByKey_last, List.append_assoc]
    intro y hy
    rcases List.mem_append.1 hy with h | h
    · have := hacc' y h
      simp only; omega
    · simp only [List.mem_map, List.mem_range] at h
      obtain ⟨i, hi, rfl⟩ := h
      simp only; omega

/-- the special columns of `writeToFile`'s `O` list before sorting -/
def specials (f : CsvFmt) : List (Int × Nat) :=
  let o : List (Int × Nat) := [(f.idE, 0), (f.idN, 1)]
  let o := if f.idU ≠ -1 then o ++ [(f.idU, 2)] else o
  if f.idT ≠ -1 then (if f.idU ≠ -1 then o ++ [(f.idT, 3)] else o ++ [(f.idT, 2)]) else o

def nSpecial (f : CsvFmt) : Nat := 2 + (if f.idU ≠ -1 then 1 else 0) + (if f.idT ≠ -1 then 1 else 0)

theorem orderList_eq (f : CsvFmt) (naf : Nat) :
    orderList f naf = sortByKey (specials f ++ (List.range naf).map (fun i => (((nSpecial f + i : Nat) : Int), nSpecial f + i))) := rfl

/-- the datum written in column `j`: the one whose column id is `j` -/
def datum (f : CsvFmt) (E N : Str) (U T : Option Str) (j : Nat) : Str :=
  if f.idE = j then E else if f.idN = j then N else if f.idU = j then U.getD [] else T.getD []

/-- the special columns of a data line, in column order -/
def cols (f : CsvFmt) (E N : Str) (U T : Option Str) : List Str := (List.range (nSpecial f)).map (datum f E N U T)

/-- split a membership `(e, n, u, t) ∈ layouts` into the 38 concrete layouts -/
macro "layout_cases " h:ident : tactic => `(tactic| (
  simp only [layouts, List.mem_cons, Prod.mk.injEq, List.not_mem_nil, or_false] at $h:ident
  rcases $h:ident with ⟨h1, h2, h3, h4⟩ | ⟨h1, h2, h3, h4⟩ | ⟨h1, h2, h3, h4⟩ | ⟨h1, h2, h3, h4⟩ | ⟨h1, h2, h3, h4⟩ |
    ⟨h1, h2, h3, h4⟩ | ⟨h1, h2, h3, h4⟩ | ⟨h1, h2, h3, h4⟩ | ⟨h1, h2, h3, h4⟩ | ⟨h1, h2, h3, h4⟩ |
    ⟨h1, h2, h3, h4⟩ | ⟨h1, h2, h3, h4⟩ | ⟨h1, h2, h3, h4⟩ | ⟨h1, h2, h3, h4⟩ | ⟨h1, h2, h3, h4⟩ |
    ⟨h1, h2, h3, h4⟩ | ⟨h1, h2, h3, h4⟩ | ⟨h1, h2, h3, h4⟩ | ⟨h1, h2, h3, h4⟩ | ⟨h1, h2, h3, h4⟩ |
    ⟨h1, h2, h3, h4⟩ | ⟨h1, h2, h3, h4⟩ | ⟨h1, h2, h3, h4⟩ | ⟨h1, h2, h3, h4⟩ | ⟨h1, h2, h3, h4⟩ |
    ⟨h1, h2, h3, h4⟩ | ⟨h1, h2, h3, h4⟩ | ⟨h1, h2, h3, h4⟩ | ⟨h1, h2, h3, h4⟩ | ⟨h1, h2, h3, h4⟩ |
    ⟨h1, h2, h3, h4⟩ | ⟨h1, h2, h3, h4⟩ | ⟨h1, h2, h3, h4⟩ | ⟨h1, h2, h3, h4⟩ | ⟨h1, h2, h3, h4⟩ |
    ⟨h1, h2, h3, h4⟩ | ⟨h1, h2, h3, h4⟩ | ⟨h1, h2, h3, h4⟩
  all_goals subst_vars))

theorem specials_keys_lt (f : CsvFmt) (hv : ValidIds f) : ∀ y ∈ specials f, y.1 < nSpecial f := by
  obtain ⟨e, n, u, t, sep⟩ := f
  have hm := validB_mem_layouts hv
  layout_cases hm <;> simp [specials, nSpecial]

/-- **layout**: `__printInOrder` with the sorted `O` list writes the datum with column id `j` in column `j` -/
theorem printInOrder_layout (f : CsvFmt) (hv : ValidIds f) (naf : Nat) (E N : Str) (U T : Option Str) (afs : Str)
    (hU : U.isSome = decide (f.idU ≠ -1)) (hT : T.isSome = decide (f.idT ≠ -1)) :
    printInOrder E N U T afs (orderList f naf) f.sep
      = .ok (joinChar f.sep (cols f (strip E) (strip N) (U.map strip) (T.map strip)) ++ afs) := by
  rw [orderList_eq, sortByKey_append_feats _ _ _ (specials_keys_lt f hv)]
  obtain ⟨e, n, u, t, sep⟩ := f
  have hm := validB_mem_layouts hv
  layout_cases hm <;>
  (cases U <;> cases T <;> simp at hU hT <;>
    simp [printInOrder, pick, nth, sortByKey, insertByKey, specials, cols, datum, nSpecial, joinChar, List.range, List.range.loop,
      bind, Except.bind, pure, Except.pure])

end TV.TextIO
