import TracklibVerif.Model.ProjTrack
/-! Helper lemmas about `Model/ProjTrack.lean` (the Track branch of `mapOnTrack` on track objects): the closed form of
the output track built by `Track()`, `addObs(Obs(p))`, `createAnalyticalFeature("dist", …)`,
`createAnalyticalFeature("edge", …)`, and its readings. Core Lean only. -/
namespace TV.ProjTrack
open TV.Proj TV.Features

theorem appendCol_nil_rows {α β : Type} (l : List β) (f : β → α) :
    appendCol (l.map (fun _ => ([] : List α))) (l.map f) = l.map (fun b => [f b]) := by
  induction l with
  | nil => simp [appendCol]
  | cons a t ih => simp [appendCol, ih]

theorem appendCol_one_rows {α β : Type} (l : List β) (f g : β → α) :
    appendCol (l.map (fun b => [f b])) (l.map g) = l.map (fun b => [f b, g b]) := by
  induction l with
  | nil => simp [appendCol]
  | cons a t ih => simp [appendCol, ih]

section
variable {α : Type}

/-- `createAnalyticalFeature(name, list)` on a track that has observations, does not have `name`, with a list as long
as the track: the name is registered under the next index and the column appended -/
theorem createC_writes (name : String) (l : List α) (st : St α) (hres : reserved name = false)
    (hrows : st.rows.isEmpty = false) (hfind : find st.dico name = none) (hlen : l.length = st.rows.length) :
    createC name (.list l) st =
      (.ok (), { st with dico := st.dico ++ [(name, st.dico.length)], rows := appendCol st.rows l }) := by
  simp [createC, hasC, hres, hrows, hfind, hlen]

end

section
variable {α : Type} [OfNat α 0]

/-- the output track in closed form: features `dist` (column 0) and `edge` (column 1), one observation per row -/
def outputOf (ofNat : Nat → α) (rs : List ((α × α × α) × α × Nat)) : St α :=
  { dico := [("dist", 0), ("edge", 1)], rows := rs.map (fun r => [r.2.1, ofNat r.2.2]),
    xs := rs.map (fun r => r.1.1), ys := rs.map (fun r => r.1.2.1), zs := rs.map (fun r => r.1.2.2),
    ts := rs.map (fun _ => (0 : α)) }

/-- `outputTrack` on at least one row: the two `createAnalyticalFeature` calls both write (the track is fresh) -/
theorem outputTrack_cons (ofNat : Nat → α) (r : (α × α × α) × α × Nat) (rs : List ((α × α × α) × α × Nat)) :
    outputTrack ofNat (r :: rs) = .ok (outputOf ofNat (r :: rs)) := by
  generalize hL : r :: rs = L
  have hne : L.isEmpty = false := by subst hL; rfl
  have h1 : reserved "dist" = false := by decide
  have h2 : reserved "edge" = false := by decide
  have h3 : find ([("dist", 0)] : List (String × Nat)) "edge" = none := by decide
  have e1 : createC "dist" (.list (L.map (fun r => r.2.1))) (freshTrack (L.map (fun r => r.1))) =
      (.ok (), { freshTrack (L.map (fun r => r.1)) with dico := [("dist", 0)], rows := L.map (fun r => [r.2.1]) }) := by
    rw [createC_writes _ _ _ h1 (by simp [freshTrack, hne]) (by simp [freshTrack, find]) (by simp [freshTrack])]
    simp only [freshTrack, List.map_map, Function.comp_def, List.nil_append, List.length_nil]
    rw [appendCol_nil_rows]
  have e2 : createC "edge" (.list (L.map (fun r => ofNat r.2.2)))
        { freshTrack (L.map (fun r => r.1)) with dico := [("dist", 0)], rows := L.map (fun r => [r.2.1]) } =
      (.ok (), outputOf ofNat L) := by
    rw [createC_writes _ _ _ h2 (by simp [hne]) h3 (by simp)]
    simp only [freshTrack, List.map_map, Function.comp_def, outputOf, List.cons_append, List.nil_append, List.length_cons,
      List.length_nil]
    rw [appendCol_one_rows]
  simp only [outputTrack, e1, e2]

/-- a track of queries without observation: `createAnalyticalFeature("dist", [])` raises `AnalyticalFeatureError` -/
theorem outputTrack_nil (ofNat : Nat → α) : outputTrack ofNat ([] : List ((α × α × α) × α × Nat)) = .error (.feat .empty) := by
  have h1 : reserved "dist" = false := by decide
  simp [outputTrack, createC, freshTrack, h1]

/-- reading the `dist` feature of the output -/
theorem column_dist (ofNat : Nat → α) (rs : List ((α × α × α) × α × Nat)) :
    column (outputOf ofNat rs) "dist" = some (rs.map (fun r => r.2.1)) := by
  have h : find ([("dist", 0), ("edge", 1)] : List (String × Nat)) "dist" = some 0 := by decide
  simp only [column, outputOf, h]
  induction rs with
  | nil => rfl
  | cons a t ih => simp [List.mapM_cons, ih]

/-- reading the `edge` feature of the output -/
theorem column_edge (ofNat : Nat → α) (rs : List ((α × α × α) × α × Nat)) :
    column (outputOf ofNat rs) "edge" = some (rs.map (fun r => ofNat r.2.2)) := by
  have h : find ([("dist", 0), ("edge", 1)] : List (String × Nat)) "edge" = some 1 := by decide
  simp only [column, outputOf, h]
  induction rs with
  | nil => rfl
  | cons a t ih => simp [List.mapM_cons, ih]

/-- the positions of the output track are the projected points -/
theorem positions_outputOf (ofNat : Nat → α) (rs : List ((α × α × α) × α × Nat)) :
    positions (outputOf ofNat rs) = rs.map (fun r => r.1) := by
  simp only [positions, outputOf]
  induction rs with
  | nil => rfl
  | cons a t ih => simp [ih]

end

section
variable {α : Type} [Add α] [Sub α] [Mul α] [Div α] [Neg α] [LT α] [LE α]
  [DecidableLT α] [DecidableLE α] [OfNat α 0]

/-- the Track branch in closed form -/
theorem mapOnTrackT_eq (sqrt : α → α) (eps : α) (ofNat : Nat → α) (ref q : St α) :
    mapOnTrackT sqrt eps ofNat ref q =
      match mapOnTrack3All sqrt eps (positions ref) (positions q) with
      | .error e => .error (.proj e)
      | .ok [] => .error (.feat .empty)
      | .ok (r :: rs) => .ok (outputOf ofNat (r :: rs)) := by
  unfold mapOnTrackT
  cases mapOnTrack3All sqrt eps (positions ref) (positions q) with
  | error e => rfl
  | ok rs =>
    cases rs with
    | nil => exact outputTrack_nil ofNat
    | cons r rs => exact outputTrack_cons ofNat r rs

/-- the rows of the loop have as many entries as there are queries -/
theorem mapOnTrack3All_length (sqrt : α → α) (eps : α) (pts qs : List (α × α × α))
    (rows : List ((α × α × α) × α × Nat)) (h : mapOnTrack3All sqrt eps pts qs = .ok rows) : rows.length = qs.length := by
  induction qs generalizing rows with
  | nil => simp only [mapOnTrack3All] at h; injection h with h; subst h; rfl
  | cons q0 qs ih =>
    rw [mapOnTrack3All] at h
    split at h
    · cases h
    · split at h
      · cases h
      · rename_i rs hrs
        injection h with h; subst h
        simp [ih rs hrs]

end
end TV.ProjTrack
