import TracklibVerif.Lemmas.Partition
/-! Optimality of the interval recursion WITHOUT associativity or commutativity of the addition (IEEE doubles):
the table value `D[i,j]` is at least as good as every *bracketing* of every chain from `i` to `j`, for any addition
that is monotone for the order; and the split table records a bracketing of the returned list whose value is
exactly `D[i,j]`. Only `[Add α]` is assumed. -/
namespace TV.Partition

/-- a bracketed sum of segment costs: one segment `(a, b)`, or the sum of a left part and a right part -/
inductive Br where
  | seg (a b : Nat)
  | node (l r : Br)

namespace Br
def lo : Br → Nat
  | seg a _ => a
  | node l _ => l.lo
def hi : Br → Nat
  | seg _ b => b
  | node _ r => r.hi
/-- every segment goes forward and adjacent parts share their end point -/
def WF : Br → Prop
  | seg a b => a < b
  | node l r => l.WF ∧ r.WF ∧ l.hi = r.lo
/-- the break points, first to last -/
def chain : Br → List Nat
  | seg a b => [a, b]
  | node l r => l.chain ++ r.chain.tail
/-- the value of the bracketed sum -/
def val {α : Type} [Add α] (C : Nat → Nat → α) : Br → α
  | seg a b => C a b
  | node l r => l.val C + r.val C

theorem lo_lt_hi : ∀ t : Br, t.WF → t.lo < t.hi
  | seg _ _, h => h
  | node l r, h => by
    have h1 := lo_lt_hi l h.1
    have h2 := lo_lt_hi r h.2.1
    have h3 := h.2.2
    simp only [lo, hi]; omega
end Br

section bound
variable {α : Type} [Add α] {better : α → α → Bool} {R : α → α → Prop}

/-- **bound for bracketed sums**: `D[i,j]` is at least as good as the value of every bracketing of every chain -/
theorem opt_bound_br (hd : Dir better R) (C : Nat → Nat → α) (f : Nat) :
    ∀ t : Br, t.WF → t.hi - t.lo ≤ f + 1 → R (opt better (· + ·) C f t.lo t.hi).1 (t.val C)
  | .seg a b, _, _ => opt_le_cost hd C f a b
  | .node l r, hwf, hf => by
    have h1 := Br.lo_lt_hi l hwf.1
    have h2 := Br.lo_lt_hi r hwf.2.1
    have h3 := hwf.2.2
    have ihl := opt_bound_br hd C f l hwf.1 (by simp only [Br.lo, Br.hi] at hf; omega)
    have ihr := opt_bound_br hd C f r hwf.2.1 (by simp only [Br.lo, Br.hi] at hf; omega)
    simp only [Br.lo, Br.hi, Br.val] at hf ⊢
    rw [opt_unfold better (· + ·) C f l.lo r.hi hf]
    have hs := (scan_best hd (fun k => (opt better (· + ·) C f l.lo k).1 + (opt better (· + ·) C f k r.hi).1)
      (l.lo + 1) (r.hi - l.lo - 1) (C l.lo r.hi, none)).2 l.hi (by omega) (by omega)
    rw [h3] at ihl hs
    exact hd.trans hs (hd.add ihl ihr)
end bound

/-! ### the bracketing recorded by the split table -/

/-- `backtracking(B, i, j)` seen as the bracketing it follows -/
def btTree (B : Nat → Nat → Int) : Nat → Nat → Nat → Br
  | 0, i, j => .seg i j
  | f+1, i, j =>
    if B i j < 0 ∨ (if i ≤ j then j - i else i - j) ≤ 1 then .seg i j
    else .node (btTree B f i (B i j).toNat) (btTree B f (B i j).toNat j)

theorem backtracking_head (B : Nat → Nat → Int) : ∀ f i j, ∃ m, backtracking B f i j = i :: m := by
  intro f
  induction f with
  | zero => intro i j; exact ⟨[], rfl⟩
  | succ f ih =>
    intro i j
    simp only [backtracking]
    by_cases h : B i j < 0 ∨ (if i ≤ j then j - i else i - j) ≤ 1
    · rw [if_pos h]; exact ⟨[], rfl⟩
    · rw [if_neg h]
      obtain ⟨m, e⟩ := ih i (B i j).toNat
      rw [e]; exact ⟨_, rfl⟩

section tree
variable {α : Type} [Add α]

/-- On a table `M` holding the split points of `opt`, the bracketing followed by `backtracking(M, i, j)` is well
formed, spans `(i, j)`, has the returned list (closed by `j`) as break points, and its value is exactly `D[i,j]`. -/
theorem btTree_spec (C : Nat → Nat → α) (bt : α → α → Bool) (N : Nat) (M : Nat → Nat → Int)
    (hM : ∀ a b, a < b → b < N → M a b = enc (-1) (opt bt (· + ·) C N a b).2) :
    ∀ fuel i j, i < j → j < N → j - i ≤ fuel →
      (btTree M fuel i j).WF ∧ (btTree M fuel i j).lo = i ∧ (btTree M fuel i j).hi = j ∧
      (btTree M fuel i j).chain = backtracking M fuel i j ++ [j] ∧
      (btTree M fuel i j).val C = (opt bt (· + ·) C N i j).1 := by
  intro fuel
  induction fuel with
  | zero => intro i j h1 _ h3; omega
  | succ fuel ih =>
    intro i j hij hjN hfuel
    have hunf := opt_unfold bt (· + ·) C N i j (by omega)
    have harg := scan_arg bt (fun k => (opt bt (· + ·) C N i k).1 + (opt bt (· + ·) C N k j).1) (i + 1) (j - i - 1) (C i j, none)
    simp only [btTree, backtracking]
    by_cases hstop : M i j < 0 ∨ (if i ≤ j then j - i else i - j) ≤ 1
    · rw [if_pos hstop, if_pos hstop]
      refine ⟨hij, rfl, rfl, rfl, ?_⟩
      simp only [Br.val]
      rcases hstop with hneg | hspan
      · rw [hM i j hij hjN, enc_neg] at hneg
        rcases harg with h | ⟨k, _, _, h⟩
        · rw [hunf, h]
        · rw [hunf, h] at hneg; cases hneg
      · rw [if_pos (Nat.le_of_lt hij)] at hspan
        rw [opt_adjacent bt (· + ·) C N i j hspan]
    · rw [if_neg hstop, if_neg hstop]
      have hnn : ¬ M i j < 0 := fun h => hstop (Or.inl h)
      rw [hM i j hij hjN, enc_neg] at hnn
      rcases harg with h | ⟨k, hk1, hk2, h⟩
      · exfalso; apply hnn; rw [hunf, h]
      · have hid : (M i j).toNat = k := by
          rw [hM i j hij hjN, hunf, h]; simp [enc]
        simp only [hid]
        obtain ⟨w1, lo1, hi1, c1, v1⟩ := ih i k (by omega) (by omega) (by omega)
        obtain ⟨w2, lo2, hi2, c2, v2⟩ := ih k j (by omega) hjN (by omega)
        refine ⟨⟨w1, w2, by rw [hi1, lo2]⟩, lo1, hi2, ?_, ?_⟩
        · obtain ⟨m, e⟩ := backtracking_head M fuel k j
          simp only [Br.chain, c1, c2, e]
          simp
        · simp only [Br.val, v1, v2]
          rw [hunf, h]
end tree

/-! ### directions for a monotone, possibly non-associative addition -/
section mono
variable {α : Type} [Add α] [LinearOrder α]

theorem dir_min_of_mono (hmono : ∀ a b c d : α, a ≤ b → c ≤ d → a + c ≤ b + d) : Dir (better (α := α) 0) (· ≤ ·) where
  refl := le_refl
  trans := le_trans
  of_better := by intro a b h; simp [better] at h; exact le_of_lt h
  of_not_better := by intro a b h; simp [better] at h; exact h
  add := fun h1 h2 => hmono _ _ _ _ h1 h2

theorem dir_max_of_mono (hmono : ∀ a b c d : α, a ≤ b → c ≤ d → a + c ≤ b + d) : Dir (better (α := α) 1) (· ≥ ·) where
  refl := le_refl
  trans := fun h1 h2 => le_trans h2 h1
  of_better := by intro a b h; simp [better] at h; exact le_of_lt h
  of_not_better := by intro a b h; simp [better] at h; exact h
  add := fun h1 h2 => hmono _ _ _ _ h1 h2
end mono
end TV.Partition
