import TracklibVerif.Lemmas.GeoTrack
/-! Helper lemmas for C14: whole-track round trips *through the base the track recorded*, for a base of either class.

`Track.toENUCoords(base)` converts with `base` and records `base.toGeoCoords()`. The return conversions without argument
read the record. The point conversions read a base only through `base.toECEFCoords()` (`ecefToEnu_congr`, …), so the
return through the record is the return through `base` itself exactly when the record denotes the point that was used:
`Recorded T b : geoToEcef T (b.toGeo T) = b.toEcef T`. That holds for every `GeoCoords` base, and for an `ECEFCoords` base
whose closed-form inverse is exact (on the ellipsoid, `recorded_on_ellipsoid`). Valid for every `Trig ℝ` with
`sin² + cos² = 1`. -/
namespace TV.Geo
open Real

variable (T : Trig ℝ)

/-- the point conversions read their base only through `base.toECEFCoords()` -/
theorem ecefToEnu_congr (p : V3 ℝ) (b1 b2 : Base ℝ) (h : b1.toEcef T = b2.toEcef T) :
    ecefToEnu T p b1 = ecefToEnu T p b2 := by
  simp only [ecefToEnu, h]

theorem enuToEcef_congr (q : V3 ℝ) (b1 b2 : Base ℝ) (h : b1.toEcef T = b2.toEcef T) :
    enuToEcef T q b1 = enuToEcef T q b2 := by
  simp only [enuToEcef, h]

theorem geoToEnu_congr (g : V3 ℝ) (b1 b2 : Base ℝ) (h : b1.toEcef T = b2.toEcef T) :
    geoToEnu T g b1 = geoToEnu T g b2 := by
  simp only [geoToEnu, h]

theorem enuToGeo_congr (q : V3 ℝ) (b1 b2 : Base ℝ) (h : b1.toEcef T = b2.toEcef T) :
    enuToGeo T q b1 = enuToGeo T q b2 := by
  simp only [enuToGeo, h]

/-- the base a whole-track conversion records (`base.toGeoCoords()`) denotes the point that was used -/
def Recorded (b : Base ℝ) : Prop := geoToEcef T (b.toGeo T) = b.toEcef T

theorem recorded_geo (c : V3 ℝ) : Recorded T (.geo c) := rfl

theorem recorded_toEcef (b : Base ℝ) (h : Recorded T b) : (Base.geo (b.toGeo T)).toEcef T = b.toEcef T := h

/-- an `ECEFCoords` base on the ellipsoid: the closed-form inverse is exact there, so the record is the point used -/
theorem recorded_on_ellipsoid (c : V3 ℝ) (hlon1 : -180 < c.x) (hlon2 : c.x ≤ 180) (hlat1 : -90 < c.y) (hlat2 : c.y < 90)
    (h0 : c.z = 0) : Recorded realTrig (.ecef (geoToEcef realTrig c)) := by
  show geoToEcef realTrig (ecefToGeo realTrig (geoToEcef realTrig c)) = geoToEcef realTrig c
  rw [ecefToGeo_geoToEcef_h0' c hlon1 hlon2 hlat1 hlat2 h0]

/-- ECEF track → ENU (any point base) → ECEF *without* argument, as the code does it: every position goes forth with the
base and back with the record -/
theorem track_ecef_enu_ecef_rec (t : Track ℝ) (hk : t.kind = .ecef) (hne : t.pts ≠ []) (b : Base ℝ) :
    (t.toENU T (some (.pt b))).bind (fun u => u.toECEF T none)
      = .ok ⟨.ecef, t.pts.map (fun p => enuToEcef T (ecefToEnu T p b) (.geo (b.toGeo T))), some (.pt (.geo (b.toGeo T)))⟩ := by
  rw [toENU_ecef_pt T t hk hne b]
  simp only [Except.bind]
  rw [toECEF_enu T _ rfl (by simpa using hne) (.geo (b.toGeo T)) none rfl]
  simp only [List.map_map]
  rfl

/-- … which is the identity when the record denotes the point used -/
theorem track_ecef_enu_ecef_none (hT : Pyth T) (t : Track ℝ) (hk : t.kind = .ecef) (hne : t.pts ≠ []) (b : Base ℝ)
    (hb : Recorded T b) :
    (t.toENU T (some (.pt b))).bind (fun u => u.toECEF T none)
      = .ok ⟨.ecef, t.pts, some (.pt (.geo (b.toGeo T)))⟩ := by
  rw [track_ecef_enu_ecef_rec T t hk hne b]
  have : t.pts.map (fun p => enuToEcef T (ecefToEnu T p b) (.geo (b.toGeo T))) = t.pts :=
    map_id_of (fun p => by
      rw [enuToEcef_congr T _ _ b (recorded_toEcef T b hb)]
      exact enuToEcef_ecefToEnu' T hT p b) t.pts
  rw [this]

/-- ECEF track → ENU (any point base) → Geo without argument: the direct ECEF → Geo conversion of every position -/
theorem track_ecef_enu_geo_none (hT : Pyth T) (t : Track ℝ) (hk : t.kind = .ecef) (hne : t.pts ≠ []) (b : Base ℝ)
    (hb : Recorded T b) :
    (t.toENU T (some (.pt b))).bind (fun u => u.toGeo T none)
      = .ok ⟨.geo, t.pts.map (ecefToGeo T), some (.pt (.geo (b.toGeo T)))⟩ := by
  rw [toENU_ecef_pt T t hk hne b]
  simp only [Except.bind]
  rw [toGeo_enu T _ rfl (by simpa using hne) (.geo (b.toGeo T)) none rfl]
  simp only [List.map_map]
  have : List.map ((fun q => enuToGeo T q (.geo (b.toGeo T))) ∘ fun p => ecefToEnu T p b) t.pts
      = List.map (ecefToGeo T) t.pts := by
    apply List.map_congr_left
    intro p _
    simp only [Function.comp]
    rw [enuToGeo_congr T _ _ b (recorded_toEcef T b hb)]
    show ecefToGeo T (enuToEcef T (ecefToEnu T p b) (.ecef (b.toEcef T))) = ecefToGeo T p
    rw [enuToEcef_congr T _ (.ecef (b.toEcef T)) b rfl, enuToEcef_ecefToEnu' T hT p b]
  rw [this]

/-- Geo track → ENU (any point base) → ECEF without argument: the direct Geo → ECEF conversion of every position -/
theorem track_geo_enu_ecef_none (hT : Pyth T) (t : Track ℝ) (hk : t.kind = .geo) (hne : t.pts ≠ []) (b : Base ℝ)
    (hb : Recorded T b) :
    (t.toENU T (some (.pt b))).bind (fun u => u.toECEF T none)
      = .ok ⟨.ecef, t.pts.map (geoToEcef T), some (.pt (.geo (b.toGeo T)))⟩ := by
  rw [toENU_geo_pt T t hk hne b]
  simp only [Except.bind]
  rw [toECEF_enu T _ rfl (by simpa using hne) (.geo (b.toGeo T)) none rfl]
  simp only [List.map_map]
  have : List.map ((fun q => enuToEcef T q (.geo (b.toGeo T))) ∘ fun g => geoToEnu T g b) t.pts
      = List.map (geoToEcef T) t.pts := by
    apply List.map_congr_left
    intro g _
    simp only [Function.comp]
    rw [geoToEnu_congr T g b (.geo (b.toGeo T)) (recorded_toEcef T b hb).symm]
    exact enuToEcef_geoToEnu' T hT g (.geo (b.toGeo T))
  rw [this]

/-- Geo track → ENU (any point base) → Geo without argument: every position is its own Geo → ECEF → Geo image -/
theorem track_geo_enu_geo_none (hT : Pyth T) (t : Track ℝ) (hk : t.kind = .geo) (hne : t.pts ≠ []) (b : Base ℝ)
    (hb : Recorded T b) :
    (t.toENU T (some (.pt b))).bind (fun u => u.toGeo T none)
      = .ok ⟨.geo, t.pts.map (fun g => ecefToGeo T (geoToEcef T g)), some (.pt (.geo (b.toGeo T)))⟩ := by
  rw [toENU_geo_pt T t hk hne b]
  simp only [Except.bind]
  rw [toGeo_enu T _ rfl (by simpa using hne) (.geo (b.toGeo T)) none rfl]
  simp only [List.map_map]
  have : List.map ((fun q => enuToGeo T q (.geo (b.toGeo T))) ∘ fun g => geoToEnu T g b) t.pts
      = List.map (fun g => ecefToGeo T (geoToEcef T g)) t.pts := by
    apply List.map_congr_left
    intro g _
    simp only [Function.comp]
    rw [geoToEnu_congr T g b (.geo (b.toGeo T)) (recorded_toEcef T b hb).symm]
    exact enuToGeo_geoToEnu' T hT g (.geo (b.toGeo T))
  rw [this]

/-- the recorded base sits at the origin of the frame that was used -/
theorem recorded_is_origin (b : Base ℝ) (hb : Recorded T b) : geoToEnu T (b.toGeo T) b = ⟨0, 0, 0⟩ := by
  rw [geoToEnu_congr T _ b (.geo (b.toGeo T)) (recorded_toEcef T b hb).symm]
  exact geoToEnu_self' T (b.toGeo T)

end TV.Geo
