import TracklibVerif.Lemmas.ExprPre5
/-! # The derivative shorthand `a'` (`Track.__prime`, applied twice by `__double_prime`)

`__prime` replaces every postfix token ending with a quote, `a'`, by the seven tokens `D a @ D t @ /` — the postfix form of
`D{a}/D{t}`. On the postfix form of a tree this is the tree with every such name replaced by that quotient (`unprime`);
`__double_prime` runs it twice, so `a''` is `D{D{a}/D{t}}/D{t}`. Source strings with the shorthand therefore evaluate as
the unprimed tree: the value theorems (T1, T3, T6) apply to `unprime (unprime (desugar e))`. -/
namespace TV.Expr
open TV.Rpn

/-- what `a'` stands for -/
def unprimeVar (s : Str) : Ex :=
  if s.getLast? = some '\'' then .bin '/' (.call ['D'] (.var s.dropLast)) (.call ['D'] (.var ['t'])) else .var s

/-- one pass of `__prime` on a tree: every name ending with a quote becomes `D{name}/D{t}` -/
def unprime : Ex → Ex
  | .num s => .num s
  | .var s => unprimeVar s
  | .bin o l r => .bin o (unprime l) (unprime r)
  | .call f e => .call f (unprime e)

/-- a name is not empty and does not start with a quote -/
def VarOK (s : Str) : Prop := s ≠ [] ∧ s.head? ≠ some '\''

/-- numbers, function names and operators do not end with a quote; names are `VarOK` -/
def PrimeOK : Ex → Prop
  | .num s => GoodTok s
  | .var s => VarOK s
  | .bin o l r => o ≠ '\'' ∧ PrimeOK l ∧ PrimeOK r
  | .call f e => GoodTok f ∧ PrimeOK e

theorem varOK_dropLast (s : Str) (h : VarOK s) (hq : s.getLast? = some '\'') : VarOK s.dropLast := by
  match s, h, hq with
  | [], h, _ => exact absurd rfl h.1
  | [x], h, hq =>
    simp only [List.getLast?_singleton, Option.some.injEq] at hq
    exact absurd (by simp [hq]) h.2
  | x :: y :: ys, h, _ =>
    refine ⟨by simp [List.dropLast], ?_⟩
    have := h.2
    simpa [List.dropLast] using this

theorem varOK_goodTok_or (s : Str) (h : VarOK s) : s.getLast? = some '\'' ∨ GoodTok s := by
  cases hl : s.getLast? with
  | none => exact absurd (List.getLast?_eq_none_iff.mp hl) h.1
  | some c =>
    by_cases hc : c = '\''
    · exact Or.inl (by rw [hc])
    · exact Or.inr ⟨c, hl, hc⟩

theorem prime_cons_good (t : Str) (rest r : List Str) (h : GoodTok t) (hr : prime rest = .ok r) :
    prime (t :: rest) = .ok (t :: r) := by
  obtain ⟨c, hc, hq⟩ := h
  have hb : (c == '\'') = false := by simpa using hq
  simp only [prime, hc, hr, hb]
  rfl

theorem prime_cons_quote (t : Str) (rest r : List Str) (h : t.getLast? = some '\'') (hr : prime rest = .ok r) :
    prime (t :: rest) = .ok ([['D'], t.dropLast, ['@'], ['D'], ['t'], ['@'], ['/']] ++ r) := by
  simp only [prime, h, hr]
  rfl

/-- one pass of `__prime` over the postfix form of a tree (followed by anything) is the postfix form of the unprimed tree -/
theorem prime_post (e : Ex) : ∀ (rest r : List Str), PrimeOK e → prime rest = .ok r →
    prime (Expr.post e ++ rest) = .ok (Expr.post (unprime e) ++ r) := by
  induction e with
  | num s => intro rest r h hr; exact prime_cons_good s rest r h hr
  | var s =>
    intro rest r h hr
    rcases varOK_goodTok_or s h with hq | hg
    · simp only [Expr.post, List.singleton_append, unprime, unprimeVar, hq, if_true]
      rw [prime_cons_quote s rest r hq hr]
      rfl
    · obtain ⟨c, hc, hq⟩ := hg
      have hne : s.getLast? ≠ some '\'' := by rw [hc]; intro h'; exact hq (Option.some.inj h')
      simp only [Expr.post, List.singleton_append, unprime, unprimeVar, hne, if_false]
      exact prime_cons_good s rest r ⟨c, hc, hq⟩ hr
  | bin o l r ihl ihr =>
    intro rest r' h hr
    have ho : prime ([o] :: rest) = .ok ([o] :: r') := prime_cons_good [o] rest r' ⟨o, rfl, h.1⟩ hr
    have h2 := ihr ([o] :: rest) ([o] :: r') h.2.2 ho
    have h1 := ihl (Expr.post r ++ [o] :: rest) (Expr.post (unprime r) ++ [o] :: r') h.2.1 h2
    simp only [Expr.post, unprime, List.append_assoc, List.singleton_append] at h1 ⊢
    exact h1
  | call f e ih =>
    intro rest r h hr
    have ha : prime (['@'] :: rest) = .ok (['@'] :: r) := prime_cons_good ['@'] rest r ⟨'@', rfl, by decide⟩ hr
    have h1 := ih (['@'] :: rest) (['@'] :: r) h.2 ha
    have h0 := prime_cons_good f (Expr.post e ++ ['@'] :: rest) (Expr.post (unprime e) ++ ['@'] :: r) h.1 h1
    simp only [Expr.post, unprime, List.append_assoc, List.cons_append, List.nil_append] at h0 ⊢
    exact h0

theorem primeOK_unprime (e : Ex) (h : PrimeOK e) : PrimeOK (unprime e) := by
  induction e with
  | num s => exact h
  | var s =>
    simp only [unprime, unprimeVar]
    split
    · rename_i hq
      exact ⟨by decide, ⟨⟨'D', rfl, by decide⟩, varOK_dropLast s h hq⟩, ⟨'D', rfl, by decide⟩, ⟨by decide, by decide⟩⟩
    · exact h
  | bin o l r ihl ihr => exact ⟨h.1, ihl h.2.1, ihr h.2.2⟩
  | call f e ih => exact ⟨h.1, ih h.2⟩

/-- `__double_prime` on the postfix form of a statement `lhs = e` -/
theorem doublePrime_stmt (lhs : Str) (e : Ex) (hg : GoodTok lhs) (h : PrimeOK e) :
    doublePrime (lhs :: (Expr.post e ++ [['=']])) = .ok (lhs :: (Expr.post (unprime (unprime e)) ++ [['=']])) := by
  have heq : prime [['=']] = .ok [['=']] := prime_cons_good ['='] [] [] ⟨'=', rfl, by decide⟩ rfl
  have h1 : prime (lhs :: (Expr.post e ++ [['=']])) = .ok (lhs :: (Expr.post (unprime e) ++ [['=']])) :=
    prime_cons_good lhs _ _ hg (prime_post e _ _ h heq)
  have h2 : prime (lhs :: (Expr.post (unprime e) ++ [['=']])) = .ok (lhs :: (Expr.post (unprime (unprime e)) ++ [['=']])) :=
    prime_cons_good lhs _ _ hg (prime_post (unprime e) _ _ (primeOK_unprime e h) heq)
  simp only [doublePrime, h1]
  exact h2

/-- a tree without any quote is left as it is -/
theorem unprime_of_noQuote (e : Ex) (h : NoQuote e) : unprime e = e := by
  induction e with
  | num s => rfl
  | var s =>
    obtain ⟨c, hc, hq⟩ := h
    have hne : s.getLast? ≠ some '\'' := by rw [hc]; intro h'; exact hq (Option.some.inj h')
    simp only [unprime, unprimeVar, hne, if_false]
  | bin o l r ihl ihr => simp only [unprime, ihl h.1, ihr h.2]
  | call f e ih => simp only [unprime, ih h.2]

variable {α : Type} [Scalar α]

/-- **source string with the `'` shorthand → tokens, `lhs=e`** -/
theorem operate_source_tokens_prime (tr : Tr α) (lhs : Str) (e : Sx)
    (hl : NameOK lhs) (hg : GoodTok lhs) (h : SrcOK e) (hp : PrimeOK (desugar e)) :
    operate tr (lhs ++ '=' :: src e)
      = operateTokens tr (lhs :: (Expr.post (unprime (unprime (desugar e))) ++ [['=']])) true := by
  have hm := makeRPN_flat_shw (.bin '=' (.atom (String.ofList lhs)) (toE' e)) ⟨by decide, trivial, wf_toE' e h⟩
    ⟨hl.atomOK, atomsOK_toE' e h⟩
  have hpost : (Rpn.post (.bin '=' (.atom (String.ofList lhs)) (toE' e))).map String.toList
      = lhs :: (Expr.post (desugar e) ++ [['=']]) := by
    simp [Rpn.post, post_toE']
  rw [hpost] at hm
  exact operate_of tr _ _ true _ _ (preprocess_assign lhs e hl h) hm (doublePrime_stmt lhs (desugar e) hg hp)

/-- **source string with the `'` shorthand → tokens, no `=`** -/
theorem operate_source_value_tokens_prime (tr : Tr α) (e : Sx) (h : SrcOK e) (hp : PrimeOK (desugar e)) :
    operate tr (src e) = operateTokens tr (outputName :: (Expr.post (unprime (unprime (desugar e))) ++ [['=']])) false := by
  have hm := makeRPN_output_spaces (toE' e) (wf_toE' e h) (atomsOK_toE' e h) (by rw [← tgt_eq]; exact tgt_no_eq e h)
  rw [post_toE'] at hm
  exact operate_of tr _ _ false _ _ (preprocess_value e h) hm (doublePrime_stmt outputName (desugar e) ⟨'t', rfl, by decide⟩ hp)

end TV.Expr
