import TracklibVerif.Model.Geo
import Mathlib.Analysis.SpecialFunctions.Complex.Arg
import Mathlib.Analysis.SpecialFunctions.Trigonometric.Arctan
import Mathlib.Analysis.SpecialFunctions.Pow.Real
import Mathlib.Tactic.LinearCombination
import Mathlib.Tactic.FieldSimp
/-! Helper lemmas for C14: the model `TV.Geo` instantiated at `ℝ` with Mathlib's functions (`realTrig`), the rotation
identities for any `Trig ℝ` satisfying `sin² + cos² = 1`, the closed form of the forward map, the ellipsoid equation,
exact recovery of the longitude and — on the ellipsoid — of the latitude (Bowring's formula). -/
namespace TV.Geo
open Real

theorem V3.eq_of {a b : V3 ℝ} (hx : a.x = b.x) (hy : a.y = b.y) (hz : a.z = b.z) : a = b := by
  cases a; cases b; simp_all

/-- a `Trig ℝ` whose `sin`/`cos` satisfy the Pythagorean identity -/
def Pyth (T : Trig ℝ) : Prop := ∀ x, T.sin x ^ 2 + T.cos x ^ 2 = 1

theorem enuToEcef_ecefToEnu' (T : Trig ℝ) (hT : Pyth T) (p : V3 ℝ) (b : Base ℝ) :
    enuToEcef T (ecefToEnu T p b) b = p := by
  have h1 := hT ((ecefToGeo T (b.toEcef T)).x * T.pi / 180.0)
  have h2 := hT ((ecefToGeo T (b.toEcef T)).y * T.pi / 180.0)
  apply V3.eq_of
  · simp only [enuToEcef, ecefToEnu]
    linear_combination (p.x - (b.toEcef T).x) * h1 + ((p.x - (b.toEcef T).x) * T.cos ((ecefToGeo T (b.toEcef T)).x * T.pi / 180.0) ^ 2
      + (p.y - (b.toEcef T).y) * T.sin ((ecefToGeo T (b.toEcef T)).x * T.pi / 180.0) * T.cos ((ecefToGeo T (b.toEcef T)).x * T.pi / 180.0)) * h2
  · simp only [enuToEcef, ecefToEnu]
    linear_combination (p.y - (b.toEcef T).y) * h1 + ((p.x - (b.toEcef T).x) * T.cos ((ecefToGeo T (b.toEcef T)).x * T.pi / 180.0) * T.sin ((ecefToGeo T (b.toEcef T)).x * T.pi / 180.0)
      + (p.y - (b.toEcef T).y) * T.sin ((ecefToGeo T (b.toEcef T)).x * T.pi / 180.0) ^ 2) * h2
  · simp only [enuToEcef, ecefToEnu]
    linear_combination (p.z - (b.toEcef T).z) * h2

theorem ecefToEnu_enuToEcef' (T : Trig ℝ) (hT : Pyth T) (q : V3 ℝ) (b : Base ℝ) :
    ecefToEnu T (enuToEcef T q b) b = q := by
  have h1 := hT ((ecefToGeo T (b.toEcef T)).x * T.pi / 180.0)
  have h2 := hT ((ecefToGeo T (b.toEcef T)).y * T.pi / 180.0)
  apply V3.eq_of
  · simp only [enuToEcef, ecefToEnu]
    linear_combination q.x * h1
  · simp only [enuToEcef, ecefToEnu]
    linear_combination (q.y * T.sin ((ecefToGeo T (b.toEcef T)).y * T.pi / 180.0) ^ 2
      - q.z * T.cos ((ecefToGeo T (b.toEcef T)).y * T.pi / 180.0) * T.sin ((ecefToGeo T (b.toEcef T)).y * T.pi / 180.0)) * h1 + q.y * h2
  · simp only [enuToEcef, ecefToEnu]
    linear_combination (- q.y * T.sin ((ecefToGeo T (b.toEcef T)).y * T.pi / 180.0) * T.cos ((ecefToGeo T (b.toEcef T)).y * T.pi / 180.0)
      + q.z * T.cos ((ecefToGeo T (b.toEcef T)).y * T.pi / 180.0) ^ 2) * h1 + q.z * h2


noncomputable def realTrig : Trig ℝ where
  pi := Real.pi
  sin := Real.sin
  cos := Real.cos
  tan := Real.tan
  atan := Real.arctan
  atan2 := fun y x => Complex.arg ⟨x, y⟩
  sqrt := Real.sqrt
  log := Real.log
  exp := Real.exp
  pow := fun x y => x ^ y

@[simp] theorem rt_pi : realTrig.pi = π := rfl
@[simp] theorem rt_sin : realTrig.sin = Real.sin := rfl
@[simp] theorem rt_cos : realTrig.cos = Real.cos := rfl
@[simp] theorem rt_sqrt : realTrig.sqrt = Real.sqrt := rfl
@[simp] theorem rt_atan2 (y x : ℝ) : realTrig.atan2 y x = Complex.arg ⟨x, y⟩ := rfl
theorem rt_pow2 (x : ℝ) : realTrig.pow x 2.0 = x ^ 2 := by
  show x ^ (2.0 : ℝ) = x ^ 2
  rw [show (2.0 : ℝ) = ((2 : ℕ) : ℝ) by norm_num, Real.rpow_natCast]
theorem rt_pow3 (x : ℝ) : realTrig.pow x 3.0 = x ^ 3 := by
  show x ^ (3.0 : ℝ) = x ^ 3
  rw [show (3.0 : ℝ) = ((3 : ℕ) : ℝ) by norm_num, Real.rpow_natCast]

/-- WGS84 constants as the model reads them -/
theorem Re_val : (Re : ℝ) = 6378137 := by unfold Re; norm_num
theorem Fe_val : (Fe : ℝ) = 1 / 298.257223563 := by unfold Fe; norm_num
theorem Fe_pos : (0 : ℝ) < Fe := by rw [Fe_val]; norm_num
theorem Fe_lt : (Fe : ℝ) < 1 / 298 := by rw [Fe_val]; norm_num

/-- first eccentricity squared `e² = f (2 − f)` -/
noncomputable def e2 : ℝ := Fe * (2 - Fe)
theorem e2_pos : 0 < e2 := by unfold e2; have := Fe_pos; have := Fe_lt; nlinarith
theorem e2_lt : e2 < 1 / 100 := by unfold e2; have := Fe_pos; have := Fe_lt; nlinarith
theorem one_sub_e2 : 1 - e2 = (1 - Fe) ^ 2 := by unfold e2; ring

/-- `W(φ)² = 1 − e² sin² φ` is positive -/
theorem w2_pos (s : ℝ) (hs : s ^ 2 ≤ 1) : 0 < 1 - e2 * s ^ 2 := by
  have := e2_pos; have := e2_lt; nlinarith [sq_nonneg s]

theorem ecc_sq : Real.sqrt (Fe * (2.0 - Fe)) * Real.sqrt (Fe * (2.0 - Fe)) = e2 := by
  rw [show (2.0 : ℝ) = 2 by norm_num]
  exact Real.mul_self_sqrt (le_of_lt e2_pos)

/-- prime-vertical radius of curvature `N(φ) = a / √(1 − e² sin² φ)` -/
noncomputable def primeVertical (φ : ℝ) : ℝ := 6378137 / Real.sqrt (1 - e2 * Real.sin φ ^ 2)

/-- T3b: the forward map is the closed-form WGS84 formula -/
theorem geoToEcef_closed_form (g : V3 ℝ) :
    let φ := g.y * π / 180
    let lam := g.x * π / 180
    let N := primeVertical φ
    geoToEcef realTrig g = ⟨(N + g.z) * Real.cos φ * Real.cos lam, (N + g.z) * Real.cos φ * Real.sin lam,
      ((1 - e2) * N + g.z) * Real.sin φ⟩ := by
  intro φ lam N
  have h180 : (180.0 : ℝ) = 180 := by norm_num
  have h1 : (1.0 : ℝ) = 1 := by norm_num
  have hN : Re / realTrig.sqrt (1.0 - realTrig.pow (realTrig.sqrt (Fe * (2.0 - Fe)) * realTrig.sin (g.y * realTrig.pi / 180.0)) 2.0) = N := by
    rw [rt_pow2, mul_pow, sq (realTrig.sqrt _)]
    simp only [rt_sqrt, rt_sin, rt_pi]
    rw [ecc_sq, Re_val, h180, h1]
    rfl
  unfold geoToEcef
  simp only [hN]
  simp only [rt_sqrt, rt_sin, rt_cos, rt_pi, ecc_sq, h180, h1]
  rfl

theorem sqrtW_pos (φ : ℝ) : 0 < Real.sqrt (1 - e2 * Real.sin φ ^ 2) :=
  Real.sqrt_pos.mpr (w2_pos _ (Real.sin_sq_le_one φ))
theorem sqrtW_sq (φ : ℝ) : Real.sqrt (1 - e2 * Real.sin φ ^ 2) ^ 2 = 1 - e2 * Real.sin φ ^ 2 :=
  Real.sq_sqrt (le_of_lt (w2_pos _ (Real.sin_sq_le_one φ)))
theorem sqrtW_le_one (φ : ℝ) : Real.sqrt (1 - e2 * Real.sin φ ^ 2) ≤ 1 :=
  Real.sqrt_le_one.mpr (by have := e2_pos; nlinarith [sq_nonneg (Real.sin φ)])
theorem primeVertical_ge (φ : ℝ) : 6378137 ≤ primeVertical φ := by
  unfold primeVertical
  rw [le_div_iff₀ (sqrtW_pos φ)]
  have := sqrtW_le_one φ
  nlinarith

/-- T3: with `h = 0` the ECEF point lies on the WGS84 ellipsoid `X²/a² + Y²/a² + Z²/b² = 1`, `b = a (1 − f)` -/
theorem on_ellipsoid' (g : V3 ℝ) (h0 : g.z = 0) :
    let P := geoToEcef realTrig g
    P.x ^ 2 / 6378137 ^ 2 + P.y ^ 2 / 6378137 ^ 2 + P.z ^ 2 / (6378137 * (1 - 1 / 298.257223563)) ^ 2 = 1 := by
  intro P
  have hP : P = _ := geoToEcef_closed_form g
  rw [hP, h0]
  simp only
  have hw := sqrtW_pos (g.y * π / 180)
  have hw2 := sqrtW_sq (g.y * π / 180)
  have hsc := Real.sin_sq_add_cos_sq (g.y * π / 180)
  have hl := Real.sin_sq_add_cos_sq (g.x * π / 180)
  have hf : (1 - 1 / 298.257223563 : ℝ) ^ 2 = 1 - e2 := by rw [one_sub_e2, Fe_val]
  have hf0 : (1 - 1 / 298.257223563 : ℝ) ≠ 0 := by norm_num
  unfold primeVertical
  set w := Real.sqrt (1 - e2 * Real.sin (g.y * π / 180) ^ 2) with hwdef
  set s := Real.sin (g.y * π / 180)
  set c := Real.cos (g.y * π / 180)
  set sl := Real.sin (g.x * π / 180)
  set cl := Real.cos (g.x * π / 180)
  rw [mul_pow (6378137:ℝ) (1 - 1 / 298.257223563), hf]
  have h1e : (1 - e2) ≠ 0 := by have := e2_lt; intro h; linarith
  field_simp
  rw [hw2]
  linear_combination (6378137 ^ 2 * c ^ 2 * (1 - e2)) * hl + (6378137 ^ 2 * (1 - e2)) * hsc

theorem ecefToGeo_lon (P : V3 ℝ) : (ecefToGeo realTrig P).x = Complex.arg ⟨P.x, P.y⟩ * (180 / π) := by
  unfold ecefToGeo
  simp only [rt_atan2, rt_pi]
  norm_num

theorem arg_polar (r lam : ℝ) (hr : 0 < r) (h1 : -π < lam) (h2 : lam ≤ π) :
    Complex.arg ⟨r * Real.cos lam, r * Real.sin lam⟩ = lam := by
  have : (⟨r * Real.cos lam, r * Real.sin lam⟩ : ℂ) = ↑r * (Complex.cos ↑lam + Complex.sin ↑lam * Complex.I) := by
    apply Complex.ext <;> simp [← Complex.ofReal_cos, ← Complex.ofReal_sin]
  rw [this]
  exact Complex.arg_mul_cos_add_sin_mul_I hr ⟨h1, h2⟩

theorem cos_lat_pos (lat : ℝ) (h1 : -90 < lat) (h2 : lat < 90) : 0 < Real.cos (lat * π / 180) := by
  apply Real.cos_pos_of_mem_Ioo
  constructor <;> nlinarith [Real.pi_pos]

/-- T4: the longitude is recovered exactly -/
theorem lon_recovered' (g : V3 ℝ) (hlon1 : -180 < g.x) (hlon2 : g.x ≤ 180) (hlat1 : -90 < g.y) (hlat2 : g.y < 90)
    (hh : -6378137 < g.z) : (ecefToGeo realTrig (geoToEcef realTrig g)).x = g.x := by
  rw [ecefToGeo_lon, geoToEcef_closed_form g]
  simp only
  have hN := primeVertical_ge (g.y * π / 180)
  have hc := cos_lat_pos g.y hlat1 hlat2
  have hr : 0 < (primeVertical (g.y * π / 180) + g.z) * Real.cos (g.y * π / 180) :=
    mul_pos (by linarith) hc
  rw [arg_polar _ _ hr (by nlinarith [Real.pi_pos]) (by nlinarith [Real.pi_pos])]
  have := Real.pi_ne_zero
  field_simp

theorem sincos_arg (K w c' s' : ℝ) (hK : 0 < K) (hw : 0 < w) (h : c' ^ 2 + s' ^ 2 = w ^ 2) :
    Real.sin (Complex.arg ⟨K * c', K * s'⟩) = s' / w ∧ Real.cos (Complex.arg ⟨K * c', K * s'⟩) = c' / w := by
  have hn : ‖(⟨K * c', K * s'⟩ : ℂ)‖ = K * w := by
    rw [Complex.norm_eq_sqrt_sq_add_sq]
    simp only
    rw [show (K * c') ^ 2 + (K * s') ^ 2 = (K * w) ^ 2 by rw [mul_pow, mul_pow, mul_pow, ← h]; ring]
    exact Real.sqrt_sq (le_of_lt (mul_pos hK hw))
  have hne : (⟨K * c', K * s'⟩ : ℂ) ≠ 0 := by
    intro h0
    rw [h0, norm_zero] at hn
    have := mul_pos hK hw
    linarith
  constructor
  · rw [Complex.sin_arg, hn]
    simp only
    field_simp
  · rw [Complex.cos_arg hne, hn]
    simp only
    field_simp

theorem ecefToGeo_unfold (P : V3 ℝ) :
    ecefToGeo realTrig P =
      ⟨Complex.arg ⟨P.x, P.y⟩ * (180 / π),
       Complex.arg ⟨Real.sqrt (P.x * P.x + P.y * P.y) - (Re * Re - Re * (1 - Fe) * (Re * (1 - Fe))) / Re *
            Real.cos (Complex.arg ⟨Real.sqrt (P.x * P.x + P.y * P.y) * (Re * (1 - Fe)), P.z * Re⟩) ^ 3,
          P.z + (Re * Re - Re * (1 - Fe) * (Re * (1 - Fe))) / (Re * (1 - Fe)) *
            Real.sin (Complex.arg ⟨Real.sqrt (P.x * P.x + P.y * P.y) * (Re * (1 - Fe)), P.z * Re⟩) ^ 3⟩ * (180 / π),
       Real.sqrt (P.x * P.x + P.y * P.y) /
          Real.cos (Complex.arg ⟨Real.sqrt (P.x * P.x + P.y * P.y) - (Re * Re - Re * (1 - Fe) * (Re * (1 - Fe))) / Re *
            Real.cos (Complex.arg ⟨Real.sqrt (P.x * P.x + P.y * P.y) * (Re * (1 - Fe)), P.z * Re⟩) ^ 3,
          P.z + (Re * Re - Re * (1 - Fe) * (Re * (1 - Fe))) / (Re * (1 - Fe)) *
            Real.sin (Complex.arg ⟨Real.sqrt (P.x * P.x + P.y * P.y) * (Re * (1 - Fe)), P.z * Re⟩) ^ 3⟩)
        - primeVertical (Complex.arg ⟨Real.sqrt (P.x * P.x + P.y * P.y) - (Re * Re - Re * (1 - Fe) * (Re * (1 - Fe))) / Re *
            Real.cos (Complex.arg ⟨Real.sqrt (P.x * P.x + P.y * P.y) * (Re * (1 - Fe)), P.z * Re⟩) ^ 3,
          P.z + (Re * Re - Re * (1 - Fe) * (Re * (1 - Fe))) / (Re * (1 - Fe)) *
            Real.sin (Complex.arg ⟨Real.sqrt (P.x * P.x + P.y * P.y) * (Re * (1 - Fe)), P.z * Re⟩) ^ 3⟩)⟩ := by
  have h180 : (180.0 : ℝ) = 180 := by norm_num
  have h1 : (1.0 : ℝ) = 1 := by norm_num
  unfold ecefToGeo primeVertical
  simp only [rt_pow2, rt_pow3, mul_pow, sq (realTrig.sqrt _)]
  simp only [rt_sqrt, rt_sin, rt_cos, rt_pi, rt_atan2, ecc_sq, h180, h1, Re_val]


/-- Bowring's latitude formula is exact on the ellipsoid: with `P = (N cos φ, ·, (1−e²) N sin φ)` the second `atan2` of
`ECEFCoords.toGeoCoords` returns `φ` -/
theorem bowring_lat_h0 (φ : ℝ) (hφ1 : -(π / 2) < φ) (hφ2 : φ < π / 2) :
    Complex.arg ⟨primeVertical φ * Real.cos φ - (6378137 * 6378137 - 6378137 * (1 - Fe) * (6378137 * (1 - Fe))) / 6378137 *
        Real.cos (Complex.arg ⟨primeVertical φ * Real.cos φ * (6378137 * (1 - Fe)), (1 - e2) * primeVertical φ * Real.sin φ * 6378137⟩) ^ 3,
      (1 - e2) * primeVertical φ * Real.sin φ + (6378137 * 6378137 - 6378137 * (1 - Fe) * (6378137 * (1 - Fe))) / (6378137 * (1 - Fe)) *
        Real.sin (Complex.arg ⟨primeVertical φ * Real.cos φ * (6378137 * (1 - Fe)), (1 - e2) * primeVertical φ * Real.sin φ * 6378137⟩) ^ 3⟩
      = φ := by
  have hc : 0 < Real.cos φ := Real.cos_pos_of_mem_Ioo ⟨hφ1, hφ2⟩
  have hw := sqrtW_pos φ
  have hw2 := sqrtW_sq φ
  have hsc := Real.sin_sq_add_cos_sq φ
  have hN : primeVertical φ = 6378137 / Real.sqrt (1 - e2 * Real.sin φ ^ 2) := rfl
  have hf1 : 0 < 1 - (Fe : ℝ) := by have := Fe_lt; linarith
  have he := one_sub_e2
  set w := Real.sqrt (1 - e2 * Real.sin φ ^ 2) with hwdef
  set N := primeVertical φ with hNdef
  set s := Real.sin φ with hs
  set c := Real.cos φ with hcdef
  have hNpos : 0 < N := by rw [hN]; positivity
  have hK : 0 < N * 6378137 * (1 - Fe) := by positivity
  have hz : (⟨N * c * (6378137 * (1 - Fe)), (1 - e2) * N * s * 6378137⟩ : ℂ)
      = ⟨N * 6378137 * (1 - Fe) * c, N * 6378137 * (1 - Fe) * ((1 - Fe) * s)⟩ := by
    rw [he]; apply Complex.ext <;> simp only <;> ring
  obtain ⟨hst, hct⟩ := sincos_arg (N * 6378137 * (1 - Fe)) w c ((1 - Fe) * s) hK hw
    (by rw [hw2, mul_pow, ← he]; linear_combination hsc)
  rw [hz, hst, hct]
  have hρ : 0 < 6378137 * (1 - e2) / w ^ 3 := by rw [he]; positivity
  have hwne : w ≠ 0 := ne_of_gt hw
  have hfne : (1 - (Fe : ℝ)) ≠ 0 := ne_of_gt hf1
  have hz2 : (⟨N * c - (6378137 * 6378137 - 6378137 * (1 - Fe) * (6378137 * (1 - Fe))) / 6378137 * (c / w) ^ 3,
      (1 - e2) * N * s + (6378137 * 6378137 - 6378137 * (1 - Fe) * (6378137 * (1 - Fe))) / (6378137 * (1 - Fe)) *
        ((1 - Fe) * s / w) ^ 3⟩ : ℂ)
      = ⟨6378137 * (1 - e2) / w ^ 3 * c, 6378137 * (1 - e2) / w ^ 3 * s⟩ := by
    apply Complex.ext
    · simp only
      rw [hN, he]
      field_simp
      rw [← he]
      linear_combination hw2 - e2 * hsc
    · simp only
      rw [hN, he]
      field_simp
      rw [← he]
      linear_combination s * hw2
  rw [hz2, hcdef, hs]
  exact arg_polar _ _ hρ (by linarith [Real.pi_pos]) (by linarith [Real.pi_pos])

/-- T5: on the ellipsoid (`h = 0`) the closed-form inverse is exact -/
theorem ecefToGeo_geoToEcef_h0' (g : V3 ℝ) (hlon1 : -180 < g.x) (hlon2 : g.x ≤ 180) (hlat1 : -90 < g.y) (hlat2 : g.y < 90)
    (h0 : g.z = 0) : ecefToGeo realTrig (geoToEcef realTrig g) = g := by
  have hlonx := lon_recovered' g hlon1 hlon2 hlat1 hlat2 (by rw [h0]; norm_num)
  have hc := cos_lat_pos g.y hlat1 hlat2
  have hl := Real.sin_sq_add_cos_sq (g.x * π / 180)
  have hNpos : 0 < primeVertical (g.y * π / 180) := by have := primeVertical_ge (g.y * π / 180); linarith
  have hpp : Real.sqrt (primeVertical (g.y * π / 180) * Real.cos (g.y * π / 180) * Real.cos (g.x * π / 180) *
      (primeVertical (g.y * π / 180) * Real.cos (g.y * π / 180) * Real.cos (g.x * π / 180)) +
      primeVertical (g.y * π / 180) * Real.cos (g.y * π / 180) * Real.sin (g.x * π / 180) *
      (primeVertical (g.y * π / 180) * Real.cos (g.y * π / 180) * Real.sin (g.x * π / 180)))
      = primeVertical (g.y * π / 180) * Real.cos (g.y * π / 180) := by
    rw [show ∀ a b c d : ℝ, a * b * c * (a * b * c) + a * b * d * (a * b * d) = (a * b) ^ 2 * (d ^ 2 + c ^ 2) by intros; ring,
      hl, mul_one]
    exact Real.sqrt_sq (le_of_lt (mul_pos hNpos hc))
  have hlat := bowring_lat_h0 (g.y * π / 180) (by nlinarith [Real.pi_pos]) (by nlinarith [Real.pi_pos])
  apply V3.eq_of hlonx
  · rw [geoToEcef_closed_form g, ecefToGeo_unfold]
    simp only [h0, add_zero, Re_val, hpp, hlat]
    have := Real.pi_ne_zero
    field_simp
  · rw [geoToEcef_closed_form g, ecefToGeo_unfold]
    simp only [h0, add_zero, Re_val, hpp, hlat]
    have : Real.cos (g.y * π / 180) ≠ 0 := ne_of_gt hc
    field_simp
    ring

/-- Bowring's one-step latitude (radians) exactly as `ECEFCoords.toGeoCoords` computes it, as a function of the
meridian-plane coordinates `p = √(X² + Y²)` and `z = Z` -/
noncomputable def bowringLat (p z : ℝ) : ℝ :=
  Complex.arg ⟨p - (Re * Re - Re * (1 - Fe) * (Re * (1 - Fe))) / Re *
        Real.cos (Complex.arg ⟨p * (Re * (1 - Fe)), z * Re⟩) ^ 3,
      z + (Re * Re - Re * (1 - Fe) * (Re * (1 - Fe))) / (Re * (1 - Fe)) *
        Real.sin (Complex.arg ⟨p * (Re * (1 - Fe)), z * Re⟩) ^ 3⟩

/-- the height `ECEFCoords.toGeoCoords` derives from that latitude -/
noncomputable def bowringHgt (p z : ℝ) : ℝ :=
  p / Real.cos (bowringLat p z) - primeVertical (bowringLat p z)

/-- meridian-plane coordinates of the point of geodetic latitude `φ` (radians) and height `h` -/
noncomputable def merP (φ h : ℝ) : ℝ := (primeVertical φ + h) * Real.cos φ
noncomputable def merZ (φ h : ℝ) : ℝ := ((1 - e2) * primeVertical φ + h) * Real.sin φ

theorem ecefToGeo_eq_bowring (P : V3 ℝ) :
    ecefToGeo realTrig P = ⟨Complex.arg ⟨P.x, P.y⟩ * (180 / π),
      bowringLat (Real.sqrt (P.x * P.x + P.y * P.y)) P.z * (180 / π),
      bowringHgt (Real.sqrt (P.x * P.x + P.y * P.y)) P.z⟩ := by
  rw [ecefToGeo_unfold]
  rfl

theorem sqrt_xy (g : V3 ℝ) (hlat1 : -90 < g.y) (hlat2 : g.y < 90) (hh : -6378137 < g.z) :
    Real.sqrt ((geoToEcef realTrig g).x * (geoToEcef realTrig g).x + (geoToEcef realTrig g).y * (geoToEcef realTrig g).y)
      = merP (g.y * π / 180) g.z := by
  rw [geoToEcef_closed_form g]
  simp only
  have hl := Real.sin_sq_add_cos_sq (g.x * π / 180)
  have hN := primeVertical_ge (g.y * π / 180)
  have hc := cos_lat_pos g.y hlat1 hlat2
  rw [show ∀ a b c d : ℝ, a * b * c * (a * b * c) + a * b * d * (a * b * d) = (a * b) ^ 2 * (d ^ 2 + c ^ 2) by intros; ring,
    hl, mul_one]
  exact Real.sqrt_sq (le_of_lt (mul_pos (by linarith) hc))

/-- Geo → ECEF → Geo, every height: the longitude comes back exactly, and latitude and height are the explicit functions
`bowringLat`, `bowringHgt` of the meridian-plane coordinates of the point — they do not depend on the longitude -/
theorem geo_ecef_geo_residual' (g : V3 ℝ) (hlon1 : -180 < g.x) (hlon2 : g.x ≤ 180) (hlat1 : -90 < g.y) (hlat2 : g.y < 90)
    (hh : -6378137 < g.z) :
    ecefToGeo realTrig (geoToEcef realTrig g) =
      ⟨g.x, bowringLat (merP (g.y * π / 180) g.z) (merZ (g.y * π / 180) g.z) * (180 / π),
        bowringHgt (merP (g.y * π / 180) g.z) (merZ (g.y * π / 180) g.z)⟩ := by
  have hx := lon_recovered' g hlon1 hlon2 hlat1 hlat2 hh
  have hz : (geoToEcef realTrig g).z = merZ (g.y * π / 180) g.z := by
    rw [geoToEcef_closed_form g]; rfl
  rw [ecefToGeo_eq_bowring, sqrt_xy g hlat1 hlat2 hh, hz]
  rw [ecefToGeo_eq_bowring] at hx
  simp only at hx
  rw [hx]

/-- if the latitude comes back exactly, so does the height (whatever the height is) -/
theorem bowringHgt_of_lat (φ h : ℝ) (hφ1 : -(π / 2) < φ) (hφ2 : φ < π / 2)
    (hl : bowringLat (merP φ h) (merZ φ h) = φ) : bowringHgt (merP φ h) (merZ φ h) = h := by
  unfold bowringHgt
  rw [hl]
  unfold merP
  have hc : Real.cos φ ≠ 0 := ne_of_gt (Real.cos_pos_of_mem_Ioo ⟨hφ1, hφ2⟩)
  field_simp
  ring

/-- on the ellipsoid the residual is zero -/
theorem bowringLat_h0 (φ : ℝ) (hφ1 : -(π / 2) < φ) (hφ2 : φ < π / 2) : bowringLat (merP φ 0) (merZ φ 0) = φ := by
  have := bowring_lat_h0 φ hφ1 hφ2
  unfold bowringLat merP merZ
  simp only [add_zero, Re_val]
  exact this

/-- latitude and height of Geo → ECEF → Geo are those of the same latitude and height at longitude 0 -/
theorem meridianRoundTrip_eq (g : V3 ℝ) (hlon1 : -180 < g.x) (hlon2 : g.x ≤ 180) (hlat1 : -90 < g.y) (hlat2 : g.y < 90)
    (hh : -6378137 < g.z) :
    ((ecefToGeo realTrig (geoToEcef realTrig g)).y, (ecefToGeo realTrig (geoToEcef realTrig g)).z)
      = meridianRoundTrip realTrig g.y g.z := by
  have h1 := geo_ecef_geo_residual' g hlon1 hlon2 hlat1 hlat2 hh
  have h2 := geo_ecef_geo_residual' ⟨0, g.y, g.z⟩ (by norm_num) (by norm_num) hlat1 hlat2 hh
  unfold meridianRoundTrip
  rw [h1, show (0.0 : ℝ) = 0 by norm_num, h2]

theorem pyth_real : Pyth realTrig := fun x => Real.sin_sq_add_cos_sq x

/-- T2 -/
theorem ecefToEnu_base' (T : Trig ℝ) (b : Base ℝ) : ecefToEnu T (b.toEcef T) b = ⟨0, 0, 0⟩ := by
  apply V3.eq_of <;> simp only [ecefToEnu] <;> ring

theorem geoToEnu_self' (T : Trig ℝ) (g : V3 ℝ) : geoToEnu T g (.geo g) = ⟨0, 0, 0⟩ :=
  ecefToEnu_base' T (.ecef (geoToEcef T g))

theorem geoToEnu_base' (T : Trig ℝ) (b : Base ℝ) : geoToEnu T (b.toGeo T) (.geo (b.toGeo T)) = ⟨0, 0, 0⟩ :=
  geoToEnu_self' T _

/-- Geo → ENU → ECEF is Geo → ECEF, for every base -/
theorem enuToEcef_geoToEnu' (T : Trig ℝ) (hT : Pyth T) (g : V3 ℝ) (b : Base ℝ) :
    enuToEcef T (geoToEnu T g b) (.ecef (b.toEcef T)) = geoToEcef T g :=
  enuToEcef_ecefToEnu' T hT _ _

/-- Geo → ENU → Geo is Geo → ECEF → Geo, for every base: the local frame adds no error of its own -/
theorem enuToGeo_geoToEnu' (T : Trig ℝ) (hT : Pyth T) (g : V3 ℝ) (b : Base ℝ) :
    enuToGeo T (geoToEnu T g b) b = ecefToGeo T (geoToEcef T g) := by
  unfold enuToGeo
  simp only
  rw [enuToEcef_geoToEnu' T hT]

/-- changing the base and changing back is the identity -/
theorem enuToEnu_enuToEnu' (T : Trig ℝ) (hT : Pyth T) (q : V3 ℝ) (b1 b2 : Base ℝ) :
    enuToEnu T (enuToEnu T q b1 b2) b2 b1 = q := by
  unfold enuToEnu
  simp only
  rw [enuToEcef_ecefToEnu' T hT, ecefToEnu_enuToEcef' T hT]

theorem enuToEnu_self' (T : Trig ℝ) (hT : Pyth T) (q : V3 ℝ) (b : Base ℝ) : enuToEnu T q b b = q := by
  unfold enuToEnu
  simp only
  rw [ecefToEnu_enuToEcef' T hT]

/-- ENU(base1) → ENU(base2) → Geo(base2) is ENU(base1) → Geo(base1) -/
theorem enuToGeo_enuToEnu' (T : Trig ℝ) (hT : Pyth T) (q : V3 ℝ) (b1 b2 : Base ℝ) :
    enuToGeo T (enuToEnu T q b1 b2) b2 = enuToGeo T q b1 := by
  unfold enuToGeo enuToEnu
  simp only
  rw [enuToEcef_ecefToEnu' T hT]

/-- the geodetic height is measured along the ellipsoid normal -/
theorem height_along_normal' (g : V3 ℝ) :
    let φ := g.y * π / 180
    let lam := g.x * π / 180
    let nx := Real.cos φ * Real.cos lam
    let ny := Real.cos φ * Real.sin lam
    let nz := Real.sin φ
    let P0 := geoToEcef realTrig ⟨g.x, g.y, 0⟩
    geoToEcef realTrig g = ⟨P0.x + g.z * nx, P0.y + g.z * ny, P0.z + g.z * nz⟩
    ∧ nx ^ 2 + ny ^ 2 + nz ^ 2 = 1
    ∧ P0.x / 6378137 ^ 2 = primeVertical φ / 6378137 ^ 2 * nx
    ∧ P0.y / 6378137 ^ 2 = primeVertical φ / 6378137 ^ 2 * ny
    ∧ P0.z / (6378137 * (1 - 1 / 298.257223563)) ^ 2 = primeVertical φ / 6378137 ^ 2 * nz := by
  intro φ lam nx ny nz P0
  have hP0 : P0 = _ := geoToEcef_closed_form ⟨g.x, g.y, 0⟩
  have hP : geoToEcef realTrig g = _ := geoToEcef_closed_form g
  simp only at hP0 hP
  have hsc := Real.sin_sq_add_cos_sq φ
  have hl := Real.sin_sq_add_cos_sq lam
  have hf : (1 - 1 / 298.257223563 : ℝ) ^ 2 = 1 - e2 := by rw [one_sub_e2, Fe_val]
  have h1e : (1 - e2) ≠ 0 := by have := e2_lt; intro h; linarith
  refine ⟨?_, ?_, ?_, ?_, ?_⟩
  · rw [hP, hP0]; apply V3.eq_of <;> simp only [nx, ny, nz, φ, lam] <;> ring
  · simp only [nx, ny, nz]; linear_combination (Real.cos φ ^ 2) * hl + hsc
  · rw [hP0]; simp only [nx, φ, lam]; ring
  · rw [hP0]; simp only [ny, φ, lam]; ring
  · rw [hP0, mul_pow, hf]; simp only [nz, φ]; field_simp; ring

end TV.Geo
