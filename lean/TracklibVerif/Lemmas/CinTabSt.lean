import TracklibVerif.Lemmas.CinTabATab
import TracklibVerif.Lemmas.Features
/-! The dict-and-rows table `Features.St` of a single track (C01's concrete model of `Track.__analyticalFeaturesDico` and the
`features` lists of its observations) satisfies the laws of a feature table: every law is carried over from the
specification table (`laws_ATab`) by the simulation lemma of the primitive concerned (`Features.sim_*`). -/
set_option linter.unusedSectionVars false
namespace TV.CinTab
open TV.Features

variable {V : Type} [Inhabited V]

/-- the table is aligned (C01's invariant) for the number of observations it holds -/
def sI (st : St V) : Prop := Inv st.rows.length st

def sN (st : St V) : Nat := st.rows.length

/-- what a feature name reads: the column of the index the dict designates -/
def sRd (st : St V) (name : String) : Option (List V) := aRd (abs st) name

theorem aI_abs {st : St V} (h : sI st) : aI (abs st) := by
  have hsz : (abs st).size = st.rows.length := abs_size h
  refine ⟨?_, ?_, ?_, ?_⟩
  · intro p hp
    simp only [abs, List.mem_map] at hp
    obtain ⟨q, _, rfl⟩ := hp
    rw [hsz]
    exact colAt_length st.rows q.2
  · rw [hsz]; exact h.ys
  · rw [hsz]; exact h.zs
  · rw [hsz]; exact h.ts

theorem getObsC_state (o : Ops V) (name : String) (i : Nat) (st : St V) : (getObsC o name i st).2 = st := by
  unfold getObsC
  repeat' split
  all_goals rfl

theorem getC_state (o : Ops V) (name : String) (st : St V) : (getC o name st).2 = st := by
  unfold getC
  repeat' split
  all_goals rfl

/-- a primitive that succeeds on the specification table succeeds on the aligned concrete table, and the final tables
correspond -/
theorem sim_ok {α : Type} {P : α → Prop} {m : M (St V) α} {ma : M (ATab V) α} {st : St V} (hs : Sim st.rows.length P m ma)
    (h : sI st) {x : α} {a' : ATab V} (ha : ma (abs st) = (.ok x, a')) :
    (m st).1 = .ok x ∧ abs (m st).2 = a' ∧ Inv st.rows.length (m st).2 := by
  obtain ⟨h1, h2, _⟩ := hs st h
  rw [ha] at h2
  exact ⟨(Prod.mk.inj h2).1.symm, (Prod.mk.inj h2).2.symm, h1⟩

theorem sI_of_inv {st st' : St V} (h : Inv st.rows.length st') : sI st' := by
  have := h.size
  unfold sI
  rw [this]
  exact h

theorem laws_St : Laws (σ := St V) (V := V) sI sN sRd St.coord where
  size := fun _ => rfl
  has := by
    intro st name h hr
    have := laws_ATab.has (abs st) name (aI_abs h) hr
    show (Except.ok (hasC st name), st) = _
    have e : (Except.ok (hasA (abs st) name), abs st) = (Except.ok (aRd (abs st) name).isSome, abs st) := this
    rw [hasA_abs] at e
    rw [(Except.ok.inj (Prod.mk.inj e).1)]
    rfl
  co_len := fun st c h => coord_length h c
  rd_len := by
    intro st name col h hrd
    have := laws_ATab.rd_len (abs st) name col (aI_abs h) hrd
    rw [this]
    exact abs_size h
  getObs_coord := by
    intro o st c i v h hv
    have ha := laws_ATab.getObs_coord o (abs st) c i v (aI_abs h) (by rw [abs_coord]; exact hv)
    obtain ⟨e1, _, _⟩ := sim_ok (sim_getObs o (cnm c) i) h ha
    show getObsC o (cnm c) i st = _
    exact Prod.ext e1 (getObsC_state o _ i st)
  getObs_feat := by
    intro o st name col i v h hr hrd hv
    have ha := laws_ATab.getObs_feat o (abs st) name col i v (aI_abs h) hr hrd hv
    obtain ⟨e1, _, _⟩ := sim_ok (sim_getObs o name i) h ha
    show getObsC o name i st = _
    exact Prod.ext e1 (getObsC_state o _ i st)
  get_feat := by
    intro o st name col h hr hrd
    have ha := laws_ATab.get_feat o (abs st) name col (aI_abs h) hr hrd
    obtain ⟨e1, _, _⟩ := sim_ok (sim_get o name) h ha
    show getC o name st = _
    exact Prod.ext e1 (getC_state o _ st)
  create_new := by
    intro st name v h hr hrd hn
    obtain ⟨a', col, ha, hI, hrd', hn', hoth, hco⟩ := laws_ATab.create_new (abs st) name v (aI_abs h) hr hrd
      (by rw [show (abs st).size = st.rows.length from abs_size h]; exact hn)
    obtain ⟨e1, e2, e3⟩ := sim_ok (sim_create name (.scalar v)) h ha
    refine ⟨(createC name (.scalar v) st).2, col, Prod.ext e1 rfl, sI_of_inv e3, ?_, e3.size, ?_, ?_⟩
    · show aRd (abs _) name = _
      rw [e2]; exact hrd'
    · intro m hm
      show aRd (abs _) m = aRd (abs st) m
      rw [e2]; exact hoth m hm
    · funext c
      rw [← abs_coord, e2, hco, abs_coord]
  create_old := by
    intro st name v col h hr hrd hn
    have ha := laws_ATab.create_old (abs st) name v col (aI_abs h) hr hrd
      (by rw [show (abs st).size = st.rows.length from abs_size h]; exact hn)
    obtain ⟨e1, _, _⟩ := sim_ok (sim_create name (.scalar v)) h ha
    show createC name (.scalar v) st = _
    refine Prod.ext e1 ?_
    -- the name is listed: `createC` returns the table as it is
    have hf : (find st.dico name).isSome = true := by
      have : aRd (abs st) name = some col := hrd
      rw [aRd_nr _ hr, abs_lookup] at this
      cases hfd : find st.dico name with
      | none => rw [hfd] at this; cases this
      | some idx => rfl
    have hne : st.rows.isEmpty = false := by
      cases hr' : st.rows with
      | nil => simp [sN, hr'] at hn
      | cons _ _ => rfl
    unfold createC hasC
    simp [hr, hne, hf]
  setObs := by
    intro st name col i v h hr hrd hi
    obtain ⟨a', ha, hI, hrd', hn', hoth, hco⟩ := laws_ATab.setObs (abs st) name col i v (aI_abs h) hr hrd
      (by rw [show (abs st).size = st.rows.length from abs_size h]; exact hi)
    obtain ⟨e1, e2, e3⟩ := sim_ok (sim_setObs name i v) h ha
    refine ⟨(setObsC name i v st).2, Prod.ext e1 rfl, sI_of_inv e3, ?_, e3.size, ?_, ?_⟩
    · show aRd (abs _) name = _
      rw [e2]; exact hrd'
    · intro m hm
      show aRd (abs _) m = aRd (abs st) m
      rw [e2]; exact hoth m hm
    · funext c
      rw [← abs_coord, e2, hco, abs_coord]
  remove := by
    intro st name col h hr hrd
    obtain ⟨a', ha, hI, hrd', hn', hoth, hco⟩ := laws_ATab.remove (abs st) name col (aI_abs h) hr hrd
    obtain ⟨e1, e2, e3⟩ := sim_ok (sim_remove name) h ha
    refine ⟨(removeC name st).2, Prod.ext e1 rfl, sI_of_inv e3, ?_, e3.size, ?_, ?_⟩
    · show aRd (abs _) name = _
      rw [e2]; exact hrd'
    · intro m hm
      show aRd (abs _) m = aRd (abs st) m
      rw [e2]; exact hoth m hm
    · funext c
      rw [← abs_coord, e2, hco, abs_coord]

end TV.CinTab
