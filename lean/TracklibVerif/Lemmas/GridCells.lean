import TracklibVerif.Model.Grid
import TracklibVerif.Lemmas.Grid
import Mathlib.Algebra.Order.Field.Basic
import Mathlib.Algebra.Order.Ring.Cast
import Mathlib.Tactic.Ring
import Mathlib.Tactic.Linarith
import Mathlib.Tactic.Push
/-! Lemmas tying the functions of `Model/Grid.lean` (`isSegmentIntersects`, `cellHit`, `cellsCross`) to the
ordered-field geometry of `Lemmas/Grid.lean`. -/
namespace TV.Grid
variable {α : Type} [Field α] [LinearOrder α] [IsStrictOrderedRing α]

/-- contract of `math.floor` -/
def IsFloor (fl : α → Int) : Prop := ∀ x : α, ((fl x : Int) : α) ≤ x ∧ x < ((fl x : Int) : α) + 1

theorem IsFloor.mono {fl : α → Int} (h : IsFloor fl) {x y : α} (hxy : x ≤ y) : fl x ≤ fl y := by
  by_contra hc
  have hc : fl y + 1 ≤ fl x := by omega
  have h1 : ((fl y + 1 : Int) : α) ≤ ((fl x : Int) : α) := by exact_mod_cast hc
  have := (h x).1
  have := (h y).2
  push_cast at h1
  linarith

theorem IsFloor.eq_of {fl : α → Int} (h : IsFloor fl) {x : α} {k : Int}
    (h1 : ((k : Int) : α) ≤ x) (h2 : x < ((k : Int) : α) + 1) : fl x = k := by
  have a := (h x).1
  have b := (h x).2
  have c1 : ((k : Int) : α) < ((fl x + 1 : Int) : α) := by push_cast; linarith
  have c2 : ((fl x : Int) : α) < ((k + 1 : Int) : α) := by push_cast; linarith
  have d1 : k < fl x + 1 := by exact_mod_cast c1
  have d2 : fl x < k + 1 := by exact_mod_cast c2
  omega

omit [LinearOrder α] [IsStrictOrderedRing α] in
theorem evalLine_cartesienne (x1 y1 x2 y2 x y : α) :
    evalLine (cartesienne ⟨x1, y1, x2, y2⟩) x y = ev x1 y1 x2 y2 x y := rfl

theorem isSegmentIntersects_iff (s1 s2 : Seg α) :
    isSegmentIntersects s1 s2 = true ↔ inter s1.x1 s1.y1 s1.x2 s1.y2 s2.x1 s2.y1 s2.x2 s2.y2 := by
  cases s1; cases s2
  simp only [isSegmentIntersects, inter, evalLine_cartesienne, Bool.and_eq_true]
  constructor
  · rintro ⟨h1, h2⟩; exact ⟨of_decide_eq_true h1, of_decide_eq_true h2⟩
  · rintro ⟨h1, h2⟩; exact ⟨decide_eq_true h1, decide_eq_true h2⟩

/-- the test of `__cellsCrossSegment` for cell `(i, j)` succeeds whenever the segment `[c1, c2]` has a point in
the closed cell -/
theorem cellHit_of_point (c1 c2 : α × α) (i j : Int) (s : α) (hs0 : 0 ≤ s) (hs1 : s ≤ 1)
    (hx : ((i : Int) : α) ≤ c1.1 + s * (c2.1 - c1.1) ∧ c1.1 + s * (c2.1 - c1.1) ≤ ((i : Int) : α) + 1)
    (hy : ((j : Int) : α) ≤ c1.2 + s * (c2.2 - c1.2) ∧ c1.2 + s * (c2.2 - c1.2) ≤ ((j : Int) : α) + 1) :
    cellHit c1 c2 i j = true := by
  have core := cell_core c1.1 c1.2 c2.1 c2.2 s (i : α) (j : α) hs0 hs1 hx hy
  have ei : ((i + 1 : Int) : α) = (i : α) + 1 := by push_cast; ring
  have ej : ((j + 1 : Int) : α) = (j : α) + 1 := by push_cast; ring
  unfold cellHit
  simp only [ei, ej]
  rcases core with h | h | h | h | h
  · rw [if_pos]
    obtain ⟨⟨a1, a2, a3, a4⟩, b1, b2, b3, b4⟩ := h
    simp only [Bool.and_eq_true, decide_eq_true_eq]
    exact ⟨⟨⟨⟨⟨⟨⟨a1, a2⟩, b1⟩, b2⟩, a3⟩, a4⟩, b3⟩, b4⟩
  · have hI := (isSegmentIntersects_iff ⟨(i : α), (j : α), (i : α) + 1, (j : α)⟩ ⟨c1.1, c1.2, c2.1, c2.2⟩).mpr h
    split_ifs <;> simp_all
  · have hI := (isSegmentIntersects_iff ⟨(i : α), (j : α), (i : α), (j : α) + 1⟩ ⟨c1.1, c1.2, c2.1, c2.2⟩).mpr h
    split_ifs <;> simp_all
  · have hI := (isSegmentIntersects_iff ⟨(i : α), (j : α) + 1, (i : α) + 1, (j : α) + 1⟩ ⟨c1.1, c1.2, c2.1, c2.2⟩).mpr h
    split_ifs <;> simp_all
  · have hI := (isSegmentIntersects_iff ⟨(i : α) + 1, (j : α), (i : α) + 1, (j : α) + 1⟩ ⟨c1.1, c1.2, c2.1, c2.2⟩).mpr h
    split_ifs <;> simp_all

/-! ### membership in the cell list built by the two nested loops -/

theorem mem_rangeI (lo hi k : Int) : k ∈ rangeI lo hi ↔ lo ≤ k ∧ k < hi := by
  unfold rangeI
  simp only [List.mem_map, List.mem_range]
  constructor
  · rintro ⟨n, hn, rfl⟩; omega
  · rintro ⟨h1, h2⟩
    exact ⟨(k - lo).toNat, by omega, by omega⟩

theorem mem_addNew {β : Type} [BEq β] [LawfulBEq β] (l : List β) (x y : β) : y ∈ addNew l x ↔ y ∈ l ∨ y = x := by
  unfold addNew
  by_cases h : l.contains x = true
  · simp only [h, if_true]
    constructor
    · exact Or.inl
    · rintro (h' | rfl)
      · exact h'
      · exact List.contains_iff_mem.mp h
  · simp only [h, if_false, List.mem_append, List.mem_singleton, Bool.false_eq_true]

theorem mem_addAll {β : Type} [BEq β] [LawfulBEq β] (values tab : List β) (y : β) :
    y ∈ addAll tab values ↔ y ∈ tab ∨ y ∈ values := by
  unfold addAll
  induction values generalizing tab with
  | nil => simp
  | cons v vs ih =>
    simp only [List.foldl_cons, ih, mem_addNew, List.mem_cons]
    tauto

theorem mem_inner (hit : Int → Int → Bool) (i : Int) (js : List Int) (init : List (Int × Int)) (c : Int × Int) :
    c ∈ js.foldl (fun cells j => if hit i j then addNew cells (i, j) else cells) init
      ↔ c ∈ init ∨ ∃ j ∈ js, hit i j = true ∧ c = (i, j) := by
  induction js generalizing init with
  | nil => simp
  | cons j js ih =>
    simp only [List.foldl_cons, ih, List.mem_cons]
    by_cases h : hit i j = true
    · simp only [h, if_true, mem_addNew]
      constructor
      · rintro ((h1 | h1) | ⟨j', hj', h2, h3⟩)
        · exact Or.inl h1
        · exact Or.inr ⟨j, Or.inl rfl, h, h1⟩
        · exact Or.inr ⟨j', Or.inr hj', h2, h3⟩
      · rintro (h1 | ⟨j', hj' | hj', h2, h3⟩)
        · exact Or.inl (Or.inl h1)
        · subst hj'; exact Or.inl (Or.inr h3)
        · exact Or.inr ⟨j', hj', h2, h3⟩
    · simp only [h, if_false, Bool.false_eq_true]
      constructor
      · rintro (h1 | ⟨j', hj', h2, h3⟩)
        · exact Or.inl h1
        · exact Or.inr ⟨j', Or.inr hj', h2, h3⟩
      · rintro (h1 | ⟨j', hj' | hj', h2, h3⟩)
        · exact Or.inl h1
        · subst hj'; exact absurd h2 h
        · exact Or.inr ⟨j', hj', h2, h3⟩

theorem mem_outer (hit : Int → Int → Bool) (is js : List Int) (init : List (Int × Int)) (c : Int × Int) :
    c ∈ is.foldl (fun cells i => js.foldl (fun cells j => if hit i j then addNew cells (i, j) else cells) cells) init
      ↔ c ∈ init ∨ ∃ i ∈ is, ∃ j ∈ js, hit i j = true ∧ c = (i, j) := by
  induction is generalizing init with
  | nil => simp
  | cons i is ih =>
    simp only [List.foldl_cons, ih, mem_inner, List.mem_cons]
    constructor
    · rintro ((h1 | ⟨j, hj, h2, h3⟩) | ⟨i', hi', h2⟩)
      · exact Or.inl h1
      · exact Or.inr ⟨i, Or.inl rfl, j, hj, h2, h3⟩
      · exact Or.inr ⟨i', Or.inr hi', h2⟩
    · rintro (h1 | ⟨i', hi' | hi', h2⟩)
      · exact Or.inl (Or.inl h1)
      · subst hi'; exact Or.inl (Or.inr h2)
      · exact Or.inr ⟨i', hi', h2⟩

omit [IsStrictOrderedRing α] in
/-- `__cellsCrossSegment` returns exactly the cells of the (clamped) index box that pass the test -/
theorem mem_cellsCross (fl : α → Int) (cs ls : Int) (c1 c2 : α × α) (i j : Int) :
    (i, j) ∈ cellsCross fl cs ls c1 c2 ↔
      (min (min (fl c1.1) (fl c2.1)) (cs - 1) ≤ i ∧ i ≤ min (max (fl c1.1) (fl c2.1)) (cs - 1)) ∧
      (min (min (fl c1.2) (fl c2.2)) (ls - 1) ≤ j ∧ j ≤ min (max (fl c1.2) (fl c2.2)) (ls - 1)) ∧
      cellHit c1 c2 i j = true := by
  unfold cellsCross
  simp only [mem_outer, mem_rangeI, List.not_mem_nil, false_or, Prod.mk.injEq]
  constructor
  · rintro ⟨i', ⟨a, b⟩, j', ⟨c, d⟩, h, rfl, rfl⟩
    exact ⟨⟨a, by omega⟩, ⟨c, by omega⟩, h⟩
  · rintro ⟨⟨a, b⟩, ⟨c, d⟩, h⟩
    exact ⟨i, ⟨a, by omega⟩, j, ⟨c, by omega⟩, h, rfl, rfl⟩

/-- a convex combination lies between the two ends -/
theorem conv_between (a b s : α) (hs0 : 0 ≤ s) (hs1 : s ≤ 1) :
    min a b ≤ a + s * (b - a) ∧ a + s * (b - a) ≤ max a b := by
  have := between a b (min a b) (max a b) s hs0 hs1 ⟨min_le_left _ _, le_max_left _ _⟩ ⟨min_le_right _ _, le_max_right _ _⟩
  exact this

theorem floor_conv_box {fl : α → Int} (hf : IsFloor fl) (a b s : α) (hs0 : 0 ≤ s) (hs1 : s ≤ 1) :
    min (fl a) (fl b) ≤ fl (a + s * (b - a)) ∧ fl (a + s * (b - a)) ≤ max (fl a) (fl b) := by
  obtain ⟨h1, h2⟩ := conv_between a b s hs0 hs1
  constructor
  · rcases le_total a b with h | h
    · rw [min_eq_left h] at h1
      exact le_trans (min_le_left _ _) (hf.mono h1)
    · rw [min_eq_right h] at h1
      exact le_trans (min_le_right _ _) (hf.mono h1)
  · rcases le_total a b with h | h
    · rw [max_eq_right h] at h2
      exact le_trans (hf.mono h2) (le_max_right _ _)
    · rw [max_eq_left h] at h2
      exact le_trans (hf.mono h2) (le_max_left _ _)

/-- one axis of `cells_complete`: the clamped integer index `min(floor x, n − 1)` of a fractional index `x ≤ n`
designates a closed unit interval that contains `x` (the last one is closed on the upper side) -/
theorem clamp_closed {fl : α → Int} (hf : IsFloor fl) (x : α) (n : Int) (hx : x ≤ ((n : Int) : α)) :
    (((min (fl x) (n - 1) : Int) : Int) : α) ≤ x ∧ x ≤ (((min (fl x) (n - 1) : Int) : Int) : α) + 1 := by
  rcases le_total (fl x) (n - 1) with h | h
  · rw [min_eq_left h]
    exact ⟨(hf x).1, le_of_lt (hf x).2⟩
  · rw [min_eq_right h]
    constructor
    · have : (((n - 1 : Int) : Int) : α) ≤ ((fl x : Int) : α) := by exact_mod_cast h
      exact le_trans this (hf x).1
    · push_cast; linarith

/-- T2 (`cells_complete`): for every point `P` of the segment `[c1, c2]` (fractional cell indices) with
`Px ≤ csize` and `Py ≤ lsize`, the cell `(min(floor Px, csize − 1), min(floor Py, lsize − 1))` — the cell containing
`P`, the last column / row being closed on the upper border — is in the list returned by
`__cellsCrossSegment(c1, c2)` -/
theorem cellsCross_complete {fl : α → Int} (hf : IsFloor fl) (cs ls : Int) (c1 c2 : α × α) (s : α) (hs0 : 0 ≤ s) (hs1 : s ≤ 1)
    (hx : c1.1 + s * (c2.1 - c1.1) ≤ ((cs : Int) : α)) (hy : c1.2 + s * (c2.2 - c1.2) ≤ ((ls : Int) : α)) :
    (min (fl (c1.1 + s * (c2.1 - c1.1))) (cs - 1), min (fl (c1.2 + s * (c2.2 - c1.2))) (ls - 1)) ∈ cellsCross fl cs ls c1 c2 := by
  rw [mem_cellsCross]
  obtain ⟨a1, a2⟩ := floor_conv_box hf c1.1 c2.1 s hs0 hs1
  obtain ⟨b1, b2⟩ := floor_conv_box hf c1.2 c2.2 s hs0 hs1
  refine ⟨⟨by omega, by omega⟩, ⟨by omega, by omega⟩, ?_⟩
  exact cellHit_of_point c1 c2 _ _ s hs0 hs1 (clamp_closed hf _ cs hx) (clamp_closed hf _ ls hy)

end TV.Grid
