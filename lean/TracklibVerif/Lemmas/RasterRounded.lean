import TracklibVerif.Lemmas.Raster
import Mathlib.Data.Rat.Floor
import Mathlib.Tactic.NormNum
/-! Rounded arithmetic for the grid geometry of C19.

`RQ rnd` is the type of rationals on which every arithmetic operation (`+ - * /`, the conversion of an integer) is
followed by a rounding `rnd : ℚ → ℚ`; comparisons are exact. The polymorphic model (`mkGrid`, `getCell`, `scatter` of
`Model/Raster.lean`) instantiated at `RQ rnd` is the computation Python performs in floating point as soon as `rnd` is
the rounding of the float format. What is assumed of `rnd` is stated explicitly: `Rounding` (monotone, the integers up
to the grid size are representable: IEEE binary64 in any rounding mode, below 2^53) and `RoundingErr` (relative error
at most `u`: `u = 2^-53` for round-to-nearest, barring underflow). -/

namespace TV.Raster

/-- rationals on which every arithmetic operation is followed by the rounding `rnd` -/
structure RQ (rnd : ℚ → ℚ) where
  v : ℚ

namespace RQ
variable {rnd : ℚ → ℚ}
instance : Add (RQ rnd) := ⟨fun a b => ⟨rnd (a.v + b.v)⟩⟩
instance : Sub (RQ rnd) := ⟨fun a b => ⟨rnd (a.v - b.v)⟩⟩
instance : Mul (RQ rnd) := ⟨fun a b => ⟨rnd (a.v * b.v)⟩⟩
instance : Div (RQ rnd) := ⟨fun a b => ⟨rnd (a.v / b.v)⟩⟩
instance : OfNat (RQ rnd) 0 := ⟨⟨0⟩⟩
instance : OfNat (RQ rnd) 1 := ⟨⟨1⟩⟩
instance : OfNat (RQ rnd) 2 := ⟨⟨2⟩⟩
instance : IntCast (RQ rnd) := ⟨fun n => ⟨rnd n⟩⟩
instance : NatCast (RQ rnd) := ⟨fun n => ⟨rnd n⟩⟩
instance : LT (RQ rnd) := ⟨fun a b => a.v < b.v⟩
instance : LE (RQ rnd) := ⟨fun a b => a.v ≤ b.v⟩
instance : DecidableLT (RQ rnd) := fun a b => inferInstanceAs (Decidable (a.v < b.v))
instance : DecidableLE (RQ rnd) := fun a b => inferInstanceAs (Decidable (a.v ≤ b.v))
instance : BEq (RQ rnd) := ⟨fun a b => decide (a.v = b.v)⟩
def floor (a : RQ rnd) : Int := ⌊a.v⌋
def ceil (a : RQ rnd) : Int := ⌈a.v⌉

@[simp] theorem sub_v (a b : RQ rnd) : (a - b).v = rnd (a.v - b.v) := rfl
@[simp] theorem div_v (a b : RQ rnd) : (a / b).v = rnd (a.v / b.v) := rfl
@[simp] theorem add_v (a b : RQ rnd) : (a + b).v = rnd (a.v + b.v) := rfl
@[simp] theorem mul_v (a b : RQ rnd) : (a * b).v = rnd (a.v * b.v) := rfl
@[simp] theorem intCast_v (n : ℤ) : ((n : RQ rnd)).v = rnd n := rfl
theorem lt_def (a b : RQ rnd) : a < b ↔ a.v < b.v := Iff.rfl
theorem beq_def (a b : RQ rnd) : (a == b) = decide (a.v = b.v) := rfl
end RQ

/-- what is assumed of the rounding: monotone, and the integers up to `N` are representable -/
structure Rounding (rnd : ℚ → ℚ) (N : ℤ) : Prop where
  mono : Monotone rnd
  int : ∀ n : ℤ, |n| ≤ N → rnd n = n

variable {rnd : ℚ → ℚ}

/-- the grid as `Raster.__init__` computes it in rounded arithmetic -/
structure WFR (g : Grid (RQ rnd)) : Prop where
  rx : 0 < g.rx.v
  ry : 0 < g.ry.v
  ncol : g.ncol = max 1 (RQ.ceil ((g.xmax - g.xmin) / g.rx))
  nrow : g.nrow = max 1 (RQ.ceil ((g.ymax - g.ymin) / g.ry))

theorem getCell_RQ_inside (g : Grid (RQ rnd)) (x y : RQ rnd)
    (hx : g.xmin.v ≤ x.v ∧ x.v ≤ g.xmax.v) (hy : g.ymin.v ≤ y.v ∧ y.v ≤ g.ymax.v) :
    getCell RQ.floor g x y = some
      ((if ((x - g.xmin) / g.rx).v = rnd (g.ncol : ℚ) then ⌊((x - g.xmin) / g.rx).v⌋ - 1 else ⌊((x - g.xmin) / g.rx).v⌋),
       (let idy : ℚ := rnd (rnd ((g.nrow - 1 : ℤ) : ℚ) - ((y - g.ymin) / g.ry).v)
        if (rnd (⌊idy⌋ : ℚ) = idy ∧ ⌊idy⌋ > -1) then ⌊idy⌋
        else if (rnd (⌊idy⌋ : ℚ) = idy ∧ ⌊idy⌋ = -1) then ⌊idy⌋ + 1
        else ⌊idy⌋ + 1)) := by
  unfold getCell
  have h1 : ¬ (x < g.xmin ∨ g.xmax < x) := by
    simp only [RQ.lt_def]; push Not; exact ⟨hx.1, hx.2⟩
  have h2 : ¬ (y < g.ymin ∨ g.ymax < y) := by
    simp only [RQ.lt_def]; push Not; exact ⟨hy.1, hy.2⟩
  simp only [h1, h2, ↓reduceIte, RQ.beq_def, RQ.floor, RQ.sub_v, RQ.div_v, RQ.intCast_v, Bool.and_eq_true,
    decide_eq_true_eq, beq_iff_eq]
  simp


theorem Rounding.zero {N : ℤ} (hr : Rounding rnd N) (hN : 0 ≤ N) : rnd 0 = 0 := by
  have := hr.int 0 (by simpa using hN); simpa using this

/-- the normalised coordinate `rnd (rnd (x - lo) / r)` of a point of `[lo, hi]` lies between 0 and that of `hi` -/
theorem Rounding.norm_range {N : ℤ} (hr : Rounding rnd N) (hN : 0 ≤ N) (lo hi r x : ℚ) (hrp : 0 < r)
    (h0 : lo ≤ x) (h1 : x ≤ hi) :
    0 ≤ rnd (rnd (x - lo) / r) ∧ rnd (rnd (x - lo) / r) ≤ rnd (rnd (hi - lo) / r) := by
  have z := hr.zero hN
  have a : 0 ≤ rnd (x - lo) := by rw [← z]; exact hr.mono (by linarith)
  have b : rnd (x - lo) ≤ rnd (hi - lo) := hr.mono (by linarith)
  refine ⟨?_, hr.mono (div_le_div_of_nonneg_right b hrp.le)⟩
  rw [← z]; exact hr.mono (div_nonneg a hrp.le)

/-- `getCell` in rounded arithmetic on a point of the extent: the cell is in the grid; the column brackets the rounded
    normalised abscissa `qx`, the line brackets `(nrow-1) - idy` for the rounded `idy` -/
theorem getCell_rounded_core {N : ℤ} (hr : Rounding rnd N) (g : Grid (RQ rnd)) (hg : WFR g)
    (hN : g.ncol ≤ N ∧ g.nrow ≤ N) (x y : RQ rnd)
    (hx : g.xmin.v ≤ x.v ∧ x.v ≤ g.xmax.v) (hy : g.ymin.v ≤ y.v ∧ y.v ≤ g.ymax.v) :
    ∃ c l : ℤ, getCell RQ.floor g x y = some (c, l) ∧ 0 ≤ c ∧ c < g.ncol ∧ 0 ≤ l ∧ l < g.nrow
      ∧ (c : ℚ) ≤ rnd (rnd (x.v - g.xmin.v) / g.rx.v) ∧ rnd (rnd (x.v - g.xmin.v) / g.rx.v) ≤ (c : ℚ) + 1
      ∧ ((g.nrow - 1 - l : ℤ) : ℚ)
          ≤ ((g.nrow - 1 : ℤ) : ℚ) - rnd (((g.nrow - 1 : ℤ) : ℚ) - rnd (rnd (y.v - g.ymin.v) / g.ry.v))
      ∧ ((g.nrow - 1 : ℤ) : ℚ) - rnd (((g.nrow - 1 : ℤ) : ℚ) - rnd (rnd (y.v - g.ymin.v) / g.ry.v))
          ≤ ((g.nrow - l : ℤ) : ℚ) := by
  have hncol_pos : 0 < g.ncol := by rw [hg.ncol]; exact lt_of_lt_of_le Int.one_pos (le_max_left _ _)
  have hnrow_pos : 0 < g.nrow := by rw [hg.nrow]; exact lt_of_lt_of_le Int.one_pos (le_max_left _ _)
  have hN0 : 0 ≤ N := by omega
  have hcolN : rnd (g.ncol : ℚ) = g.ncol := hr.int _ (by rw [abs_of_pos hncol_pos]; exact hN.1)
  refine ⟨_, _, getCell_RQ_inside g x y hx hy, ?_⟩
  -- column
  obtain ⟨hu0, huA⟩ := hr.norm_range hN0 g.xmin.v g.xmax.v g.rx.v x.v hg.rx hx.1 hx.2
  have hcol := col_spec g.ncol (((x - g.xmin) / g.rx).v) (((g.xmax - g.xmin) / g.rx).v) hu0 huA hg.ncol _ rfl
  rw [hcolN]
  have hcol4 : ((x - g.xmin) / g.rx).v ≤
      ((if ((x - g.xmin) / g.rx).v = (g.ncol : ℚ) then ⌊((x - g.xmin) / g.rx).v⌋ - 1 else ⌊((x - g.xmin) / g.rx).v⌋ : ℤ) : ℚ) + 1 := by
    rcases hcol.2.2.2 with h | ⟨h1, h2⟩
    · exact h.le
    · rw [h1, h2]; push_cast; linarith
  refine ⟨hcol.1, hcol.2.1, ?_⟩
  -- line
  obtain ⟨hv0, hvB⟩ := hr.norm_range hN0 g.ymin.v g.ymax.v g.ry.v y.v hg.ry hy.1 hy.2
  have hBn : ((g.ymax - g.ymin) / g.ry).v ≤ (g.nrow : ℚ) := by
    rw [hg.nrow]; exact (max_one_ceil _).2
  set v : ℚ := ((y - g.ymin) / g.ry).v with hv
  have hvn : v ≤ (g.nrow : ℚ) := hvB.trans hBn
  have hv0' : 0 ≤ v := hv0
  have hn1 : rnd ((g.nrow - 1 : ℤ) : ℚ) = ((g.nrow - 1 : ℤ) : ℚ) :=
    hr.int _ (by rw [abs_of_nonneg (by omega)]; omega)
  have hm1 : rnd ((-1 : ℤ) : ℚ) = ((-1 : ℤ) : ℚ) := hr.int _ (by simp; omega)
  rw [hn1]
  have hvdef : rnd (rnd (y.v - g.ymin.v) / g.ry.v) = v := rfl
  rw [hvdef]
  set idy : ℚ := rnd (((g.nrow - 1 : ℤ) : ℚ) - v) with hidy
  have hidy_ge : ((-1 : ℤ) : ℚ) ≤ idy := by
    rw [← hm1]; apply hr.mono; push_cast; linarith
  have hidy_le : idy ≤ ((g.nrow - 1 : ℤ) : ℚ) := by
    rw [← hn1]; apply hr.mono; linarith
  have hf_ge : -1 ≤ ⌊idy⌋ := Int.le_floor.2 hidy_ge
  have hf_le : ⌊idy⌋ ≤ g.nrow - 1 := by
    have : (⌊idy⌋ : ℚ) ≤ ((g.nrow - 1 : ℤ) : ℚ) := (Int.floor_le idy).trans hidy_le
    exact_mod_cast this
  have hfl : rnd (⌊idy⌋ : ℚ) = (⌊idy⌋ : ℚ) := hr.int _ (by rw [abs_le]; constructor <;> omega)
  simp only [hfl]
  have hceil : g.nrow = max 1 ⌈((g.nrow : ℤ) : ℚ)⌉ := by rw [Int.ceil_intCast]; omega
  have hline := line_spec g.nrow (((g.nrow - 1 : ℤ) : ℚ) - idy) (g.nrow : ℚ)
    (by linarith) (by push_cast at hidy_ge ⊢; linarith) hceil idy _ (by ring) rfl
  refine ⟨hline.1, hline.2.1, hcol.2.2.1, hcol4, hline.2.2.1, ?_⟩
  rcases hline.2.2.2 with h | ⟨h1, h2⟩
  · exact h.le
  · rw [h1, h2]; push_cast; linarith

/-- **No index outside the grid under rounding.** With every operation of `Raster.__init__` and `Raster.getCell`
rounded by a monotone rounding that leaves the integers up to the grid size unchanged (IEEE double precision, any
rounding mode, grids of fewer than 2^53 lines and columns), every point of the extent gets a column `0 ≤ c < ncol`
and a line `0 ≤ l < nrow`. -/
theorem getCell_rounded_range {N : ℤ} (hr : Rounding rnd N) (g : Grid (RQ rnd)) (hg : WFR g)
    (hN : g.ncol ≤ N ∧ g.nrow ≤ N) (x y : RQ rnd)
    (hx : g.xmin.v ≤ x.v ∧ x.v ≤ g.xmax.v) (hy : g.ymin.v ≤ y.v ∧ y.v ≤ g.ymax.v) :
    ∃ c l : ℤ, getCell RQ.floor g x y = some (c, l) ∧ 0 ≤ c ∧ c < g.ncol ∧ 0 ≤ l ∧ l < g.nrow := by
  obtain ⟨c, l, h, h1, h2, h3, h4, _⟩ := getCell_rounded_core hr g hg hN x y hx hy
  exact ⟨c, l, h, h1, h2, h3, h4⟩

/-- a rounding with relative error at most `u` (IEEE double precision, round to nearest: `u = 2^-53`) -/
structure RoundingErr (rnd : ℚ → ℚ) (N : ℤ) (u : ℚ) : Prop extends Rounding rnd N where
  u0 : 0 ≤ u
  u1 : u ≤ 1
  err : ∀ t : ℚ, |rnd t - t| ≤ u * |t|

/-- the normalised coordinate `q = rnd (rnd d / r)` of an offset `d ≥ 0`, back in ground units: `q r` is `d` up to the
    factor `(1 ± u)²` -/
theorem RoundingErr.norm_err {N : ℤ} {u : ℚ} (hr : RoundingErr rnd N u) (d r : ℚ) (hd : 0 ≤ d) (hrp : 0 < r) :
    rnd (rnd d / r) * r ≤ d * (1 + u) ^ 2 ∧ d * (1 - u) ^ 2 ≤ rnd (rnd d / r) * r := by
  have e1 := abs_le.1 (hr.err d)
  rw [abs_of_nonneg hd] at e1
  have hd1 : 0 ≤ rnd d := by nlinarith [hr.u1, e1.1]
  have ht1 : 0 ≤ rnd d / r := div_nonneg hd1 hrp.le
  have e2 := abs_le.1 (hr.err (rnd d / r))
  rw [abs_of_nonneg ht1] at e2
  have hmul : rnd d / r * r = rnd d := div_mul_cancel₀ _ hrp.ne'
  have hu0 := hr.u0
  have hu1 := hr.u1
  constructor
  · have a : rnd (rnd d / r) * r ≤ (rnd d / r) * (1 + u) * r := by
      apply mul_le_mul_of_nonneg_right _ hrp.le; nlinarith [e2.2]
    have b : (rnd d / r) * (1 + u) * r = rnd d * (1 + u) := by rw [mul_right_comm, hmul]
    have c : rnd d * (1 + u) ≤ d * (1 + u) * (1 + u) := by
      apply mul_le_mul_of_nonneg_right _ (by linarith); nlinarith [e1.2]
    calc rnd (rnd d / r) * r ≤ rnd d * (1 + u) := by rw [← b]; exact a
      _ ≤ d * (1 + u) ^ 2 := by rw [pow_two, ← mul_assoc]; exact c
  · have a : (rnd d / r) * (1 - u) * r ≤ rnd (rnd d / r) * r := by
      apply mul_le_mul_of_nonneg_right _ hrp.le; nlinarith [e2.1]
    have b : (rnd d / r) * (1 - u) * r = rnd d * (1 - u) := by rw [mul_right_comm, hmul]
    have c : d * (1 - u) * (1 - u) ≤ rnd d * (1 - u) := by
      apply mul_le_mul_of_nonneg_right _ (by linarith); nlinarith [e1.1]
    calc d * (1 - u) ^ 2 = d * (1 - u) * (1 - u) := by ring
      _ ≤ rnd d * (1 - u) := c
      _ ≤ rnd (rnd d / r) * r := by rw [← b]; exact a


/-- footprint of the cell (column `c`, line `l` from the top) up to the rounding allowance: the offset of the point
    from the grid origin, scaled by `(1 ± u)²`, lies between the cell's two edges; for the lines the subtraction from
    `nrow - 1` adds `u · nrow · ry` (`u` of the grid height) -/
def InCellUpTo (g : Grid (RQ rnd)) (u : ℚ) (c l : ℤ) (x y : ℚ) : Prop :=
  (c : ℚ) * g.rx.v ≤ (x - g.xmin.v) * (1 + u) ^ 2 ∧ (x - g.xmin.v) * (1 - u) ^ 2 ≤ ((c : ℚ) + 1) * g.rx.v ∧
  ((g.nrow - 1 - l : ℤ) : ℚ) * g.ry.v ≤ (y - g.ymin.v) * (1 + u) ^ 2 + u * g.nrow * g.ry.v ∧
  (y - g.ymin.v) * (1 - u) ^ 2 ≤ ((g.nrow - l : ℤ) : ℚ) * g.ry.v + u * g.nrow * g.ry.v

theorem getCell_rounded_footprint {N : ℤ} {u : ℚ} (hr : RoundingErr rnd N u) (g : Grid (RQ rnd)) (hg : WFR g)
    (hN : g.ncol ≤ N ∧ g.nrow ≤ N) (x y : RQ rnd)
    (hx : g.xmin.v ≤ x.v ∧ x.v ≤ g.xmax.v) (hy : g.ymin.v ≤ y.v ∧ y.v ≤ g.ymax.v) :
    ∃ c l : ℤ, getCell RQ.floor g x y = some (c, l) ∧ 0 ≤ c ∧ c < g.ncol ∧ 0 ≤ l ∧ l < g.nrow
      ∧ InCellUpTo g u c l x.v y.v := by
  obtain ⟨c, l, h, h1, h2, h3, h4, cx0, cx1, ly0, ly1⟩ := getCell_rounded_core hr.toRounding g hg hN x y hx hy
  refine ⟨c, l, h, h1, h2, h3, h4, ?_⟩
  have hrx := hg.rx
  have hry := hg.ry
  obtain ⟨ex1, ex0⟩ := hr.norm_err (x.v - g.xmin.v) g.rx.v (by linarith [hx.1]) hrx
  obtain ⟨ey1, ey0⟩ := hr.norm_err (y.v - g.ymin.v) g.ry.v (by linarith [hy.1]) hry
  set qx : ℚ := rnd (rnd (x.v - g.xmin.v) / g.rx.v)
  set v : ℚ := rnd (rnd (y.v - g.ymin.v) / g.ry.v)
  -- the rounded subtraction from nrow - 1
  have hnrow_pos : 0 < g.nrow := by rw [hg.nrow]; exact lt_of_lt_of_le Int.one_pos (le_max_left _ _)
  have hN0 : 0 ≤ N := by omega
  obtain ⟨hv0, hvB⟩ := hr.toRounding.norm_range hN0 g.ymin.v g.ymax.v g.ry.v y.v hry hy.1 hy.2
  have hBn : ((g.ymax - g.ymin) / g.ry).v ≤ (g.nrow : ℚ) := by rw [hg.nrow]; exact (max_one_ceil _).2
  have hvn : v ≤ (g.nrow : ℚ) := hvB.trans hBn
  have hv0' : 0 ≤ v := hv0
  have es := abs_le.1 (hr.err (((g.nrow - 1 : ℤ) : ℚ) - v))
  have hn1q : (1 : ℚ) ≤ g.nrow := by exact_mod_cast hnrow_pos
  have habs : |((g.nrow - 1 : ℤ) : ℚ) - v| ≤ (g.nrow : ℚ) := by
    rw [abs_le]; push_cast; constructor <;> linarith
  have hub : u * |((g.nrow - 1 : ℤ) : ℚ) - v| ≤ u * g.nrow := mul_le_mul_of_nonneg_left habs hr.u0
  set idy : ℚ := rnd (((g.nrow - 1 : ℤ) : ℚ) - v)
  refine ⟨?_, ?_, ?_, ?_⟩
  · calc (c : ℚ) * g.rx.v ≤ qx * g.rx.v := mul_le_mul_of_nonneg_right cx0 hrx.le
      _ ≤ _ := ex1
  · calc _ ≤ qx * g.rx.v := ex0
      _ ≤ ((c : ℚ) + 1) * g.rx.v := mul_le_mul_of_nonneg_right cx1 hrx.le
  · have a : ((g.nrow - 1 - l : ℤ) : ℚ) ≤ v + u * g.nrow := by linarith [es.1, es.2]
    calc ((g.nrow - 1 - l : ℤ) : ℚ) * g.ry.v ≤ (v + u * g.nrow) * g.ry.v := mul_le_mul_of_nonneg_right a hry.le
      _ = v * g.ry.v + u * g.nrow * g.ry.v := by ring
      _ ≤ _ := by linarith
  · have a : v ≤ ((g.nrow - l : ℤ) : ℚ) + u * g.nrow := by linarith [es.1, es.2]
    calc _ ≤ v * g.ry.v := ey0
      _ ≤ (((g.nrow - l : ℤ) : ℚ) + u * g.nrow) * g.ry.v := mul_le_mul_of_nonneg_right a hry.le
      _ = _ := by ring


/-! ### a concrete rounding, for the non-vacuity examples: exact below 1 in magnitude, rounded down to a multiple of
    1/8 above (relative error at most 1/8) -/
def rnd8 (t : ℚ) : ℚ := if |t| < 1 then t else (⌊8 * t⌋ : ℚ) / 8

theorem rnd8_le (t : ℚ) : rnd8 t ≤ t := by
  unfold rnd8; split
  · exact le_rfl
  · rw [div_le_iff₀ (by norm_num)]; linarith [Int.floor_le (8 * t)]

theorem rnd8_gt (t : ℚ) : t - 1 / 8 < rnd8 t := by
  unfold rnd8; split
  · linarith
  · rw [lt_div_iff₀ (by norm_num)]; linarith [Int.lt_floor_add_one (8 * t)]

theorem rnd8_mono : Monotone rnd8 := by
  intro a b hab
  by_cases ha : |a| < 1 <;> by_cases hb : |b| < 1
  · simp [rnd8, ha, hb, hab]
  · -- b ≥ 1
    have hb1 : 1 ≤ b := by
      rcases le_abs'.1 (not_lt.1 hb) with h | h
      · have := (abs_lt.1 ha).1; linarith
      · exact h
    have : (8 : ℚ) ≤ (⌊8 * b⌋ : ℚ) := by
      have : (8 : ℤ) ≤ ⌊8 * b⌋ := Int.le_floor.2 (by push_cast; linarith)
      exact_mod_cast this
    have hr : 1 ≤ rnd8 b := by
      simp only [rnd8, hb, if_false]; rw [le_div_iff₀ (by norm_num)]; linarith
    have : rnd8 a = a := by simp [rnd8, ha]
    rw [this]; linarith [(abs_lt.1 ha).2]
  · have ha1 : a ≤ -1 := by
      rcases le_abs'.1 (not_lt.1 ha) with h | h
      · exact h
      · have := (abs_lt.1 hb).2; linarith
    have : rnd8 b = b := by simp [rnd8, hb]
    rw [this]; linarith [rnd8_le a, (abs_lt.1 hb).1]
  · simp only [rnd8, ha, hb, if_false]
    apply div_le_div_of_nonneg_right _ (by norm_num : (0 : ℚ) ≤ 8)
    have : ⌊8 * a⌋ ≤ ⌊8 * b⌋ := Int.floor_le_floor (by linarith)
    exact_mod_cast this

theorem rnd8_int (n : ℤ) : rnd8 n = n := by
  unfold rnd8; split
  · rfl
  · have : (8 : ℚ) * (n : ℚ) = ((8 * n : ℤ) : ℚ) := by push_cast; ring
    rw [this, Int.floor_intCast]; push_cast; ring

theorem rnd8_rounding (N : ℤ) : RoundingErr rnd8 N (1 / 8) where
  mono := rnd8_mono
  int := fun n _ => rnd8_int n
  u0 := by norm_num
  u1 := by norm_num
  err := fun t => by
    by_cases h : |t| < 1
    · have : rnd8 t = t := by simp [rnd8, h]
      rw [this]; simp
    · have h1 : 1 ≤ |t| := not_lt.1 h
      rw [abs_le]; constructor <;> linarith [rnd8_le t, rnd8_gt t]


/-- the grid `Raster.__init__` builds in rounded arithmetic is `WFR` -/
theorem mkGrid_wfr (bx0 bx1 by0 by1 rx ry margin : RQ rnd) (hrx : 0 < rx.v) (hry : 0 < ry.v) :
    WFR (mkGrid RQ.ceil bx0 bx1 by0 by1 rx ry margin) :=
  ⟨hrx, hry, rfl, rfl⟩

end TV.Raster
