import TracklibVerif.Model.Partition
/-! The matrices built by the front ends (`optimalSegmentation`, `findStopsGlobal`): the nested loops with in-place
assignment (and, for stop detection, the `break`) compute the closed forms. Core Lean only. -/
namespace TV.Partition
variable {α : Type}

/-! ### loops that write cells -/

/-- one row: `for j in range(lo, lo+n): C[i,j] = v j` -/
theorem row_write (C : Nat → Nat → α) (i lo : Nat) (v : Nat → α) :
    ∀ n a b, loop lo n (fun j C => upd C i j (v j)) C a b =
      if a = i ∧ lo ≤ b ∧ b < lo + n then v b else C a b := by
  intro n
  induction n with
  | zero => intro a b; simp only [loop]; rw [if_neg (by omega)]
  | succ n ih =>
    intro a b
    simp only [loop, upd]
    by_cases h : a = i ∧ b = lo + n
    · rw [if_pos h, if_pos ⟨h.1, by omega, by omega⟩, h.2]
    · rw [if_neg h, ih]
      by_cases h2 : a = i ∧ lo ≤ b ∧ b < lo + n
      · rw [if_pos h2, if_pos ⟨h2.1, h2.2.1, by omega⟩]
      · rw [if_neg h2, if_neg (by omega)]

/-- the cells written by `optimalSegmentation`'s two loops -/
theorem segFill_rows (zero : α) (size : Nat) (cost : Nat → Int → α) :
    ∀ m, m ≤ size - 2 → ∀ a b,
      loop 0 m (fun i C => loop i (size - 1 - i) (fun j C => upd C i j (cost i ((j : Int) - 1))) C) (fun _ _ => zero) a b =
        if a < m ∧ a ≤ b ∧ b + 1 < size then cost a ((b : Int) - 1) else zero := by
  intro m
  induction m with
  | zero => intro _ a b; simp [loop]
  | succ m ih =>
    intro hm a b
    simp only [loop, Nat.zero_add]
    rw [row_write]
    by_cases h : a = m ∧ m ≤ b ∧ b < m + (size - 1 - m)
    · rw [if_pos h, if_pos (by omega), h.1]
    · rw [if_neg h, ih (by omega)]
      by_cases h2 : a < m ∧ a ≤ b ∧ b + 1 < size
      · rw [if_pos h2, if_pos (by omega)]
      · rw [if_neg h2, if_neg (by omega)]

/-- **loop form = closed form** of `optimalSegmentation`'s matrix -/
theorem segFill_eq (zero : α) (size : Nat) (cost : Nat → Int → α) (a b : Nat) :
    segFill zero size cost a b =
      if a + 2 < size ∧ a ≤ b ∧ b + 1 < size then cost a ((b : Int) - 1) else zero := by
  unfold segFill
  rw [segFill_rows zero size cost (size - 2) (Nat.le_refl _)]
  by_cases h : a + 2 < size ∧ a ≤ b ∧ b + 1 < size
  · rw [if_pos h, if_pos (by omega)]
  · rw [if_neg h, if_neg (by omega)]

theorem segMatrixL_eq [Add α] (zero : α) (size : Nat) (cost : Nat → Int → α) :
    segMatrixL zero size cost = segMatrix zero size cost := by
  funext a b
  simp only [segMatrixL, addTranspose, segMatrix, segFill_eq]

/-! ### stop detection: the row loop with its `break` -/

/-- has the `j` loop of row `i` met `far(i, j'−1)` for some `i < j' ≤ i + n` -/
def farBefore (p : StopPred) (i : Nat) : Nat → Bool
  | 0 => false
  | n+1 => farBefore p i n || p.far i (i + n)

theorem farBefore_iff (p : StopPred) (i : Nat) : ∀ n, farBefore p i n = true ↔ ∃ j, i < j ∧ j ≤ i + n ∧ p.far i (j - 1) = true := by
  intro n
  induction n with
  | zero => simp only [farBefore]; constructor
            · intro h; cases h
            · rintro ⟨j, h1, h2, _⟩; omega
  | succ n ih =>
    simp only [farBefore, Bool.or_eq_true, ih]
    constructor
    · rintro (⟨j, h1, h2, h3⟩ | h)
      · exact ⟨j, h1, by omega, h3⟩
      · exact ⟨i + n + 1, by omega, by omega, by simpa using h⟩
    · rintro ⟨j, h1, h2, h3⟩
      by_cases hj : j = i + n + 1
      · right; subst hj; simpa using h3
      · left; exact ⟨j, h1, by omega, h3⟩

theorem farBefore_mono (p : StopPred) (i : Nat) : ∀ n m, n ≤ m → farBefore p i n = true → farBefore p i m = true := by
  intro n m hnm h
  rw [farBefore_iff] at h ⊢
  obtain ⟨j, h1, h2, h3⟩ := h
  exact ⟨j, h1, by omega, h3⟩

/-- the reward `findStopsGlobal` writes in cell `(i, j)`, `i < j`: `(j−i)²` when the row loop reaches `j` (no earlier
end point was farther than `diameter` from `p_i`), the segment lasts more than `duration` and its enclosing circle is
smaller than `diameter`; `0` otherwise -/
def stopsReward (zero : α) (sq : Nat → α) (p : StopPred) (size i j : Nat) : α :=
  if i + 2 < size ∧ i < j ∧ j + 1 < size ∧ farBefore p i (j - i) = false then stopCell zero sq p i j else zero

/-- the first `n` passages of the `j` loop of row `i` -/
def rowLoop (zero : α) (sq : Nat → α) (p : StopPred) (i n : Nat) (C : Nat → Nat → α) : (Nat → Nat → α) × Bool :=
  loop (i + 1) n (fun j (st : (Nat → Nat → α) × Bool) =>
    if st.2 then st
    else if p.far i (j - 1) then (upd st.1 i j zero, true)
    else (upd st.1 i j (stopCell zero sq p i j), false)) (C, false)

/-- invariant of the row loop (on a row that is still all zero) -/
theorem stopsRow_inv (zero : α) (sq : Nat → α) (p : StopPred) (i : Nat) (C : Nat → Nat → α) (hrow : ∀ b, C i b = zero) :
    ∀ n,
      (rowLoop zero sq p i n C).2 = farBefore p i n ∧
      ∀ a b, (rowLoop zero sq p i n C).1 a b =
        if a = i ∧ i < b ∧ b ≤ i + n ∧ farBefore p i (b - i) = false then stopCell zero sq p i b else C a b := by
  intro n
  induction n with
  | zero =>
    refine ⟨rfl, ?_⟩
    intro a b
    simp only [rowLoop, loop]
    rw [if_neg (by omega)]
  | succ n ih =>
    obtain ⟨ih1, ih2⟩ := ih
    simp only [rowLoop, loop] at ih1 ih2 ⊢
    have e1 : i + 1 + n - 1 = i + n := by omega
    cases hb : farBefore p i n with
    | true =>
      rw [hb] at ih1
      simp only [ih1, if_true, farBefore, hb, Bool.true_or, true_and]
      intro a b
      rw [ih2]
      by_cases h : a = i ∧ i < b ∧ b ≤ i + n ∧ farBefore p i (b - i) = false
      · rw [if_pos h, if_pos ⟨h.1, h.2.1, by omega, h.2.2.2⟩]
      · rw [if_neg h, if_neg]
        rintro ⟨h1, h2, h3, h4⟩
        by_cases hbn : b = i + n + 1
        · subst hbn
          have : farBefore p i (i + n + 1 - i) = true := farBefore_mono p i n _ (by omega) hb
          rw [this] at h4; cases h4
        · exact h ⟨h1, h2, by omega, h4⟩
    | false =>
      rw [hb] at ih1
      simp only [ih1, Bool.false_eq_true, if_false, e1, farBefore, hb, Bool.false_or]
      cases hf : p.far i (i + n) with
      | true =>
        simp only [if_true, true_and]
        intro a b
        simp only [upd]
        by_cases hc : a = i ∧ b = i + 1 + n
        · rw [if_pos hc, if_neg]
          · rw [hc.1, hrow]
          · rintro ⟨_, _, _, h4⟩
            have e : b - i = n + 1 := by omega
            rw [e] at h4
            simp [farBefore, hf] at h4
        · rw [if_neg hc, ih2]
          by_cases h : a = i ∧ i < b ∧ b ≤ i + n ∧ farBefore p i (b - i) = false
          · rw [if_pos h, if_pos ⟨h.1, h.2.1, by omega, h.2.2.2⟩]
          · rw [if_neg h, if_neg]
            rintro ⟨h1, h2, h3, h4⟩
            exact h ⟨h1, h2, by omega, h4⟩
      | false =>
        simp only [Bool.false_eq_true, if_false, true_and]
        intro a b
        simp only [upd]
        by_cases hc : a = i ∧ b = i + 1 + n
        · rw [if_pos hc, if_pos]
          · rw [hc.2]
          · refine ⟨hc.1, by omega, by omega, ?_⟩
            have e : b - i = n + 1 := by omega
            rw [e]
            simp [farBefore, hb, hf]
        · rw [if_neg hc, ih2]
          by_cases h : a = i ∧ i < b ∧ b ≤ i + n ∧ farBefore p i (b - i) = false
          · rw [if_pos h, if_pos ⟨h.1, h.2.1, by omega, h.2.2.2⟩]
          · rw [if_neg h, if_neg]
            rintro ⟨h1, h2, h3, h4⟩
            exact h ⟨h1, h2, by omega, h4⟩

theorem stopsFill_rows (zero : α) (sq : Nat → α) (p : StopPred) (size : Nat) :
    ∀ m, m ≤ size - 2 → ∀ a b,
      loop 0 m (fun i C => (stopsRow zero sq p size i C).1) (fun _ _ => zero) a b =
        if a < m ∧ a < b ∧ b + 1 < size ∧ farBefore p a (b - a) = false then stopCell zero sq p a b else zero := by
  intro m
  induction m with
  | zero => intro _ a b; simp [loop]
  | succ m ih =>
    intro hm a b
    simp only [loop, Nat.zero_add]
    have ihm := ih (by omega)
    have hrow : ∀ b, loop 0 m (fun i C => (stopsRow zero sq p size i C).1) (fun _ _ => zero) m b = zero := by
      intro b; rw [ihm, if_neg (by omega)]
    have := (stopsRow_inv zero sq p m _ hrow (size - 1 - (m + 1))).2 a b
    have e : ∀ C, stopsRow zero sq p size m C = rowLoop zero sq p m (size - 1 - (m + 1)) C := fun _ => rfl
    rw [e, this]
    by_cases h : a = m ∧ m < b ∧ b ≤ m + (size - 1 - (m + 1)) ∧ farBefore p m (b - m) = false
    · rw [if_pos h, h.1, if_pos ⟨by omega, h.2.1, by omega, h.2.2.2⟩]
    · rw [if_neg h, ihm]
      by_cases h2 : a < m ∧ a < b ∧ b + 1 < size ∧ farBefore p a (b - a) = false
      · rw [if_pos h2, if_pos ⟨by omega, h2.2.1, h2.2.2.1, h2.2.2.2⟩]
      · rw [if_neg h2, if_neg]
        rintro ⟨h1, h2', h3, h4⟩
        by_cases ham : a = m
        · subst ham; exact h ⟨rfl, h2', by omega, h4⟩
        · exact h2 ⟨by omega, h2', h3, h4⟩

/-- **loop form = closed form** of the reward matrix before the symmetric fill -/
theorem stopsFill_eq (zero : α) (sq : Nat → α) (p : StopPred) (size a b : Nat) :
    stopsFill zero sq p size a b = stopsReward zero sq p size a b := by
  unfold stopsFill stopsReward
  rw [stopsFill_rows zero sq p size (size - 2) (Nat.le_refl _)]
  by_cases h : a + 2 < size ∧ a < b ∧ b + 1 < size ∧ farBefore p a (b - a) = false
  · rw [if_pos h, if_pos ⟨by omega, h.2.1, h.2.2.1, h.2.2.2⟩]
  · rw [if_neg h, if_neg]
    rintro ⟨h1, h2, h3, h4⟩
    exact h ⟨by omega, h2, h3, h4⟩
end TV.Partition
