import TracklibVerif.Lemmas.Viterbi
/-! The indices produced by the Viterbi model (`Model/Viterbi`: `scanMin` with `best_ant = 0` initially, back-pointers
`mrk`, path `back`) stay inside the state lists as soon as every list is non-empty — with no assumption on the
costs (unlike `Viterbi.back_valid`, which also assumes every cost below the sentinel). Used by C10. -/
namespace TV.Viterbi
variable {α : Type} [LinearOrder α]

theorem scanMin_idx (big : α) (f : Nat → α) (n : Nat) :
    (scanMin big f n).2 < n + 1 ∧ (0 < n → (scanMin big f n).2 < n) := by
  induction n with
  | zero => simp [scanMin]
  | succ n ih =>
    unfold scanMin
    split
    rename_i bv ba heq
    simp only [heq] at ih
    by_cases hlt : f n < bv
    · simp only [hlt, ↓reduceIte]; omega
    · simp only [hlt, ↓reduceIte]
      by_cases h0 : n = 0
      · subst h0; simp only [scanMin] at heq; injection heq with _ h2; omega
      · have := ih.2 (by omega); omega

/-- every index of the back-pointer path ending in a valid last state is a valid state index -/
theorem back_in_range (t : Tables α) (hpos : ∀ k, 0 < t.n k) (k l : Nat) (hl : l < t.n k) :
    ∀ j, j ≤ k → back t k l j < t.n j := by
  induction k generalizing l with
  | zero => intro j hj; have : j = 0 := by omega
            subst this; simpa [back] using hl
  | succ k ih =>
    intro j hj
    by_cases h : j = k + 1
    · subst h; rw [back_self]; exact hl
    · rw [back_lt t k l j (by omega)]
      exact ih (mrk t k l) ((scanMin_idx t.big _ (t.n k)).2 (hpos k)) j (by omega)

end TV.Viterbi
