import TracklibVerif.Model.Viterbi
import Mathlib.Order.Basic
import Mathlib.Order.Defs.LinearOrder
namespace TV.Viterbi
variable {α : Type} [LinearOrder α]

theorem scanMin_spec (big : α) (f : Nat → α) (n : Nat) (hn : 0 < n) (hb : ∀ m, m < n → f m < big) :
    (scanMin big f n).2 < n ∧ (scanMin big f n).1 = f (scanMin big f n).2 ∧ ∀ m, m < n → (scanMin big f n).1 ≤ f m := by
  induction n with
  | zero => omega
  | succ n ih =>
    unfold scanMin
    by_cases h0 : n = 0
    · subst h0
      simp only [scanMin]
      have := hb 0 (by omega)
      simp [this]
    · have ihn := ih (by omega) (fun m hm => hb m (by omega))
      obtain ⟨h1, h2, h3⟩ := ihn
      split
      rename_i bv ba heq
      simp only [heq] at h1 h2 h3
      by_cases hlt : f n < bv
      · simp only [hlt, ↓reduceIte]
        refine ⟨by omega, trivial, ?_⟩
        intro m hm
        rcases Nat.lt_succ_iff_lt_or_eq.mp hm with h | h
        · exact le_trans (le_of_lt hlt) (h3 m h)
        · subst h; exact le_refl _
      · simp only [hlt, ↓reduceIte]
        refine ⟨by omega, h2, ?_⟩
        intro m hm
        rcases Nat.lt_succ_iff_lt_or_eq.mp hm with h | h
        · exact h3 m h
        · subst h; exact not_lt.mp hlt

structure Mono (t : Tables α) : Prop where
  left : ∀ a b c, a ≤ b → t.add a c ≤ t.add b c
  right : ∀ a b c, a ≤ b → t.add c a ≤ t.add c b

/-- every path ending in l at epoch k costs at least val k l -/
theorem val_le_cost (t : Tables α) (hm : Mono t) (hpos : ∀ k, 0 < t.n k)
    (hbig : ∀ k m l, m < t.n k → t.add (t.trans k m l) (val t k m) < t.big)
    (σ : Nat → Nat) (hσ : ∀ k, σ k < t.n k) (k : Nat) : val t k (σ k) ≤ cost t σ k := by
  induction k with
  | zero => exact le_refl _
  | succ k ih =>
    unfold val cost
    apply hm.left
    have hs := scanMin_spec t.big (fun m => t.add (t.trans k m (σ (k+1))) (val t k m)) (t.n k) (hpos k)
      (fun m hm' => hbig k m _ hm')
    exact le_trans (hs.2.2 (σ k) (hσ k)) (hm.right _ _ _ ih)
end TV.Viterbi

namespace TV.Viterbi
variable {α : Type} [LinearOrder α]

theorem back_self (t : Tables α) (k l : Nat) : back t k l k = l := by
  cases k with
  | zero => rfl
  | succ k => simp [back]

theorem back_lt (t : Tables α) (k l j : Nat) (hj : j < k + 1) :
    back t (k+1) l j = back t k (mrk t k l) j := by
  have : j ≠ k + 1 := by omega
  simp [back, this]

/-- cost only depends on the path up to the epoch considered -/
theorem cost_congr (t : Tables α) (σ τ : Nat → Nat) (k : Nat) (h : ∀ j, j ≤ k → σ j = τ j) :
    cost t σ k = cost t τ k := by
  induction k with
  | zero => simp [cost, h 0 (Nat.le_refl _)]
  | succ k ih =>
    simp only [cost]
    rw [ih (fun j hj => h j (by omega)), h k (by omega), h (k+1) (Nat.le_refl _)]

/-- the back-pointer path realises the table value -/
theorem cost_back (t : Tables α) (hpos : ∀ k, 0 < t.n k)
    (hbig : ∀ k m l, m < t.n k → t.add (t.trans k m l) (val t k m) < t.big)
    (k l : Nat) : cost t (back t k l) k = val t k l := by
  induction k generalizing l with
  | zero => simp [cost, val, back]
  | succ k ih =>
    have hs := scanMin_spec t.big (fun m => t.add (t.trans k m l) (val t k m)) (t.n k) (hpos k)
      (fun m hm' => hbig k m _ hm')
    simp only [cost, val]
    rw [back_self]
    have e1 : back t (k+1) l k = mrk t k l := by rw [back_lt t k l k (by omega), back_self]
    have e2 : cost t (back t (k+1) l) k = cost t (back t k (mrk t k l)) k :=
      cost_congr t _ _ k (fun j hj => back_lt t k l j (by omega))
    rw [e1, e2, ih (mrk t k l)]
    congr 1
    exact hs.2.1.symm

/-- the back-pointer path is valid -/
theorem back_valid (t : Tables α) (hpos : ∀ k, 0 < t.n k)
    (hbig : ∀ k m l, m < t.n k → t.add (t.trans k m l) (val t k m) < t.big)
    (k l : Nat) (hl : l < t.n k) : ∀ j, j ≤ k → back t k l j < t.n j := by
  induction k generalizing l with
  | zero => intro j hj; have : j = 0 := by omega
            subst this; simpa [back] using hl
  | succ k ih =>
    intro j hj
    by_cases h : j = k + 1
    · subst h; rw [back_self]; exact hl
    · rw [back_lt t k l j (by omega)]
      have hs := scanMin_spec t.big (fun m => t.add (t.trans k m l) (val t k m)) (t.n k) (hpos k)
        (fun m hm' => hbig k m _ hm')
      exact ih (mrk t k l) hs.1 j (by omega)

/-- C09-T3: the decoded sequence (back-pointers from a minimal last state) is optimal -/
theorem decoded_optimal (t : Tables α) (hm : Mono t) (hpos : ∀ k, 0 < t.n k)
    (hbig : ∀ k m l, m < t.n k → t.add (t.trans k m l) (val t k m) < t.big)
    (N l : Nat) (hl : l < t.n N) (hmin : ∀ l', l' < t.n N → val t N l ≤ val t N l')
    (σ : Nat → Nat) (hσ : ∀ k, σ k < t.n k) :
    cost t (back t N l) N ≤ cost t σ N := by
  rw [cost_back t hpos hbig]
  exact le_trans (hmin (σ N) (hσ N)) (val_le_cost t hm hpos hbig σ hσ N)
end TV.Viterbi
