import TracklibVerif.Model.CinematicsTab
/-! Total-correctness triples for the state-and-exception monad `Features.M`, and the **laws of a feature table**:
what a program written against the Track API (`class Tbl`) may rely on, whatever the representation —
the specification table `ATab`, or a `World` of observation objects shared between tracks whose slots are
addressed through the dict of the track in focus. The C17 programs are proved once from the laws
(`Lemmas/CinTabProg.lean`); each representation then only has to satisfy the laws. -/
namespace TV.CinTab
open TV.Features

variable {σ V α β : Type}

/-- from every state satisfying `P`, `m` terminates without an exception in a state and with a value satisfying `Q` -/
def Triple (P : σ → Prop) (m : M σ α) (Q : α → σ → Prop) : Prop :=
  ∀ s, P s → ∃ x s', m s = (.ok x, s') ∧ Q x s'

theorem triple_pure {P : σ → Prop} {Q : α → σ → Prop} (x : α) (h : ∀ s, P s → Q x s) : Triple P (pure x : M σ α) Q :=
  fun s hs => ⟨x, s, rfl, h s hs⟩

theorem triple_bind {P : σ → Prop} {Q : α → σ → Prop} {R : β → σ → Prop} {m : M σ α} {f : α → M σ β}
    (h1 : Triple P m Q) (h2 : ∀ x, Triple (Q x) (f x) R) : Triple P (m >>= f) R := by
  intro s hs
  obtain ⟨x, s1, e1, q1⟩ := h1 s hs
  obtain ⟨y, s2, e2, q2⟩ := h2 x s1 q1
  refine ⟨y, s2, ?_, q2⟩
  show M.bind m f s = _
  unfold M.bind
  rw [e1]
  exact e2

theorem triple_conseq {P P' : σ → Prop} {Q Q' : α → σ → Prop} {m : M σ α} (h : Triple P m Q)
    (hp : ∀ s, P' s → P s) (hq : ∀ x s, Q x s → Q' x s) : Triple P' m Q' := by
  intro s hs
  obtain ⟨x, s', e, q⟩ := h s (hp s hs)
  exact ⟨x, s', e, hq x s' q⟩

/-- a step that reads only: it returns `v` and leaves the state -/
theorem triple_read {P : σ → Prop} {m : M σ α} {v : α} (h : ∀ s, P s → m s = (.ok v, s)) :
    Triple P m (fun x s => x = v ∧ P s) :=
  fun s hs => ⟨v, s, h s hs, rfl, hs⟩

theorem triple_catchIndex {P : σ → Prop} {Q : α → σ → Prop} {m : M σ α} (d : α) (h : Triple P m Q) :
    Triple P (M.catchIndex m d) Q := by
  intro s hs
  obtain ⟨x, s', e, q⟩ := h s hs
  refine ⟨x, s', ?_, q⟩
  unfold M.catchIndex
  rw [e]

/-- `for a in l: f a` with an invariant indexed by the number of elements already processed -/
theorem triple_forEach_aux (f : α → M σ Unit) (J : Nat → σ → Prop) :
    ∀ (l : List α) (k : Nat), (∀ i (h : i < l.length), Triple (J (k + i)) (f l[i]) (fun _ => J (k + i + 1))) →
      Triple (J k) (M.forEach l f) (fun _ => J (k + l.length))
  | [], k, _ => by
    intro s hs
    exact ⟨(), s, rfl, by simpa using hs⟩
  | a :: t, k, h => by
    unfold M.forEach
    refine triple_bind (Q := fun _ => J (k + 1)) ?_ (fun _ => ?_)
    · have := h 0 (by simp)
      simpa using this
    · have ih := triple_forEach_aux f J t (k + 1) (fun i hi => by
        have := h (i + 1) (by simpa using hi)
        have e : k + (i + 1) = k + 1 + i := by omega
        simpa [e] using this)
      have e : k + 1 + t.length = k + (a :: t).length := by simp; omega
      rw [e] at ih
      exact ih

theorem triple_forEach_range (f : Nat → M σ Unit) (J : Nat → σ → Prop) (n : Nat)
    (h : ∀ i, i < n → Triple (J i) (f i) (fun _ => J (i + 1))) :
    Triple (J 0) (M.forEach (List.range n) f) (fun _ => J n) := by
  have := triple_forEach_aux f J (List.range n) 0 (fun i hi => by
    have hi' : i < n := by simpa using hi
    simpa using h i hi')
  simpa using this

/-- left fold with effects, invariant indexed by the number of elements already processed -/
theorem triple_foldL_aux (f : β → α → M σ β) (J : Nat → β → σ → Prop) :
    ∀ (l : List α) (k : Nat) (b : β),
      (∀ i (h : i < l.length) b', Triple (J (k + i) b') (f b' l[i]) (fun b'' => J (k + i + 1) b'')) →
      Triple (J k b) (M.foldL l b f) (fun b' => J (k + l.length) b')
  | [], k, b, _ => by
    intro s hs
    exact ⟨b, s, rfl, by simpa using hs⟩
  | a :: t, k, b, h => by
    unfold M.foldL
    refine triple_bind (Q := fun b' => J (k + 1) b') ?_ (fun b' => ?_)
    · have := h 0 (by simp) b
      simpa using this
    · have ih := triple_foldL_aux f J t (k + 1) b' (fun i hi b'' => by
        have := h (i + 1) (by simpa using hi) b''
        have e : k + (i + 1) = k + 1 + i := by omega
        simpa [e] using this)
      have e : k + 1 + t.length = k + (a :: t).length := by simp; omega
      rw [e] at ih
      exact ih

/-- names of the coordinate columns -/
def cnm : Coord → String
  | .x => "x" | .y => "y" | .z => "z" | .t => "t"

/-- The laws of a feature table. `I` is the representation invariant, `n` the number of observations of the track,
`rd s name` the column read under a feature name (`none` = not listed), `co s c` the coordinate / time column.
Reads do not change the state; `create` of a new name yields SOME full column (its initial values are not
specified: a slot inherited from another track may show through) and leaves every other name and the
coordinates alone; `setObs` replaces exactly one value; `remove` unlists exactly one name. -/
structure Laws [Tbl σ V] (I : σ → Prop) (n : σ → Nat) (rd : σ → String → Option (List V)) (co : σ → Coord → List V) : Prop where
  size : ∀ s, (Tbl.size : M σ Nat) s = (.ok (n s), s)
  has : ∀ s name, I s → reserved name = false → (Tbl.has name : M σ Bool) s = (.ok (rd s name).isSome, s)
  co_len : ∀ s c, I s → (co s c).length = n s
  rd_len : ∀ s name col, I s → rd s name = some col → col.length = n s
  getObs_coord : ∀ (o : Ops V) s c i v, I s → (co s c)[i]? = some v → (Tbl.getObs o (cnm c) i : M σ V) s = (.ok v, s)
  getObs_feat : ∀ (o : Ops V) s name col i v, I s → reserved name = false → rd s name = some col → col[i]? = some v →
      (Tbl.getObs o name i : M σ V) s = (.ok v, s)
  get_feat : ∀ (o : Ops V) s name col, I s → reserved name = false → rd s name = some col →
      (Tbl.get o name : M σ (List V)) s = (.ok col, s)
  create_new : ∀ s name v, I s → reserved name = false → rd s name = none → 0 < n s →
      ∃ s' col, (Tbl.create name (.scalar v) : M σ Unit) s = (.ok (), s') ∧ I s' ∧ rd s' name = some col ∧ n s' = n s
        ∧ (∀ m, m ≠ name → rd s' m = rd s m) ∧ co s' = co s
  create_old : ∀ s name v col, I s → reserved name = false → rd s name = some col → 0 < n s →
      (Tbl.create name (.scalar v) : M σ Unit) s = (.ok (), s)
  setObs : ∀ s name col i v, I s → reserved name = false → rd s name = some col → i < n s →
      ∃ s', (Tbl.setObs name i v : M σ Unit) s = (.ok (), s') ∧ I s' ∧ rd s' name = some (col.set i v) ∧ n s' = n s
        ∧ (∀ m, m ≠ name → rd s' m = rd s m) ∧ co s' = co s
  remove : ∀ s name col, I s → reserved name = false → rd s name = some col →
      ∃ s', (Tbl.remove name : M σ Unit) s = (.ok (), s') ∧ I s' ∧ rd s' name = none ∧ n s' = n s
        ∧ (∀ m, m ≠ name → rd s' m = rd s m) ∧ co s' = co s

end TV.CinTab
