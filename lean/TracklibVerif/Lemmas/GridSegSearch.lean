import TracklibVerif.Lemmas.GridAround
/-! The `unit = -1` search of `neighborhood([c1, c2], None, unit)` of `Model/Grid.lean` (`searchSegLoop`): the first radius
`u` at which the squares around the crossed cells list something, then the radius `u + 1`. -/
namespace TV.Grid

section index
variable {α : Type}

/-- some cell at most `u` units from a cell of `cells` lists `d` -/
def AroundHolds (ix : Index α) (cells : List (Int × Int)) (u : Int) (d : Nat) : Prop :=
  ∃ cell ∈ cells, ∃ c' ∈ neighboringCells ix cell.1 cell.2 u false, Holds ix.grid c'.1 c'.2 d

theorem AroundHolds.mono {ix : Index α} {cells : List (Int × Int)} {u v : Int} {d : Nat}
    (h : AroundHolds ix cells u d) (huv : u ≤ v) : AroundHolds ix cells v d := by
  obtain ⟨cell, hc, ⟨i', j'⟩, hc', hH⟩ := h
  refine ⟨cell, hc, (i', j'), ?_, hH⟩
  rw [mem_neighboringCells] at hc' ⊢
  obtain ⟨⟨a, b⟩, c, e⟩ := hc'
  exact ⟨⟨by omega, by omega⟩, by omega, by omega⟩

/-- `collectAround` adds nothing but what the squares list -/
theorem collectAround_sound (ix : Index α) (u : Int) (cells : List (Int × Int)) (tab out : List Nat)
    (h : collectAround ix u tab cells = .ok out) : ∀ d ∈ out, d ∈ tab ∨ AroundHolds ix cells u d := by
  induction cells generalizing tab with
  | nil =>
    simp only [collectAround, Except.ok.injEq] at h
    subst h
    intro d hd; exact Or.inl hd
  | cons cell rest ih =>
    unfold collectAround at h
    cases h1 : collectCells ix tab (neighboringCells ix cell.1 cell.2 u false) with
    | error e => simp [h1] at h
    | ok tab' =>
      simp only [h1] at h
      intro d hd
      rcases ih tab' h d hd with h2 | ⟨c, hc, c', hc', hH⟩
      · rcases collectCells_sound ix _ tab tab' h1 d h2 with h3 | ⟨c', hc', hH⟩
        · exact Or.inl h3
        · exact Or.inr ⟨cell, by simp, c', hc', hH⟩
      · exact Or.inr ⟨c, List.mem_cons_of_mem _ hc, c', hc', hH⟩

/-- `collectAround` from `TAB`: exactly `TAB` and what the squares list -/
theorem collectAround_exact (ix : Index α) (hs : Shape ix.grid ix.csize.toNat ix.lsize.toNat) (u : Int)
    (cells : List (Int × Int)) (tab : List Nat) :
    ∃ out, collectAround ix u tab cells = .ok out ∧ ∀ d, d ∈ out ↔ d ∈ tab ∨ AroundHolds ix cells u d := by
  obtain ⟨out, h, r1, r2⟩ := collectAround_spec ix hs u cells tab
  refine ⟨out, h, fun d => ⟨collectAround_sound ix u cells tab out h d, ?_⟩⟩
  rintro (hd | ⟨cell, hc, c', hc', hH⟩)
  · exact r1 d hd
  · exact r2 cell hc c' hc' d hH

/-- the `while` loop of `neighborhood([c1, c2], None, -1)` from radius `u`: `None` when no radius `u … max(csize, lsize)`
lists anything; otherwise the list of everything within `U` units of a crossed cell, where `U - 1 ≥ u` is the first
radius that lists something -/
theorem searchSegLoop_spec (ix : Index α) (hs : Shape ix.grid ix.csize.toNat ix.lsize.toNat) (cells : List (Int × Int)) :
    ∀ (fuel : Nat) (u : Int), max ix.csize ix.lsize + 1 - u < (fuel : Int) →
      ∃ r, searchSegLoop ix cells fuel u = .ok r ∧
        (r = none → ∀ u', u ≤ u' → u' ≤ max ix.csize ix.lsize → ∀ d, ¬ AroundHolds ix cells u' d) ∧
        (∀ l, r = some l → ∃ U, u + 1 ≤ U ∧ U ≤ max ix.csize ix.lsize + 1 ∧ (∀ d, d ∈ l ↔ AroundHolds ix cells U d) ∧
          l ≠ [] ∧ (∃ d, AroundHolds ix cells (U - 1) d) ∧
          ∀ u', u ≤ u' → u' < U - 1 → ∀ d, ¬ AroundHolds ix cells u' d) := by
  intro fuel
  induction fuel with
  | zero =>
    intro u h
    refine ⟨none, rfl, ?_, fun l h => by cases h⟩
    intro _ u' h1 h2; omega
  | succ fuel ih =>
    intro u h
    unfold searchSegLoop
    by_cases hu : u ≤ max ix.csize ix.lsize
    · rw [if_pos hu]
      obtain ⟨tab, h1, e1⟩ := collectAround_exact ix hs u cells []
      simp only [h1]
      by_cases ht : tab = []
      · subst ht
        simp only [List.length_nil, le_refl, if_true]
        obtain ⟨r, hr, r1, r2⟩ := ih (u + 1) (by push_cast at h ⊢; omega)
        have hempty : ∀ d, ¬ AroundHolds ix cells u d := by
          intro d hd
          have := (e1 d).mpr (Or.inr hd)
          cases this
        refine ⟨r, hr, ?_, ?_⟩
        · intro hn u' a b d hd
          by_cases hu' : u' = u
          · subst hu'; exact hempty d hd
          · exact r1 hn u' (by omega) b d hd
        · intro l hl
          obtain ⟨U, a, b, c, e, f, g⟩ := r2 l hl
          refine ⟨U, by omega, b, c, e, f, ?_⟩
          intro u' p q d hd
          by_cases hu' : u' = u
          · subst hu'; exact hempty d hd
          · exact g u' (by omega) q d hd
      · have hlen : ¬ tab.length ≤ 0 := by
          cases tab with
          | nil => exact absurd rfl ht
          | cons a t => simp
        rw [if_neg hlen]
        obtain ⟨tab', h2, e2⟩ := collectAround_exact ix hs (u + 1) cells tab
        simp only [h2]
        obtain ⟨d0, hd0⟩ := List.exists_mem_of_ne_nil tab ht
        have hA0 : AroundHolds ix cells u d0 := by
          rcases (e1 d0).mp hd0 with h | h
          · cases h
          · exact h
        refine ⟨some tab', rfl, (fun h => by cases h), ?_⟩
        intro l hl
        cases hl
        refine ⟨u + 1, le_refl _, by omega, ?_, ?_, ⟨d0, by rw [show u + 1 - 1 = u by omega]; exact hA0⟩, ?_⟩
        · intro d
          rw [e2 d]
          constructor
          · rintro (hd | hd)
            · rcases (e1 d).mp hd with h | h
              · cases h
              · exact h.mono (by omega)
            · exact hd
          · exact Or.inr
        · intro hn
          have : d0 ∈ tab' := (e2 d0).mpr (Or.inl hd0)
          rw [hn] at this; cases this
        · intro u' a b; omega
    · rw [if_neg hu]
      refine ⟨none, rfl, ?_, fun l h => by cases h⟩
      intro _ u' h1 h2; omega

end index
end TV.Grid
