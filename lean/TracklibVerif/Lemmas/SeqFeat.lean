import TracklibVerif.Model.SeqOps
import TracklibVerif.Lemmas.Seq
/-! Helper lemmas for C04, part 4: reading a feature by name through the table, well-formed tables,
"the result's observations are observations of the source" for every operator. Core Lean only. -/
namespace TV.Seq
variable {α : Type}

/-! ### reads -/

theorem readAF_nat (tr : Track) (nm : String) (i : Nat) :
    readAF tr nm (i : Int) =
      match colOf tr.table nm with
      | none => .noFeature
      | some _ =>
        match tr.pts[i]? with
        | none => .indexErr
        | some o => o.read tr.table nm := by
  simp only [readAF, pyGet_nat]
  rfl

/-- a read depends only on the table and on the observation at that position -/
theorem readAF_congr {r s : Track} (ht : r.table = s.table) {i j : Nat} (hp : r.pts[i]? = s.pts[j]?)
    (nm : String) : readAF r nm (i : Int) = readAF s nm (j : Int) := by
  rw [readAF_nat, readAF_nat, ht, hp]

theorem readAF_of_get {tr : Track} {i : Nat} {o : Obs} (h : tr.pts[i]? = some o) (nm : String) :
    readAF tr nm (i : Int) = o.read tr.table nm := by
  rw [readAF_nat, h]
  unfold Obs.read
  cases colOf tr.table nm <;> rfl

/-- if the table is the source's and every observation of `r` is one of `s`, every observation of `r`
reads under every name what it read in `s` -/
theorem carries_of_mem (r s : Track) (ht : r.table = s.table) (hm : ∀ o ∈ r.pts, o ∈ s.pts) :
    ∀ (i : Nat) (o : Obs), r.pts[i]? = some o →
      ∃ j : Nat, s.pts[j]? = some o ∧ ∀ nm, readAF r nm (i : Int) = readAF s nm (j : Int) := by
  intro i o hi
  obtain ⟨j, hj⟩ := List.mem_iff_getElem?.mp (hm o (List.mem_of_getElem? hi))
  exact ⟨j, hj, fun nm => readAF_congr ht (hi.trans hj.symm) nm⟩

/-! ### well-formed tables: what the public interface builds -/

/-- the names are distinct (keys of a dict) and the column of a name is its position -/
def WF (tb : Table) : Prop := (tb.map (·.1)).Nodup ∧ tb.map (·.2) = List.range tb.length

theorem sameNames_iff : ∀ (a b : List String), sameNames a b = true ↔ a = b
  | [], [] => by simp [sameNames]
  | [], _ :: _ => by simp [sameNames]
  | _ :: _, [] => by simp [sameNames]
  | x :: xs, y :: ys => by
    simp only [sameNames, Bool.and_eq_true, beq_iff_eq, sameNames_iff xs ys, List.cons.injEq]

theorem table_ext : ∀ (a b : Table), a.map (·.1) = b.map (·.1) → a.map (·.2) = b.map (·.2) → a = b
  | [], [], _, _ => rfl
  | [], _ :: _, h, _ => by simp at h
  | _ :: _, [], h, _ => by simp at h
  | (n1, c1) :: as, (n2, c2) :: bs, h1, h2 => by
    simp only [List.map_cons, List.cons.injEq] at h1 h2
    rw [table_ext as bs h1.2 h2.2]
    simp only [List.cons.injEq, Prod.mk.injEq, and_true]
    exact ⟨h1.1, h2.1⟩

/-- two well-formed tables with the same list of names are the same table -/
theorem wf_eq_of_names {a b : Table} (ha : WF a) (hb : WF b) (h : a.map (·.1) = b.map (·.1)) : a = b := by
  apply table_ext a b h
  have hl : a.length = b.length := by
    have := congrArg List.length h
    simpa using this
  rw [ha.2, hb.2, hl]

theorem wf_nil : WF [] := ⟨by simp, by simp⟩

theorem colOf_none_iff (tb : Table) (nm : String) : colOf tb nm = none ↔ nm ∉ tb.map (·.1) := by
  unfold colOf
  rw [Option.map_eq_none_iff, List.find?_eq_none]
  constructor
  · intro h hm
    obtain ⟨p, hp, e⟩ := List.mem_map.mp hm
    exact h p hp (by simp [e])
  · intro h p hp hq
    apply h
    have : p.1 = nm := by simpa using hq
    exact List.mem_map.mpr ⟨p, hp, this⟩

/-- `createAnalyticalFeature` keeps a table well-formed -/
theorem createAF_wf (tr : Track) (nm : String) (vals : List Int) (r : Track) (h : WF tr.table)
    (hc : createAF tr nm vals = some r) : WF r.table := by
  unfold createAF at hc
  split at hc
  · cases hc
  · split at hc
    · cases hc
    · split at hc
      · cases hc; exact h
      · rename_i hcol
        split at hc
        · cases hc
        · cases hc
          have hnone : colOf tr.table nm = none := by
            cases hx : colOf tr.table nm with
            | none => rfl
            | some c => simp [hx] at hcol
          have hnm := (colOf_none_iff tr.table nm).mp hnone
          refine ⟨?_, ?_⟩
          · simp only [List.map_append, List.map_cons, List.map_nil]
            rw [List.nodup_append]
            refine ⟨h.1, by simp, ?_⟩
            intro a ha b hb
            simp only [List.mem_singleton] at hb
            subst hb
            intro e; subst e; exact hnm ha
          · simp only [List.map_append, List.map_cons, List.map_nil, List.length_append, List.length_cons,
              List.length_nil, h.2]
            rw [List.range_succ]

/-! ### every operator's observations are observations of its source -/

theorem keepIdx_subset (p : Nat → Bool) : ∀ (i : Nat) (l : List α), ∀ x ∈ keepIdx p i l, x ∈ l
  | _, [], x, h => by simp [keepIdx] at h
  | i, y :: ys, x, h => by
    simp only [keepIdx] at h
    split at h
    · rcases List.mem_cons.mp h with e | h'
      · simp [e]
      · exact List.mem_cons_of_mem _ (keepIdx_subset p (i + 1) ys x h')
    · exact List.mem_cons_of_mem _ (keepIdx_subset p (i + 1) ys x h)

theorem stepAux_subset (n : Nat) : ∀ (k : Nat) (l : List α), ∀ x ∈ stepAux n k l, x ∈ l
  | _, [], x, h => by simp [stepAux] at h
  | 0, y :: ys, x, h => by
    simp only [stepAux] at h
    rcases List.mem_cons.mp h with e | h'
    · simp [e]
    · exact List.mem_cons_of_mem _ (stepAux_subset n (n - 1) ys x h')
  | k + 1, y :: ys, x, h => by
    simp only [stepAux] at h
    exact List.mem_cons_of_mem _ (stepAux_subset n k ys x h)

theorem patLoop_subset (pat : List Bool) (i : Nat) (l : List α) : ∀ x ∈ patLoop pat i l, x ∈ l := by
  rw [patLoop_eq_keepIdx]; exact keepIdx_subset _ i l

theorem extractLoop_subset (l : List α) : ∀ (n : Nat) (k : Int) (r : List α), extractLoop l k n = some r →
    ∀ x ∈ r, x ∈ l
  | 0, _, r, h, x, hx => by simp [extractLoop] at h; subst h; simp at hx
  | n + 1, k, r, h, x, hx => by
    simp only [extractLoop] at h
    split at h
    · rename_i y r' hy hr'
      cases h
      rcases List.mem_cons.mp hx with e | hx'
      · subst e
        unfold pyGet at hy
        split at hy
        · exact List.mem_of_getElem? hy
        · split at hy
          · exact List.mem_of_getElem? hy
          · cases hy
      · exact extractLoop_subset l n (k + 1) r' hr' x hx'
    · cases h

theorem gather_subset (l : List α) : ∀ (perm : List Nat) (r : List α), gather l perm = some r → ∀ x ∈ r, x ∈ l
  | [], r, h, x, hx => by simp [gather] at h; subst h; simp at hx
  | i :: is, r, h, x, hx => by
    simp only [gather] at h
    split at h
    · rename_i y r' hy hr'
      cases h
      rcases List.mem_cons.mp hx with e | hx'
      · subst e; exact List.mem_of_getElem? hy
      · exact gather_subset l is r' hr' x hx'
    · cases h

theorem pyDel_subset (l : List α) (i : Int) (r : List α) (h : pyDel l i = some r) : ∀ x ∈ r, x ∈ l := by
  unfold pyDel at h
  intro x hx
  split at h
  · split at h
    · cases h; exact List.mem_of_mem_eraseIdx hx
    · cases h
  · split at h
    · cases h; exact List.mem_of_mem_eraseIdx hx
    · cases h

theorem delLoop_subset : ∀ (d : List Int) (l : List α) (c : Nat), ∀ x ∈ (delLoop d l c).1, x ∈ l
  | [], l, c, x, hx => by simpa [delLoop] using hx
  | i :: rest, l, c, x, hx => by
    simp only [delLoop] at hx
    split at hx
    · exact hx
    · rename_i l' hl'
      exact pyDel_subset l i l' hl' x (delLoop_subset rest l' _ x hx)

theorem removeByIdx_subset (l : List α) (tab : List Int) : ∀ x ∈ (removeByIdx l tab).1, x ∈ l := by
  intro x hx
  unfold removeByIdx at hx
  split at hx
  · exact hx
  · simp only at hx
    split at hx
    · exact hx
    · exact delLoop_subset _ l 0 x hx

theorem pyInsert_mem (l : List α) (i : Int) (o x : α) (h : x ∈ pyInsert l i o) : x = o ∨ x ∈ l := by
  unfold pyInsert at h
  refine (List.mem_insertIdx ?_).mp h
  split
  · split <;> omega
  · split <;> omega

theorem pySliceFrom_subset (l : List α) (a : Int) : ∀ x ∈ pySliceFrom l a, x ∈ l := by
  intro x hx
  unfold pySliceFrom at hx
  split at hx <;> exact List.mem_of_mem_drop hx

theorem pySlice_subset (l : List α) (a b c : Option Int) (r : List α) (h : pySlice l a b c = some r) :
    ∀ x ∈ r, x ∈ l := by
  unfold pySlice at h
  simp only at h
  split at h
  · cases h
  · cases h
    intro x hx
    obtain ⟨k, _, hk⟩ := List.mem_filterMap.mp hx
    exact List.mem_of_getElem? hk

end TV.Seq

namespace TV.Seq

/-! ### `removeAnalyticalFeature` keeps a table well-formed -/

theorem map_pred_range' : ∀ (m k : Nat), (List.range' (k + 1) m).map (· - 1) = List.range' k m
  | 0, _ => rfl
  | m + 1, k => by
    simp only [List.range'_succ, List.map_cons, Nat.add_sub_cancel, List.cons.injEq, true_and]
    exact map_pred_range' m (k + 1)

/-- the decrement of the columns above `c` -/
def decAbove (c : Nat) (p : String × Nat) : String × Nat := if p.2 > c then (p.1, p.2 - 1) else p

theorem removeAF_cols : ∀ (tb : Table) (k c : Nat) (nm : String),
    (tb.map (·.1)).Nodup → tb.map (·.2) = List.range' k tb.length → colOf tb nm = some c →
    (((tb.filter (fun p => !(p.1 == nm))).map (decAbove c)).map (·.2) = List.range' k (tb.length - 1)) ∧ k ≤ c
  | [], _, _, _, _, _, hc => by simp [colOf] at hc
  | (n1, c1) :: rest, k, c, nm, hn, hcols, hc => by
    simp only [List.map_cons, List.length_cons, List.range'_succ, List.cons.injEq] at hcols
    obtain ⟨hc1, hrest⟩ := hcols
    have hn' : n1 ∉ rest.map (·.1) ∧ (rest.map (·.1)).Nodup := by
      rw [List.map_cons] at hn
      exact List.nodup_cons.mp hn
    by_cases e : n1 = nm
    · -- the head is the feature removed
      have hck : c = k := by
        simp [colOf, e] at hc
        omega
      have hnot : nm ∉ rest.map (·.1) := by rw [← e]; exact hn'.1
      have hfilt : rest.filter (fun p => !(p.1 == nm)) = rest := by
        apply List.filter_eq_self.mpr
        intro p hp
        have : p.1 ≠ nm := by
          intro h; exact hnot (List.mem_map.mpr ⟨p, hp, h⟩)
        simp [this]
      have hdec : (rest.map (decAbove c)).map (·.2) = (rest.map (·.2)).map (· - 1) := by
        rw [List.map_map, List.map_map]
        apply List.map_congr_left
        intro p hp
        have hm : p.2 ∈ List.range' (k + 1) rest.length := by
          rw [← hrest]; exact List.mem_map.mpr ⟨p, hp, rfl⟩
        have := (List.mem_range'_1.mp hm).1
        simp only [Function.comp, decAbove]
        split
        · rfl
        · omega
      refine ⟨?_, by omega⟩
      simp only [List.filter_cons, e, beq_self_eq_true, Bool.not_true, Bool.false_eq_true, if_false,
        hfilt, List.length_cons, Nat.add_sub_cancel]
      rw [hdec, hrest, map_pred_range']
    · -- the head stays, its column is below the one removed
      have hc' : colOf rest nm = some c := by
        have : ((n1, c1).1 == nm) = false := by simp [e]
        simpa [colOf, List.find?_cons, this] using hc
      obtain ⟨ih, hkc⟩ := removeAF_cols rest (k + 1) c nm hn'.2 hrest hc'
      refine ⟨?_, by omega⟩
      have hne : (!((n1, c1).1 == nm)) = true := by simp [e]
      have hlen : 0 < rest.length := by
        cases rest with
        | nil => simp [colOf] at hc'
        | cons _ _ => simp
      simp only [List.filter_cons, hne, if_true, List.map_cons, List.length_cons, Nat.add_sub_cancel]
      have hhead : (decAbove c (n1, c1)).2 = k := by
        simp only [decAbove]
        split
        · omega
        · exact hc1
      rw [hhead, ih]
      have : rest.length = (rest.length - 1) + 1 := by omega
      rw [this, List.range'_succ]
      simp

/-- `removeAnalyticalFeature` keeps a table well-formed -/
theorem removeAF_wf (tr : Track) (nm : String) (r : Track) (h : WF tr.table)
    (hr : removeAF tr nm = some r) : WF r.table := by
  unfold removeAF at hr
  split at hr
  · cases hr
  · rename_i c hc
    cases hr
    have hcols : tr.table.map (·.2) = List.range' 0 tr.table.length := by
      rw [h.2, List.range_eq_range']
    obtain ⟨h2, _⟩ := removeAF_cols tr.table 0 c nm h.1 hcols hc
    have hnames : ((tr.table.filter (fun p => !(p.1 == nm))).map (decAbove c)).map (·.1) =
        (tr.table.filter (fun p => !(p.1 == nm))).map (·.1) := by
      rw [List.map_map]
      apply List.map_congr_left
      intro p _
      simp only [Function.comp, decAbove]
      split <;> rfl
    have hlen : ((tr.table.filter (fun p => !(p.1 == nm))).map (decAbove c)).length = tr.table.length - 1 := by
      have := congrArg List.length h2
      simpa using this
    refine ⟨?_, ?_⟩
    · show (((tr.table.filter (fun p => !(p.1 == nm))).map (decAbove c)).map (·.1)).Nodup
      rw [hnames]
      exact (List.Sublist.map _ List.filter_sublist).nodup h.1
    · show ((tr.table.filter (fun p => !(p.1 == nm))).map (decAbove c)).map (·.2) =
        List.range ((tr.table.filter (fun p => !(p.1 == nm))).map (decAbove c)).length
      rw [h2, hlen, List.range_eq_range']

end TV.Seq
