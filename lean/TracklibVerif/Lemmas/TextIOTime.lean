import TracklibVerif.Lemmas.TextIODigits
/-! Timestamp print/read lemmas for C13 (core only): `readTimestamp f (printTime f t)` for a format of
distinct full-width codes. -/
namespace TV.TextIO
open TV.ObsTime

/-- the codes whose printed width is fixed and whose value is read back exactly -/
def fullCodes : List (Nat × Char) := [(2,'D'),(2,'M'),(4,'Y'),(2,'h'),(2,'m'),(2,'s'),(3,'z')]

def codeList : List Tok → List (Nat × Char)
  | [] => []
  | Tok.code w l :: r => (w, l) :: codeList r
  | Tok.lit _ :: r => codeList r

/-- a format made of distinct full-width codes and arbitrary literal characters -/
def Lossless (f : List Tok) : Prop := (∀ c ∈ codeList f, c ∈ fullCodes) ∧ (codeList f).Nodup

instance (f : List Tok) : Decidable (Lossless f) := by unfold Lossless; exact inferInstance

/-- positions of the codes in the format string -/
def codePositions : List Tok → Nat → List ((Nat × Char) × Nat)
  | [], _ => []
  | Tok.code w l :: r, p => ((w, l), p) :: codePositions r (p + 2)
  | Tok.lit _ :: r, p => codePositions r (p + 1)

/-- positions of the codes in the printed string -/
def outPositions : List Tok → Nat → List ((Nat × Char) × Nat)
  | [], _ => []
  | Tok.code w l :: r, o => ((w, l), o) :: outPositions r (o + w)
  | Tok.lit _ :: r, o => outPositions r (o + 1)

/-! ### the insertion sort -/

theorem insertByIdx_perm (x) (l : List ((Nat × Char) × Nat)) : (insertByIdx x l).Perm (x :: l) := by
  induction l with
  | nil => exact List.Perm.refl _
  | cons y ys ih =>
    unfold insertByIdx
    split
    · exact List.Perm.refl _
    · exact (List.Perm.cons y ih).trans (List.Perm.swap x y ys)

theorem foldl_insert_perm (l acc : List ((Nat × Char) × Nat)) :
    (l.foldl (fun acc x => insertByIdx x acc) acc).Perm (l ++ acc) := by
  induction l generalizing acc with
  | nil => exact List.Perm.refl _
  | cons x xs ih =>
    simp only [List.foldl_cons, List.cons_append]
    exact (ih _).trans ((List.Perm.append_left xs (insertByIdx_perm x acc)).trans List.perm_middle)

theorem sortByIdx_perm (l : List ((Nat × Char) × Nat)) : (sortByIdx l).Perm l := by
  have := foldl_insert_perm l []
  simpa [sortByIdx] using this

theorem insertByIdx_sorted (x) (l : List ((Nat × Char) × Nat)) (h : l.Pairwise (fun a b => a.2 ≤ b.2)) :
    (insertByIdx x l).Pairwise (fun a b => a.2 ≤ b.2) := by
  induction l with
  | nil => simp [insertByIdx]
  | cons y ys ih =>
    rw [List.pairwise_cons] at h
    unfold insertByIdx
    split
    · rename_i hlt
      rw [List.pairwise_cons]
      refine ⟨?_, List.pairwise_cons.2 h⟩
      intro z hz
      rcases List.mem_cons.1 hz with rfl | hz
      · omega
      · have := h.1 z hz; omega
    · rename_i hge
      rw [List.pairwise_cons]
      refine ⟨?_, ih h.2⟩
      intro z hz
      have := (insertByIdx_perm x ys).subset hz
      rcases List.mem_cons.1 this with rfl | hz
      · omega
      · exact h.1 z hz

theorem sortByIdx_sorted (l : List ((Nat × Char) × Nat)) : (sortByIdx l).Pairwise (fun a b => a.2 ≤ b.2) := by
  unfold sortByIdx
  suffices ∀ acc : List ((Nat × Char) × Nat), acc.Pairwise (fun a b => a.2 ≤ b.2) →
      (l.foldl (fun acc x => insertByIdx x acc) acc).Pairwise (fun a b => a.2 ≤ b.2) from this [] List.Pairwise.nil
  induction l with
  | nil => intro acc h; exact h
  | cons x xs ih => intro acc h; exact ih _ (insertByIdx_sorted x acc h)

/-- sorting a permutation of a list that is strictly increasing in the index gives that list -/
theorem sortByIdx_eq (l l' : List ((Nat × Char) × Nat)) (hp : l.Perm l')
    (hs : l'.Pairwise (fun a b => a.2 < b.2)) : sortByIdx l = l' := by
  have hperm : (sortByIdx l).Perm l' := (sortByIdx_perm l).trans hp
  have hne : (sortByIdx l).Pairwise (fun a b => a.2 ≠ b.2) := by
    refine (hperm.symm.pairwise_iff (R := fun a b => a.2 ≠ b.2) (fun h => Ne.symm h)).1 ?_
    exact hs.imp (fun h => Nat.ne_of_lt h)
  have hlt : (sortByIdx l).Pairwise (fun a b => a.2 < b.2) := by
    have := (sortByIdx_sorted l).and hne
    exact this.imp (fun h => Nat.lt_of_le_of_ne h.1 h.2)
  exact List.Perm.eq_of_pairwise (le := fun a b => a.2 < b.2)
    (fun a b _ _ h1 h2 => absurd h1 (Nat.lt_asymm h2)) hlt hs hperm

/-! ### `found` is a permutation of the code positions -/

theorem codePositions_ge (f : List Tok) (p : Nat) : ∀ x ∈ codePositions f p, p ≤ x.2 := by
  induction f generalizing p with
  | nil => simp [codePositions]
  | cons tk r ih =>
    intro x hx
    cases tk with
    | code w l =>
      simp only [codePositions, List.mem_cons] at hx
      rcases hx with rfl | hx
      · exact Nat.le_refl _
      · have := ih _ x hx; omega
    | lit c =>
      simp only [codePositions] at hx
      have := ih _ x hx; omega

theorem codePositions_sorted (f : List Tok) (p : Nat) : (codePositions f p).Pairwise (fun a b => a.2 < b.2) := by
  induction f generalizing p with
  | nil => simp [codePositions]
  | cons tk r ih =>
    cases tk with
    | code w l =>
      simp only [codePositions, List.pairwise_cons]
      refine ⟨fun x hx => ?_, ih _⟩
      have := codePositions_ge r _ x hx
      omega
    | lit c => exact ih _

theorem codePositions_key (f : List Tok) (p : Nat) : ∀ x ∈ codePositions f p, x.1 ∈ codeList f := by
  induction f generalizing p with
  | nil => simp [codePositions]
  | cons tk r ih =>
    intro x hx
    cases tk with
    | code w l =>
      simp only [codePositions, List.mem_cons] at hx
      rcases hx with rfl | hx
      · simp [codeList]
      · simp [codeList, ih _ x hx]
    | lit c => exact ih _ x hx

theorem mem_codePositions_iff (f : List Tok) (hn : (codeList f).Nodup) (p : Nat) (w : Nat) (l : Char) (i : Nat) :
    ((w, l), i) ∈ codePositions f p ↔ findCode w l f p = some i := by
  induction f generalizing p with
  | nil => simp [codePositions, findCode]
  | cons tk r ih =>
    cases tk with
    | code w' l' =>
      simp only [codeList, List.nodup_cons] at hn
      simp only [codePositions, findCode, List.mem_cons]
      by_cases hc : w = w' ∧ l = l'
      · obtain ⟨rfl, rfl⟩ := hc
        simp only [and_self, ↓reduceIte, Option.some.injEq]
        constructor
        · rintro (h | h)
          · simp at h; exact h.symm
          · exact absurd (codePositions_key r _ _ h) hn.1
        · intro h; left; simp [h]
      · simp only [hc, ↓reduceIte]
        rw [← ih hn.2]
        constructor
        · rintro (h | h)
          · simp at h; exact absurd ⟨h.1.1, h.1.2⟩ hc
          · exact h
        · intro h; right; exact h
    | lit c =>
      simp only [codeList] at hn
      simp only [codePositions, findCode]
      exact ih hn _

theorem fullCodes_sub_codes : ∀ c ∈ fullCodes, c ∈ codes := by decide

/-- the list built by `__precompileReadFmt` before sorting -/
def foundCodes (f : List Tok) : List ((Nat × Char) × Nat) :=
  codes.filterMap (fun c => (findCode c.1 c.2 f 0).map (fun i => (c, i)))

theorem foundCodes_perm (f : List Tok) (h : Lossless f) : (foundCodes f).Perm (codePositions f 0) := by
  have hnd1 : (foundCodes f).Nodup := by
    unfold foundCodes
    have hc : codes.Pairwise (· ≠ ·) := by decide
    refine List.Pairwise.filterMap _ ?_ hc
    intro a a' hne b hb b' hb'
    simp only [Option.map_eq_some_iff] at hb hb'
    obtain ⟨i, _, rfl⟩ := hb
    obtain ⟨i', _, rfl⟩ := hb'
    intro e
    exact hne (Prod.mk.inj e).1
  have hnd2 : (codePositions f 0).Nodup :=
    (codePositions_sorted f 0).imp (fun h => fun e => by rw [e] at h; exact Nat.lt_irrefl _ h)
  rw [List.perm_ext_iff_of_nodup hnd1 hnd2]
  rintro ⟨⟨w, l⟩, i⟩
  rw [mem_codePositions_iff f h.2]
  unfold foundCodes
  simp only [List.mem_filterMap, Option.map_eq_some_iff]
  constructor
  · rintro ⟨c, _, j, hj, he⟩
    obtain ⟨rfl, rfl⟩ := Prod.mk.inj he
    exact hj
  · intro hf
    refine ⟨(w, l), ?_, i, hf, rfl⟩
    have := (mem_codePositions_iff f h.2 0 w l i).2 hf
    exact fullCodes_sub_codes _ (h.1 _ (codePositions_key f 0 _ this))

theorem applyShift_codePositions (f : List Tok) (p : Nat) (sh : Int) (h : 0 ≤ (p : Int) + sh) :
    applyShift (codePositions f p) sh = outPositions f ((p : Int) + sh).toNat := by
  induction f generalizing p sh with
  | nil => rfl
  | cons tk r ih =>
    cases tk with
    | code w l =>
      simp only [codePositions, applyShift, outPositions]
      rw [ih (p + 2) (sh + w - 2) (by omega)]
      congr 2
      omega
    | lit c =>
      simp only [codePositions, outPositions]
      rw [ih (p + 1) sh (by omega)]
      congr 1
      omega

/-- the precompiled read format of a lossless format lists its codes with their offsets in the printed string -/
theorem precompile_eq (f : List Tok) (h : Lossless f) : precompile f = outPositions f 0 := by
  unfold precompile
  have : sortByIdx (foundCodes f) = codePositions f 0 :=
    sortByIdx_eq _ _ (foundCodes_perm f h) (codePositions_sorted f 0)
  unfold foundCodes at this
  simp only [this]
  have := applyShift_codePositions f 0 0 (by omega)
  simpa using this

/-! ### reading what was printed -/

/-- the stamp fits the fixed widths: what `WFs` adds to this is only that the year has four digits -/
def Fits (t : Stamp) : Prop :=
  t.d.year < 10000 ∧ t.d.month < 100 ∧ t.d.day < 100 ∧ t.d.hour < 100 ∧ t.d.min < 100 ∧ t.d.sec < 100 ∧ t.ms < 1000

/-- copy the field designated by a code letter from `t` -/
def setField (st t : Stamp) (l : Char) : Stamp :=
  if l = 'D' then { st with d := { st.d with day := t.d.day } }
  else if l = 'M' then { st with d := { st.d with month := t.d.month } }
  else if l = 'Y' then { st with d := { st.d with year := t.d.year } }
  else if l = 'h' then { st with d := { st.d with hour := t.d.hour } }
  else if l = 'm' then { st with d := { st.d with min := t.d.min } }
  else if l = 's' then { st with d := { st.d with sec := t.d.sec } }
  else { st with ms := t.ms }

theorem fieldVal_lt (t : Stamp) (ht : Fits t) (w : Nat) (l : Char) (h : (w, l) ∈ fullCodes) :
    fieldVal t w l < 10 ^ w ∧ 1 ≤ w := by
  obtain ⟨h1, h2, h3, h4, h5, h6, h7⟩ := ht
  simp only [fullCodes, List.mem_cons, Prod.mk.injEq, List.not_mem_nil, or_false] at h
  rcases h with ⟨rfl, rfl⟩ | ⟨rfl, rfl⟩ | ⟨rfl, rfl⟩ | ⟨rfl, rfl⟩ | ⟨rfl, rfl⟩ | ⟨rfl, rfl⟩ | ⟨rfl, rfl⟩ <;>
    simp [fieldVal] <;> omega

theorem fillMember_zpad (st t : Stamp) (w : Nat) (l : Char) (h : (w, l) ∈ fullCodes) :
    fillMember st w l (zpad w (fieldVal t w l)) = some (setField st t l) := by
  simp only [fullCodes, List.mem_cons, Prod.mk.injEq, List.not_mem_nil, or_false] at h
  have hz : ∀ w v, (zpad w v).isEmpty = false := by
    intro w v
    have h1 : (zpad w v).length = max w (numDigits v) := padDigits_length _ _
    have h2 := numDigits_pos v
    cases hh : zpad w v with
    | nil => rw [hh] at h1; simp at h1; omega
    | cons _ _ => rfl
  rcases h with ⟨rfl, rfl⟩ | ⟨rfl, rfl⟩ | ⟨rfl, rfl⟩ | ⟨rfl, rfl⟩ | ⟨rfl, rfl⟩ | ⟨rfl, rfl⟩ | ⟨rfl, rfl⟩ <;>
    simp [fillMember, parseNat_zpad, fieldVal, setField, hz]

/-- state after reading all the codes of `f` -/
def applyCodes : List Tok → Stamp → Stamp → Stamp
  | [], _, st => st
  | Tok.code _ l :: r, t, st => applyCodes r t (setField st t l)
  | Tok.lit _ :: r, t, st => applyCodes r t st

theorem readLoop_printTime (f : List Tok) (t : Stamp) (ht : Fits t) (hf : ∀ c ∈ codeList f, c ∈ fullCodes)
    (pre suf : Str) (st : Stamp) :
    readLoop (outPositions f pre.length) (pre ++ (printTime f t ++ suf)) st = some (applyCodes f t st) := by
  induction f generalizing pre st with
  | nil => rfl
  | cons tk r ih =>
    cases tk with
    | code w l =>
      have hmem : (w, l) ∈ fullCodes := hf _ (by simp [codeList])
      have hlen := zpad_length w (fieldVal t w l) (fieldVal_lt t ht w l hmem).1 (fieldVal_lt t ht w l hmem).2
      simp only [outPositions, printTime, readLoop, applyCodes]
      have hslice : ((pre ++ ((zpad w (fieldVal t w l) ++ printTime r t) ++ suf)).drop pre.length).take w
          = zpad w (fieldVal t w l) := by
        rw [List.drop_left, List.append_assoc, List.take_left' hlen]
      rw [hslice, fillMember_zpad st t w l hmem]
      have := ih (fun c hc => hf c (by simp [codeList, hc])) (pre ++ zpad w (fieldVal t w l)) (setField st t l)
      simp only [List.length_append, hlen, List.append_assoc] at this ⊢
      exact this
    | lit c =>
      simp only [outPositions, printTime, applyCodes]
      have := ih (fun c hc => hf c (by simpa [codeList] using hc)) (pre ++ [c]) st
      simp only [List.length_append, List.length_singleton, List.append_assoc, List.singleton_append, List.cons_append] at this ⊢
      exact this

/-- `readTimestamp f (str(t) + suffix)` for a lossless format: the fields named by the format; what follows
the printed stamp (the `Z` of a GPX time) is ignored -/
theorem readTimestamp_printTime_suffix (f : List Tok) (h : Lossless f) (t : Stamp) (ht : Fits t) (suf : Str) :
    readTimestamp f (printTime f t ++ suf) = some (applyCodes f t epoch) := by
  unfold readTimestamp
  rw [precompile_eq f h]
  exact readLoop_printTime f t ht h.1 [] suf epoch

theorem readTimestamp_printTime (f : List Tok) (h : Lossless f) (t : Stamp) (ht : Fits t) :
    readTimestamp f (printTime f t) = some (applyCodes f t epoch) := by
  have := readTimestamp_printTime_suffix f h t ht []
  simpa using this

/-- does the format contain a code with letter `l`? -/
def hasL (f : List Tok) (l : Char) : Bool := (codeList f).any (fun c => c.2 == l)

/-- the stamp reduced to the fields a format mentions (the others keep the values of `ObsTime()`) -/
def project (f : List Tok) (t : Stamp) : Stamp :=
  ⟨⟨if hasL f 'Y' then t.d.year else 1970, if hasL f 'M' then t.d.month else 1, if hasL f 'D' then t.d.day else 1,
    if hasL f 'h' then t.d.hour else 0, if hasL f 'm' then t.d.min else 0, if hasL f 's' then t.d.sec else 0⟩,
   if hasL f 'z' then t.ms else 0⟩

theorem hasL_lit (c : Char) (r : List Tok) (X : Char) : hasL (Tok.lit c :: r) X = hasL r X := rfl
theorem hasL_code (w : Nat) (l : Char) (r : List Tok) (X : Char) :
    hasL (Tok.code w l :: r) X = (l == X || hasL r X) := by simp [hasL, codeList]
theorem hasL_nil (X : Char) : hasL [] X = false := rfl

theorem applyCodes_eq (f : List Tok) (t st : Stamp) (hf : ∀ c ∈ codeList f, c ∈ fullCodes) :
    applyCodes f t st =
      ⟨⟨if hasL f 'Y' then t.d.year else st.d.year, if hasL f 'M' then t.d.month else st.d.month,
        if hasL f 'D' then t.d.day else st.d.day, if hasL f 'h' then t.d.hour else st.d.hour,
        if hasL f 'm' then t.d.min else st.d.min, if hasL f 's' then t.d.sec else st.d.sec⟩,
       if hasL f 'z' then t.ms else st.ms⟩ := by
  induction f generalizing st with
  | nil => simp [applyCodes, hasL_nil]
  | cons tk r ih =>
    cases tk with
    | lit c =>
      have := ih st (fun c hc => hf c (by simpa [codeList] using hc))
      simp only [applyCodes, hasL_lit]
      exact this
    | code w l =>
      have hmem : (w, l) ∈ fullCodes := hf _ (by simp [codeList])
      have ih' := fun st => ih st (fun c hc => hf c (by simp [codeList, hc]))
      simp only [fullCodes, List.mem_cons, Prod.mk.injEq, List.not_mem_nil, or_false] at hmem
      simp only [applyCodes, ih', hasL_code]
      rcases hmem with ⟨rfl, rfl⟩ | ⟨rfl, rfl⟩ | ⟨rfl, rfl⟩ | ⟨rfl, rfl⟩ | ⟨rfl, rfl⟩ | ⟨rfl, rfl⟩ | ⟨rfl, rfl⟩ <;>
        simp [setField]

theorem applyCodes_epoch (f : List Tok) (t : Stamp) (hf : ∀ c ∈ codeList f, c ∈ fullCodes) :
    applyCodes f t epoch = project f t := by
  rw [applyCodes_eq f t epoch hf]; rfl

/-- a format that names the six calendar fields -/
def FullDate (f : List Tok) : Prop :=
  hasL f 'Y' = true ∧ hasL f 'M' = true ∧ hasL f 'D' = true ∧ hasL f 'h' = true ∧ hasL f 'm' = true ∧ hasL f 's' = true

theorem project_full (f : List Tok) (t : Stamp) (h : FullDate f) : (project f t).d = t.d := by
  obtain ⟨h1, h2, h3, h4, h5, h6⟩ := h
  simp [project, h1, h2, h3, h4, h5, h6]

end TV.TextIO
