import TracklibVerif.Lemmas.TextIOWkt
/-! `read_all`: the feature columns written by `writeToFile` are read back by the second pass of `__readFromCsv`
(core only). -/
namespace TV.TextIO
open TV.ObsTime

/-! ### raw lines of a written text -/

theorem getLast?_flatten_nl (ls : List Str) (hne : ls ≠ []) :
    ((ls.map (· ++ ['\n'])).flatten).getLast? = some '\n' := by
  induction ls with
  | nil => exact absurd rfl hne
  | cons a r ih =>
    cases r with
    | nil => simp
    | cons b r' =>
      have := ih (by simp)
      simp only [List.map_cons, List.flatten_cons] at this ⊢
      rw [List.getLast?_append, this]
      rfl

theorem zip_map_self {α β : Type} (l : List α) (g : α → β) : l.zip (l.map g) = l.map (fun x => (x, g x)) := by
  induction l with
  | nil => rfl
  | cons a r ih => simp [ih]

theorem linePairs_flatten (ls : List Str) (h : ∀ l ∈ ls, '\n' ∉ l) :
    linePairs (ls.map (· ++ ['\n'])).flatten = ls.map (fun l => (l, l ++ ['\n'])) := by
  unfold linePairs rawLines
  rw [fileLines_flatten ls h]
  cases ls with
  | nil => rfl
  | cons a r =>
    rw [getLast?_flatten_nl _ (by simp)]
    simp only [↓reduceIte]
    exact zip_map_self _ _

/-- a line paired with its raw form -/
def pr (l : Str) : Str × Str := (l, l ++ ['\n'])

/-! ### first pass: `name_non_special` and the last `fields` -/

theorem hdrLoopNames_append (sep cmt : Char) (pre ls : List (Str × Str)) (nm : Option (List Str)) :
    ∃ nm', hdrLoopNames sep cmt pre.length (pre ++ ls) nm = .ok (ls, nm') := by
  induction pre generalizing nm with
  | nil => exact ⟨nm, rfl⟩
  | cons a r ih =>
    obtain ⟨nm', h⟩ := ih (some (splitOnChar sep (if a.2.head? = some cmt then a.2.drop 1 else a.2)))
    exact ⟨nm', by simpa [hdrLoopNames] using h⟩

theorem dataLoopNames_comment (sep : Char) (l : Str × Str) (cs : Str) (h : strip l.1 = '#' :: cs)
    (ls : List (Str × Str)) (nm : Option (List Str)) (nf : Option Nat) :
    dataLoopNames sep '#' (l :: ls) nm nf = dataLoopNames sep '#' ls (some (splitOnChar sep cs)) nf := by
  simp [dataLoopNames, h]

theorem dataLoopNames_comments (sep : Char) (cm ls : List (Str × Str)) (h : ∀ l ∈ cm, ∃ cs, strip l.1 = '#' :: cs)
    (nm : Option (List Str)) (nf : Option Nat) :
    ∃ nm', dataLoopNames sep '#' (cm ++ ls) nm nf = dataLoopNames sep '#' ls nm' nf := by
  induction cm generalizing nm with
  | nil => exact ⟨nm, rfl⟩
  | cons a r ih =>
    obtain ⟨cs, hcs⟩ := h a (by simp)
    obtain ⟨nm', h'⟩ := ih (fun l hl => h l (by simp [hl])) (some (splitOnChar sep cs))
    exact ⟨nm', by rw [List.cons_append, dataLoopNames_comment sep a cs hcs, h']⟩

/-- a data line with `n` fields: its own `strip()`, not empty, not a comment -/
def DataLine (sep : Char) (n : Nat) (l : Str) : Prop :=
  strip l = l ∧ (∃ c cs, l = c :: cs ∧ c ≠ '#') ∧ ((splitOnChar sep l).filter (fun s => !s.isEmpty)).length = n

theorem dataLoopNames_data (sep : Char) (n : Nat) (ls : List (Str × Str)) (h : ∀ l ∈ ls, DataLine sep n l.1)
    (nm : Option (List Str)) (nf : Option Nat) :
    dataLoopNames sep '#' ls nm nf = (nm, if ls = [] then nf else some n) := by
  induction ls generalizing nf with
  | nil => rfl
  | cons a r ih =>
    obtain ⟨hs, ⟨c, cs, hc, hne⟩, hl⟩ := h a (by simp)
    have hs' : strip a.1 = c :: cs := by rw [hs, hc]
    simp only [dataLoopNames, hs', hne, ↓reduceIte]
    rw [ih (fun l hl => h l (by simp [hl]))]
    rw [← hc, hl]
    by_cases hr : r = [] <;> simp [hr]

/-! ### the names line of the header block -/

theorem strip_of_fieldOK (sep : Char) (s : Str) (h : FieldOK sep s) : strip s = s :=
  strip_eq_self s (fun c hc => (h.1.2.1 c hc).1) h.1.2.2

theorem fieldOK_intro (sep : Char) (s : Str) (hne : s ≠ []) (hws : ∀ c ∈ s, isWs c = false ∧ c ≠ '#' ∧ c ≠ '\n')
    (hsep : sep ∉ s) : FieldOK sep s :=
  ⟨⟨hne, fun c hc => ⟨(hws c (List.mem_of_mem_head? hc)).1, (hws c (List.mem_of_mem_head? hc)).2.1⟩,
    fun c hc => (hws c (List.mem_of_getLast? hc)).1⟩, hsep, fun hm => (hws _ hm).2.2 rfl⟩

/-- the fields of a line made of good fields are the fields; the line prefixed by the comment character is its own `strip()` -/
theorem fields_of_join (sep : Char) (hnl : sep ≠ '\n') (fs : List Str) (hne : fs ≠ []) (h : ∀ s ∈ fs, FieldOK sep s) :
    (splitOnChar sep (joinChar sep fs)).filter (fun s => !s.isEmpty) = fs
    ∧ strip (joinChar sep fs) = joinChar sep fs
    ∧ strip ('#' :: joinChar sep fs) = '#' :: joinChar sep fs
    ∧ (∃ c cs, joinChar sep fs = c :: cs ∧ c ≠ '#') ∧ '\n' ∉ joinChar sep fs := by
  have hl := joinChar_line sep fs hne (fun s hs => (h s hs).1)
  refine ⟨?_, hl.1, ?_, hl.2, ?_⟩
  · rw [splitOnChar_joinChar _ _ hne (fun v hv => (h v hv).2.1)]
    apply List.filter_eq_self.2
    intro s hs
    have := (h s hs).1.1
    cases s with
    | nil => exact absurd rfl this
    | cons _ _ => rfl
  · apply strip_eq_self
    · intro c hc
      simp only [List.head?_cons, Option.some.injEq] at hc
      subst hc; decide
    · intro c hc
      obtain ⟨c0, cs0, hj, _⟩ := hl.2
      have hlast := h (fs.getLast hne) (List.getLast_mem hne)
      have : ('#' :: joinChar sep fs).getLast? = (joinChar sep fs).getLast? := by
        rw [hj]; simp [List.getLast?_cons_cons]
      rw [this, joinChar_getLast sep fs hne hlast.1.1] at hc
      exact hlast.1.2.2 c hc
  · intro hm
    rcases mem_joinChar hm with e | ⟨v, hv, hx⟩
    · exact hnl e.symm
    · exact (h v hv).2.2 hx

/-- the names of the coordinate / time columns in column order (`E N U time`, `lon lat h time`, `X Y Z time`) -/
def colNames (f : CsvFmt) (srid : Str) : List Str :=
  cols f (strip (hdrNames srid).1) (strip (hdrNames srid).2.1)
    ((if f.idU = -1 then none else some (hdrNames srid).2.2).map strip)
    ((if f.idT = -1 then none else some "time".toList).map strip)

theorem headerAF_foldl (sep : Char) (names : List Str) (acc : Str) :
    names.foldl (fun acc n => acc ++ [sep] ++ n) acc = acc ++ (names.map (fun n => sep :: n)).flatten := by
  induction names generalizing acc with
  | nil => simp
  | cons a r _ => simp

/-- the header block, explicitly: the third line is the comment character followed by the column names and the
feature names joined by the separator -/
theorem headerBlock_eq (f : CsvFmt) (hv : ValidIds f) (naf : Nat) (srid : Str) (names : List Str) :
    headerBlock f srid names (orderList f naf)
      = .ok ['#' :: ("srid: ".toList ++ (if srid = "GEO".toList then "Geo".toList else srid)),
             '#' :: "ref point: None".toList, '#' :: joinChar f.sep (colNames f srid ++ names)] := by
  unfold headerBlock colNames
  cases hx : hdrNames srid with
  | mk a bc =>
    cases bc with
    | mk b c =>
      simp only
      have hU : (if f.idU = -1 then none else some c).isSome = decide (f.idU ≠ -1) := by split <;> simp_all
      have hT : (if f.idT = -1 then none else some "time".toList).isSome = decide (f.idT ≠ -1) := by split <;> simp_all
      rw [printInOrder_layout f hv naf a b _ _ _ hU hT, headerAF_foldl]
      simp only [List.nil_append, bind, Except.bind, pure, Except.pure]
      rw [joinChar_append_flatten _ _ _ (cols_ne_nil _ _ _ _ _)]

/-- the characters of the column names -/
def colChars : Str := "ENUXYZlonathime".toList

theorem colNames_ok (f : CsvFmt) (hv : ValidIds f) (hsep : f.sep ∉ colChars) (srid : Str) :
    ∀ s ∈ colNames f srid, FieldOK f.sep s := by
  intro s hs
  unfold colNames at hs
  have hm := mem_cols f hv _ _ _ _ (by split <;> simp_all) (by split <;> simp_all) s hs
  have key : ∀ t : Str, t ≠ [] → (∀ c ∈ t, isWs c = false ∧ c ≠ '#' ∧ c ≠ '\n') → (∀ c ∈ t, c ∈ colChars) → FieldOK f.sep t :=
    fun t h1 h2 h3 => fieldOK_intro _ t h1 h2 (fun hm => hsep (h3 _ hm))
  have hall : ∀ t ∈ [strip (hdrNames srid).1, strip (hdrNames srid).2.1, strip (hdrNames srid).2.2, strip "time".toList],
      t ≠ [] ∧ (∀ c ∈ t, isWs c = false ∧ c ≠ '#' ∧ c ≠ '\n') ∧ (∀ c ∈ t, c ∈ colChars) := by
    unfold hdrNames
    split
    · decide
    · split <;> decide
  have use : ∀ t ∈ [strip (hdrNames srid).1, strip (hdrNames srid).2.1, strip (hdrNames srid).2.2, strip "time".toList], FieldOK f.sep t :=
    fun t ht => key t (hall t ht).1 (hall t ht).2.1 (hall t ht).2.2
  rcases hm with rfl | rfl | h | h
  · exact use _ (by simp)
  · exact use _ (by simp)
  · split at h
    · simp at h
    · simp only [Option.map_some, Option.some.injEq] at h
      subst h; exact use _ (by simp)
  · split at h
    · simp at h
    · simp only [Option.map_some, Option.some.injEq] at h
      subst h; exact use _ (by simp)

/-! ### which columns are special -/

theorem special_contains (f : CsvFmt) (hv : ValidIds f) (i : Nat) :
    (special f).contains (Int.ofNat i) = decide (i < nSpecial f) := by
  obtain ⟨e, n, u, t, sep⟩ := f
  have hm := validB_mem_layouts hv
  layout_cases hm <;> (rw [Bool.eq_iff_iff]; simp [special, nSpecial]; omega)

/-! ### creation of the features -/

def createStep (f : CsvFmt) (names : List Str) (dico : List Str) (i : Nat) : Except String (List Str) :=
  if (special f).contains (Int.ofNat i) then pure dico else do
    let name ← nth names i
    if reserved.contains name then throw "AnalyticalFeatureError"
    else pure (if dico.contains name then dico else dico ++ [name])

theorem createAFs_def (f : CsvFmt) (names : List Str) (nf : Nat) :
    createAFs f names nf = (List.range nf).foldlM (createStep f names) [] := rfl

theorem foldlM_range_succ {α : Type} (g : α → Nat → Except String α) (a : α) (n : Nat) :
    (List.range (n + 1)).foldlM g a = (List.range n).foldlM g a >>= fun b => g b n := by
  rw [List.range_succ, List.foldlM_append]
  simp

theorem not_mem_take_of_nodup (l : List Str) (hnd : l.Nodup) (j : Nat) (hj : j < l.length) : l[j] ∉ l.take j := by
  intro hm
  obtain ⟨i, hi, he⟩ := List.getElem_of_mem hm
  rw [List.length_take] at hi
  rw [List.getElem_take] at he
  have hp := List.pairwise_iff_getElem.1 hnd i j (by omega) hj (by omega)
  exact hp he

theorem createAFs_eq (f : CsvFmt) (hv : ValidIds f) (cn names : List Str) (hcn : cn.length = nSpecial f)
    (hres : ∀ n ∈ names, n ∉ reserved) (hnd : names.Nodup) :
    createAFs f (cn ++ names) (nSpecial f + names.length) = .ok names := by
  rw [createAFs_def]
  have hA : ∀ m, m ≤ nSpecial f → (List.range m).foldlM (createStep f (cn ++ names)) [] = .ok [] := by
    intro m
    induction m with
    | zero => intro _; rfl
    | succ m ih =>
      intro hm
      rw [foldlM_range_succ, ih (by omega)]
      simp only [bind, Except.bind, createStep, special_contains f hv m]
      have : m < nSpecial f := by omega
      simp [this, pure, Except.pure]
  have hB : ∀ j, j ≤ names.length →
      (List.range (nSpecial f + j)).foldlM (createStep f (cn ++ names)) [] = .ok (names.take j) := by
    intro j
    induction j with
    | zero => intro _; simpa using hA _ (Nat.le_refl _)
    | succ j ih =>
      intro hj
      have hjl : j < names.length := by omega
      rw [← Nat.add_assoc, foldlM_range_succ, ih (by omega)]
      simp only [bind, Except.bind, createStep, special_contains f hv (nSpecial f + j)]
      have h1 : ¬ (nSpecial f + j < nSpecial f) := by omega
      have h2 : nth (cn ++ names) (nSpecial f + j) = .ok names[j] := by
        unfold nth
        rw [List.getElem?_append_right (by omega)]
        simp [hcn, hjl, pure, Except.pure]
      have h3 : reserved.contains names[j] = false := by
        have := hres names[j] (List.getElem_mem hjl)
        simpa using this
      have h4 : (names.take j).contains names[j] = false := by
        have := not_mem_take_of_nodup names hnd j hjl
        simpa using this
      simp only [h1, decide_false, h2, h3, h4, Bool.false_eq_true, ↓reduceIte, pure, Except.pure]
      rw [List.take_add_one]
      simp [hjl]
  have := hB names.length (Nat.le_refl _)
  simpa using this

/-! ### second pass: the values of one line -/

def rowStep (f : CsvFmt) (names dico fields : List Str) (k : Nat) (fs : List (List AFRead)) (i : Nat) :
    Except String (List (List AFRead)) :=
  if (special f).contains (Int.ofNat i) then pure fs else do
    let fld ← nth fields i
    let name ← nth names i
    let v ← afValue name (strip fld)
    match dico.idxOf? name with
    | none => throw "AnalyticalFeatureError"
    | some j => do
      let ft ← nth fs k
      pure (fs.set k (ft.set j v))

theorem afRowSet_def (f : CsvFmt) (names dico fields : List Str) (k : Nat) (fs : List (List AFRead)) :
    afRowSet f names dico fields k fs = (List.range fields.length).foldlM (rowStep f names dico fields k) fs := rfl

theorem idxOf_nodup (l : List Str) (hnd : l.Nodup) (j : Nat) (hj : j < l.length) : l.idxOf? l[j] = some j := by
  rw [List.idxOf?_eq_some_iff]
  refine ⟨hj, rfl, ?_⟩
  intro i hi he
  exact List.pairwise_iff_getElem.1 hnd i j (by omega) hj hi he

theorem take_drop_set {α : Type} (a b : List α) (j : Nat) (ha : j < a.length) (hb : j < b.length) :
    (a.take j ++ b.drop j).set j a[j] = a.take (j + 1) ++ b.drop (j + 1) := by
  induction j generalizing a b with
  | zero =>
    cases a with
    | nil => simp at ha
    | cons x a' =>
      cases b with
      | nil => simp at hb
      | cons y b' => simp
  | succ j ih =>
    cases a with
    | nil => simp at ha
    | cons x a' =>
      cases b with
      | nil => simp at hb
      | cons y b' =>
        simp only [List.length_cons, Nat.add_lt_add_iff_right] at ha hb
        simpa using ih a' b' ha hb

/-- the inner loop of the second pass on a written line: the feature columns (those after the `nSpecial` coordinate /
time columns) are stored, in order, in the features of observation `k` -/
theorem afRowSet_eq (f : CsvFmt) (hv : ValidIds f) (cn names cf texts : List Str) (vals : List AFRead)
    (hcn : cn.length = nSpecial f) (hcf : cf.length = nSpecial f) (hnd : names.Nodup)
    (ht : texts.length = names.length) (hvl : vals.length = names.length)
    (hval : ∀ j (h1 : j < names.length) (h2 : j < texts.length) (h3 : j < vals.length),
      afValue names[j] (strip texts[j]) = .ok vals[j])
    (k : Nat) (fs : List (List AFRead)) (hk : k < fs.length) (hft : fs[k].length = names.length) :
    afRowSet f (cn ++ names) names (cf ++ texts) k fs = .ok (fs.set k vals) := by
  rw [afRowSet_def]
  have hlen : (cf ++ texts).length = nSpecial f + names.length := by simp [hcf, ht]
  rw [hlen]
  have hA : ∀ m, m ≤ nSpecial f → (List.range m).foldlM (rowStep f (cn ++ names) names (cf ++ texts) k) fs = .ok fs := by
    intro m
    induction m with
    | zero => intro _; rfl
    | succ m ih =>
      intro hm
      rw [foldlM_range_succ, ih (by omega)]
      simp only [bind, Except.bind, rowStep, special_contains f hv m]
      have : m < nSpecial f := by omega
      simp [this, pure, Except.pure]
  have hB : ∀ j, j ≤ names.length →
      (List.range (nSpecial f + j)).foldlM (rowStep f (cn ++ names) names (cf ++ texts) k) fs
        = .ok (fs.set k (vals.take j ++ fs[k].drop j)) := by
    intro j
    induction j with
    | zero =>
      intro _
      have := hA _ (Nat.le_refl _)
      simpa using this
    | succ j ih =>
      intro hj
      have hjl : j < names.length := by omega
      rw [← Nat.add_assoc, foldlM_range_succ, ih (by omega)]
      simp only [bind, Except.bind, rowStep, special_contains f hv (nSpecial f + j)]
      have h1 : ¬ (nSpecial f + j < nSpecial f) := by omega
      have h2 : nth (cf ++ texts) (nSpecial f + j) = .ok (texts[j]'(by omega)) := by
        unfold nth
        rw [List.getElem?_append_right (by omega)]
        simp [hcf, ht, hjl, pure, Except.pure]
      have h3 : nth (cn ++ names) (nSpecial f + j) = .ok names[j] := by
        unfold nth
        rw [List.getElem?_append_right (by omega)]
        simp [hcn, hjl, pure, Except.pure]
      have h4 := hval j hjl (by omega) (by omega)
      have h5 := idxOf_nodup names hnd j hjl
      have h6 : nth (fs.set k (vals.take j ++ fs[k].drop j)) k = .ok (vals.take j ++ fs[k].drop j) := by
        unfold nth
        simp [hk, pure, Except.pure]
      simp only [h1, decide_false, Bool.false_eq_true, ↓reduceIte, h2, h3, h4, h5, h6, pure, Except.pure]
      rw [List.set_set, take_drop_set vals fs[k] j (by omega) (by omega)]
  have := hB names.length (Nat.le_refl _)
  rw [this]
  congr 2
  rw [← hvl, List.take_length, hvl, ← hft, List.drop_length, List.append_nil]

/-! ### second pass: the lines -/

theorem afLoop_comment (f : CsvFmt) (names dico : List Str) (first : Bool) (cs : Str) (ls : List (Str × Str))
    (k : Nat) (fs : List (List AFRead)) :
    afLoop f '#' names dico first (pr ('#' :: cs) :: ls) k fs = afLoop f '#' names dico false ls k fs := by
  cases first with
  | true =>
    obtain ⟨cs', h⟩ := strip_hash (cs ++ ['\n'])
    simp [afLoop, pr, h]
  | false =>
    obtain ⟨cs', h⟩ := strip_hash cs
    obtain ⟨cs'', h'⟩ := strip_hash cs'
    simp [afLoop, pr, h, h']

theorem afLoop_comments (f : CsvFmt) (names dico : List Str) (cm : List Str) (hcm : ∀ l ∈ cm, ∃ cs, l = '#' :: cs)
    (ls : List (Str × Str)) (k : Nat) (fs : List (List AFRead)) :
    afLoop f '#' names dico false (cm.map pr ++ ls) k fs = afLoop f '#' names dico false ls k fs := by
  induction cm with
  | nil => rfl
  | cons a r ih =>
    obtain ⟨cs, rfl⟩ := hcm a (by simp)
    rw [List.map_cons, List.cons_append, afLoop_comment, ih (fun l hl => hcm l (by simp [hl]))]

/-- a written data line seen by the second pass: its fields are the `nSpecial` coordinate / time columns followed by one
text per feature name, each of which is stored as the corresponding value of `vals` -/
def AFLine (f : CsvFmt) (names : List Str) (l : Str) (vals : List AFRead) : Prop :=
  strip l = l ∧ (∃ c cs, l = c :: cs ∧ c ≠ '#') ∧
  ∃ cf texts, (splitOnChar f.sep l).filter (fun s => !s.isEmpty) = cf ++ texts ∧ cf.length = nSpecial f ∧
    texts.length = names.length ∧ vals.length = names.length ∧
    ∀ j (_ : j < names.length) (_ : j < texts.length) (_ : j < vals.length), afValue names[j] (strip texts[j]) = .ok vals[j]

theorem afLoop_data (f : CsvFmt) (hv : ValidIds f) (cn names : List Str) (hcn : cn.length = nSpecial f) (hnd : names.Nodup)
    (ls : List (Str × List AFRead)) (h : ∀ x ∈ ls, AFLine f names x.1 x.2) (done : List (List AFRead)) :
    afLoop f '#' (cn ++ names) names false (ls.map (fun x => pr x.1)) done.length
        (done ++ List.replicate ls.length (List.replicate names.length (AFRead.num (0, 0))))
      = .ok (done ++ ls.map (fun x => x.2)) := by
  induction ls generalizing done with
  | nil => simp [afLoop, pure, Except.pure]
  | cons x r ih =>
    obtain ⟨hs, ⟨c, cs, hc, hne⟩, cf, texts, hf, hcf, ht, hvl, hval⟩ := h x (by simp)
    have hs2 : strip (strip x.1) = c :: cs := by rw [hs, hs, hc]
    have hne' : (strip x.1).isEmpty = false := by rw [hs, hc]; rfl
    rw [List.map_cons]
    unfold afLoop
    simp only [pr, Bool.false_eq_true, ↓reduceIte, hne', hs2, hne]
    rw [hs, hf]
    have hk : done.length < (done ++ List.replicate (x :: r).length (List.replicate names.length (AFRead.num (0, 0)))).length := by
      simp
    have hget : (done ++ List.replicate (x :: r).length (List.replicate names.length (AFRead.num (0, 0))))[done.length]
        = List.replicate names.length (AFRead.num (0, 0)) := by
      rw [List.getElem_append_right (Nat.le_refl _)]
      simp
    rw [afRowSet_eq f hv cn names cf texts x.2 hcn hcf hnd ht hvl hval done.length _ hk (by rw [hget]; simp)]
    simp only [bind, Except.bind]
    have hset : (done ++ List.replicate (x :: r).length (List.replicate names.length (AFRead.num (0, 0)))).set done.length x.2
        = (done ++ [x.2]) ++ List.replicate r.length (List.replicate names.length (AFRead.num (0, 0))) := by
      rw [List.set_append_right _ _ (Nat.le_refl _), Nat.sub_self]
      simp [List.replicate_succ]
    rw [hset]
    have := ih (fun y hy => h y (by simp [hy])) (done ++ [x.2])
    rw [List.length_append, List.length_singleton] at this
    simp only [pr] at this
    rw [this]
    simp

theorem dataLine_of_afLine (f : CsvFmt) (names : List Str) (l : Str) (vals : List AFRead) (h : AFLine f names l vals) :
    DataLine f.sep (nSpecial f + names.length) l := by
  obtain ⟨hs, hc, cf, texts, hf, hcf, ht, _, _⟩ := h
  exact ⟨hs, hc, by rw [hf, List.length_append, hcf, ht]⟩

/-- `read_all` on a text made of `pre.length` header lines, comment lines, the names line and the data lines -/
theorem readAll_written (f : CsvFmt) (hv : ValidIds f) (hnl : f.sep ≠ '\n') (pre cm : List Str) (cn names : List Str)
    (data : List (Str × List AFRead))
    (hpre : ∀ l ∈ pre, '\n' ∉ l) (hcm : ∀ l ∈ cm, '\n' ∉ l ∧ ∃ cs, l = '#' :: cs)
    (hcn : cn.length = nSpecial f) (hfields : ∀ s ∈ cn ++ names, FieldOK f.sep s)
    (hres : ∀ n ∈ names, n ∉ reserved) (hnd : names.Nodup)
    (hdata : ∀ x ∈ data, AFLine f names x.1 x.2 ∧ '\n' ∉ x.1) (hne : data ≠ []) :
    readAll f pre.length '#'
        (((pre ++ (cm ++ ('#' :: joinChar f.sep (cn ++ names)) :: data.map (fun x => x.1))).map (· ++ ['\n'])).flatten) data.length
      = .ok (names, data.map (fun x => x.2)) := by
  have hcnne : cn ++ names ≠ [] := by
    intro h
    have : (cn ++ names).length = 0 := by rw [h]; rfl
    rw [List.length_append, hcn] at this
    unfold nSpecial at this
    omega
  obtain ⟨hfl, hst, hst3, _, hnl3⟩ := fields_of_join f.sep hnl (cn ++ names) hcnne hfields
  have hlines : ∀ l ∈ pre ++ (cm ++ ('#' :: joinChar f.sep (cn ++ names)) :: data.map (fun x => x.1)), '\n' ∉ l := by
    intro l hl
    simp only [List.mem_append, List.mem_cons, List.mem_map] at hl
    rcases hl with hl | hl | rfl | ⟨x, hx, rfl⟩
    · exact hpre l hl
    · exact (hcm l hl).1
    · intro hm
      rcases List.mem_cons.1 hm with e | hm
      · exact absurd e (by decide)
      · exact hnl3 hm
    · exact (hdata x hx).2
  unfold readAll
  rw [linePairs_flatten _ hlines, List.map_append]
  obtain ⟨nm0, h0⟩ := hdrLoopNames_append f.sep '#' (pre.map pr)
    ((cm ++ ('#' :: joinChar f.sep (cn ++ names)) :: data.map (fun x => x.1)).map pr) none
  rw [List.length_map] at h0
  have hpr : ∀ l : List Str, l.map (fun l => (l, l ++ ['\n'])) = l.map pr := fun _ => rfl
  rw [hpr, hpr, h0]
  simp only [bind, Except.bind]
  -- first pass: the names and the number of fields
  rw [List.map_append, List.map_cons]
  obtain ⟨nm1, h1⟩ := dataLoopNames_comments f.sep (cm.map pr)
    (pr ('#' :: joinChar f.sep (cn ++ names)) :: (data.map (fun x => x.1)).map pr)
    (by
      intro l hl
      obtain ⟨a, ha, rfl⟩ := List.mem_map.1 hl
      obtain ⟨cs, rfl⟩ := (hcm a ha).2
      exact strip_hash cs) nm0 none
  rw [h1, dataLoopNames_comment f.sep _ (joinChar f.sep (cn ++ names)) (by simpa [pr] using hst3)]
  rw [dataLoopNames_data f.sep (nSpecial f + names.length) _ (by
    intro l hl
    simp only [List.map_map, List.mem_map, Function.comp] at hl
    obtain ⟨x, hx, rfl⟩ := hl
    exact dataLine_of_afLine f names x.1 x.2 (hdata x hx).1)]
  have hdne : ((data.map (fun x => x.1)).map pr = []) = False := by
    simp [hne]
  simp only [hdne, ↓reduceIte]
  -- the names
  have hnames : ((splitOnChar f.sep (joinChar f.sep (cn ++ names))).filter (fun s => !s.isEmpty)).map strip = cn ++ names := by
    rw [hfl]
    have hid : ∀ s ∈ cn ++ names, strip s = id s := fun s hs => strip_of_fieldOK _ s (hfields s hs)
    rw [List.map_congr_left hid, List.map_id]
  rw [hnames, createAFs_eq f hv cn names hcn hres hnd]
  simp only
  have hdrop : List.drop pre.length (pre.map pr ++ (cm.map pr ++ pr ('#' :: joinChar f.sep (cn ++ names)) :: (data.map (fun x => x.1)).map pr))
      = cm.map pr ++ pr ('#' :: joinChar f.sep (cn ++ names)) :: (data.map (fun x => x.1)).map pr := by
    rw [List.drop_append_of_le_length (by simp)]
    simp
  rw [hdrop]
  -- second pass: the comment lines (the first one raw), then the data lines
  have hskip : afLoop f '#' (cn ++ names) names true
        (cm.map pr ++ pr ('#' :: joinChar f.sep (cn ++ names)) :: (data.map (fun x => x.1)).map pr) 0
        (List.replicate data.length (List.replicate names.length (AFRead.num (0, 0))))
      = afLoop f '#' (cn ++ names) names false ((data.map (fun x => x.1)).map pr) 0
        (List.replicate data.length (List.replicate names.length (AFRead.num (0, 0)))) := by
    cases cm with
    | nil => simp only [List.map_nil, List.nil_append]; rw [afLoop_comment]
    | cons a r =>
      obtain ⟨cs, rfl⟩ := (hcm a (by simp)).2
      rw [List.map_cons, List.cons_append, afLoop_comment,
        afLoop_comments f _ _ r (fun l hl => (hcm l (by simp [hl])).2), afLoop_comment]
  rw [hskip]
  have := afLoop_data f hv cn names hcn hnd data (fun x hx => (hdata x hx).1) []
  simp only [List.length_nil, List.nil_append, List.map_map] at this ⊢
  rw [show (pr ∘ fun x : Str × List AFRead => x.1) = (fun x => pr x.1) from rfl, this]
  rfl

/-! ### the written file -/

/-- what a feature name must satisfy: a good field of the names line, and not one of the names the track refuses -/
def NameOK (sep : Char) (n : Str) : Prop := FieldOK sep n ∧ n ∉ reserved

/-- the value `read_all` stores for the feature value `v` written in the column named `name`: the text itself when the
name ends in `&`, else `float()` of the text, else the text without double quotes -/
def expAF (name : Str) (v : AFVal) : AFRead :=
  if name.getLast? = some '&' then .str (afText v)
  else match floatLit? (afText v) with
    | some x => x
    | none => .str ((afText v).filter (· ≠ '"'))

theorem afValue_expAF (name : Str) (hne : name ≠ []) (v : AFVal) : afValue name (afText v) = .ok (expAF name v) := by
  unfold afValue expAF
  cases h : name.getLast? with
  | none => exact absurd (List.getLast?_eq_none_iff.1 h) hne
  | some c =>
    by_cases hc : c = '&'
    · subst hc; simp [pure, Except.pure]
    · have : ¬ (some c = some '&') := by simpa using hc
      simp only [hc, this, ↓reduceIte]
      cases floatLit? (afText v) <;> rfl

theorem rowLine_afLine (f : CsvFmt) (geo : Bool) (pf : List Tok) (r : Row) (afs : List AFVal) (names : List Str)
    (hv : ValidIds f) (hsep : numChar f.sep = false) (hnl : f.sep ≠ '\n') (htime : f.idT ≠ -1 → TimeOK pf f.sep)
    (hafs : ∀ v ∈ afs, AFOK f.sep v) (hnm : ∀ n ∈ names, n ≠ []) (hlen : afs.length = names.length) :
    AFLine f names (rowLine f geo pf r afs) ((names.zip afs).map (fun nv => expAF nv.1 nv.2))
      ∧ '\n' ∉ rowLine f geo pf r afs := by
  unfold rowLine
  generalize (floatFmt geo).2 = d
  have hok : ∀ s ∈ rowFields f d pf r afs, FieldOK f.sep s := rowFields_ok f d pf r afs hv hsep htime hafs
  have hne : rowFields f d pf r afs ≠ [] := by
    unfold rowFields
    intro h
    exact cols_ne_nil _ _ _ _ _ (List.append_eq_nil_iff.1 h).1
  obtain ⟨hfl, hst, _, hc, hnl'⟩ := fields_of_join f.sep hnl _ hne hok
  refine ⟨⟨hst, hc, _, afs.map afText, by rw [hfl]; rfl, cols_length _ _ _ _ _, by simp [hlen], by simp [hlen], ?_⟩, hnl'⟩
  intro j h1 h2 h3
  have hj : j < afs.length := by omega
  have e1 : (afs.map afText)[j] = afText afs[j] := by simp
  have e2 : ((names.zip afs).map (fun nv => expAF nv.1 nv.2))[j] = expAF names[j] afs[j] := by simp
  rw [e1, e2, strip_of_fieldOK f.sep _ (hafs _ (List.getElem_mem hj))]
  exact afValue_expAF _ (hnm _ (List.getElem_mem h1)) _

/-- the three lines of the header block -/
def hdrLine1 (srid : Str) : Str := '#' :: ("srid: ".toList ++ (if srid = "GEO".toList then "Geo".toList else srid))
def hdrLine2 : Str := '#' :: "ref point: None".toList
def hdrLine3 (f : CsvFmt) (srid : Str) (names : List Str) : Str := '#' :: joinChar f.sep (colNames f srid ++ names)

theorem hdrLine1_ok (srid : Str) (h : '\n' ∉ srid) : '\n' ∉ hdrLine1 srid ∧ ∃ cs, hdrLine1 srid = '#' :: cs := by
  refine ⟨?_, _, rfl⟩
  unfold hdrLine1
  intro hc
  simp only [List.mem_cons, List.mem_append] at hc
  rcases hc with hc | hc | hc
  · exact absurd hc (by decide)
  · exact absurd hc (by decide)
  · split at hc
    · exact absurd hc (by decide)
    · exact h hc

theorem hdrLine2_ok : '\n' ∉ hdrLine2 ∧ ∃ cs, hdrLine2 = '#' :: cs := ⟨by decide, _, rfl⟩

theorem writeToFile_explicit (f : CsvFmt) (geo : Bool) (pf : List Tok) (h naf : Nat) (rows : List (Row × List AFVal))
    (srid : Str) (names : List Str)
    (hv : ValidIds f) (hsep : numChar f.sep = false) (hnl : f.sep ≠ '\n') (htime : f.idT ≠ -1 → TimeOK pf f.sep)
    (hrows : ∀ ra ∈ rows, RowOK f geo pf ra.1) (hafs : ∀ ra ∈ rows, ∀ v ∈ ra.2, AFOK f.sep v) (hpos : 0 < h) :
    writeToFile f geo pf h naf rows srid names
      = .ok (((hdrLine1 srid :: hdrLine2 :: hdrLine3 f srid names :: rows.map (fun ra => rowLine f geo pf ra.1 ra.2)).map
          (· ++ ['\n'])).flatten) := by
  unfold writeToFile
  have := mapM_ok (fun ra : Row × List AFVal => writeRow f geo pf (orderList f naf) ra.1 ra.2)
    (fun ra => rowLine f geo pf ra.1 ra.2) rows (by
      intro ra hra
      have hr := hrows ra hra
      exact (row_roundtrip_line f geo pf naf ra.1 ra.2 hv hsep hnl (fun ht => ⟨htime ht, hr.1 ht⟩) hr.2 (hafs ra hra)).1)
  simp only [this, hpos, ↓reduceIte, headerBlock_eq f hv naf srid names, pure, Except.pure, bind, Except.bind]
  rfl

/-- **read_all**: the file `writeToFile` writes with its header block (`h > 0`) and feature columns is read back by
`readFromCsv(..., h=hr, read_all=True)`, for `hr` = 0, 1, 2, as the same observations, the same feature names in the same
order, and for every observation the values `expAF name value` of its features. -/
theorem csv_read_all_roundtrip (f : CsvFmt) (geo : Bool) (pf : List Tok) (h naf : Nat) (rows : List (Row × List AFVal))
    (srid : Str) (names : List Str)
    (hv : ValidIds f) (hsep : numChar f.sep = false) (hnl : f.sep ≠ '\n') (hcol : f.sep ∉ colChars)
    (htime : f.idT ≠ -1 → TimeOK pf f.sep)
    (hrows : ∀ ra ∈ rows, RowOK f geo pf ra.1) (hafs : ∀ ra ∈ rows, ∀ v ∈ ra.2, AFOK f.sep v) (hsrid : '\n' ∉ srid)
    (hpos : 0 < h) (hne : rows ≠ [])
    (hnames : ∀ n ∈ names, NameOK f.sep n) (hnd : names.Nodup) (hrl : ∀ ra ∈ rows, ra.2.length = names.length) :
    ∃ text, writeToFile f geo pf h naf rows srid names = .ok text ∧
      ∀ hr, hr ≤ 2 → readCsvAll f pf hr text
        = .ok (rows.map (fun ra => expRow f geo pf ra.1), names,
               rows.map (fun ra => (names.zip ra.2).map (fun nv => expAF nv.1 nv.2))) := by
  have hh : HdrOK srid names := ⟨hsrid, fun n hn => (hnames n hn).1.2.2⟩
  obtain ⟨text, hw, hrd⟩ := csv_file_roundtrip f geo pf h naf rows srid names hv hsep hnl htime hrows hafs hh
  refine ⟨text, hw, ?_⟩
  have hw' := writeToFile_explicit f geo pf h naf rows srid names hv hsep hnl htime hrows hafs hpos
  have htext := Except.ok.inj (hw.symm.trans hw')
  intro hr hle
  have h0 : h ≠ 0 := by omega
  unfold readCsvAll
  rw [hrd hr (by simp only [h0, ↓reduceIte]; omega)]
  simp only [bind, Except.bind, List.length_map]
  -- the data lines with the values expected of them
  let data : List (Str × List AFRead) :=
    rows.map (fun ra => (rowLine f geo pf ra.1 ra.2, (names.zip ra.2).map (fun nv => expAF nv.1 nv.2)))
  have hd1 : data.map (fun x => x.1) = rows.map (fun ra => rowLine f geo pf ra.1 ra.2) := by simp [data]
  have hd2 : data.map (fun x => x.2) = rows.map (fun ra => (names.zip ra.2).map (fun nv => expAF nv.1 nv.2)) := by simp [data]
  have hdl : data.length = rows.length := by simp [data]
  have hdata : ∀ x ∈ data, AFLine f names x.1 x.2 ∧ '\n' ∉ x.1 := by
    intro x hx
    obtain ⟨ra, hra, rfl⟩ := List.mem_map.1 hx
    exact rowLine_afLine f geo pf ra.1 ra.2 names hv hsep hnl htime (hafs ra hra) (fun n hn => (hnames n hn).1.1.1) (hrl ra hra)
  have hdne : data ≠ [] := by simpa [data] using hne
  have hcn : (colNames f srid).length = nSpecial f := cols_length _ _ _ _ _
  have hfields : ∀ s ∈ colNames f srid ++ names, FieldOK f.sep s := by
    intro s hs
    rcases List.mem_append.1 hs with hs | hs
    · exact colNames_ok f hv hcol srid s hs
    · exact (hnames s hs).1
  have hres : ∀ n ∈ names, n ∉ reserved := fun n hn => (hnames n hn).2
  have h1 := hdrLine1_ok srid hsrid
  have h2 := hdrLine2_ok
  have key : ∀ pre cm : List Str, pre.length = hr → (∀ l ∈ pre, '\n' ∉ l) → (∀ l ∈ cm, '\n' ∉ l ∧ ∃ cs, l = '#' :: cs) →
      pre ++ (cm ++ hdrLine3 f srid names :: data.map (fun x => x.1))
        = hdrLine1 srid :: hdrLine2 :: hdrLine3 f srid names :: rows.map (fun ra => rowLine f geo pf ra.1 ra.2) →
      readAll f hr '#' text rows.length = .ok (names, rows.map (fun ra => (names.zip ra.2).map (fun nv => expAF nv.1 nv.2))) := by
    intro pre cm hl hpre hcm he
    have := readAll_written f hv hnl pre cm (colNames f srid) names data hpre hcm hcn hfields hres hnd hdata hdne
    rw [hl, hdl, hd2] at this
    rw [htext, ← he]
    exact this
  have hr3 : hr = 0 ∨ hr = 1 ∨ hr = 2 := by omega
  have hres' : readAll f hr '#' text rows.length
      = .ok (names, rows.map (fun ra => (names.zip ra.2).map (fun nv => expAF nv.1 nv.2))) := by
    rcases hr3 with rfl | rfl | rfl
    · exact key [] [hdrLine1 srid, hdrLine2] rfl (by simp)
        (by intro l hl; simp only [List.mem_cons, List.not_mem_nil, or_false] at hl; rcases hl with rfl | rfl; exact h1; exact h2)
        (by rw [hd1]; rfl)
    · exact key [hdrLine1 srid] [hdrLine2] rfl (by intro l hl; simp only [List.mem_singleton] at hl; subst hl; exact h1.1)
        (by intro l hl; simp only [List.mem_singleton] at hl; subst hl; exact h2)
        (by rw [hd1]; rfl)
    · exact key [hdrLine1 srid, hdrLine2] [] rfl
        (by intro l hl; simp only [List.mem_cons, List.not_mem_nil, or_false] at hl; rcases hl with rfl | rfl; exact h1.1; exact h2.1)
        (by simp) (by rw [hd1]; rfl)
  rw [hres']
  rfl

/-! ### the values -/

theorem takeWhile_digits (s : Str) (h : ∀ c ∈ s, (digitVal? c).isSome = true) :
    s.takeWhile (· ≠ '.') = s ∧ s.dropWhile (· ≠ '.') = [] := by
  induction s with
  | nil => exact ⟨rfl, rfl⟩
  | cons a r ih =>
    have ha : a ≠ '.' := by
      intro e; subst e
      exact absurd (h '.' (by simp)) (by decide)
    have := ih (fun c hc => h c (by simp [hc]))
    simp only [List.takeWhile, List.dropWhile, ha, ne_eq, not_false_eq_true, decide_true]
    exact ⟨by rw [this.1], this.2⟩

/-- `float(str(i))` for a Python int -/
theorem parseDec_intStr (i : Int) : parseDec? (intStr i) = some (i, 0) := by
  rw [parseDec_noexp _ (fun c hc => numChar_noexp (intStr_numChar i c hc)), strip_numStr _ (intStr_ne_nil i) (intStr_numChar i)]
  unfold intStr
  have h := parseMant_nodot (decide (i < 0)) (natStr i.natAbs) i.natAbs (natStr_digits _) (natStr_ne_nil _)
    (by rw [parseNatAux_natStr]; simp)
  by_cases hi : i < 0
  · simp only [hi, ↓reduceIte, decide_true] at h ⊢
    rw [show '-' :: natStr i.natAbs = ['-'] ++ natStr i.natAbs from rfl, h]
    congr 2
    omega
  · simp only [hi, ↓reduceIte, decide_false, Bool.false_eq_true, List.nil_append] at h ⊢
    rw [h]
    congr 2
    omega

/-- a float value is one field of the line when the separator is not a character of `str(float)`: a number character, the
exponent marker `e` or the `+` of a positive exponent -/
theorem afOK_dec (sep : Char) (hsep : numChar sep = false) (he : sep ≠ 'e') (hp : sep ≠ '+') (d : Nat) (n : Int) :
    AFOK sep (.dec d n) := by
  have hch : ∀ c ∈ reprFloat 'e' d (SNum.ofInt n), isWs c = false ∧ c ≠ '#' ∧ c ≠ '\n' ∧ c ≠ sep := by
    intro c hc
    rcases reprFloat_chars 'e' d (SNum.ofInt n) c hc with h | h | h
    · have := numChar_not_ws h
      exact ⟨this.1, this.2.1, this.2.2.1, fun e => by rw [e, hsep] at h; exact absurd h (by decide)⟩
    · subst h; exact ⟨by decide, by decide, by decide, Ne.symm he⟩
    · subst h; exact ⟨by decide, by decide, by decide, Ne.symm hp⟩
  refine ⟨⟨reprFloat_ne_nil _ _ _, ?_, ?_⟩, ?_, ?_⟩
  · intro c hc
    have := hch c (List.mem_of_mem_head? hc)
    exact ⟨this.1, this.2.1⟩
  · intro c hc
    exact (hch c (List.mem_of_getLast? hc)).1
  · intro hm
    exact (hch _ hm).2.2.2 rfl
  · intro hm
    exact (hch _ hm).2.2.1 rfl

/-- **the values read back**, for a column whose name does not end in `&`: an `int` comes back as the float of the same
value, a float of any magnitude as the decimal `str()` printed, positional or in exponent notation (value `n / 10^d`, see `repr_value`), `nan` and
`±inf` as themselves, a string that `float()` refuses and that holds no double quote as itself. In a column whose name
ends in `&` every value comes back as its text. -/
theorem expAF_values (name : Str) (hamp : name.getLast? ≠ some '&') :
    (∀ i, expAF name (.int i) = .num (i, 0)) ∧
    (∀ d n, expAF name (.dec d n) = .num (reprValF d (SNum.ofInt n))) ∧
    expAF name .nan = .nan ∧ (∀ b, expAF name (.inf b) = .inf b) ∧
    (∀ s, floatLit? s = none → '"' ∉ s → expAF name (.str s) = .str s) := by
  refine ⟨?_, ?_, ?_, ?_, ?_⟩
  · intro i
    simp [expAF, hamp, afText, floatLit?, parseDec_intStr]
  · intro d n
    simp [expAF, hamp, afText, floatLit?, parseDec_reprFloat 'e' (by decide)]
  · simp only [expAF, hamp, ↓reduceIte, afText]
    decide +kernel
  · intro b
    cases b <;> (simp only [expAF, hamp, ↓reduceIte, afText]; decide +kernel)
  · intro s hs hq
    simp only [expAF, hamp, ↓reduceIte, afText, hs]
    congr 1
    apply List.filter_eq_self.2
    intro c hc
    simp only [ne_eq, decide_not, Bool.not_eq_eq_eq_not, Bool.not_true, decide_eq_false_iff_not]
    intro e; subst e; exact hq hc

theorem expAF_amp (name : Str) (hamp : name.getLast? = some '&') (v : AFVal) : expAF name v = .str (afText v) := by
  simp [expAF, hamp]

end TV.TextIO
