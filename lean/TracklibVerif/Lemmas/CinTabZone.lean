import TracklibVerif.Lemmas.CinTabGeom
/-! No program of the feature table READS the `zone` field of a stamp: running any of them on a world whose zone fields
were rewritten (by any function `f` of the old zone) gives the same result — value or exception — and the same final world
with its zones rewritten the same way. With `f = fun _ => 0`: everything the programs compute (abs_curv, speed, the
elapsed times speed divides by, …) is what it would be if every stamp were in zone 0; the elapsed time between two stamps
is a function of their seven calendar fields. -/
namespace TV.CinTab
open TV.Features TV.ObsTime

variable {V α β : Type}

/-- the same observation object with another zone -/
def WObs.zmap (f : Int → Int) (ob : WObs V) : WObs V := { ob with zone := f ob.zone }

/-- the same world with the zone field of every stamp rewritten by `f` -/
def World.zmap (f : Int → Int) (w : World V) : World V := { w with heap := w.heap.map (WObs.zmap f) }

/-- `m` does not read a zone: it commutes with every rewriting of the zones -/
def Blind (m : M (World V) α) : Prop := ∀ (f : Int → Int) (w : World V), m (w.zmap f) = ((m w).1, (m w).2.zmap f)

theorem blind_pure (x : α) : Blind (pure x : M (World V) α) := fun _ _ => rfl
theorem blind_throw (e : Err) : Blind (M.throw e : M (World V) α) := fun _ _ => rfl

theorem blind_bind {m : M (World V) α} {k : α → M (World V) β} (h1 : Blind m) (h2 : ∀ x, Blind (k x)) : Blind (m >>= k) := by
  intro f w
  show M.bind m k (w.zmap f) = ((M.bind m k w).1, (M.bind m k w).2.zmap f)
  unfold M.bind
  rw [h1 f w]
  cases hm : m w with
  | mk r w1 =>
    cases r with
    | error e => rfl
    | ok x => exact h2 x f w1

theorem blind_catchIndex {m : M (World V) α} (d : α) (h : Blind m) : Blind (M.catchIndex m d) := by
  intro f w
  unfold M.catchIndex
  rw [h f w]
  cases hm : m w with
  | mk r w1 =>
    cases r with
    | ok x => rfl
    | error e => cases e <;> rfl

theorem blind_forEach (k : α → M (World V) Unit) (h : ∀ a, Blind (k a)) : ∀ l : List α, Blind (M.forEach l k)
  | [] => blind_pure ()
  | a :: t => by
    unfold M.forEach
    exact blind_bind (h a) (fun _ => blind_forEach k h t)

theorem blind_foldL (k : β → α → M (World V) β) (h : ∀ b a, Blind (k b a)) : ∀ (l : List α) (b : β), Blind (M.foldL l b k)
  | [], b => blind_pure b
  | a :: t, b => by
    unfold M.foldL
    exact blind_bind (h b a) (fun b' => blind_foldL k h t b')

theorem blind_mapL (k : α → M (World V) β) (h : ∀ a, Blind (k a)) : ∀ l : List α, Blind (M.mapL l k)
  | [] => blind_pure []
  | a :: t => by
    unfold M.mapL
    exact blind_bind (h a) (fun b => blind_bind (blind_mapL k h t) (fun bs => blind_pure _))

theorem blind_tryFinally {m : M (World V) α} {fin : M (World V) Unit} (h1 : Blind m) (h2 : Blind fin) : Blind (M.tryFinally m fin) := by
  intro f w
  unfold M.tryFinally
  rw [h1 f w]
  cases hm : m w with
  | mk r w1 =>
    simp only
    rw [h2 f w1]
    cases hf : fin w1 with
    | mk r2 w2 =>
      cases r2 <;> rfl

/-! ### the heap functions commute with a rewriting of the zones -/

section heap
variable (f : Int → Int)

theorem zmap_getElem? (h : List (WObs V)) (id : Nat) : (h.map (WObs.zmap f))[id]? = (h[id]?).map (WObs.zmap f) :=
  List.getElem?_map ..

theorem zmap_modify (h : List (WObs V)) (id : Nat) (g : WObs V → WObs V) (hg : ∀ ob, (g ob).zmap f = g (ob.zmap f)) :
    (h.modify id g).map (WObs.zmap f) = (h.map (WObs.zmap f)).modify id g := by
  apply List.ext_getElem?
  intro j
  rw [List.getElem?_map, List.getElem?_modify, List.getElem?_modify, List.getElem?_map]
  cases h[j]? with
  | none => rfl
  | some ob => by_cases hj : id = j <;> simp [hj, hg]

theorem pushSlot_zmap (h : List (WObs V)) (id : Nat) (v : V) :
    pushSlot (h.map (WObs.zmap f)) id v = (pushSlot h id v).map (WObs.zmap f) :=
  (zmap_modify f h id (fun ob => { ob with feats := ob.feats ++ [v] }) (fun _ => rfl)).symm

theorem appendScalar_zmap (v : V) : ∀ (ids : List Nat) (h : List (WObs V)),
    appendScalar v ids (h.map (WObs.zmap f)) = (appendScalar v ids h).map (WObs.zmap f)
  | [], _ => rfl
  | id :: ids, h => by
    show appendScalar v ids (pushSlot (h.map (WObs.zmap f)) id v) = (appendScalar v ids (pushSlot h id v)).map _
    rw [pushSlot_zmap, appendScalar_zmap v ids]

theorem appendVals_zmap : ∀ (ids : List Nat) (l : List V) (h : List (WObs V)),
    appendVals ids l (h.map (WObs.zmap f)) = ((appendVals ids l h).1, (appendVals ids l h).2.map (WObs.zmap f))
  | [], _, _ => rfl
  | _ :: _, [], _ => rfl
  | id :: ids, v :: vs, h => by
    show appendVals ids vs (pushSlot (h.map (WObs.zmap f)) id v) = _
    rw [pushSlot_zmap, appendVals_zmap ids vs]
    rfl

theorem writeSlot_zmap (h : List (WObs V)) (id idx : Nat) (v : V) :
    writeSlot (h.map (WObs.zmap f)) id idx v = (writeSlot h id idx v).map (List.map (WObs.zmap f)) := by
  unfold writeSlot
  rw [zmap_getElem?]
  cases h[id]? with
  | none => rfl
  | some ob =>
    show (if idx < ob.feats.length then _ else _) = Option.map _ (if idx < ob.feats.length then _ else _)
    split
    · simp only [Option.map_some, List.map_set]
      rfl
    · rfl

theorem writeVals_zmap (idx : Nat) : ∀ (ids : List Nat) (l : List V) (h : List (WObs V)),
    writeVals idx ids l (h.map (WObs.zmap f)) = ((writeVals idx ids l h).1, (writeVals idx ids l h).2.map (WObs.zmap f))
  | [], _, _ => rfl
  | _ :: _, [], _ => rfl
  | id :: ids, v :: vs, h => by
    unfold writeVals
    rw [writeSlot_zmap]
    cases hw : writeSlot h id idx v with
    | none => rfl
    | some h' => exact writeVals_zmap idx ids vs h'

theorem writeScalar_zmap (idx : Nat) (v : V) : ∀ (ids : List Nat) (h : List (WObs V)),
    writeScalar idx v ids (h.map (WObs.zmap f)) = ((writeScalar idx v ids h).1, (writeScalar idx v ids h).2.map (WObs.zmap f))
  | [], _ => rfl
  | id :: ids, h => by
    unfold writeScalar
    rw [writeSlot_zmap]
    cases hw : writeSlot h id idx v with
    | none => rfl
    | some h' => exact writeScalar_zmap idx v ids h'

theorem delSlots_zmap (idx : Nat) : ∀ (ids : List Nat) (h : List (WObs V)),
    delSlots idx ids (h.map (WObs.zmap f)) = ((delSlots idx ids h).1, (delSlots idx ids h).2.map (WObs.zmap f))
  | [], _ => rfl
  | id :: ids, h => by
    unfold delSlots
    rw [zmap_getElem?]
    cases hob : h[id]? with
    | none => rfl
    | some ob =>
      show (if idx < ob.feats.length then _ else _) = _
      simp only
      split
      · have := delSlots_zmap idx ids (h.set id { ob with feats := ob.feats.eraseIdx idx })
        rw [List.map_set] at this
        exact this
      · rfl

end heap

/-! ### the Track API of the world -/

theorem zmap_trk (f : Int → Int) (w : World V) : (w.zmap f).trk = w.trk := rfl

theorem zmap_setDico (f : Int → Int) (w : World V) (d : List (String × Nat)) : (w.zmap f).setDico d = (w.setDico d).zmap f := rfl

variable [AbsTime V]

theorem zmap_coord (f : Int → Int) (ob : WObs V) (c : Coord) : (ob.zmap f).coord c = ob.coord c := by cases c <;> rfl

theorem blind_size : Blind (Tbl.size : M (World V) Nat) := fun _ _ => rfl
theorem blind_has (name : String) : Blind (Tbl.has name : M (World V) Bool) := fun _ _ => rfl
theorem blind_names : Blind (Tbl.names : M (World V) (List String)) := fun _ _ => rfl

omit [AbsTime V] in
theorem zmap_obs? (f : Int → Int) (w : World V) (i : Nat) : (w.zmap f).obs? i = (w.obs? i).map (WObs.zmap f) := by
  unfold World.obs?
  rw [zmap_trk]
  cases w.trk.ids[i]? with
  | none => rfl
  | some id => exact zmap_getElem? f w.heap id

theorem blind_get (o : Ops V) (name : String) : Blind (Tbl.get o name : M (World V) (List V)) := by
  intro f w
  show getW o name (w.zmap f) = ((getW o name w).1, (getW o name w).2.zmap f)
  have e1 : ∀ c : Coord, (fun id : Nat => ((w.zmap f).heap[id]?).map (fun ob : WObs V => ob.coord c)) = (fun id : Nat => (w.heap[id]?).map (fun ob : WObs V => ob.coord c)) := by
    intro c
    funext id
    show ((w.heap.map (WObs.zmap f))[id]?).map _ = _
    rw [zmap_getElem?]
    cases w.heap[id]? with
    | none => rfl
    | some ob => exact congrArg some (zmap_coord f ob c)
  have e2 : ∀ idx : Nat, (fun id : Nat => ((w.zmap f).heap[id]?).bind (fun ob : WObs V => ob.feats[idx]?)) = (fun id : Nat => (w.heap[id]?).bind (fun ob : WObs V => ob.feats[idx]?)) := by
    intro idx
    funext id
    show ((w.heap.map (WObs.zmap f))[id]?).bind _ = _
    rw [zmap_getElem?]
    cases w.heap[id]? with
    | none => rfl
    | some ob => rfl
  unfold getW
  simp only [zmap_trk, e1, e2]
  repeat' split
  all_goals rfl

theorem blind_getObs (o : Ops V) (name : String) (i : Nat) : Blind (Tbl.getObs o name i : M (World V) V) := by
  intro f w
  show getObsW o name i (w.zmap f) = ((getObsW o name i w).1, (getObsW o name i w).2.zmap f)
  unfold getObsW
  simp only [zmap_trk, zmap_obs?]
  cases w.obs? i with
  | none =>
    simp only [Option.map_none]
    repeat' split
    all_goals rfl
  | some ob =>
    simp only [Option.map_some, zmap_coord]
    have : (ob.zmap f).feats = ob.feats := rfl
    simp only [this]
    repeat' split
    all_goals rfl

theorem blind_create (name : String) (init : Init V) : Blind (Tbl.create name init : M (World V) Unit) := by
  intro f w
  show createW name init (w.zmap f) = ((createW name init w).1, (createW name init w).2.zmap f)
  unfold createW hasW
  simp only [zmap_trk]
  rcases Bool.eq_false_or_eq_true (reserved name) with h1 | h1
  · simp only [h1, if_true]
  rcases Bool.eq_false_or_eq_true (w.trk.ids.isEmpty) with h2 | h2
  · simp only [h1, h2, Bool.false_eq_true, if_true, if_false]
  rcases Bool.eq_false_or_eq_true ((find w.trk.dico name).isSome) with h3 | h3
  · simp only [h1, h2, h3, Bool.false_eq_true, if_true, if_false, Bool.or_false]
  simp only [h1, h2, h3, Bool.false_eq_true, if_false, Bool.or_false]
  cases init with
  | scalar v =>
    have e : appendScalar v w.trk.ids (w.zmap f).heap = _ := appendScalar_zmap f v w.trk.ids w.heap
    simp only
    rw [e]
    rfl
  | list l =>
    have e : appendVals w.trk.ids l (w.zmap f).heap = _ := appendVals_zmap f w.trk.ids l w.heap
    simp only
    by_cases hl : l.length < w.trk.ids.length
    · simp [hl]
    · simp only [hl, if_false]
      rw [e]
      rfl

theorem blind_update (name : String) (init : Init V) : Blind (Tbl.update name init : M (World V) Unit) := by
  intro f w
  show updateW name init (w.zmap f) = ((updateW name init w).1, (updateW name init w).2.zmap f)
  unfold updateW hasW
  simp only [zmap_trk]
  rcases Bool.eq_false_or_eq_true ((find w.trk.dico name).isSome || reserved name) with h1 | h1
  rotate_left
  · simp only [h1, Bool.not_false, if_true]
  rcases Bool.eq_false_or_eq_true (w.trk.ids.isEmpty) with h2 | h2
  · simp only [h1, h2, Bool.not_true, Bool.false_eq_true, if_true, if_false]
  simp only [h1, h2, Bool.not_true, Bool.false_eq_true, if_false]
  cases find w.trk.dico name with
  | none => rfl
  | some idx =>
    cases init with
    | scalar v =>
      have e : writeScalar idx v w.trk.ids (w.zmap f).heap = _ := writeScalar_zmap f idx v w.trk.ids w.heap
      simp only
      rw [e]
      rfl
    | list l =>
      have e : writeVals idx w.trk.ids l (w.zmap f).heap = _ := writeVals_zmap f idx w.trk.ids l w.heap
      simp only
      rw [e]
      rfl

theorem blind_remove (name : String) : Blind (Tbl.remove name : M (World V) Unit) := by
  intro f w
  show removeW name (w.zmap f) = ((removeW name w).1, (removeW name w).2.zmap f)
  unfold removeW hasW
  simp only [zmap_trk]
  rcases Bool.eq_false_or_eq_true ((find w.trk.dico name).isSome || reserved name) with h1 | h1
  rotate_left
  · simp only [h1, Bool.not_false, if_true]
  simp only [h1, Bool.not_true, Bool.false_eq_true, if_false]
  cases hf : find w.trk.dico name with
  | none => rfl
  | some idx =>
    have e : delSlots idx w.trk.ids (w.zmap f).heap = _ := delSlots_zmap f idx w.trk.ids w.heap
    simp only
    rw [e]
    cases hd : delSlots idx w.trk.ids w.heap with
    | mk r h =>
      cases r with
      | error e => rfl
      | ok u => rfl

/-- writing a value through `setObsAnalyticalFeature` — a feature or a coordinate -/
theorem blind_setObs (name : String) (i : Nat) (v : V) : Blind (Tbl.setObs name i v : M (World V) Unit) := by
  intro f w
  show setObsW name i v (w.zmap f) = ((setObsW name i v w).1, (setObsW name i v w).2.zmap f)
  unfold setObsW
  simp only [zmap_trk]
  rcases Bool.eq_false_or_eq_true (name == "x" || name == "y" || name == "z") with h1 | h1
  · simp only [h1, if_true]
    cases coord? name with
    | none => rfl
    | some c =>
      cases w.trk.ids[i]? with
      | none => rfl
      | some id =>
        simp only
        have hl : (w.zmap f).heap.length = w.heap.length := List.length_map ..
        rw [hl]
        by_cases h2 : id < w.heap.length
        · rw [if_pos h2, if_pos h2]
          have : (w.zmap f).heap.modify id (·.setCoord c v) = (w.heap.modify id (·.setCoord c v)).map (WObs.zmap f) :=
            (zmap_modify f w.heap id _ (fun ob => by cases c <;> rfl)).symm
          rw [this]
          rfl
        · rw [if_neg h2, if_neg h2]
  · simp only [h1, Bool.false_eq_true, if_false]
    cases find w.trk.dico name with
    | none => rfl
    | some idx =>
      cases w.trk.ids[i]? with
      | none => rfl
      | some id =>
        have e : writeSlot (w.zmap f).heap id idx v = _ := writeSlot_zmap f w.heap id idx v
        simp only
        rw [e]
        cases writeSlot w.heap id idx v with
        | none => rfl
        | some h => rfl

/-! ### the programs -/

theorem blind_setObs' (name : String) (_hr : reserved name = false) (i : Nat) (v : V) :
    Blind (Tbl.setObs name i v : M (World V) Unit) := blind_setObs name i v

theorem blind_addListToAF (name : String) (hr : reserved name = false) (arr : List V) :
    Blind (addListToAF name arr : M (World V) Unit) := by
  unfold addListToAF
  refine blind_bind blind_size (fun n => blind_forEach _ (fun i => ?_) _)
  split
  · exact blind_setObs' name hr i _
  · exact blind_throw _

theorem blind_setItem (name : String) (init : Init V) : Blind (setItem name init : M (World V) Unit) := by
  unfold setItem
  refine blind_bind (blind_has name) (fun b => ?_)
  split
  · exact blind_update name init
  · exact blind_create name init

theorem blind_unaryTemp (o : Ops V) (k : UOp) (inp : String) (n : Nat) : Blind (unaryTemp o k inp n : M (World V) (List V)) := by
  cases k with
  | integrator =>
    unfold unaryTemp
    exact blind_bind (blind_foldL _ (fun b i => blind_bind (blind_getObs o inp i) (fun _ => blind_pure _)) _ _) (fun _ => blind_pure _)
  | differentiator =>
    unfold unaryTemp
    refine blind_bind (blind_mapL _ (fun i => blind_bind (blind_getObs o inp i) (fun _ => blind_bind (blind_getObs o inp _) (fun _ => blind_pure _))) _) (fun _ => ?_)
    split
    · exact blind_throw _
    · exact blind_pure _

theorem blind_unaryVoid (o : Ops V) (k : UOp) (inp out : String) (hr : reserved out = false) :
    Blind (unaryVoid o k inp out : M (World V) (List V)) := by
  unfold unaryVoid
  exact blind_bind (blind_create out _) (fun _ => blind_bind blind_size (fun n => blind_bind (blind_unaryTemp o k inp n)
    (fun t => blind_bind (blind_addListToAF out hr t) (fun _ => blind_pure _))))

theorem blind_dist2DT (g : GOps V) (i j : Nat) : Blind (dist2DT g i j : M (World V) V) := by
  unfold dist2DT
  exact blind_bind (blind_getObs _ _ _) (fun _ => blind_bind (blind_getObs _ _ _) (fun _ => blind_bind (blind_getObs _ _ _)
    (fun _ => blind_bind (blind_getObs _ _ _) (fun _ => blind_pure _))))

theorem blind_dist3DT (g : GOps V) (i j : Nat) : Blind (dist3DT g i j : M (World V) V) := by
  unfold dist3DT
  exact blind_bind (blind_getObs _ _ _) (fun _ => blind_bind (blind_getObs _ _ _) (fun _ => blind_bind (blind_getObs _ _ _)
    (fun _ => blind_bind (blind_getObs _ _ _) (fun _ => blind_bind (blind_getObs _ _ _) (fun _ => blind_bind (blind_getObs _ _ _)
    (fun _ => blind_pure _))))))

theorem blind_dsAlgT (g : GOps V) (i : Nat) : Blind (dsAlgT g i : M (World V) V) := by
  unfold dsAlgT
  split
  · exact blind_pure _
  · exact blind_dist2DT g _ _

theorem blind_speedBetweenT (g : GOps V) (a b : Nat) : Blind (speedBetweenT g a b : M (World V) V) := by
  unfold speedBetweenT
  exact blind_bind (blind_dist2DT g a b) (fun _ => blind_bind (blind_getObs _ _ _) (fun _ => blind_bind (blind_getObs _ _ _)
    (fun _ => blind_pure _)))

theorem blind_speedAlgT (g : GOps V) (i : Nat) : Blind (speedAlgT g i : M (World V) V) := by
  unfold speedAlgT
  split
  · exact blind_speedBetweenT g _ _
  · refine blind_bind blind_size (fun n => ?_)
    split
    · exact blind_speedBetweenT g _ _
    · exact blind_speedBetweenT g _ _

theorem blind_addAFfn (o : Ops V) (alg : Nat → M (World V) V) (halg : ∀ i, Blind (alg i)) (name : String) :
    Blind (addAFfn o alg name : M (World V) (List V)) := by
  unfold addAFfn
  cases hr : reserved name with
  | true => exact blind_throw _
  | false =>
    simp only [Bool.false_eq_true, if_false]
    refine blind_bind (blind_has name) (fun b => blind_bind ?_ (fun _ => blind_bind blind_size (fun n => blind_bind ?_ (fun _ => blind_get o name))))
    · split
      · exact blind_create name _
      · exact blind_pure _
    · unfold afLoop
      exact blind_forEach _ (fun i => blind_bind (blind_catchIndex _ (halg i)) (fun v => blind_setObs' name hr i v)) _

theorem blind_computeAbsCurvT (g : GOps V) : Blind (computeAbsCurvT g : M (World V) (List V)) := by
  unfold computeAbsCurvT ensureDsT ensureAbsCurvT
  refine blind_bind (blind_bind (blind_has _) (fun b => ?_)) (fun _ => blind_bind (blind_bind (blind_has _) (fun b => ?_))
    (fun _ => blind_bind (blind_remove _) (fun _ => blind_get _ _)))
  · split
    · exact blind_bind (blind_addAFfn _ _ (blind_dsAlgT g) _) (fun _ => blind_pure _)
    · exact blind_pure _
  · split
    · exact blind_bind (blind_unaryVoid _ _ _ _ (by decide)) (fun _ => blind_pure _)
    · exact blind_pure _

theorem blind_estimateSpeedT (g : GOps V) : Blind (estimateSpeedT g : M (World V) (List V)) := by
  unfold estimateSpeedT
  refine blind_bind (blind_has _) (fun b => ?_)
  split
  · exact blind_get _ _
  · exact blind_addAFfn _ _ (blind_speedAlgT g) _

theorem blind_lengthT (g : GOps V) : Blind (lengthT g : M (World V) V) := by
  unfold lengthT
  exact blind_bind blind_size (fun n => blind_foldL _ (fun s i => blind_bind (blind_dist3DT g _ _) (fun _ => blind_pure _)) _ _)

theorem blind_curvAbsT (g : GOps V) : Blind (curvAbsT g : M (World V) V) := by
  unfold curvAbsT
  exact blind_bind blind_size (fun n => blind_foldL _ (fun s i => blind_bind (blind_dist2DT g _ _) (fun _ => blind_pure _)) _ _)

theorem blind_isSortedT (g : GOps V) : Blind (isSortedT g : M (World V) Bool) := by
  unfold isSortedT
  refine blind_bind blind_size (fun n => blind_foldL _ (fun acc i => ?_) _ _)
  split
  · exact blind_pure _
  · exact blind_bind (blind_getObs _ _ _) (fun _ => blind_bind (blind_getObs _ _ _) (fun _ => blind_pure _))

theorem blind_durationT (g : GOps V) : Blind (durationT g : M (World V) V) := by
  unfold durationT
  refine blind_bind blind_size (fun n => ?_)
  split
  · exact blind_throw _
  · exact blind_bind (blind_getObs _ _ _) (fun _ => blind_bind (blind_getObs _ _ _) (fun _ => blind_pure _))

theorem blind_purge : Blind (purge : M (World V) Unit) := by
  unfold purge
  refine blind_bind blind_names (fun l => blind_forEach _ (fun af => ?_) _)
  split
  · exact blind_remove af
  · exact blind_pure _

/-- the assignment `abs_curv = #0` of the expression evaluator: read, remove, create — features only -/
theorem blind_assign_abs_curv (o : Ops V) : Blind (assignOp o (.tok "abs_curv") (.tok "#0") : M (World V) Unit) := by
  unfold assignOp hasSV
  refine blind_bind (blind_has _) (fun b => ?_)
  split
  · refine blind_bind (blind_has _) (fun b2 => ?_)
    split
    · have : ("abs_curv" == "x" || "abs_curv" == "y" || "abs_curv" == "z" || "abs_curv" == "t") = false := by decide
      simp only [this, Bool.false_eq_true, if_false]
      exact blind_bind (blind_get o _) (fun _ => blind_bind (blind_remove _) (fun _ => blind_create _ _))
    · exact blind_bind (blind_get o _) (fun _ => blind_create _ _)
  · have : coordTarget (SV.tok "abs_curv" : SV V) = none := by simp [coordTarget]
    simp only [this]
    refine blind_bind (blind_has _) (fun b2 => ?_)
    split
    · refine blind_bind ?_ (fun v => blind_update _ _)
      unfold toFloat
      repeat' split
      all_goals first | exact blind_pure _ | exact blind_throw _
    · refine blind_bind ?_ (fun v => blind_create _ _)
      unfold toFloat
      repeat' split
      all_goals first | exact blind_pure _ | exact blind_throw _

theorem blind_integExprT (g : GOps V) : Blind (integExprT g : M (World V) Unit) := by
  unfold integExprT
  exact blind_tryFinally (blind_bind (blind_unaryVoid _ _ _ _ (by decide)) (fun _ => blind_assign_abs_curv _)) blind_purge

/-- **No feature operation reads a zone.** For every operation of a history that computes, reads, removes or writes
features (`WOp.onFeatures`: `computeAbsCurv`, `estimate_speed` function and method, `addAnalyticalFeature(speed | ds)`,
`operate`, `length`, `computeCurvAbsBetweenTwoPoints`, reads, `isSorted`, `duration`, `getT`, …), every world and every
rewriting `f` of the zone fields: the operation on the rewritten world returns what it returns on the original one —
the same value or the same exception — and ends in the rewritten final world. -/
theorem stepW_blind (g : GOps V) (op : WOp V) (hop : op.onFeatures = true) (f : Int → Int) (w : World V) :
    stepW g op (w.zmap f) = ((stepW g op w).1, (stepW g op w).2.zmap f) := by
  have key : ∀ {α : Type} (m : M (World V) α), Blind m → ∀ (F : Except Err α → Except Err (WRet V)),
      ((match m (World.zmap f { w with cur := op.track }) with | (r, w') => (F r, w')) : Except Err (WRet V) × World V)
        = (((match m { w with cur := op.track } with | (r, w') => (F r, w')) : Except Err (WRet V) × World V).1,
           ((match m { w with cur := op.track } with | (r, w') => (F r, w')) : Except Err (WRet V) × World V).2.zmap f) := by
    intro α m hm F
    rw [hm f { w with cur := op.track }]
  unfold stepW
  by_cases hk : op.track ≥ w.trks.length
  · have hk' : op.track ≥ (w.zmap f).trks.length := hk
    rw [if_pos hk, if_pos hk']
  · have hk' : ¬ op.track ≥ (w.zmap f).trks.length := hk
    rw [if_neg hk, if_neg hk']
    cases op with
    | absCurv k => exact key _ (blind_computeAbsCurvT g) _
    | speed k => exact key _ (blind_estimateSpeedT g) _
    | speedMethod k => exact key _ (blind_estimateSpeedT g) _
    | speedAF k => exact key _ (blind_addAFfn g.toOps (speedAlgT g) (blind_speedAlgT g) "speed") _
    | dsAF k => exact key _ (blind_addAFfn g.toOps (dsAlgT g) (blind_dsAlgT g) "ds") _
    | integ k => exact key _ (blind_unaryVoid g.toOps .integrator "ds" "abs_curv" (by decide)) _
    | integExpr k => exact key _ (blind_integExprT g) _
    | diff k => exact key _ (blind_unaryVoid g.toOps .differentiator "abs_curv" "dd" (by decide)) _
    | length k => exact key _ (blind_lengthT g) _
    | curvAbs k => exact key _ (blind_curvAbsT g) _
    | read k name => exact key (Tbl.get g.toOps name) (blind_get g.toOps name) _
    | remove k name => exact key _ (blind_remove name) _
    | write k name vals => exact key _ (blind_setItem name (.list vals)) _
    | sorted k => exact key _ (blind_isSortedT g) _
    | duration k => exact key _ (blind_durationT g) _
    | times k => exact key (Tbl.get g.toOps "t") (blind_get g.toOps "t") _
    | add _ _ => cases hop
    | extract _ _ _ => cases hop
    | slice _ _ _ => cases hop
    | copy _ => cases hop
    | setPos _ _ _ _ => cases hop
    | setTime _ _ _ _ => cases hop
    | setZone _ _ => cases hop

end TV.CinTab
