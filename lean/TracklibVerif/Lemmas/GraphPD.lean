import TracklibVerif.Lemmas.GraphStop
import TracklibVerif.Lemmas.PDict
import TracklibVerif.Model.GraphPD
/-! The forward loop driven by an explicit `priority_dict` (`forwardPD`) equals the loop with the abstract
"pop the minimum (label, id)" (`forward`): the dict holds exactly the labelled unsettled nodes, and
`pop_smallest` returns the node `popMinAux` designates (ties on the label broken by the node id). -/
namespace TV.Graph
open TV.PDict
variable {W : Type} [LinearOrder W] [Add W] [Zero W] [WalkAdd W]

/-- `popMinAux` returns the smallest `(label, id)` pair in tuple order -/
theorem popMinAux_lex (st : St W) (k : Nat) (u : Nat) (x : W) (h : popMinAux st k = some (u, x)) :
    ∀ v y, v < k → st.vis v = false → st.d v = some y → tle (x, u) (y, v) := by
  induction k generalizing u x with
  | zero => simp [popMinAux] at h
  | succ k ih =>
    intro v y hvk hvis hdv
    unfold popMinAux at h
    by_cases hv : st.vis k = true
    · simp only [hv, if_true] at h
      rcases Nat.lt_succ_iff_lt_or_eq.mp hvk with h' | h'
      · exact ih u x h v y h' hvis hdv
      · subst h'; rw [hv] at hvis; cases hvis
    · have hv' : st.vis k = false := by cases h' : st.vis k <;> simp_all
      simp only [hv', Bool.false_eq_true, if_false] at h
      cases hd : st.d k with
      | none =>
        rw [hd] at h
        simp only [] at h
        rcases Nat.lt_succ_iff_lt_or_eq.mp hvk with h' | h'
        · exact ih u x h v y h' hvis hdv
        · subst h'; rw [hd] at hdv; cases hdv
      | some xk =>
        rw [hd] at h
        simp only [] at h
        cases hb : popMinAux st k with
        | none =>
          rw [hb] at h
          simp only [Option.some.injEq, Prod.mk.injEq] at h
          obtain ⟨rfl, rfl⟩ := h
          rcases Nat.lt_succ_iff_lt_or_eq.mp hvk with h' | h'
          · have := (popMinAux_spec st k).1 hb v h' hvis
            rw [this] at hdv; cases hdv
          · subst h'; rw [hd] at hdv; cases hdv; exact tle_refl _
        | some p =>
          obtain ⟨ub, yb⟩ := p
          rw [hb] at h
          simp only [] at h
          obtain ⟨hub, _, _, _⟩ := (popMinAux_spec st k).2 ub yb hb
          by_cases hlt : xk < yb
          · simp only [hlt, if_true, Option.some.injEq, Prod.mk.injEq] at h
            obtain ⟨rfl, rfl⟩ := h
            rcases Nat.lt_succ_iff_lt_or_eq.mp hvk with h' | h'
            · rcases ih ub yb hb v y h' hvis hdv with h1 | ⟨h1, _⟩
              · exact Or.inl (lt_trans hlt h1)
              · exact Or.inl (by simp only at h1 ⊢; rw [← h1]; exact hlt)
            · subst h'; rw [hd] at hdv; cases hdv; exact tle_refl _
          · simp only [hlt, if_false, Option.some.injEq, Prod.mk.injEq] at h
            obtain ⟨rfl, rfl⟩ := h
            rcases Nat.lt_succ_iff_lt_or_eq.mp hvk with h' | h'
            · exact ih ub yb hb v y h' hvis hdv
            · subst h'
              rw [hd] at hdv; cases hdv
              rcases lt_or_eq_of_le (not_lt.mp hlt) with h1 | h1
              · exact Or.inl h1
              · exact Or.inr ⟨h1, Nat.le_of_lt hub⟩

/-- the queue holds exactly the labelled unsettled nodes, with their labels, and its heap is consistent -/
structure Rel (net : Net W) (st : St W) (pd : PD W) : Prop where
  r1 : ∀ k x, lookup pd.dict k = some x ↔ (k < net.n ∧ st.vis k = false ∧ st.d k = some x)
  r2 : HInv pd

theorem rel_init (net : Net W) (s : Nat) (hs : s < net.n) : Rel net (St.init s) (ofDict [(s, (0 : W))]) := by
  refine ⟨?_, ofDict_inv _⟩
  intro k x
  simp only [ofDict, lookup, St.init]
  by_cases hk : s = k
  · subst hk; simp [hs]
  · have : ¬ k = s := fun h => hk h.symm
    simp [hk, this]

theorem relaxOnePD_spec (net : Net W) (u : Nat) (du : W) (st : St W) (pd : PD W) (e : Edge W)
    (hrel : Rel net st pd) (hlt : other e u < net.n) :
    (relaxOnePD u du (st, pd) e).1 = relaxOne u du st e ∧
    Rel net (relaxOnePD u du (st, pd) e).1 (relaxOnePD u du (st, pd) e).2 := by
  have hset : st.vis (other e u) = false →
      Rel net { st with d := fun z => if z = other e u then some (du + e.w) else st.d z,
                        pred := fun z => if z = other e u then some (u, e.id) else st.pred z }
        (setitem pd (other e u) (du + e.w)) := by
    intro hv
    obtain ⟨s1, s2⟩ := setitem_spec pd hrel.r2 (other e u) (du + e.w)
    refine ⟨?_, s2⟩
    intro k x
    rw [s1 k]
    by_cases hk : k = other e u
    · subst hk
      simp only [if_true, Option.some.injEq]
      exact ⟨fun h => ⟨hlt, hv, h⟩, fun h => h.2.2⟩
    · simp only [hk, if_false]
      exact hrel.r1 k x
  unfold relaxOnePD relaxOne
  simp only []
  by_cases hv : st.vis (other e u) = true
  · simp only [hv, if_true]; exact ⟨by trivial, hrel⟩
  · have hv' : st.vis (other e u) = false := by cases h : st.vis (other e u) <;> simp_all
    simp only [hv', Bool.false_eq_true, if_false]
    cases hd : st.d (other e u) with
    | none => exact ⟨by trivial, hset hv'⟩
    | some y =>
      simp only []
      by_cases hl : du + e.w < y
      · simp only [hl, if_true]; exact ⟨by trivial, hset hv'⟩
      · simp only [hl, if_false]; exact ⟨by trivial, hrel⟩

theorem relaxAllPD_spec (net : Net W) (u : Nat) (du : W) (es : List (Edge W)) (hes : ∀ e ∈ es, other e u < net.n)
    (st : St W) (pd : PD W) (hrel : Rel net st pd) :
    (es.foldl (relaxOnePD u du) (st, pd)).1 = es.foldl (relaxOne u du) st ∧
    Rel net (es.foldl (relaxOnePD u du) (st, pd)).1 (es.foldl (relaxOnePD u du) (st, pd)).2 := by
  induction es generalizing st pd with
  | nil => exact ⟨rfl, hrel⟩
  | cons e es ih =>
    simp only [List.foldl_cons]
    obtain ⟨a, b⟩ := relaxOnePD_spec net u du st pd e hrel (hes e List.mem_cons_self)
    have := ih (fun e' he' => hes e' (List.mem_cons_of_mem _ he')) _ _ b
    rw [a] at this
    have hx : relaxOnePD u du (st, pd) e = (relaxOne u du st e, (relaxOnePD u du (st, pd) e).2) := by
      rw [← a]
    rw [hx]
    exact this

theorem pop_refines (net : Net W) (st : St W) (pd : PD W) (hrel : Rel net st pd) (u : Nat) (du : W)
    (hp : popMinAux st net.n = some (u, du)) :
    ∃ pd', popSmallest pd = some (u, pd') ∧ st.d u = some du ∧ len pd ≠ 0 ∧
      Rel net { st with vis := fun z => if z = u then true else st.vis z } pd' := by
  obtain ⟨hu, huv, hud, _⟩ := popMin_facts hp
  have hin : lookup pd.dict u = some du := (hrel.r1 u du).2 ⟨hu, huv, hud⟩
  obtain ⟨k, v, pd', h1, h2, h3, h4, h5⟩ := popSmallest_spec pd hrel.r2 u du hin
  obtain ⟨hk, hkv, hkd⟩ := (hrel.r1 k v).1 h2
  have hle1 : tle (v, k) (du, u) := h3 u du hin
  have hle2 : tle (du, u) (v, k) := popMinAux_lex st net.n u du hp k v hk hkv hkd
  have heq := tle_antisymm hle1 hle2
  simp only [Prod.mk.injEq] at heq
  obtain ⟨rfl, rfl⟩ := heq
  refine ⟨pd', h1, hud, ?_, ?_, h5⟩
  · intro h0
    unfold len at h0
    have : pd.dict = [] := List.eq_nil_of_length_eq_zero h0
    rw [this] at hin; simp [lookup] at hin
  · intro k' x
    rw [h4 k']
    by_cases hk' : k' = k
    · subst hk'; simp
    · simp only [hk', if_false]
      exact hrel.r1 k' x

theorem pop_none_refines (net : Net W) (st : St W) (pd : PD W) (hrel : Rel net st pd)
    (hp : popMinAux st net.n = none) : len pd = 0 := by
  unfold len
  cases hd : pd.dict with
  | nil => rfl
  | cons p r =>
    obtain ⟨a, w⟩ := p
    have hl : lookup pd.dict a = some w := by rw [hd]; simp [lookup]
    obtain ⟨h1, h2, h3⟩ := (hrel.r1 a w).1 hl
    have := (popMinAux_spec st net.n).1 hp a h1 h2
    rw [this] at h3; cases h3

/-- the loop with the explicit `priority_dict` is the loop of `Model/Graph.lean` -/
theorem forwardPD_eq (net : Net W) (hnet : WFNet net) (tgt : Option Nat) (cut : Option W) (f : Nat) (st : St W)
    (pd : PD W) (out : List (Nat × W)) (hrel : Rel net st pd) :
    forwardPD net tgt cut f st pd out = forward net tgt cut f st out := by
  induction f generalizing st pd out with
  | zero => rfl
  | succ f ih =>
    unfold forwardPD forward
    cases hp : popMinAux st net.n with
    | none => simp [pop_none_refines net st pd hrel hp]
    | some p =>
      obtain ⟨u, du⟩ := p
      obtain ⟨pd', h1, h2, h3, h4⟩ := pop_refines net st pd hrel u du hp
      simp only [h3, if_false, h1, h2]
      split
      · rfl
      · have hes : ∀ e ∈ nextEdges net u, other e u < net.n := by
          intro e he
          have hm : e ∈ net.edges := by simp only [nextEdges, List.mem_filter] at he; exact he.1
          obtain ⟨a, b, _⟩ := hnet e hm
          unfold other; split <;> assumption
        obtain ⟨a, b⟩ := relaxAllPD_spec net u du (nextEdges net u) hes _ pd' h4
        rw [ih _ _ _ b, a]
        rfl

theorem runForwardPD_eq (net : Net W) (hnet : WFNet net) (s : Nat) (hs : s < net.n) (tgt : Option Nat) (cut : Option W) :
    runForwardPD net s tgt cut = runForward net s tgt cut :=
  forwardPD_eq net hnet tgt cut net.n _ _ [] (rel_init net s hs)
end TV.Graph
