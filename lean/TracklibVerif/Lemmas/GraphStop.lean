import TracklibVerif.Lemmas.Graph
/-! Lemmas for C06 about the loop as coded (`forward`: target stop, cut-off, `output_dict`):
a truncated run is a prefix of the full run, labels of popped nodes are final, pops come in
non-decreasing label order. -/
namespace TV.Graph
variable {W : Type} [LinearOrder W] [Add W] [Zero W] [WalkAdd W]

theorem step_eq (net : Net W) (st : St W) :
    step net st = (popMinAux st net.n).map (fun p => settle net st p.1 p.2) := by
  unfold step settle
  cases popMinAux st net.n with
  | none => rfl
  | some p => obtain ⟨u, du⟩ := p; rfl

/-- what settling the popped node `u` (label `du`) does to labels and flags -/
theorem settle_spec (net : Net W) (st : St W) (u : Nat) (du : W) :
    (∀ z, (settle net st u du).vis z = if z = u then true else st.vis z) ∧
    (∀ z, (z = u ∨ st.vis z = true) → (settle net st u du).d z = st.d z) ∧
    (∀ z y, st.d z = some y → ∃ y', (settle net st u du).d z = some y' ∧ y' ≤ y) ∧
    (∀ z y', (settle net st u du).d z = some y' → st.d z = some y' ∨
        ∃ e ∈ nextEdges net u, z = other e u ∧ y' = du + e.w ∧ (settle net st u du).vis z = false) := by
  obtain ⟨r1, r2, r3, r4, _⟩ := relaxAll_spec u du (nextEdges net u)
    { st with vis := fun z => if z = u then true else st.vis z }
  refine ⟨?_, ?_, ?_, ?_⟩
  · intro z; unfold settle; rw [r1]
  · intro z hz
    unfold settle
    rw [r2 z (by rcases hz with h | h <;> simp [h])]
  · intro z y h; exact r3 z y h
  · intro z y' h
    rcases r4 z y' h with h' | ⟨e, he, h1, h2, h3⟩
    · exact Or.inl h'
    · refine Or.inr ⟨e, he, h1, h2, ?_⟩
      unfold settle; rw [r1]; exact h3

theorem popMin_facts {net : Net W} {st : St W} {u : Nat} {du : W} (hp : popMinAux st net.n = some (u, du)) :
    u < net.n ∧ st.vis u = false ∧ st.d u = some du ∧
      ∀ v y, v < net.n → st.vis v = false → st.d v = some y → du ≤ y :=
  (popMinAux_spec st net.n).2 u du hp

/-- labels of settled nodes never change -/
theorem run_stable (net : Net W) (f : Nat) (st : St W) (z : Nat) (hz : st.vis z = true) :
    (run net f st).d z = st.d z ∧ (run net f st).vis z = true := by
  induction f generalizing st with
  | zero => exact ⟨rfl, hz⟩
  | succ f ih =>
    unfold run
    rw [step_eq]
    cases hp : popMinAux st net.n with
    | none => exact ⟨rfl, hz⟩
    | some p =>
      obtain ⟨u, du⟩ := p
      simp only [Option.map_some]
      obtain ⟨s1, s2, _, _⟩ := settle_spec net st u du
      have hv : (settle net st u du).vis z = true := by rw [s1]; split <;> simp [hz]
      obtain ⟨a, b⟩ := ih (settle net st u du) hv
      exact ⟨by rw [a, s2 z (Or.inr hz)], b⟩

/-- the label a node has when it is popped is its final label -/
theorem run_popped (net : Net W) (f : Nat) (st : St W) (u : Nat) (du : W)
    (hp : popMinAux st net.n = some (u, du)) : (run net f st).d u = some du := by
  obtain ⟨_, _, hd, _⟩ := popMin_facts hp
  cases f with
  | zero => exact hd
  | succ f =>
    unfold run
    rw [step_eq, hp]
    simp only [Option.map_some]
    obtain ⟨s1, s2, _, _⟩ := settle_spec net st u du
    rw [(run_stable net f _ u (by rw [s1]; simp)).1, s2 u (Or.inl rfl)]
    exact hd

/-- without target and cut-off the coded loop is the plain loop -/
theorem forward_full (net : Net W) (f : Nat) (st : St W) (out : List (Nat × W)) :
    (forward net none none f st out).1 = run net f st := by
  induction f generalizing st out with
  | zero => rfl
  | succ f ih =>
    unfold forward run
    rw [step_eq]
    cases hp : popMinAux st net.n with
    | none => rfl
    | some p =>
      obtain ⟨u, du⟩ := p
      simp only [stops, Bool.or_self, Bool.false_eq_true, if_false, Option.map_some]
      exact ih _ _

/-- T4 core: stopping at the target leaves the target with the label of the complete run -/
theorem forward_target (net : Net W) (t : Nat) (f : Nat) (st : St W) (out : List (Nat × W)) :
    (forward net (some t) none f st out).1.d t = (run net f st).d t := by
  induction f generalizing st out with
  | zero => rfl
  | succ f ih =>
    cases hp : popMinAux st net.n with
    | none =>
      unfold forward run
      rw [step_eq, hp]; rfl
    | some p =>
      obtain ⟨u, du⟩ := p
      by_cases hut : u = t
      · subst hut
        rw [run_popped net (f+1) st u du hp]
        unfold forward
        rw [hp]
        simp only [stops, Bool.false_or, decide_true, if_true]
        exact (popMin_facts hp).2.2.1
      · unfold forward run
        rw [step_eq, hp]
        simp only [stops, Bool.false_or, hut, decide_false, Bool.false_eq_true, if_false, Option.map_some]
        exact ih _ _

/-! ### pops come in non-decreasing label order -/

/-- every unsettled labelled node has a label ≥ b -/
def LB (st : St W) (b : W) : Prop := ∀ v y, st.vis v = false → st.d v = some y → b ≤ y

theorem settle_LB (net : Net W) (hnet : WFNet net) (st : St W) (b : W) (hLB : LB st b)
    (u : Nat) (du : W) (hp : popMinAux st net.n = some (u, du)) : LB (settle net st u du) b := by
  obtain ⟨_, huv, hud, _⟩ := popMin_facts hp
  obtain ⟨s1, _, _, s4⟩ := settle_spec net st u du
  intro v y hv hd
  have hv0 : st.vis v = false := by
    rw [s1] at hv; split at hv
    · cases hv
    · exact hv
  rcases s4 v y hd with h | ⟨e, he, _, h2, _⟩
  · exact hLB v y hv0 h
  · rw [h2]
    have hw : 0 ≤ e.w := by
      have : e ∈ net.edges := by
        simp only [nextEdges, List.mem_filter] at he; exact he.1
      exact (hnet e this).2.2
    exact le_trans (hLB u du huv hud) (WalkAdd.le_add_right _ _ hw)

theorem run_LB (net : Net W) (hnet : WFNet net) (b : W) (f : Nat) (st : St W)
    (hLB : LB st b) (v : Nat) (y : W) (hv : st.vis v = false) (hd : (run net f st).d v = some y) : b ≤ y := by
  induction f generalizing st with
  | zero => exact hLB v y hv hd
  | succ f ih =>
    unfold run at hd
    rw [step_eq] at hd
    cases hp : popMinAux st net.n with
    | none => rw [hp] at hd; exact hLB v y hv hd
    | some p =>
      obtain ⟨u, du⟩ := p
      rw [hp] at hd
      simp only [Option.map_some] at hd
      obtain ⟨_, huv, hud, _⟩ := popMin_facts hp
      obtain ⟨s1, s2, _, _⟩ := settle_spec net st u du
      by_cases hvu : v = u
      · subst hvu
        rw [(run_stable net f _ v (by rw [s1]; simp)).1, s2 v (Or.inl rfl), hud] at hd
        have hy : du = y := Option.some.inj hd
        rw [← hy]
        exact hLB v du huv hud
      · exact ih _ (settle_LB net hnet st b hLB u du hp) (by rw [s1]; simp [hvu, hv]) hd

theorem settle_inv (net : Net W) (hnet : WFNet net) (s : Nat) (st : St W) (hinv : Inv net s st)
    (u : Nat) (du : W) (hp : popMinAux st net.n = some (u, du)) : Inv net s (settle net st u du) :=
  inv_step net hnet s st _ hinv (by rw [step_eq, hp]; rfl)

theorem settle_cnt (net : Net W) (st : St W) (u : Nat) (du : W) (hp : popMinAux st net.n = some (u, du)) :
    cnt (settle net st u du) net.n + 1 = cnt st net.n := by
  obtain ⟨hu, huv, _, _⟩ := popMin_facts hp
  have := cnt_mark st (settle net st u du) u huv (settle_spec net st u du).1 net.n
  simpa [hu] using this

/-- `y` does not exceed the cut-off (`none` = no cut-off) -/
def Within (cut : Option W) (y : W) : Prop := ∀ c, cut = some c → y ≤ c

/-- T5 core: the recorded entries are exactly the nodes whose final label does not exceed the cut-off,
each with its final label -/
theorem forward_out (net : Net W) (hnet : WFNet net) (s : Nat) (cut : Option W) (f : Nat) (st : St W)
    (out : List (Nat × W)) (hinv : Inv net s st) (hf : cnt st net.n ≤ f)
    (hout : ∀ u y, (u, y) ∈ out ↔ (st.vis u = true ∧ st.d u = some y))
    (hcut : ∀ u y, st.vis u = true → st.d u = some y → Within cut y) :
    ∀ u y, (u, y) ∈ (forward net none cut f st out).2 ↔ ((run net f st).d u = some y ∧ Within cut y) := by
  induction f generalizing st out with
  | zero =>
    intro u y
    have hall := cnt_zero_all st net.n (by omega)
    simp only [forward, run]
    constructor
    · intro h
      obtain ⟨a, b⟩ := (hout u y).1 h
      exact ⟨b, hcut u y a b⟩
    · rintro ⟨h, _⟩
      exact (hout u y).2 ⟨hall u (hinv.j6 u y h), h⟩
  | succ f ih =>
    intro u y
    cases hp : popMinAux st net.n with
    | none =>
      have hr : run net (f+1) st = st := by unfold run; rw [step_eq, hp]; rfl
      have hfw : forward net none cut (f+1) st out = (st, out) := by unfold forward; rw [hp]
      rw [hr, hfw]
      constructor
      · intro h
        obtain ⟨a, b⟩ := (hout u y).1 h
        exact ⟨b, hcut u y a b⟩
      · rintro ⟨h, _⟩
        refine (hout u y).2 ⟨?_, h⟩
        cases hv : st.vis u with
        | true => rfl
        | false =>
          have := (popMinAux_spec st net.n).1 hp u (hinv.j6 u y h) hv
          rw [this] at h; cases h
    | some p =>
      obtain ⟨u0, du⟩ := p
      obtain ⟨hu0, hu0v, hu0d, hmin⟩ := popMin_facts hp
      by_cases hstop : stops none cut u0 du = true
      · have hfw : forward net none cut (f+1) st out = (st, out) := by
          unfold forward; rw [hp]; simp only [hstop, if_true]
        rw [hfw]
        -- the stop is by the cut-off
        obtain ⟨c, hc, hlt⟩ : ∃ c, cut = some c ∧ c < du := by
          cases hcc : cut with
          | none => simp [stops, hcc] at hstop
          | some c => refine ⟨c, rfl, ?_⟩; simpa [stops, hcc] using hstop
        constructor
        · intro h
          obtain ⟨a, b⟩ := (hout u y).1 h
          exact ⟨by rw [(run_stable net (f+1) st u a).1]; exact b, hcut u y a b⟩
        · rintro ⟨h, hw⟩
          cases hv : st.vis u with
          | true =>
            rw [(run_stable net (f+1) st u hv).1] at h
            exact (hout u y).2 ⟨hv, h⟩
          | false =>
            have hLB : LB st du := fun v y' hvv hdv => hmin v y' (hinv.j6 v y' hdv) hvv hdv
            have h1 : du ≤ y := run_LB net hnet du (f+1) st hLB u y hv h
            have h2 : y ≤ c := hw c hc
            exact absurd (lt_of_lt_of_le hlt (le_trans h1 h2)) (lt_irrefl _)
      · have hfw : forward net none cut (f+1) st out
            = forward net none cut f (settle net st u0 du) (out ++ [(u0, du)]) := by
          conv => lhs; unfold forward
          rw [hp]; simp only [hstop, Bool.false_eq_true, if_false]
        have hr : run net (f+1) st = run net f (settle net st u0 du) := by
          conv => lhs; unfold run
          rw [step_eq, hp]; rfl
        rw [hfw, hr]
        have hwdu : Within cut du := by
          intro c hc
          have : ¬ (c < du) := by
            intro hlt; apply hstop; simp [stops, hc, hlt]
          exact not_lt.mp this
        obtain ⟨s1, s2, _, _⟩ := settle_spec net st u0 du
        apply ih (settle net st u0 du) (out ++ [(u0, du)]) (settle_inv net hnet s st hinv u0 du hp)
          (by have := settle_cnt net st u0 du hp; omega)
        · intro v z
          rw [List.mem_append, List.mem_singleton, s1 v]
          constructor
          · rintro (h | h)
            · obtain ⟨a, b⟩ := (hout v z).1 h
              refine ⟨by split <;> simp [a], ?_⟩
              rw [s2 v (Or.inr a)]; exact b
            · simp only [Prod.mk.injEq] at h
              obtain ⟨rfl, rfl⟩ := h
              exact ⟨by simp, by rw [s2 v (Or.inl rfl)]; exact hu0d⟩
          · rintro ⟨a, b⟩
            by_cases hvu : v = u0
            · subst hvu
              rw [s2 v (Or.inl rfl), hu0d] at b
              cases b
              exact Or.inr rfl
            · simp only [hvu, if_false] at a
              rw [s2 v (Or.inr a)] at b
              exact Or.inl ((hout v z).2 ⟨a, b⟩)
        · intro v z a b
          rw [s1 v] at a
          by_cases hvu : v = u0
          · subst hvu
            rw [s2 v (Or.inl rfl), hu0d] at b
            cases b
            exact hwdu
          · simp only [hvu, if_false] at a
            rw [s2 v (Or.inr a)] at b
            exact hcut v z a b
end TV.Graph
