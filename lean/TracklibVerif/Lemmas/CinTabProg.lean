import TracklibVerif.Lemmas.CinTabHoare
/-! The C17 programs proved from the laws of a feature table (`Laws`), once for every representation. -/
namespace TV.CinTab
open TV.Features

variable {σ V : Type} [Tbl σ V]
variable {I : σ → Prop} {n : σ → Nat} {rd : σ → String → Option (List V)} {co : σ → Coord → List V}

theorem bind_ok_eq {α β : Type} {m : M σ α} {f : α → M σ β} {s s' : σ} {v : α} (h : m s = (.ok v, s')) :
    (m >>= f) s = f v s' := by
  show M.bind m f s = _
  unfold M.bind
  rw [h]

/-- what a loop over the values of one name leaves alone: the invariant, the size, the coordinates, every other name -/
def Ctx (I : σ → Prop) (n : σ → Nat) (rd : σ → String → Option (List V)) (co : σ → Coord → List V)
    (N : Nat) (C : Coord → List V) (R : String → Option (List V)) (name : String) (s : σ) : Prop :=
  I s ∧ n s = N ∧ co s = C ∧ ∀ m, m ≠ name → rd s m = R m

/-- a loop that writes `F i` under `name` for every `i`: afterwards the column is `[F 0, …, F (N-1)]` -/
theorem write_loop (L : Laws I n rd co) (name : String) (hr : reserved name = false) (N : Nat) (C : Coord → List V)
    (R : String → Option (List V)) (f : Nat → M σ Unit) (F : Nat → V)
    (hf : ∀ i, i < N → ∀ s, Ctx I n rd co N C R name s → (∃ col, rd s name = some col) →
      f i s = (Tbl.setObs name i (F i) : M σ Unit) s) :
    Triple (fun s => Ctx I n rd co N C R name s ∧ ∃ col, rd s name = some col)
      (M.forEach (List.range N) f)
      (fun _ s => Ctx I n rd co N C R name s ∧ rd s name = some ((List.range N).map F)) := by
  have key := triple_forEach_range f
    (fun k s => Ctx I n rd co N C R name s ∧ ∃ col, rd s name = some col ∧ ∀ i, i < k → col[i]? = some (F i)) N
    (by
      intro i hi s ⟨hc, col, hcol, hpre⟩
      obtain ⟨hI, hn, hco, hoth⟩ := hc
      have hlen : col.length = N := by rw [L.rd_len s name col hI hcol, hn]
      obtain ⟨s', e, hI', hrd', hn', hoth', hco'⟩ := L.setObs s name col i (F i) hI hr hcol (by rw [hn]; exact hi)
      refine ⟨(), s', ?_, ⟨hI', by rw [hn', hn], by rw [hco', hco], fun m hm => by rw [hoth' m hm, hoth m hm]⟩,
        col.set i (F i), hrd', ?_⟩
      · rw [hf i hi s ⟨hI, hn, hco, hoth⟩ ⟨col, hcol⟩]; exact e
      · intro j hj
        by_cases hji : j = i
        · subst hji; simp [hlen, hi]
        · rw [List.getElem?_set_ne (by omega)]
          exact hpre j (by omega))
  refine triple_conseq key (fun s ⟨hc, col, hcol⟩ => ⟨hc, col, hcol, fun i hi => by omega⟩) ?_
  intro _ s ⟨hc, col, hcol, hall⟩
  refine ⟨hc, ?_⟩
  rw [hcol]
  congr 1
  have hlen : col.length = N := by rw [L.rd_len s name col hc.1 hcol, hc.2.1]
  apply List.ext_getElem?
  intro i
  by_cases hi : i < N
  · rw [hall i hi]; simp [hi]
  · simp [hi, hlen]

/-- `addAnalyticalFeature(alg, name)` for an algorithm that only reads (what it reads is not `name`): whether the name
was listed or not, afterwards it reads `[F 0, …, F (N-1)]`, which is also what is returned -/
theorem addAFfn_spec (L : Laws I n rd co) (o : Ops V) (name : String) (hr : reserved name = false) (N : Nat) (hN : 0 < N)
    (C : Coord → List V) (R : String → Option (List V)) (alg : Nat → M σ V) (F : Nat → V)
    (halg : ∀ i, i < N → ∀ s, Ctx I n rd co N C R name s → alg i s = (.ok (F i), s)) :
    Triple (fun s => Ctx I n rd co N C R name s) (addAFfn o alg name)
      (fun r s => r = (List.range N).map F ∧ Ctx I n rd co N C R name s ∧ rd s name = some r) := by
  unfold addAFfn
  simp only [hr, Bool.false_eq_true, if_false]
  -- has
  refine triple_bind (Q := fun b s => b = (rd s name).isSome ∧ Ctx I n rd co N C R name s) ?_ (fun b => ?_)
  · intro s hs
    exact ⟨_, s, L.has s name hs.1 hr, rfl, hs⟩
  -- create if absent
  refine triple_bind (Q := fun _ s => Ctx I n rd co N C R name s ∧ ∃ col, rd s name = some col) ?_ (fun _ => ?_)
  · intro s ⟨hb, hc⟩
    cases hrd : rd s name with
    | none =>
      have hb' : b = false := by rw [hb, hrd]; rfl
      subst hb'
      obtain ⟨hI, hn, hco, hoth⟩ := hc
      obtain ⟨s', col, e, hI', hrd', hn', hoth', hco'⟩ := L.create_new s name o.zero hI hr hrd (by rw [hn]; exact hN)
      exact ⟨(), s', by simpa using e, ⟨hI', by rw [hn', hn], by rw [hco', hco], fun m hm => by rw [hoth' m hm, hoth m hm]⟩, col, hrd'⟩
    | some col =>
      have hb' : b = true := by rw [hb, hrd]; rfl
      subst hb'
      exact ⟨(), s, rfl, hc, col, hrd⟩
  -- size
  refine triple_bind (Q := fun k s => k = N ∧ Ctx I n rd co N C R name s ∧ ∃ col, rd s name = some col) ?_ (fun k => ?_)
  · intro s hs
    exact ⟨n s, s, L.size s, hs.1.2.1, hs⟩
  -- the loop
  refine triple_bind (Q := fun _ s => Ctx I n rd co N C R name s ∧ rd s name = some ((List.range N).map F)) ?_ (fun _ => ?_)
  · intro s ⟨hk, hs⟩
    subst hk
    unfold afLoop
    refine write_loop L name hr _ C R _ F ?_ s hs
    intro i hi s hc _
    rw [bind_ok_eq (show (M.catchIndex (alg i) o.nan) s = (.ok (F i), s) by unfold M.catchIndex; rw [halg i hi s hc])]
  -- read back
  intro s ⟨hc, hrd⟩
  exact ⟨_, s, L.get_feat o s name _ hc.1 hr hrd, rfl, hc, hrd⟩

/-! ### the integrator -/

/-- `temp[i] = temp[i-1] + in[i]` from a running value -/
def integLoopG (o : Ops V) : V → List V → List V
  | _, [] => []
  | acc, d :: rest => o.add acc d :: integLoopG o (o.add acc d) rest

/-- `Integrator.execute` on a column: first value 0, the input at index 0 is never read -/
def integG (o : Ops V) : List V → List V
  | [] => []
  | _ :: rest => o.zero :: integLoopG o o.zero rest

theorem integLoopG_length (o : Ops V) : ∀ (acc : V) (l : List V), (integLoopG o acc l).length = l.length
  | _, [] => rfl
  | acc, d :: rest => by simp [integLoopG, integLoopG_length o (o.add acc d) rest]

theorem integG_length (o : Ops V) (l : List V) : (integG o l).length = l.length := by
  cases l with
  | nil => rfl
  | cons d rest => simp [integG, integLoopG_length]

/-- the list `temp` of `Integrator.execute` when the input name reads `D` -/
theorem unaryTemp_integ (L : Laws I n rd co) (o : Ops V) (inp : String) (hr : reserved inp = false) (D : List V) (N : Nat)
    (hN : 0 < N) (P : σ → Prop) (hP : ∀ s, P s → I s ∧ n s = N ∧ rd s inp = some D) :
    Triple P (unaryTemp o .integrator inp N : M σ (List V)) (fun t s => t = integG o D ∧ P s) := by
  have hDlen : ∀ s, P s → D.length = N := fun s hs => by
    obtain ⟨hI, hn, hrd⟩ := hP s hs
    rw [L.rd_len s inp D hI hrd, hn]
  unfold unaryTemp
  refine triple_bind (Q := fun (r : V × List V) s => r.2.reverse = integLoopG o o.zero (D.drop 1) ∧ P s) ?_ (fun r => ?_)
  · have key := triple_foldL_aux
      (fun (acc : V × List V) i => (Tbl.getObs o inp i : M σ V) >>= fun v => pure (o.add acc.1 v, o.add acc.1 v :: acc.2))
      (fun k (acc : V × List V) s => k ≤ N - 1 ∧ acc.2.reverse ++ integLoopG o acc.1 (D.drop (1 + k)) = integLoopG o o.zero (D.drop 1) ∧ P s)
      (List.range' 1 (N - 1)) 0 (o.zero, [])
      (by
        intro i hi acc s ⟨_, hacc, hs⟩
        have hi' : i < N - 1 := by simpa using hi
        have hel : (List.range' 1 (N - 1))[i] = 1 + i := by simp
        rw [hel]
        obtain ⟨hI, hn, hrd⟩ := hP s hs
        have hlen := hDlen s hs
        have hlt : 1 + i < D.length := by omega
        have hget : D[1 + i]? = some D[1 + i] := List.getElem?_eq_getElem hlt
        refine ⟨_, s, bind_ok_eq (L.getObs_feat o s inp D (1 + i) _ hI hr hrd hget), by omega, ?_, hs⟩
        simp only [Nat.zero_add] at hacc ⊢
        rw [← hacc, List.drop_eq_getElem_cons hlt]
        simp [integLoopG, Nat.add_comm])
    refine triple_conseq key (fun s hs => ⟨by omega, by simp, hs⟩) ?_
    intro r s ⟨_, hacc, hs⟩
    have hlen := hDlen s hs
    have hd : D.drop (1 + (0 + (List.range' 1 (N - 1)).length)) = [] := by
      apply List.drop_eq_nil_of_le
      simp; omega
    rw [hd] at hacc
    simpa [integLoopG] using And.intro hacc hs
  · intro s ⟨hr2, hs⟩
    have hlen := hDlen s hs
    have hne : (N == 0) = false := by simpa using (by omega : N ≠ 0)
    refine ⟨_, s, rfl, ?_, hs⟩
    simp only [hne, Bool.false_eq_true, if_false]
    cases D with
    | nil => simp at hlen; omega
    | cons d rest => simp [integG, hr2]

/-- `addListToAF(track, name, arr)` with a full list: afterwards `name` reads `arr` -/
theorem addListToAF_spec' (L : Laws I n rd co) (name : String) (hr : reserved name = false) (N : Nat) (C : Coord → List V)
    (R : String → Option (List V)) (arr : List V) (harr : arr.length = N) (d : V) :
    Triple (fun s => Ctx I n rd co N C R name s ∧ ∃ col, rd s name = some col)
      (addListToAF name arr : M σ Unit)
      (fun _ s => Ctx I n rd co N C R name s ∧ rd s name = some arr) := by
  unfold addListToAF
  refine triple_bind (Q := fun k s => k = N ∧ Ctx I n rd co N C R name s ∧ ∃ col, rd s name = some col) ?_ (fun k => ?_)
  · intro s hs
    exact ⟨n s, s, L.size s, hs.1.2.1, hs⟩
  intro s ⟨hk, hs⟩
  rw [hk]
  have key := write_loop L name hr N C R (fun i => match arr[i]? with | some v => Tbl.setObs name i v | none => M.throw .index)
    (fun i => arr.getD i d)
    (by
      intro i hi s _ _
      have hlt : i < arr.length := by omega
      simp [List.getElem?_eq_getElem hlt, List.getD_eq_getElem?_getD])
    s hs
  obtain ⟨x, s', e, hc, hrd⟩ := key
  refine ⟨x, s', e, hc, ?_⟩
  rw [hrd]
  congr 1
  apply List.ext_getElem?
  intro i
  by_cases hi : i < N
  · have hlt : i < arr.length := by omega
    simp [hi, List.getD_eq_getElem?_getD, List.getElem?_eq_getElem hlt]
  · simp [hi]
    omega

/-- `Integrator.execute(track, inp, out)` when `inp` reads `D`: returns `integG D`, afterwards `out` reads it (whether
`out` was listed before or not); nothing else changes -/
theorem unaryVoid_integ_spec (L : Laws I n rd co) (o : Ops V) (inp out : String) (hri : reserved inp = false)
    (hro : reserved out = false) (hne : inp ≠ out) (N : Nat) (hN : 0 < N) (C : Coord → List V)
    (R : String → Option (List V)) (D : List V) (hD : R inp = some D) :
    Triple (fun s => Ctx I n rd co N C R out s) (unaryVoid o .integrator inp out : M σ (List V))
      (fun t s => t = integG o D ∧ Ctx I n rd co N C R out s ∧ rd s out = some t) := by
  unfold unaryVoid
  refine triple_bind (Q := fun _ s => Ctx I n rd co N C R out s ∧ ∃ col, rd s out = some col) ?_ (fun _ => ?_)
  · intro s hc
    obtain ⟨hI, hn, hco, hoth⟩ := hc
    cases hrd : rd s out with
    | none =>
      obtain ⟨s', col, e, hI', hrd', hn', hoth', hco'⟩ := L.create_new s out o.zero hI hro hrd (by rw [hn]; exact hN)
      exact ⟨(), s', e, ⟨hI', by rw [hn', hn], by rw [hco', hco], fun m hm => by rw [hoth' m hm, hoth m hm]⟩, col, hrd'⟩
    | some col =>
      exact ⟨(), s, L.create_old s out o.zero col hI hro hrd (by rw [hn]; exact hN), ⟨hI, hn, hco, hoth⟩, col, hrd⟩
  refine triple_bind (Q := fun k s => k = N ∧ Ctx I n rd co N C R out s ∧ ∃ col, rd s out = some col) ?_ (fun k => ?_)
  · intro s hs
    exact ⟨n s, s, L.size s, hs.1.2.1, hs⟩
  refine triple_bind (Q := fun t s => t = integG o D ∧ Ctx I n rd co N C R out s ∧ ∃ col, rd s out = some col) ?_ (fun t => ?_)
  · intro s ⟨hk, hs⟩
    rw [hk]
    have := unaryTemp_integ L o inp hri D N hN (fun s => Ctx I n rd co N C R out s ∧ ∃ col, rd s out = some col)
      (fun s hs => ⟨hs.1.1, hs.1.2.1, by rw [hs.1.2.2.2 inp hne, hD]⟩) s hs
    exact this
  refine triple_bind (Q := fun _ s => t = integG o D ∧ Ctx I n rd co N C R out s ∧ rd s out = some t) ?_ (fun _ => ?_)
  · intro s ⟨ht, hs⟩
    have hlen : t.length = N := by
      rw [ht, integG_length, L.rd_len s inp D hs.1.1 (by rw [hs.1.2.2.2 inp hne, hD]), hs.1.2.1]
    obtain ⟨x, s', e, hc, hrd⟩ := addListToAF_spec' L out hro N C R t hlen o.zero s hs
    exact ⟨x, s', e, ht, hc, hrd⟩
  · exact triple_pure t (fun s h => h)

/-! ### the algorithms read only -/

/-- `ds(track, i)` as a function of the coordinate columns -/
def dsF (g : GOps V) (X Y : List V) (i : Nat) : V :=
  if i = 0 then g.zero
  else match X[i]?, Y[i]?, X[i - 1]?, Y[i - 1]? with
    | some xi, some yi, some xj, some yj => norm2D g (g.sub xj xi) (g.sub yj yi)
    | _, _, _, _ => g.nan

/-- the speed between a later fix `a` and an earlier fix `b` as a function of the coordinate and time columns -/
def betweenF (g : GOps V) (X Y T : List V) (a b : Nat) : V :=
  match X[a]?, Y[a]?, X[b]?, Y[b]?, T[a]?, T[b]? with
  | some xa, some ya, some xb, some yb, some ta, some tb =>
    if g.isZero (g.sub ta tb) then g.nan else g.div (norm2D g (g.sub xb xa) (g.sub yb ya)) (g.sub ta tb)
  | _, _, _, _, _, _ => g.nan

/-- `speed(track, i)` on a track of `N` fixes -/
def speedF (g : GOps V) (X Y T : List V) (N i : Nat) : V :=
  if i = 0 then betweenF g X Y T 1 0
  else if i = N - 1 then betweenF g X Y T (N - 1) (N - 2)
  else betweenF g X Y T (i + 1) (i - 1)

theorem getObs_co (L : Laws I n rd co) (o : Ops V) (s : σ) (hI : I s) (c : Coord) (i : Nat) (hi : i < n s) :
    ∃ v, (co s c)[i]? = some v ∧ (Tbl.getObs o (cnm c) i : M σ V) s = (.ok v, s) := by
  have hlt : i < (co s c).length := by rw [L.co_len s c hI]; exact hi
  exact ⟨_, List.getElem?_eq_getElem hlt, L.getObs_coord o s c i _ hI (List.getElem?_eq_getElem hlt)⟩

theorem dist2DT_read (L : Laws I n rd co) (g : GOps V) (s : σ) (hI : I s) (i j : Nat) (hi : i < n s) (hj : j < n s) :
    ∃ xi yi xj yj, (co s .x)[i]? = some xi ∧ (co s .y)[i]? = some yi ∧ (co s .x)[j]? = some xj ∧ (co s .y)[j]? = some yj ∧
      (dist2DT g i j : M σ V) s = (.ok (norm2D g (g.sub xj xi) (g.sub yj yi)), s) := by
  obtain ⟨xi, h1, e1⟩ := getObs_co L g.toOps s hI .x i hi
  obtain ⟨yi, h2, e2⟩ := getObs_co L g.toOps s hI .y i hi
  obtain ⟨xj, h3, e3⟩ := getObs_co L g.toOps s hI .x j hj
  obtain ⟨yj, h4, e4⟩ := getObs_co L g.toOps s hI .y j hj
  refine ⟨xi, yi, xj, yj, h1, h2, h3, h4, ?_⟩
  unfold dist2DT
  rw [bind_ok_eq (show (Tbl.getObs g.toOps "x" i : M σ V) s = _ from e1),
    bind_ok_eq (show (Tbl.getObs g.toOps "y" i : M σ V) s = _ from e2),
    bind_ok_eq (show (Tbl.getObs g.toOps "x" j : M σ V) s = _ from e3),
    bind_ok_eq (show (Tbl.getObs g.toOps "y" j : M σ V) s = _ from e4)]
  rfl

theorem dsAlgT_read (L : Laws I n rd co) (g : GOps V) (s : σ) (hI : I s) (i : Nat) (hi : i < n s) :
    (dsAlgT g i : M σ V) s = (.ok (dsF g (co s .x) (co s .y) i), s) := by
  unfold dsAlgT dsF
  by_cases h0 : i = 0
  · simp only [h0, if_true]; rfl
  · simp only [h0, if_false]
    obtain ⟨xi, yi, xj, yj, h1, h2, h3, h4, e⟩ := dist2DT_read L g s hI i (i - 1) hi (by omega)
    rw [e, h1, h2, h3, h4]

theorem speedBetweenT_read (L : Laws I n rd co) (g : GOps V) (s : σ) (hI : I s) (a b : Nat) (ha : a < n s) (hb : b < n s) :
    (speedBetweenT g a b : M σ V) s = (.ok (betweenF g (co s .x) (co s .y) (co s .t) a b), s) := by
  obtain ⟨xa, ya, xb, yb, h1, h2, h3, h4, e⟩ := dist2DT_read L g s hI a b ha hb
  obtain ⟨ta, h5, e5⟩ := getObs_co L g.toOps s hI .t a ha
  obtain ⟨tb, h6, e6⟩ := getObs_co L g.toOps s hI .t b hb
  unfold speedBetweenT betweenF
  rw [bind_ok_eq e, bind_ok_eq (show (Tbl.getObs g.toOps "t" a : M σ V) s = _ from e5),
    bind_ok_eq (show (Tbl.getObs g.toOps "t" b : M σ V) s = _ from e6), h1, h2, h3, h4, h5, h6]
  rfl

theorem speedAlgT_read (L : Laws I n rd co) (g : GOps V) (s : σ) (hI : I s) (hN : 2 ≤ n s) (i : Nat) (hi : i < n s) :
    (speedAlgT g i : M σ V) s = (.ok (speedF g (co s .x) (co s .y) (co s .t) (n s) i), s) := by
  unfold speedAlgT speedF
  by_cases h0 : i = 0
  · simp only [h0, if_true]
    exact speedBetweenT_read L g s hI 1 0 (by omega) (by omega)
  · simp only [h0, if_false]
    rw [bind_ok_eq (L.size s)]
    by_cases h1 : i = n s - 1
    · simp only [h1, if_true]
      exact speedBetweenT_read L g s hI _ _ (by omega) (by omega)
    · simp only [h1, if_false]
      exact speedBetweenT_read L g s hI _ _ (by omega) (by omega)

/-- `computeCurvAbsBetweenTwoPoints(track)` after `k` legs, as a function of the coordinate columns -/
def curvF (g : GOps V) (X Y : List V) : Nat → V
  | 0 => g.zero
  | k + 1 => g.add (curvF g X Y k)
      (match X[k]?, Y[k]?, X[k + 1]?, Y[k + 1]? with
        | some xi, some yi, some xj, some yj => norm2D g (g.sub xj xi) (g.sub yj yi)
        | _, _, _, _ => g.nan)

/-- `computeCurvAbsBetweenTwoPoints` only reads, and returns the accumulated legs of the current coordinates -/
theorem curvAbsT_read (L : Laws I n rd co) (g : GOps V) (s : σ) (hI : I s) :
    (curvAbsT g : M σ V) s = (.ok (curvF g (co s .x) (co s .y) (n s - 1)), s) := by
  unfold curvAbsT
  rw [bind_ok_eq (L.size s)]
  have key := triple_foldL_aux
    (fun (acc : V) i => (dist2DT g i (i + 1) : M σ V) >>= fun d => pure (g.add acc d))
    (fun k (acc : V) s' => s' = s ∧ acc = curvF g (co s .x) (co s .y) k)
    (List.range (n s - 1)) 0 g.zero
    (by
      intro i hi acc s' ⟨hs, hacc⟩
      subst hs
      have hi' : i < n s' - 1 := by simpa using hi
      have hel : (List.range (n s' - 1))[i] = i := by simp
      rw [hel]
      obtain ⟨xi, yi, xj, yj, h1, h2, h3, h4, e⟩ := dist2DT_read L g s' hI i (i + 1) (by omega) (by omega)
      refine ⟨_, s', bind_ok_eq e, rfl, ?_⟩
      simp only [Nat.zero_add, curvF, h1, h2, h3, h4, hacc])
  obtain ⟨x, s', e, hs, hx⟩ := key s ⟨rfl, rfl⟩
  subst hs
  rw [e, hx]
  simp

/-! ### computeAbsCurv and estimate_speed -/

/-- `computeAbsCurv` on a table that lists neither `ds` nor `abs_curv`: the value returned is the integral of the
`ds` column of the CURRENT coordinates, it is what `abs_curv` reads afterwards, `ds` is gone again, every other name,
the coordinates and the times are as before -/
theorem computeAbsCurvT_fresh (L : Laws I n rd co) (g : GOps V) (N : Nat) (hN : 0 < N) (C : Coord → List V)
    (R : String → Option (List V)) (hds : R "ds" = none) (hac : R "abs_curv" = none) :
    Triple (fun s => I s ∧ n s = N ∧ co s = C ∧ ∀ m, rd s m = R m) (computeAbsCurvT g : M σ (List V))
      (fun r s => r = integG g.toOps ((List.range N).map (dsF g (C .x) (C .y))) ∧ I s ∧ n s = N ∧ co s = C
        ∧ rd s "abs_curv" = some r ∧ ∀ m, m ≠ "abs_curv" → rd s m = R m) := by
  have rds : reserved "ds" = false := by decide
  have rac : reserved "abs_curv" = false := by decide
  let DS := (List.range N).map (dsF g (C .x) (C .y))
  let R' : String → Option (List V) := fun m => if m = "ds" then some DS else R m
  unfold computeAbsCurvT
  -- ensure ds
  refine triple_bind (Q := fun _ s => Ctx I n rd co N C R "ds" s ∧ rd s "ds" = some DS) ?_ (fun _ => ?_)
  · unfold ensureDsT
    refine triple_bind (Q := fun b s => b = false ∧ Ctx I n rd co N C R "ds" s) ?_ (fun b => ?_)
    · intro s ⟨hI, hn, hco, hrd⟩
      refine ⟨_, s, L.has s "ds" hI rds, ?_, hI, hn, hco, fun m _ => hrd m⟩
      rw [hrd "ds", hds]; rfl
    · intro s ⟨hb, hc⟩
      subst hb
      simp only [Bool.not_false, if_true]
      refine triple_bind (Q := fun r s => r = DS ∧ Ctx I n rd co N C R "ds" s ∧ rd s "ds" = some r) ?_ (fun r => ?_) s hc
      · exact addAFfn_spec L g.toOps "ds" rds N hN C R (dsAlgT g) (dsF g (C .x) (C .y))
          (fun i hi s hc => by
            have := dsAlgT_read L g s hc.1 i (by rw [hc.2.1]; exact hi)
            rw [hc.2.2.1] at this
            exact this)
      · exact triple_pure () (fun s ⟨hr, hc, hrd⟩ => ⟨hc, by rw [hrd, hr]⟩)
  -- ensure abs_curv
  refine triple_bind (Q := fun _ s => Ctx I n rd co N C R' "abs_curv" s ∧ rd s "abs_curv" = some (integG g.toOps DS)) ?_ (fun _ => ?_)
  · unfold ensureAbsCurvT
    refine triple_bind (Q := fun b s => b = false ∧ Ctx I n rd co N C R' "abs_curv" s) ?_ (fun b => ?_)
    · intro s ⟨⟨hI, hn, hco, hoth⟩, hrd⟩
      refine ⟨_, s, L.has s "abs_curv" hI rac, ?_, hI, hn, hco, fun m _ => ?_⟩
      · rw [hoth "abs_curv" (by decide), hac]; rfl
      · by_cases hm : m = "ds"
        · subst hm; simp [R', hrd]
        · simp [R', hm, hoth m hm]
    · intro s ⟨hb, hc⟩
      subst hb
      simp only [Bool.not_false, if_true]
      refine triple_bind (Q := fun t s => t = integG g.toOps DS ∧ Ctx I n rd co N C R' "abs_curv" s ∧ rd s "abs_curv" = some t) ?_ (fun r => ?_) s hc
      · exact unaryVoid_integ_spec L g.toOps "ds" "abs_curv" rds rac (by decide) N hN C R' DS (by simp [R'])
      · exact triple_pure () (fun s ⟨hr, hc, hrd⟩ => ⟨hc, by rw [hrd, hr]⟩)
  -- remove ds
  refine triple_bind (Q := fun _ s => I s ∧ n s = N ∧ co s = C ∧ rd s "abs_curv" = some (integG g.toOps DS)
      ∧ ∀ m, m ≠ "abs_curv" → rd s m = R m) ?_ (fun _ => ?_)
  · intro s ⟨⟨hI, hn, hco, hoth⟩, hrd⟩
    have hdsrd : rd s "ds" = some DS := by rw [hoth "ds" (by decide)]; simp [R']
    obtain ⟨s', e, hI', hrd', hn', hoth', hco'⟩ := L.remove s "ds" DS hI rds hdsrd
    refine ⟨(), s', e, hI', by rw [hn', hn], by rw [hco', hco], by rw [hoth' "abs_curv" (by decide), hrd], fun m hm => ?_⟩
    by_cases hmd : m = "ds"
    · subst hmd; rw [hrd', hds]
    · rw [hoth' m hmd, hoth m hm]; simp [R', hmd]
  -- read
  intro s ⟨hI, hn, hco, hrd, hoth⟩
  exact ⟨_, s, L.get_feat g.toOps s "abs_curv" _ hI rac hrd, rfl, hI, hn, hco, hrd, hoth⟩

/-- `computeAbsCurv` on a table that already lists `abs_curv` (and no `ds`): the listed column is returned as it is,
every name reads what it read before (the temporary `ds` is created and removed again) -/
theorem computeAbsCurvT_again (L : Laws I n rd co) (g : GOps V) (N : Nat) (hN : 0 < N) (C : Coord → List V)
    (R : String → Option (List V)) (hds : R "ds" = none) (col : List V) (hac : R "abs_curv" = some col) :
    Triple (fun s => I s ∧ n s = N ∧ co s = C ∧ ∀ m, rd s m = R m) (computeAbsCurvT g : M σ (List V))
      (fun r s => r = col ∧ I s ∧ n s = N ∧ co s = C ∧ ∀ m, rd s m = R m) := by
  have rds : reserved "ds" = false := by decide
  have rac : reserved "abs_curv" = false := by decide
  let DS := (List.range N).map (dsF g (C .x) (C .y))
  unfold computeAbsCurvT
  refine triple_bind (Q := fun _ s => Ctx I n rd co N C R "ds" s ∧ rd s "ds" = some DS) ?_ (fun _ => ?_)
  · unfold ensureDsT
    refine triple_bind (Q := fun b s => b = false ∧ Ctx I n rd co N C R "ds" s) ?_ (fun b => ?_)
    · intro s ⟨hI, hn, hco, hrd⟩
      refine ⟨_, s, L.has s "ds" hI rds, ?_, hI, hn, hco, fun m _ => hrd m⟩
      rw [hrd "ds", hds]; rfl
    · intro s ⟨hb, hc⟩
      subst hb
      simp only [Bool.not_false, if_true]
      refine triple_bind (Q := fun r s => r = DS ∧ Ctx I n rd co N C R "ds" s ∧ rd s "ds" = some r) ?_ (fun r => ?_) s hc
      · exact addAFfn_spec L g.toOps "ds" rds N hN C R (dsAlgT g) (dsF g (C .x) (C .y))
          (fun i hi s hc => by
            have := dsAlgT_read L g s hc.1 i (by rw [hc.2.1]; exact hi)
            rw [hc.2.2.1] at this
            exact this)
      · exact triple_pure () (fun s ⟨hr, hc, hrd⟩ => ⟨hc, by rw [hrd, hr]⟩)
  refine triple_bind (Q := fun _ s => Ctx I n rd co N C R "ds" s ∧ rd s "ds" = some DS) ?_ (fun _ => ?_)
  · unfold ensureAbsCurvT
    refine triple_bind (Q := fun b s => b = true ∧ Ctx I n rd co N C R "ds" s ∧ rd s "ds" = some DS) ?_ (fun b => ?_)
    · intro s ⟨⟨hI, hn, hco, hoth⟩, hrd⟩
      refine ⟨_, s, L.has s "abs_curv" hI rac, ?_, ⟨hI, hn, hco, hoth⟩, hrd⟩
      rw [hoth "abs_curv" (by decide), hac]; rfl
    · intro s ⟨hb, hc⟩
      subst hb
      exact ⟨(), s, rfl, hc⟩
  refine triple_bind (Q := fun _ s => I s ∧ n s = N ∧ co s = C ∧ ∀ m, rd s m = R m) ?_ (fun _ => ?_)
  · intro s ⟨⟨hI, hn, hco, hoth⟩, hrd⟩
    obtain ⟨s', e, hI', hrd', hn', hoth', hco'⟩ := L.remove s "ds" DS hI rds hrd
    refine ⟨(), s', e, hI', by rw [hn', hn], by rw [hco', hco], fun m => ?_⟩
    by_cases hmd : m = "ds"
    · subst hmd; rw [hrd', hds]
    · rw [hoth' m hmd, hoth m hmd]
  intro s ⟨hI, hn, hco, hrd⟩
  exact ⟨_, s, L.get_feat g.toOps s "abs_curv" col hI rac (by rw [hrd, hac]), rfl, hI, hn, hco, hrd⟩

/-- `estimate_speed` on a table of `N ≥ 2` fixes that does not list `speed`: the value returned is the speed column of
the CURRENT coordinates and times, it is what `speed` reads afterwards, nothing else changes -/
theorem estimateSpeedT_fresh (L : Laws I n rd co) (g : GOps V) (N : Nat) (hN : 2 ≤ N) (C : Coord → List V)
    (R : String → Option (List V)) (hsp : R "speed" = none) :
    Triple (fun s => I s ∧ n s = N ∧ co s = C ∧ ∀ m, rd s m = R m) (estimateSpeedT g : M σ (List V))
      (fun r s => r = (List.range N).map (speedF g (C .x) (C .y) (C .t) N) ∧ I s ∧ n s = N ∧ co s = C
        ∧ rd s "speed" = some r ∧ ∀ m, m ≠ "speed" → rd s m = R m) := by
  have rsp : reserved "speed" = false := by decide
  unfold estimateSpeedT
  refine triple_bind (Q := fun b s => b = false ∧ Ctx I n rd co N C R "speed" s) ?_ (fun b => ?_)
  · intro s ⟨hI, hn, hco, hrd⟩
    refine ⟨_, s, L.has s "speed" hI rsp, ?_, hI, hn, hco, fun m _ => hrd m⟩
    rw [hrd "speed", hsp]; rfl
  intro s ⟨hb, hc⟩
  subst hb
  simp only [Bool.false_eq_true, if_false]
  obtain ⟨r, s', e, hr, hc', hrd'⟩ := addAFfn_spec L g.toOps "speed" rsp N (by omega) C R (speedAlgT g)
    (speedF g (C .x) (C .y) (C .t) N)
    (fun i hi s hc => by
      have := speedAlgT_read L g s hc.1 (by rw [hc.2.1]; exact hN) i (by rw [hc.2.1]; exact hi)
      rw [hc.2.2.1, hc.2.1] at this
      exact this) s hc
  exact ⟨r, s', e, hr, hc'.1, hc'.2.1, hc'.2.2.1, hrd', hc'.2.2.2⟩

/-- `estimate_speed` on a table that lists `speed`: the listed column is returned, the state is untouched -/
theorem estimateSpeedT_again (L : Laws I n rd co) (g : GOps V) (s : σ) (hI : I s) (col : List V) (hsp : rd s "speed" = some col) :
    (estimateSpeedT g : M σ (List V)) s = (.ok col, s) := by
  have rsp : reserved "speed" = false := by decide
  unfold estimateSpeedT
  rw [bind_ok_eq (L.has s "speed" hI rsp), hsp]
  simp only [Option.isSome_some, if_true]
  exact L.get_feat g.toOps s "speed" col hI rsp hsp

end TV.CinTab
