import TracklibVerif.Model.ObsTime
namespace TV.ObsTime

theorem yearDays_ge (y : Nat) : 365 ≤ yearDays y := by unfold yearDays; split <;> omega
theorem yearDays_le (y : Nat) : yearDays y ≤ 366 := by unfold yearDays; split <;> omega
theorem dby_succ (k : Nat) : daysBeforeYear (k+1) = daysBeforeYear k + yearDays (1970 + k) := rfl
theorem dbm_succ (y m : Nat) : daysBeforeMonth y (m+1) = daysBeforeMonth y m + monthDays y m := rfl
theorem monthDays_pos (y m : Nat) : 28 ≤ monthDays y m := by
  unfold monthDays; split <;> try omega
  split <;> omega
theorem monthDays_le (y m : Nat) : monthDays y m ≤ 31 := by
  unfold monthDays; split <;> try omega
  split <;> omega
theorem dbm_twelve (y : Nat) : daysBeforeMonth y 12 = yearDays y := by
  simp only [daysBeforeMonth, monthDays, yearDays]
  split <;> omega

/-- year loop invariant (additive form) -/
theorem yearLoop_spec (fuel k rem : Nat) (hf : rem / (365 * 86400) < fuel) :
    ∃ j r, yearLoop fuel (1970 + k) rem = (1970 + k + j, r)
      ∧ rem + daysBeforeYear k * 86400 = daysBeforeYear (k + j) * 86400 + r
      ∧ r < yearDays (1970 + k + j) * 86400 := by
  induction fuel generalizing k rem with
  | zero => omega
  | succ f ih =>
    unfold yearLoop
    by_cases h : rem < yearDays (1970 + k) * 86400
    · exact ⟨0, rem, by simp [h], by simp; omega, by simpa using h⟩
    · have h365 := yearDays_ge (1970 + k)
      have hf' : (rem - yearDays (1970 + k) * 86400) / (365 * 86400) < f := by omega
      obtain ⟨j, r, h1, h2, h3⟩ := ih (k+1) (rem - yearDays (1970 + k) * 86400) hf'
      refine ⟨j+1, r, ?_, ?_, ?_⟩
      · simp only [h, ↓reduceIte]
        have : 1970 + (k+1) = 1970 + k + 1 := by omega
        rw [this] at h1; rw [h1]; congr 1; omega
      · have e1 : k + 1 + j = k + (j+1) := by omega
        rw [e1, dby_succ] at h2; omega
      · have : 1970 + (k+1) + j = 1970 + k + (j+1) := by omega
        rw [this] at h3; exact h3

/-- month loop invariant -/
theorem monthLoop_spec (y f m rem : Nat) (hfm : m + f = 12)
    (hr : rem + daysBeforeMonth y m * 86400 < daysBeforeMonth y 12 * 86400) :
    ∃ j r, monthLoop y f m rem = (m + j, r) ∧ m + j < 12
      ∧ rem + daysBeforeMonth y m * 86400 = daysBeforeMonth y (m + j) * 86400 + r
      ∧ r < monthDays y (m + j) * 86400 := by
  induction f generalizing m rem with
  | zero =>
    have : m = 12 := by omega
    subst this; omega
  | succ f ih =>
    unfold monthLoop
    by_cases h : rem < monthDays y m * 86400
    · exact ⟨0, rem, by simp [h], by omega, by simp; omega, by simpa using h⟩
    · have hr' : (rem - monthDays y m * 86400) + daysBeforeMonth y (m+1) * 86400 < daysBeforeMonth y 12 * 86400 := by
        rw [dbm_succ]; omega
      obtain ⟨j, r, h1, h2, h3, h4⟩ := ih (m+1) (rem - monthDays y m * 86400) (by omega) hr'
      refine ⟨j+1, r, ?_, by omega, ?_, ?_⟩
      · simp only [h, ↓reduceIte]
        rw [h1]; congr 1; omega
      · have e1 : m + 1 + j = m + (j+1) := by omega
        rw [e1, dbm_succ] at h3; omega
      · have e1 : m + 1 + j = m + (j+1) := by omega
        rw [e1] at h4; exact h4

/-- C03-T1/T2: every instant reads back as a well-formed date denoting the same instant -/
theorem readUnix_spec (s : Nat) : WF (readUnixSec s) ∧ toAbsSec (readUnixSec s) = s := by
  obtain ⟨j, r, hy1, hy2, hy3⟩ := yearLoop_spec (s / (365 * 86400) + 1) 0 s (by omega)
  simp only [Nat.add_zero, daysBeforeYear, Nat.zero_mul, Nat.zero_add] at hy1 hy2 hy3
  have hr12 : r + daysBeforeMonth (1970 + j) 0 * 86400 < daysBeforeMonth (1970 + j) 12 * 86400 := by
    rw [dbm_twelve]; simp [daysBeforeMonth]; exact hy3
  obtain ⟨m, r2, hm1, hm2, hm3, hm4⟩ := monthLoop_spec (1970 + j) 12 0 r (by omega) hr12
  simp only [Nat.zero_add, daysBeforeMonth, Nat.zero_mul, Nat.add_zero] at hm1 hm2 hm3 hm4
  have hmd := monthDays_le (1970 + j) m
  unfold readUnixSec
  simp only [hy1, hm1]
  constructor
  · unfold WF
    simp only
    refine ⟨by omega, by omega, by omega, by omega, ?_, ?_, ?_, ?_⟩
    · have : m + 1 - 1 = m := by omega
      rw [this]; omega
    all_goals omega
  · unfold toAbsSec
    simp only
    have e1 : 1970 + j - 1970 = j := by omega
    have e2 : m + 1 - 1 = m := by omega
    rw [e1, e2]
    omega
end TV.ObsTime

namespace TV.ObsTime

theorem dby_mono {a b : Nat} (h : a ≤ b) : daysBeforeYear a ≤ daysBeforeYear b := by
  induction h with
  | refl => exact Nat.le_refl _
  | step _ ih => rw [dby_succ]; omega
theorem dby_strict {a b : Nat} (h : a < b) : daysBeforeYear a + yearDays (1970 + a) ≤ daysBeforeYear b := by
  have := dby_mono (show a + 1 ≤ b from h); rw [dby_succ] at this; exact this
theorem dbm_mono (y : Nat) {a b : Nat} (h : a ≤ b) : daysBeforeMonth y a ≤ daysBeforeMonth y b := by
  induction h with
  | refl => exact Nat.le_refl _
  | step _ ih => rw [dbm_succ]; omega
theorem dbm_strict (y : Nat) {a b : Nat} (h : a < b) : daysBeforeMonth y a + monthDays y a ≤ daysBeforeMonth y b := by
  have := dbm_mono y (show a + 1 ≤ b from h); rw [dbm_succ] at this; exact this

/-- day-of-year of a well-formed date is below the year length -/
theorem doy_lt (d : Date) (h : WF d) :
    daysBeforeMonth d.year (d.month - 1) + (d.day - 1) < yearDays d.year := by
  obtain ⟨_, h2, h3, h4, h5, _⟩ := h
  have := dbm_strict d.year (show d.month - 1 < 12 by omega)
  rw [dbm_twelve] at this; omega

/-- strict monotonicity in the (year, day-of-year) pair -/
theorem year_unique (a b r s : Nat) (ha : r < yearDays (1970 + a)) (hb : s < yearDays (1970 + b))
    (h : daysBeforeYear a + r = daysBeforeYear b + s) : a = b ∧ r = s := by
  rcases Nat.lt_trichotomy a b with hlt | heq | hgt
  · have := dby_strict hlt; omega
  · subst heq; exact ⟨rfl, by omega⟩
  · have := dby_strict hgt; omega
theorem month_unique (y a b r s : Nat) (ha : r < monthDays y a) (hb : s < monthDays y b)
    (h : daysBeforeMonth y a + r = daysBeforeMonth y b + s) : a = b ∧ r = s := by
  rcases Nat.lt_trichotomy a b with hlt | heq | hgt
  · have := dbm_strict y hlt; omega
  · subst heq; exact ⟨rfl, by omega⟩
  · have := dbm_strict y hgt; omega

theorem divmod (N1 N2 t1 t2 : Nat) (h1 : t1 < 86400) (h2 : t2 < 86400)
    (h : N1 * 86400 + t1 = N2 * 86400 + t2) : N1 = N2 ∧ t1 = t2 := by omega
theorem tod_lt (a b c : Nat) (ha : a < 24) (hb : b < 60) (hc : c < 60) : a * 3600 + b * 60 + c < 86400 := by omega
theorem tod_inj (a b c a' b' c' : Nat) (hb : b < 60) (hc : c < 60) (hb' : b' < 60) (hc' : c' < 60)
    (h : a * 3600 + b * 60 + c = a' * 3600 + b' * 60 + c') : a = a' ∧ b = b' ∧ c = c' := by omega

/-- toAbsTime is injective on well-formed dates -/
theorem toAbs_inj (d1 d2 : Date) (h1 : WF d1) (h2 : WF d2) (h : toAbsSec d1 = toAbsSec d2) : d1 = d2 := by
  have l1 := doy_lt d1 h1
  have l2 := doy_lt d2 h2
  obtain ⟨a1, a2, a3, a4, a5, a6, a7, a8⟩ := h1
  obtain ⟨b1, b2, b3, b4, b5, b6, b7, b8⟩ := h2
  unfold toAbsSec at h
  -- split day number and time of day
  have ht1 := tod_lt _ _ _ a6 a7 a8
  have ht2 := tod_lt _ _ _ b6 b7 b8
  obtain ⟨hday', htod⟩ := divmod _ _ _ _ ht1 ht2 (by simpa [Nat.add_assoc] using h)
  have hday : daysBeforeYear (d1.year - 1970) + (daysBeforeMonth d1.year (d1.month - 1) + (d1.day - 1))
            = daysBeforeYear (d2.year - 1970) + (daysBeforeMonth d2.year (d2.month - 1) + (d2.day - 1)) := by
    simpa [Nat.add_assoc] using hday'
  clear h hday' ht1 ht2
  have e1 : 1970 + (d1.year - 1970) = d1.year := Nat.add_sub_cancel' a1
  have e2 : 1970 + (d2.year - 1970) = d2.year := Nat.add_sub_cancel' b1
  obtain ⟨hy, hdoy⟩ := year_unique (d1.year - 1970) (d2.year - 1970) _ _ (by rw [e1]; exact l1) (by rw [e2]; exact l2) hday
  have hyear : d1.year = d2.year := by omega
  rw [hyear] at hdoy a5
  obtain ⟨hm, hd⟩ := month_unique d2.year (d1.month - 1) (d2.month - 1) (d1.day - 1) (d2.day - 1) (by omega) (by omega) hdoy
  obtain ⟨hh, hmi, hs⟩ := tod_inj _ _ _ _ _ _ a7 a8 b7 b8 htod
  cases d1; cases d2
  simp only [Date.mk.injEq] at *
  exact ⟨hyear, by omega, by omega, hh, hmi, hs⟩

/-- C03-T3: calendar → seconds → calendar is the identity on well-formed dates -/
theorem readUnix_toAbs (d : Date) (h : WF d) : readUnixSec (toAbsSec d) = d := by
  obtain ⟨hw, he⟩ := readUnix_spec (toAbsSec d)
  exact toAbs_inj _ _ hw h he
end TV.ObsTime

namespace TV.ObsTime

def dayNo (d : Date) : Nat := daysBeforeYear (d.year - 1970) + (daysBeforeMonth d.year (d.month - 1) + (d.day - 1))
def tod (d : Date) : Nat := d.hour * 3600 + d.min * 60 + d.sec

theorem toAbs_split (d : Date) : toAbsSec d = dayNo d * 86400 + tod d := by
  unfold toAbsSec dayNo tod; simp [Nat.add_assoc]

theorem lt_of_parts (N1 N2 t1 t2 : Nat) (h1 : t1 < 86400)
    (h : N1 < N2 ∨ (N1 = N2 ∧ t1 < t2)) : N1 * 86400 + t1 < N2 * 86400 + t2 := by omega

theorem tod_lex (a b c a' b' c' : Nat) (hb : b < 60) (hc : c < 60) (hb' : b' < 60) (hc' : c' < 60)
    (h : a < a' ∨ (a = a' ∧ (b < b' ∨ (b = b' ∧ c < c')))) : a * 3600 + b * 60 + c < a' * 3600 + b' * 60 + c' := by omega

/-- field-wise `<` implies `<` on seconds since 1970 -/
theorem lt_imp (d1 d2 : Date) (h1 : WF d1) (h2 : WF d2) (h : lt d1 d2 = true) : toAbsSec d1 < toAbsSec d2 := by
  have l1 := doy_lt d1 h1
  have l2 := doy_lt d2 h2
  obtain ⟨a1, a2, a3, a4, a5, a6, a7, a8⟩ := h1
  obtain ⟨b1, b2, b3, b4, b5, b6, b7, b8⟩ := h2
  rw [toAbs_split, toAbs_split]
  apply lt_of_parts _ _ _ _ (tod_lt _ _ _ a6 a7 a8)
  unfold lt at h
  by_cases hy : d1.year = d2.year
  · by_cases hm : d1.month = d2.month
    · by_cases hd : d1.day = d2.day
      · right
        refine ⟨by unfold dayNo; rw [hy, hm, hd], ?_⟩
        unfold tod
        apply tod_lex _ _ _ _ _ _ a7 a8 b7 b8
        by_cases hh : d1.hour = d2.hour
        · by_cases hmi : d1.min = d2.min
          · simp [hy, hm, hd, hh, hmi] at h
            exact Or.inr ⟨hh, Or.inr ⟨hmi, h⟩⟩
          · simp [hy, hm, hd, hh, hmi] at h
            exact Or.inr ⟨hh, Or.inl h⟩
        · simp [hy, hm, hd, hh] at h
          exact Or.inl h
      · left
        simp [hy, hm, hd] at h
        unfold dayNo; rw [hy, hm]; omega
    · left
      simp [hy, hm] at h
      have hs := dbm_strict d2.year (show d1.month - 1 < d2.month - 1 by omega)
      unfold dayNo; rw [hy]
      rw [hy] at a5
      omega
  · left
    simp [hy] at h
    have hs := dby_strict (show d1.year - 1970 < d2.year - 1970 by omega)
    have e1 : 1970 + (d1.year - 1970) = d1.year := Nat.add_sub_cancel' a1
    rw [e1] at hs
    unfold dayNo
    omega

/-- the field-wise comparison is total on distinct dates -/
theorem lt_total (d1 d2 : Date) (h : lt d1 d2 = false) : d1 = d2 ∨ lt d2 d1 = true := by
  cases d1 with | mk y1 m1 dd1 h1 mi1 s1 =>
  cases d2 with | mk y2 m2 dd2 h2 mi2 s2 =>
  unfold lt at *
  simp only [Date.mk.injEq]
  by_cases hy : y1 = y2
  · by_cases hm : m1 = m2
    · by_cases hd : dd1 = dd2
      · by_cases hh : h1 = h2
        · by_cases hmi : mi1 = mi2
          · simp [hy, hm, hd, hh, hmi] at h ⊢
            omega
          · simp [hy, hm, hd, hh, hmi] at h ⊢
            have : ¬ mi2 = mi1 := fun e => hmi e.symm
            simp [this]; omega
        · simp [hy, hm, hd, hh] at h ⊢
          have : ¬ h2 = h1 := fun e => hh e.symm
          simp [this]; omega
      · simp [hy, hm, hd] at h ⊢
        have : ¬ dd2 = dd1 := fun e => hd e.symm
        simp [this]; omega
    · simp [hy, hm] at h ⊢
      have : ¬ m2 = m1 := fun e => hm e.symm
      simp [this]; omega
  · simp [hy] at h ⊢
    have : ¬ y2 = y1 := fun e => hy e.symm
    simp [this]; omega

/-- C03-T5: `t1 < t2` on well-formed timestamps is `<` on their seconds since 1970 -/
theorem lt_iff (d1 d2 : Date) (h1 : WF d1) (h2 : WF d2) : lt d1 d2 = true ↔ toAbsSec d1 < toAbsSec d2 := by
  constructor
  · exact lt_imp d1 d2 h1 h2
  · intro h
    cases hlt : lt d1 d2 with
    | true => rfl
    | false =>
      rcases lt_total d1 d2 hlt with he | hg
      · subst he; omega
      · have := lt_imp d2 d1 h2 h1 hg; omega
end TV.ObsTime

namespace TV.ObsTime

theorem ltS_eq (a b : Stamp) : ltS a b = (lt a.d b.d || (decide (a.d = b.d) && decide (a.ms < b.ms))) := by
  cases a with | mk da ma =>
  cases b with | mk db mb =>
  cases da with | mk y1 m1 d1 h1 mi1 s1 =>
  cases db with | mk y2 m2 d2 h2 mi2 s2 =>
  unfold ltS lt
  simp only [Date.mk.injEq]
  by_cases hy : y1 = y2 <;> by_cases hm : m1 = m2 <;> by_cases hd : d1 = d2 <;> by_cases hh : h1 = h2 <;>
    by_cases hmi : mi1 = mi2 <;> by_cases hs : s1 = s2 <;> simp [hy, hm, hd, hh, hmi, hs]

theorem gtS_eq_ltS (a b : Stamp) : gtS a b = ltS b a := by
  cases a with | mk da ma =>
  cases b with | mk db mb =>
  cases da with | mk y1 m1 d1 h1 mi1 s1 =>
  cases db with | mk y2 m2 d2 h2 mi2 s2 =>
  unfold gtS ltS
  simp only
  by_cases hy : y1 = y2
  · subst hy
    by_cases hm : m1 = m2
    · subst hm
      by_cases hd : d1 = d2
      · subst hd
        by_cases hh : h1 = h2
        · subst hh
          by_cases hmi : mi1 = mi2
          · subst hmi
            by_cases hs : s1 = s2
            · subst hs; simp
            · have hs' : ¬ s2 = s1 := fun e => hs e.symm
              simp [hs, hs']
          · have hmi' : ¬ mi2 = mi1 := fun e => hmi e.symm
            simp [hmi, hmi']
        · have hh' : ¬ h2 = h1 := fun e => hh e.symm
          simp [hh, hh']
      · have hd' : ¬ d2 = d1 := fun e => hd e.symm
        simp [hd, hd']
    · have hm' : ¬ m2 = m1 := fun e => hm e.symm
      simp [hm, hm']
  · have hy' : ¬ y2 = y1 := fun e => hy e.symm
    simp [hy, hy']

theorem eqS_iff (a b : Stamp) : eqS a b = true ↔ a = b := by
  cases a with | mk da ma =>
  cases b with | mk db mb =>
  cases da with | mk y1 m1 d1 h1 mi1 s1 =>
  cases db with | mk y2 m2 d2 h2 mi2 s2 =>
  unfold eqS
  simp only [Stamp.mk.injEq, Date.mk.injEq]
  by_cases hy : y1 = y2 <;> by_cases hm : m1 = m2 <;> by_cases hd : d1 = d2 <;> by_cases hh : h1 = h2 <;>
    by_cases hmi : mi1 = mi2 <;> by_cases hs : s1 = s2 <;> by_cases hms : ma = mb <;>
    simp [hy, hm, hd, hh, hmi, hs, hms]

theorem toAbsMs_inj (a b : Stamp) (ha : WFs a) (hb : WFs b) (h : toAbsMs a = toAbsMs b) : a = b := by
  cases a with | mk da ma =>
  cases b with | mk db mb =>
  obtain ⟨ha1, ha2⟩ := ha
  obtain ⟨hb1, hb2⟩ := hb
  unfold toAbsMs at h
  simp only at ha1 ha2 hb1 hb2 h
  have e1 : toAbsSec da = toAbsSec db := by omega
  have e2 : ma = mb := by omega
  rw [toAbs_inj da db ha1 hb1 e1, e2]

theorem ltS_iff (a b : Stamp) (ha : WFs a) (hb : WFs b) : ltS a b = true ↔ toAbsMs a < toAbsMs b := by
  obtain ⟨ha1, ha2⟩ := ha
  obtain ⟨hb1, hb2⟩ := hb
  rw [ltS_eq]
  have hl := lt_iff a.d b.d ha1 hb1
  unfold toAbsMs
  constructor
  · intro h
    simp only [Bool.or_eq_true, Bool.and_eq_true, decide_eq_true_eq] at h
    rcases h with h | ⟨h1, h2⟩
    · have := hl.1 h; omega
    · rw [h1]; omega
  · intro h
    simp only [Bool.or_eq_true, Bool.and_eq_true, decide_eq_true_eq]
    by_cases hlt : toAbsSec a.d < toAbsSec b.d
    · exact Or.inl (hl.2 hlt)
    · right
      have e : toAbsSec a.d = toAbsSec b.d := by omega
      exact ⟨toAbs_inj _ _ ha1 hb1 e, by omega⟩

/-! ### closed-form Gregorian day number -/

theorem isLeap_iff (y : Nat) : isLeap y = true ↔ (y % 4 = 0 ∧ (y % 100 ≠ 0 ∨ y % 400 = 0)) := by
  unfold isLeap; simp

/-- days in the years 1970 .. 1970+k-1, closed form -/
theorem dby_closed (k : Nat) :
    daysBeforeYear k + 477 = 365 * k + (1969 + k) / 4 + (1969 + k) / 400 - (1969 + k) / 100 := by
  induction k with
  | zero => simp [daysBeforeYear]
  | succ k ih =>
    rw [dby_succ]
    unfold yearDays
    by_cases hl : isLeap (1970 + k) = true
    · simp only [hl, ↓reduceIte]
      have := (isLeap_iff _).1 hl
      omega
    · simp only [hl]
      have h2 : ¬ ((1970 + k) % 4 = 0 ∧ ((1970 + k) % 100 ≠ 0 ∨ (1970 + k) % 400 = 0)) := fun c => hl ((isLeap_iff _).2 c)
      simp only [Bool.false_eq_true, ↓reduceIte]
      omega

end TV.ObsTime

namespace TV.ObsTime

/-- the era/year-of-era decomposition is the plain Gregorian leap count -/
theorem era_years (Y : Int) :
    Y / 400 * 146097 + ((Y - Y / 400 * 400) * 365 + (Y - Y / 400 * 400) / 4 - (Y - Y / 400 * 400) / 100)
      = 365 * Y + Y / 4 - Y / 100 + Y / 400 := by
  omega

/-- additive form of the leap-year recurrence on the Gregorian leap count -/
theorem leap_step (Y : Nat) (h1 : 1 ≤ Y) :
    Y / 4 + Y / 400 + (Y - 1) / 100 = (Y - 1) / 4 + (Y - 1) / 400 + Y / 100 + (if isLeap Y then 1 else 0) := by
  by_cases hl : isLeap Y = true
  · have := (isLeap_iff _).1 hl
    simp only [hl, ↓reduceIte]; omega
  · have h2 : ¬ (Y % 4 = 0 ∧ (Y % 100 ≠ 0 ∨ Y % 400 = 0)) := fun c => hl ((isLeap_iff _).2 c)
    simp only [hl, Bool.false_eq_true, ↓reduceIte]; omega

theorem dby_closed' (k : Nat) :
    daysBeforeYear k + 477 + (1969 + k) / 100 = 365 * k + (1969 + k) / 4 + (1969 + k) / 400 := by
  have := dby_closed k
  omega

theorem cast_div4 (n : Nat) : (n : Int) / 4 = ((n / 4 : Nat) : Int) := by omega
theorem cast_div100 (n : Nat) : (n : Int) / 100 = ((n / 100 : Nat) : Int) := by omega
theorem cast_div400 (n : Nat) : (n : Int) / 400 = ((n / 400 : Nat) : Int) := by omega

theorem dayNo_civil (d : Date) (h : WF d) : (dayNo d : Int) = civilDays d.year d.month d.day := by
  obtain ⟨h1, h2, h3, h4, h5, -, -, -⟩ := h
  cases d with | mk y m dd hh mi ss =>
  simp only at h1 h2 h3 h4 h5
  obtain ⟨k, rfl⟩ : ∃ k, y = 1970 + k := ⟨y - 1970, by omega⟩
  have hm : m = 1 ∨ m = 2 ∨ m = 3 ∨ m = 4 ∨ m = 5 ∨ m = 6 ∨ m = 7 ∨ m = 8 ∨ m = 9 ∨ m = 10 ∨ m = 11 ∨ m = 12 := by omega
  have e : 1970 + k - 1970 = k := by omega
  have e2 : 1970 + k - 1 = 1969 + k := by omega
  have ea : ((1970 + k : Nat) : Int) - 1 = ((1969 + k : Nat) : Int) := by omega
  clear h1 h2 h3
  unfold dayNo civilDays
  simp only [e]
  have heA := era_years ((1970 + k : Nat) - 1 : Int)
  have heY := era_years ((1970 + k : Nat) : Int)
  rw [ea] at heA
  have qa4 := cast_div4 (1969 + k)
  have qa100 := cast_div100 (1969 + k)
  have qa400 := cast_div400 (1969 + k)
  have qy4 := cast_div4 (1970 + k)
  have qy100 := cast_div100 (1970 + k)
  have qy400 := cast_div400 (1970 + k)
  conv at heA => rhs; rw [qa4, qa100, qa400]
  conv at heY => rhs; rw [qy4, qy100, qy400]
  have hc := dby_closed' k
  have hs := leap_step (1970 + k) (Nat.le_trans (by decide : 1 ≤ 1970) (Nat.le_add_right _ _))
  rw [e2] at hs
  clear qa4 qa100 qa400 qy4 qy100 qy400 e e2
  generalize (1969 + k) / 4 = a4 at *
  generalize (1969 + k) / 100 = a100 at *
  generalize (1969 + k) / 400 = a400 at *
  generalize (1970 + k) / 4 = y4 at *
  generalize (1970 + k) / 100 = y100 at *
  generalize (1970 + k) / 400 = y400 at *
  generalize daysBeforeYear k = D at *
  by_cases hl : isLeap (1970 + k) = true
  · simp only [hl, ↓reduceIte] at hs
    rcases hm with rfl | rfl | rfl | rfl | rfl | rfl | rfl | rfl | rfl | rfl | rfl | rfl <;>
      simp only [Nat.reduceSub, daysBeforeMonth, monthDays, Nat.reduceLeDiff, hl, ↓reduceIte] at h5 ⊢ <;>
      (first | rw [ea, heA] | rw [heY]) <;> clear heA heY <;> omega
  · simp only [hl, Bool.false_eq_true, ↓reduceIte] at hs
    rcases hm with rfl | rfl | rfl | rfl | rfl | rfl | rfl | rfl | rfl | rfl | rfl | rfl <;>
      simp only [Nat.reduceSub, daysBeforeMonth, monthDays, Nat.reduceLeDiff, hl, Bool.false_eq_true, ↓reduceIte] at h5 ⊢ <;>
      (first | rw [ea, heA] | rw [heY]) <;> clear heA heY <;> omega
end TV.ObsTime
