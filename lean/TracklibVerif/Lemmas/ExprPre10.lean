import TracklibVerif.Lemmas.ExprPre9
/-! # Extension: a sign directly after a binary `+` or `-` (`a+-b`, `a--b`, `a++b`, `a-+b`)

The last four replacements of `__unaryOp` merge two adjacent signs into the sign of their product (`--` → `+`, `++` → `+`,
`+-` → `-`, `-+` → `-`). So typing `P+-Q` where `P-Q` is the source string of a statement whose `-` is a *binary*
operator (the character before it is not `(`) is typing `P-Q`: `preprocess` gives the same result; likewise for the
other three pairs. -/
namespace TV.Expr
open TV.Rpn

def isSign (c : Char) : Bool := c == '+' || c == '-'

theorem isSign_cases {c : Char} (h : isSign c = true) : c = '+' ∨ c = '-' := by
  simpa [isSign] using h

theorem okp_signs {a b : Char} (ha : isSign a = true) (hb : isSign b = true) : okp a b = false := by
  rcases isSign_cases ha with rfl | rfl <;> rcases isSign_cases hb with rfl | rfl <;> decide

theorem junc_congr (R : Char → Char → Bool) {s s' t t' : Str} (h1 : s.getLast? = s'.getLast?) (h2 : t.head? = t'.head?) :
    junc R s t = junc R s' t' := by
  simp only [junc, h1, h2]

theorem head?_append_ne {s t : Str} (hs : s ≠ []) : (s ++ t).head? = s.head? := by
  cases s with
  | nil => exact absurd rfl hs
  | cons x xs => rfl

theorem chn_cons_junc (R : Char → Char → Bool) (a : Char) (s : Str) : chn R (a :: s) = (chn R s && junc R [a] s) := by
  have := chn_append R [a] s
  simpa [chn] using this

/-! ## the third replacement (`(-` → `(0-`) keeps chains, heads and last characters -/

def gz (s : Str) : Str := rep2 '(' '-' ['(', '0', '-'] s

theorem gz_props : ∀ (s : Str), chn okp s = true →
    chn okp (gz s) = true ∧ (gz s).head? = s.head? ∧ (gz s).getLast? = s.getLast?
  | [], _ => ⟨rfl, rfl, rfl⟩
  | [x], _ => ⟨rfl, rfl, rfl⟩
  | x :: y :: r, h => by
    have hyr : chn okp (y :: r) = true := chn_tail h
    by_cases hm : ('(' == x && '-' == y) = true
    · have hx : x = '(' := by simp only [Bool.and_eq_true, beq_iff_eq] at hm; exact hm.1.symm
      have hy : y = '-' := by simp only [Bool.and_eq_true, beq_iff_eq] at hm; exact hm.2.symm
      subst hx hy
      have hr : chn okp r = true := chn_tail hyr
      obtain ⟨i1, i2, i3⟩ := gz_props r hr
      have e : gz ('(' :: '-' :: r) = '(' :: '0' :: '-' :: gz r := by simp [gz, rep2]
      have hj : junc okp ['-'] r = true := by
        rw [chn_cons_junc] at hyr
        simp only [Bool.and_eq_true] at hyr
        exact hyr.2
      rw [e]
      refine ⟨?_, rfl, ?_⟩
      · rw [chn_cons_junc, chn_cons_junc, chn_cons_junc, i1, junc_congr okp (s := ['-']) (s' := ['-']) rfl i2, hj]
        simp only [junc, List.getLast?_singleton, List.head?_cons, Bool.true_and, Bool.and_eq_true]
        exact ⟨by decide, by decide⟩
      · simp only [List.getLast?_cons_cons]
        rw [List.getLast?_cons, List.getLast?_cons, i3]
    · have hb : ('(' == x && '-' == y) = false := by simpa using hm
      obtain ⟨i1, i2, i3⟩ := gz_props (y :: r) hyr
      have e : gz (x :: y :: r) = x :: gz (y :: r) := by simp only [gz, rep2, hb, Bool.false_eq_true, if_false]
      have hj : junc okp [x] (y :: r) = true := by
        rw [chn_cons_junc] at h
        simp only [Bool.and_eq_true] at h
        exact h.2
      rw [e]
      refine ⟨?_, rfl, ?_⟩
      · rw [chn_cons_junc, i1, junc_congr okp (s := [x]) (s' := [x]) rfl i2, hj]; rfl
      · rw [List.getLast?_cons, i3, ← List.getLast?_cons]

/-! ## `replace` of a two-character pattern around one or two middle characters -/

theorem rep2_split2 (a b : Char) (rep A B : Str) (s1 s2 : Char)
    (h0 : A.getLast? ≠ some a ∨ s1 ≠ b) (h1 : ¬ (a = s1 ∧ b = s2)) (h2 : s2 ≠ a ∨ B.head? ≠ some b) :
    rep2 a b rep (A ++ s1 :: s2 :: B) = rep2 a b rep A ++ s1 :: s2 :: rep2 a b rep B := by
  rw [rep2_append a b rep A.length A _ (Nat.le_refl _) (h0.imp id (fun h => by simpa using h))]
  congr 1
  have hb : (a == s1 && b == s2) = false := by
    cases hc : (a == s1 && b == s2) with
    | false => rfl
    | true => simp only [Bool.and_eq_true, beq_iff_eq] at hc; exact absurd hc h1
  have e2 : rep2 a b rep (s2 :: B) = s2 :: rep2 a b rep B := by
    have := rep2_append a b rep 1 [s2] B (by simp) (h2.imp (fun h => by simpa using h) id)
    simpa [rep2] using this
  simp only [rep2, hb, Bool.false_eq_true, if_false]
  rw [e2]

theorem rep2_split1 (a b : Char) (rep A B : Str) (o : Char)
    (h0 : A.getLast? ≠ some a ∨ o ≠ b) (h2 : o ≠ a ∨ B.head? ≠ some b) :
    rep2 a b rep (A ++ o :: B) = rep2 a b rep A ++ o :: rep2 a b rep B := by
  rw [rep2_append a b rep A.length A _ (Nat.le_refl _) (h0.imp id (fun h => by simpa using h))]
  congr 1
  have := rep2_append a b rep 1 [o] B (by simp) (h2.imp (fun h => by simpa using h) id)
  simpa [rep2] using this

theorem rep2_fire (a b : Char) (rep A B : Str) (h0 : A.getLast? ≠ some a) :
    rep2 a b rep (A ++ a :: b :: B) = rep2 a b rep A ++ rep ++ rep2 a b rep B := by
  rw [rep2_append a b rep A.length A _ (Nat.le_refl _) (Or.inl h0)]
  simp [rep2]

/-- the three signs of a pair: the two typed, and the one they merge into -/
inductive SignPair : Char → Char → Char → Prop
  | mm : SignPair '-' '-' '+'
  | pp : SignPair '+' '+' '+'
  | pm : SignPair '+' '-' '-'
  | mp : SignPair '-' '+' '-'

theorem SignPair.signs {s1 s2 o : Char} (h : SignPair s1 s2 o) : isSign s1 = true ∧ isSign s2 = true ∧ isSign o = true := by
  cases h <;> decide

/-! ## the eight replacements on `P s1 s2 Q` and on `P o Q` -/

section stages
variable (gP gQ : Str) (hcP : chn okp gP = true) (hcQ : chn okp gQ = true)
  (hlP : ∀ c, isSign c = true → gP.getLast? ≠ some c) (hhQ : ∀ c, isSign c = true → gQ.head? ≠ some c)
include hcP hcQ hlP hhQ

theorem stageY (a b : Char) (ha : isSign a = true) (hb : isSign b = true) (rep : Str) (o : Char) :
    rep2 a b rep (gP ++ o :: gQ) = gP ++ o :: gQ := by
  rw [rep2_split1 a b rep gP gQ o (Or.inl (hlP a ha)) (Or.inr (hhQ b hb)),
    rep2_chn a b rep hcP (okp_signs ha hb), rep2_chn a b rep hcQ (okp_signs ha hb)]

theorem stageX (a b : Char) (ha : isSign a = true) (hb : isSign b = true) (rep : Str) (s1 s2 : Char)
    (h1 : ¬ (a = s1 ∧ b = s2)) : rep2 a b rep (gP ++ s1 :: s2 :: gQ) = gP ++ s1 :: s2 :: gQ := by
  rw [rep2_split2 a b rep gP gQ s1 s2 (Or.inl (hlP a ha)) h1 (Or.inr (hhQ b hb)),
    rep2_chn a b rep hcP (okp_signs ha hb), rep2_chn a b rep hcQ (okp_signs ha hb)]

omit hhQ in
theorem stageF (a b : Char) (ha : isSign a = true) (hb : isSign b = true) (o : Char) :
    rep2 a b [o] (gP ++ a :: b :: gQ) = gP ++ o :: gQ := by
  rw [rep2_fire a b [o] gP gQ (hlP a ha), rep2_chn a b [o] hcP (okp_signs ha hb), rep2_chn a b [o] hcQ (okp_signs ha hb)]
  simp

/-- the four sign replacements turn `gP s1 s2 gQ` into `gP o gQ` and leave `gP o gQ` as it is -/
theorem signs_merge (s1 s2 o : Char) (hs : SignPair s1 s2 o) :
    rep2 '-' '+' ['-'] (rep2 '+' '-' ['-'] (rep2 '+' '+' ['+'] (rep2 '-' '-' ['+'] (gP ++ s1 :: s2 :: gQ))))
      = gP ++ o :: gQ
    ∧ rep2 '-' '+' ['-'] (rep2 '+' '-' ['-'] (rep2 '+' '+' ['+'] (rep2 '-' '-' ['+'] (gP ++ o :: gQ))))
      = gP ++ o :: gQ := by
  have Y := stageY gP gQ hcP hcQ hlP hhQ
  have X := stageX gP gQ hcP hcQ hlP hhQ
  have F := stageF gP gQ hcP hcQ hlP
  refine ⟨?_, ?_⟩
  · cases hs with
    | mm => rw [F '-' '-' (by decide) (by decide) '+', Y '+' '+' (by decide) (by decide), Y '+' '-' (by decide) (by decide),
        Y '-' '+' (by decide) (by decide)]
    | pp => rw [X '-' '-' (by decide) (by decide) _ '+' '+' (by decide), F '+' '+' (by decide) (by decide) '+',
        Y '+' '-' (by decide) (by decide), Y '-' '+' (by decide) (by decide)]
    | pm => rw [X '-' '-' (by decide) (by decide) _ '+' '-' (by decide), X '+' '+' (by decide) (by decide) _ '+' '-' (by decide),
        F '+' '-' (by decide) (by decide) '-', Y '-' '+' (by decide) (by decide)]
    | mp => rw [X '-' '-' (by decide) (by decide) _ '-' '+' (by decide), X '+' '+' (by decide) (by decide) _ '-' '+' (by decide),
        X '+' '-' (by decide) (by decide) _ '-' '+' (by decide), F '-' '+' (by decide) (by decide) '-']
  · rw [Y '-' '-' (by decide) (by decide), Y '+' '+' (by decide) (by decide), Y '+' '-' (by decide) (by decide),
      Y '-' '+' (by decide) (by decide)]

end stages

/-- facts at the two junctions of a chain `P o Q` whose middle character is a sign -/
theorem sign_junctions (P Q : Str) (o : Char) (c1 : chn okp (P ++ o :: Q) = true) :
    chn okp P = true ∧ chn okp Q = true
    ∧ (∀ c, okp c o = false → P.getLast? ≠ some c) ∧ (∀ c, okp o c = false → Q.head? ≠ some c) := by
  rw [chn_append, chn_cons_junc] at c1
  simp only [Bool.and_eq_true] at c1
  obtain ⟨⟨h1, h2, h3⟩, h4⟩ := c1
  refine ⟨h1, h2, ?_, ?_⟩
  · intro c hc hl
    simp only [junc, hl, List.head?_cons] at h4
    rw [hc] at h4; cases h4
  · intro c hc hh
    simp only [junc, hh, List.getLast?_singleton] at h3
    rw [hc] at h3; cases h3

theorem okp_sign_right {a o s : Char} (ho : isSign o = true) (hs : isSign s = true) (ha : a ≠ '(')
    (h : okp a o = true) : okp a s = true := by
  have hcl : cls a ≠ .L := by
    intro hc
    apply ha
    simp only [cls] at hc
    by_cases h1 : a = '('
    · exact h1
    · simp only [h1, if_false] at hc
      split at hc <;> try cases hc
      split at hc <;> try cases hc
      split at hc <;> try cases hc
      split at hc <;> cases hc
  rcases isSign_cases ho with rfl | rfl <;> rcases isSign_cases hs with rfl | rfl
  · exact h
  · have c1 : cls '+' = .O := by decide
    have c2 : cls '-' = .O := by decide
    simp only [okp, c1, c2] at h ⊢
    cases hk : cls a <;> simp only [hk] at h ⊢ <;> first | exact absurd hk hcl | cases h | simp_all
  · have c1 : cls '+' = .O := by decide
    have c2 : cls '-' = .O := by decide
    simp only [okp, c1, c2] at h ⊢
    cases hk : cls a <;> simp only [hk] at h ⊢ <;> first | exact absurd hk hcl | cases h | simp_all
  · exact h

theorem okp_sign_left {o s c : Char} (ho : isSign o = true) (hs : isSign s = true) (h : okp o c = true) : okp s c = true := by
  have c1 : cls '+' = .O := by decide
  have c2 : cls '-' = .O := by decide
  rcases isSign_cases ho with rfl | rfl <;> rcases isSign_cases hs with rfl | rfl <;>
    simp only [okp, c1, c2] at h ⊢ <;> exact h

/-- adjacency in `P s1 s2 Q`: additionally, a sign may follow a sign -/
def okpS (a b : Char) : Bool := okp a b || (isSign a && isSign b)

theorem okpS_of_okp (a b : Char) (h : okp a b = true) : okpS a b = true := by simp [okpS, h]

/-- the chain of `P s1 s2 Q` for the larger relation, from that of `P o Q` -/
theorem chn_sign_pair (P Q : Str) (s1 s2 o : Char) (hs : SignPair s1 s2 o) (hl : P.getLast? ≠ some '(')
    (c1 : chn okp (P ++ o :: Q) = true) : chn okpS (P ++ s1 :: s2 :: Q) = true := by
  obtain ⟨g1, g2, g3⟩ := hs.signs
  have c1' := c1
  rw [chn_append, chn_cons_junc] at c1'
  simp only [Bool.and_eq_true] at c1'
  obtain ⟨⟨h1, h2, h3⟩, h4⟩ := c1'
  rw [chn_append, chn_cons_junc, chn_cons_junc, chn_mono okpS_of_okp _ h1, chn_mono okpS_of_okp _ h2]
  have j1 : junc okpS [s2] Q = true := by
    cases Q with
    | nil => rfl
    | cons q qs =>
      simp only [junc, List.getLast?_singleton, List.head?_cons] at h3 ⊢
      exact okpS_of_okp _ _ (okp_sign_left g3 g2 h3)
  have j2 : junc okpS [s1] (s2 :: Q) = true := by
    simp only [junc, List.getLast?_singleton, List.head?_cons, okpS, g1, g2, Bool.and_self, Bool.or_true]
  have j3 : junc okpS P (s1 :: s2 :: Q) = true := by
    cases hP : P.getLast? with
    | none => simp [junc, hP]
    | some z =>
      simp only [junc, hP, List.head?_cons] at h4 ⊢
      exact okpS_of_okp _ _ (okp_sign_right g3 g1 (fun hz => hl (by rw [hP, hz])) h4)
  rw [j1, j2, j3]; rfl

/-- `__unaryOp` on `P s1 s2 Q` and on `P o Q`, after the braces have been rewritten -/
theorem unaryOp_sign_pair (P1 Q1 : Str) (s1 s2 o : Char) (hs : SignPair s1 s2 o) (hl : P1.getLast? ≠ some '(')
    (c1 : chn okp (P1 ++ o :: Q1) = true)
    (hfirst : ∃ c, P1.head? = some c ∧ c ≠ '-' ∧ c ≠ '+') :
    unaryOp (P1 ++ s1 :: s2 :: Q1) = unaryOp (P1 ++ o :: Q1) := by
  obtain ⟨g1, g2, g3⟩ := hs.signs
  obtain ⟨c, hc, hm, hp⟩ := hfirst
  have hne : P1 ≠ [] := by intro h; rw [h] at hc; cases hc
  have hcU : (P1 ++ s1 :: s2 :: Q1).head? = some c := by rw [head?_append_ne hne]; exact hc
  have hcY : (P1 ++ o :: Q1).head? = some c := by rw [head?_append_ne hne]; exact hc
  rw [unaryOp_plain hcU hm hp, unaryOp_plain hcY hm hp]
  congr 1
  obtain ⟨cP, cQ, lP, hQ⟩ := sign_junctions P1 Q1 o c1
  have cU := chn_sign_pair P1 Q1 s1 s2 o hs hl c1
  obtain ⟨gcP, ghP, glP⟩ := gz_props P1 cP
  obtain ⟨gcQ, ghQ, glQ⟩ := gz_props Q1 cQ
  have lsign : ∀ c, isSign c = true → P1.getLast? ≠ some c := fun c hc' => lP c (okp_signs hc' g3)
  have hsign : ∀ c, isSign c = true → Q1.head? ≠ some c := fun c hc' => hQ c (okp_signs g3 hc')
  have hlP : ∀ c, isSign c = true → (gz P1).getLast? ≠ some c := fun c hc' => by rw [glP]; exact lsign c hc'
  have hhQ : ∀ c, isSign c = true → (gz Q1).head? ≠ some c := fun c hc' => by rw [ghQ]; exact hsign c hc'
  have s1ne : s1 ≠ '(' ∧ s2 ≠ '(' ∧ o ≠ '(' := by cases hs <;> decide
  -- replacements 1, 2 (`=-`, `=+`): absent on both sides
  have u1 : replace (P1 ++ s1 :: s2 :: Q1) ['=', '-'] ['=', '0', '-'] = P1 ++ s1 :: s2 :: Q1 :=
    replace_chn _ _ cU (by decide)
  have u2 : replace (P1 ++ s1 :: s2 :: Q1) ['=', '+'] ['=', '0', '+'] = P1 ++ s1 :: s2 :: Q1 :=
    replace_chn _ _ cU (by decide)
  have y1 : replace (P1 ++ o :: Q1) ['=', '-'] ['=', '0', '-'] = P1 ++ o :: Q1 := replace_chn _ _ c1 (by decide)
  have y2 : replace (P1 ++ o :: Q1) ['=', '+'] ['=', '0', '+'] = P1 ++ o :: Q1 := replace_chn _ _ c1 (by decide)
  -- replacement 3 (`(-` → `(0-`)
  have u3 : replace (P1 ++ s1 :: s2 :: Q1) ['(', '-'] ['(', '0', '-'] = gz P1 ++ s1 :: s2 :: gz Q1 := by
    rw [replace_two]
    exact rep2_split2 _ _ _ P1 Q1 s1 s2 (Or.inl hl) (fun h => s1ne.1 h.1.symm) (Or.inl s1ne.2.1)
  have y3 : replace (P1 ++ o :: Q1) ['(', '-'] ['(', '0', '-'] = gz P1 ++ o :: gz Q1 := by
    rw [replace_two]
    exact rep2_split1 _ _ _ P1 Q1 o (Or.inl hl) (Or.inl s1ne.2.2)
  -- replacement 4 (`(+`): absent
  have glp : (gz P1).getLast? ≠ some '(' := by rw [glP]; exact hl
  have u4 : replace (gz P1 ++ s1 :: s2 :: gz Q1) ['(', '+'] ['(', '0', '+'] = gz P1 ++ s1 :: s2 :: gz Q1 := by
    rw [replace_two, rep2_split2 _ _ _ (gz P1) (gz Q1) s1 s2 (Or.inl glp) (fun h => s1ne.1 h.1.symm) (Or.inl s1ne.2.1),
      rep2_chn _ _ _ gcP (by decide), rep2_chn _ _ _ gcQ (by decide)]
  have y4 : replace (gz P1 ++ o :: gz Q1) ['(', '+'] ['(', '0', '+'] = gz P1 ++ o :: gz Q1 := by
    rw [replace_two, rep2_split1 _ _ _ (gz P1) (gz Q1) o (Or.inl glp) (Or.inl s1ne.2.2),
      rep2_chn _ _ _ gcP (by decide), rep2_chn _ _ _ gcQ (by decide)]
  obtain ⟨m1, m2⟩ := signs_merge (gz P1) (gz Q1) gcP gcQ hlP hhQ s1 s2 o hs
  simp only [uchain, u1, u2, u3, u4, y1, y2, y3, y4, replace_two]
  rw [m1, m2]

/-- the chain on `P s1 s2 Q` and on `P o Q` -/
theorem rewr_sign_pair (P Q : Str) (s1 s2 o : Char) (hs : SignPair s1 s2 o)
    (hP : ∃ P' c, P = P' ++ [c] ∧ c ≠ '(' ∧ c ≠ '{')
    (hsp : ' ' ∉ P ++ o :: Q)
    (c0 : chn okp (P ++ o :: Q) = true)
    (c1 : chn okp (sp (P ++ o :: Q)) = true)
    (hfirst : ∃ c, (sp P).head? = some c ∧ c ≠ '-' ∧ c ≠ '+') :
    rewr (P ++ s1 :: s2 :: Q) = rewr (P ++ o :: Q) := by
  obtain ⟨g1, g2, g3⟩ := hs.signs
  have nb : (s1 ≠ '{' ∧ s1 ≠ '}') ∧ (s2 ≠ '{' ∧ s2 ≠ '}') ∧ (o ≠ '{' ∧ o ≠ '}') ∧ s1 ≠ ' ' ∧ s2 ≠ ' ' := by
    cases hs <;> decide
  have eS : sp (P ++ o :: Q) = sp P ++ o :: sp Q := by rw [sp_append, sp_cons nb.2.2.1.1 nb.2.2.1.2]
  have eU : sp (P ++ s1 :: s2 :: Q) = sp P ++ s1 :: s2 :: sp Q := by
    rw [sp_append, sp_cons nb.1.1 nb.1.2, sp_cons nb.2.1.1 nb.2.1.2]
  rw [eS] at c1
  obtain ⟨P', c, rfl, hc1, hc2⟩ := hP
  have hl0 : (P' ++ [c]).getLast? ≠ some '(' := by simp [hc1]
  have hl1 : (sp (P' ++ [c])).getLast? ≠ some '(' := by
    rw [sp_append]
    by_cases hc3 : c = '}'
    · subst hc3
      have : sp ['}'] = [')'] := by decide
      rw [this]; simp
    · rw [sp_cons hc2 hc3]
      have : sp [] = [] := rfl
      rw [this]; simp [hc1]
  have cU0 : chn okpS ((P' ++ [c]) ++ s1 :: s2 :: Q) = true := chn_sign_pair _ Q s1 s2 o hs hl0 c0
  have cU1 : chn okpS (sp ((P' ++ [c]) ++ s1 :: s2 :: Q)) = true := by rw [eU]; exact chn_sign_pair _ (sp Q) s1 s2 o hs hl1 c1
  have a1 : replace ((P' ++ [c]) ++ s1 :: s2 :: Q) [' '] [] = (P' ++ [c]) ++ s1 :: s2 :: Q := by
    apply replace_absent
    apply contains_single_false
    intro hm
    apply hsp
    simp only [List.mem_append, List.mem_cons] at hm ⊢
    rcases hm with hm | hm | hm | hm
    · exact Or.inl hm
    · exact absurd hm.symm nb.2.2.2.1
    · exact absurd hm.symm nb.2.2.2.2
    · exact Or.inr (Or.inr hm)
  have a2 : specialOpChar ((P' ++ [c]) ++ s1 :: s2 :: Q) = sp ((P' ++ [c]) ++ s1 :: s2 :: Q) :=
    special_flat okpS (by decide) (by decide) (by decide) (by decide) _ cU0 cU1
  have a3 : convertReflexOperator (sp ((P' ++ [c]) ++ s1 :: s2 :: Q)) = sp ((P' ++ [c]) ++ s1 :: s2 :: Q) :=
    convertReflex_id' okpS (by decide) cU1
  have b1 : replace ((P' ++ [c]) ++ o :: Q) [' '] [] = (P' ++ [c]) ++ o :: Q :=
    replace_absent _ _ _ (contains_single_false hsp)
  have c1' : chn okp (sp ((P' ++ [c]) ++ o :: Q)) = true := by rw [eS]; exact c1
  have b2 : specialOpChar ((P' ++ [c]) ++ o :: Q) = sp ((P' ++ [c]) ++ o :: Q) :=
    special_flat okp (by decide) (by decide) (by decide) (by decide) _ c0 c1'
  have b3 : convertReflexOperator (sp ((P' ++ [c]) ++ o :: Q)) = sp ((P' ++ [c]) ++ o :: Q) := convertReflex_id c1'
  simp only [rewr, a1, a2, a3, b1, b2, b3]
  rw [eS, eU, unaryOp_sign_pair (sp (P' ++ [c])) (sp Q) s1 s2 o hs hl1 c1 hfirst]

/-- **a sign after a binary sign**: if `P o Q` is the source string of a statement (`pre` is empty or `lhs=`), `o` being a
    binary `+` or `-` (the character before it is neither `(` nor `{`), then typing `P s1 s2 Q` with two signs whose product
    is `o` gives the same rewritten string -/
theorem preprocess_sign_pair (pre : Str) (hp : PreOK pre) (e : Sx) (h : SrcOK e) (P Q : Str) (s1 s2 o : Char)
    (hs : SignPair s1 s2 o) (hS : pre ++ src e = P ++ o :: Q)
    (hP : ∃ P' c, P = P' ++ [c] ∧ c ≠ '(' ∧ c ≠ '{') :
    preprocess (P ++ s1 :: s2 :: Q) = preprocess (pre ++ src e) := by
  have i0 := pr_inv (Or.inl rfl) (Or.inl rfl) (Or.inl rfl) e h
  have i1 := pr_inv (Or.inr rfl) (Or.inr rfl) (Or.inl rfl) e h
  have hr := rewr_src pre hp e h
  have hsp : ' ' ∉ pre ++ src e := by
    simp only [List.mem_append, not_or]
    exact ⟨hp.nosp, src_no_space e h⟩
  have nb : o ≠ '{' ∧ o ≠ '}' := by cases hs <;> decide
  have hfirst : ∃ c, (sp P).head? = some c ∧ c ≠ '-' ∧ c ≠ '+' := by
    obtain ⟨c, r, hcr, h1, h2⟩ := hp.first _ i1
    have e1 : sp (pre ++ src e) = c :: r := by rw [sp_pre_src pre hp e h]; exact hcr
    rw [hS, sp_append] at e1
    obtain ⟨P', d, rfl, _, _⟩ := hP
    have hne : sp (P' ++ [d]) ≠ [] := by
      rw [sp_append]
      intro hnil
      have := (List.append_eq_nil_iff.mp hnil).2
      by_cases hd1 : d = '{'
      · subst hd1; revert this; decide
      · by_cases hd2 : d = '}'
        · subst hd2; revert this; decide
        · rw [sp_cons hd1 hd2] at this; cases this
    refine ⟨c, ?_, h1, h2⟩
    have := congrArg List.head? e1
    rw [head?_append_ne hne] at this
    exact this
  have hd := rewr_sign_pair P Q s1 s2 o hs hP (hS ▸ hsp) (hS ▸ hp.chn _ i0)
    (hS ▸ (by rw [sp_pre_src pre hp e h]; exact hp.chn _ i1)) hfirst
  rw [← hS] at hd
  rw [hr] at hd
  rw [preprocess_of_rewr hd, preprocess_of_rewr hr]

variable {α : Type} [Scalar α]

theorem operate_sign_pair (tr : Tr α) (pre : Str) (hp : PreOK pre) (e : Sx) (h : SrcOK e) (P Q : Str) (s1 s2 o : Char)
    (hs : SignPair s1 s2 o) (hS : pre ++ src e = P ++ o :: Q)
    (hP : ∃ P' c, P = P' ++ [c] ∧ c ≠ '(' ∧ c ≠ '{') :
    operate tr (P ++ s1 :: s2 :: Q) = operate tr (pre ++ src e) :=
  operate_congr tr (preprocess_sign_pair pre hp e h P Q s1 s2 o hs hS hP)

/-- `a+-b` is `a-b`; `c=a--b*2` is `c=a+b*2` -/
example : (preprocess "a+-b".toList).toOption = some ("#output = a-b".toList, false) := by decide +kernel
example : (preprocess "c=a--b*2".toList).toOption = some ("c=a+b*2".toList, true) := by decide +kernel

end TV.Expr
