import TracklibVerif.Model.Filter
import Mathlib.Algebra.Order.Field.Basic
import Mathlib.Tactic.Ring
import Mathlib.Tactic.Linarith
import Mathlib.Tactic.FieldSimp
/-! Helper definitions (the specification side of C15) and lemmas about `Model/Filter.lean`. -/
set_option linter.unusedSectionVars false
namespace TV.Filter

/-! ## Specification: the window of an output index and its weighted mean -/
section spec
variable {α : Type}

/-- the sample `v[i - j + D]` when that index is inside the signal and the value is not NaN
(indices are natural numbers: `j ≤ i + D` says `i - j + D ≥ 0`) -/
def val? (v : List (Option α)) (D i j : Nat) : Option α :=
  if j ≤ i + D ∧ i + D - j < v.length then (v[i + D - j]?).join else none

/-- the window of output index `i`: the pairs `(k[j], v[i - j + D])` for the kernel positions `j`
(counted from `j0` for the head of `k`) whose sample is inside the signal and not NaN -/
def windowFrom (v : List (Option α)) (D i : Nat) (k : List α) (j0 : Nat) : List (α × α) :=
  (k.zipIdx j0).filterMap (fun p => (val? v D i p.2).map (fun x => (p.1, x)))

/-- the window of output index `i` for the kernel `k` with half width `D` -/
def window (v : List (Option α)) (k : List α) (D i : Nat) : List (α × α) := windowFrom v D i k 0

variable [Field α]
/-- `Σ weight · value` over a window -/
def wsum (W : List (α × α)) : α := (W.map (fun p => p.2 * p.1)).sum
/-- `Σ weight` over a window -/
def wtot (W : List (α × α)) : α := (W.map (fun p => p.1)).sum
/-- the renormalised weighted mean of a window -/
def wmean (W : List (α × α)) : α := wsum W / wtot W

/-- the output signal the property describes: at every index the renormalised weighted mean of its
window, except that the first and last `D` values are the inputs when boundaries are not filtered -/
def meanSignal (v : List (Option α)) (k : List α) (boundary : Bool) : List (Option α) :=
  (List.range v.length).map (fun i =>
    if boundary = false ∧ (i < k.length / 2 ∨ v.length - k.length / 2 ≤ i) then (v[i]?).join
    else some (wmean (window v k (k.length / 2) i)))
end spec

/-! ## The inner loop computes the two sums of the window -/
section loop
variable {α : Type}

theorem sample_eq [Add α] [Mul α] [Div α] [OfNat α 0] (v : List (Option α)) (D i j : Nat) :
    sample v D i j = val? v D i j := by
  unfold sample val?
  simp only
  by_cases h1 : j ≤ i + D
  · have e : ((i : Int) - (j : Int) + (D : Int)) = ((i + D - j : Nat) : Int) := by omega
    rw [e]
    by_cases h2 : i + D - j < v.length
    · have n1 : ¬ (((i + D - j : Nat) : Int) < 0) := by omega
      have n2 : ¬ (((i + D - j : Nat) : Int) ≥ (v.length : Int)) := by omega
      simp only [n1, n2, if_false, h1, h2, and_self, if_true, Int.toNat_natCast]
      rcases h : v[i + D - j]? with _ | _ | x <;> simp [Option.join]
    · have n1 : ¬ (((i + D - j : Nat) : Int) < 0) := by omega
      have n2 : (((i + D - j : Nat) : Int) ≥ (v.length : Int)) := by omega
      simp [n1, n2, h2]
  · have n1 : ((i : Int) - (j : Int) + (D : Int)) < 0 := by omega
    simp [n1, h1]

theorem windowFrom_nil (v : List (Option α)) (D i j : Nat) : windowFrom v D i [] j = [] := by
  simp [windowFrom]

theorem windowFrom_cons (v : List (Option α)) (D i j : Nat) (kj : α) (ks : List α) :
    windowFrom v D i (kj :: ks) j =
      match val? v D i j with
      | none => windowFrom v D i ks (j + 1)
      | some x => (kj, x) :: windowFrom v D i ks (j + 1) := by
  unfold windowFrom
  rw [List.zipIdx_cons, List.filterMap_cons]
  cases h : val? v D i j <;> simp

variable [Field α]

theorem wsum_nil : wsum ([] : List (α × α)) = 0 := by simp [wsum]
theorem wtot_nil : wtot ([] : List (α × α)) = 0 := by simp [wtot]
theorem wsum_cons (p : α × α) (W : List (α × α)) : wsum (p :: W) = p.2 * p.1 + wsum W := by simp [wsum]
theorem wtot_cons (p : α × α) (W : List (α × α)) : wtot (p :: W) = p.1 + wtot W := by simp [wtot]

/-- the loop over `j` adds the window's `Σ k·v` to `temp[i]` and its `Σ k` to `norm` -/
theorem inner_eq (v : List (Option α)) (D i : Nat) (ks : List α) (j : Nat) (t nm : α) :
    inner v D i ks j (t, nm) = (t + wsum (windowFrom v D i ks j), nm + wtot (windowFrom v D i ks j)) := by
  induction ks generalizing j t nm with
  | nil => simp [inner, windowFrom_nil, wsum_nil, wtot_nil]
  | cons kj ks ih =>
    unfold inner
    rw [sample_eq, windowFrom_cons]
    cases h : val? v D i j with
    | none => simp only [ih]
    | some x => simp only [ih, wsum_cons, wtot_cons]; rw [add_assoc, add_assoc]

theorem cells_eq (v : List (Option α)) (k : List α) (D : Nat) :
    cells v k D = (List.range v.length).map (fun i => (wsum (window v k D i), wtot (window v k D i))) := by
  unfold cells window
  apply List.map_congr_left
  intro i _
  rw [inner_eq]; simp
end loop

/-! ## `filterWindow` returns the signal of renormalised weighted means -/
section fw
variable {α : Type} [Field α]

theorem temp_getElem? (v : List (Option α)) (k : List α) (D i : Nat) (hi : i < v.length) :
    (((List.range v.length).map (fun i => (wsum (window v k D i), wtot (window v k D i)))).map
        (fun c => some (c.1 / c.2)))[i]? = some (some (wmean (window v k D i))) := by
  simp [hi, wmean]

theorem meanSignal_get (v : List (Option α)) (k : List α) (b : Bool) (i : Nat) (hi : i < v.length) :
    (meanSignal v k b)[i]? = some (if b = false ∧ (i < k.length / 2 ∨ v.length - k.length / 2 ≤ i) then (v[i]?).join
      else some (wmean (window v k (k.length / 2) i))) := by
  unfold meanSignal
  rw [List.getElem?_map, List.getElem?_range hi]
  rfl

variable [DecidableEq α]

/-- odd window, no window with a zero norm, and (when boundaries are copied) a signal at least as
long as the half window: `Filter.execute` returns `meanSignal`, whatever the number type of the weights -/
theorem filterWindowG_eq (v : List (Option α)) (k : List α) (boundary np : Bool)
    (hodd : k.length % 2 = 1)
    (hden : ∀ i, i < v.length → wtot (window v k (k.length / 2) i) ≠ 0)
    (hlen : boundary = false → k.length / 2 ≤ v.length) :
    filterWindowG v k boundary np = .ok (meanSignal v k boundary) := by
  unfold filterWindowG
  have h1 : ¬ (k.length % 2 == 0) = true := by simp [hodd]
  simp only [h1]
  rw [cells_eq]
  have hne : ∀ c ∈ (List.range v.length).map (fun i => (wsum (window v k (k.length / 2) i), wtot (window v k (k.length / 2) i))),
      (c.2 == 0) = false := by
    intro c hc
    rw [List.mem_map] at hc
    obtain ⟨i, hi, rfl⟩ := hc
    have := hden i (List.mem_range.mp hi)
    simpa using this
  have h2 : ((List.range v.length).map (fun i => (wsum (window v k (k.length / 2) i), wtot (window v k (k.length / 2) i)))).zipIdx.any
      (fun c => c.1.2 == 0 && (!np || !anySample v (k.length / 2) c.2 k 0)) = false := by
    rw [List.any_eq_false]
    intro c hc
    have hm : c.1 ∈ (List.range v.length).map (fun i => (wsum (window v k (k.length / 2) i), wtot (window v k (k.length / 2) i))) := by
      have := List.mem_zipIdx_iff_getElem?.mp (show (c.1, c.2) ∈ _ from hc)
      exact List.mem_of_getElem? this
    rw [hne c.1 hm]
    simp
  have h3 : ((List.range v.length).map (fun i => (wsum (window v k (k.length / 2) i), wtot (window v k (k.length / 2) i)))).map
      (fun c => if c.2 == 0 then none else some (c.1 / c.2)) =
      ((List.range v.length).map (fun i => (wsum (window v k (k.length / 2) i), wtot (window v k (k.length / 2) i)))).map
      (fun c => some (c.1 / c.2)) := by
    apply List.map_congr_left
    intro c hc
    rw [hne c hc]
    simp
  simp only [h2, h3, Bool.false_eq_true, if_false]
  cases boundary with
  | true =>
    simp only [if_true]
    congr 1
    unfold meanSignal
    simp [wmean]
  | false =>
    have h3 : ¬ v.length < k.length / 2 := by have := hlen rfl; omega
    simp only [Bool.false_eq_true, if_false, h3]
    congr 1
    unfold meanSignal copyBoundary
    apply List.map_congr_left
    intro i hi
    have hi := List.mem_range.mp hi
    by_cases hb : i < k.length / 2 ∨ v.length - k.length / 2 ≤ i
    · have hb' : false = false ∧ (i < k.length / 2 ∨ v.length - k.length / 2 ≤ i) := ⟨rfl, hb⟩
      rw [if_pos hb, if_pos hb']
    · have hb' : ¬ (false = false ∧ (i < k.length / 2 ∨ v.length - k.length / 2 ≤ i)) := fun h => hb h.2
      rw [if_neg hb, if_neg hb', temp_getElem? v k _ i hi]
      rfl

theorem filterWindow_eq (v : List (Option α)) (k : List α) (boundary : Bool)
    (hodd : k.length % 2 = 1)
    (hden : ∀ i, i < v.length → wtot (window v k (k.length / 2) i) ≠ 0)
    (hlen : boundary = false → k.length / 2 ≤ v.length) :
    filterWindow v k boundary = .ok (meanSignal v k boundary) :=
  filterWindowG_eq v k boundary false hodd hden hlen
end fw

/-! ## What is in a window -/
section members
variable {α : Type}

theorem mem_window (v : List (Option α)) (k : List α) (D i : Nat) (p : α × α) :
    p ∈ window v k D i ↔ ∃ j, k[j]? = some p.1 ∧ val? v D i j = some p.2 := by
  unfold window windowFrom
  rw [List.mem_filterMap]
  constructor
  · rintro ⟨⟨w, j⟩, hm, h⟩
    rw [List.mem_zipIdx_iff_getElem?] at hm
    cases hv : val? v D i j with
    | none => simp [hv] at h
    | some x =>
      simp only [hv, Option.map_some, Option.some.injEq] at h
      subst h
      exact ⟨j, hm, hv⟩
  · rintro ⟨j, hk, hv⟩
    refine ⟨(p.1, j), ?_, ?_⟩
    · rw [List.mem_zipIdx_iff_getElem?]; exact hk
    · simp [hv]

/-- every weight of a window is a weight of the kernel -/
theorem window_weight_mem {v : List (Option α)} {k : List α} {D i : Nat} {p : α × α}
    (h : p ∈ window v k D i) : p.1 ∈ k := by
  obtain ⟨j, hk, _⟩ := (mem_window v k D i p).mp h
  exact List.mem_of_getElem? hk

/-- every value of a window is a non-NaN sample of the signal at distance at most `D` from `i` -/
theorem window_value_mem {v : List (Option α)} {k : List α} {i : Nat} {p : α × α}
    (h : p ∈ window v k (k.length / 2) i) :
    ∃ m, m < v.length ∧ i ≤ m + k.length / 2 ∧ m ≤ i + k.length / 2 ∧ v[m]? = some (some p.2) := by
  obtain ⟨j, hk, hv⟩ := (mem_window v k _ i p).mp h
  have hj : j < k.length := by
    rcases Nat.lt_or_ge j k.length with h | h
    · exact h
    · rw [List.getElem?_eq_none h] at hk; simp at hk
  unfold val? at hv
  split at hv
  · rename_i hc
    obtain ⟨hc1, hc2⟩ := hc
    refine ⟨i + k.length / 2 - j, hc2, by omega, by omega, ?_⟩
    rcases hx : v[i + k.length / 2 - j]? with _ | _ | x <;> simp [hx, Option.join] at hv ⊢
    exact hv
  · simp at hv

/-- the centre sample, when it is not NaN, is in the window with the centre weight -/
theorem centre_mem_window (v : List (Option α)) (k : List α) (i : Nat) (x w : α)
    (hx : v[i]? = some (some x)) (hw : k[k.length / 2]? = some w) :
    (w, x) ∈ window v k (k.length / 2) i := by
  rw [mem_window]
  refine ⟨k.length / 2, hw, ?_⟩
  have hi : i < v.length := by
    rcases Nat.lt_or_ge i v.length with h | h
    · exact h
    · rw [List.getElem?_eq_none h] at hx; simp at hx
  unfold val?
  have e : i + k.length / 2 - k.length / 2 = i := by omega
  rw [e, if_pos ⟨by omega, hi⟩, hx]; rfl
end members

/-! ## Weighted means -/
section mean
variable {α : Type} [Field α]

theorem wsum_const (W : List (α × α)) (c : α) (hc : ∀ p ∈ W, p.2 = c) : wsum W = c * wtot W := by
  induction W with
  | nil => simp [wsum_nil, wtot_nil]
  | cons p W ih =>
    rw [wsum_cons, wtot_cons, ih (fun q hq => hc q (List.mem_cons_of_mem _ hq)), hc p List.mem_cons_self]
    ring

theorem wmean_const (W : List (α × α)) (c : α) (hne : wtot W ≠ 0) (hc : ∀ p ∈ W, p.2 = c) :
    wmean W = c := by
  unfold wmean
  rw [wsum_const W c hc]
  field_simp

theorem wsum_scale (W : List (α × α)) (a : α) :
    wsum (W.map (fun p => (p.1 / a, p.2))) = wsum W / a := by
  induction W with
  | nil => simp [wsum_nil]
  | cons p W ih => rw [List.map_cons, wsum_cons, wsum_cons, ih]; ring

theorem wtot_scale (W : List (α × α)) (a : α) :
    wtot (W.map (fun p => (p.1 / a, p.2))) = wtot W / a := by
  induction W with
  | nil => simp [wtot_nil]
  | cons p W ih => rw [List.map_cons, wtot_cons, wtot_cons, ih]; ring

/-- dividing every weight by the same non-zero number does not change the mean -/
theorem wmean_scale (W : List (α × α)) (a : α) (ha : a ≠ 0) :
    wmean (W.map (fun p => (p.1 / a, p.2))) = wmean W := by
  unfold wmean
  rw [wsum_scale, wtot_scale]
  by_cases h0 : wtot W = 0
  · simp [h0]
  · field_simp

variable [LinearOrder α] [IsStrictOrderedRing α]

theorem wsum_lower (W : List (α × α)) (lo : α) (hw : ∀ p ∈ W, 0 ≤ p.1) (hlo : ∀ p ∈ W, lo ≤ p.2) :
    lo * wtot W ≤ wsum W := by
  induction W with
  | nil => simp [wsum_nil, wtot_nil]
  | cons p W ih =>
    rw [wsum_cons, wtot_cons]
    have h1 := ih (fun q hq => hw q (List.mem_cons_of_mem _ hq)) (fun q hq => hlo q (List.mem_cons_of_mem _ hq))
    have h2 : lo * p.1 ≤ p.2 * p.1 := mul_le_mul_of_nonneg_right (hlo p List.mem_cons_self) (hw p List.mem_cons_self)
    linarith

theorem wsum_upper (W : List (α × α)) (hi : α) (hw : ∀ p ∈ W, 0 ≤ p.1) (hhi : ∀ p ∈ W, p.2 ≤ hi) :
    wsum W ≤ hi * wtot W := by
  induction W with
  | nil => simp [wsum_nil, wtot_nil]
  | cons p W ih =>
    rw [wsum_cons, wtot_cons]
    have h1 := ih (fun q hq => hw q (List.mem_cons_of_mem _ hq)) (fun q hq => hhi q (List.mem_cons_of_mem _ hq))
    have h2 : p.2 * p.1 ≤ hi * p.1 := mul_le_mul_of_nonneg_right (hhi p List.mem_cons_self) (hw p List.mem_cons_self)
    linarith

theorem wmean_bounds (W : List (α × α)) (lo hi : α) (hw : ∀ p ∈ W, 0 ≤ p.1) (hpos : 0 < wtot W)
    (hlo : ∀ p ∈ W, lo ≤ p.2) (hhi : ∀ p ∈ W, p.2 ≤ hi) : lo ≤ wmean W ∧ wmean W ≤ hi := by
  unfold wmean
  exact ⟨(le_div_iff₀ hpos).mpr (wsum_lower W lo hw hlo), (div_le_iff₀ hpos).mpr (wsum_upper W hi hw hhi)⟩

theorem wtot_nonneg (W : List (α × α)) (hw : ∀ p ∈ W, 0 ≤ p.1) : 0 ≤ wtot W := by
  induction W with
  | nil => simp [wtot_nil]
  | cons p W ih =>
    rw [wtot_cons]
    have := ih (fun q hq => hw q (List.mem_cons_of_mem _ hq))
    have := hw p List.mem_cons_self
    linarith

/-- a member with a positive weight makes the norm positive -/
theorem wtot_pos_of_mem (W : List (α × α)) (hw : ∀ p ∈ W, 0 ≤ p.1) (q : α × α) (hq : q ∈ W) (hq0 : 0 < q.1) :
    0 < wtot W := by
  induction W with
  | nil => simp at hq
  | cons p W ih =>
    rw [wtot_cons]
    have hp := hw p List.mem_cons_self
    have hW := wtot_nonneg W (fun r hr => hw r (List.mem_cons_of_mem _ hr))
    rcases List.mem_cons.mp hq with rfl | h
    · linarith
    · have := ih (fun r hr => hw r (List.mem_cons_of_mem _ hr)) h
      linarith

theorem wsum_strict_lower (W : List (α × α)) (y : α) (hw : ∀ p ∈ W, 0 ≤ p.1) (hpos : 0 < wtot W)
    (h : ∀ p ∈ W, y < p.2) : y * wtot W < wsum W := by
  induction W with
  | nil => simp [wtot_nil] at hpos
  | cons p W ih =>
    rw [wsum_cons, wtot_cons] at *
    have hwW : ∀ q ∈ W, 0 ≤ q.1 := fun q hq => hw q (List.mem_cons_of_mem _ hq)
    have hW : ∀ q ∈ W, y < q.2 := fun q hq => h q (List.mem_cons_of_mem _ hq)
    have hp0 := hw p List.mem_cons_self
    have hpy := h p List.mem_cons_self
    rcases lt_or_eq_of_le (wtot_nonneg W hwW) with h0 | h0
    · have := ih hwW h0 hW
      have : y * p.1 ≤ p.2 * p.1 := mul_le_mul_of_nonneg_right (le_of_lt hpy) hp0
      linarith
    · have hp1 : 0 < p.1 := by linarith
      have : y * p.1 < p.2 * p.1 := mul_lt_mul_of_pos_right hpy hp1
      have := wsum_lower W y hwW (fun q hq => le_of_lt (hW q hq))
      linarith

theorem wsum_strict_upper (W : List (α × α)) (y : α) (hw : ∀ p ∈ W, 0 ≤ p.1) (hpos : 0 < wtot W)
    (h : ∀ p ∈ W, p.2 < y) : wsum W < y * wtot W := by
  induction W with
  | nil => simp [wtot_nil] at hpos
  | cons p W ih =>
    rw [wsum_cons, wtot_cons] at *
    have hwW : ∀ q ∈ W, 0 ≤ q.1 := fun q hq => hw q (List.mem_cons_of_mem _ hq)
    have hW : ∀ q ∈ W, q.2 < y := fun q hq => h q (List.mem_cons_of_mem _ hq)
    have hp0 := hw p List.mem_cons_self
    have hpy := h p List.mem_cons_self
    rcases lt_or_eq_of_le (wtot_nonneg W hwW) with h0 | h0
    · have := ih hwW h0 hW
      have : p.2 * p.1 ≤ y * p.1 := mul_le_mul_of_nonneg_right (le_of_lt hpy) hp0
      linarith
    · have hp1 : 0 < p.1 := by linarith
      have : p.2 * p.1 < y * p.1 := mul_lt_mul_of_pos_right hpy hp1
      have := wsum_upper W y hwW (fun q hq => le_of_lt (hW q hq))
      linarith

theorem wmean_lt_of_all_gt (W : List (α × α)) {y : α} (hw : ∀ p ∈ W, 0 ≤ p.1) (hpos : 0 < wtot W)
    (h : ∀ p ∈ W, y < p.2) : y < wmean W := by
  unfold wmean
  exact (lt_div_iff₀ hpos).mpr (wsum_strict_lower W y hw hpos h)

theorem wmean_gt_of_all_lt (W : List (α × α)) {y : α} (hw : ∀ p ∈ W, 0 ≤ p.1) (hpos : 0 < wtot W)
    (h : ∀ p ∈ W, p.2 < y) : wmean W < y := by
  unfold wmean
  exact (div_lt_iff₀ hpos).mpr (wsum_strict_upper W y hw hpos h)
end mean

end TV.Filter

namespace TV.Filter
/-! ## Sufficient conditions for a positive norm; kernel normalisation -/
section norm
variable {α : Type}

/-- a non-NaN sample at distance at most `D` of `i` is in the window of `i` (odd kernel) -/
theorem mem_window_of_sample (v : List (Option α)) (k : List α) (i m : Nat) (x : α)
    (hodd : k.length % 2 = 1) (h1 : i ≤ m + k.length / 2) (h2 : m ≤ i + k.length / 2)
    (hv : v[m]? = some (some x)) :
    ∃ w, k[i + k.length / 2 - m]? = some w ∧ (w, x) ∈ window v k (k.length / 2) i := by
  have hm : m < v.length := by
    rcases Nat.lt_or_ge m v.length with h | h
    · exact h
    · rw [List.getElem?_eq_none h] at hv; simp at hv
  have hj : i + k.length / 2 - m < k.length := by omega
  refine ⟨k[i + k.length / 2 - m], List.getElem?_eq_getElem hj, ?_⟩
  rw [mem_window]
  refine ⟨i + k.length / 2 - m, List.getElem?_eq_getElem hj, ?_⟩
  unfold val?
  have e : i + k.length / 2 - (i + k.length / 2 - m) = m := by omega
  rw [e, if_pos ⟨by omega, hm⟩, hv]; rfl

theorem windowFrom_map (v : List (Option α)) (D i : Nat) (g : α → α) (k : List α) (j : Nat) :
    windowFrom v D i (k.map g) j = (windowFrom v D i k j).map (fun p => (g p.1, p.2)) := by
  induction k generalizing j with
  | nil => simp [windowFrom_nil]
  | cons a k ih =>
    rw [List.map_cons, windowFrom_cons, windowFrom_cons]
    cases h : val? v D i j with
    | none => simp only [ih]
    | some x => simp only [ih, List.map_cons]

theorem window_map (v : List (Option α)) (D i : Nat) (g : α → α) (k : List α) :
    window v (k.map g) D i = (window v k D i).map (fun p => (g p.1, p.2)) := windowFrom_map v D i g k 0

variable [Field α]

theorem foldl_add (k : List α) (a : α) : k.foldl (· + ·) a = a + k.sum := by
  induction k generalizing a with
  | nil => simp
  | cons x k ih => rw [List.foldl_cons, ih, List.sum_cons, add_assoc]

theorem normalise_eq (k : List α) : normalise k = k.map (· / k.sum) := by
  unfold normalise
  simp only [foldl_add, zero_add]

theorem sum_map_div (k : List α) (a : α) : (k.map (· / a)).sum = k.sum / a := by
  induction k with
  | nil => simp
  | cons x k ih => rw [List.map_cons, List.sum_cons, List.sum_cons, ih]; ring

theorem normalise_sum (k : List α) (hs : k.sum ≠ 0) : (normalise k).sum = 1 := by
  rw [normalise_eq, sum_map_div, div_self hs]

/-- normalising a normalised list leaves it unchanged (the list is the same Python object for the
three coordinates in `filter_seq`) -/
theorem normalise_idem (k : List α) (hs : k.sum ≠ 0) : normalise (normalise k) = normalise k := by
  conv_lhs => rw [normalise_eq, normalise_sum k hs]
  simp

/-- the mean signal does not depend on the scale of the weights -/
theorem meanSignal_normalise (v : List (Option α)) (k : List α) (b : Bool) (hs : k.sum ≠ 0) :
    meanSignal v (normalise k) b = meanSignal v k b := by
  unfold meanSignal
  rw [normalise_eq, List.length_map]
  apply List.map_congr_left
  intro i _
  rw [window_map, wmean_scale _ _ hs]

theorem wtot_window_normalise (v : List (Option α)) (k : List α) (i : Nat) :
    wtot (window v (normalise k) (k.length / 2) i) = wtot (window v k (k.length / 2) i) / k.sum := by
  rw [normalise_eq, window_map, wtot_scale]

variable [LinearOrder α] [IsStrictOrderedRing α]

/-- positive weights and a non-NaN sample at distance at most `D` give a positive norm -/
theorem norm_pos_of_sample (v : List (Option α)) (k : List α) (i m : Nat) (x : α)
    (hodd : k.length % 2 = 1) (hpos : ∀ w ∈ k, 0 < w) (h1 : i ≤ m + k.length / 2) (h2 : m ≤ i + k.length / 2)
    (hv : v[m]? = some (some x)) : 0 < wtot (window v k (k.length / 2) i) := by
  obtain ⟨w, hw, hmem⟩ := mem_window_of_sample v k i m x hodd h1 h2 hv
  exact wtot_pos_of_mem _ (fun p hp => le_of_lt (hpos _ (window_weight_mem hp))) (w, x) hmem
    (hpos w (List.mem_of_getElem? hw))
end norm
end TV.Filter

namespace TV.Filter
/-! ## `execute` on a weight list and on a Kernel object -/
section exec
variable {α : Type} [Field α] [LinearOrder α] [IsStrictOrderedRing α]

theorem normalise_length (k : List α) : (normalise k).length = k.length := by
  rw [normalise_eq, List.length_map]

/-- `Filter.execute` with a weight list: the list is left normalised and the output is the mean
signal of the caller's (un-normalised) weights -/
theorem execute_list_eq (v : List (Option α)) (k : List α) (hodd : k.length % 2 = 1)
    (hden : ∀ i, i < v.length → wtot (window v k (k.length / 2) i) ≠ 0)
    (hlen : k.length / 2 ≤ v.length) (hs : k.sum ≠ 0) :
    execute v (.list k) = .ok (some (normalise k), meanSignal v k false) := by
  unfold execute prepare
  have h := filterWindowG_eq v (normalise k) false true (by rw [normalise_length]; exact hodd)
    (by
      intro i hi
      rw [normalise_length, wtot_window_normalise]
      exact div_ne_zero (hden i hi) hs)
    (by intro _; rw [normalise_length]; exact hlen)
  simp only [h, meanSignal_normalise v k false hs]

theorem execute_obj_eq (v : List (Option α)) (b : Bool) (f : α → α) (support : α) (S : Nat) (w : List α)
    (out : List (Option α)) (hw : slidingWindow f support S = .ok w) (hout : filterWindow v w b = .ok out) :
    execute v (.obj false b f support S) = .ok (none, out) := by
  unfold filterWindow at hout
  unfold execute prepare
  simp [hw, hout]

theorem execute_dirac_eq (v : List (Option α)) (b : Bool) (f : α → α) (support : α) (S : Nat)
    (out : List (Option α)) (hout : filterWindow v [0, 1, 0] b = .ok out) :
    execute v (.obj true b f support S) = .ok (none, out) := by
  unfold filterWindow at hout
  unfold execute prepare
  simp [hout]
end exec
end TV.Filter

namespace TV.Filter
/-! ## `toSlidingWindow` -/
section sliding
variable {α : Type} [Field α] [LinearOrder α] [IsStrictOrderedRing α]

/-- the sample points are the integers `S, S-1, …, -S` -/
theorem samplePoint_eq (S i : Nat) : (samplePoint (2 * S + 1) i : α) = (S : α) - (i : α) := by
  unfold samplePoint
  push_cast
  ring

theorem absv_neg (x : α) : absv (-x) = absv x := by
  unfold absv
  rcases lt_trichotomy x 0 with h | h | h
  · have : ¬ (-x < 0) := by linarith
    simp [h, this]
  · simp [h]
  · have h1 : -x < 0 := by linarith
    have h2 : ¬ x < 0 := by linarith
    simp [h1, h2]

theorem absv_eq_abs (x : α) : absv x = |x| := by
  unfold absv
  split
  · rename_i h; rw [abs_of_neg h]
  · rename_i h; rw [abs_of_nonneg (le_of_not_gt h)]

theorem evaluate_neg (f : α → α) (support x : α) (heven : ∀ y, f (-y) = f y) :
    evaluate f support (-x) = evaluate f support x := by
  unfold evaluate
  rw [heven, absv_neg]

/-- the raw (un-normalised) values of the sliding window -/
def rawWindow (f : α → α) (support : α) (S : Nat) : List α :=
  (List.range (2 * S + 1)).map (fun (i : Nat) => evaluate f support ((S : α) - (i : α)))

theorem slidingWindow_eq (f : α → α) (support : α) (S : Nat) (hs : ¬ support < 1)
    (hsum : (rawWindow f support S).sum ≠ 0) :
    slidingWindow f support S = .ok ((rawWindow f support S).map (· / (rawWindow f support S).sum)) := by
  unfold rawWindow at hsum
  unfold slidingWindow rawWindow
  simp only [hs, if_false, samplePoint_eq, foldl_add, zero_add]
  rw [if_neg (by simpa using hsum)]

/-- the sampled values sum to zero: `values[i] /= norm` divides by zero -/
theorem slidingWindow_zero_sum (f : α → α) (support : α) (S : Nat) (hs : ¬ support < 1)
    (hsum : (rawWindow f support S).sum = 0) :
    slidingWindow f support S = .error .zeroDiv := by
  unfold rawWindow at hsum
  unfold slidingWindow
  simp only [hs, if_false, samplePoint_eq, foldl_add, zero_add]
  rw [if_pos (by simpa using hsum)]

theorem rawWindow_length (f : α → α) (support : α) (S : Nat) : (rawWindow f support S).length = 2 * S + 1 := by
  simp [rawWindow]

theorem rawWindow_get (f : α → α) (support : α) (S i : Nat) (hi : i ≤ 2 * S) :
    (rawWindow f support S)[i]? = some (evaluate f support ((S : α) - (i : α))) := by
  unfold rawWindow
  rw [List.getElem?_map, List.getElem?_range (by omega)]
  rfl

theorem rawWindow_symm (f : α → α) (support : α) (S i : Nat) (hi : i ≤ 2 * S) (heven : ∀ y, f (-y) = f y) :
    (rawWindow f support S)[2 * S - i]? = (rawWindow f support S)[i]? := by
  rw [rawWindow_get f support S i hi, rawWindow_get f support S (2 * S - i) (by omega)]
  have e : ((S : α) - ((2 * S - i : Nat) : α)) = -((S : α) - (i : α)) := by
    rw [Nat.cast_sub hi]; push_cast; ring
  rw [e, evaluate_neg f support _ heven]
end sliding
end TV.Filter

namespace TV.Filter
section builtin
variable {α : Type} [Field α] [LinearOrder α] [IsStrictOrderedRing α]

theorem ind_nonneg (p : Prop) [Decidable p] : (0 : α) ≤ ind p := by
  unfold ind; split <;> simp

theorem absv_nonneg (x : α) : 0 ≤ absv x := by rw [absv_eq_abs]; exact abs_nonneg x

theorem evaluate_zero (f : α → α) (support : α) (hs : ¬ support < 1) : evaluate f support 0 = f 0 := by
  unfold evaluate ind absv
  have : (0 : α) ≤ support := by have := le_of_not_gt hs; linarith
  simp [this]

theorem sum_nonneg' (l : List α) (h : ∀ x ∈ l, 0 ≤ x) : 0 ≤ l.sum := by
  induction l with
  | nil => simp
  | cons a l ih =>
    rw [List.sum_cons]
    have := h a List.mem_cons_self
    have := ih (fun x hx => h x (List.mem_cons_of_mem _ hx))
    linarith

theorem sum_pos_of_mem (l : List α) (h : ∀ x ∈ l, 0 ≤ x) (a : α) (ha : a ∈ l) (hpos : 0 < a) : 0 < l.sum := by
  induction l with
  | nil => simp at ha
  | cons b l ih =>
    rw [List.sum_cons]
    have hb := h b List.mem_cons_self
    have hl := sum_nonneg' l (fun x hx => h x (List.mem_cons_of_mem _ hx))
    rcases List.mem_cons.mp ha with rfl | h'
    · linarith
    · have := ih (fun x hx => h x (List.mem_cons_of_mem _ hx)) h'
      linarith

theorem rawWindow_nonneg (f : α → α) (support : α) (S : Nat)
    (hf : ∀ i : Nat, i ≤ 2 * S → 0 ≤ f ((S : α) - (i : α))) : ∀ x ∈ rawWindow f support S, 0 ≤ x := by
  intro x hx
  unfold rawWindow at hx
  rw [List.mem_map] at hx
  obtain ⟨i, hi, rfl⟩ := hx
  have hi := List.mem_range.mp hi
  unfold evaluate
  exact mul_nonneg (hf i (by omega)) (ind_nonneg _)

theorem rawWindow_sum_pos (f : α → α) (support : α) (S : Nat) (hs : ¬ support < 1)
    (hf : ∀ i : Nat, i ≤ 2 * S → 0 ≤ f ((S : α) - (i : α))) (hc : 0 < f 0) : 0 < (rawWindow f support S).sum := by
  apply sum_pos_of_mem _ (rawWindow_nonneg f support S hf) (f 0) _ hc
  have h := rawWindow_get f support S S (by omega)
  rw [sub_self, evaluate_zero f support hs] at h
  exact List.mem_of_getElem? h

/-! the three kernel functions written out in `kernel.py` -/
theorem two_cast : ((2 : Nat) : α) = 2 := by norm_num
theorem uniformF_even (size y : α) : uniformF size (-y) = uniformF size y := by
  unfold uniformF; rw [absv_neg]
theorem uniformF_nonneg (size x : α) (h : 0 < size) : 0 ≤ uniformF size x := by
  unfold uniformF
  apply div_nonneg
  · exact mul_nonneg zero_le_one (ind_nonneg _)
  · rw [two_cast]; linarith
theorem uniformF_zero_pos (size : α) (h : 0 < size) : 0 < uniformF size 0 := by
  unfold uniformF ind absv
  have : (0 : α) ≤ size := le_of_lt h
  simp only [lt_self_iff_false, if_false, this, if_true, mul_one, two_cast]
  positivity

theorem triangularF_even (size y : α) : triangularF size (-y) = triangularF size y := by
  unfold triangularF; rw [absv_neg]
theorem triangularF_nonneg (size x : α) (h : 0 < size) : 0 ≤ triangularF size x := by
  unfold triangularF ind
  apply div_nonneg
  · split
    · rename_i hle; rw [mul_one]; linarith
    · simp
  · positivity
theorem triangularF_zero_pos (size : α) (h : 0 < size) : 0 < triangularF size 0 := by
  unfold triangularF ind absv
  have : (0 : α) ≤ size := le_of_lt h
  simp only [lt_self_iff_false, if_false, this, if_true, mul_one, sub_zero]
  positivity

theorem epanechnikovF_even (size y : α) : epanechnikovF size (-y) = epanechnikovF size y := by
  unfold epanechnikovF; rw [absv_neg]; ring_nf
theorem epanechnikovF_nonneg (size x : α) (h : 0 < size) : 0 ≤ epanechnikovF size x := by
  unfold epanechnikovF ind
  apply div_nonneg _ (le_of_lt h)
  split
  · rename_i hle
    rw [mul_one]
    apply mul_nonneg
    · have : ((3 : Nat) : α) = 3 := by norm_num
      have : ((4 : Nat) : α) = 4 := by norm_num
      simp only [*]; norm_num
    · rw [absv_eq_abs] at hle
      have h1 : x / size * (x / size) = (|x| * |x|) / (size * size) := by
        rw [abs_mul_abs_self]; field_simp
      have h2 : |x| * |x| ≤ size * size := mul_le_mul hle hle (abs_nonneg x) (le_of_lt h)
      have h3 : (|x| * |x|) / (size * size) ≤ 1 := by
        rw [div_le_one (by positivity)]; exact h2
      rw [h1]; linarith
  · simp
theorem epanechnikovF_zero_pos (size : α) (h : 0 < size) : 0 < epanechnikovF size 0 := by
  unfold epanechnikovF ind absv
  have : (0 : α) ≤ size := le_of_lt h
  have e3 : ((3 : Nat) : α) = 3 := by norm_num
  have e4 : ((4 : Nat) : α) = 4 := by norm_num
  simp only [lt_self_iff_false, if_false, this, if_true, mul_one, zero_div, mul_zero, sub_zero, e3, e4]
  positivity
end builtin
end TV.Filter

namespace TV.Filter
/-! ## `filter_seq`: named signals and the loop over the dimensions -/
section seq
variable {α : Type}

theorem getSig_nil (m : String) : getSig ([] : Sigs α) m = none := by simp [getSig]

theorem getSig_cons (p : String × List (Option α)) (t : Sigs α) (m : String) :
    getSig (p :: t) m = if p.1 = m then some p.2 else getSig t m := by
  unfold getSig
  rw [List.find?_cons]
  by_cases h : p.1 = m
  · simp [h]
  · have : (p.1 == m) = false := by simpa using h
    simp [this, h]

theorem getSig_none_of_not_any (t : Sigs α) (n : String) (h : t.any (·.1 == n) = false) : getSig t n = none := by
  induction t with
  | nil => exact getSig_nil n
  | cons p t ih =>
    rw [List.any_cons, Bool.or_eq_false_iff] at h
    rw [getSig_cons, if_neg (by simpa using h.1), ih h.2]

theorem getSig_map_set (t : Sigs α) (n m : String) (s : List (Option α)) :
    getSig (t.map (fun p => if p.1 == n then (n, s) else p)) m =
      if m = n then (if t.any (·.1 == n) then some s else none) else getSig t m := by
  induction t with
  | nil => simp [getSig_nil]
  | cons p t ih =>
    rw [List.map_cons, getSig_cons, ih, List.any_cons, getSig_cons]
    by_cases hp : p.1 = n
    · by_cases hm : m = n
      · subst hm; simp [hp]
      · have : ¬ n = m := fun h => hm h.symm
        simp [hp, hm, this]
    · have hp' : (p.1 == n) = false := by simpa using hp
      by_cases hm : m = n
      · subst hm; rw [hp', Bool.false_or]; simp [hp]
      · simp [hp', hm]

theorem getSig_append_single (t : Sigs α) (n m : String) (s : List (Option α)) :
    getSig (t ++ [(n, s)]) m = match getSig t m with
      | some x => some x
      | none => if n = m then some s else none := by
  induction t with
  | nil => simp [getSig_nil, getSig_cons]
  | cons p t ih =>
    rw [List.cons_append, getSig_cons, getSig_cons, ih]
    by_cases hp : p.1 = m <;> simp [hp]

theorem getSig_setSig_same (t : Sigs α) (n : String) (s : List (Option α)) :
    getSig (setSig t n s) n = some s := by
  unfold setSig
  cases h : t.any (·.1 == n) with
  | true => simp only [if_true]; rw [getSig_map_set]; simp [h]
  | false =>
    simp only [Bool.false_eq_true, if_false]
    rw [getSig_append_single, getSig_none_of_not_any t n h]; simp

theorem getSig_setSig_other (t : Sigs α) (n m : String) (s : List (Option α)) (hne : m ≠ n) :
    getSig (setSig t n s) m = getSig t m := by
  unfold setSig
  cases h : t.any (·.1 == n) with
  | true => simp only [if_true]; rw [getSig_map_set]; simp [hne]
  | false =>
    simp only [Bool.false_eq_true, if_false]
    rw [getSig_append_single]
    have : ¬ n = m := fun h => hne h.symm
    cases getSig t m <;> simp [this]
end seq

section seq2
variable {α : Type} [Field α] [LinearOrder α] [IsStrictOrderedRing α]

/-- a call on `v` returns `F v` and leaves the `kernel` argument as it was -/
def StableOn (kern : KArg α) (F : List (Option α) → List (Option α)) (v : List (Option α)) : Prop :=
  ∃ k', execute v kern = .ok (k', F v) ∧ nextKernel kern k' = kern

/-- one turn of the loop `for af in dim` -/
def stepSig (t : Sigs α) (af : String) (out : List (Option α)) : Sigs α :=
  if af = "x" ∨ af = "y" ∨ af = "z" then setSig (setSig t "temp" out) af out else setSig t af out

theorem getSig_stepSig_same (t : Sigs α) (af : String) (out : List (Option α)) :
    getSig (stepSig t af out) af = some out := by
  unfold stepSig; split <;> exact getSig_setSig_same _ _ _

theorem getSig_stepSig_other (t : Sigs α) (af m : String) (out : List (Option α)) (h1 : m ≠ af) (h2 : m ≠ "temp") :
    getSig (stepSig t af out) m = getSig t m := by
  unfold stepSig; split
  · rw [getSig_setSig_other _ _ _ _ h1, getSig_setSig_other _ _ _ _ h2]
  · rw [getSig_setSig_other _ _ _ _ h1]

theorem trackSize_stepSig (t : Sigs α) (af : String) (v out : List (Option α)) (hv : getSig t af = some v)
    (hlen : out.length = v.length) (htemp : af ≠ "temp") : trackSize (stepSig t af out) = trackSize t := by
  unfold trackSize
  by_cases h : af = "x"
  · subst h
    rw [getSig_stepSig_same, hv]
    exact hlen
  · rw [getSig_stepSig_other _ _ _ _ (fun e => h e.symm) (by decide)]

/-! `createAnalyticalFeature` -/
theorem any_of_getSig (t : Sigs α) (n : String) (v : List (Option α)) (h : getSig t n = some v) :
    t.any (·.1 == n) = true := by
  rcases hb : t.any (·.1 == n) with _ | _
  · rw [getSig_none_of_not_any t n hb] at h; simp at h
  · rfl

theorem createAF_of_getSig (t : Sigs α) (n : String) (v : List (Option α)) (h : getSig t n = some v) :
    createAF t n = t := by
  unfold createAF
  rw [any_of_getSig t n v h]; rfl

theorem getSig_createAF_other (t : Sigs α) (n m : String) (hne : m ≠ n) :
    getSig (createAF t n) m = getSig t m := by
  unfold createAF
  split
  · rfl
  · rw [getSig_append_single]
    have : ¬ n = m := fun h => hne h.symm
    cases getSig t m <;> simp [this]

theorem map_set_of_not_any (t : Sigs α) (n : String) (s : List (Option α)) (h : t.any (·.1 == n) = false) :
    t.map (fun p => if p.1 == n then (n, s) else p) = t := by
  induction t with
  | nil => rfl
  | cons p t ih =>
    rw [List.any_cons, Bool.or_eq_false_iff] at h
    rw [List.map_cons, ih h.2, h.1]
    rfl

theorem setSig_createAF (t : Sigs α) (n : String) (s : List (Option α)) :
    setSig (createAF t n) n s = setSig t n s := by
  unfold createAF
  rcases hb : t.any (·.1 == n) with _ | _
  · simp only [Bool.false_eq_true, if_false]
    unfold setSig
    have h1 : (t ++ [(n, List.replicate (trackSize t) (some (0 : α)))]).any (·.1 == n) = true := by simp
    rw [h1, hb]
    simp only [if_true, Bool.false_eq_true, if_false, List.map_append, List.map_cons, List.map_nil]
    rw [map_set_of_not_any t n s hb]
    simp
  · simp

theorem filterWindowG_ok_odd (v : List (Option α)) (w : List α) (b np : Bool) (out : List (Option α))
    (h : filterWindowG v w b np = .ok out) : (w.length % 2 == 0) = false := by
  unfold filterWindowG at h
  rcases hb : (w.length % 2 == 0) with _ | _
  · rfl
  · simp [hb] at h

/-- `track.operate(FILTER, af_in, kernel, af_out)` with a list or Kernel object, an acceptable output
name, a non-empty track and an existing input feature is `Filter.execute` on the values of the input
feature, the output being stored under `af_out` -/
theorem operate_arg_eq (t : Sigs α) (afIn afOut : String) (ka : KArg α) (v : List (Option α))
    (k' : Option (List α)) (out : List (Option α))
    (hres : reservedName afOut = false) (hsize : trackSize t ≠ 0)
    (hv : getSig (createAF t afOut) afIn = some v) (hex : execute v ka = .ok (k', out)) :
    operate t afIn (.arg ka) afOut = .ok (.arg (nextKernel ka k'), out, setSig t afOut out) := by
  unfold execute at hex
  unfold operate resolve
  simp only
  rcases hp : prepare ka with e | ⟨k0, w, b, np⟩
  · simp [hp] at hex
  · simp only [hp] at hex ⊢
    rcases hfw : filterWindowG v w b np with e | out0
    · simp [hfw] at hex
    · simp only [hfw, Except.ok.injEq, Prod.mk.injEq] at hex
      obtain ⟨rfl, rfl⟩ := hex
      have hodd := filterWindowG_ok_odd v w b np _ hfw
      have hs : (trackSize t == 0) = false := by simpa using hsize
      simp only [hodd, hres, hs, Bool.false_eq_true, if_false, hv, hfw, setSig_createAF, nextSrc]

theorem reservedName_temp : reservedName "temp" = false := by decide

theorem reservedName_feature (af : String) (h1 : ¬ (af = "x" ∨ af = "y" ∨ af = "z"))
    (h2 : af ≠ "t" ∧ af ≠ "timestamp" ∧ af ≠ "idx") : reservedName af = false := by
  unfold reservedName
  simp only [not_or] at h1
  simp [h1.1, h1.2.1, h1.2.2, h2.1, h2.2.1, h2.2.2]

/-- one turn of the loop of `filter_seq` on an existing coordinate / feature of a non-empty track -/
theorem seqLoop_step' (kern : KArg α) (af : String) (rest : List String) (t : Sigs α) (v : List (Option α))
    (k' : Option (List α)) (out : List (Option α))
    (hv : getSig t af = some v) (hex : execute v kern = .ok (k', out))
    (hsize : trackSize t ≠ 0) (hres : af ≠ "t" ∧ af ≠ "timestamp" ∧ af ≠ "idx") :
    seqLoop (af :: rest) (.arg kern) t = seqLoop rest (.arg (nextKernel kern k')) (stepSig t af out) := by
  rw [seqLoop]
  unfold stepSig
  by_cases h : af = "x" ∨ af = "y" ∨ af = "z"
  · have hne : af ≠ "temp" := by rcases h with rfl | rfl | rfl <;> decide
    have hv' : getSig (createAF t "temp") af = some v := by rw [getSig_createAF_other _ _ _ hne]; exact hv
    simp [h, operate_arg_eq t af "temp" kern v k' out reservedName_temp hsize hv' hex]
  · have hv' : getSig (createAF t af) af = some v := by rw [createAF_of_getSig t af v hv]; exact hv
    simp [h, operate_arg_eq t af af kern v k' out (reservedName_feature af h hres) hsize hv' hex]

theorem seqLoop_step (kern : KArg α) (F : List (Option α) → List (Option α)) (af : String) (rest : List String)
    (t : Sigs α) (v : List (Option α)) (hv : getSig t af = some v) (hs : StableOn kern F v)
    (hsize : trackSize t ≠ 0) (hres : af ≠ "t" ∧ af ≠ "timestamp" ∧ af ≠ "idx") :
    seqLoop (af :: rest) (.arg kern) t = seqLoop rest (.arg kern) (stepSig t af (F v)) := by
  obtain ⟨k', hex, hk⟩ := hs
  rw [seqLoop_step' kern af rest t v k' _ hv hex hsize hres, hk]

theorem seqLoop_stable (kern : KArg α) (F : List (Option α) → List (Option α)) (hF : ∀ v, (F v).length = v.length) :
    ∀ (dims : List String) (t : Sigs α), dims.Nodup → "temp" ∉ dims →
      (∀ d ∈ dims, d ≠ "t" ∧ d ≠ "timestamp" ∧ d ≠ "idx") → trackSize t ≠ 0 →
      (∀ d ∈ dims, ∃ v, getSig t d = some v ∧ StableOn kern F v) →
      ∃ t', seqLoop dims (.arg kern) t = .ok t' ∧
        (∀ d ∈ dims, ∃ v, getSig t d = some v ∧ getSig t' d = some (F v)) ∧
        (∀ nm, nm ∉ dims → nm ≠ "temp" → getSig t' nm = getSig t nm) := by
  intro dims
  induction dims with
  | nil =>
    intro t _ _ _ _ _
    exact ⟨t, by rw [seqLoop], by simp, fun _ _ _ => rfl⟩
  | cons af rest ih =>
    intro t hnd htemp hres hsize hall
    obtain ⟨v, hv, hs⟩ := hall af List.mem_cons_self
    rw [List.nodup_cons] at hnd
    have haf : af ≠ "temp" := fun h => htemp (h ▸ List.mem_cons_self)
    have hrest : "temp" ∉ rest := fun h => htemp (List.mem_cons_of_mem _ h)
    have hother : ∀ d ∈ rest, getSig (stepSig t af (F v)) d = getSig t d := by
      intro d hd
      apply getSig_stepSig_other
      · rintro rfl; exact hnd.1 hd
      · rintro rfl; exact hrest hd
    obtain ⟨t', h1, h2, h3⟩ := ih (stepSig t af (F v)) hnd.2 hrest
      (fun d hd => hres d (List.mem_cons_of_mem _ hd))
      (by rw [trackSize_stepSig t af v _ hv (hF v) haf]; exact hsize)
      (by
        intro d hd
        obtain ⟨w, hw, hsw⟩ := hall d (List.mem_cons_of_mem _ hd)
        exact ⟨w, by rw [hother d hd]; exact hw, hsw⟩)
    refine ⟨t', by rw [seqLoop_step kern F af rest t v hv hs hsize (hres af List.mem_cons_self)]; exact h1, ?_, ?_⟩
    · intro d hd
      rcases List.mem_cons.mp hd with rfl | hd
      · refine ⟨v, hv, ?_⟩
        rw [h3 d hnd.1 haf, getSig_stepSig_same]
      · obtain ⟨w, hw, hw'⟩ := h2 d hd
        exact ⟨w, by rw [← hother d hd]; exact hw, hw'⟩
    · intro nm hnm hnt
      have h4 : nm ∉ rest := fun h => hnm (List.mem_cons_of_mem _ h)
      have h5 : nm ≠ af := fun h => hnm (h ▸ List.mem_cons_self)
      rw [h3 nm h4 hnt, getSig_stepSig_other _ _ _ _ h5 hnt]
end seq2
end TV.Filter

namespace TV.Filter
section seq3
variable {α : Type} [Field α] [LinearOrder α] [IsStrictOrderedRing α]

theorem stable_obj (v : List (Option α)) (b : Bool) (f : α → α) (support : α) (S : Nat) (w : List α)
    (hw : slidingWindow f support S = .ok w) (hout : filterWindow v w b = .ok (meanSignal v w b)) :
    StableOn (.obj false b f support S) (fun v => meanSignal v w b) v :=
  ⟨none, execute_obj_eq v b f support S w _ hw hout, rfl⟩

theorem stable_dirac (v : List (Option α)) (b : Bool) (f : α → α) (support : α) (S : Nat)
    (hout : filterWindow v [0, 1, 0] b = .ok (meanSignal v [0, 1, 0] b)) :
    StableOn (.obj true b f support S) (fun v => meanSignal v [0, 1, 0] b) v :=
  ⟨none, execute_dirac_eq v b f support S _ hout, rfl⟩

theorem execute_list_normalised (v : List (Option α)) (k : List α) (hodd : k.length % 2 = 1)
    (hden : ∀ i, i < v.length → wtot (window v k (k.length / 2) i) ≠ 0)
    (hlen : k.length / 2 ≤ v.length) (hs : k.sum ≠ 0) :
    execute v (.list (normalise k)) = .ok (some (normalise k), meanSignal v k false) := by
  have h := execute_list_eq v (normalise k) (by rw [normalise_length]; exact hodd)
    (by
      intro i hi
      rw [normalise_length, wtot_window_normalise]
      exact div_ne_zero (hden i hi) hs)
    (by rw [normalise_length]; exact hlen)
    (by rw [normalise_sum k hs]; exact one_ne_zero)
  rw [h, normalise_idem k hs, meanSignal_normalise v k false hs]

theorem stable_list_normalised (v : List (Option α)) (k : List α) (hodd : k.length % 2 = 1)
    (hden : ∀ i, i < v.length → wtot (window v k (k.length / 2) i) ≠ 0)
    (hlen : k.length / 2 ≤ v.length) (hs : k.sum ≠ 0) :
    StableOn (.list (normalise k)) (fun v => meanSignal v k false) v :=
  ⟨some (normalise k), execute_list_normalised v k hodd hden hlen hs, rfl⟩

/-- the first turn normalises the caller's list; afterwards the loop runs as if it had been
normalised from the start -/
theorem seqLoop_list_first (k : List α) (af : String) (rest : List String) (t : Sigs α) (v : List (Option α))
    (hv : getSig t af = some v) (hodd : k.length % 2 = 1)
    (hden : ∀ i, i < v.length → wtot (window v k (k.length / 2) i) ≠ 0)
    (hlen : k.length / 2 ≤ v.length) (hs : k.sum ≠ 0)
    (hsize : trackSize t ≠ 0) (hres : af ≠ "t" ∧ af ≠ "timestamp" ∧ af ≠ "idx") :
    seqLoop (af :: rest) (.arg (.list k)) t = seqLoop (af :: rest) (.arg (.list (normalise k))) t := by
  rw [seqLoop_step' _ af rest t v _ _ hv (execute_list_eq v k hodd hden hlen hs) hsize hres,
    seqLoop_step' _ af rest t v _ _ hv (execute_list_normalised v k hodd hden hlen hs) hsize hres]
  rfl
end seq3
end TV.Filter

namespace TV.Filter
section dirac
variable {α : Type} [Field α]
/-- the window of the Dirac kernel `[0,1,0]`: only the centre sample weighs -/
theorem dirac_window (v : List (Option α)) (i : Nat) (x : α) (hx : v[i]? = some (some x)) :
    wsum (window v [0, 1, 0] 1 i) = x ∧ wtot (window v [0, 1, 0] 1 i) = 1 := by
  have hi : i < v.length := by
    rcases Nat.lt_or_ge i v.length with h | h
    · exact h
    · rw [List.getElem?_eq_none h] at hx; simp at hx
  have hc : val? v 1 i (0 + 1) = some x := by
    unfold val?
    have e : i + 1 - (0 + 1) = i := by omega
    rw [e, if_pos ⟨by omega, hi⟩, hx]; rfl
  unfold window
  rw [windowFrom_cons, windowFrom_cons, windowFrom_cons, windowFrom_nil, hc]
  cases val? v 1 i 0 <;> cases val? v 1 i (0 + 1 + 1) <;>
    simp [wsum_cons, wtot_cons, wsum_nil, wtot_nil]

end dirac
end TV.Filter
