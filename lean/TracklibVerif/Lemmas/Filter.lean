import TracklibVerif.Model.Filter
import Mathlib.Algebra.Order.Field.Basic
import Mathlib.Tactic.Ring
import Mathlib.Tactic.Linarith
import Mathlib.Tactic.FieldSimp
/-! Helper definitions (the specification side of C15) and lemmas about `Model/Filter.lean`. -/
namespace TV.Filter

/-! ## Specification: the window of an output index and its weighted mean -/
section spec
variable {α : Type}

/-- the sample `v[i - j + D]` when that index is inside the signal and the value is not NaN
(indices are natural numbers: `j ≤ i + D` says `i - j + D ≥ 0`) -/
def val? (v : List (Option α)) (D i j : Nat) : Option α :=
  if j ≤ i + D ∧ i + D - j < v.length then (v[i + D - j]?).join else none

/-- the window of output index `i`: the pairs `(k[j], v[i - j + D])` for the kernel positions `j`
(counted from `j0` for the head of `k`) whose sample is inside the signal and not NaN -/
def windowFrom (v : List (Option α)) (D i : Nat) (k : List α) (j0 : Nat) : List (α × α) :=
  (k.zipIdx j0).filterMap (fun p => (val? v D i p.2).map (fun x => (p.1, x)))

/-- the window of output index `i` for the kernel `k` with half width `D` -/
def window (v : List (Option α)) (k : List α) (D i : Nat) : List (α × α) := windowFrom v D i k 0

variable [Field α]
/-- `Σ weight · value` over a window -/
def wsum (W : List (α × α)) : α := (W.map (fun p => p.2 * p.1)).sum
/-- `Σ weight` over a window -/
def wtot (W : List (α × α)) : α := (W.map (fun p => p.1)).sum
/-- the renormalised weighted mean of a window -/
def wmean (W : List (α × α)) : α := wsum W / wtot W

/-- the output signal the property describes: at every index the renormalised weighted mean of its
window, except that the first and last `D` values are the inputs when boundaries are not filtered -/
def meanSignal (v : List (Option α)) (k : List α) (boundary : Bool) : List (Option α) :=
  (List.range v.length).map (fun i =>
    if boundary = false ∧ (i < k.length / 2 ∨ v.length - k.length / 2 ≤ i) then (v[i]?).join
    else some (wmean (window v k (k.length / 2) i)))
end spec

/-! ## The inner loop computes the two sums of the window -/
section loop
variable {α : Type}

theorem sample_eq [Add α] [Mul α] [Div α] [OfNat α 0] (v : List (Option α)) (D i j : Nat) :
    sample v D i j = val? v D i j := by
  unfold sample val?
  simp only
  by_cases h1 : j ≤ i + D
  · have e : ((i : Int) - (j : Int) + (D : Int)) = ((i + D - j : Nat) : Int) := by omega
    rw [e]
    by_cases h2 : i + D - j < v.length
    · have n1 : ¬ (((i + D - j : Nat) : Int) < 0) := by omega
      have n2 : ¬ (((i + D - j : Nat) : Int) ≥ (v.length : Int)) := by omega
      simp only [n1, n2, if_false, h1, h2, and_self, if_true, Int.toNat_natCast]
      rcases h : v[i + D - j]? with _ | _ | x <;> simp [Option.join]
    · have n1 : ¬ (((i + D - j : Nat) : Int) < 0) := by omega
      have n2 : (((i + D - j : Nat) : Int) ≥ (v.length : Int)) := by omega
      simp [n1, n2, h2]
  · have n1 : ((i : Int) - (j : Int) + (D : Int)) < 0 := by omega
    simp [n1, h1]

theorem windowFrom_nil (v : List (Option α)) (D i j : Nat) : windowFrom v D i [] j = [] := by
  simp [windowFrom]

theorem windowFrom_cons (v : List (Option α)) (D i j : Nat) (kj : α) (ks : List α) :
    windowFrom v D i (kj :: ks) j =
      match val? v D i j with
      | none => windowFrom v D i ks (j + 1)
      | some x => (kj, x) :: windowFrom v D i ks (j + 1) := by
  unfold windowFrom
  rw [List.zipIdx_cons, List.filterMap_cons]
  cases h : val? v D i j <;> simp

variable [Field α]

theorem wsum_nil : wsum ([] : List (α × α)) = 0 := by simp [wsum]
theorem wtot_nil : wtot ([] : List (α × α)) = 0 := by simp [wtot]
theorem wsum_cons (p : α × α) (W : List (α × α)) : wsum (p :: W) = p.2 * p.1 + wsum W := by simp [wsum]
theorem wtot_cons (p : α × α) (W : List (α × α)) : wtot (p :: W) = p.1 + wtot W := by simp [wtot]

/-- the loop over `j` adds the window's `Σ k·v` to `temp[i]` and its `Σ k` to `norm` -/
theorem inner_eq (v : List (Option α)) (D i : Nat) (ks : List α) (j : Nat) (t nm : α) :
    inner v D i ks j (t, nm) = (t + wsum (windowFrom v D i ks j), nm + wtot (windowFrom v D i ks j)) := by
  induction ks generalizing j t nm with
  | nil => simp [inner, windowFrom_nil, wsum_nil, wtot_nil]
  | cons kj ks ih =>
    unfold inner
    rw [sample_eq, windowFrom_cons]
    cases h : val? v D i j with
    | none => simp only [ih]
    | some x => simp only [ih, wsum_cons, wtot_cons]; rw [add_assoc, add_assoc]

theorem cells_eq (v : List (Option α)) (k : List α) (D : Nat) :
    cells v k D = (List.range v.length).map (fun i => (wsum (window v k D i), wtot (window v k D i))) := by
  unfold cells window
  apply List.map_congr_left
  intro i _
  rw [inner_eq]; simp
end loop

/-! ## `filterWindow` returns the signal of renormalised weighted means -/
section fw
variable {α : Type} [Field α]

theorem temp_getElem? (v : List (Option α)) (k : List α) (D i : Nat) (hi : i < v.length) :
    (((List.range v.length).map (fun i => (wsum (window v k D i), wtot (window v k D i)))).map
        (fun c => some (c.1 / c.2)))[i]? = some (some (wmean (window v k D i))) := by
  simp [hi, wmean]

theorem meanSignal_get (v : List (Option α)) (k : List α) (b : Bool) (i : Nat) (hi : i < v.length) :
    (meanSignal v k b)[i]? = some (if b = false ∧ (i < k.length / 2 ∨ v.length - k.length / 2 ≤ i) then (v[i]?).join
      else some (wmean (window v k (k.length / 2) i))) := by
  unfold meanSignal
  rw [List.getElem?_map, List.getElem?_range hi]
  rfl

variable [DecidableEq α]

/-- odd window, no window with a zero norm, and (when boundaries are copied) a signal at least as
long as the half window: `Filter.execute` returns `meanSignal` -/
theorem filterWindow_eq (v : List (Option α)) (k : List α) (boundary : Bool)
    (hodd : k.length % 2 = 1)
    (hden : ∀ i, i < v.length → wtot (window v k (k.length / 2) i) ≠ 0)
    (hlen : boundary = false → k.length / 2 ≤ v.length) :
    filterWindow v k boundary = .ok (meanSignal v k boundary) := by
  unfold filterWindow
  have h1 : ¬ (k.length % 2 == 0) = true := by simp [hodd]
  simp only [h1]
  rw [cells_eq]
  have h2 : ((List.range v.length).map (fun i => (wsum (window v k (k.length / 2) i), wtot (window v k (k.length / 2) i)))).any
      (fun c => c.2 == 0) = false := by
    rw [List.any_eq_false]
    intro c hc
    rw [List.mem_map] at hc
    obtain ⟨i, hi, rfl⟩ := hc
    have := hden i (List.mem_range.mp hi)
    simpa using this
  simp only [h2, Bool.false_eq_true, if_false]
  cases boundary with
  | true =>
    simp only [if_true]
    congr 1
    unfold meanSignal
    simp [wmean]
  | false =>
    have h3 : ¬ v.length < k.length / 2 := by have := hlen rfl; omega
    simp only [Bool.false_eq_true, if_false, h3]
    congr 1
    unfold meanSignal copyBoundary
    apply List.map_congr_left
    intro i hi
    have hi := List.mem_range.mp hi
    by_cases hb : i < k.length / 2 ∨ v.length - k.length / 2 ≤ i
    · have hb' : false = false ∧ (i < k.length / 2 ∨ v.length - k.length / 2 ≤ i) := ⟨rfl, hb⟩
      rw [if_pos hb, if_pos hb']
    · have hb' : ¬ (false = false ∧ (i < k.length / 2 ∨ v.length - k.length / 2 ≤ i)) := fun h => hb h.2
      rw [if_neg hb, if_neg hb', temp_getElem? v k _ i hi]
      rfl
end fw

/-! ## What is in a window -/
section members
variable {α : Type}

theorem mem_window (v : List (Option α)) (k : List α) (D i : Nat) (p : α × α) :
    p ∈ window v k D i ↔ ∃ j, k[j]? = some p.1 ∧ val? v D i j = some p.2 := by
  unfold window windowFrom
  rw [List.mem_filterMap]
  constructor
  · rintro ⟨⟨w, j⟩, hm, h⟩
    rw [List.mem_zipIdx_iff_getElem?] at hm
    cases hv : val? v D i j with
    | none => simp [hv] at h
    | some x =>
      simp only [hv, Option.map_some, Option.some.injEq] at h
      subst h
      exact ⟨j, hm, hv⟩
  · rintro ⟨j, hk, hv⟩
    refine ⟨(p.1, j), ?_, ?_⟩
    · rw [List.mem_zipIdx_iff_getElem?]; exact hk
    · simp [hv]

/-- every weight of a window is a weight of the kernel -/
theorem window_weight_mem {v : List (Option α)} {k : List α} {D i : Nat} {p : α × α}
    (h : p ∈ window v k D i) : p.1 ∈ k := by
  obtain ⟨j, hk, _⟩ := (mem_window v k D i p).mp h
  exact List.mem_of_getElem? hk

/-- every value of a window is a non-NaN sample of the signal at distance at most `D` from `i` -/
theorem window_value_mem {v : List (Option α)} {k : List α} {i : Nat} {p : α × α}
    (h : p ∈ window v k (k.length / 2) i) :
    ∃ m, m < v.length ∧ i ≤ m + k.length / 2 ∧ m ≤ i + k.length / 2 ∧ v[m]? = some (some p.2) := by
  obtain ⟨j, hk, hv⟩ := (mem_window v k _ i p).mp h
  have hj : j < k.length := by
    rcases Nat.lt_or_ge j k.length with h | h
    · exact h
    · rw [List.getElem?_eq_none h] at hk; simp at hk
  unfold val? at hv
  split at hv
  · rename_i hc
    obtain ⟨hc1, hc2⟩ := hc
    refine ⟨i + k.length / 2 - j, hc2, by omega, by omega, ?_⟩
    rcases hx : v[i + k.length / 2 - j]? with _ | _ | x <;> simp [hx, Option.join] at hv ⊢
    exact hv
  · simp at hv

/-- the centre sample, when it is not NaN, is in the window with the centre weight -/
theorem centre_mem_window (v : List (Option α)) (k : List α) (i : Nat) (x w : α)
    (hx : v[i]? = some (some x)) (hw : k[k.length / 2]? = some w) :
    (w, x) ∈ window v k (k.length / 2) i := by
  rw [mem_window]
  refine ⟨k.length / 2, hw, ?_⟩
  have hi : i < v.length := by
    rcases Nat.lt_or_ge i v.length with h | h
    · exact h
    · rw [List.getElem?_eq_none h] at hx; simp at hx
  unfold val?
  have e : i + k.length / 2 - k.length / 2 = i := by omega
  rw [e, if_pos ⟨by omega, hi⟩, hx]; rfl
end members

/-! ## Weighted means -/
section mean
variable {α : Type} [Field α]

theorem wsum_const (W : List (α × α)) (c : α) (hc : ∀ p ∈ W, p.2 = c) : wsum W = c * wtot W := by
  induction W with
  | nil => simp [wsum_nil, wtot_nil]
  | cons p W ih =>
    rw [wsum_cons, wtot_cons, ih (fun q hq => hc q (List.mem_cons_of_mem _ hq)), hc p List.mem_cons_self]
    ring

theorem wmean_const (W : List (α × α)) (c : α) (hne : wtot W ≠ 0) (hc : ∀ p ∈ W, p.2 = c) :
    wmean W = c := by
  unfold wmean
  rw [wsum_const W c hc]
  field_simp

theorem wsum_scale (W : List (α × α)) (a : α) :
    wsum (W.map (fun p => (p.1 / a, p.2))) = wsum W / a := by
  induction W with
  | nil => simp [wsum_nil]
  | cons p W ih => rw [List.map_cons, wsum_cons, wsum_cons, ih]; ring

theorem wtot_scale (W : List (α × α)) (a : α) :
    wtot (W.map (fun p => (p.1 / a, p.2))) = wtot W / a := by
  induction W with
  | nil => simp [wtot_nil]
  | cons p W ih => rw [List.map_cons, wtot_cons, wtot_cons, ih]; ring

/-- dividing every weight by the same non-zero number does not change the mean -/
theorem wmean_scale (W : List (α × α)) (a : α) (ha : a ≠ 0) :
    wmean (W.map (fun p => (p.1 / a, p.2))) = wmean W := by
  unfold wmean
  rw [wsum_scale, wtot_scale]
  by_cases h0 : wtot W = 0
  · simp [h0]
  · field_simp

variable [LinearOrder α] [IsStrictOrderedRing α]

theorem wsum_lower (W : List (α × α)) (lo : α) (hw : ∀ p ∈ W, 0 ≤ p.1) (hlo : ∀ p ∈ W, lo ≤ p.2) :
    lo * wtot W ≤ wsum W := by
  induction W with
  | nil => simp [wsum_nil, wtot_nil]
  | cons p W ih =>
    rw [wsum_cons, wtot_cons]
    have h1 := ih (fun q hq => hw q (List.mem_cons_of_mem _ hq)) (fun q hq => hlo q (List.mem_cons_of_mem _ hq))
    have h2 : lo * p.1 ≤ p.2 * p.1 := mul_le_mul_of_nonneg_right (hlo p List.mem_cons_self) (hw p List.mem_cons_self)
    linarith

theorem wsum_upper (W : List (α × α)) (hi : α) (hw : ∀ p ∈ W, 0 ≤ p.1) (hhi : ∀ p ∈ W, p.2 ≤ hi) :
    wsum W ≤ hi * wtot W := by
  induction W with
  | nil => simp [wsum_nil, wtot_nil]
  | cons p W ih =>
    rw [wsum_cons, wtot_cons]
    have h1 := ih (fun q hq => hw q (List.mem_cons_of_mem _ hq)) (fun q hq => hhi q (List.mem_cons_of_mem _ hq))
    have h2 : p.2 * p.1 ≤ hi * p.1 := mul_le_mul_of_nonneg_right (hhi p List.mem_cons_self) (hw p List.mem_cons_self)
    linarith

theorem wmean_bounds (W : List (α × α)) (lo hi : α) (hw : ∀ p ∈ W, 0 ≤ p.1) (hpos : 0 < wtot W)
    (hlo : ∀ p ∈ W, lo ≤ p.2) (hhi : ∀ p ∈ W, p.2 ≤ hi) : lo ≤ wmean W ∧ wmean W ≤ hi := by
  unfold wmean
  exact ⟨(le_div_iff₀ hpos).mpr (wsum_lower W lo hw hlo), (div_le_iff₀ hpos).mpr (wsum_upper W hi hw hhi)⟩

theorem wtot_nonneg (W : List (α × α)) (hw : ∀ p ∈ W, 0 ≤ p.1) : 0 ≤ wtot W := by
  induction W with
  | nil => simp [wtot_nil]
  | cons p W ih =>
    rw [wtot_cons]
    have := ih (fun q hq => hw q (List.mem_cons_of_mem _ hq))
    have := hw p List.mem_cons_self
    linarith

/-- a member with a positive weight makes the norm positive -/
theorem wtot_pos_of_mem (W : List (α × α)) (hw : ∀ p ∈ W, 0 ≤ p.1) (q : α × α) (hq : q ∈ W) (hq0 : 0 < q.1) :
    0 < wtot W := by
  induction W with
  | nil => simp at hq
  | cons p W ih =>
    rw [wtot_cons]
    have hp := hw p List.mem_cons_self
    have hW := wtot_nonneg W (fun r hr => hw r (List.mem_cons_of_mem _ hr))
    rcases List.mem_cons.mp hq with rfl | h
    · linarith
    · have := ih (fun r hr => hw r (List.mem_cons_of_mem _ hr)) h
      linarith

theorem wsum_strict_lower (W : List (α × α)) (y : α) (hw : ∀ p ∈ W, 0 ≤ p.1) (hpos : 0 < wtot W)
    (h : ∀ p ∈ W, y < p.2) : y * wtot W < wsum W := by
  induction W with
  | nil => simp [wtot_nil] at hpos
  | cons p W ih =>
    rw [wsum_cons, wtot_cons] at *
    have hwW : ∀ q ∈ W, 0 ≤ q.1 := fun q hq => hw q (List.mem_cons_of_mem _ hq)
    have hW : ∀ q ∈ W, y < q.2 := fun q hq => h q (List.mem_cons_of_mem _ hq)
    have hp0 := hw p List.mem_cons_self
    have hpy := h p List.mem_cons_self
    rcases lt_or_eq_of_le (wtot_nonneg W hwW) with h0 | h0
    · have := ih hwW h0 hW
      have : y * p.1 ≤ p.2 * p.1 := mul_le_mul_of_nonneg_right (le_of_lt hpy) hp0
      linarith
    · have hp1 : 0 < p.1 := by linarith
      have : y * p.1 < p.2 * p.1 := mul_lt_mul_of_pos_right hpy hp1
      have := wsum_lower W y hwW (fun q hq => le_of_lt (hW q hq))
      linarith

theorem wsum_strict_upper (W : List (α × α)) (y : α) (hw : ∀ p ∈ W, 0 ≤ p.1) (hpos : 0 < wtot W)
    (h : ∀ p ∈ W, p.2 < y) : wsum W < y * wtot W := by
  induction W with
  | nil => simp [wtot_nil] at hpos
  | cons p W ih =>
    rw [wsum_cons, wtot_cons] at *
    have hwW : ∀ q ∈ W, 0 ≤ q.1 := fun q hq => hw q (List.mem_cons_of_mem _ hq)
    have hW : ∀ q ∈ W, q.2 < y := fun q hq => h q (List.mem_cons_of_mem _ hq)
    have hp0 := hw p List.mem_cons_self
    have hpy := h p List.mem_cons_self
    rcases lt_or_eq_of_le (wtot_nonneg W hwW) with h0 | h0
    · have := ih hwW h0 hW
      have : p.2 * p.1 ≤ y * p.1 := mul_le_mul_of_nonneg_right (le_of_lt hpy) hp0
      linarith
    · have hp1 : 0 < p.1 := by linarith
      have : p.2 * p.1 < y * p.1 := mul_lt_mul_of_pos_right hpy hp1
      have := wsum_upper W y hwW (fun q hq => le_of_lt (hW q hq))
      linarith

theorem wmean_lt_of_all_gt (W : List (α × α)) {y : α} (hw : ∀ p ∈ W, 0 ≤ p.1) (hpos : 0 < wtot W)
    (h : ∀ p ∈ W, y < p.2) : y < wmean W := by
  unfold wmean
  exact (lt_div_iff₀ hpos).mpr (wsum_strict_lower W y hw hpos h)

theorem wmean_gt_of_all_lt (W : List (α × α)) {y : α} (hw : ∀ p ∈ W, 0 ≤ p.1) (hpos : 0 < wtot W)
    (h : ∀ p ∈ W, p.2 < y) : wmean W < y := by
  unfold wmean
  exact (div_lt_iff₀ hpos).mpr (wsum_strict_upper W y hw hpos h)
end mean

end TV.Filter
