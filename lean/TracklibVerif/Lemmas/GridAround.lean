import TracklibVerif.Lemmas.GridSearch
/-! Given-unit segment / track neighbourhoods (`neighborhood([c1, c2], None, unit)`, `neighborhood(track, None, unit)`)
and `addFeature` with vertices OUTSIDE the extent (the `continue` that keeps a stale `coord1`) of `Model/Grid.lean`. -/
namespace TV.Grid

section index
variable {α : Type}

/-- every cell of `__neighboringcells` is inside the grid -/
theorem neighboringCells_inGrid (ix : Index α) (i j u : Int) :
    ∀ cell ∈ neighboringCells ix i j u false, (0 ≤ cell.1 ∧ cell.1 < ix.csize) ∧ (0 ≤ cell.2 ∧ cell.2 < ix.lsize) := by
  rintro ⟨i', j'⟩ hc
  rw [mem_neighboringCells] at hc
  obtain ⟨⟨a, b⟩, c, d⟩ := hc
  exact ⟨⟨by omega, by omega⟩, by omega, by omega⟩

/-- `for cell in CELLS: for cellu in NC(cell, u): addCellValuesInTAB(TAB, cellu)` never raises, keeps `TAB` and adds
everything listed within `u` units of a cell of `CELLS` -/
theorem collectAround_spec (ix : Index α) (hs : Shape ix.grid ix.csize.toNat ix.lsize.toNat) (u : Int)
    (cells : List (Int × Int)) (tab : List Nat) :
    ∃ out, collectAround ix u tab cells = .ok out ∧ (∀ x ∈ tab, x ∈ out) ∧
      ∀ cell ∈ cells, ∀ c' ∈ neighboringCells ix cell.1 cell.2 u false, ∀ d, Holds ix.grid c'.1 c'.2 d → d ∈ out := by
  induction cells generalizing tab with
  | nil => exact ⟨tab, rfl, fun _ h => h, by simp⟩
  | cons cell rest ih =>
    obtain ⟨tab', h1⟩ := collectCells_ok ix (neighboringCells ix cell.1 cell.2 u false) tab hs
      (neighboringCells_inGrid ix cell.1 cell.2 u)
    obtain ⟨t1, t2⟩ := collectCells_spec ix _ tab tab' h1
    obtain ⟨out, h2, r1, r2⟩ := ih tab'
    refine ⟨out, by unfold collectAround; simp only [h1, h2], fun x hx => r1 x (t1 x hx), ?_⟩
    intro c hc c' hc' d hd
    rcases List.mem_cons.mp hc with rfl | hc
    · exact r1 d (t2 c' hc' d hd)
    · exact r2 c hc c' hc' d hd

end index

section scalar
variable {α : Type} [Field α] [LinearOrder α] [IsStrictOrderedRing α]

omit [IsStrictOrderedRing α] in
/-- `neighborhood([a, b], None, unit)`, `unit ≥ 0`, both ends inside the extent of a good index: returns a list with
everything listed within `unit` units of a cell crossed by the query segment -/
theorem neighborhoodSeg_unit_spec (fl : α → Int) (ix : Index α) (hg : Good ix) (a b p1 p2 : α × α) (unit : Int) (hu : 0 ≤ unit)
    (ha : getCell ix a = some p1) (hb : getCell ix b = some p2) :
    ∃ l, neighborhoodSeg fl ix a b unit = .ok (some l) ∧
      ∀ cell ∈ cellsCross fl ix.csize ix.lsize p1 p2, ∀ c' ∈ neighboringCells ix cell.1 cell.2 unit false,
        ∀ d, Holds ix.grid c'.1 c'.2 d → d ∈ l := by
  obtain ⟨l, h, _, r⟩ := collectAround_spec ix hg.1.2 unit (cellsCross fl ix.csize ix.lsize p1 p2) []
  refine ⟨l, ?_, r⟩
  unfold neighborhoodSeg
  simp only [getCellR_of_nz ix hg.nz hg.bounded, ha, hb]
  rw [if_pos (by omega)]
  simp only [h]

omit [IsStrictOrderedRing α] in
/-- `neighborhood(track, None, unit)`, `unit ≥ 0`, every vertex inside the extent of a good index -/
theorem neighborhoodTrackLoop_spec (fl : α → Int) (ix : Index α) (hg : Good ix) (unit : Int) (hu : 0 ≤ unit)
    (track : List (α × α)) (prev : Option (α × α)) (tab : List Nat)
    (hin : ∀ p ∈ prev.toList ++ track, getCell ix p ≠ none) :
    ∃ l, neighborhoodTrackLoop fl ix unit tab prev track = .ok l ∧ (∀ x ∈ tab, x ∈ l) ∧
      ∀ A B, (A, B) ∈ Consec (prev.toList ++ track) → ∀ pA pB, getCell ix A = some pA → getCell ix B = some pB →
        ∀ cell ∈ cellsCross fl ix.csize ix.lsize pA pB, ∀ c' ∈ neighboringCells ix cell.1 cell.2 unit false,
          ∀ d, Holds ix.grid c'.1 c'.2 d → d ∈ l := by
  induction track generalizing prev tab with
  | nil => cases prev <;> exact ⟨tab, rfl, fun _ h => h, by simp [Consec]⟩
  | cons p2 rest ih =>
    cases prev with
    | none =>
      obtain ⟨l, h, r1, r2⟩ := ih (some p2) tab (by simpa using hin)
      exact ⟨l, by simpa [neighborhoodTrackLoop] using h, r1, by simpa using r2⟩
    | some p1 =>
      obtain ⟨q1, hq1⟩ := Option.ne_none_iff_exists'.mp (hin p1 (by simp))
      obtain ⟨q2, hq2⟩ := Option.ne_none_iff_exists'.mp (hin p2 (by simp))
      obtain ⟨cells, hs, rs⟩ := neighborhoodSeg_unit_spec fl ix hg p1 p2 q1 q2 unit hu hq1 hq2
      obtain ⟨l, h, r1, r2⟩ := ih (some p2) (addAll tab cells) (by
        intro p hp
        apply hin
        simp only [Option.toList_some, List.singleton_append, List.mem_cons] at hp ⊢
        exact Or.inr hp)
      refine ⟨l, by simp only [neighborhoodTrackLoop, hs, h], fun x hx => r1 x ((mem_addAll _ _ _).mpr (Or.inl hx)), ?_⟩
      intro A B hAB pA pB hA hB cell hcell c' hc' d hd
      simp only [Option.toList_some, List.singleton_append, Consec, List.mem_cons, Prod.mk.injEq] at hAB
      rcases hAB with ⟨rfl, rfl⟩ | hAB
      · rw [hq1] at hA; cases hA
        rw [hq2] at hB; cases hB
        exact r1 d ((mem_addAll _ _ _).mpr (Or.inr (rs cell hcell c' hc' d hd)))
      · exact r2 A B (by simpa using hAB) pA pB hA hB cell hcell c' hc' d hd

/-! ### `addFeature` with vertices outside the extent -/

/-- the vertex is inside the (closed) extent: `__getCell` does not return `None` -/
def insideB (ix : Index α) (p : α × α) : Bool := (getCell ix p).isSome

omit [IsStrictOrderedRing α] in
theorem insideB_same {ix ix' : Index α} (h : Same ix ix') : insideB ix' = insideB ix := by
  funext p
  unfold insideB
  rw [getCell_same h]

omit [IsStrictOrderedRing α] in
/-- once `coord1` is a vertex outside the extent it stays there: `p1 is None` at every later vertex, every later
segment is skipped and the index is left as it is -/
theorem addFeatureLoop_stuck (fl : α → Int) (num : Nat) (ix : Index α) (hg : Good ix) (c1 : α × α)
    (hc1 : getCell ix c1 = none) (rest : List (α × α)) :
    addFeatureLoop fl num ix (some c1) rest = .ok ix := by
  induction rest with
  | nil => rfl
  | cons c2 rest ih =>
    unfold addFeatureLoop
    simp only [getCellR_of_nz ix hg.nz hg.bounded, hc1]
    exact ih

theorem consec_cons_of_mem {β : Type} (a : β) (l : List β) (x : β × β) (h : x ∈ Consec l) : x ∈ Consec (a :: l) := by
  cases l with
  | nil => simp [Consec] at h
  | cons c l' => simp only [Consec, List.mem_cons]; exact Or.inr h

/-- two consecutive vertices that both pass a filter are consecutive in the filtered list -/
theorem consec_filter {β : Type} (p : β → Bool) (t : List β) (A B : β) (hAB : (A, B) ∈ Consec t)
    (hA : p A = true) (hB : p B = true) : (A, B) ∈ Consec (t.filter p) := by
  induction t with
  | nil => simp [Consec] at hAB
  | cons a rest ih =>
    cases rest with
    | nil => simp [Consec] at hAB
    | cons b rest' =>
      simp only [Consec, List.mem_cons, Prod.mk.injEq] at hAB
      rcases hAB with ⟨rfl, rfl⟩ | hAB
      · simp only [List.filter_cons, hA, hB, if_true, Consec, List.mem_cons, true_or]
      · have := ih hAB
        by_cases ha : p a = true
        · rw [List.filter_cons, if_pos ha]
          exact consec_cons_of_mem _ _ _ this
        · rw [List.filter_cons, if_neg ha]
          exact this

omit [IsStrictOrderedRing α] in
/-- with `coord1` inside the extent, the loop of `addFeature` does what it would do on the list of the later vertices
that are inside the extent: an outside vertex is skipped and `coord1` keeps the last inside vertex, so the next segment
registered is the CHORD from that vertex to the next inside one -/
theorem addFeatureLoop_filter {fl : α → Int} (num : Nat) (rest : List (α × α)) (ix : Index α) (hg : Good ix) (c1 : α × α)
    (hc1 : getCell ix c1 ≠ none) :
    addFeatureLoop fl num ix (some c1) rest = addFeatureLoop fl num ix (some c1) (rest.filter (insideB ix)) := by
  induction rest generalizing ix c1 with
  | nil => rfl
  | cons c2 rest ih =>
    obtain ⟨p1, hp1⟩ := Option.ne_none_iff_exists'.mp hc1
    cases hc2 : getCell ix c2 with
    | none =>
      have hf : insideB ix c2 = false := by unfold insideB; rw [hc2]; rfl
      rw [List.filter_cons, if_neg (by rw [hf]; exact Bool.false_ne_true)]
      rw [← ih ix hg c1 hc1]
      conv => lhs; unfold addFeatureLoop
      simp only [getCellR_of_nz ix hg.nz hg.bounded, hp1, hc2]
    | some p2 =>
      have hf : insideB ix c2 = true := by unfold insideB; rw [hc2]; rfl
      rw [List.filter_cons, if_pos hf]
      conv => lhs; unfold addFeatureLoop
      conv => rhs; unfold addFeatureLoop
      simp only [getCellR_of_nz ix hg.nz hg.bounded, hp1, hc2]
      cases hs : addSegment fl ix p1 p2 num with
      | error e => rfl
      | ok ix1 =>
        obtain ⟨e1, w1, _⟩ := registerCells_spec num _ ix ix1 hg.1 hs
        have hg1 : Good ix1 := hg.same e1.1 w1
        simp only []
        rw [ih ix1 hg1 c2 (by rw [getCell_same e1.1, hc2]; exact Option.some_ne_none _), insideB_same e1.1]

end scalar
end TV.Grid
