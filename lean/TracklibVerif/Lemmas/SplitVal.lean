import TracklibVerif.Model.SplitVal
import TracklibVerif.Lemmas.SplitSeg
import TracklibVerif.Lemmas.ObsTime
/-! Helper lemmas for C11: `segmentation()` with `isnan` / `<=` as operator calls (`foldCmpG` … `segTrackG`), values
that are numbers or timestamps (`Val`). -/
namespace TV.Split
variable {α : Type}

/-- `IndexError` for the `none` of the numeric model -/
def liftIdx {γ : Type} : Option γ → Except String γ
  | none => .error "index"
  | some r => .ok r

/-- a row is *typed* for (`isnan`, `le?`, `gt`) against the thresholds from position `idx` on: wherever Python
gets to compare a non-NaN value with its threshold, `<=` answers, and answers the negation of "exceeds" -/
def Typed (isnan : α → Bool) (le? : α → α → Except String Bool) (gt : α → α → Bool) (ths : List α) (idx : Nat)
    (vals : List (Option α)) : Prop :=
  ∀ i w, vals[i]? = some w → ∀ v th, w = some v → isnan v = false → ths[idx + i]? = some th → le? v th = .ok (!gt v th)

theorem Typed.tail {isnan : α → Bool} {le? : α → α → Except String Bool} {gt : α → α → Bool} {ths : List α} {idx : Nat}
    {x : Option α} {vs : List (Option α)} (h : Typed isnan le? gt ths idx (x :: vs)) :
    Typed isnan le? gt ths (idx + 1) vs := by
  intro i w hw v th hv hn hth
  have e : idx + 1 + i = idx + (i + 1) := by omega
  rw [e] at hth
  exact h (i + 1) w (by simpa using hw) v th hv hn hth

theorem Typed.head {isnan : α → Bool} {le? : α → α → Except String Bool} {gt : α → α → Bool} {ths : List α} {idx : Nat}
    {v : α} {vs : List (Option α)} (h : Typed isnan le? gt ths idx (some v :: vs)) (hn : isnan v = false)
    (hidx : idx < ths.length) : le? v ths[idx] = .ok (!gt v ths[idx]) :=
  h 0 (some v) (by simp) v ths[idx] rfl hn (by simp [List.getElem?_eq_getElem hidx])

/-- AND mode, typed row: the fold is `acc` and "no non-NaN value exceeds its threshold" -/
theorem foldCmpG_and (isnan : α → Bool) (le? : α → α → Except String Bool) (gt : α → α → Bool) (fmax : α) (ths : List α) :
    ∀ (vals : List (Option α)) (idx : Nat) (acc : Bool),
    idx + vals.length ≤ ths.length → Typed isnan le? gt ths idx vals →
    ∃ r, foldCmpG isnan le? fmax true ths idx vals acc = .ok r ∧
      (r = true ↔ acc = true ∧
        ∀ i w, vals[i]? = some w → ∀ v th, w = some v → isnan v = false → ths[idx + i]? = some th → gt v th = false) := by
  intro vals
  induction vals with
  | nil => intro idx acc _ _; exact ⟨acc, rfl, by simp⟩
  | cons x vs ih =>
    intro idx acc hlen hty
    simp only [List.length_cons] at hlen
    rw [forall_idx_cons (P := fun i w => ∀ v th, w = some v → isnan v = false → ths[idx + i]? = some th → gt v th = false)]
    have e : ∀ i, idx + 1 + i = idx + (i + 1) := by intro i; omega
    cases x with
    | none =>
      obtain ⟨r, hr, hiff⟩ := ih (idx + 1) acc (by omega) hty.tail
      refine ⟨r, by simpa [foldCmpG] using hr, ?_⟩
      rw [hiff]
      simp only [e]
      constructor
      · rintro ⟨a, b⟩
        refine ⟨a, ?_, b⟩
        intro v th hv; cases hv
      · rintro ⟨a, _, b⟩; exact ⟨a, b⟩
    | some v =>
      have hidx : idx < ths.length := by omega
      cases hn : isnan v with
      | true =>
        obtain ⟨r, hr, hiff⟩ := ih (idx + 1) acc (by omega) hty.tail
        refine ⟨r, by simpa [foldCmpG, hn] using hr, ?_⟩
        rw [hiff]
        simp only [e]
        constructor
        · rintro ⟨a, b⟩
          refine ⟨a, ?_, b⟩
          intro v' th hv hn'; cases hv; rw [hn] at hn'; cases hn'
        · rintro ⟨a, _, b⟩; exact ⟨a, b⟩
      | false =>
        have hle := hty.head hn hidx
        cases acc with
        | false =>
          obtain ⟨r, hr, hiff⟩ := ih (idx + 1) false (by omega) hty.tail
          refine ⟨r, by simpa [foldCmpG, hn, threshold_lt fmax ths idx hidx] using hr, ?_⟩
          rw [hiff]; simp
        | true =>
          obtain ⟨r, hr, hiff⟩ := ih (idx + 1) (!gt v ths[idx]) (by omega) hty.tail
          refine ⟨r, by simpa [foldCmpG, hn, threshold_lt fmax ths idx hidx, hle] using hr, ?_⟩
          rw [hiff]
          simp only [e, Bool.not_eq_true', true_and, Nat.add_zero]
          constructor
          · rintro ⟨c, b⟩
            refine ⟨?_, b⟩
            intro v' th hv _ hth
            cases hv
            rw [List.getElem?_eq_getElem hidx] at hth
            cases hth; exact c
          · rintro ⟨c, b⟩
            exact ⟨c v ths[idx] rfl hn (List.getElem?_eq_getElem hidx), b⟩

/-- OR mode, typed row: the fold is `acc` or "some non-NaN value does not exceed its threshold" -/
theorem foldCmpG_or (isnan : α → Bool) (le? : α → α → Except String Bool) (gt : α → α → Bool) (fmax : α) (ths : List α) :
    ∀ (vals : List (Option α)) (idx : Nat) (acc : Bool),
    idx + vals.length ≤ ths.length → Typed isnan le? gt ths idx vals →
    ∃ r, foldCmpG isnan le? fmax false ths idx vals acc = .ok r ∧
      (r = false ↔ acc = false ∧
        ∀ i w, vals[i]? = some w → ∀ v th, w = some v → isnan v = false → ths[idx + i]? = some th → gt v th = true) := by
  intro vals
  induction vals with
  | nil => intro idx acc _ _; exact ⟨acc, rfl, by simp⟩
  | cons x vs ih =>
    intro idx acc hlen hty
    simp only [List.length_cons] at hlen
    rw [forall_idx_cons (P := fun i w => ∀ v th, w = some v → isnan v = false → ths[idx + i]? = some th → gt v th = true)]
    have e : ∀ i, idx + 1 + i = idx + (i + 1) := by intro i; omega
    cases x with
    | none =>
      obtain ⟨r, hr, hiff⟩ := ih (idx + 1) acc (by omega) hty.tail
      refine ⟨r, by simpa [foldCmpG] using hr, ?_⟩
      rw [hiff]
      simp only [e]
      constructor
      · rintro ⟨a, b⟩
        refine ⟨a, ?_, b⟩
        intro v th hv; cases hv
      · rintro ⟨a, _, b⟩; exact ⟨a, b⟩
    | some v =>
      have hidx : idx < ths.length := by omega
      cases hn : isnan v with
      | true =>
        obtain ⟨r, hr, hiff⟩ := ih (idx + 1) acc (by omega) hty.tail
        refine ⟨r, by simpa [foldCmpG, hn] using hr, ?_⟩
        rw [hiff]
        simp only [e]
        constructor
        · rintro ⟨a, b⟩
          refine ⟨a, ?_, b⟩
          intro v' th hv hn'; cases hv; rw [hn] at hn'; cases hn'
        · rintro ⟨a, _, b⟩; exact ⟨a, b⟩
      | false =>
        have hle := hty.head hn hidx
        cases acc with
        | true =>
          obtain ⟨r, hr, hiff⟩ := ih (idx + 1) true (by omega) hty.tail
          refine ⟨r, by simpa [foldCmpG, hn, threshold_lt fmax ths idx hidx] using hr, ?_⟩
          rw [hiff]; simp
        | false =>
          obtain ⟨r, hr, hiff⟩ := ih (idx + 1) (!gt v ths[idx]) (by omega) hty.tail
          refine ⟨r, by simpa [foldCmpG, hn, threshold_lt fmax ths idx hidx, hle] using hr, ?_⟩
          rw [hiff]
          simp only [e, Bool.not_eq_false', true_and, Nat.add_zero]
          constructor
          · rintro ⟨c, b⟩
            refine ⟨?_, b⟩
            intro v' th hv _ hth
            cases hv
            rw [List.getElem?_eq_getElem hidx] at hth
            cases hth; exact c
          · rintro ⟨c, b⟩
            exact ⟨c v ths[idx] rfl hn (List.getElem?_eq_getElem hidx), b⟩

/-- once the fold is decided (`False` in AND mode, `True` in OR mode) no value is compared any more: with enough
thresholds the loop ends without an exception whatever the remaining values are -/
theorem foldCmpG_decided (isnan : α → Bool) (le? : α → α → Except String Bool) (fmax : α) (andMode : Bool) (ths : List α) :
    ∀ (vals : List (Option α)) (idx : Nat), idx + vals.length ≤ ths.length →
    foldCmpG isnan le? fmax andMode ths idx vals (!andMode) = .ok (!andMode) := by
  intro vals
  induction vals with
  | nil => intro idx _; rfl
  | cons x vs ih =>
    intro idx hlen
    simp only [List.length_cons] at hlen
    cases x with
    | none => simpa [foldCmpG] using ih (idx + 1) (by omega)
    | some v =>
      have hidx : idx < ths.length := by omega
      have := ih (idx + 1) (by omega)
      cases hn : isnan v <;> cases andMode <;> simp_all [foldCmpG, threshold_lt fmax ths idx hidx]

/-- the numeric model is the case "nothing but NaN is NaN, `<=` always answers" -/
theorem foldCmpG_total [LE α] [DecidableLE α] (fmax : α) (andMode : Bool) (ths : List α) :
    ∀ (vals : List (Option α)) (idx : Nat) (acc : Bool),
    foldCmpG (fun _ => false) (fun a b => .ok (decide (a ≤ b))) fmax andMode ths idx vals acc
      = liftIdx (foldCmp fmax andMode ths idx vals acc) := by
  intro vals
  induction vals with
  | nil => intro idx acc; rfl
  | cons x vs ih =>
    intro idx acc
    cases x with
    | none => simpa [foldCmpG, foldCmp] using ih (idx + 1) acc
    | some v =>
      simp only [foldCmpG, foldCmp, Bool.false_eq_true, if_false]
      cases hth : threshold fmax ths idx with
      | none => rfl
      | some th =>
        cases andMode <;> cases acc <;> simp [ih]

theorem markersG_total [LE α] [DecidableLE α] (fmax : α) (andMode : Bool) (ths : List α) (rows : List (List (Option α))) :
    markersG (fun _ => false) (fun a b => .ok (decide (a ≤ b))) fmax andMode ths rows
      = liftIdx (markers fmax andMode ths rows) := by
  induction rows with
  | nil => rfl
  | cons r rs ih =>
    simp only [markersG, markers, markerG, marker, foldCmpG_total, ih]
    cases foldCmp fmax andMode ths 0 r andMode with
    | none => rfl
    | some b =>
      cases markers fmax andMode ths rs with
      | none => rfl
      | some bs => rfl

/-! ### `Val` -/
open TV.ObsTime in
theorem Val.isnan_false (v : Val) : Val.isnan v = false := by
  cases v with
  | num x => rfl
  | time t =>
    have : eqS t t = true := (eqS_iff t t).mpr rfl
    simp [Val.isnan, neS, this]

theorem Val.le?_sameKind (v th : Val) (h : Val.sameKind v th = true) : Val.le? v th = .ok (!Val.gt v th) := by
  cases v with
  | num a =>
    cases th with
    | num b =>
      simp only [Val.le?, Val.gt]
      congr 1
      by_cases hab : a ≤ b
      · have : ¬ b < a := fun hlt => ((Ext.not_le a b).mpr hlt) hab
        simp [hab, this]
      · have : b < a := (Ext.not_le a b).mp hab
        simp [hab, this]
    | time b => cases h
  | time a =>
    cases th with
    | num b => cases h
    | time b => rfl

theorem Val.le?_mixed (v th : Val) (h : Val.sameKind v th = false) : Val.le? v th = .error "attr" := by
  cases v <;> cases th <;> first | rfl | cases h

/-- rows whose non-NaN values have the kind of their threshold are typed -/
theorem Val.typed (ths : List Val) (vals : List (Option Val))
    (h : ∀ (i : Nat) (v th : Val), vals[i]? = some (some v) → ths[i]? = some th → Val.sameKind v th = true) :
    Typed Val.isnan Val.le? Val.gt ths 0 vals := by
  intro i w hw v th hv _ hth
  subst hv
  rw [Nat.zero_add] at hth
  exact Val.le?_sameKind v th (h i v th hw hth)

/-- a key that is none of the keys of the first list is looked up in the second -/
theorem lookup_append_skip {γ : Type} (k : String) (l r : List (String × γ)) (h : ∀ p ∈ l, p.1 ≠ k) :
    (l ++ r).lookup k = r.lookup k := by
  induction l with
  | nil => rfl
  | cons p ps ih =>
    obtain ⟨a, c⟩ := p
    have hne : (k == a) = false := by
      have := h (a, c) List.mem_cons_self
      simpa using fun e : k = a => this e.symm
    simp only [List.cons_append, List.lookup_cons, hne]
    exact ih (fun q hq => h q (List.mem_cons_of_mem _ hq))
end TV.Split
