import TracklibVerif.Lemmas.Filter
/-! Helpers for the algebraic form of the filter (`operateAlgebraic`, property C15): reading a signal of a
track after `removeAnalyticalFeature`, after the removal of the temporary `#…` features and after the assignment
`out = #0` of `Track.__applyOperation`. -/
namespace TV.Filter
section algebraic
variable {α : Type}

theorem getSig_filter_name (t : Sigs α) (f : String → Bool) (m : String) :
    getSig (t.filter (fun p => f p.1)) m = if f m = true then getSig t m else none := by
  induction t with
  | nil => simp [getSig_nil]
  | cons p t ih =>
    rw [List.filter_cons]
    by_cases hp : p.1 = m
    · cases hf : f p.1 with
      | true =>
        simp only [if_true]
        rw [getSig_cons, getSig_cons, if_pos hp, if_pos hp]
        subst hp; simp [hf]
      | false =>
        simp only [Bool.false_eq_true, if_false]
        rw [ih, getSig_cons, if_pos hp]
        subst hp; simp [hf]
    · cases hf : f p.1 with
      | true =>
        simp only [if_true]
        rw [getSig_cons, getSig_cons, if_neg hp, if_neg hp, ih]
      | false =>
        simp only [Bool.false_eq_true, if_false]
        rw [ih, getSig_cons, if_neg hp]

theorem getSig_removeSig (t : Sigs α) (n m : String) :
    getSig (removeSig t n) m = if m = n then none else getSig t m := by
  have h := getSig_filter_name t (fun x => !(x == n)) m
  unfold removeSig
  rw [h]
  by_cases hm : m = n
  · simp [hm]
  · simp [hm]

/-- the temporary features are gone, the others are read as before -/
theorem getSig_dropTemp (t : Sigs α) (m : String) :
    getSig (t.filter (fun p => !(isTemp p.1))) m = if isTemp m = true then none else getSig t m := by
  rw [getSig_filter_name t (fun x => !(isTemp x)) m]
  cases isTemp m <;> simp

theorem getSig_eq_none_of_forall (t : Sigs α) (m : String) (f : String → Bool)
    (h : ∀ p ∈ t, f p.1 = false) (hm : f m = true) : getSig t m = none := by
  induction t with
  | nil => exact getSig_nil m
  | cons p t ih =>
    rw [getSig_cons]
    have hp : ¬ p.1 = m := by
      intro e
      have := h p (by simp)
      rw [e, hm] at this
      cases this
    rw [if_neg hp]
    exact ih (fun q hq => h q (by simp [hq]))

theorem getSig_assignAF_same (t : Sigs α) (out src : String) (s : List (Option α)) (hne : out ≠ src) :
    getSig (assignAF t out src s) out = some s := by
  unfold assignAF
  split
  · split
    · rw [getSig_removeSig, if_neg hne, getSig_setSig_same]
    · exact getSig_setSig_same _ _ _
  · split
    · rw [getSig_append_single, getSig_removeSig]; simp
    · rename_i _ h
      have h' : t.any (·.1 == out) = false := by
        cases hb : t.any (·.1 == out) with
        | true => exact absurd hb h
        | false => rfl
      rw [getSig_append_single, getSig_none_of_not_any t out h']; simp

theorem getSig_assignAF_other (t : Sigs α) (out src m : String) (s : List (Option α)) (h1 : m ≠ out) (h2 : m ≠ src) :
    getSig (assignAF t out src s) m = getSig t m := by
  have h1' : ¬ out = m := fun e => h1 e.symm
  unfold assignAF
  split
  · split
    · rw [getSig_removeSig, if_neg h2, getSig_setSig_other _ _ _ _ h1]
    · exact getSig_setSig_other _ _ _ _ h1
  · split
    · rw [getSig_append_single, getSig_removeSig, if_neg h1]
      cases getSig t m <;> simp [h1']
    · rw [getSig_append_single]
      cases getSig t m <;> simp [h1']
end algebraic
end TV.Filter
